//go:build verif

package main

import (
	"context"
	"fmt"

	"verif/harness/lib"
)

// ---------------------------------------------------------------------------------------------
// Generators
// ---------------------------------------------------------------------------------------------

func genEv(r *lib.RNG) Ev {
	e := Ev{}
	if r.Chance(3, 4) {
		e.From = r.Intn(4)
	} else {
		e.From = r.Intn(nEmitAddr)
	}
	for i := r.Intn(5); i > 0; i-- {
		e.Keys = append(e.Keys, r.Intn(nEmitKey))
	}
	return e
}

func genPlan(r *lib.RNG) Plan {
	var p Plan
	for t := 1 + r.Intn(3); t > 0; t-- {
		tx := []Ev{}
		for i := r.Intn(4); i > 0; i-- {
			tx = append(tx, genEv(r))
		}
		p = append(p, tx)
	}
	return p
}

// genFilter: address sets (incl. an address that never emits), per-position key alternatives,
// empty positions (also trailing), positions beyond any event's key count.
func genFilter(r *lib.RNG) Filt {
	f := Filt{}
	switch r.Intn(5) {
	case 0, 1:
	case 2:
		f.Addrs = []int{r.Intn(nAddrCommon)}
	default:
		for i := 1 + r.Intn(3); i > 0; i-- {
			f.Addrs = append(f.Addrs, r.Intn(nAddrCommon))
		}
	}
	npos := 0
	switch r.Intn(6) {
	case 0, 1:
	case 2, 3:
		npos = 1
	case 4:
		npos = 2
	default:
		npos = 1 + r.Intn(maxKeyPos)
	}
	for p := 0; p < npos; p++ {
		alts := []int{}
		if !r.Chance(2, 5) {
			for i := 1 + r.Intn(3); i > 0; i-- {
				alts = append(alts, r.Intn(nKeyCommon))
			}
		}
		f.Keys = append(f.Keys, alts)
	}
	if r.Chance(1, 7) {
		// many alternatives (most of them absent from every block): a long address list and / or one key
		// position with up to 16 alternatives, duplicates included
		if r.Bool() {
			f.Addrs = nil
			for i := 4 + r.Intn(9); i > 0; i-- {
				f.Addrs = append(f.Addrs, r.Intn(len(addrU)))
			}
		}
		if len(f.Keys) == 0 || r.Bool() {
			alts := []int{}
			for i := 6 + r.Intn(11); i > 0; i-- {
				alts = append(alts, r.Intn(len(keyU)))
			}
			if len(f.Keys) == 0 {
				f.Keys = [][]int{alts}
			} else {
				f.Keys[r.Intn(len(f.Keys))] = alts
			}
		}
	}
	return f
}

func (f Filt) manyAlternatives() bool {
	if len(f.Addrs) >= 4 {
		return true
	}
	for _, k := range f.Keys {
		if len(k) >= 6 {
			return true
		}
	}
	return false
}

func (f Filt) broad() bool {
	if len(f.Addrs) > 0 {
		return false
	}
	for _, k := range f.Keys {
		if len(k) > 0 {
			return false
		}
	}
	return true
}

func clamp(x, lo, hi int) int {
	if x < lo {
		return lo
	}
	if x > hi {
		return hi
	}
	return x
}

// genQuery draws a query on a chain of the given height (number of blocks); hot are block numbers
// around which interesting things happened.
func genQuery(r *lib.RNG, height int, hot []int) Q {
	q := Q{F: genFilter(r)}
	q.Chunk = 1 + r.Intn(5)
	if r.Chance(1, 6) {
		q.Chunk = 100
	}
	switch r.Intn(4) {
	case 0, 1:
		q.Limit = 0
	case 2:
		q.Limit = 1 + r.Intn(5)
	default:
		q.Limit = 6 + r.Intn(40)
	}
	head := height - 1
	pick := func() int {
		switch r.Intn(6) {
		case 0:
			return 0
		case 1:
			return head
		case 2:
			return clamp(head-r.Intn(12), 0, head+3)
		case 3:
			return head + 1 + r.Intn(3)
		default:
			if len(hot) > 0 {
				return clamp(lib.Pick(r, hot)+r.Intn(9)-4, 0, head+3)
			}
			return r.Intn(height + 1)
		}
	}
	a, b := pick(), pick()
	if a > b && !r.Chance(1, 10) {
		a, b = b, a
	}
	q.From, q.To = a, b
	// how the query is asked
	if r.Chance(1, 3) {
		q.Rpc = true
	}
	if r.Chance(1, 4) {
		for i := 1 + r.Intn(3); i > 0; i-- {
			if r.Chance(1, 4) {
				q.Pre = append(q.Pre, nil)
			} else {
				q.Pre = append(q.Pre, genPlan(r))
			}
		}
	}
	switch r.Intn(8) {
	case 0:
		q.ToTag = "pre_confirmed"
	case 1:
		q.ToTag = "latest"
	case 2:
		if q.Rpc && q.To <= head {
			q.ToTag = "hash"
		}
	}
	switch r.Intn(12) {
	case 0:
		q.FromTag = "latest"
	case 1:
		q.FromTag = "pre_confirmed"
		q.ToTag = "pre_confirmed"
	case 2:
		if q.Rpc && q.From <= head {
			q.FromTag = "hash"
		}
	}
	if len(q.Pre) > 0 && r.Chance(1, 2) {
		q.ToTag = "pre_confirmed"
	}
	if len(q.Pre) > 0 && r.Chance(1, 3) {
		q.PreBack = 1 + r.Intn(2) // a pre-confirmed chain that was built on a block below the head
	}
	if q.Rpc && len(q.F.Addrs) <= 1 {
		switch r.Intn(4) {
		case 0:
			q.Api = "v9"
		case 1:
			q.Api = "v8"
			q.Pre = nil
		}
	}

	// keep the number of pages bounded: an unconstrained filter makes every block a candidate
	if q.F.broad() && q.To-q.From > 60 {
		if q.Limit > 0 && q.Limit < 6 {
			q.From = q.To - 20 - r.Intn(40)
		} else if q.To-q.From > 300 {
			q.From = q.To - 40 - r.Intn(260)
		}
		if q.From < 0 {
			q.From = 0
		}
	}
	if r.Chance(1, 6) {
		// a token the server never issued: any block around the range, any skip count
		tb := clamp(q.From+r.Intn(max(q.To-q.From, 1)+6)-2, 0, head+4)
		q.Tok = fmt.Sprintf("%d-%d", tb, lib.Pick(r, []int{0, 0, 1, 2, 3, 7}))
		if q.Tok == "0-0" {
			q.Tok = ""
		}
	}
	return q
}

// ---------------------------------------------------------------------------------------------
// Bases: chains that end shortly before the first window boundary, stored on one node per state
// backend. Histories fork from them (database copies), so the 8192-block prefix is built once.
// ---------------------------------------------------------------------------------------------

type Base struct {
	W    [2]*World // [0]: legacy state backend, [1]: new state backend
	Hot  []int
	Pool *DrvPool // model drivers pre-loaded with this base's chain
}

// extend builds a second base on top of b that ends shortly before the SECOND window boundary
// (thorough tier): histories from it have a completed, persisted window behind them.
func (b *Base) extend(r *lib.RNG, res *lib.Result, only int) *Base {
	f := &Base{Hot: append([]int{}, b.Hot...)}
	rb := r.Fork(78)
	type seg struct {
		n    int
		plan Plan
	}
	var segs []seg
	at := baseHeight
	target := 2*W - 10
	marks := []int{W - 1, W, W + 1, W + 100, W + W/2, target - 2}
	for _, m := range marks {
		if m > at {
			segs = append(segs, seg{m - at, nil})
		}
		segs = append(segs, seg{1, genPlan(rb)})
		f.Hot = append(f.Hot, m)
		at = m + 1
	}
	segs = append(segs, seg{target - at, nil})
	for i := range b.W {
		if only >= 0 && i != only {
			continue
		}
		w := b.W[i].fork("base2", rb.Fork(uint64(i)), uint64(40+i), nil, Variant{}, false)
		w.quiet = true
		for _, sg := range segs {
			if sg.n <= 0 {
				continue
			}
			w.do(Op{Kind: "store", Plan: sg.plan, N: sg.n})
		}
		if len(w.Chain) != target {
			res.Fatalf("base2: height %d, wanted %d", len(w.Chain), target)
		}
		f.W[i] = w
	}
	f.Hot = append(f.Hot, 2*W-1, 2*W, 2*W+1)
	return f
}

const baseHeight = W - 10 // blocks 0 .. W-11

func buildBases(r *lib.RNG, res *lib.Result) *Base {
	rb := r.Fork(77)
	src := newSource(rb, rb.Bool())
	b := &Base{}
	for i := range b.W {
		b.W[i] = &World{Src: src, Node: newNode(i == 1, false), Res: res, Name: "base", quiet: true, L1: -1}
	}
	// layout: events in a few dozen blocks, the rest empty
	type seg struct {
		n    int
		plan Plan
	}
	var segs []seg
	marks := map[int]bool{0: true, 1: true, 100: true, W / 2: true, baseHeight - 2: true, baseHeight - 1: true}
	for i := 0; i < 40; i++ {
		marks[rb.Intn(baseHeight)] = true
	}
	run := 0
	for n := 0; n < baseHeight; n++ {
		if marks[n] {
			if run > 0 {
				segs = append(segs, seg{run, nil})
				run = 0
			}
			p := genPlan(rb)
			if n == 100 {
				p = Plan{{Ev{From: 0, Keys: []int{0}}}}
			}
			segs = append(segs, seg{1, p})
			b.Hot = append(b.Hot, n)
		} else {
			run++
		}
	}
	if run > 0 {
		segs = append(segs, seg{run, nil})
	}
	for _, s := range segs {
		op := Op{Kind: "store", Plan: s.plan, N: s.n}
		for i := 0; i < s.n; i++ {
			bun, err := src.next(s.plan)
			if err != nil {
				res.Fatalf("base: %v", err)
				return b
			}
			for _, w := range b.W {
				if err := lib.StoreOn(w.Node.BC, bun); err != nil {
					res.Fatalf("base: store of block %d failed: %v", bun.Block.Number, err)
					return b
				}
				w.Chain = append(w.Chain, s.plan)
				w.Bundles = append(w.Bundles, bun)
			}
		}
		for _, w := range b.W {
			w.Hist = append(w.Hist, op)
		}
	}
	b.Hot = append(b.Hot, W-1, W, W+1)
	return b
}

// ---------------------------------------------------------------------------------------------
// Directed histories
// ---------------------------------------------------------------------------------------------

type Directed struct {
	Pruning bool // a pruning node: both runs use the pruner's initialiser
	Far     bool // starts from the second base (height 2W-10)
	// BelowFloor: the history leaves the assumption "not reorganised below the retention floor";
	// errors are recorded and compared with the model, not judged
	BelowFloor bool
	Name       string
	Near       bool // starts from the base (height W-10) instead of an empty node
	Ops        func(height int) []Op
	Probe      string // which repair flag this history decides ("" = none)
}

func st(n int, p Plan) Op { return Op{Kind: "store", N: n, Plan: p} }
func rv(n int) Op         { return Op{Kind: "revert", N: n} }
func qu(f Filt, from, to, chunk, limit int) Op {
	return Op{Kind: "query", Q: &Q{F: f, From: from, To: to, Chunk: chunk, Limit: limit}}
}

var (
	evA   = Plan{{Ev{From: 0, Keys: []int{0}}}}
	evB   = Plan{{}, {Ev{From: 1, Keys: []int{1, 2}}, Ev{From: 1}}}
	filtA = Filt{Addrs: []int{0}}
	filtB = Filt{Addrs: []int{1}}
)

func directed() []Directed {
	return []Directed{
		{Name: "L2-cache-warmed-then-reorg-across-window-boundary", Near: true, Probe: "cache", Ops: func(h int) []Op {
			return []Op{
				st(W+1-h, nil),         // blocks .. W (head W)
				qu(filtA, 0, W, 3, 0),  // warms the cache with window 0
				rv(2),                  // head W-2
				st(1, evB), st(1, nil), // W-1' carries B, W'
				qu(filtB, 0, W, 3, 0),     // must return the events of W-1'
				qu(filtB, W-1, W-1, 1, 1), // single block, paged
				qu(filtA, 0, W, 100, 0),
			}
		}},
		{Name: "L3-snapshot-reorg-ungraceful-restart", Probe: "snap", Ops: func(int) []Op {
			return []Op{
				st(5, nil), st(1, evA), st(15, nil), // 21 blocks
				{Kind: "snap"}, {Kind: "restart"},
				rv(2), st(1, evB), st(1, nil), // 19' carries B
				qu(filtB, 0, 20, 2, 0), // live instance
				{Kind: "restart"},      // ungraceful: no new snapshot
				qu(filtB, 0, 20, 2, 0),
				qu(filtA, 0, 20, 2, 0),
			}
		}},
		{Name: "L3b-snapshot-reorg-regrow-ungraceful-restart", Probe: "snap", Ops: func(int) []Op {
			return []Op{
				st(21, nil), {Kind: "snap"}, {Kind: "restart"},
				rv(5), st(1, nil), st(1, evB), st(8, nil), // 17' carries B, head 25
				{Kind: "restart"},
				qu(filtB, 0, 25, 1, 0),
			}
		}},
		{Name: "L15-reorg-across-boundary-then-ungraceful-restart", Near: true, Probe: "persist", Ops: func(h int) []Op {
			return []Op{
				st(W+1-h, nil), // head W
				rv(3),          // head W-3
				st(1, evB),     // W-2' carries B
				{Kind: "restart"},
				qu(filtB, 0, W-2, 2, 0),
				st(1, nil), // W-1'
				qu(filtB, 0, W-1, 2, 0),
			}
		}},
		{Name: "pruned-rebuild-from-floor", Pruning: true, Ops: func(int) []Op {
			pr := func(k int) Op { return Op{Kind: "prune", N: k} }
			return []Op{
				st(5, nil), st(1, evA), st(1, evB), st(5, nil), // 12 blocks, A in 5, B in 6
				pr(5), {Kind: "restart"}, // no snapshot, no persisted window: rebuild from the floor itself
				qu(filtA, 5, 11, 2, 0), qu(filtB, 5, 11, 2, 0), qu(filtA, 4, 11, 2, 0), qu(filtA, 0, 3, 2, 0),
				Op{Kind: "query", Q: &Q{F: filtB, From: 6, To: 11, Chunk: 2, Tok: "3-1"}},
				Op{Kind: "query", Q: &Q{F: filtB, From: 0, To: 11, Chunk: 2, Rpc: true, Api: "v9"}},
				st(1, evA), rv(2), st(1, evB), {Kind: "restart"}, qu(filtB, 5, 12, 1, 1), qu(filtA, 5, 12, 1, 1),
			}
		}},
		{Name: "pruned-fill-clamped-to-floor", Pruning: true, Ops: func(int) []Op {
			return []Op{
				st(9, nil), {Kind: "snap"}, st(16, nil), st(1, evA), st(1, evB), st(2, nil), // 29 blocks, A in 25, B in 26
				// snapshot next = 9 < floor - BlockHashLag: header 9 is gone, the fill must start at the floor
				{Kind: "prune", N: 25}, {Kind: "restart"},
				qu(filtA, 25, 28, 2, 0), qu(filtB, 25, 28, 2, 0), qu(filtA, 24, 28, 2, 0),
				{Kind: "snap"}, {Kind: "prune", N: 26}, {Kind: "restart"}, qu(filtB, 26, 28, 1, 0), qu(filtA, 26, 28, 1, 0),
			}
		}},
		{Name: "pruned-across-window-boundary", Near: true, Pruning: true, Ops: func(h int) []Op {
			pr := func(k int) Op { return Op{Kind: "prune", N: k} }
			return []Op{
				st(W-3-h, nil), st(1, evA), st(4, nil), st(1, evB), st(4, nil), // A in W-3, B in W+2, head W+6
				pr(W - 3), // floor inside the completed window 0: its persisted copy must stay
				qu(filtA, W-3, W+6, 2, 0), {Kind: "restart"}, qu(filtA, W-3, W+6, 2, 0), qu(filtB, W-3, W+6, 2, 1), qu(filtA, W-4, W+6, 2, 0),
				pr(W + 2), // floor in the head's window: window 0 goes
				qu(filtB, W+2, W+6, 2, 0), {Kind: "restart"}, qu(filtB, W+2, W+6, 2, 0), qu(filtA, W-3, W+6, 2, 0),
				st(1, evA), rv(2), st(2, evB), {Kind: "restart"}, qu(filtB, W+2, W+8, 1, 0), qu(filtA, W+2, W+8, 1, 0),
			}
		}},
		{Name: "pruned-floor-inside-a-completed-window", Near: true, Far: true, Pruning: true, Ops: func(h int) []Op {
			pr := func(k int) Op { return Op{Kind: "prune", N: k} }
			return []Op{
				st(2*W-3-h, nil), st(1, evA), st(4, nil), st(1, evB), st(4, nil), // A in 2W-3, B in 2W+2, head 2W+6
				pr(2*W - 3), // window [W, 2W-1] is complete and holds the floor: only window 0 may go
				qu(filtA, 2*W-3, 2*W+6, 2, 0), {Kind: "restart"}, qu(filtA, 2*W-3, 2*W+6, 2, 0), qu(filtB, 2*W-5, 2*W+6, 2, 0),
				rv(8), st(3, evB), st(6, nil), {Kind: "restart"}, qu(filtB, 2*W-3, 2*W+7, 1, 0), qu(filtA, 2*W-3, 2*W+7, 1, 0),
			}
		}},
		{Name: "failed-commits-at-the-window-end", Near: true, Ops: func(h int) []Op {
			return []Op{
				st(W-2-h, nil), st(1, evA), // head W-2 carries A
				{Kind: "storefail", Plan: evB}, // block W-1 would close the window: the commit fails
				qu(filtA, 0, W, 2, 0), qu(filtB, 0, W, 2, 0),
				st(1, evB), qu(filtB, 0, W, 2, 0), // now it is stored: window 0 persisted, B in W-1
				{Kind: "revertfail"}, qu(filtB, 0, W, 2, 0), // a failed revert across the boundary changes nothing
				st(1, evA), {Kind: "storefail", Plan: evA}, {Kind: "revertfail"}, qu(filtA, W-3, W+2, 1, 1),
				rv(2), {Kind: "storefail", Plan: evA}, st(1, evA), st(1, nil), qu(filtA, 0, W, 2, 0), qu(filtB, 0, W, 2, 0),
			}
		}},
		{Name: "failed-lazy-initialisation", Ops: func(int) []Op {
			return []Op{
				st(3, nil), st(1, evA), st(2, nil), {Kind: "snap"},
				{Kind: "restartfault"}, // the first access hits a transient read error
				qu(filtA, 0, 5, 2, 0),  // … the next one initialises (before c8ac4a7 the error was remembered)
				st(1, evB),             // (before c8ac4a7: this Store failed once and re-armed the initialiser)
				st(1, evB), qu(filtA, 0, 9, 2, 0), qu(filtB, 0, 9, 2, 0),
				{Kind: "restartfault"}, st(1, evA), qu(filtA, 0, 9, 2, 0), // a Store right after the failure
				{Kind: "restartfault"}, {Kind: "snap"}, {Kind: "restart"}, qu(filtB, 0, 9, 2, 0), // a snapshot write right after it
				{Kind: "restartfault"}, rv(1), rv(1), qu(filtA, 0, 9, 2, 0),
			}
		}},
		{Name: "key-position-64-and-beyond", Ops: func(int) []Op {
			// events with 66 keys; filters that constrain only position 62 / 63 / 64 / 65 (everything before is
			// unconstrained): the position index is appended to the key as a varint in three places of the
			// code — the producer of the header bloom, TestBloom (pre-confirmed blocks, subscriptions) and the
			// candidate computation on the aggregated index — and grows to two bytes at position 64
			deep := func(shift int) Plan {
				ks := make([]int, 66)
				for i := range ks {
					ks[i] = (i + shift) % nKeyCommon
				}
				return Plan{{Ev{From: 2, Keys: ks}}, {Ev{From: 3, Keys: []int{1}}}}
			}
			at := func(pos, key int) Filt {
				f := Filt{Keys: make([][]int, pos+1)}
				for i := range f.Keys {
					f.Keys[i] = []int{}
				}
				f.Keys[pos] = []int{key}
				return f
			}
			ops := []Op{st(2, nil), st(1, deep(0)), st(1, nil), st(1, deep(1)), st(2, nil)} // events in 2 and 4, head 6
			for _, pos := range deepKeyPos {
				hit, miss := pos%nKeyCommon, (pos+2)%nKeyCommon
				ops = append(ops, qu(at(pos, hit), 0, 6, 3, 0), qu(at(pos, miss), 0, 6, 3, 0), qu(at(pos, (pos+1)%nKeyCommon), 0, 6, 1, 1),
					Op{Kind: "query", Q: &Q{F: at(pos, hit), From: 0, To: 6, Chunk: 2, Rpc: true}},
					Op{Kind: "query", Q: &Q{F: at(pos, (pos+1)%nKeyCommon), From: 0, To: 6, Chunk: 2, Rpc: true, Api: "v9"}},
					Op{Kind: "query", Q: &Q{F: at(pos, hit), From: 0, To: 6, Chunk: 2, Rpc: true, Api: "v8"}},
					// pre-confirmed blocks: the TestBloom path
					Op{Kind: "query", Q: &Q{F: at(pos, hit), From: 0, To: 9, ToTag: "pre_confirmed", Chunk: 2, Pre: []Plan{deep(0), nil, deep(1)}}},
					Op{Kind: "query", Q: &Q{F: at(pos, (pos+1)%nKeyCommon), From: 5, To: 9, ToTag: "pre_confirmed", Chunk: 5, Rpc: true, Pre: []Plan{deep(1), deep(0)}}})
			}
			ops = append(ops, Op{Kind: "restart"})
			for _, pos := range deepKeyPos {
				ops = append(ops, qu(at(pos, pos%nKeyCommon), 0, 6, 3, 0))
			}
			return ops
		}},
		{Name: "pruned-database-opened-without-prune-mode", Pruning: true, Ops: func(int) []Op {
			return []Op{
				st(24, nil), st(1, evA), st(1, evB), st(2, nil), // 28 blocks, A in 24, B in 25
				{Kind: "snap"}, {Kind: "prune", N: 24}, {Kind: "restartcore"}, // graceful stop: the snapshot is trusted, all is well
				qu(filtA, 24, 27, 2, 0), qu(filtA, 23, 27, 2, 0),
				{Kind: "restart"}, st(1, evA), rv(1), // the reorg drops the snapshot …
				{Kind: "restartcore"},                            // … and the initialiser without the floor walks back to the pruned headers
				qu(filtA, 24, 27, 2, 0), qu(filtB, 24, 27, 2, 0), // open finding: retained events cannot be queried
				{Kind: "restart"}, qu(filtA, 24, 27, 2, 0), qu(filtB, 24, 27, 2, 0), // with --prune-mode the same database answers
			}
		}},
		{Name: "crash-inside-the-initialiser", Near: true, Ops: func(h int) []Op {
			return []Op{
				st(W-5-h, nil), {Kind: "snap"}, st(1, evA), st(3, nil), st(1, evB), // snapshot next = W-5, head W-1
				{Kind: "restartcrash", N: 0}, qu(filtB, 0, W-1, 2, 0),
				{Kind: "restartcrash", N: 1}, qu(filtA, 0, W-1, 2, 0), qu(filtB, 0, W-1, 2, 0),
				st(1, evA), {Kind: "restartcrash", N: 1}, qu(filtA, 0, W, 2, 0),
			}
		}},
		{Name: "interrupted-prune", Pruning: true, Ops: func(int) []Op {
			return []Op{
				st(4, nil), st(1, evA), st(7, nil), st(1, evB), st(12, nil), // 25 blocks, A in 4, B in 12
				{Kind: "prunecrash", N: 20, J: 3}, qu(filtA, 0, 24, 2, 0), qu(filtA, 4, 24, 2, 0), qu(filtB, 2, 24, 2, 0),
				{Kind: "restart"}, qu(filtB, 4, 24, 2, 0),
				{Kind: "prunecrash", N: 20, J: 9}, qu(filtB, 12, 24, 2, 0), {Kind: "restart"}, qu(filtB, 11, 24, 2, 0),
				{Kind: "prune", N: 20}, qu(filtB, 12, 24, 2, 0), qu(filtB, 20, 24, 2, 0),
			}
		}},
		{Name: "reorg-below-the-retention-floor", Pruning: true, BelowFloor: true, Ops: func(int) []Op {
			// outside the assumption "a pruning node is not reorganised below its floor": the outcome
			// is recorded (model = code), not judged
			return []Op{
				st(2, nil), st(1, evA), st(3, nil), // 6 blocks
				{Kind: "prune", N: 5}, rv(1), // head 4 < floor 5: nothing retained is left
				qu(filtA, 0, 4, 2, 0), qu(filtA, 2, 9, 2, 0), qu(filtA, 5, 9, 2, 0),
				rv(1),                                    // the head's state update is pruned: refused
				{Kind: "restart"}, qu(filtA, 0, 4, 2, 0), // floor ≤ BlockHashLag: the initialiser still finds every header
				st(1, evB), qu(filtB, 5, 9, 2, 0), qu(filtB, 0, 9, 2, 0),
				st(24, nil), st(1, evA), // 31 blocks
				{Kind: "prune", N: 30}, rv(1), // floor 30 > BlockHashLag, head 29 below it
				{Kind: "restart"}, // rebuild from 0 over pruned headers: the initialiser fails
				qu(filtA, 29, 29, 2, 0), st(1, evA), qu(filtA, 30, 30, 2, 0),
			}
		}},
		{Name: "corrupted-window-store", Near: true, Ops: func(h int) []Op {
			return []Op{
				st(W+5-h, nil), qu(filtA, 0, W+5, 2, 0),
				{Kind: "tamper", T: "del 0"}, qu(filtA, 0, W+5, 2, 0), // still cached
				{Kind: "restart"}, qu(filtA, 0, W+5, 2, 0), qu(filtA, W, W+5, 2, 0), // window 0 missing: notfound
				rv(6), // re-opening window 0 fails too
				qu(filtA, W, W+5, 2, 0),
			}
		}},
		{Name: "window-stored-under-the-wrong-key", Near: true, Far: true, Ops: func(h int) []Op {
			return []Op{
				st(2*W+5-h, nil),
				{Kind: "tamper", T: fmt.Sprintf("mov %d 0", W)}, {Kind: "restart"},
				qu(filtA, 0, 2*W+5, 2, 0), qu(filtA, W, 2*W+5, 2, 0),
			}
		}},
		{Name: "boundary-walk", Near: true, Ops: func(h int) []Op {
			ops := []Op{st(W-2-h, nil), st(1, evA), st(1, evB)} // W-2 carries A, W-1 carries B: head W-1, rollover done
			f := Filt{}
			ops = append(ops, qu(filtB, W-3, W+2, 1, 1), Op{Kind: "restart"}, qu(filtB, 0, W-1, 1, 0),
				st(1, evA), qu(filtA, W-2, W, 1, 0), qu(f, W-3, W, 2, 2),
				rv(1), qu(filtA, W-2, W, 1, 0), rv(1), qu(filtB, W-3, W, 1, 0), qu(filtA, W-3, W, 1, 0),
				st(1, evA), st(1, evA), qu(filtA, 0, W, 2, 0), qu(filtB, 0, W, 2, 0),
				Op{Kind: "snap"}, Op{Kind: "restart"}, qu(filtA, W-5, W, 1, 3), qu(f, W-2, W, 1, 0))
			return ops
		}},
		{Name: "genesis-walk", Ops: func(int) []Op {
			f := Filt{}
			return []Op{
				st(1, evA), qu(filtA, 0, 0, 1, 0), qu(f, 0, 5, 1, 1), rv(1),
				st(1, evB), qu(filtA, 0, 0, 1, 0), qu(filtB, 0, 0, 1, 0), st(1, evA), st(1, nil),
				qu(f, 0, 2, 1, 1), qu(f, 0, 2, 2, 2), qu(f, 1, 0, 2, 2), qu(f, 5, 9, 2, 2),
				{Kind: "snap"}, {Kind: "restart"}, qu(f, 0, 2, 1, 0), st(1, evB), {Kind: "restart"}, qu(filtB, 0, 9, 1, 0),
			}
		}},
	}
}

func runOps(w *World, ops []Op, tag string) {
	for i, op := range ops {
		w.do(op)
		if op.Kind == "query" {
			q := *op.Q
			want := w.want(q)
			w.Res.Case(fmt.Sprintf("%s/%d/%v", tag, i, q), len(want) > 0 || q.From/W != q.To/W)
		}
	}
}

func startWorld(bases *Base, near bool, name string, r *lib.RNG, id uint64, res *lib.Result, pool *DrvPool, v Variant, newState, prunerInit bool) *World {
	if near && bases != nil {
		bi := 0
		if newState {
			bi = 1
		}
		return bases.W[bi].fork(name, r, id, pool, v, prunerInit)
	}
	return newWorld(name, r, res, pool, v, newState, prunerInit)
}

func runDirected(bases *Base, far *Base, d Directed, r *lib.RNG, id uint64, res *lib.Result, pool *DrvPool, v Variant) {
	if d.Far {
		if far == nil {
			return
		}
		bases, pool = far, far.Pool
	}
	for _, newState := range []bool{false, true} {
		if bi := map[bool]int{false: 0, true: 1}[newState]; d.Near && bases != nil && bases.W[bi] == nil {
			continue
		}
		prunerInit := newState || d.Pruning // vary the initialiser with the backend
		w := startWorld(bases, d.Near, d.Name, r, id*2+map[bool]uint64{false: 0, true: 1}[newState], res, pool, v, newState, prunerInit)
		w.Tampered = d.BelowFloor
		runOps(w, d.Ops(len(w.Chain)), "directed:"+d.Name)
		w.close()
		res.Hit("history:directed")
	}
}

// probeVariant runs the lead histories on the real code only and reports which repairs are in.
func probeVariant(bases *Base, r *lib.RNG) Variant {
	v := Variant{FixCache: true, FixSnap: true, FixPersist: true}
	for i, d := range directed() {
		if d.Probe == "" || d.Far || (d.Near && bases == nil) {
			continue
		}
		tmp := lib.NewResult("probe")
		w := startWorld(bases, d.Near, "probe:"+d.Name, r.Fork(uint64(300+i)), uint64(900+i), tmp, nil, Variant{}, false, false)
		w.Res = tmp
		runOps(w, d.Ops(len(w.Chain)), "probe")
		omitted := false
		for _, vi := range tmp.Violations {
			if vi.Sig == "matching-event-omitted" {
				omitted = true
			}
		}
		if tmp.Fatal != nil {
			panic(fmt.Sprintf("probe failed: %v", tmp.Fatal))
		}
		if omitted {
			switch d.Probe {
			case "cache":
				v.FixCache = false
			case "snap":
				v.FixSnap = false
			case "persist":
				v.FixPersist = false
			}
		}
	}
	// is a failed lazy initialisation remembered for event queries?
	{
		tmp := lib.NewResult("probe")
		w := newWorld("probe:init-retry", r.Fork(399), tmp, nil, Variant{}, false, false)
		w.do(st(1, nil))
		w.do(st(1, evA))
		w.do(Op{Kind: "restartfault"})
		pg := realPage(w.Node, w, Q{F: filtA, From: 0, To: 1, Chunk: 5}, nil, "")
		v.InitRetry = pg.Err == ""
		if tmp.Fatal != nil {
			panic(fmt.Sprintf("probe failed: %v", tmp.Fatal))
		}
	}
	// does a Blockchain without an initialiser option cope with a pruned database?
	{
		tmp := lib.NewResult("probe")
		w := newWorld("probe:default-init", r.Fork(398), tmp, nil, Variant{}, false, true)
		w.do(st(24, nil))
		w.do(st(1, evA))
		w.do(st(2, nil))
		w.do(Op{Kind: "prune", N: 24})
		w.Node.Pruner = false
		w.Node.open()
		pg := realPage(w.Node, w, Q{F: filtA, From: 24, To: 26, Chunk: 5}, nil, "")
		v.DefaultInitFloorAware = pg.Err == ""
		if tmp.Fatal != nil {
			panic(fmt.Sprintf("probe failed: %v", tmp.Fatal))
		}
	}
	// does starknet_subscribeEvents accept a node without an L1 head?
	{
		tmp := lib.NewResult("probe")
		w := newWorld("probe:sub-l1", r.Fork(397), tmp, nil, Variant{}, false, false)
		w.do(st(1, evA))
		ss := newSubSync()
		api := w.subAPIs(ss)[0]
		ctx, cancel := context.WithCancel(context.Background())
		h, _ := w.trySubscribe(ctx, api, filtA, "latest", false)
		v.SubL1Tolerant = h != nil
		cancel()
		if tmp.Fatal != nil {
			panic(fmt.Sprintf("probe failed: %v", tmp.Fatal))
		}
	}
	return v
}

// ---------------------------------------------------------------------------------------------
// Random histories
// ---------------------------------------------------------------------------------------------

func runRandom(bases *Base, near, isFar bool, r *lib.RNG, id uint64, res *lib.Result, f lib.Flags, pool *DrvPool, v Variant) {
	newState := r.Bool()
	if isFar {
		res.Hit("history:random-near-second-boundary")
		if bases.W[0] == nil {
			newState = true
		} else if bases.W[1] == nil {
			newState = false
		}
	}
	prunerInit := r.Bool()
	name := fmt.Sprintf("random-%d", id)
	w := startWorld(bases, near, name, r, id, res, pool, v, newState, prunerInit)
	defer w.close()
	hot := []int{0, 1}
	if near {
		hot = append([]int{}, bases.Hot...)
		// bring the head to a random place around the boundary
		if k := r.Intn(14); k > 0 {
			w.do(st(k, nil))
		}
	} else {
		w.do(st(1+r.Intn(6), nil))
	}
	if r.Chance(1, 2) {
		w.do(Op{Kind: "l1", N: r.Intn(len(w.Chain))})
	}
	pruning := prunerInit && r.Chance(1, 2)
	prunes := 0
	nOps := f.Scale(40, 60)
	for i := 0; i < nOps; i++ {
		h := len(w.Chain)
		var op Op
		if pruning && prunes < 2 && h > 4 && r.Chance(1, 12) {
			// move the retention floor: somewhere behind the head, or just around a window boundary
			k := h - 1 - r.Intn(min(h-1, 25))
			if h > W && r.Chance(1, 2) {
				k = W - 3 + r.Intn(7)
			}
			if k > w.Floor && k < h {
				prunes++
				hot = append(hot, k)
				w.do(Op{Kind: "prune", N: k})
				continue
			}
		}
		switch x := r.Intn(100); {
		case x < 30:
			op = st(1, genPlan(r))
			hot = append(hot, h)
		case x < 40:
			op = st(1+r.Intn(5), nil)
		case x < 55:
			d := 1 + r.Intn(4)
			if r.Chance(1, 4) {
				d = 1 + r.Intn(14)
			}
			if d > h {
				d = h
			}
			if w.Floor > 0 && d > h-1-w.Floor {
				d = h - 1 - w.Floor // a pruning node is not reorganised below its retention floor
			}
			if d <= 0 {
				continue
			}
			if !near && h-d < 1 && !r.Chance(1, 5) {
				d = h - 1 // rarely revert down to the empty chain
				if d <= 0 {
					continue
				}
			}
			op = rv(d)
		case x < 85:
			if h == 0 {
				continue
			}
			q := genQuery(r, h, hot)
			if w.Floor > 0 && r.Chance(2, 3) && q.FromTag == "" && q.From < w.Floor {
				q.From = w.Floor + r.Intn(3) // most queries of a pruning node stay in the retained range
			}
			if q.Rpc && r.Chance(1, 8) {
				// block ids the handler resolves itself: the L1 head (also when none is stored), hashes of
				// blocks above the head or of pruned blocks
				switch r.Intn(4) {
				case 0:
					if q.Api != "v8" {
						q.FromTag, q.L1 = "l1_accepted", max(w.L1, 0)
					}
				case 1:
					if q.Api != "v8" {
						q.ToTag, q.L1 = "l1_accepted", max(w.L1, 0)
					}
				case 2:
					q.ToTag, q.To = "hash", h+r.Intn(3)
				default:
					q.FromTag, q.From = "hash", r.Intn(h+2)
				}
			}
			op = Op{Kind: "query", Q: &q}
		case x < 88:
			w.do(Op{Kind: "snap"})
			op = Op{Kind: "restart"}
		case x < 90:
			switch r.Intn(4) {
			case 0:
				op = Op{Kind: "storefail", Plan: genPlan(r)}
			case 1:
				op = Op{Kind: "revertfail"}
			case 2:
				op = Op{Kind: "restartcrash", N: r.Intn(2)}
			default:
				op = Op{Kind: "restartfault"}
			}
		case x < 96:
			op = Op{Kind: "restart"}
		default:
			op = Op{Kind: "snap"}
		}
		w.do(op)
		if op.Kind == "query" {
			q := *op.Q
			want := w.want(q)
			res.Case(fmt.Sprintf("%s/%d", name, i), len(want) > 0 || q.From/W != q.To/W)
			res.Sample(6, map[string]any{"history": name, "height": len(w.Chain), "query": q, "events": len(want)})
			if q.From/W != q.To/W {
				res.Hit("query:crosses-window-boundary")
			}
			if q.To >= len(w.Chain) {
				res.Hit("query:to-above-head")
			}
			if q.From > q.To {
				res.Hit("query:from>to")
			}
			if q.Limit > 0 {
				res.Hit("query:scan-limit")
			}
			res.Hit(fmt.Sprintf("query:chunk=%d", q.Chunk))
			if q.F.manyAlternatives() {
				res.Hit("query:filter-with-many-alternatives")
			}
		}
	}
	w.checkTokenParsing(r)
	w.checkRequestValidation()
	if id%4 == 0 {
		w.checkRequestLimits()
	}
	if pruning {
		res.Hit("history:pruning-node")
	}
	if near {
		res.Hit("history:random-near-boundary")
	} else {
		res.Hit("history:random-near-genesis")
	}
}
