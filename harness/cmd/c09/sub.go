//go:build verif

package main

import (
	"context"
	"encoding/json"
	"fmt"
	"strings"
	"sync"
	"time"

	"github.com/NethermindEth/juno/core"
	"github.com/NethermindEth/juno/core/felt"
	"github.com/NethermindEth/juno/core/pending"
	"github.com/NethermindEth/juno/feed"
	"github.com/NethermindEth/juno/jsonrpc"
	rpcv10 "github.com/NethermindEth/juno/rpc/v10"
	rpcv8 "github.com/NethermindEth/juno/rpc/v8"
	rpcv9 "github.com/NethermindEth/juno/rpc/v9"
	junosync "github.com/NethermindEth/juno/sync"
	"github.com/NethermindEth/juno/utils/log"
	"verif/harness/lib"
)

// The event SUBSCRIPTIONS of rpc v9 / v10 (starknet_subscribeEvents): a historical replay through
// the EventFilter, then every new head and (if asked) every pre-confirmed update goes through
// matchingEvents = TestBloom on the block's header bloom + MatchesAddress + MatchesEventKeys.
// The harness drives the real handler with a recording connection and feeds it controls.
//
// The feeds between sync and a subscriber keep only the last value (a slow subscriber skips
// heads by design), so each block under test is followed by a MARKER block with one event crafted
// to match the filter; the marker's notification says that everything before it was processed.
// A block that was overwritten in a feed before it was consumed shows as "nothing received": the
// send is repeated with longer gaps before an omission is reported. An event that must not be
// there is reported at once.

const markerBase = uint64(1) << 40

type subConn struct {
	mu   sync.Mutex
	msgs []subMsg
	ctx  context.Context
}

type subMsg struct {
	Raw      string
	Block    uint64
	TxHash   string
	EvIdx    int
	Finality string
	Reorg    bool
}

func (c *subConn) Write(p []byte) (int, error) {
	var m struct {
		Method string `json:"method"`
		Params struct {
			Result struct {
				BlockNumber uint64      `json:"block_number"`
				TxHash      string      `json:"transaction_hash"`
				Data        []felt.Felt `json:"data"`
				Finality    string      `json:"finality_status"`
			} `json:"result"`
		} `json:"params"`
	}
	msg := subMsg{EvIdx: -1, Raw: string(p)}
	if err := json.Unmarshal(p, &m); err == nil {
		msg.Block, msg.TxHash, msg.Finality = m.Params.Result.BlockNumber, m.Params.Result.TxHash, m.Params.Result.Finality
		if len(m.Params.Result.Data) == 2 {
			msg.EvIdx = int(m.Params.Result.Data[1].Uint64())
		}
		msg.Reorg = m.Method != "starknet_subscriptionEvents"
	}
	c.mu.Lock()
	c.msgs = append(c.msgs, msg)
	c.mu.Unlock()
	return len(p), nil
}
func (c *subConn) Equal(o jsonrpc.Conn) bool { return c == o }
func (c *subConn) Context() context.Context  { return c.ctx }
func (c *subConn) snapshot(from int) []subMsg {
	c.mu.Lock()
	defer c.mu.Unlock()
	return append([]subMsg{}, c.msgs[from:]...)
}
func (c *subConn) len() int { c.mu.Lock(); defer c.mu.Unlock(); return len(c.msgs) }

type subSync struct {
	junosync.NoopSynchronizer
	heads  *feed.Feed[*core.Block]
	pre    *feed.Feed[*pending.PreConfirmed]
	reorgs *feed.Feed[*junosync.ReorgBlockRange]
}

func newSubSync() *subSync {
	return &subSync{heads: feed.New[*core.Block](), pre: feed.New[*pending.PreConfirmed](), reorgs: feed.New[*junosync.ReorgBlockRange]()}
}

func (s *subSync) SubscribeReorg() junosync.ReorgSubscription {
	return junosync.ReorgSubscription{Subscription: s.reorgs.Subscribe()}
}

func (s *subSync) SubscribeNewHeads() junosync.NewHeadSubscription {
	return junosync.NewHeadSubscription{Subscription: s.heads.Subscribe()}
}
func (s *subSync) SubscribePreConfirmed() junosync.PreConfirmedDataSubscription {
	return junosync.PreConfirmedDataSubscription{Subscription: s.pre.Subscribe()}
}

// mkFeedBlock builds a block that is only sent through a feed (never stored).
func (w *World) mkFeedBlock(number uint64, plan Plan) *core.Block {
	var txs []core.Transaction
	var rcs []*core.TransactionReceipt
	for t, evs := range plan {
		tx := w.Src.mkTx(t)
		txs = append(txs, tx)
		rcs = append(rcs, mkReceipt(tx, evs, 7))
	}
	return &core.Block{Header: &core.Header{Number: number, Hash: lib.F(number + 0x77), EventsBloom: core.EventsBloom(rcs),
		TransactionCount: uint64(len(txs)), ProtocolVersion: "0.14.0"}, Transactions: txs, Receipts: rcs}
}

// markerPlan: one event that matches f whatever f is.
func markerPlan(f Filt) Plan {
	e := Ev{From: 0}
	if len(f.Addrs) > 0 {
		e.From = f.Addrs[0]
	}
	for _, alts := range f.Keys {
		k := 0
		if len(alts) > 0 {
			k = alts[0]
		}
		e.Keys = append(e.Keys, k)
	}
	return Plan{{e}}
}

// expectedOf lists the (tx hash, event index) of the events of blk that match f, in order.
func expectedOf(f Filt, plan Plan, blk *core.Block) []string {
	var out []string
	for t, tx := range plan {
		for i, e := range tx {
			if f.matches(e) {
				out = append(out, fmt.Sprintf("%s/%d", blk.Receipts[t].TransactionHash.String(), i))
			}
		}
	}
	return out
}

type subAPI struct {
	name string
	// id: the subscription's block id in the driver's syntax: "-" (none) | latest | n<hex> | h<hex> (hash of that
	// block) | hx (a hash no block has)
	subscribe func(ctx context.Context, f Filt, id string, preConfirmed bool) error
	run       func(ctx context.Context)
}

// subIDJSON renders a subscription block id as the JSON the decoder of every version reads.
func (w *World) subIDJSON(id string) []byte {
	switch {
	case id == "-":
		return nil
	case id == "latest":
		return []byte(`"latest"`)
	case id == "hx":
		return []byte(`{"block_hash":"0xdead"}`)
	case strings.HasPrefix(id, "n"):
		var n uint64
		fmt.Sscanf(id[1:], "%x", &n)
		return []byte(fmt.Sprintf(`{"block_number":%d}`, n))
	case strings.HasPrefix(id, "h"):
		var n int
		fmt.Sscanf(id[1:], "%x", &n)
		if n >= len(w.Bundles) {
			return []byte(`{"block_hash":"0xdead"}`)
		}
		return []byte(fmt.Sprintf(`{"block_hash":"%s"}`, w.Bundles[n].Block.Hash.String()))
	}
	w.Res.Fatalf("harness: subscription id %q", id)
	return nil
}

func rpcErrString(rerr *jsonrpc.Error) error {
	return fmt.Errorf("rpc error %d %s %v", rerr.Code, rerr.Message, rerr.Data)
}

func (w *World) subAPIs(ss *subSync) []subAPI {
	h10 := rpcv10.New(w.Node.BC, ss, nil, log.NewNopZapLogger())
	h9 := rpcv9.New(w.Node.BC, ss, nil, log.NewNopZapLogger())
	return []subAPI{
		{name: "v10", run: func(ctx context.Context) { _ = h10.Run(ctx) },
			subscribe: func(ctx context.Context, f Filt, id string, pre bool) error {
				addrs, keys := f.real()
				var bid *rpcv10.SubscriptionBlockID
				if raw := w.subIDJSON(id); raw != nil {
					bid = new(rpcv10.SubscriptionBlockID)
					if err := json.Unmarshal(raw, bid); err != nil {
						return fmt.Errorf("harness: block id %s: %w", raw, err)
					}
				}
				var fin *rpcv10.TxnFinalityStatusWithoutL1
				if pre {
					v := rpcv10.TxnFinalityStatusWithoutL1(rpcv10.TxnPreConfirmed)
					fin = &v
				}
				if _, rerr := h10.SubscribeEvents(ctx, rpcv10.AddressList(addrs), keys, bid, fin); rerr != nil {
					return rpcErrString(rerr)
				}
				return nil
			}},
		{name: "v9", run: func(ctx context.Context) { _ = h9.Run(ctx) },
			subscribe: func(ctx context.Context, f Filt, id string, pre bool) error {
				addrs, keys := f.real()
				var addr *felt.Address
				if len(addrs) > 0 {
					addr = &addrs[0]
				}
				var bid *rpcv9.SubscriptionBlockID
				if raw := w.subIDJSON(id); raw != nil {
					bid = new(rpcv9.SubscriptionBlockID)
					if err := json.Unmarshal(raw, bid); err != nil {
						return fmt.Errorf("harness: block id %s: %w", raw, err)
					}
				}
				var fin *rpcv9.TxnFinalityStatusWithoutL1
				if pre {
					v := rpcv9.TxnFinalityStatusWithoutL1(rpcv9.TxnPreConfirmed)
					fin = &v
				}
				if _, rerr := h9.SubscribeEvents(ctx, addr, keys, bid, fin); rerr != nil {
					return rpcErrString(rerr)
				}
				return nil
			}},
	}
}

// runSubscriptions exercises the subscription path on the (small) chain of w.
func (w *World) runSubscriptions(filters []Filt) {
	if len(w.Chain) == 0 {
		return
	}
	head := len(w.Chain) - 1
	l1 := uint64(2)
	w.do(Op{Kind: "l1", N: int(l1)})
	for _, pre := range []bool{false, true} {
		ss := newSubSync()
		for _, api := range w.subAPIs(ss) {
			ctx, cancel := context.WithCancel(context.Background())
			go api.run(ctx)
			for fi, f := range filters {
				if api.name == "v9" && len(f.Addrs) > 1 {
					continue
				}
				w.oneSubscription(ctx, ss, api, f, uint64(fi%(head+1)), pre, l1)
			}
			cancel()
		}
	}
}

func (w *World) oneSubscription(parent context.Context, ss *subSync, api subAPI, f Filt, from uint64, pre bool, l1 uint64) {
	ctx, cancel := context.WithCancel(parent)
	defer cancel()
	conn := &subConn{ctx: ctx}
	rep := func(extra any) any {
		return map[string]any{"history": w.replay(), "filter": f, "api": api.name, "pre_confirmed": pre, "from": from, "detail": extra}
	}
	if err := api.subscribe(context.WithValue(ctx, jsonrpc.ConnKey{}, conn), f, fmt.Sprintf("n%x", from), pre); err != nil {
		w.Res.Violate(lib.Violation{Sig: "event-subscription-refused", What: fmt.Sprintf("%s: subscribeEvents(%v, from %d): %v", api.name, f, from, err), Replay: rep(nil)})
		return
	}
	w.Res.Hit("subscription:" + api.name)
	w.compare("subscription-created", fmt.Sprintf("ok %d %d %d", from, len(w.Chain)-1, l1),
		w.ask(fmt.Sprintf("subscribe %s n%x %s %s 0", api.name, from, f.arg(), w.l1Arg())))
	seq := uint64(0)
	// send delivers blk and then markers until a marker notification arrives; it returns the
	// notifications for blk's number received in between.
	send := func(blk *core.Block, gap time.Duration) ([]subMsg, bool) {
		startIdx := conn.len()
		if blk == nil {
			startIdx = 0 // the historical replay starts writing as soon as the subscription exists
		}
		deliver := func(b *core.Block) {
			seq++
			if pre {
				ss.pre.Send(&pending.PreConfirmed{Block: b, BlockIdentifier: fmt.Sprintf("round-%d", seq)})
			} else {
				ss.heads.Send(b)
			}
		}
		if blk != nil {
			deliver(blk)
			time.Sleep(gap)
		}
		deadline := time.Now().Add(patience())
		for time.Now().Before(deadline) {
			deliver(w.mkFeedBlock(markerBase+seq+1, markerPlan(f)))
			time.Sleep(gap)
			msgs := conn.snapshot(startIdx)
			for _, m := range msgs {
				if m.Block >= markerBase {
					var out []subMsg
					for _, x := range msgs {
						if x.Block < markerBase {
							out = append(out, x)
						}
					}
					return out, true
				}
			}
		}
		impatient.Store(true)
		return nil, false
	}
	// 1. historical replay: everything before the first marker
	hist, ok := send(nil, 2*time.Millisecond)
	if !ok {
		w.Res.Violate(lib.Violation{Sig: "event-subscription-delivers-nothing", What: fmt.Sprintf("%s: no notification for a matching new head in time (filter %v)", api.name, f), Replay: rep(nil)})
		return
	}
	var got, gotFin []string
	for _, m := range hist {
		b := int(m.Block)
		want := "ACCEPTED_ON_L2"
		if m.Block <= l1 {
			want = "ACCEPTED_ON_L1"
		}
		if m.Finality != want {
			w.Res.Violate(lib.Violation{Sig: "event-subscription-wrong-finality", What: fmt.Sprintf("%s: historical event of block %d has finality %s", api.name, b, m.Finality), Replay: rep(nil)})
		}
		t := -1
		if b < len(w.Bundles) {
			for ti, rc := range w.Bundles[b].Block.Receipts {
				if rc.TransactionHash.String() == m.TxHash {
					t = ti
				}
			}
		}
		got = append(got, Em{b, t, m.EvIdx}.String())
		gotFin = append(gotFin, Em{b, t, m.EvIdx}.String()+"/"+map[string]string{"ACCEPTED_ON_L1": "L1", "ACCEPTED_ON_L2": "L2"}[m.Finality])
	}
	if len(gotFin) == 0 {
		gotFin = []string{"-"}
	}
	w.compare("subscription-historical-replay", strings.Join(gotFin, ","),
		w.ask(fmt.Sprintf("subreplay %s %x %x %s", f.arg(), from, len(w.Chain)-1, w.l1Arg())))
	wantH := emsString(naive(w.Chain, f, int(from), len(w.Chain)-1))
	gotH := "-"
	if len(got) > 0 {
		gotH = ""
		for i, g := range got {
			if i > 0 {
				gotH += ","
			}
			gotH += g
		}
	}
	w.Res.Hit("subscription:historical-replay-checked")
	if gotH != wantH {
		w.Res.Violate(lib.Violation{Sig: "event-subscription-historical-replay-differs",
			What: fmt.Sprintf("%s: subscribeEvents(%v) from block %d replayed %s, the chain has %s", api.name, f, from, gotH, wantH), Replay: rep(conn.snapshot(0))})
	}
	// 2. live blocks
	for bi, plan := range exPlans {
		blk := w.mkFeedBlock(uint64(len(w.Chain)+bi), plan)
		want := expectedOf(f, plan, blk)
		okBlock := false
		var last []string
		for _, gap := range []time.Duration{2 * time.Millisecond, 40 * time.Millisecond, 400 * time.Millisecond} {
			msgs, ok := send(blk, gap)
			if !ok {
				w.Res.Violate(lib.Violation{Sig: "event-subscription-stalls", What: fmt.Sprintf("%s: no marker notification in time", api.name), Replay: rep(plan)})
				return
			}
			last = nil
			for _, m := range msgs {
				if m.Block == blk.Number {
					last = append(last, fmt.Sprintf("%s/%d", m.TxHash, m.EvIdx))
					wantFin := "ACCEPTED_ON_L2"
					if pre {
						wantFin = "PRE_CONFIRMED"
					}
					if m.Finality != wantFin {
						w.Res.Violate(lib.Violation{Sig: "event-subscription-wrong-finality", What: fmt.Sprintf("%s: live event has finality %s, want %s", api.name, m.Finality, wantFin), Replay: rep(plan)})
					}
				}
			}
			if fmt.Sprint(last) == fmt.Sprint(want) {
				okBlock = true
				break
			}
			// anything that is not a prefix-free subset of want is wrong at once
			wantSet := map[string]bool{}
			for _, x := range want {
				wantSet[x] = true
			}
			bad := false
			for _, x := range last {
				if !wantSet[x] {
					bad = true
				}
			}
			if bad || len(last) > len(want) {
				break
			}
			w.Res.Hit("subscription:block-resent")
		}
		if okBlock {
			// what the real handler notified is what the model's matchingEvents yields
			w.compare("subscription-live-block", emsString(naive([]Plan{plan}, f, 0, 0)),
				w.ask(fmt.Sprintf("live %s 0 %s %s", f.arg(), itemsLine(bloomItems(blk.EventsBloom)), planLine(plan))))
		}
		w.Res.Hit("subscription:live-block-checked")
		if len(want) > 0 {
			w.Res.Hit("subscription:live-block-with-matching-events")
		}
		if !okBlock {
			w.Res.Violate(lib.Violation{Sig: "event-subscription-live-events-differ",
				What: fmt.Sprintf("%s (pre_confirmed=%v): filter %v, block with events %v: notified %v, matching events are %v", api.name, pre, f, plan, last, want), Replay: rep(plan)})
		}
	}
}

// runSubscriptionsV8: rpc v8 reads the events of new heads from the DATABASE (EventFilter over
// [next block, new head]), so the blocks are really stored; a head notification that was overwritten
// in a feed is made up by the next one (the range covers it), which makes the marker exact here.
func (w *World) runSubscriptionsV8(filters []Filt) {
	if len(w.Chain) == 0 {
		return
	}
	ss := newSubSync()
	h := rpcv8.New(w.Node.BC, ss, nil, log.NewNopZapLogger())
	ctx, cancel := context.WithCancel(context.Background())
	defer cancel()
	go func() { _ = h.Run(ctx) }()
	for fi, f := range filters {
		if len(f.Addrs) > 1 {
			continue
		}
		from := fi % len(w.Chain)
		sctx, scancel := context.WithCancel(ctx)
		conn := &subConn{ctx: sctx}
		addrs, keys := f.real()
		var addr *felt.Address
		if len(addrs) > 0 {
			addr = &addrs[0]
		}
		id := rpcv8.SubscriptionBlockID(rpcv8.BlockIDFromNumber(uint64(from)))
		if _, rerr := h.SubscribeEvents(context.WithValue(sctx, jsonrpc.ConnKey{}, conn), addr, keys, &id); rerr != nil {
			w.Res.Violate(lib.Violation{Sig: "event-subscription-refused", What: fmt.Sprintf("v8: subscribeEvents(%v, from %d): %d %s", f, from, rerr.Code, rerr.Message),
				Replay: map[string]any{"history": w.replay(), "filter": f}})
			scancel()
			continue
		}
		w.Res.Hit("subscription:v8")
		// a block under test and the marker block are stored, then announced
		w.do(Op{Kind: "store", Plan: exPlans[fi%len(exPlans)], N: 1})
		w.do(Op{Kind: "store", Plan: markerPlan(f), N: 1})
		marker := len(w.Chain) - 1
		want := emsString(naive(w.Chain, f, from, marker))
		got, ok := "", false
		// The block under test is announced ONCE (announcing an older head again would move the handler's
		// next-block pointer back: `nextBlock = head.Number + 1`, and the marker would be notified twice);
		// the marker head may be repeated: its range [marker+1, marker] is empty the second time.
		ss.heads.Send(w.Bundles[marker-1].Block)
		time.Sleep(2 * time.Millisecond)
		deadline := time.Now().Add(patience())
		for time.Now().Before(deadline) && !ok {
			ss.heads.Send(w.Bundles[marker].Block)
			for i := 0; i < 200 && !ok; i++ {
				time.Sleep(2 * time.Millisecond)
				var ems []Em
				for _, m := range conn.snapshot(0) {
					b := int(m.Block)
					t := -1
					if b < len(w.Bundles) {
						for ti, rc := range w.Bundles[b].Block.Receipts {
							if rc.TransactionHash.String() == m.TxHash {
								t = ti
							}
						}
					}
					ems = append(ems, Em{b, t, m.EvIdx})
					if b == marker {
						ok = true
					}
				}
				got = emsString(ems)
			}
		}
		if ok {
			// everything of this announcement has been written when the handler is idle again: a grace
			// period, then the final reading (a duplicate would arrive right behind the first copy)
			time.Sleep(10 * time.Millisecond)
			var ems []Em
			for _, m := range conn.snapshot(0) {
				b := int(m.Block)
				t := -1
				if b < len(w.Bundles) {
					for ti, rc := range w.Bundles[b].Block.Receipts {
						if rc.TransactionHash.String() == m.TxHash {
							t = ti
						}
					}
				}
				ems = append(ems, Em{b, t, m.EvIdx})
			}
			got = emsString(ems)
		}
		scancel()
		w.Res.Hit("subscription:v8-checked")
		if !ok {
			impatient.Store(true)
			w.Res.Violate(lib.Violation{Sig: "event-subscription-delivers-nothing", What: fmt.Sprintf("v8: no notification for the stored marker block in time (filter %v); received %s", f, got),
				Replay: map[string]any{"history": w.replay(), "filter": f, "api": "v8"}})
			continue
		}
		if got != want {
			w.Res.Violate(lib.Violation{Sig: "event-subscription-v8-events-differ",
				What:   fmt.Sprintf("v8: subscribeEvents(%v) from block %d notified %s, the chain has %s", f, from, got, want),
				Replay: map[string]any{"history": w.replay(), "filter": f, "api": "v8", "from": from}})
		}
	}
}
