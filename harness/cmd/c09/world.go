//go:build verif

package main

import (
	"encoding/binary"
	"fmt"
	"sort"
	"strings"

	"github.com/NethermindEth/juno/blockchain"
	"github.com/NethermindEth/juno/core"
	"github.com/NethermindEth/juno/core/felt"
	"github.com/NethermindEth/juno/db"
	"github.com/NethermindEth/juno/db/memory"
	"github.com/NethermindEth/juno/pruner"
	"github.com/bits-and-blooms/bloom/v3"
	"verif/harness/lib"
)

// W is the window size of the real index.
const W = int(core.NumBlocksPerFilter)

// ---------------------------------------------------------------------------------------------
// Small universes. Events, filters and the bloom abstraction sent to the model all speak in
// universe indices; the real code sees the felts.
// ---------------------------------------------------------------------------------------------

// address universe: 0x1 / 0x2 (system contracts), two addresses sharing a 240-bit prefix, small
// ones, and one address that never emits (last).
var addrU = []felt.Felt{
	*lib.F(1), *lib.F(2),
	*lib.FHex("0x7ffffffffffffffffffffffffffffffffffffffffffffffffffffffffff0001"),
	*lib.FHex("0x7ffffffffffffffffffffffffffffffffffffffffffffffffffffffffff0002"),
	*lib.F(0x104), *lib.F(0),
	*lib.FHex("0x800000000000011000000000000000000000000000000000000000000000000"), // P-1, the largest felt
	*lib.F(0xdead), // never emits
	// round 5: more addresses that never emit (filters with many alternatives)
	*lib.F(0xdeae), *lib.FHex("0x7ffffffffffffffffffffffffffffffffffffffffffffffffffffffffff0003"), *lib.F(3), *lib.F(0xdeaf),
}

// key universe; the last one is never used by an event. Key 3 is the felt 0 (edge value).
var keyU = []felt.Felt{*lib.F(0x50), *lib.F(0x51),
	*lib.FHex("0x800000000000011000000000000000000000000000000000000000000000000"), *lib.F(0), *lib.F(0xbeef),
	// round 5: more keys no event uses (filters with many alternatives)
	*lib.F(0x52), *lib.F(0x4f), *lib.F(1), *lib.FHex("0x800000000000010ffffffffffffffffffffffffffffffffffffffffffffffff"),
	*lib.F(0xbef0), *lib.F(0xbef1), *lib.F(0xbef2), *lib.F(0x5000)}

const (
	nAddrCommon = 8 // addrU[0..7]: what ordinary filters draw from (7 = never emits)
	nKeyCommon  = 5 // keyU[0..4]: what ordinary filters draw from (4 = never used)
	nEmitAddr   = 7 // addrU[0..6] emit
	nEmitKey    = 4 // keyU[0..3] are used by events
	maxKeyPos   = 5 // bloom abstraction covers key positions 0..4
)

// Ev is one event: emitter and keys as universe indices.
type Ev struct {
	From int   `json:"from"`
	Keys []int `json:"keys"`
}

// Plan is the event content of one block: events per transaction.
type Plan [][]Ev

func (p Plan) events() int {
	n := 0
	for _, t := range p {
		n += len(t)
	}
	return n
}

// Item is one element of the bloom abstraction: an address (Pos = -1) or a key at a position.
type Item struct {
	Pos int
	Idx int
}

func (it Item) String() string {
	if it.Pos < 0 {
		return fmt.Sprintf("a%x", it.Idx)
	}
	return fmt.Sprintf("k%x.%x", it.Pos, it.Idx)
}

func (it Item) bytes() []byte {
	if it.Pos < 0 {
		b := addrU[it.Idx].Bytes()
		return b[:]
	}
	b := keyU[it.Idx].Bytes()
	return binary.AppendVarint(b[:], int64(it.Pos))
}

// deepKeyPos: binary.AppendVarint(key, int64(pos)) is one byte up to position 63, two bytes from 64.
var deepKeyPos = []int{62, 63, 64, 65}

func universeItems() []Item {
	var out []Item
	for i := range addrU {
		out = append(out, Item{-1, i})
	}
	for p := 0; p < maxKeyPos; p++ {
		for i := range keyU {
			out = append(out, Item{p, i})
		}
	}
	// round 6: the positions at both sides of the point where the varint of the position index that is
	// appended to a key (core.EventsBloom, TestBloom, getCandidateBlocksForFilterInto) grows to two bytes
	for _, p := range deepKeyPos {
		for i := range keyU {
			out = append(out, Item{p, i})
		}
	}
	return out
}

var allItems = universeItems()

// bloomItems is the abstraction of a real header bloom: the universe items it tests positive on.
func bloomItems(bf *bloom.BloomFilter) []Item {
	var out []Item
	if bf == nil {
		return out
	}
	for _, it := range allItems {
		if bf.Test(it.bytes()) {
			out = append(out, it)
		}
	}
	return out
}

func planItems(p Plan) map[Item]bool {
	m := map[Item]bool{}
	for _, tx := range p {
		for _, e := range tx {
			m[Item{-1, e.From}] = true
			for pos, k := range e.Keys {
				m[Item{pos, k}] = true
			}
		}
	}
	return m
}

// ---------------------------------------------------------------------------------------------
// Blocks with chosen events, made valid by the shared chain generator.
// ---------------------------------------------------------------------------------------------

func emptyDiff() *core.StateDiff {
	return &core.StateDiff{
		StorageDiffs:      map[felt.Felt]map[felt.Felt]*felt.Felt{},
		Nonces:            map[felt.Felt]*felt.Felt{},
		DeployedContracts: map[felt.Felt]*felt.Felt{},
		DeclaredV0Classes: []*felt.Felt{},
		DeclaredV1Classes: map[felt.Felt]*felt.Felt{},
		ReplacedClasses:   map[felt.Felt]*felt.Felt{},
		MigratedClasses:   map[felt.SierraClassHash]felt.CasmClassHash{},
	}
}

// Source wraps the shared generator; txSeq makes transaction hashes unique across forks.
type Source struct {
	G     *lib.ChainGen
	txSeq *uint64
}

func newSource(r *lib.RNG, newState bool) *Source {
	opt := lib.DefaultGenOptions()
	opt.NoClasses = true
	var seq uint64 = 1 << 32
	return &Source{G: lib.NewChainGen(r, newState, opt), txSeq: &seq}
}

// fork gives an independent generator continuing the same chain (copy of the source database).
func (s *Source) fork(r *lib.RNG, id uint64) *Source {
	g := lib.NewChainGen(r, s.G.NewState, s.G.Opt)
	d := s.G.SrcDB.Copy()
	g.SrcDB = d
	g.Src = lib.NodeOn(d, g.Net, s.G.NewState)
	// full copies: a fork that reverts below the fork point and stores again must not write
	// into the parent's backing arrays
	g.Bundles = append([]*lib.Bundle(nil), s.G.Bundles...)
	g.States = append([]*lib.AbsState(nil), s.G.States...)
	seq := (id + 2) << 32
	return &Source{G: g, txSeq: &seq}
}

func (s *Source) mkTx(sender int) core.Transaction {
	*s.txSeq++
	a := addrU[sender%nEmitAddr]
	tx := &core.InvokeTransaction{
		Version: new(core.TransactionVersion).SetUint64(3), SenderAddress: &a, Nonce: lib.F(*s.txSeq),
		CallData: []felt.Felt{}, TransactionSignature: []felt.Felt{},
		ResourceBounds: map[core.Resource]core.ResourceBounds{
			core.ResourceL1Gas:     {MaxAmount: 1, MaxPricePerUnit: lib.F(1)},
			core.ResourceL2Gas:     {MaxAmount: 1, MaxPricePerUnit: lib.F(1)},
			core.ResourceL1DataGas: {MaxAmount: 1, MaxPricePerUnit: lib.F(1)},
		},
		PaymasterData: []felt.Felt{}, AccountDeploymentData: []felt.Felt{},
	}
	h, err := core.TransactionHash(tx, s.G.Net)
	if err != nil {
		panic(err)
	}
	tx.TransactionHash = &h
	return tx
}

func mkReceipt(tx core.Transaction, evs []Ev, salt uint64) *core.TransactionReceipt {
	rc := &core.TransactionReceipt{
		Fee: lib.F(1), Events: []*core.Event{}, L2ToL1Message: []*core.L2ToL1Message{},
		TransactionHash: tx.Hash(),
		ExecutionResources: &core.ExecutionResources{
			DataAvailability: &core.DataAvailability{},
			TotalGasConsumed: &core.GasConsumed{},
		},
	}
	for i, e := range evs {
		from := addrU[e.From]
		keys := make([]felt.Felt, len(e.Keys))
		for j, k := range e.Keys {
			keys[j] = keyU[k]
		}
		rc.Events = append(rc.Events, &core.Event{From: &from, Keys: keys,
			Data: []felt.Felt{*lib.F(salt), *lib.F(uint64(i))}})
	}
	return rc
}

// next makes the next valid block carrying plan's events.
func (s *Source) next(plan Plan) (*lib.Bundle, error) {
	spec := &lib.BlockSpec{Version: "0.14.0", Diff: emptyDiff(), Classes: map[felt.Felt]core.ClassDefinition{}}
	if len(plan) == 0 {
		spec.NoTxs = true
	} else {
		for i, evs := range plan {
			tx := s.mkTx(i)
			spec.Txs = append(spec.Txs, tx)
			spec.Rcs = append(spec.Rcs, mkReceipt(tx, evs, *s.txSeq))
		}
	}
	return s.G.Next(spec)
}

// ---------------------------------------------------------------------------------------------
// The node under test.
// ---------------------------------------------------------------------------------------------

type Node struct {
	BC       *blockchain.Blockchain
	DB       *memory.Database // the data (copies, direct reads of the harness)
	F        *faultDB         // what the Blockchain sees: DB with injectable failures
	NewState bool
	Pruner   bool // use pruner.InitializeRunningEventFilter (what cmd/juno wires) instead of core's
}

func (n *Node) open() {
	opts := []blockchain.Option{}
	if n.Pruner {
		opts = append(opts, blockchain.WithRunningEventFilterInitializer(pruner.InitializeRunningEventFilter))
	}
	n.F = newFaultDB(n.DB)
	n.BC = lib.NodeOn(n.F, lib.TestNetwork(), n.NewState, opts...)
}

func newNode(newState, prunerInit bool) *Node {
	n := &Node{DB: memory.New(), NewState: newState, Pruner: prunerInit}
	n.open()
	return n
}

func (n *Node) forkNode(prunerInit bool) *Node {
	m := &Node{DB: n.DB.Copy(), NewState: n.NewState, Pruner: prunerInit}
	m.open()
	return m
}

// persistedState reads what the index keeps on disk: the from-blocks of the persisted aggregated
// windows and the snapshot's (window start, next block).
func (n *Node) persistedState() string {
	var wins []string
	it, err := n.DB.NewIterator(db.AggregatedBloomFilters.Key(), true)
	if err != nil {
		return "err:" + err.Error()
	}
	for ok := it.First(); ok; ok = it.Next() {
		k := it.Key()
		k = k[len(db.AggregatedBloomFilters.Key()):]
		if len(k) >= 16 {
			wins = append(wins, fmt.Sprintf("%d", binary.BigEndian.Uint64(k[:8])))
		}
	}
	it.Close()
	sort.Slice(wins, func(i, j int) bool {
		return len(wins[i]) < len(wins[j]) || (len(wins[i]) == len(wins[j]) && wins[i] < wins[j])
	})
	snap := "none"
	if rf, err := core.GetRunningEventFilter(n.DB); err == nil {
		nx, _ := rf.NextBlock()
		fr, _ := rf.FromBlock()
		snap = fmt.Sprintf("%d/%d", fr, nx)
	}
	floor := uint64(0)
	if f, err := pruner.OldestRetainedBlock(n.DB); err == nil {
		floor = f
	}
	return "P=[" + strings.Join(wins, ",") + "] S=" + snap + fmt.Sprintf(" F=%d", floor)
}

// writeAggUnderKey stores an aggregated filter under the key of another window.
func writeAggUnderKey(d *memory.Database, flt *core.AggregatedBloomFilter, from uint64) error {
	var got []byte
	if err := d.Get(db.AggregatedBloomFilterKey(flt.FromBlock(), flt.ToBlock()), func(v []byte) error {
		got = append([]byte{}, v...)
		return nil
	}); err != nil {
		return err
	}
	return d.Put(db.AggregatedBloomFilterKey(from, from+uint64(W)-1), got)
}
