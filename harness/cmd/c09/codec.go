//go:build verif

// Round 6: the persisted form of the event index, byte by byte.
//
// core.AggregatedBloomFilter.MarshalBinary / UnmarshalBinary (a hand-written decoder) and the snapshot
// of the running filter are functions over bytes in the Lean model (ModelCodec.lean, instantiated at
// 8192 x 8192 by the driver). This family
//   - decides the PROPERTY on the real code: a block inserted into a window is still a candidate for
//     its address and keys after the window went through MarshalBinary -> UnmarshalBinary (what every
//     query outside the running window, every revert across a window boundary and every restart from a
//     snapshot relies on), for the columns at both ends of every 64-bit word boundary that matters and
//     for windows at the top of the uint64 range;
//   - compares the decoder's verdict (accepted filter: bounds + every word; eof; size mismatch) with the
//     model on real blobs and on corrupted ones: every header field, truncation and padding at both
//     sides of every length the code compares with, row headers of the first / a middle / the last row,
//     and the precedence of the checks.
package main

import (
	"encoding/binary"
	"encoding/hex"
	"errors"
	"fmt"
	"io"
	"strings"

	"github.com/NethermindEth/juno/core"
	"github.com/NethermindEth/juno/core/felt"
	"verif/harness/lib"
)

// the constants of the code: the model is instantiated with them (a change of the window size or of the
// bloom length is followed; the layout itself — field widths, order — is what the model transcribes)
const (
	codecRows    = int(core.EventsBloomLength)
	codecBits    = int(core.NumBlocksPerFilter)
	codecWords   = (codecBits + 63) / 64
	codecBlob    = 8 + codecWords*8
	codecRowSize = 4 + codecBlob
	codecHeader  = 20
	codecLen     = codecHeader + codecRows*codecRowSize
)

var codecDims = fmt.Sprintf("%x %x ", codecRows, codecBits)

// rle renders a byte string for the driver: runs of one byte as r<count>.<byte>, the rest as hex.
func rle(b []byte) string {
	var sb strings.Builder
	first := true
	sep := func() {
		if !first {
			sb.WriteByte(',')
		}
		first = false
	}
	lit := -1
	flush := func(end int) {
		if lit >= 0 && end > lit {
			sep()
			sb.WriteByte('h')
			sb.WriteString(hex.EncodeToString(b[lit:end]))
		}
		lit = -1
	}
	for i := 0; i < len(b); {
		j := i
		for j < len(b) && b[j] == b[i] {
			j++
		}
		if j-i >= 12 {
			flush(i)
			sep()
			fmt.Fprintf(&sb, "r%x.%x", j-i, b[i])
		} else if lit < 0 {
			lit = i
		}
		i = j
	}
	flush(len(b))
	if first {
		return "r0.0"
	}
	return sb.String()
}

func cksStep(a, x uint64) uint64 {
	const mask = (uint64(1) << 40) - 1
	return (a*1000003 + (x & mask) + 1) & mask
}

// wordsCks: the checksum the driver prints for a decoded matrix, from a canonical blob.
func wordsCks(blob []byte) uint64 {
	a := uint64(7)
	for i := 0; i < codecRows; i++ {
		off := codecHeader + i*codecRowSize + 12
		for w := 0; w < codecWords; w++ {
			a = cksStep(a, binary.BigEndian.Uint64(blob[off+w*8:]))
		}
	}
	return a
}

func bytesCks(b []byte) uint64 {
	a := uint64(7)
	for _, x := range b {
		a = cksStep(a, uint64(x))
	}
	return a
}

func codecErrClass(err error) string {
	switch {
	case err == nil:
		return "ok"
	case errors.Is(err, io.ErrUnexpectedEOF), errors.Is(err, io.EOF):
		return "err:eof"
	case errors.Is(err, core.ErrBloomFilterSizeMismatch):
		return "err:size"
	}
	return "err:other:" + err.Error()
}

type codecCase struct {
	name string
	data []byte
}

func mutate(b []byte, f func(c []byte) []byte) []byte {
	c := append([]byte(nil), b...)
	return f(c)
}

func runCodec(driverPath string, res *lib.Result, r *lib.RNG, thorough bool) {
	// ---- the property on the real code: no bit is lost through the database form -------------
	type ins struct {
		col  uint64
		from felt.Felt
		key  int
	}
	build := func(base uint64, cols []uint64) (*core.AggregatedBloomFilter, []ins, bool) {
		agg := core.NewAggregatedFilter(base)
		var done []ins
		for i, c := range cols {
			from := addrU[(i*5+int(c%7))%len(addrU)]
			key := (i + int(c%3)) % len(keyU)
			bl := core.EventsBloom([]*core.TransactionReceipt{{Events: []*core.Event{{From: &from, Keys: []felt.Felt{keyU[key]}}}}})
			if err := agg.Insert(bl, base+c); err != nil {
				res.Violate(lib.Violation{Sig: "aggregated-filter-insert-fails-in-range", What: fmt.Sprintf("Insert at column %d of window %d: %v", c, base, err)})
				return nil, nil, false
			}
			done = append(done, ins{c, from, key})
		}
		return &agg, done, true
	}
	// both sides of every word boundary near the ends, and random columns
	edgeCols := []uint64{0, 1, 62, 63, 64, 65, 127, 128, 4095, 4096, 8126, 8127, 8128, 8129, 8190, 8191}
	for i := 0; i < 8; i++ {
		edgeCols = append(edgeCols, uint64(r.Intn(8192)))
	}
	bases := []uint64{0, uint64(W), 7 * uint64(W), ^uint64(0) - uint64(codecBits) + 1}
	var realBlobs [][]byte
	for _, base := range bases {
		agg, done, ok := build(base, edgeCols)
		if !ok {
			continue
		}
		blob, err := agg.MarshalBinary()
		if err != nil {
			res.Violate(lib.Violation{Sig: "persisted-window-cannot-be-encoded", What: fmt.Sprintf("MarshalBinary of window %d: %v", base, err)})
			continue
		}
		realBlobs = append(realBlobs, blob)
		var back core.AggregatedBloomFilter
		var derr error
		if perr, p, _ := lib.Try(func() error { derr = back.UnmarshalBinary(blob); return nil }); p {
			_ = perr
			res.Violate(lib.Violation{Sig: "persisted-window-decoder-panics", What: fmt.Sprintf("UnmarshalBinary of MarshalBinary's output panics: %v", perr),
				Replay: map[string]any{"window_start": base, "columns": edgeCols}})
			continue
		}
		if derr != nil {
			res.Violate(lib.Violation{Sig: "persisted-window-cannot-be-read-back", What: fmt.Sprintf("window %d: UnmarshalBinary refuses MarshalBinary's output: %v", base, derr),
				Replay: map[string]any{"window_start": base, "columns": edgeCols}})
			continue
		}
		if back.FromBlock() != base || back.ToBlock() != base+uint64(codecBits)-1 {
			res.Violate(lib.Violation{Sig: "persisted-window-read-back-with-other-bounds", What: fmt.Sprintf("window %d read back as [%d,%d]", base, back.FromBlock(), back.ToBlock()),
				Replay: map[string]any{"window_start": base}})
		}
		for _, in := range done {
			fb := in.from.Bytes()
			m := back.BlocksForKeys([][]byte{fb[:]})
			mk := back.BlocksForKeys([][]byte{Item{0, in.key}.bytes()})
			if !m.Test(uint(in.col)) || !mk.Test(uint(in.col)) {
				res.Violate(lib.Violation{Sig: "persisted-window-loses-block-in-encoding",
					What: fmt.Sprintf("window %d: block %d was inserted with an event of an address; after MarshalBinary -> UnmarshalBinary (the form every query outside the running window, "+
						"every revert across the boundary and every restart reads) the block is no candidate for that address / key any more: its events would be omitted", base, base+in.col),
					Replay: map[string]any{"window_start": base, "column": in.col, "steps": "NewAggregatedFilter, Insert(EventsBloom(one event), block), MarshalBinary, UnmarshalBinary, BlocksForKeys(address)"}})
				break
			}
			res.Hit("codec:column-survives-the-database-form")
		}
		again, err := back.MarshalBinary()
		if err != nil || string(again) != string(blob) {
			res.Mismatch(lib.Mismatch{Sig: "persisted-window-re-encoding-differs", Input: map[string]any{"window_start": base}, Model: "identical bytes", Impl: fmt.Sprintf("err=%v, %d bytes", err, len(again))})
		}
		res.Compared(1)
		res.Case(fmt.Sprintf("codec/roundtrip/%d", base), true)
	}
	// a window whose end wraps in uint64: written and read back (NewAggregatedFilter does not refuse it)
	{
		agg := core.NewAggregatedFilter(^uint64(0) - 99)
		blob, err := agg.MarshalBinary()
		if err == nil {
			realBlobs = append(realBlobs, blob)
		}
	}
	if len(realBlobs) < 4 {
		res.Fatalf("codec: only %d real blobs could be built", len(realBlobs))
		return
	}

	// ---- correspondence with the model ---------------------------------------------------
	if driverPath == "" {
		return
	}
	newAsk := func() (func(string) string, func()) {
		d, err := lib.StartDriver(driverPath)
		if err != nil {
			res.Fatalf("codec: driver: %v", err)
			return nil, func() {}
		}
		dead := false
		return func(line string) string {
			if dead {
				return ""
			}
			out, err := d.Ask(line)
			if err != nil {
				dead = true
				res.Fatalf("codec: driver died: %v", err)
				return ""
			}
			if out == "bad-op" || out == "" {
				res.Fatalf("codec: driver answered %q", out)
			}
			return out
		}, func() { d.Close() }
	}
	ask, closeDrv := newAsk()
	defer closeDrv()
	if ask == nil {
		return
	}
	implWindow := func(data []byte) string {
		var f core.AggregatedBloomFilter
		var derr error
		if perr, p, _ := lib.Try(func() error { derr = f.UnmarshalBinary(data); return nil }); p {
			return fmt.Sprintf("panic: %v", perr)
		}
		if derr != nil {
			return codecErrClass(derr)
		}
		again, err := f.MarshalBinary()
		if err != nil || len(again) != codecLen {
			return fmt.Sprintf("ok but re-encoding gives %d bytes, err=%v", len(again), err)
		}
		return fmt.Sprintf("ok %x %x %x %x", f.FromBlock(), f.ToBlock(), binary.BigEndian.Uint32(again[16:20]), wordsCks(again))
	}
	compare := func(c codecCase) {
		impl := implWindow(c.data)
		if strings.HasPrefix(impl, "panic") {
			res.Violate(lib.Violation{Sig: "persisted-window-decoder-panics", What: "UnmarshalBinary panics on database bytes (" + c.name + "): " + impl,
				Replay: map[string]any{"case": c.name, "length": len(c.data)}})
		}
		model := ask("aggdec " + codecDims + rle(c.data))
		res.Compared(1)
		if impl != model {
			res.Mismatch(lib.Mismatch{Sig: "persisted-window-decoder", Input: map[string]any{"case": c.name, "length": len(c.data)}, Model: model, Impl: impl})
		}
		res.Hit("codec:window-case-compared")
		if strings.HasPrefix(impl, "ok") {
			res.Hit("codec:window-accepted")
		} else {
			res.Hit("codec:window-" + strings.TrimPrefix(impl, "err:"))
		}
		res.Case("codec/"+c.name, true)
	}
	A := realBlobs[1]
	pick := r.Intn(5)
	put32 := func(off int, v int) func([]byte) []byte {
		return func(c []byte) []byte { binary.BigEndian.PutUint32(c[off:], uint32(v)); return c }
	}
	put64 := func(off int, v uint64) func([]byte) []byte {
		return func(c []byte) []byte { binary.BigEndian.PutUint64(c[off:], v); return c }
	}
	rowOff := func(i int) int { return codecHeader + i*codecRowSize }
	// real-size inputs cost the model seconds each (8.4 million list cells): the quick tier takes the real
	// window plus one of each group, chosen by the seed; the thorough tier takes all
	full := [][]codecCase{
		{{"cut-one-byte", A[:codecLen-1]}, {"one-trailing-byte", append(append([]byte(nil), A...), 0)},
			{"one-trailing-row", append(append([]byte(nil), A...), A[rowOff(0):rowOff(1)]...)}, {"cut-one-row", A[:codecLen-codecRowSize]}},
		{{"last-row-blob-length+1", mutate(A, put32(rowOff(codecRows-1), codecBlob+1))}, {"last-row-bitset-length-1", mutate(A, put64(rowOff(codecRows-1)+4, uint64(codecBits)-1))},
			{"middle-row-bitset-length+1", mutate(A, put64(rowOff(codecRows/2+7)+4, uint64(codecBits)+1))},
			{"first-row-blob-length-1-and-trailing", append(mutate(A, put32(rowOff(0), codecBlob-1)), 0)},
			{"to-block+1", mutate(A, put64(8, uint64(W)+uint64(codecBits)))}, {"from-block-1", mutate(A, put64(0, uint64(W)-1))}},
		{{"last-word-all-ones", mutate(A, put64(codecLen-8, ^uint64(0)))}, {"real-window-whose-end-wraps", realBlobs[4]},
			{"real-window-at-the-top-of-uint64", realBlobs[3]}, {"real-window-0", realBlobs[0]}},
	}
	cases := []codecCase{{"real-window", A}}
	for _, g := range full {
		if thorough {
			cases = append(cases, g...)
		} else {
			cases = append(cases, g[r.Intn(len(g))])
		}
	}
	// decided in the header, or short inputs: cheap for the model
	cases = append(cases,
		codecCase{"empty", nil},
		codecCase{"header-19", A[:19]},
		codecCase{"header-only", A[:20]},
		codecCase{"one-row-of-8192", A[:codecHeader+codecRowSize]},
		codecCase{"count-1-and-cut", mutate(A, put32(16, codecRows-1))[:5000]},
		codecCase{"count+1-and-cut", mutate(A, put32(16, codecRows+1))[:5000]},
		codecCase{"count-0", mutate(A, put32(16, 0))[:20]},
		codecCase{"count-0-with-room", mutate(A, put32(16, 0))[:3000]},
		codecCase{"to-block-wrong-and-cut", mutate(A, put64(8, 5))[:4000]},
	)
	for _, c := range cases {
		compare(c)
	}
	// MarshalBinary as a function of the model: the model's encoding of what it decoded = the real bytes (for the
	// model this is theorem window_decoder_accepts_only_canonical; run in the thorough tier)
	if thorough {
		model := ask("aggenc " + codecDims + rle(A))
		impl := fmt.Sprintf("ok %x %x", len(A), bytesCks(A))
		res.Compared(1)
		if model != impl {
			res.Mismatch(lib.Mismatch{Sig: "persisted-window-encoder", Input: map[string]any{"case": "real-window"}, Model: model, Impl: impl})
		}
		res.Hit("codec:encoder-compared")
	}

	// the snapshot cases on the same driver, after the window cases: one full-size byte list alive at a time
	codecSnapshot(A, edgeCols, ask, res, thorough, pick)
}

func codecSnapshot(A []byte, edgeCols []uint64, ask2 func(string) string, res *lib.Result, thorough bool, pick int) {
	put32 := func(off int, v int) func([]byte) []byte {
		return func(c []byte) []byte { binary.BigEndian.PutUint32(c[off:], uint32(v)); return c }
	}
	// ---- the snapshot of the running filter ----------------------------------------------
	var inner core.AggregatedBloomFilter
	if err := inner.UnmarshalBinary(A); err != nil {
		res.Fatalf("codec: the real window does not decode: %v", err)
		return
	}
	next := uint64(W) + 4097
	snap, err := core.NewRunningEventFilterHot(nil, &inner, next).MarshalBinary()
	if err != nil {
		res.Violate(lib.Violation{Sig: "running-filter-snapshot-cannot-be-encoded", What: err.Error()})
		return
	}
	implSnap := func(data []byte) string {
		var f core.RunningEventFilter
		var derr error
		if perr, p, _ := lib.Try(func() error { derr = f.UnmarshalBinary(data); return nil }); p {
			return fmt.Sprintf("panic: %v", perr)
		}
		if derr != nil {
			return codecErrClass(derr)
		}
		in, e1 := f.InnerFilter()
		nx, e2 := f.NextBlock()
		if e1 != nil || e2 != nil {
			return fmt.Sprintf("ok but unreadable: %v %v", e1, e2)
		}
		again, err := in.MarshalBinary()
		if err != nil || len(again) != codecLen {
			return fmt.Sprintf("ok but re-encoding gives %d bytes, err=%v", len(again), err)
		}
		return fmt.Sprintf("ok %x %x %x %x %x", in.FromBlock(), in.ToBlock(), binary.BigEndian.Uint32(again[16:20]), wordsCks(again), nx)
	}
	// the property: the snapshot read back is the filter that was written (window bits and next)
	if got := implSnap(snap); got != fmt.Sprintf("ok %x %x %x %x %x", uint64(W), uint64(W)+uint64(codecBits)-1, codecRows, wordsCks(A), next) {
		res.Violate(lib.Violation{Sig: "running-filter-snapshot-not-read-back-as-written",
			What:   "RunningEventFilter.MarshalBinary -> UnmarshalBinary does not give the window and next block that were written: " + got,
			Replay: map[string]any{"window_start": W, "next": next, "columns": edgeCols}})
	}
	fullSnap := []codecCase{
		{"snapshot-with-trailing-bytes", append(append([]byte(nil), snap...), 1, 2, 3)},
		{"snapshot-cut-inside-next", snap[:len(snap)-1]},
		{"snapshot-inner-length+1", mutate(snap, put32(0, codecLen+1))},
		{"snapshot-inner-length-1", mutate(snap, put32(0, codecLen-1))},
		{"snapshot-without-next", snap[:4+codecLen]},
	}
	snapCases := []codecCase{{"snapshot", snap}}
	if thorough {
		snapCases = append(snapCases, fullSnap...)
	} else {
		snapCases = append(snapCases, fullSnap[pick%len(fullSnap)])
	}
	snapCases = append(snapCases,
		codecCase{"snapshot-short", snap[:3]},
		codecCase{"snapshot-length-only", snap[:4]},
		codecCase{"snapshot-inner-length-beyond-the-data", snap[:5000]},
		codecCase{"snapshot-inner-length-0", mutate(snap, put32(0, 0))[:64]},
		codecCase{"snapshot-inner-length-20", mutate(snap, put32(0, 20))[:64]},
	)
	for _, c := range snapCases {
		impl := implSnap(c.data)
		if strings.HasPrefix(impl, "panic") {
			res.Violate(lib.Violation{Sig: "running-filter-snapshot-decoder-panics", What: "UnmarshalBinary panics on database bytes (" + c.name + "): " + impl,
				Replay: map[string]any{"case": c.name, "length": len(c.data)}})
		}
		model := ask2("rundec " + codecDims + rle(c.data))
		res.Compared(1)
		if impl != model {
			res.Mismatch(lib.Mismatch{Sig: "running-filter-snapshot-decoder", Input: map[string]any{"case": c.name, "length": len(c.data)}, Model: model, Impl: impl})
		}
		res.Hit("codec:snapshot-case-compared")
		res.Case("codec/"+c.name, true)
	}
}
