//go:build verif

package main

import (
	"context"
	"errors"
	"fmt"
	"math"
	"strings"
	"time"

	"github.com/NethermindEth/juno/blockchain"
	"github.com/NethermindEth/juno/core"
	"github.com/NethermindEth/juno/core/felt"
	"github.com/NethermindEth/juno/core/pending"
	"github.com/NethermindEth/juno/jsonrpc"
	"github.com/NethermindEth/juno/rpc/rpccore"
	rpcv8 "github.com/NethermindEth/juno/rpc/v8"
	junosync "github.com/NethermindEth/juno/sync"
	"github.com/NethermindEth/juno/utils/log"
	"verif/harness/lib"
)

// Round 5: the RPC layer is part of the Lean model (ModelRpc.lean). This file ties it:
//
//   - continuation-token STRINGS: ContinuationToken.FromString / String against the model's transcription
//     of fmt.Sscanf("%d-%d") — every string over a 9-letter alphabet up to length 4, the uint64 boundary,
//     Unicode spaces, and the round trip String → FromString as the property's own requirement;
//   - starknet_getEvents requests at every limit of the handler (page size 10240 / 10241, 1024 / 1025 keys
//     in three shapes, precedence of the checks), block ids that do not resolve, the empty chain;
//   - starknet_subscribeEvents: creation (key-count check in both forms, resolveBlockRange with the
//     1024-blocks-back limit on both sides, ids that do not resolve, the L1 head read), the replay, the
//     pre-confirmed de-duplication through the real handler and on rpccore.PreConfirmedDeduper itself,
//     the reorg handling of rpc v8;
//   - the LRU cache purged at every revert (what Blockchain.RevertHead does) with a two-window cache.

type askFn func(line string) string

// borrow takes a model driver out of the pool for a family that has no World.
func borrow(pool *DrvPool, res *lib.Result, what string) (askFn, func()) {
	if pool == nil {
		return nil, func() {}
	}
	d := <-pool.ch
	dead := false
	ask := func(line string) string {
		if dead {
			return ""
		}
		out, err := d.Ask(line)
		if err != nil {
			dead = true
			res.Fatalf("driver died in %s: %v", what, err)
			return ""
		}
		if out == "bad-op" {
			res.Fatalf("driver answered bad-op to %q in %s", line, what)
		}
		return out
	}
	return ask, func() {
		if dead {
			d.Close()
			if nd := pool.spawn(); nd != nil {
				pool.ch <- nd
			}
			return
		}
		pool.ch <- d
	}
}

// ---------------------------------------------------------------------------------------------
// Continuation-token strings
// ---------------------------------------------------------------------------------------------

func runTokenStrings(res *lib.Result, pool *DrvPool, r *lib.RNG) {
	ask, done := borrow(pool, res, "token-strings")
	defer done()
	if ask == nil {
		return
	}
	check := func(s string) {
		var ct blockchain.ContinuationToken
		err := ct.FromString(s)
		impl := "err"
		if err == nil {
			impl = "ok " + ct.String()
			res.Hit("token-string:accepted")
		} else {
			res.Hit("token-string:rejected")
		}
		model := ask("tokparse " + cpsArg(s))
		res.Compared(1)
		if impl != model {
			res.Mismatch(lib.Mismatch{Sig: "continuation-token-parse", Input: map[string]any{"token": s, "code_points": cpsArg(s)}, Model: model, Impl: impl})
		}
		res.Hit("token-string:parse-compared")
	}
	// every string up to length 4 over: digits, the separator, space / tab / newline, a sign, a letter
	alphabet := []rune{'0', '1', '9', '-', ' ', '+', '\n', 'x', '\t'}
	var rec func(prefix []rune, left int)
	rec = func(prefix []rune, left int) {
		if len(prefix) > 0 {
			check(string(prefix))
		}
		if left == 0 {
			return
		}
		for _, c := range alphabet {
			rec(append(append([]rune{}, prefix...), c), left-1)
		}
	}
	rec(nil, 4)
	// the uint64 boundary, leading zeros, long digit strings, spaces of every kind, trailing text
	max := uint64(math.MaxUint64)
	directed := []string{"", "0-0", "00-00", "1-1\n", "1-1\r\n", "1\n-1", "1-\n1", "\n1-1", "\r1-1", "\r\n1-1", "1-\r1", "\v1-\f1",
		fmt.Sprintf("%d-0", max), fmt.Sprintf("0-%d", max), fmt.Sprintf("%d-%d", max, max),
		"18446744073709551616-0", "0-18446744073709551616", "18446744073709551615-18446744073709551616",
		"000000000000000000000000018446744073709551615-1", "000000000000000000000000018446744073709551616-1",
		"99999999999999999999999999999999-1", "1-99999999999999999999999999999999", "9223372036854775808-9223372036854775807",
		"5-3-1", "5-3x", "5-3 ", "5-3\n", "5 -3", "5- 3", "5-\t 3", " \t5-3", "5--3", "5-+3", "+5-3", "-5-3", "0x5-3", "5-0x3", "5_0-3", "5-3_0",
		"5e1-3", "5.0-3", "\uff15-3", "5\u00a0-3", "\u00a05-3", "5-\u00a03", "\u20035-\u30003", "\u16805-\u205f3", "\ufeff5-3", "\u200b5-3", "5-\u200b3",
		"5\u20133", "5-3\U0001F642", "\u0661-\u0662", "1-\uff12", "\u20285-3", "\u20295-\u202f3", "\u200a5-3", "\u200b", "\u00855-3", "1-1-", "-", "--", "1", "1-", "-1", " ", "\n", "abc", "1 1", "1,1", "1/1"}
	for _, s := range directed {
		check(s)
		res.Hit("token-string:directed")
	}
	// random shapes: [spaces] digits [-] [spaces] digits [tail], digit strings around 2^64
	spaces := []string{"", "", " ", "\t", "  ", "\r", "\v", " ", " ", "\n", "\u0085"}
	nums := func() string {
		switch r.Intn(8) {
		case 0:
			return fmt.Sprint(max - uint64(r.Intn(3)))
		case 1:
			return "1844674407370955161" + fmt.Sprint(r.Intn(10)) // around 2^64: …1610 … …1619
		case 2:
			return strings.Repeat("0", r.Intn(30)) + fmt.Sprint(r.Uint64())
		case 3:
			return ""
		case 4:
			return fmt.Sprint(r.Uint64()) + fmt.Sprint(r.Intn(10))
		default:
			return fmt.Sprint(r.Intn(100000))
		}
	}
	for i := 0; i < 600; i++ {
		s := lib.Pick(r, spaces) + nums() + lib.Pick(r, []string{"-", "-", "-", "", "--", " -", "- "}) + lib.Pick(r, spaces) + nums() +
			lib.Pick(r, []string{"", "", "x", " 7", "-9", "\n"})
		check(s)
		res.Hit("token-string:random")
	}
	// what the server prints parses back to itself (the property: a client that follows the tokens continues where
	// the page ended), and is what the model prints
	edges := []uint64{0, 1, 9, 10, 99, 100, 1<<32 - 1, 1 << 32, 1<<63 - 1, 1 << 63, max - 1, max}
	for _, b := range edges {
		for _, p := range edges {
			s := fmt.Sprintf("%d-%d", b, p)
			var ct blockchain.ContinuationToken
			if err := ct.FromString(s); err != nil || ct.String() != s {
				res.Violate(lib.Violation{Sig: "continuation-token-does-not-round-trip",
					What:   fmt.Sprintf("token (%d, %d): %q parses to %q (error %v)", b, p, s, ct.String(), err),
					Replay: map[string]any{"token": s}})
			}
			if (b == 0 && p == 0) != ct.IsEmpty() {
				res.Violate(lib.Violation{Sig: "continuation-token-emptiness-wrong",
					What:   fmt.Sprintf("token %q: IsEmpty = %v", s, ct.IsEmpty()),
					Replay: map[string]any{"token": s}})
			}
			model := ask(fmt.Sprintf("tokprint %x %x", b, p))
			res.Compared(1)
			if model != ct.String() {
				res.Mismatch(lib.Mismatch{Sig: "continuation-token-print", Input: s, Model: model, Impl: ct.String()})
			}
			res.Hit("token-string:round-trip-checked")
		}
	}
}

// ---------------------------------------------------------------------------------------------
// starknet_getEvents at the handler's limits
// ---------------------------------------------------------------------------------------------

func emptyKeys(n int) [][]int {
	k := make([][]int, n)
	for i := range k {
		k[i] = []int{}
	}
	return k
}

func repKeys(n int, alts []int) [][]int {
	k := make([][]int, n)
	for i := range k {
		k[i] = alts
	}
	return k
}

func cycle(n int) []int {
	out := make([]int, n)
	for i := range out {
		out[i] = i % len(keyU)
	}
	return out
}

// checkRequestLimits sends requests at both sides of every limit of Handler.Events, with the checks in
// competition (which error wins), through the wire, and compares the outcome with the model's reading
// of the same request and with the outcome the specification of the handler demands.
func (w *World) checkRequestLimits() {
	if len(w.Chain) == 0 || w.Floor > 0 || w.Faulted || w.Tampered {
		return
	}
	head := len(w.Chain) - 1
	type tc struct {
		name   string
		q      Q
		tok    string
		mut    func(f map[string]any)
		model  func(line string) string // rewrite of the model line where Q cannot express the request
		expect string                   // "" = a page
	}
	for _, api := range []string{"", "v9", "v8"} {
		base := Q{F: Filt{}, From: max(0, head-4), To: head, Chunk: 3, Rpc: true, Api: api}
		with := func(f func(q *Q)) Q { q := base; f(&q); return q }
		l1Expect := ""
		if api == "v8" {
			l1Expect = "rpc:invalidparams"
		} else if w.L1 < 0 {
			l1Expect = "rpc:blocknotfound"
		}
		cases := []tc{
			{name: "chunk_size 0", q: with(func(q *Q) { q.Chunk = 0 }), expect: "rpc:invalidparams"},
			{name: "chunk_size missing", q: base, mut: func(f map[string]any) { delete(f, "chunk_size") },
				model: func(l string) string { return setArg(l, 7, "0") }, expect: "rpc:invalidparams"},
			{name: "chunk_size at the maximum", q: with(func(q *Q) { q.Chunk = rpccore.MaxEventChunkSize })},
			{name: "chunk_size above the maximum", q: with(func(q *Q) { q.Chunk = rpccore.MaxEventChunkSize + 1 }), expect: "rpc:pagetoobig"},
			{name: "1024 unconstrained key positions", q: with(func(q *Q) { q.F.Keys = emptyKeys(rpccore.MaxEventFilterKeys) })},
			{name: "1025 unconstrained key positions", q: with(func(q *Q) { q.F.Keys = emptyKeys(rpccore.MaxEventFilterKeys + 1) }), expect: "rpc:toomanykeys"},
			{name: "512 positions with one key each", q: with(func(q *Q) { q.F.Keys = repKeys(512, []int{0}) })},
			{name: "512 positions, one with two keys", q: with(func(q *Q) { q.F.Keys = repKeys(512, []int{0}); q.F.Keys[200] = []int{0, 1} }), expect: "rpc:toomanykeys"},
			{name: "one position with 1023 alternatives", q: with(func(q *Q) { q.F.Keys = [][]int{cycle(1023)} })},
			{name: "one position with 1024 alternatives", q: with(func(q *Q) { q.F.Keys = [][]int{cycle(1024)} }), expect: "rpc:toomanykeys"},
			{name: "hash of an unknown block", q: with(func(q *Q) { q.ToTag, q.To = "hash", head+7 }), expect: "rpc:blocknotfound"},
			{name: "from above the head", q: with(func(q *Q) { q.From, q.ToTag = head+2, "latest" })},
			{name: "l1_accepted", q: with(func(q *Q) { q.FromTag, q.L1 = "l1_accepted", max(w.L1, 0) }), expect: l1Expect},
			{name: "malformed token", q: base, tok: "abc", expect: "rpc:badtoken"},
			{name: "page too big beats a malformed token and an unknown hash", q: with(func(q *Q) { q.Chunk = 20000; q.ToTag, q.To = "hash", head+7 }), tok: "abc", expect: "rpc:pagetoobig"},
			{name: "page too big beats too many keys", q: with(func(q *Q) { q.Chunk = 20000; q.F.Keys = emptyKeys(1025) }), expect: "rpc:pagetoobig"},
			{name: "too many keys beat a malformed token", q: with(func(q *Q) { q.F.Keys = emptyKeys(1025) }), tok: "abc", expect: "rpc:toomanykeys"},
			{name: "a malformed token beats an unknown hash", q: with(func(q *Q) { q.FromTag, q.From = "hash", head+7 }), tok: "5-", expect: "rpc:badtoken"},
			{name: "chunk_size 0 beats everything", q: with(func(q *Q) { q.Chunk = 0; q.F.Keys = emptyKeys(1025) }), tok: "abc", expect: "rpc:invalidparams"},
		}
		cases = append(cases, tc{name: "address null", q: with(func(q *Q) { q.From = 0 }), mut: func(f map[string]any) { f["address"] = nil }})
		if api == "" {
			cases = append(cases, tc{name: "empty address list", q: with(func(q *Q) { q.From = 0 }), mut: func(f map[string]any) { f["address"] = []string{} }})
			cases = append(cases, tc{name: "address list with duplicates", q: with(func(q *Q) { q.F.Addrs = []int{1, 0, 1, 1, 0}; q.From = 0 })})
		} else {
			cases = append(cases, tc{name: "address list where one address is expected", q: with(func(q *Q) { q.F.Addrs = []int{1} }),
				mut:   func(f map[string]any) { f["address"] = []string{addrU[1].String(), addrU[0].String()} },
				model: func(l string) string { return setArg(l, 4, "1,0") }, expect: "rpc:invalidparams"})
		}
		for _, c := range cases {
			w.reqMut = c.mut
			pg := realPage(w.Node, w, c.q, nil, c.tok)
			w.reqMut = nil
			w.Res.Hit("rpc-limits:checked")
			impl := pg.String()
			rep := map[string]any{"history": w.replay(), "api": api, "case": c.name, "query": c.q, "token": c.tok}
			if c.expect != "" {
				if pg.Err != c.expect {
					w.Res.Violate(lib.Violation{Sig: "invalid-getevents-request-not-refused",
						What: fmt.Sprintf("starknet_getEvents (%s) with %s was answered with %s, expected %s", apiArg(api), c.name, impl, c.expect), Replay: rep})
				}
			} else if pg.Err != "" {
				w.Res.Violate(lib.Violation{Sig: "valid-getevents-request-refused",
					What: fmt.Sprintf("starknet_getEvents (%s) with %s (inside every limit) was refused: %s %s", apiArg(api), c.name, impl, pg.Bad), Replay: rep})
			} else {
				// a page of a valid request: sound and, with the maximal chunk size, complete
				want := w.want(c.q)
				if len(pg.Ems) > c.q.Chunk || !isSublist(pg.Ems, want) || (pg.Tok == "" && emsString(pg.Ems) != emsString(want)) {
					w.Res.Violate(lib.Violation{Sig: "matching-event-omitted",
						What: fmt.Sprintf("starknet_getEvents (%s) with %s returned %s, the range holds %s", apiArg(api), c.name, impl, emsString(want)), Replay: rep})
				}
			}
			if w.Drv != nil && !w.drvDead {
				line := w.rpcLine(c.q, c.tok, nil)
				if c.model != nil {
					line = c.model(line)
				}
				w.Res.Compared(1)
				if model := w.ask(line); model != impl {
					w.Res.Mismatch(lib.Mismatch{Sig: "rpc-request-outcome", Input: rep, Model: model, Impl: impl})
				}
			}
		}
	}
}

// setArg rewrites one argument of a driver line (rpc: 4 = ADDRS, 7 = CHUNK).
func setArg(line string, i int, v string) string {
	f := strings.Fields(line)
	f[i] = v
	return strings.Join(f, " ")
}

// runEmptyChain: a node without a single block. Every layer refuses the query (no partial answer,
// no panic); the model says which error.
func runEmptyChain(res *lib.Result, pool *DrvPool, v Variant, r *lib.RNG) {
	for _, newState := range []bool{false, true} {
		w := newWorld("empty-chain", r.Fork(11), res, pool, v, newState, newState)
		for _, api := range []string{"", "v9", "v8"} {
			q := Q{F: Filt{}, From: 0, To: 0, ToTag: "latest", Chunk: 5, Rpc: true, Api: api}
			pg := realPage(w.Node, w, q, nil, "")
			w.compare("rpc-request-outcome", pg.String(), w.ask(w.rpcLine(q, "", nil)))
			if pg.Err == "" || pg.Err == "panic" || pg.Err == "hang" {
				res.Violate(lib.Violation{Sig: "event-query-on-empty-chain-not-refused", What: fmt.Sprintf("starknet_getEvents (%s) on a node without blocks: %s", apiArg(api), pg.String()),
					Replay: map[string]any{"history": w.replay(), "query": q}})
			}
			res.Hit("empty-chain:checked")
		}
		q := Q{F: filtA, From: 0, To: 3, Chunk: 2}
		pg := realPage(w.Node, w, q, nil, "")
		model := w.ask(fmt.Sprintf("qp %s 0 3 - - 2 0 0 -", q.F.arg()))
		if model == "err:empty" {
			model = "err:notfound" // GetChainHeight: db.ErrKeyNotFound
		}
		w.compare("query-page", pg.String(), model)
		if pg.Err == "" || pg.Err == "panic" || pg.Err == "hang" {
			res.Violate(lib.Violation{Sig: "event-query-on-empty-chain-not-refused", What: "EventFilter on a node without blocks: " + pg.String(),
				Replay: map[string]any{"history": w.replay(), "query": q}})
		}
		res.Hit("empty-chain:checked")
		// the first block makes everything work
		w.do(st(1, evA))
		w.do(qu(filtA, 0, 0, 1, 0))
		w.close()
	}
}

// ---------------------------------------------------------------------------------------------
// starknet_subscribeEvents: creation, replay, de-duplication, reorgs
// ---------------------------------------------------------------------------------------------

type subHandle struct {
	conn   *subConn
	cancel context.CancelFunc
}

// trySubscribe creates one subscription and compares the outcome with the model. It returns the
// handle (nil when refused) and the real outcome in the model's format.
func (w *World) trySubscribe(parent context.Context, api subAPI, f Filt, id string, pre bool) (*subHandle, string) {
	ctx, cancel := context.WithCancel(parent)
	conn := &subConn{ctx: ctx}
	var serr error
	done := lib.WithDeadline(patience(), func() {
		err, panicked, _ := lib.Try(func() error { return api.subscribe(context.WithValue(ctx, jsonrpc.ConnKey{}, conn), f, id, pre) })
		serr = err
		if panicked {
			w.Res.Violate(lib.Violation{Sig: "event-subscription-panics", What: err.Error(), Replay: map[string]any{"history": w.replay(), "filter": f, "id": id, "api": api.name}})
		}
	})
	if !done {
		impatient.Store(true)
		cancel()
		return nil, "hang"
	}
	if serr != nil {
		cancel()
		return nil, "err:" + errClass(serr)
	}
	return &subHandle{conn: conn, cancel: cancel}, "ok"
}

func (w *World) modelSubscribe(api string, f Filt, id string, tolerant bool) string {
	ff := f
	if api != "v10" && len(ff.Addrs) > 1 {
		ff.Addrs = ff.Addrs[:1]
	}
	out := w.ask(fmt.Sprintf("subscribe %s %s %s %s %s", api, id, ff.arg(), w.l1Arg(), b2s(tolerant)))
	if strings.HasPrefix(out, "ok") {
		return "ok"
	}
	return out
}

// awaitCount waits until the connection holds at least n notifications that satisfy pred.
func awaitCount(conn *subConn, n int, pred func(subMsg) bool) bool {
	deadline := time.Now().Add(patience())
	for time.Now().Before(deadline) {
		c := 0
		for _, m := range conn.snapshot(0) {
			if pred(m) {
				c++
			}
		}
		if c >= n {
			return true
		}
		time.Sleep(time.Millisecond)
	}
	impatient.Store(true)
	return false
}

// replayOf collects the historical replay of a fresh subscription: everything notified before the
// notification of a marker head / pre-confirmed block sent afterwards.
func (w *World) replayOf(ss *subSync, h *subHandle, f Filt, pre bool, l1 int, atMost int) (string, bool) {
	seq := uint64(0)
	deadline := time.Now().Add(patience())
	for time.Now().Before(deadline) {
		seq++
		mb := w.mkFeedBlock(markerBase+seq, markerPlan(f))
		if pre {
			ss.pre.Send(&pending.PreConfirmed{Block: mb, BlockIdentifier: fmt.Sprintf("marker-%d", seq)})
		} else {
			ss.heads.Send(mb)
		}
		time.Sleep(3 * time.Millisecond)
		msgs := h.conn.snapshot(0)
		if len(msgs) > atMost+8 {
			// more than the range holds (a replay that repeats itself never reaches the marker): judge what is there
			msgs = append(msgs[:atMost+8:atMost+8], subMsg{Block: markerBase})
		}
		for i, m := range msgs {
			if m.Block >= markerBase {
				var out []string
				for _, x := range msgs[:i] {
					b := int(x.Block)
					t := -1
					if b < len(w.Bundles) {
						for ti, rc := range w.Bundles[b].Block.Receipts {
							if rc.TransactionHash.String() == x.TxHash {
								t = ti
							}
						}
					}
					fin := map[string]string{"ACCEPTED_ON_L1": "L1", "ACCEPTED_ON_L2": "L2"}[x.Finality]
					wantFin := "L2"
					if l1 >= 0 && b <= l1 {
						wantFin = "L1"
					}
					if fin != wantFin {
						w.Res.Violate(lib.Violation{Sig: "event-subscription-wrong-finality",
							What:   fmt.Sprintf("replayed event of block %d has finality %q with the L1 head at %d", b, x.Finality, l1),
							Replay: map[string]any{"history": w.replay(), "filter": f}})
					}
					out = append(out, Em{b, t, x.EvIdx}.String()+"/"+fin)
				}
				if len(out) == 0 {
					return "-", true
				}
				return strings.Join(out, ","), true
			}
		}
	}
	impatient.Store(true)
	return "", false
}

func withFinality(ems []Em, l1 int) string {
	if len(ems) == 0 {
		return "-"
	}
	s := make([]string, len(ems))
	for i, e := range ems {
		s[i] = e.String() + "/L2"
		if l1 >= 0 && e.B <= l1 {
			s[i] = e.String() + "/L1"
		}
	}
	return strings.Join(s, ",")
}

// runSubscriptionEdges: creation of event subscriptions at every decision of SubscribeEvents, on a
// chain longer than the 1024-blocks-back limit.
func runSubscriptionEdges(bases *Base, res *lib.Result, pool *DrvPool, v Variant, r *lib.RNG) {
	src := bases.W[0]
	w := src.fork("subscription-edges", r, 881, pool, v, false)
	defer w.close()
	// more than 1024 matching events inside the last 1023 blocks: the replay needs a second page
	// (subscribeEventsChunkSize = 1024)
	nine := Plan{{{From: 0, Keys: []int{0}}, {From: 0, Keys: []int{1}}, {From: 0}}, {{From: 0, Keys: []int{0, 1}}, {From: 0}, {From: 0}},
		{{From: 0, Keys: []int{2}}, {From: 0}, {From: 0, Keys: []int{3, 3}}}}
	w.do(st(130, nine))
	w.do(st(1, evA))
	w.do(st(1, evB))
	w.do(st(2, nil))
	w.do(st(1, evA))
	head := len(w.Chain) - 1
	if n := len(naive(w.Chain, filtA, head-rpccore.MaxBlocksBack+1, head)); n <= 1024 {
		res.Fatalf("subscription-edges: only %d matching events in the replay range, more than 1024 wanted", n)
	}
	ss := newSubSync()
	apis := w.subAPIs(ss)
	h8 := rpcv8.New(w.Node.BC, ss, nil, log.NewNopZapLogger())
	apis = append(apis, subAPI{name: "v8", run: func(ctx context.Context) { _ = h8.Run(ctx) },
		subscribe: func(ctx context.Context, f Filt, id string, _ bool) error {
			addrs, keys := f.real()
			var addr *felt.Address
			if len(addrs) > 0 {
				addr = &addrs[0]
			}
			var bid *rpcv8.SubscriptionBlockID
			if raw := w.subIDJSON(id); raw != nil {
				bid = new(rpcv8.SubscriptionBlockID)
				if err := bid.UnmarshalJSON(raw); err != nil {
					return fmt.Errorf("harness: block id %s: %w", raw, err)
				}
			}
			if _, rerr := h8.SubscribeEvents(ctx, addr, keys, bid); rerr != nil {
				return rpcErrString(rerr)
			}
			return nil
		}})
	ctx, cancel := context.WithCancel(context.Background())
	defer cancel()
	for _, api := range apis {
		go api.run(ctx)
	}
	rep := func(api, id string, f Filt) map[string]any {
		return map[string]any{"history": w.replay(), "api": api, "id": id, "filter": f, "l1_head": w.L1}
	}
	// 1. a node that has never stored an L1 head (before the first L1 update; --disable-l1-verification)
	for _, api := range apis {
		id := fmt.Sprintf("n%x", head-4)
		h, out := w.trySubscribe(ctx, api, filtA, id, false)
		w.compare("subscription-created", out, w.modelSubscribe(api.name, filtA, id, v.SubL1Tolerant))
		res.Hit("subscription-edges:without-l1-head")
		if h == nil {
			res.Violate(lib.Violation{Sig: "event-subscription-refused-without-l1-head",
				What: fmt.Sprintf("%s: starknet_subscribeEvents on a node that has not stored an L1 head yet is refused (%s); "+
					"every other reader of the L1 head in the handler treats a missing one as 'nothing accepted on L1'", api.name, out),
				Replay: rep(api.name, id, filtA)})
			continue
		}
		if api.name != "v8" {
			got, ok := w.replayOf(ss, h, filtA, false, -1, len(naive(w.Chain, filtA, head-4, head)))
			if !ok {
				res.Violate(lib.Violation{Sig: "event-subscription-delivers-nothing", What: api.name + ": no marker notification in time", Replay: rep(api.name, id, filtA)})
			} else {
				want := withFinality(naive(w.Chain, filtA, head-4, head), -1)
				if got != want {
					res.Violate(lib.Violation{Sig: "event-subscription-historical-replay-differs",
						What: fmt.Sprintf("%s without an L1 head: replayed %s, the chain has %s", api.name, got, want), Replay: rep(api.name, id, filtA)})
				}
				w.compare("subscription-historical-replay", got, w.ask(fmt.Sprintf("subreplay %s %x %x -", filtA.arg(), head-4, head)))
			}
		}
		h.cancel()
	}
	// 2. with an L1 head: ids and key counts at both sides of every limit
	w.do(Op{Kind: "l1", N: head - 2})
	type tc struct {
		id     string
		f      Filt
		expect string // "" = created
		replay bool
	}
	back := rpccore.MaxBlocksBack
	cases := []tc{
		{id: "-", f: filtA}, {id: "latest", f: filtB},
		{id: fmt.Sprintf("n%x", head), f: filtA, replay: true},
		{id: fmt.Sprintf("n%x", head+1), f: filtA, expect: "err:rpc:blocknotfound"},
		{id: fmt.Sprintf("n%x", head-back+1), f: filtA, replay: true}, // 1023 blocks back: the last one allowed
		{id: fmt.Sprintf("n%x", head-back), f: filtA, expect: "err:rpc:toomanyblocksback"},
		{id: "n0", f: filtA, expect: "err:rpc:toomanyblocksback"},
		{id: fmt.Sprintf("h%x", head-3), f: filtB, replay: true},
		{id: fmt.Sprintf("h%x", head-back+1), f: filtB, replay: true},
		{id: fmt.Sprintf("h%x", head-back), f: filtB, expect: "err:rpc:toomanyblocksback"},
		{id: "hx", f: filtA, expect: "err:rpc:blocknotfound"},
		{id: "latest", f: Filt{Keys: emptyKeys(1024)}},
		{id: "latest", f: Filt{Keys: emptyKeys(1025)}, expect: "err:rpc:toomanykeys"},
		{id: "latest", f: Filt{Keys: repKeys(512, []int{0})}},
		{id: "latest", f: Filt{Keys: append(repKeys(511, []int{0}), []int{0, 1, 2})}, expect: "err:rpc:toomanykeys"},
		{id: "latest", f: Filt{Keys: append([][]int{cycle(1022)}, []int{})}},
		{id: "latest", f: Filt{Keys: append([][]int{cycle(1022)}, []int{1})}, expect: "err:rpc:toomanykeys"},
		{id: "hx", f: Filt{Keys: emptyKeys(1025)}, expect: "err:rpc:toomanykeys"}, // the key check comes first
	}
	for _, api := range apis {
		for _, c := range cases {
			h, out := w.trySubscribe(ctx, api, c.f, c.id, false)
			w.compare("subscription-created", out, w.modelSubscribe(api.name, c.f, c.id, v.SubL1Tolerant))
			res.Hit("subscription-edges:checked")
			want := c.expect
			if want == "" {
				want = "ok"
			}
			if out != want {
				res.Violate(lib.Violation{Sig: "event-subscription-request-decided-wrongly",
					What:   fmt.Sprintf("%s: subscribeEvents(block id %s, %d key positions) on a chain of height %d: %s, expected %s", api.name, c.id, len(c.f.Keys), head, out, want),
					Replay: rep(api.name, c.id, c.f)})
			}
			if h == nil {
				continue
			}
			if c.replay && api.name != "v8" {
				start := head
				fmt.Sscanf(c.id[1:], "%x", &start)
				got, ok := w.replayOf(ss, h, c.f, false, w.L1, len(naive(w.Chain, c.f, start, head)))
				wantR := withFinality(naive(w.Chain, c.f, start, head), w.L1)
				if !ok {
					res.Violate(lib.Violation{Sig: "event-subscription-delivers-nothing", What: api.name + ": no marker notification in time", Replay: rep(api.name, c.id, c.f)})
				} else if got != wantR {
					res.Violate(lib.Violation{Sig: "event-subscription-historical-replay-differs",
						What: fmt.Sprintf("%s from %s: replayed %s, the chain has %s", api.name, c.id, got, wantR), Replay: rep(api.name, c.id, c.f)})
				}
				if ok {
					w.compare("subscription-historical-replay", got, w.ask(fmt.Sprintf("subreplay %s %x %x %s", c.f.arg(), start, head, w.l1Arg())))
				}
				res.Hit("subscription-edges:replay-checked")
			}
			h.cancel()
		}
	}
	// 3. pre-confirmed updates of one tip: every matching event exactly once per round
	for _, api := range apis[:2] {
		w.preConfirmedRounds(ctx, ss, api, r)
	}
	res.Hit("history:subscription-edges")
}

// preConfirmedRounds drives onPreConfirmed of a real subscription through two rounds of a growing
// pre-confirmed tip, a repeated update, a replacement round and a reorg, waiting for the notifications
// of each update before the next is sent (a feed keeps only the last value).
func (w *World) preConfirmedRounds(ctx context.Context, ss *subSync, api subAPI, r *lib.RNG) {
	f := lib.Pick(r, []Filt{filtA, {}, {Addrs: []int{0, 1}}, {Keys: [][]int{{0, 1}}}})
	rep := map[string]any{"history": w.replay(), "api": api.name, "filter": f}
	h, out := w.trySubscribe(ctx, api, f, "latest", true)
	if h == nil {
		w.Res.Violate(lib.Violation{Sig: "event-subscription-refused", What: api.name + ": " + out, Replay: rep})
		return
	}
	defer h.cancel()
	w.ask("pcreset")
	head := len(w.Chain) - 1
	tip := uint64(head + 1)
	m := markerPlan(f)[0][0]
	other := Ev{From: 5, Keys: []int{3, 3}}
	if f.matches(other) {
		other = Ev{From: 6} // never matches a filter with a key position or these addresses … unless f is {}
	}
	txs := []struct {
		tx  core.Transaction
		evs []Ev
	}{}
	grow := func(evs []Ev) {
		txs = append(txs, struct {
			tx  core.Transaction
			evs []Ev
		}{w.Src.mkTx(len(txs)), evs})
	}
	build := func(n int) (*core.Block, Plan, string) {
		var ts []core.Transaction
		var rcs []*core.TransactionReceipt
		var plan Plan
		var hs []string
		for i := 0; i < n; i++ {
			ts = append(ts, txs[i].tx)
			rcs = append(rcs, mkReceipt(txs[i].tx, txs[i].evs, 9))
			plan = append(plan, txs[i].evs)
			hs = append(hs, fmt.Sprintf("%x", 0x1000+i)) // the model's name of the i-th transaction hash
		}
		blk := &core.Block{Header: &core.Header{Number: tip, EventsBloom: core.EventsBloom(rcs), TransactionCount: uint64(n), ProtocolVersion: "0.14.0"},
			Transactions: ts, Receipts: rcs}
		return blk, plan, strings.Join(hs, ",")
	}
	grow([]Ev{m, other})
	grow([]Ev{other, m, m})
	grow([]Ev{m})
	grow([]Ev{other})
	grow([]Ev{m, m})
	isTip := func(x subMsg) bool { return x.Block == tip && !x.Reorg }
	emOf := func(blk *core.Block, x subMsg) string {
		t := -1
		for ti, rc := range blk.Receipts {
			if rc.TransactionHash.String() == x.TxHash {
				t = ti
			}
		}
		return Em{int(tip), t, x.EvIdx}.String()
	}
	total := 0
	step := func(n int, round int) {
		blk, plan, hs := build(n)
		model := w.ask(fmt.Sprintf("pc %s %x %x %s %s %s", f.arg(), tip, round, hs, itemsLine(bloomItems(blk.EventsBloom)), planLine(plan)))
		before := h.conn.len()
		ss.pre.Send(&pending.PreConfirmed{Block: blk, BlockIdentifier: fmt.Sprintf("round-%d", round)})
		if model != "-" && model != "" {
			total += len(strings.Split(model, ","))
			if !awaitCount(h.conn, total, isTip) {
				w.Res.Violate(lib.Violation{Sig: "event-subscription-delivers-nothing",
					What: fmt.Sprintf("%s: pre-confirmed update (%d transactions, round %d): %d notifications expected for the tip, not received in time", api.name, n, round, total), Replay: rep})
				return
			}
			time.Sleep(5 * time.Millisecond)
		} else {
			time.Sleep(40 * time.Millisecond) // nothing new to send: give a wrong notification time to show
		}
		var got []string
		for _, x := range h.conn.snapshot(before) {
			if !isTip(x) {
				continue
			}
			got = append(got, emOf(blk, x))
			if x.Finality != "PRE_CONFIRMED" {
				w.Res.Violate(lib.Violation{Sig: "event-subscription-wrong-finality", What: api.name + ": pre-confirmed event has finality " + x.Finality, Replay: rep})
			}
		}
		g := "-"
		if len(got) > 0 {
			g = strings.Join(got, ",")
		}
		total = 0
		for _, x := range h.conn.snapshot(0) {
			if isTip(x) {
				total++
			}
		}
		w.compare("subscription-pre-confirmed-update", g, model)
		w.Res.Hit("subscription-edges:pre-confirmed-update")
	}
	blk5, plan5, _ := build(5)
	want := emsString(func() []Em {
		var o []Em
		for _, e := range naive([]Plan{plan5}, f, 0, 0) {
			o = append(o, Em{int(tip), e.T, e.I})
		}
		return o
	}())
	// the property: within one round every matching event of the tip is notified exactly once, in order
	roundCheck := func(fromIdx int, what string) {
		time.Sleep(20 * time.Millisecond)
		var sent []string
		seen := map[string]bool{}
		sig := "event-subscription-live-events-differ"
		for _, x := range h.conn.snapshot(fromIdx) {
			if !isTip(x) {
				continue
			}
			e := emOf(blk5, x)
			if seen[e] {
				sig = "event-subscription-event-sent-twice"
			}
			seen[e] = true
			sent = append(sent, e)
		}
		g := "-"
		if len(sent) > 0 {
			g = strings.Join(sent, ",")
		}
		if g != want {
			w.Res.Violate(lib.Violation{Sig: sig,
				What: fmt.Sprintf("%s: %s of the pre-confirmed tip %d notified %s, its matching events are %s", api.name, what, tip, g, want), Replay: rep})
		}
	}
	// round 1: the tip grows; an identical update in between sends nothing
	r1 := h.conn.len()
	step(1, 1)
	step(2, 1)
	step(2, 1)
	step(3, 1)
	step(4, 1)
	step(5, 1)
	roundCheck(r1, "six updates in one round")
	// round 2 replaces round 1 at the same height with the same transactions: everything is sent again
	r2 := h.conn.len()
	step(5, 2)
	roundCheck(r2, "the replacement round")
	// a reorg notification clears the de-duplication state (correspondence only)
	nReorg := 0
	for _, x := range h.conn.snapshot(0) {
		if x.Reorg {
			nReorg++
		}
	}
	ss.reorgs.Send(&junosync.ReorgBlockRange{StartBlockHash: lib.F(1), StartBlockNum: uint64(head), EndBlockHash: lib.F(2), EndBlockNum: uint64(head)})
	if awaitCount(h.conn, nReorg+1, func(x subMsg) bool { return x.Reorg }) {
		w.ask("pcclear")
		step(5, 2)
		w.Res.Hit("subscription-edges:reorg-clears-the-deduper")
	} else {
		w.Res.Violate(lib.Violation{Sig: "event-subscription-delivers-nothing", What: api.name + ": no reorg notification in time", Replay: rep})
	}
}

// runDeduper ties rpccore.PreConfirmedDeduper itself to the model with random MarkSent / Clear sequences.
func runDeduper(res *lib.Result, pool *DrvPool, r *lib.RNG) {
	ask, done := borrow(pool, res, "deduper")
	defer done()
	if ask == nil {
		return
	}
	type key struct {
		H    uint64
		T, I uint
	}
	for round := 0; round < 6; round++ {
		d := rpccore.NewPreConfirmedDeduper[key]()
		ask("pcreset")
		for i := 0; i < 120; i++ {
			if r.Chance(1, 25) {
				d.Clear()
				ask("pcclear")
				res.Hit("deduper:clear")
				continue
			}
			num := uint64(r.Intn(3)) // block number 0 and identifier "" are the cleared state
			ident := r.Intn(3)
			k := key{uint64(1 + r.Intn(3)), uint(r.Intn(2)), uint(r.Intn(2))}
			is := ""
			if ident > 0 {
				is = fmt.Sprintf("round-%d", ident)
			}
			got := d.MarkSent(num, is, &k)
			model := ask(fmt.Sprintf("marksent %x %x %x %x %x", num, ident, k.H, k.T, k.I))
			res.Compared(1)
			if model != b2s(got) {
				res.Mismatch(lib.Mismatch{Sig: "deduper-marksent", Input: map[string]any{"round": round, "step": i, "num": num, "ident": ident, "key": k}, Model: model, Impl: b2s(got)})
			}
			res.Hit("deduper:marksent")
		}
	}
}

// runV8Reorg: rpc v8 reads the events of new heads from the database over [next block, new head]; a
// reorg notification must move the next block back, or the events of the replacement blocks are lost.
func runV8Reorg(res *lib.Result, pool *DrvPool, v Variant, r *lib.RNG) {
	w := newWorld("v8-subscription-reorg", r, res, pool, v, false, false)
	defer w.close()
	w.do(st(2, nil))
	w.do(st(1, evA))
	ss := newSubSync()
	h := rpcv8.New(w.Node.BC, ss, nil, log.NewNopZapLogger())
	ctx, cancel := context.WithCancel(context.Background())
	defer cancel()
	go func() { _ = h.Run(ctx) }()
	f := Filt{Addrs: []int{0}}
	conn := &subConn{ctx: ctx}
	addrs, keys := f.real()
	if _, rerr := h.SubscribeEvents(context.WithValue(ctx, jsonrpc.ConnKey{}, conn), &addrs[0], keys, nil); rerr != nil {
		res.Violate(lib.Violation{Sig: "event-subscription-refused", What: fmt.Sprintf("v8: %d %s", rerr.Code, rerr.Message), Replay: map[string]any{"history": w.replay()}})
		return
	}
	w.ask(fmt.Sprintf("v8sub %x", len(w.Chain)-1))
	var model []string
	addModel := func(s string) {
		if s != "-" && s != "" {
			model = append(model, s)
		}
	}
	addModel(stripFin(w.ask(fmt.Sprintf("subreplay %s %x %x -", f.arg(), len(w.Chain)-1, len(w.Chain)-1))))
	notified := func() string {
		var ems []Em
		for _, m := range conn.snapshot(0) {
			if m.Reorg {
				continue
			}
			b := int(m.Block)
			ems = append(ems, Em{b, 0, m.EvIdx})
		}
		return emsString(ems)
	}
	var want []Em
	want = append(want, naive(w.Chain, f, len(w.Chain)-1, len(w.Chain)-1)...)
	modelCount := func() int {
		n := 0
		for _, m := range model {
			n += len(strings.Split(m, ","))
		}
		return n
	}
	announce := func() {
		head := len(w.Chain) - 1
		addModel(w.ask(fmt.Sprintf("v8head %s %x", f.arg(), head)))
		ss.heads.Send(w.Bundles[head].Block)
		awaitCount(conn, modelCount(), func(x subMsg) bool { return !x.Reorg })
		time.Sleep(5 * time.Millisecond)
	}
	// two heads, then a reorg of both, replacement blocks with other events
	w.do(st(1, Plan{{Ev{From: 0, Keys: []int{1}}}}))
	want = append(want, naive(w.Chain, f, len(w.Chain)-1, len(w.Chain)-1)...)
	announce()
	w.do(st(1, Plan{{Ev{From: 0}, Ev{From: 1}}}))
	want = append(want, naive(w.Chain, f, len(w.Chain)-1, len(w.Chain)-1)...)
	announce()
	start := len(w.Chain) - 2
	w.do(rv(2))
	ss.reorgs.Send(&junosync.ReorgBlockRange{StartBlockHash: lib.F(1), StartBlockNum: uint64(start), EndBlockHash: lib.F(2), EndBlockNum: uint64(start + 1)})
	if !awaitCount(conn, 1, func(x subMsg) bool { return x.Reorg }) {
		res.Violate(lib.Violation{Sig: "event-subscription-delivers-nothing", What: "v8: no reorg notification in time", Replay: map[string]any{"history": w.replay()}})
		return
	}
	w.ask(fmt.Sprintf("v8reorg %x", start))
	w.do(st(1, Plan{{Ev{From: 0, Keys: []int{2}}, Ev{From: 0, Keys: []int{0}}}}))
	w.do(st(1, Plan{{Ev{From: 1}}, {Ev{From: 0, Keys: []int{3}}}}))
	// only the newest head is announced: the range [next block, head] has to cover the first replacement block
	want = append(want, naive(w.Chain, f, start, len(w.Chain)-1)...)
	{
		head := len(w.Chain) - 1
		addModel(w.ask(fmt.Sprintf("v8head %s %x", f.arg(), head)))
		ss.heads.Send(w.Bundles[head].Block)
		awaitCount(conn, len(want), func(x subMsg) bool { return !x.Reorg })
		time.Sleep(5 * time.Millisecond)
	}
	got := notified()
	wantS := emsStringNoTx(want)
	if got != wantS {
		res.Violate(lib.Violation{Sig: "event-subscription-v8-events-differ",
			What:   fmt.Sprintf("v8: heads, a reorg of two blocks and the replacement head notified %s; the events of the blocks as they were announced are %s", got, wantS),
			Replay: map[string]any{"history": w.replay(), "filter": f, "api": "v8"}})
	}
	w.compare("subscription-v8-heads-and-reorg", got, emsStringNoTxS(strings.Join(model, ",")))
	res.Hit("subscription:v8-reorg-checked")
}

func stripFin(s string) string { return strings.NewReplacer("/L1", "", "/L2", "").Replace(s) }

// v8 notifications carry no transaction index and the harness does not look it up here: compare (block, event index)
func emsStringNoTx(es []Em) string {
	o := make([]Em, len(es))
	for i, e := range es {
		o[i] = Em{e.B, 0, e.I}
	}
	return emsString(o)
}

func emsStringNoTxS(s string) string {
	if s == "" || s == "-" {
		return "-"
	}
	parts := strings.Split(s, ",")
	for i, p := range parts {
		var b, t, x int
		fmt.Sscanf(p, "%d.%d.%d", &b, &t, &x)
		parts[i] = Em{b, 0, x}.String()
	}
	return strings.Join(parts, ",")
}

// ---------------------------------------------------------------------------------------------
// The LRU cache purged at every revert, two windows large
// ---------------------------------------------------------------------------------------------

// runLRUReset is runLRU with what Blockchain.RevertHead does since 6609698: the cache is purged after
// every revert. Then a two-window cache behaves like the node's: the property's oracle decides — every
// block of the range that holds a matching event is among the candidates (unless the scan limit ended
// the iteration before it).
func runLRUReset(far *Base, res *lib.Result, v Variant, r *lib.RNG) {
	if far == nil || far.Pool == nil {
		return
	}
	src := far.W[0]
	if src == nil {
		src = far.W[1]
	}
	w := src.fork("lru-small-cache-purged-on-revert", r, 778, far.Pool, v, false)
	defer w.close()
	w.ask(fmt.Sprintf("cfg %x 2 1 1 1 1", W))
	w.ask("load")
	h := len(w.Chain)
	w.do(st(2*W-3-h, nil))
	w.do(st(1, evA)) // 2W-3
	w.do(st(1, nil))
	w.do(st(1, evB)) // 2W-1
	w.do(st(1, evA)) // 2W
	w.do(st(4, nil))
	cache := blockchain.NewAggregatedBloomCache(2)
	cache.WithFallback(func(key blockchain.EventFiltersCacheKey) (core.AggregatedBloomFilter, error) {
		var from, to uint64
		if _, err := fmt.Sscanf(fmt.Sprint(key), "{%d %d}", &from, &to); err != nil {
			return core.AggregatedBloomFilter{}, err
		}
		return core.GetAggregatedBloomFilter(w.Node.DB, from, to)
	})
	iter := func(f Filt, from, to, limit int) {
		addrs, keys := f.real()
		m := blockchain.NewEventMatcher(addrs, keys)
		rf := core.NewRunningEventFilterLazy(w.Node.DB, core.InitializeRunningEventFilter)
		impl := ""
		cands := map[int]bool{}
		limited := false
		it, err := cache.NewMatchedBlockIterator(uint64(from), uint64(to), uint64(limit), &m, rf)
		if err != nil {
			impl = "err:" + errClass(err)
		} else {
			var bs []string
			lim := "-"
			for {
				b, ok, err := it.Next()
				if !ok {
					if err != nil {
						if errors.Is(err, blockchain.ErrMaxScannedBlockLimitExceed) {
							lim = fmt.Sprint(b)
							limited = true
						} else {
							impl = "err:" + errClass(err)
						}
					}
					break
				}
				bs = append(bs, fmt.Sprint(b))
				cands[int(b)] = true
			}
			if impl == "" {
				l := "-"
				if len(bs) > 0 {
					l = strings.Join(bs, ",")
				}
				impl = "ok " + l + " lim=" + lim
			}
		}
		w.compare("iterator-candidates-small-cache", impl, w.ask(fmt.Sprintf("iter %s %x %x %x", f.arg(), from, to, limit)))
		res.Hit("lru-purged:iterator-query")
		if strings.HasPrefix(impl, "err") {
			res.Violate(lib.Violation{Sig: "query-returns-error-" + strings.TrimPrefix(impl, "err:"), What: fmt.Sprintf("%s: candidate iterator over [%d,%d] fails", w.Name, from, to),
				Replay: map[string]any{"history": w.replay(), "filter": f, "from": from, "to": to}})
			return
		}
		if limited {
			return
		}
		for _, e := range naive(w.Chain, f, from, to) {
			if !cands[e.B] {
				res.Violate(lib.Violation{Sig: "matching-event-omitted",
					What:   fmt.Sprintf("%s: block %d holds the matching event %v of %v but is not among the candidate blocks of [%d,%d] (two-window cache, purged at every revert)", w.Name, e.B, e, f, from, to),
					Replay: map[string]any{"history": w.replay(), "filter": f, "from": from, "to": to, "cache": "NewAggregatedBloomCache(2), Reset after every revert"}})
				return
			}
		}
	}
	filters := []Filt{filtA, filtB, {Addrs: []int{0, 1}}, {Keys: [][]int{{0}}}, {Addrs: []int{1}, Keys: [][]int{{}, {2}}}}
	round := func(k int) {
		head := len(w.Chain) - 1
		for i := 0; i < k; i++ {
			var a, b int
			switch r.Intn(5) {
			case 0:
				a, b = 0, head
			case 1:
				a, b = r.Intn(W), W+r.Intn(W)
			case 2:
				a, b = W+r.Intn(W), head
			case 3:
				a, b = 2*W-6, head
			default:
				a = r.Intn(head + 1)
				b = a + r.Intn(head-a+1)
			}
			limit := 0
			if r.Chance(1, 4) {
				limit = 1 + r.Intn(6)
			}
			iter(lib.Pick(r, filters), a, b, limit)
		}
	}
	revert := func(n int) {
		for i := 0; i < n; i++ {
			w.do(rv(1))
			cache.Reset()
			if i == n/2 {
				round(3) // queries between the reverts of one reorg warm the cache again
			}
		}
	}
	round(12)
	// SetMany (no caller in juno outside tests): the windows are added under their own bounds, in order
	setMany := func(froms ...int) {
		var fs []*core.AggregatedBloomFilter
		var args []string
		for _, fr := range froms {
			flt, err := core.GetAggregatedBloomFilter(w.Node.DB, uint64(fr), uint64(fr+W-1))
			if err != nil {
				res.Fatalf("lru: reading persisted window %d: %v", fr, err)
				return
			}
			fs = append(fs, &flt)
			args = append(args, fmt.Sprintf("%x", fr))
		}
		cache.SetMany(fs)
		if out := w.ask("cacheset " + strings.Join(args, ",")); out != "ok" {
			res.Fatalf("lru: cacheset answered %q", out)
		}
		res.Hit("lru-purged:set-many")
	}
	setMany(0)
	round(4)
	setMany(W, 0)
	round(4)
	// the two refusals of the iterator that Blockchain never provokes (it always wires both)
	{
		m := blockchain.NewEventMatcher(nil, nil)
		if _, err := cache.NewMatchedBlockIterator(0, 5, 0, &m, nil); !errors.Is(err, blockchain.ErrNilRunningFilter) {
			res.Violate(lib.Violation{Sig: "iterator-accepts-missing-running-filter", What: fmt.Sprintf("NewMatchedBlockIterator without a running filter: %v", err)})
		}
		bare := blockchain.NewAggregatedBloomCache(2)
		rf := core.NewRunningEventFilterLazy(w.Node.DB, core.InitializeRunningEventFilter)
		it, err := bare.NewMatchedBlockIterator(0, 5, 0, &m, rf)
		if err == nil {
			_, _, err = it.Next()
		}
		if !errors.Is(err, blockchain.ErrAggregatedBloomFilterFallbackNil) {
			res.Violate(lib.Violation{Sig: "iterator-without-fallback-answers", What: fmt.Sprintf("iterator over a persisted window on a cache without fallback: %v", err)})
		}
		res.Hit("lru-purged:iterator-refusals-checked")
	}
	revert(7) // across the second boundary: window [W, 2W-1] is re-opened
	w.do(st(1, evB))
	w.do(st(1, evA))
	w.do(st(6, nil))
	round(14)
	revert(9)
	w.do(st(2, evA))
	w.do(st(1, evB))
	w.do(st(9, nil))
	round(14)
	res.Hit("history:lru-small-cache-purged-on-revert")
}
