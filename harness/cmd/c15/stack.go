//go:build verif

package main

import (
	"fmt"
	"strconv"

	"github.com/NethermindEth/juno/db"
	"verif/harness/lib"
)

// ---- stacks of wrappers over the contract ---------------------------------------------------------
//
// db.BufferBatch shadows the layer underneath until Flush / Write; the layer underneath can change in
// between (another BufferBatch over the same batch is flushed first — core/deprecatedstate keeps one
// buffer per contract over ONE shared batch —, a Put on the wrapped batch itself, a direct write to the
// store that the indexed batch reads through). The family below builds STACKS: store / indexed batch /
// one to four BufferBatch and SyncBatch values over the batch, over each other or side by side, with the
// operations interleaved across all levels and the flush order permuted.
//
// Oracles: (1) backend against backend, as for every op; (2) each backend against the Lean model of the
// stack (ModelStack.lean); (3) THE PROPERTY ORACLE OF THIS FAMILY, independent of Lean: the same sequence
// on a db/memory world in which the wrappers are replaced by their reference semantics — "later operations
// win": a buffer IS the log of the calls made on it, in call order; reading through it takes the last call
// for the key, else asks the layer underneath NOW; Flush replays the log, in call order, on the layer
// underneath; a SyncBatch is the batch it wraps. A stack of buffers over a batch over a store must answer
// every call, and leave every store content, like the sequential application of the operations in flush
// order. Sig: layered-batches-differ-from-sequential-application:<op>.

type seqCall struct {
	key string
	val []byte
	del bool
}

// seqBuffer: reference semantics of db.BufferBatch
type seqBuffer struct {
	under db.IndexedBatch
	log   []seqCall
	dead  bool // after Write: the real one has dropped its map (Put / Delete panic, reads fall through)
}

func (s *seqBuffer) Put(key, val []byte) error {
	if s.dead {
		panic("assignment to entry in nil map")
	}
	s.log = append(s.log, seqCall{key: string(key), val: append([]byte{}, val...)})
	return nil
}

func (s *seqBuffer) Delete(key []byte) error {
	if s.dead {
		panic("assignment to entry in nil map")
	}
	s.log = append(s.log, seqCall{key: string(key), del: true})
	return nil
}

func (s *seqBuffer) Get(key []byte, cb func([]byte) error) error {
	for i := len(s.log) - 1; i >= 0; i-- {
		if s.log[i].key == string(key) {
			if s.log[i].del {
				return db.ErrKeyNotFound
			}
			return cb(s.log[i].val)
		}
	}
	return s.under.Get(key, cb)
}

func (s *seqBuffer) Flush() error {
	for _, c := range s.log {
		var err error
		if c.del {
			err = s.under.Delete([]byte(c.key))
		} else {
			err = s.under.Put([]byte(c.key), c.val)
		}
		if err != nil {
			return err
		}
	}
	return nil
}

func (s *seqBuffer) Write() error {
	if err := s.Flush(); err != nil {
		return err
	}
	s.dead, s.log = true, nil
	return s.under.Write()
}

func (s *seqBuffer) Close() error                  { return s.under.Close() }
func (s *seqBuffer) Has([]byte) (bool, error)      { panic("should not be called") }
func (s *seqBuffer) Size() int                     { panic("should not be called") }
func (s *seqBuffer) DeleteRange(_, _ []byte) error { panic("should not be called") }
func (s *seqBuffer) NewIterator([]byte, bool) (db.Iterator, error) {
	panic("should not be called")
}

func (w *World) layer(h int) db.IndexedBatch {
	if h < 0 || h >= len(w.layers) {
		return nil
	}
	return w.layers[h]
}

func (w *World) execLayer(o Op) string {
	if o.K == "lnew" {
		var under db.IndexedBatch
		if h, ok := handleOf(o.Src, 'b'); ok {
			if b := w.batch(h); b != nil {
				under, _ = b.(db.IndexedBatch)
			}
		} else if h, ok := handleOf(o.Src, 'l'); ok {
			under = w.layer(h)
		} else {
			return "bad-op"
		}
		if under == nil || (o.Wrap != "buf" && o.Wrap != "sync") {
			w.layers, w.layerKind = append(w.layers, nil), append(w.layerKind, "")
			return "bad-handle"
		}
		var l db.IndexedBatch
		switch {
		case w.seq && o.Wrap == "buf":
			l = &seqBuffer{under: under}
		case w.seq:
			l = under
		case o.Wrap == "buf":
			l = db.NewBufferBatch(under)
		default:
			l = db.NewSyncBatch(under)
		}
		w.layers, w.layerKind = append(w.layers, l), append(w.layerKind, o.Wrap)
		return "h:" + strconv.Itoa(len(w.layers)-1)
	}
	l := w.layer(o.H)
	if l == nil {
		return "bad-handle"
	}
	switch o.K {
	case "lput":
		return classify(l.Put(bs(o.Key, o.NilB), bs(o.Val, o.NilB)))
	case "ldel":
		return classify(l.Delete(bs(o.Key, o.NilB)))
	case "ldelrange":
		return classify(l.DeleteRange(bs(o.Key, o.NilB), bs(o.End, o.NilB)))
	case "lget":
		return doGet(l, o)
	case "lhas":
		return doHas(l, o)
	case "lscan":
		return doScan(l, o)
	case "lsize":
		return "n:" + strconv.Itoa(l.Size())
	case "lwrite":
		return classify(l.Write())
	case "lclose":
		return classify(l.Close())
	case "lflush":
		if w.layerKind[o.H] != "buf" {
			return "bad-handle" // (db.SyncBatch has no Flush)
		}
		return classify(l.(interface{ Flush() error }).Flush())
	}
	return "bad-op"
}

// handleOf: the number N of a handle written "<c>N"
func handleOf(s string, c byte) (int, bool) {
	if len(s) < 2 || s[0] != c {
		return 0, false
	}
	n, err := strconv.Atoi(s[1:])
	return n, err == nil && n >= 0
}

func isLayerOp(o Op) bool {
	switch o.K {
	case "lnew", "lput", "ldel", "ldelrange", "lget", "lhas", "lscan", "lsize", "lwrite", "lclose", "lflush":
		return true
	}
	return false
}

// baseOpOf: the call on the batch at the bottom of the chain that decides whether a call on a layer is
// inside the documented contract (mirror of `baseOp` / `ldocumented` in ModelStack.lean)
func baseOpOf(o Op, base int) Op {
	src := fmt.Sprintf("b%d", base)
	switch o.K {
	case "lput":
		return Op{K: "bput", H: base}
	case "ldel":
		return Op{K: "bdel", H: base}
	case "ldelrange":
		return Op{K: "bdelrange", H: base}
	case "lget":
		return Op{K: "get", Src: src}
	case "lhas":
		return Op{K: "has", Src: src}
	case "lscan":
		return Op{K: "scan", Src: src}
	case "lsize":
		return Op{K: "bsize", H: base}
	case "lwrite":
		return Op{K: "bwrite", H: base}
	case "lclose":
		return Op{K: "bclose", H: base}
	}
	return Op{K: "noop"}
}

// ---- generators -----------------------------------------------------------------------------------

var (
	stackKeys = [][]byte{{0x01}, {0x01, 0x00}, {0x02}}
	stackVals = [][]byte{{0xaa}, {0xbb}, {}}
)

// stackViews: look through every layer made so far (Get of every key of the small alphabet), iterate
// the batches at the bottom — the intermediate state of the whole stack, not only final answers
func stackViews(nLayers int, bases []int) []Op {
	var ops []Op
	for l := 0; l < nLayers; l++ {
		for _, key := range stackKeys {
			ops = append(ops, Op{K: "lget", H: l, Key: key})
		}
	}
	for _, b := range bases {
		ops = append(ops, Op{K: "scan", Src: fmt.Sprintf("b%d", b)})
	}
	return ops
}

// stackExhaustive: ONE key, one BufferBatch over one indexed batch over the store (key stored or not),
// EVERY sequence of `depth` steps out of: Put / Delete on the buffer, Put / Delete on the wrapped batch
// (the layer underneath changes), Put / Delete directly in the store (which the indexed batch reads
// through), Flush of the buffer; after every step the key is read through the buffer, through the batch
// and in the store; then Write of the buffer and the content of the store. (A Delete of a key with a
// pending Put must stay a tombstone whatever the layers underneath hold at that time or later.)
func stackExhaustive(depth int) [][]Op {
	key := []byte{0x01}
	// equal = the three levels write the SAME value (a flush that skips what looks unchanged underneath, a
	// read that takes the value from the wrong level and still looks right ...); otherwise three different ones
	steps := func(l, b int, equal bool) []Op {
		vb, vs := []byte{0xbb}, []byte{0xcc}
		if equal {
			vb, vs = []byte{0xaa}, []byte{0xaa}
		}
		return []Op{{K: "lput", H: l, Key: key, Val: []byte{0xaa}}, {K: "ldel", H: l, Key: key},
			{K: "bput", H: b, Key: key, Val: vb}, {K: "bdel", H: b, Key: key},
			{K: "put", Key: key, Val: vs}, {K: "del", Key: key}, {K: "lflush", H: l}}
	}
	n := len(steps(0, 0, false))
	var seqs [][]int
	var rec func(prefix []int)
	rec = func(prefix []int) {
		if len(prefix) == depth {
			seqs = append(seqs, append([]int{}, prefix...))
			return
		}
		for m := 0; m < n; m++ {
			rec(append(prefix, m))
		}
	}
	rec(nil)
	var all [][]Op
	const perWorld = 60
	for variant := 0; variant < 3; variant++ {
		stored, equal := variant == 1, variant == 2
		for s := 0; s < len(seqs); s += perWorld {
			var ops []Op
			h := 0
			for _, sq := range seqs[s:min(s+perWorld, len(seqs))] {
				ops = append(ops, Op{K: "delrange", End: []byte{0xff}})
				if stored {
					ops = append(ops, Op{K: "put", Key: key, Val: []byte{0xdd}})
				}
				if equal {
					ops = append(ops, Op{K: "put", Key: key, Val: []byte{0xaa}})
				}
				ops = append(ops, Op{K: "newbatch", Idx: true}, Op{K: "lnew", Wrap: "buf", Src: fmt.Sprintf("b%d", h)})
				st := steps(h, h, equal)
				for _, m := range sq {
					ops = append(ops, st[m], Op{K: "lget", H: h, Key: key}, Op{K: "get", Src: fmt.Sprintf("b%d", h), Key: key})
				}
				ops = append(ops, Op{K: "lwrite", H: h}, Op{K: "get", Src: "db", Key: key})
				h++
			}
			all = append(all, append(ops, Op{K: "scan", Src: "db"}, Op{K: "close"}))
		}
	}
	return all
}

// stackSiblings: the core/deprecatedstate pattern — three buffers over ONE shared indexed batch, each with
// its own puts and deletes over overlapping keys, flushed in every one of the 6 orders (the wrapped batch
// changes under the buffers not flushed yet), reads through every buffer after every flush, then Write of
// the shared batch.
func stackSiblings() [][]Op {
	a, b, c := stackKeys[0], stackKeys[1], stackKeys[2]
	perms := [][3]int{{0, 1, 2}, {0, 2, 1}, {1, 0, 2}, {1, 2, 0}, {2, 0, 1}, {2, 1, 0}}
	var all [][]Op
	for _, pm := range perms {
		ops := []Op{{K: "put", Key: a, Val: []byte{1}}, {K: "put", Key: c, Val: []byte{3}}, {K: "newbatch", Idx: true},
			{K: "lnew", Wrap: "buf", Src: "b0"}, {K: "lnew", Wrap: "buf", Src: "b0"}, {K: "lnew", Wrap: "buf", Src: "b0"},
			{K: "lput", H: 0, Key: a, Val: []byte{0xa0}}, {K: "lput", H: 0, Key: b, Val: []byte{0xb0}}, {K: "ldel", H: 0, Key: b},
			{K: "ldel", H: 1, Key: a}, {K: "lput", H: 1, Key: b, Val: []byte{0xb1}}, {K: "lput", H: 1, Key: c, Val: nil},
			{K: "lput", H: 2, Key: c, Val: []byte{0xc2}}, {K: "ldel", H: 2, Key: c}, {K: "lput", H: 2, Key: a, Val: []byte{0xa2}}}
		ops = append(ops, stackViews(3, []int{0})...)
		for _, l := range pm {
			ops = append(ops, Op{K: "lflush", H: l})
			ops = append(ops, stackViews(3, []int{0})...)
		}
		ops = append(ops, Op{K: "bwrite", H: 0}, Op{K: "scan", Src: "db"}, Op{K: "close"})
		all = append(all, ops)
	}
	return all
}

// stackDirected: chains (buffer over buffer, buffer over SyncBatch, SyncBatch over buffer), Write from the
// top (every level flushes into the next), use after Write, a dead buffer underneath, the methods that
// panic reached through a SyncBatch, a layer over a handle that does not exist.
func stackDirected() [][]Op {
	a, b, c := stackKeys[0], stackKeys[1], stackKeys[2]
	pre := []Op{{K: "put", Key: a, Val: []byte{1}}, {K: "put", Key: c, Val: []byte{3}}, {K: "newbatch", Idx: true}}
	with := func(more ...Op) []Op { return append(append([]Op{}, pre...), more...) }
	v := func(n int) []Op { return stackViews(n, []int{0}) }
	cat := func(parts ...[]Op) []Op {
		var out []Op
		for _, p := range parts {
			out = append(out, p...)
		}
		return out
	}
	return [][]Op{
		// buffer over buffer over batch: tombstone on top of a pending put below, then the middle changes
		cat(with(Op{K: "lnew", Wrap: "buf", Src: "b0"}, Op{K: "lnew", Wrap: "buf", Src: "l0"},
			Op{K: "lput", H: 1, Key: b, Val: []byte{0xb1}}, Op{K: "ldel", H: 1, Key: b}, Op{K: "lput", H: 0, Key: b, Val: []byte{0xb0}}), v(2),
			[]Op{{K: "lflush", H: 1}}, v(2), []Op{{K: "lput", H: 0, Key: b, Val: []byte{0xbb}}, {K: "bput", H: 0, Key: b, Val: []byte{0xb9}}}, v(2),
			[]Op{{K: "lwrite", H: 1}, {K: "scan", Src: "db"}}, v(2), []Op{{K: "lput", H: 1, Key: a, Val: nil}, {K: "lput", H: 0, Key: a, Val: nil},
				{K: "lflush", H: 1}, {K: "lflush", H: 0}, {K: "lwrite", H: 0}, {K: "lwrite", H: 1}, {K: "close"}}),
		// a dead buffer underneath: Flush of the upper one panics at its first entry (nothing applied), an empty one succeeds
		cat(with(Op{K: "lnew", Wrap: "buf", Src: "b0"}, Op{K: "lnew", Wrap: "buf", Src: "l0"}, Op{K: "lnew", Wrap: "buf", Src: "l0"},
			Op{K: "lput", H: 1, Key: a, Val: []byte{0xa1}}, Op{K: "lwrite", H: 0}, Op{K: "lflush", H: 2}, Op{K: "lflush", H: 1}, Op{K: "lwrite", H: 1}),
			v(3), []Op{{K: "lwrite", H: 2}, {K: "scan", Src: "db"}, {K: "close"}}),
		// SyncBatch between buffer and batch; SyncBatch over a buffer: Has / NewIterator / Size / DeleteRange reach the panic
		cat(with(Op{K: "lnew", Wrap: "sync", Src: "b0"}, Op{K: "lnew", Wrap: "buf", Src: "l0"}, Op{K: "lnew", Wrap: "sync", Src: "l1"},
			Op{K: "lput", H: 2, Key: b, Val: []byte{0xb2}}, Op{K: "ldel", H: 2, Key: a}, Op{K: "lput", H: 0, Key: a, Val: []byte{0xa0}},
			Op{K: "ldelrange", H: 0, Key: c, End: []byte{0xff}}), v(3),
			[]Op{{K: "lhas", H: 0, Key: a}, {K: "lhas", H: 2, Key: a}, {K: "lhas", H: 1, Key: a}, {K: "lscan", H: 0}, {K: "lscan", H: 2}, {K: "lsize", H: 0},
				{K: "lsize", H: 2}, {K: "ldelrange", H: 2, Key: a, End: c}, {K: "lflush", H: 0}, {K: "lflush", H: 2}, {K: "lflush", H: 1}}, v(3),
			[]Op{{K: "lget", H: 2, Key: b, Fail: true}, {K: "lget", H: 2, Key: c, Fail: true}, {K: "lwrite", H: 2}, {K: "scan", Src: "db"},
				{K: "lget", H: 2, Key: a}, {K: "lput", H: 2, Key: a, Val: nil}, {K: "lput", H: 0, Key: a, Val: nil}, {K: "lclose", H: 2}, {K: "close"}}),
		// layers over handles that do not exist / over a batch that is not indexed / calls on them; Close from the top
		cat(with(Op{K: "lnew", Wrap: "buf", Src: "b7"}, Op{K: "lnew", Wrap: "sync", Src: "l5"}, Op{K: "lput", H: 0, Key: a, Val: nil},
			Op{K: "lget", H: 1, Key: a}, Op{K: "lflush", H: 0}, Op{K: "lwrite", H: 9}, Op{K: "lnew", Wrap: "buf", Src: "b0"}, Op{K: "lnew", Wrap: "buf", Src: "l2"},
			Op{K: "lput", H: 3, Key: b, Val: []byte{7}}, Op{K: "lclose", H: 3}, Op{K: "lget", H: 3, Key: b}, Op{K: "lget", H: 3, Key: a}, Op{K: "lflush", H: 3},
			Op{K: "lwrite", H: 3}, Op{K: "scan", Src: "db"}, Op{K: "close"})),
		// two batches, a buffer on each, the store written directly in between; the batch written second wins
		cat(with(Op{K: "newbatch", Idx: true}, Op{K: "lnew", Wrap: "buf", Src: "b0"}, Op{K: "lnew", Wrap: "buf", Src: "b1"},
			Op{K: "lput", H: 0, Key: b, Val: []byte{0xb0}}, Op{K: "ldel", H: 0, Key: b}, Op{K: "lput", H: 1, Key: b, Val: []byte{0xb1}}, Op{K: "put", Key: b, Val: []byte{0xdd}}),
			stackViews(2, []int{0, 1}), []Op{{K: "lwrite", H: 1}, {K: "scan", Src: "db"}}, stackViews(2, []int{0}),
			[]Op{{K: "delrange", Key: a, End: c}, {K: "put", Key: b, Val: []byte{0xee}}}, stackViews(2, []int{0}), []Op{{K: "lwrite", H: 0}, {K: "scan", Src: "db"}, {K: "close"}}),
	}
}

// stackRandom: 1-2 indexed batches, 2-4 layers each over a random earlier batch or layer, then operations
// interleaved across store / batches / layers, the whole stack looked through after every step that
// changes something; at the end the live buffers are flushed in a random order and the batches written.
func stackRandom(r *lib.RNG) []Op {
	var ops []Op
	for _, key := range stackKeys {
		if r.Bool() {
			ops = append(ops, Op{K: "put", Key: key, Val: lib.Pick(r, stackVals)})
		}
	}
	nb := r.Range(1, 3)
	for i := 0; i < nb; i++ {
		ops = append(ops, Op{K: "newbatch", Idx: true})
	}
	type gl struct {
		buf  bool
		base int
	}
	var layers []gl
	nl := r.Range(2, 5)
	for i := 0; i < nl; i++ {
		kind := "buf"
		if r.Chance(1, 4) {
			kind = "sync"
		}
		if i > 0 && r.Chance(2, 5) {
			u := r.Intn(i)
			layers = append(layers, gl{kind == "buf", layers[u].base})
			ops = append(ops, Op{K: "lnew", Wrap: kind, Src: fmt.Sprintf("l%d", u)})
		} else {
			b := r.Intn(nb)
			layers = append(layers, gl{kind == "buf", b})
			ops = append(ops, Op{K: "lnew", Wrap: kind, Src: fmt.Sprintf("b%d", b)})
		}
	}
	bases := make([]int, nb)
	for i := range bases {
		bases[i] = i
	}
	key := func() []byte { return lib.Pick(r, stackKeys) }
	val := func() []byte { return lib.Pick(r, stackVals) }
	for i, n := 0, r.Range(6, 18); i < n; i++ {
		l := r.Intn(nl)
		var o Op
		switch c := r.Intn(100); {
		case c < 22:
			o = Op{K: "lput", H: l, Key: key(), Val: val(), NilB: r.Chance(1, 5)}
		case c < 40:
			o = Op{K: "ldel", H: l, Key: key()}
		case c < 52:
			o = Op{K: "lflush", H: l}
		case c < 60:
			o = Op{K: "bput", H: r.Intn(nb), Key: key(), Val: val()}
		case c < 66:
			o = Op{K: "bdel", H: r.Intn(nb), Key: key()}
		case c < 69:
			o = Op{K: "bdelrange", H: r.Intn(nb), Key: key(), End: lib.Pick(r, [][]byte{{0x02}, {0xff}, {0x01, 0x00}})}
		case c < 77:
			o = Op{K: "put", Key: key(), Val: val()}
		case c < 83:
			o = Op{K: "del", Key: key()}
		case c < 85:
			o = Op{K: "delrange", Key: key(), End: lib.Pick(r, [][]byte{{0x02}, {0xff}})}
		case c < 88:
			o = Op{K: "lget", H: l, Key: key(), Fail: true}
		case c < 92:
			o = lib.Pick(r, []Op{{K: "lhas", H: l, Key: key()}, {K: "lscan", H: l}, {K: "lsize", H: l}, {K: "ldelrange", H: l, Key: key(), End: []byte{0xff}}})
		case c < 96:
			o = Op{K: "lwrite", H: l}
		case c < 97:
			o = Op{K: "lclose", H: l}
		default:
			o = Op{K: "update", Idx: true, Inner: []Op{{K: "put", Key: key(), Val: val()}, {K: "del", Key: key()}}}
		}
		ops = append(ops, o)
		switch o.K {
		case "lget", "lhas", "lscan", "lsize":
		default:
			ops = append(ops, stackViews(nl, bases)...)
		}
	}
	// flush what is left in a random order, write the batches, look at the store
	order := make([]int, nl)
	for i := range order {
		order[i] = i
	}
	for i := nl - 1; i > 0; i-- {
		j := r.Intn(i + 1)
		order[i], order[j] = order[j], order[i]
	}
	for _, l := range order {
		if layers[l].buf {
			ops = append(ops, Op{K: "lflush", H: l})
			ops = append(ops, stackViews(nl, bases)...)
		}
	}
	for b := 0; b < nb; b++ {
		ops = append(ops, Op{K: "bwrite", H: b})
	}
	return append(ops, Op{K: "scan", Src: "db"}, Op{K: "close"})
}
