//go:build verif

// Harness for C15: drives the real db backends and the Lean model on the same inputs.
package main

import (
	"bytes"
	"fmt"

	"github.com/NethermindEth/juno/db/dbutils"
	"verif/harness/lib"
)

func genKey(r *lib.RNG) []byte {
	n := r.Intn(4)
	b := make([]byte, n)
	for i := range b {
		b[i] = lib.Pick(r, []byte{0x00, 0x01, 0x02, 0xfe, 0xff, 0xff})
	}
	return b
}

func main() {
	f := lib.ParseFlags()
	res := lib.NewResult("prefixes and keys over the byte alphabet {00,01,02,fe,ff}, length 0..3; " +
		"non-trivial = distinct (prefix, key) pair with a non-empty prefix")
	r := lib.NewRNG(f.Seed)
	drv, err := lib.StartDriver(f.Driver)
	if err != nil {
		res.Note("driver: %v", err)
		lib.Finish(f, res)
	}
	defer drv.Close()

	n := f.Scale(2000, 50000)
	for i := 0; i < n; i++ {
		p, k := genKey(r), genKey(r)
		ub := dbutils.UpperBound(p)
		implS := "nil"
		if ub != nil {
			implS = hx(ub)
		}
		modelS, err := drv.Ask("ub " + hx(p))
		if err != nil {
			res.Note("driver: %v", err)
			break
		}
		res.Compared(1)
		if modelS != implS {
			res.Mismatch(lib.Mismatch{Sig: "upperBound", Input: hx(p), Model: modelS, Impl: implS})
		}
		// property oracle on the real function: prefix membership == range membership
		inRange := bytes.Compare(p, k) <= 0 && (ub == nil || bytes.Compare(k, ub) < 0)
		if bytes.HasPrefix(k, p) != inRange {
			res.Violate(lib.Violation{Sig: "upperbound-range-differs-from-prefix",
				What:   fmt.Sprintf("UpperBound(%x)=%x: key %x prefix=%v inRange=%v", p, ub, k, bytes.HasPrefix(k, p), inRange),
				Replay: map[string]string{"prefix": hx(p), "key": hx(k)}})
		}
		res.Case(hx(p)+"/"+hx(k), len(p) > 0)
		if ub == nil {
			res.Hit("ub=nil")
		} else {
			res.Hit(fmt.Sprintf("ub-len=%d", len(ub)))
		}
		res.Sample(5, map[string]string{"prefix": hx(p), "key": hx(k), "ub": implS})
	}
	lib.Finish(f, res)
}
