//go:build verif

// Harness for C15: runs identical op sequences on db/memory, db/pebble (v1), db/pebblev2 and on
// the Lean models (`Mem` = transcription of db/memory — the variant of its batch.DeleteRange is probed —,
// `Peb` = transcription of the Pebble wrappers, `Spec` = the contract; db.BufferBatch as a layer over
// each). The property oracle compares the real backends with each other — every answer, and the content
// of the store after every op that may change it —, wrapped batches with the batch they wrap, and the
// pebble backends with db/memory across a simulated power loss; it does not need the Lean driver. The
// driver adds the correspondence of each backend with its transcription and the attribution of known
// findings (run.go).
package main

import (
	"bytes"
	"encoding/json"
	"fmt"
	"os"
	"os/exec"
	"strings"

	"github.com/NethermindEth/juno/db/dbutils"
	"verif/harness/lib"
)

func allFF(p []byte) bool {
	for _, b := range p {
		if b != 0xff {
			return false
		}
	}
	return true
}

func hitOps(res *lib.Result, ops []Op) {
	for _, o := range ops {
		k := o.K
		switch o.K {
		case "get", "has", "iter", "scan", "rscan", "getw":
			k += ":" + o.Src[:1]
		case "xupdate":
			k += ":" + o.Src
		}
		res.Hit("op:" + k)
		if o.K == "newbatch" && o.Wrap != "" && o.Idx {
			res.Hit("newbatch:wrapped-in-" + o.Wrap)
		}
		if o.K == "newbatch" && o.U {
			res.Hit(fmt.Sprintf("newbatch:size-hint=%d", batchSizeOf(o)))
		}
		if o.K == "lnew" {
			res.Hit("lnew:" + o.Wrap + "-over-" + map[byte]string{'b': "batch", 'l': "layer"}[o.Src[0]])
		}
		if o.K == "iter" || o.K == "scan" || o.K == "psize" {
			switch {
			case o.U && len(o.Key) == 0:
				res.Hit("bounds:empty-prefix+ub")
			case o.U && allFF(o.Key):
				res.Hit("bounds:all-ff-prefix+ub")
			case o.U && o.Key[len(o.Key)-1] == 0xff:
				res.Hit("bounds:ff-terminated-prefix+ub")
			case o.U:
				res.Hit("bounds:prefix+ub")
			case len(o.Key) == 0:
				res.Hit("bounds:all-keys")
			default:
				res.Hit("bounds:lower-bound-only")
			}
		}
		if (o.K == "put" || o.K == "bput") && len(o.Val) == 0 {
			res.Hit("empty-value")
		}
		if (o.K == "put" || o.K == "bput" || o.K == "get") && len(o.Key) == 0 {
			res.Hit("empty-key")
		}
		if o.K == "update" {
			res.Hit(fmt.Sprintf("update:idx=%v,fail=%v", o.Idx, o.Fail))
		}
	}
}

func hitOutputs(res *lib.Result, sr *SeqResult) {
	for _, o := range sr.Outs["memory"] {
		switch {
		case o == "panic", o == "notfound", o == "err:cb", o == "err:closed", o == "F invalid", o == "[]":
			res.Hit("out:" + o)
		case strings.HasPrefix(o, "T "):
			res.Hit("out:positioned-valid")
		}
	}
	if sr.InContract {
		res.Hit("sequence:inside-contract")
	} else {
		res.Hit("sequence:leaves-contract")
	}
}

// ---- directed corpus (DESIGN §7 L5 and the guidance of the task) --------------------------------

func k(bs ...byte) []byte { return bs }

func corpus() [][]Op {
	seven := []Op{
		{K: "put", Key: k(0x00), Val: k(1)}, {K: "put", Key: k(0x01, 0x01), Val: k(2)}, {K: "put", Key: k(0x01, 0x02), Val: k(3)},
		{K: "put", Key: k(0x02), Val: k(4)}, {K: "put", Key: k(0xff), Val: k(5)}, {K: "put", Key: k(0xff, 0xff), Val: k(6)},
		{K: "put", Key: k(0xff, 0xff, 0x01), Val: k(7)}, {K: "put", Key: nil, Val: nil},
	}
	with := func(more ...Op) []Op { return append(append([]Op{}, seven...), more...) }
	return [][]Op{
		with(Op{K: "scan", Src: "db", Key: k(0xff, 0xff), U: true}, Op{K: "scan", Src: "db", Key: k(0xff), U: true},
			Op{K: "scan", Src: "db", Key: nil, U: true, NilB: true}, Op{K: "scan", Src: "db", Key: nil, U: true}),
		with(Op{K: "scan", Src: "db", Key: k(0x01), U: false}, Op{K: "scan", Src: "db", Key: k(0x01), U: true},
			Op{K: "scan", Src: "db", Key: k(0x01, 0xff), U: true}),
		with(Op{K: "iter", Src: "db"}, Op{K: "first"}, Op{K: "prev"}, Op{K: "prev"}, Op{K: "next"}),
		with(Op{K: "iter", Src: "db"}, Op{K: "seek", Key: k(0xff, 0xff, 0xff)}, Op{K: "prev"}, Op{K: "next"}, Op{K: "next"}, Op{K: "prev"}),
		with(Op{K: "newbatch"}, Op{K: "bdelrange", Key: nil, End: k(0xff)}, Op{K: "put", Key: k(0x01), Val: k(9)}, Op{K: "bwrite"},
			Op{K: "scan", Src: "db"}),
		with(Op{K: "newbatch", Idx: true}, Op{K: "bdelrange", Key: k(0x01), End: nil}, Op{K: "bdelrange", Key: k(0x01), End: nil, NilB: true},
			Op{K: "scan", Src: "b0"}, Op{K: "delrange", Key: k(0x01), End: nil}, Op{K: "bwrite"}, Op{K: "scan", Src: "db"}),
		with(Op{K: "get", Src: "db", Key: k(0x02), Fail: true}, Op{K: "get", Src: "db", Key: k(0x03), Fail: true},
			Op{K: "snap"}, Op{K: "get", Src: "s0", Key: k(0x02), Fail: true}, Op{K: "has", Src: "s0", Key: k(0x03)}, Op{K: "has", Src: "s0", Key: k(0x02)},
			Op{K: "sclose"}),
		with(Op{K: "update", Idx: true, Fail: true, Inner: []Op{{K: "put", Key: k(0x05), Val: k(5)}, {K: "delrange", Key: nil, End: k(0xff)}, {K: "get", Key: k(0x05)}, {K: "scan"}}},
			Op{K: "scan", Src: "db"},
			Op{K: "update", Idx: false, Fail: true, Inner: []Op{{K: "put", Key: k(0x05), Val: k(5)}, {K: "del", Key: k(0x00)}}},
			Op{K: "scan", Src: "db"},
			Op{K: "update", Idx: true, Inner: []Op{{K: "put", Key: k(0x05), Val: k(5)}, {K: "del", Key: k(0x05)}, {K: "put", Key: k(0x00), Val: nil}, {K: "has", Key: k(0x05)}}},
			Op{K: "scan", Src: "db"}),
		with(Op{K: "newbatch", Idx: true, Wrap: "buffer"}, Op{K: "bput", Key: k(0x00), Val: nil, NilB: true}, Op{K: "bput", Key: k(0x07), Val: nil},
			Op{K: "bdel", Key: k(0x02)}, Op{K: "get", Src: "b0", Key: k(0x00)}, Op{K: "get", Src: "b0", Key: k(0x07)}, Op{K: "get", Src: "b0", Key: k(0x02)},
			Op{K: "bwrite"}, Op{K: "scan", Src: "db"}),
		with(Op{K: "newbatch", Idx: true, Wrap: "sync"}, Op{K: "bput", Key: k(0x00), Val: nil, NilB: true}, Op{K: "bdelrange", Key: k(0x01), End: k(0x03)},
			Op{K: "scan", Src: "b0", Key: nil}, Op{K: "has", Src: "b0", Key: k(0x02)}, Op{K: "bsize"}, Op{K: "bwrite"}, Op{K: "scan", Src: "db"}),
		// batches whose Size() is 0 although they are not empty: empty key with empty value, delete of the
		// empty key, DeleteRange only
		with(Op{K: "update", Idx: false, Inner: []Op{{K: "del", Key: nil}}}, Op{K: "has", Src: "db", Key: nil},
			Op{K: "update", Idx: false, Inner: []Op{{K: "put", Key: nil, Val: nil}}}, Op{K: "has", Src: "db", Key: nil},
			Op{K: "update", Idx: true, Inner: []Op{{K: "del", Key: nil, NilB: true}}}, Op{K: "has", Src: "db", Key: nil},
			Op{K: "update", Idx: true, Inner: []Op{{K: "put", Key: nil, Val: nil, NilB: true}}}, Op{K: "has", Src: "db", Key: nil},
			Op{K: "update", Idx: false, Inner: []Op{{K: "delrange", Key: k(0x01), End: k(0x03)}}}, Op{K: "scan", Src: "db"},
			Op{K: "update", Idx: true, Inner: []Op{{K: "delrange", Key: nil, End: k(0xff, 0xff, 0xff)}}}, Op{K: "scan", Src: "db"},
			Op{K: "newbatch"}, Op{K: "bput", Key: nil, Val: nil}, Op{K: "bsize"}, Op{K: "bwrite"}, Op{K: "has", Src: "db", Key: nil},
			Op{K: "newbatch", Idx: true}, Op{K: "bdel", H: 1, Key: nil}, Op{K: "bsize", H: 1}, Op{K: "bwrite", H: 1}, Op{K: "has", Src: "db", Key: nil}),
		// a failing Get callback on a snapshot, a batch and the store, then Close: nothing may stay pinned
		with(Op{K: "snap"}, Op{K: "get", Src: "s0", Key: k(0x02), Fail: true}, Op{K: "sclose"},
			Op{K: "newbatch", Idx: true}, Op{K: "get", Src: "b0", Key: k(0x02), Fail: true}, Op{K: "bclose"},
			Op{K: "get", Src: "db", Key: k(0x02), Fail: true}, Op{K: "close"}),
		with(Op{K: "newbatch", Idx: true}, Op{K: "close"}, Op{K: "get", Src: "db", Key: k(0)}, Op{K: "put", Key: k(0), Val: k(0)},
			Op{K: "bput", Key: k(1), Val: k(1)}, Op{K: "bwrite"}, Op{K: "update", Idx: true, Inner: []Op{{K: "put", Key: k(1), Val: k(1)}}},
			Op{K: "snap"}, Op{K: "close"}),
	}
}

// enumerate iterator positioning: every sequence of `depth` moves, per bound, over the store, a
// snapshot of it and an indexed batch with a pending put / delete / DeleteRange over it (Pebble merges
// batch and store in that iterator).
func positionSequences(depth int) [][]Op {
	base := []Op{{K: "put", Key: k(0x01), Val: k(1)}, {K: "put", Key: k(0x01, 0xff), Val: nil}, {K: "put", Key: k(0x02), Val: k(2)},
		{K: "put", Key: k(0x02, 0x05), Val: k(9)}, {K: "put", Key: k(0xff), Val: k(3)},
		{K: "snap"},                // s0: the five keys above
		{K: "newbatch", Idx: true}, // b0 over a store that changes below
		{K: "put", Key: k(0x00), Val: k(7)}, {K: "del", Key: k(0x02, 0x05)},
		{K: "bput", H: 0, Key: k(0x01, 0x00), Val: k(4)}, {K: "bdel", H: 0, Key: k(0x01, 0xff)},
		{K: "bdelrange", H: 0, Key: k(0x02), End: k(0x03)}, {K: "bput", H: 0, Key: k(0x02, 0x01), Val: nil}}
	moves := []Op{{K: "first"}, {K: "next"}, {K: "prev"}, {K: "seek", Key: nil}, {K: "seek", Key: k(0x01, 0xff)}, {K: "seek", Key: k(0x02, 0x00)},
		{K: "seek", Key: k(0xff, 0xff)}}
	var seqs [][]int
	var rec func(prefix []int)
	rec = func(prefix []int) {
		if len(prefix) == depth {
			seqs = append(seqs, append([]int{}, prefix...))
			return
		}
		for m := range moves {
			rec(append(prefix, m))
		}
	}
	rec(nil)
	var all [][]Op
	for _, src := range []string{"db", "s0", "b0"} {
		for _, bounds := range []Op{{K: "iter", Src: src}, {K: "iter", Src: src, Key: k(0x01), U: true}, {K: "iter", Src: src, Key: k(0x03), U: true},
			{K: "iter", Src: src, Key: k(0x01, 0xff), U: false}} {
			const perWorld = 200
			for s := 0; s < len(seqs); s += perWorld {
				ops := append([]Op{}, base...)
				h := 0
				for _, sq := range seqs[s:min(s+perWorld, len(seqs))] {
					ops = append(ops, bounds)
					for _, m := range sq {
						mv := moves[m]
						mv.H = h
						ops = append(ops, mv)
					}
					ops = append(ops, Op{K: "key", H: h}, Op{K: "iclose", H: h})
					h++
				}
				all = append(all, withEnding(ops))
			}
		}
	}
	return all
}

// every prefix x withUpperBound x source over one store
func boundsSequences() [][]Op {
	var ops []Op
	for _, key := range keyAlphabet {
		ops = append(ops, Op{K: "put", Key: key, Val: key})
	}
	ops = append(ops, Op{K: "snap"}, Op{K: "newbatch", Idx: true}, Op{K: "bput", H: 0, Key: k(0x01, 0x02), Val: nil}, Op{K: "bdel", H: 0, Key: k(0xff)})
	for _, p := range append(append([][]byte{}, prefixAlphabet...), boundAlphabet...) {
		for _, u := range []bool{false, true} {
			for _, src := range []string{"db", "s0", "b0"} {
				ops = append(ops, Op{K: "scan", Src: src, Key: p, U: u})
			}
		}
	}
	return [][]Op{ops}
}

// withEnding appends the final observation: scan the store, every live snapshot and indexed batch,
// then close every iterator, batch and snapshot, reopen, scan again and close the store — all inside the
// contract, so unread writes, leaked handles and lost durable data are always looked at.
func withEnding(ops []Op) []Op {
	tr := newTracker()
	for _, o := range ops {
		d := tr.documented(o)
		ref := ""
		if o.K == "iter" {
			ref = "h:" // bookkeeping only: assume creation succeeded
			if !tr.srcOK(o.Src) {
				ref = "err"
			}
		}
		tr.after(o, d, ref)
	}
	if !tr.open || tr.offRail {
		return ops
	}
	out := append([]Op{}, ops...)
	out = append(out, Op{K: "scan", Src: "db"})
	for i, it := range tr.iters {
		if it.live {
			out = append(out, Op{K: "iclose", H: i})
		}
	}
	for i, s := range tr.snaps {
		if s == 1 {
			out = append(out, Op{K: "scan", Src: fmt.Sprintf("s%d", i)}, Op{K: "sclose", H: i})
		}
	}
	for i, b := range tr.batches {
		if b.live {
			if b.idx && !b.buf { // (db.BufferBatch has no NewIterator)
				out = append(out, Op{K: "scan", Src: fmt.Sprintf("b%d", i)})
			}
			out = append(out, Op{K: "bclose", H: i})
		}
	}
	return append(out, Op{K: "reopen", U: len(ops)%2 == 0}, Op{K: "scan", Src: "db"}, Op{K: "rscan", Src: "db", Key2: k(0xff, 0xff, 0xff, 0xff)}, Op{K: "close"})
}

// f5Sequence: a live batch deletes a non-empty range, then the store gains a key inside that
// range (direct put, another batch, or a helper), then the batch is read and written.
func f5Sequence(r *lib.RNG) []Op {
	keys := [][]byte{k(0x01), k(0x01, 0x00), k(0x01, 0xff), k(0x02), k(0x02, 0x05), k(0x03)}
	var ops []Op
	for _, key := range keys {
		if r.Chance(2, 3) {
			ops = append(ops, Op{K: "put", Key: key, Val: lib.Pick(r, valAlphabet)})
		}
	}
	ops = append(ops, Op{K: "put", Key: k(0x02, 0x09), Val: k(1)}, Op{K: "newbatch", Idx: r.Chance(3, 4)})
	if r.Bool() {
		ops = append(ops, Op{K: "bput", H: 0, Key: k(0x01, 0x05), Val: k(5)})
	}
	ops = append(ops, Op{K: "bdelrange", H: 0, Key: k(0x01), End: k(0x03)})
	inside := lib.Pick(r, [][]byte{k(0x01, 0x07), k(0x02, 0x00), k(0x02, 0xff, 0xff), k(0x01)})
	switch r.Intn(3) {
	case 0:
		ops = append(ops, Op{K: "put", Key: inside, Val: k(0xaa)})
	case 1:
		ops = append(ops, Op{K: "newbatch"}, Op{K: "bput", H: 1, Key: inside, Val: k(0xaa)}, Op{K: "bwrite", H: 1})
	default:
		ops = append(ops, Op{K: "update", Idx: r.Bool(), Inner: []Op{{K: "put", Key: inside, Val: k(0xaa)}}})
	}
	return ops
}

func f5Tail(ops []Op, r *lib.RNG) []Op {
	idx := false
	for _, o := range ops {
		if o.K == "newbatch" {
			idx = o.Idx
			break
		}
	}
	if idx {
		ops = append(ops, Op{K: "scan", Src: "b0"}, Op{K: "get", Src: "b0", Key: k(0x02, 0x00)})
	}
	ops = append(ops, Op{K: "snap"}, Op{K: "bwrite", H: 0}, Op{K: "scan", Src: "db"}, Op{K: "has", Src: "db", Key: k(0x01, 0x07)},
		Op{K: "iter", Src: "db", Key: k(0x01), U: true}, Op{K: "first", H: 0}, Op{K: "next", H: 0})
	return withEnding(ops)
}

// largeSequence: a few hundred keys of 8-40 bytes, some 4 KiB values, a big batch, forced flush
// and compaction, reopen — the sstable / compaction paths of Pebble under the same oracle.
func largeSequence(r *lib.RNG, n int) []Op {
	mkKey := func() []byte {
		l := r.Range(8, 40)
		b := make([]byte, l)
		b[0] = lib.Pick(r, []byte{0x0a, 0x0b, 0x0b, 0xff})
		b[1] = lib.Pick(r, []byte{0x00, 0x7f, 0x80, 0xff})
		for i := 2; i < l; i++ {
			b[i] = lib.Pick(r, []byte{0x00, 0x01, 0x7f, 0x80, 0xfe, 0xff, byte(r.Intn(256))})
		}
		return b
	}
	mkVal := func() []byte {
		if r.Chance(1, 20) {
			return r.Bytes(4096)
		}
		return r.Bytes(r.Intn(17))
	}
	var keys [][]byte
	var ops []Op
	for i := 0; i < n; i++ {
		key := mkKey()
		keys = append(keys, key)
		ops = append(ops, Op{K: "put", Key: key, Val: mkVal()})
		if i%97 == 96 {
			ops = append(ops, Op{K: "flush"})
		}
	}
	ops = append(ops, Op{K: "newbatch", Idx: true})
	for i := 0; i < n/2; i++ {
		switch r.Intn(4) {
		case 0:
			ops = append(ops, Op{K: "bdel", H: 0, Key: lib.Pick(r, keys)})
		case 1:
			ops = append(ops, Op{K: "bput", H: 0, Key: lib.Pick(r, keys), Val: mkVal()})
		default:
			ops = append(ops, Op{K: "bput", H: 0, Key: mkKey(), Val: mkVal()})
		}
	}
	a, b := lib.Pick(r, keys), lib.Pick(r, keys)
	if bytes.Compare(a, b) > 0 {
		a, b = b, a
	}
	ops = append(ops, Op{K: "bdelrange", H: 0, Key: a, End: b}, Op{K: "get", Src: "b0", Key: keys[0]}, Op{K: "snap"},
		Op{K: "bwrite", H: 0}, Op{K: "flush"}, Op{K: "delrange", Key: k(0x0b, 0x7f), End: k(0x0b, 0x80)})
	for i := 0; i < 30; i++ {
		ops = append(ops, Op{K: "get", Src: lib.Pick(r, []string{"db", "s0"}), Key: lib.Pick(r, keys)})
	}
	ops = append(ops, Op{K: "scan", Src: "db", Key: k(0x0b), U: true}, Op{K: "scan", Src: "s0", Key: k(0x0a, 0xff), U: true},
		Op{K: "rscan", Src: "db", Key: k(0xff), U: true, Key2: k(0xff, 0xff, 0xff)},
		Op{K: "iter", Src: "db", Key: k(0x0b, 0x80), U: false}, Op{K: "seek", H: 0, Key: lib.Pick(r, keys)}, Op{K: "prev", H: 0}, Op{K: "next", H: 0},
		Op{K: "next", H: 0})
	return withEnding(ops)
}

// handleSequences: handles that were never allocated, batches read although not indexed, handles
// used after their Close — outside the contract; the models say what each backend does there.
func handleSequences() [][]Op {
	pre := []Op{{K: "put", Key: k(0x01), Val: k(1)}, {K: "put", Key: k(0x02), Val: nil}}
	with := func(more ...Op) []Op { return append(append([]Op{}, pre...), more...) }
	return [][]Op{
		with(Op{K: "newbatch"}, Op{K: "bput", Key: k(0x05), Val: k(5)}, Op{K: "get", Src: "b0", Key: k(0x05)}, Op{K: "get", Src: "b0", Key: k(0x01)},
			Op{K: "has", Src: "b0", Key: k(0x01)}, Op{K: "has", Src: "b0", Key: k(0x09)}, Op{K: "get", Src: "b0", Key: k(0x09), Fail: true},
			Op{K: "bwrite"}, Op{K: "scan", Src: "db"}),
		with(Op{K: "bput", H: 3, Key: k(1), Val: k(1)}, Op{K: "bwrite", H: 3}, Op{K: "bsize", H: 2}, Op{K: "get", Src: "b4", Key: k(1)},
			Op{K: "get", Src: "s2", Key: k(1)}, Op{K: "sclose", H: 2}, Op{K: "first", H: 1}, Op{K: "value", H: 1}, Op{K: "iclose", H: 1},
			Op{K: "scan", Src: "db"}),
		with(Op{K: "snap"}, Op{K: "sclose"}, Op{K: "get", Src: "s0", Key: k(0x01)}, Op{K: "has", Src: "s0", Key: k(0x01)},
			Op{K: "scan", Src: "s0"}, Op{K: "iter", Src: "s0"}, Op{K: "sclose"}, Op{K: "scan", Src: "db"}),
		with(Op{K: "iter", Src: "db"}, Op{K: "key"}, Op{K: "value"}, Op{K: "value", U: true}, Op{K: "seek", Key: k(0x09)}, Op{K: "key"},
			Op{K: "value", U: true}, Op{K: "prev"}, Op{K: "key"}, Op{K: "value", U: true}, Op{K: "iclose"}, Op{K: "key"}, Op{K: "value", U: true}),
		with(Op{K: "newbatch", Idx: true}, Op{K: "iter", Src: "db"}, Op{K: "snap"}, Op{K: "close"}, Op{K: "get", Src: "b0", Key: k(1)},
			Op{K: "bput", Key: k(3), Val: k(3)}, Op{K: "bdelrange", Key: nil, End: k(0xff)}, Op{K: "bsize"}, Op{K: "bwrite"}, Op{K: "reopen"},
			Op{K: "update", Idx: true, Inner: []Op{{K: "put", Key: k(1), Val: k(1)}}}),
	}
}

// reentrantSequences: callbacks that re-enter the store. The modelled one (`getw`: a Get callback
// that writes) comes last in its sequence because db/memory never returns from it today; the
// `xupdate` shapes are not modelled and are compared backend against backend.
func reentrantSequences() [][]Op {
	pre := []Op{{K: "put", Key: k(0x01), Val: k(1)}, {K: "put", Key: k(0x02), Val: k(2)}}
	with := func(more ...Op) []Op { return append(append([]Op{}, pre...), more...) }
	seqs := [][]Op{
		with(Op{K: "getw", Src: "db", Key: k(0x09), Key2: k(0x03), Val: k(3)}, Op{K: "getw", Src: "db", Key: k(0x01), Key2: k(0x03), Val: k(3)},
			Op{K: "scan", Src: "db"}),
		with(Op{K: "newbatch", Idx: true}, Op{K: "bput", Key: k(0x05), Val: k(5)},
			Op{K: "getw", Src: "b0", Key: k(0x05), Key2: k(0x03), Val: k(3)}, Op{K: "scan", Src: "db"}),
	}
	for _, shape := range []string{"direct-put-then-fail", "callback-writes-batch", "nested-update", "get-callback-reads", "update-reads-store"} {
		seqs = append(seqs, with(Op{K: "xupdate", Src: shape, Key: k(0x01), Key2: k(0x07)}),
			with(Op{K: "xupdate", Src: shape, Key: k(0x06), Key2: k(0x02)}))
	}
	return seqs
}

// bufferSequences: db.BufferBatch (db/bufferbatch.go) — Flush alone, twice, interleaved with further
// calls; reads through the map and through the wrapped batch; use after Write (Put panics: nil map; Get
// falls through to the closed batch); Write on a closed store, then again; the four panicking methods;
// a plain batch asked to Flush. Compared with the layered model of ModelBuf.lean and backend vs backend.
func bufferSequences() [][]Op {
	pre := []Op{{K: "put", Key: k(0x01), Val: k(1)}, {K: "put", Key: k(0x02), Val: k(2)}, {K: "put", Key: k(0x03), Val: nil}}
	with := func(more ...Op) []Op { return append(append([]Op{}, pre...), more...) }
	nb := Op{K: "newbatch", Idx: true, Wrap: "buffer"}
	return [][]Op{
		withEnding(with(nb, Op{K: "bput", Key: k(0x05), Val: k(5)}, Op{K: "bdel", Key: k(0x01)}, Op{K: "bput", Key: k(0x02), Val: nil, NilB: true},
			Op{K: "get", Src: "b0", Key: k(0x05)}, Op{K: "get", Src: "b0", Key: k(0x01)}, Op{K: "get", Src: "b0", Key: k(0x02)}, Op{K: "get", Src: "b0", Key: k(0x03)},
			Op{K: "get", Src: "b0", Key: k(0x09)}, Op{K: "bflush"}, Op{K: "scan", Src: "db"}, Op{K: "get", Src: "b0", Key: k(0x01)},
			Op{K: "bdel", Key: k(0x05)}, Op{K: "bput", Key: k(0x01), Val: k(7)}, Op{K: "bflush"}, Op{K: "bflush"},
			Op{K: "get", Src: "b0", Key: k(0x05), Fail: true}, Op{K: "get", Src: "b0", Key: k(0x01), Fail: true}, Op{K: "bwrite"}, Op{K: "scan", Src: "db"})),
		withEnding(with(nb, Op{K: "bput", Key: k(0x05), Val: k(5)}, Op{K: "bwrite"}, Op{K: "bput", Key: k(0x06), Val: k(6)}, Op{K: "bdel", Key: k(0x06)},
			Op{K: "get", Src: "b0", Key: k(0x05)}, Op{K: "bflush"}, Op{K: "bwrite"}, Op{K: "bclose"}, Op{K: "scan", Src: "db"})),
		withEnding(with(nb, Op{K: "bput", Key: k(0x05), Val: k(5)}, Op{K: "bsize"}, Op{K: "has", Src: "b0", Key: k(0x05)}, Op{K: "scan", Src: "b0"},
			Op{K: "bdelrange", Key: nil, End: k(0xff)}, Op{K: "rscan", Src: "b0", Key2: k(0xff)}, Op{K: "bwrite"}, Op{K: "scan", Src: "db"},
			Op{K: "newbatch", Idx: true}, Op{K: "bflush", H: 1}, Op{K: "bflush", H: 7}, Op{K: "bclose", H: 1})),
		with(nb, Op{K: "bput", Key: k(0x05), Val: k(5)}, Op{K: "bclose"}, Op{K: "bput", Key: k(0x06), Val: k(6)}, Op{K: "get", Src: "b0", Key: k(0x05)},
			Op{K: "get", Src: "b0", Key: k(0x01)}, Op{K: "bflush"}, Op{K: "bwrite"}, Op{K: "bput", Key: k(0x07), Val: k(7)}, Op{K: "scan", Src: "db"}),
		with(nb, Op{K: "bput", Key: k(0x05), Val: k(5)}, Op{K: "close"}, Op{K: "bput", Key: k(0x06), Val: k(6)}, Op{K: "bflush"}, Op{K: "bwrite"},
			Op{K: "bput", Key: k(0x07), Val: k(7)}, Op{K: "bwrite"}, Op{K: "psize", Key: nil}),
		// two buffers over one store: the second is written first
		withEnding(with(nb, nb, Op{K: "bput", H: 0, Key: k(0x02), Val: k(0xa0)}, Op{K: "bdel", H: 1, Key: k(0x02)}, Op{K: "bput", H: 1, Key: k(0x04), Val: k(4)},
			Op{K: "bflush", H: 1}, Op{K: "get", Src: "b0", Key: k(0x04)}, Op{K: "bwrite", H: 1}, Op{K: "get", Src: "b0", Key: k(0x04)},
			Op{K: "get", Src: "b0", Key: k(0x02)}, Op{K: "psize", Key: nil}, Op{K: "bwrite", H: 0}, Op{K: "psize", Key: k(0x02), U: true}, Op{K: "scan", Src: "db"})),
	}
}

// batchLogSequences: EVERY batch log of `depth` calls over six calls (put / delete of two keys, two
// overlapping range deletes) x four store contents x {Update (indexed: the log is also read back through
// the batch), Write (plain batch)}: the helper applies the log, the store content is compared after it
// (probe), then the store is reset. "Later operations win", DeleteRange over the batch's own earlier
// writes, delete-then-put, put-then-range — exhaustively at this depth.
func batchLogSequences(depth int) [][]Op {
	a, b, c := k(0x01), k(0x01, 0x00), k(0x02)
	calls := []Op{{K: "put", Key: a, Val: k(0xaa)}, {K: "put", Key: b, Val: nil}, {K: "del", Key: a}, {K: "del", Key: b},
		{K: "delrange", Key: a, End: b}, {K: "delrange", Key: a, End: c}}
	stores := [][][]byte{{}, {a}, {b, c}, {a, b, c}}
	var logs [][]Op
	var rec func(prefix []Op)
	rec = func(prefix []Op) {
		if len(prefix) == depth {
			logs = append(logs, append([]Op{}, prefix...))
			return
		}
		for _, cl := range calls {
			rec(append(prefix, cl))
		}
	}
	rec(nil)
	var all [][]Op
	const perSeq = 54
	for si, st := range stores {
		for start := 0; start < len(logs); start += perSeq {
			var ops []Op
			for li, lg := range logs[start:min(start+perSeq, len(logs))] {
				ops = append(ops, Op{K: "delrange", Key: nil, End: k(0xff)})
				for _, key := range st {
					ops = append(ops, Op{K: "put", Key: key, Val: k(byte(len(key)))})
				}
				idx := (li+si)%2 == 0
				inner := append([]Op{}, lg...)
				if idx {
					inner = append(inner, Op{K: "get", Key: a}, Op{K: "has", Key: b}, Op{K: "scan"})
				}
				ops = append(ops, Op{K: "update", Idx: idx, Inner: inner})
			}
			all = append(all, withEnding(ops))
		}
	}
	return all
}

// durabilitySequences: "apply batches with sync writes" — every write path of the interface, then a power
// loss right after it (the pebble backends run on file systems that drop whatever was not synced), restart,
// and the content is compared with db/memory (which keeps everything it acknowledged) and with the models.
// Directed: each write path is once the LAST write before the power loss; then random mixes.
func durabilitySequences(r *lib.RNG, random int) [][]Op {
	pre := []Op{{K: "put", Key: k(0x01), Val: k(1)}, {K: "put", Key: k(0x02), Val: k(2)}, {K: "put", Key: k(0x02, 0x05), Val: nil},
		{K: "put", Key: k(0xff), Val: k(3)}, {K: "crash"}}
	paths := [][]Op{
		{{K: "put", Key: k(0x03), Val: k(0xaa)}},
		{{K: "del", Key: k(0x02)}},
		{{K: "delrange", Key: k(0x02), End: k(0x03)}},
		{{K: "newbatch"}, {K: "bput", Key: k(0x03), Val: k(0xaa)}, {K: "bdel", Key: k(0x01)}, {K: "bwrite"}},
		{{K: "newbatch", U: true}, {K: "bdelrange", Key: k(0x02), End: k(0xff)}, {K: "bput", Key: k(0x04), Val: nil}, {K: "bwrite"}},
		{{K: "newbatch", Idx: true}, {K: "bput", Key: k(0x03), Val: k(0xaa)}, {K: "bwrite"}},
		{{K: "newbatch", Idx: true, U: true}, {K: "bdel", Key: k(0xff)}, {K: "bwrite"}},
		{{K: "newbatch", Idx: true, Wrap: "sync"}, {K: "bput", Key: k(0x03), Val: k(0xaa)}, {K: "bwrite"}},
		{{K: "newbatch", Idx: true, Wrap: "buffer"}, {K: "bput", Key: k(0x03), Val: k(0xaa)}, {K: "bdel", Key: k(0x02)}, {K: "bwrite"}},
		{{K: "update", Idx: true, Inner: []Op{{K: "put", Key: k(0x03), Val: k(0xaa)}, {K: "del", Key: k(0x01)}}}},
		{{K: "update", Idx: false, Inner: []Op{{K: "put", Key: k(0x03), Val: k(0xaa)}, {K: "delrange", Key: k(0x01), End: k(0x02, 0x06)}}}},
		{{K: "update", Idx: true, Fail: true, Inner: []Op{{K: "put", Key: k(0x03), Val: k(0xaa)}}}},
		{{K: "put", Key: k(0x03), Val: k(0xaa)}, {K: "flush"}, {K: "del", Key: k(0x03)}},
	}
	tail := []Op{{K: "crash"}, {K: "scan", Src: "db"}, {K: "psize", Key: nil}, {K: "crash"}, {K: "rscan", Src: "db", Key2: k(0xff, 0xff)},
		{K: "put", Key: k(0x09), Val: k(9)}, {K: "reopen"}, {K: "scan", Src: "db"}, {K: "close"}}
	fix := func(ops []Op) []Op { // handles are numbered per sequence
		nb := -1
		out := append([]Op{}, ops...)
		for i := range out {
			switch out[i].K {
			case "newbatch":
				nb++
			case "bput", "bdel", "bdelrange", "bwrite":
				out[i].H = nb
			}
		}
		return out
	}
	var all [][]Op
	for _, p := range paths {
		all = append(all, fix(append(append(append([]Op{}, pre...), p...), tail...)))
	}
	keys := keyAlphabet[1:] // (not the empty key: Pebble v2 does not survive it, finding 3)
	for i := 0; i < random; i++ {
		ops := append([]Op{}, pre[:r.Range(0, 4)]...)
		for j, n := 0, r.Range(2, 7); j < n; j++ {
			p := append([]Op{}, lib.Pick(r, paths)...)
			for x := range p {
				if len(p[x].Key) > 0 && r.Bool() && p[x].K != "delrange" && p[x].K != "bdelrange" {
					p[x].Key = lib.Pick(r, keys)
				}
			}
			ops = append(ops, p...)
			if r.Chance(2, 3) {
				ops = append(ops, Op{K: "crash"}, Op{K: "scan", Src: "db"})
			}
		}
		all = append(all, fix(append(ops, tail...)))
	}
	return all
}

const sigEmptyKeyCrash = "pebblev2-table-block-with-only-the-empty-key-crashes-process"

func usesEmptyKey(ops []Op) bool {
	for _, o := range ops {
		switch o.K {
		case "put", "bput", "del", "bdel":
			if len(o.Key) == 0 {
				return true
			}
		case "getw":
			if len(o.Key2) == 0 {
				return true
			}
		case "update":
			if usesEmptyKey(o.Inner) {
				return true
			}
		}
	}
	return false
}

// probeEmptyKeyFlushChild: put the empty key, force a flush, exit 0.
func probeEmptyKeyFlushChild() {
	st, err := pebble2Backend(false).Open()
	if err != nil {
		fmt.Println("open:", err)
		os.Exit(3)
	}
	if err := st.KV.Put([]byte{}, []byte{1}); err != nil {
		fmt.Println("put:", err)
		os.Exit(3)
	}
	if err := st.flush(st.KV); err != nil {
		fmt.Println("flush:", err)
		os.Exit(3)
	}
	ok, err := st.KV.Has([]byte{})
	fmt.Println("survived", ok, err)
	os.Exit(0)
}

func probeEmptyKeyFlush(res *lib.Result) bool {
	out, err := exec.Command(os.Args[0], "--probe-empty-key-flush").CombinedOutput()
	switch {
	case err == nil && strings.Contains(string(out), "survived true"):
		return false
	case err != nil && strings.Contains(string(out), "panic:") && strings.Contains(string(out), "pebble/v2"):
		res.Violate(lib.Violation{Sig: sigEmptyKeyCrash,
			What: "db/pebblev2: Put(empty key) followed by a flush (or a restart: WAL replay flushes) panics in a Pebble background goroutine and kills the process; db/memory and db/pebble accept the empty key",
			Replay: map[string]any{"steps": []string{"pebblev2.New(dir)", "Put([]byte{}, []byte{1})", "Impl().(*pebble.DB).Flush()  // or Close() and New(dir) again"},
				"panic": lastLines(string(out), 14)}})
		return true
	}
	res.Fatalf("probe child for the empty-key flush failed: %v: %s", err, lastLines(string(out), 8))
	return true
}

const sigSmallBatchHint = "pebble-empty-batch-with-size-hint-below-12-panics-on-write-and-close"

// probeSmallBatchHint: NewBatchWithSize(n) / NewIndexedBatchWithSize(n) with 0 < n < 12 and nothing written:
// Write() and Close() must work as on db/memory (Pebble reslices its buffer to the 12-byte batch header).
func probeSmallBatchHint(res *lib.Result) bool {
	var bad []string
	for _, be := range []Backend{memoryBackend(), pebble1Backend(false), pebble2Backend(false)} {
		for _, size := range []int{1, 11} {
			for _, call := range []string{"bwrite", "bclose"} {
				for _, idx := range []bool{false, true} {
					w, err := NewWorld(be)
					if err != nil {
						res.Fatalf("probe of small batch size hints: open %s: %v", be.Name, err)
						return false
					}
					key2 := []byte{0x02} // size 1
					if size == 11 {
						key2 = []byte{0x06}
					}
					w.Exec(Op{K: "newbatch", Idx: idx, U: true, Key2: key2})
					if out := w.Exec(Op{K: call}); out != "ok" {
						bad = append(bad, fmt.Sprintf("%s: New%sBatchWithSize(%d); %s -> %s", be.Name, map[bool]string{true: "Indexed"}[idx], size, call, out))
					}
					w.Dispose()
				}
			}
		}
	}
	if len(bad) == 0 {
		return false
	}
	res.Violate(lib.Violation{Sig: sigSmallBatchHint,
		What: "db/pebble and db/pebblev2: an EMPTY batch made with NewBatchWithSize(n) / NewIndexedBatchWithSize(n), 0 < n < 12, panics in Write() and in Close() " +
			"(slice bounds out of range [:12] with capacity n: Pebble's Batch.reset reslices the preallocated buffer to its 12-byte header); db/memory returns nil",
		Replay: map[string]any{"steps": []string{"b := store.NewBatchWithSize(1)", "b.Close()   // or b.Write()"}, "observed": bad}})
	return true
}

// finish removes the scratch root (only succeeds when it is empty) and writes the result.
func finish(f lib.Flags, res *lib.Result) {
	os.Remove(scratchRoot)
	lib.Finish(f, res)
}

func main() {
	concOnly := false
	for i, a := range os.Args {
		if a == "--conc-only" { // child process of the thorough tier, built with -race
			concOnly = true
			os.Args = append(os.Args[:i], os.Args[i+1:]...)
			break
		}
	}
	for _, a := range os.Args {
		if a == "--probe-empty-key-flush" { // child process: does Pebble v2 survive a table that holds only the empty key?
			probeEmptyKeyFlushChild()
		}
	}
	f := lib.ParseFlags()
	res := lib.NewResult("op sequences of the db.KeyValueStore interface over a 16-key alphabet (empty key, keys extending keys, " +
		"0xff-terminated / all-0xff prefixes, empty values) plus large-data, all-batch-logs, BufferBatch and power-loss families, run on db/memory, db/pebble, db/pebblev2 " +
		"(compared with each other) and on the Lean Mem/Peb/Spec models; non-trivial = distinct sequence with >= 8 ops that uses " +
		"a batch, snapshot or iterator")
	// lib.NewRNG(s) and lib.NewRNG(s+1) are the same SplitMix stream shifted by one: scramble the seed
	// first so that different --seed values give unrelated sequences
	r := lib.NewRNG(lib.NewRNG(f.Seed*0x2545F4914F6CDD1D+0x9E3779B9).Uint64() ^ f.Seed<<32)
	if concOnly {
		concurrencyPhase(f, r, res)
		finish(f, res)
	}
	rn := &Runner{res: res}
	drv, err := lib.StartDriver(f.Driver)
	if err != nil {
		res.Fatalf("Lean driver did not start: %v (continuing with the backend-against-backend oracle only)", err)
	} else {
		defer drv.Close()
		rn.drv = drv
	}
	driverDied := func(err error) {
		rn.once.Do(func() {
			res.Fatalf("%v (continuing with the backend-against-backend oracle only)", err)
		})
		rn.drv = nil
	}

	// A. dbutils.UpperBound against the model + its defining property on the real function
	if err := upperBoundPhase(f, r, rn.drv, res); err != nil {
		driverDied(err)
	}

	// B. which variant of db/memory is this?
	cfg, err := probeCfg()
	if err != nil {
		res.Fatalf("probe: %v", err)
	}
	rn.cfg = cfg
	res.Note("db/memory variant probed on the real code: %+v", cfg)
	if rn.drv != nil {
		if a, err := askDeadline(rn.drv, cfg.Line()); err != nil || a != "ok" {
			driverDied(fmt.Errorf("Lean driver rejected %q: %v %q", cfg.Line(), err, a))
		}
	}

	// C0. Pebble v2 (columnar blocks) kills the whole process, from a background goroutine, when a
	// table block holds only the empty key. Probed in a child process; while the defect is there,
	// sequences that write the empty key do not flush / reopen (the harness must survive).
	emptyKeyCrash := probeEmptyKeyFlush(res)

	// C00. Pebble (v1 and v2) panics on an empty batch whose size hint is below its batch header; while it
	// does, the sequences use hints >= 12 (the probe is the reproduction)
	smallHintPanics = probeSmallBatchHint(res)

	f5Family, f5Left := 0, 0
	gaveUp := false
	runOne := func(ops []Op, label string) {
		if hangs.Load() > 12 {
			// (the re-entrant Get on db/memory accounts for a handful) calls keep hanging: the violations
			// found so far are reported, the rest of the run would only wait for deadlines
			if !gaveUp {
				gaveUp = true
				res.Fatalf("%d calls did not return within their deadline: remaining sequences not run (from family %s on)", hangs.Load(), label)
			}
			return
		}
		if emptyKeyCrash && usesEmptyKey(ops) {
			var kept []Op
			for _, o := range ops {
				if o.K != "reopen" && o.K != "flush" && o.K != "crash" {
					kept = append(kept, o)
				}
			}
			if len(kept) != len(ops) {
				res.Hit("sequences:no-flush-because-empty-key-crashes-pebblev2")
			}
			ops = kept
		}
		sr, err := rn.Run(ops)
		if err != nil && rn.drv != nil && strings.Contains(err.Error(), "lean driver") {
			driverDied(err)
			sr, err = rn.Run(ops) // again, without the models: the property oracle does not need them
		}
		if err != nil {
			res.Fatalf("family %s: sequence not run: %v", label, err)
			return
		}
		nontrivial := false
		for _, o := range ops {
			if createsHandle(o) || o.K == "update" {
				nontrivial = true
			}
		}
		res.Case(strings.Join(lines(ops), "\n"), nontrivial && len(ops) >= 8)
		res.Hit("sequences:" + label)
		hitOps(res, ops)
		hitOutputs(res, sr)
		if strings.HasPrefix(label, "f5-") {
			f5Family++
			if sr.F5Left {
				f5Left++
			}
		}
		rn.account(res, ops, sr)
		if sr.Hang {
			// the call is still running in its goroutine (it may loop forever and eat memory): report what
			// was found and stop here
			res.Fatalf("a call of the code under test never returned (family %s): run stopped after reporting it", label)
			finish(f, res)
		}
		res.Sample(6, map[string]any{"kind": label, "ops": lines(ops[:min(len(ops), 14)]), "memory": sr.Outs["memory"][:min(len(ops), 14)]})
	}

	if f.Replay != "" {
		var wrap struct {
			Replay Replay `json:"replay"`
		}
		b, err := os.ReadFile(f.Replay)
		if err == nil {
			err = json.Unmarshal(b, &wrap)
		}
		if err != nil || len(wrap.Replay.Ops) == 0 {
			res.Fatalf("cannot read replay %s: %v", f.Replay, err)
			finish(f, res)
		}
		runOne(wrap.Replay.Ops, "replay")
		finish(f, res)
	}

	// C. directed corpus, exhaustive small spaces
	for _, ops := range corpus() {
		runOne(ops, "corpus")
	}
	for _, ops := range handleSequences() {
		runOne(ops, "handles-outside-contract")
	}
	for _, ops := range reentrantSequences() {
		runOne(ops, "re-entrant-callbacks")
	}
	for _, ops := range bufferSequences() {
		runOne(ops, "buffer-batch")
	}
	for _, ops := range batchLogSequences(f.Scale(3, 4)) {
		runOne(ops, "all-batch-logs")
	}
	// C1. stacks of wrappers (stack.go): the layer under a BufferBatch changes before the buffer is flushed
	for _, ops := range stackDirected() {
		runOne(ops, "stack-directed")
	}
	for _, ops := range stackSiblings() {
		runOne(ops, "stack-three-buffers-over-one-batch-all-flush-orders")
	}
	for _, ops := range stackExhaustive(f.Scale(4, 5)) {
		runOne(ops, "stack-one-key-all-histories")
	}
	for i, n := 0, f.Scale(120, 3000); i < n; i++ {
		runOne(stackRandom(r.Fork(uint64(4_000_000+i))), "stack-random")
	}
	rn.crashable = true
	for _, ops := range durabilitySequences(r.Fork(3_000_000), f.Scale(30, 600)) {
		runOne(ops, "durability-power-loss-after-each-write-path")
	}
	rn.crashable = false
	for _, ops := range boundsSequences() {
		runOne(ops, "all-bounds")
	}
	for _, ops := range positionSequences(f.Scale(3, 4)) {
		runOne(ops, "all-position-sequences")
	}
	for i, n := 0, f.Scale(60, 1500); i < n; i++ {
		rr := r.Fork(uint64(1_000_000 + i))
		rn.disk = i%10 == 0
		runOne(f5Tail(f5Sequence(rr), rr), "f5-store-write-inside-pending-deleterange")
	}
	for i, n := 0, f.Scale(2, 12); i < n; i++ {
		rr := r.Fork(uint64(2_000_000 + i))
		rn.disk = i%2 == 0
		runOne(largeSequence(rr, f.Scale(260, 700)), "large-data+flush+compact+reopen")
	}

	// D. random sequences; every 10th on a real directory
	n := f.Scale(700, 20000)
	for i := 0; i < n; i++ {
		rr := r.Fork(uint64(i))
		rn.disk = i%10 == 0
		// (with batch.DeleteRange recorded as a range — probed — the store may change under a pending range in
		// every sequence; with the materialising variant only in every 7th, finding F5)
		allowF5 := cfg.RangeLog || i%7 == 3
		ops := withEnding(genSequence(rr, rr.Range(8, 70), allowF5, cfg.CbUnlocked))
		label := "random"
		if i%7 == 3 {
			label = "random+store-changes-under-pending-deleterange"
		}
		runOne(ops, label)
	}
	rn.disk = false
	if rn.drv != nil && f5Left*3 < f5Family*2 {
		res.Fatalf("the F5 family is not effective: only %d of %d sequences left f5Free", f5Left, f5Family)
	}
	res.HitN("f5-family:left-f5Free", f5Left)
	res.HitN("listener:OnIO-calls", int(listenerIO.Load()))
	res.HitN("listener:OnCommit-calls", int(listenerCommit.Load()))
	if listenerIO.Load() == 0 || listenerCommit.Load() == 0 {
		res.Fatalf("the event listener installed with WithListener was never called (%d IO, %d commit)", listenerIO.Load(), listenerCommit.Load())
	}

	// E. concurrency: quick = smoke in process; thorough = child process built with -race
	if f.Thorough() {
		concurrencyRaceChild(f, res)
	} else {
		concurrencySmoke(r, res)
	}
	finish(f, res)
}

func genKey(r *lib.RNG) []byte {
	n := r.Intn(4)
	b := make([]byte, n)
	for i := range b {
		b[i] = lib.Pick(r, []byte{0x00, 0x01, 0x02, 0xfe, 0xff, 0xff})
	}
	return b
}

// allStrings: every byte string of length <= maxLen over the alphabet
func allStrings(alphabet []byte, maxLen int) [][]byte {
	out := [][]byte{{}}
	for start, l := 0, 0; l < maxLen; l++ {
		end := len(out)
		for _, p := range out[start:end] {
			for _, b := range alphabet {
				out = append(out, append(append([]byte{}, p...), b))
			}
		}
		start = end
	}
	return out
}

func upperBoundPhase(f lib.Flags, r *lib.RNG, drv *lib.Driver, res *lib.Result) (died error) {
	// EXHAUSTIVE first: every prefix of length <= 3 over {00,01,fe,ff} (85 prefixes: every shape of trailing
	// 0xff bytes) against the model, and against its defining property on the real function for EVERY key of
	// length <= 4 over {00,01,02,fe,ff} — among them the bound itself and the keys right above it: a key lies in
	// [p, UpperBound(p)) iff it has the prefix p, i.e. the bound is above every key with the prefix and it is
	// the LEAST such byte string (a bound that is merely large enough lets keys of the next prefixes in).
	exPrefixes := allStrings([]byte{0x00, 0x01, 0xfe, 0xff}, 3)
	exKeys := allStrings([]byte{0x00, 0x01, 0x02, 0xfe, 0xff}, 4)
	pairs := make([][2][]byte, 0, len(exPrefixes)+f.Scale(2000, 50000))
	for _, p := range exPrefixes {
		pairs = append(pairs, [2][]byte{p, nil})
	}
	res.HitN("ub-exhaustive:prefixes", len(exPrefixes))
	res.HitN("ub-exhaustive:keys-per-prefix", len(exKeys))
	n := f.Scale(2000, 50000)
	for i := 0; i < n; i++ {
		pairs = append(pairs, [2][]byte{genKey(r), genKey(r)})
	}
	for i, pk := range pairs {
		p, key := pk[0], pk[1]
		ub := dbutils.UpperBound(p)
		implS := "nil"
		if ub != nil {
			implS = hx(ub)
		}
		if drv != nil {
			modelS, err := askDeadline(drv, "ub "+hx(p))
			if err != nil {
				died = fmt.Errorf("lean driver died in the UpperBound phase: %w", err)
				drv = nil // the range oracle below does not need it
			} else {
				res.Compared(1)
				if modelS != implS {
					res.Mismatch(lib.Mismatch{Sig: "upperBound", Input: hx(p), Model: modelS, Impl: implS})
				}
			}
		}
		keys := [][]byte{key}
		if i < len(exPrefixes) {
			keys = exKeys
		}
		for _, key := range keys {
			inRange := bytes.Compare(p, key) <= 0 && (ub == nil || bytes.Compare(key, ub) < 0)
			if bytes.HasPrefix(key, p) != inRange {
				res.Violate(lib.Violation{Sig: "upperbound-range-differs-from-prefix",
					What: fmt.Sprintf("UpperBound(%x)=%x: key %x has the prefix: %v, lies in [prefix, bound): %v (the bound must be the least byte string above every key with the prefix)",
						p, ub, key, bytes.HasPrefix(key, p), inRange),
					Replay: map[string]string{"prefix": hx(p), "key": hx(key), "UpperBound(prefix)": implS}})
				break
			}
		}
		if ub == nil {
			res.Hit("ub=nil")
		} else {
			res.Hit(fmt.Sprintf("ub-len=%d", len(ub)))
		}
	}
	return died
}
