//go:build verif

// Harness for C15: runs identical op sequences on db/memory, db/pebble (v1), db/pebblev2 and on
// the Lean models (`Mem` = transcription of db/memory, `Spec` = the contract) and compares every
// output. Model-vs-memory differences are correspondence mismatches; a backend that differs from
// the contract on a sequence is a property violation with the (shrunk) sequence as replay.
package main

import (
	"bytes"
	"encoding/json"
	"fmt"
	"os"
	"strings"
	"sync"

	"github.com/NethermindEth/juno/db/dbutils"
	"verif/harness/lib"
)

// ---- known ways in which a backend leaves the contract (each has its own stable Sig) ----------
const (
	sigNilUB     = "memory-iterator-nil-upper-bound-yields-nothing"
	sigPrefix    = "memory-iterator-without-upper-bound-filters-by-prefix"
	sigPrevFirst = "memory-iterator-prev-before-first-revalidates"
	sigNextEnd   = "memory-iterator-next-past-end-keeps-counting"
	sigBatchDR   = "memory-batch-deleterange-materialised-at-call-time"
	sigSnapHas   = "pebble-snapshot-has-missing-key-returns-error"
	sigBufNil    = "bufferbatch-put-nil-value-acts-as-delete"
	sigSnapLeak  = "pebble-snapshot-get-callback-error-leaks-value"
)

type Cfg struct{ NilUb, LowerBound, PrevFix, NextClamp bool }

func (c Cfg) Line() string {
	return "cfg " + b01(c.NilUb) + " " + b01(c.LowerBound) + " " + b01(c.PrevFix) + " " + b01(c.NextClamp)
}

// probeCfg asks the real db/memory which variant of the four known spots it implements, so that
// the Lean `Mem` model follows the code (CONVENTIONS §5: "the model follows the code").
func probeCfg() Cfg {
	var c Cfg
	w, _ := NewWorld(memoryBackend())
	defer w.Dispose()
	w.Exec(Op{K: "put", Key: []byte{1}, Val: []byte{1}})
	w.Exec(Op{K: "put", Key: []byte{2}, Val: []byte{2}})
	c.NilUb = w.Exec(Op{K: "scan", Src: "db", Key: nil, U: true}) == "[01=01,02=02]"
	c.LowerBound = w.Exec(Op{K: "scan", Src: "db", Key: []byte{1}, U: false}) == "[01=01,02=02]"
	w.Exec(Op{K: "iter", Src: "db"})
	w.Exec(Op{K: "first", H: 0})
	w.Exec(Op{K: "prev", H: 0})
	c.PrevFix = w.Exec(Op{K: "prev", H: 0}) == "F invalid"
	w.Exec(Op{K: "seek", H: 0, Key: []byte{3}})
	w.Exec(Op{K: "next", H: 0})
	c.NextClamp = w.Exec(Op{K: "prev", H: 0}) == "T 02=02"
	return c
}

// probeBufNil: does db.BufferBatch.Put(key, nil) read back as deleted in this tree?
func probeBufNil() bool {
	w, _ := NewWorld(memoryBackend())
	defer w.Dispose()
	w.Exec(Op{K: "newbatch", Idx: true, Wrap: "buffer"})
	w.Exec(Op{K: "bput", H: 0, Key: []byte{1}, Val: nil, NilB: true})
	return w.Exec(Op{K: "get", Src: "b0", Key: []byte{1}}) == "notfound"
}

// ---- running one sequence everywhere ------------------------------------------------------------

type Divergence struct {
	Sig      string `json:"sig"`
	Backend  string `json:"backend"`
	At       int    `json:"at"`
	Op       string `json:"op"`
	Contract string `json:"contract_says"`
	Got      string `json:"backend_says"`
}

type SeqResult struct {
	Divs       []Divergence
	Mismatches []lib.Mismatch
	Compared   int
	InContract bool
	Outs       map[string][]string
}

type Runner struct {
	drv       *lib.Driver
	mu        sync.Mutex // the driver is shared
	cfg       Cfg
	bufDefect bool // db.BufferBatch.Put(key, nil) reads back as a deletion in this tree
	disk      bool
}

func parseDrv(s string) (mem, spec string, ok bool) {
	p := strings.Split(s, " | ")
	if len(p) != 3 {
		return s, s, false
	}
	return p[0], p[1], p[2] == "1"
}

func allFF(p []byte) bool {
	for _, b := range p {
		if b != 0xff {
			return false
		}
	}
	return true
}

// iterClass: are these NewIterator arguments, for the probed variant of db/memory, themselves a known
// way of leaving the contract? (cfg-aware: once a repair is in the tree the arguments are inside
// the contract and a difference on them is NOT filed under the old finding.)
func iterClass(cfg Cfg, p []byte, u bool) string {
	if u && allFF(p) && !cfg.NilUb {
		return sigNilUB
	}
	if !u && len(p) > 0 && !cfg.LowerBound {
		return sigPrefix
	}
	return ""
}

// causes tracks, per sequence, WHY a later output may differ from the contract, so that a
// divergence is attributed to its cause and not to the op that happens to expose it:
//   - F5 (batch DeleteRange materialised at call time): a live batch that holds a DeleteRange and
//     under which the store changed is tainted; writing it taints the store; snapshots and
//     iterators inherit the taint of what they were created from;
//   - db.BufferBatch given Put(key, nil) (only when the probe found that defect in the tree): same
//     propagation, applies to every backend;
//   - iterator bounds / position classes: per iterator handle, only for the probed variant.
type causes struct {
	cfg        Cfg
	bufDefect  bool
	closed     bool
	live       map[int]bool
	hasRange   map[int]bool
	batchF5    map[int]bool
	isBuf      map[int]bool
	batchBuf   map[int]bool
	nBatches   int
	dbF5       bool
	dbBuf      bool
	snapF5     map[int]bool
	snapBuf    map[int]bool
	nSnaps     int
	iterF5     map[int]bool
	iterBuf    map[int]bool
	iterBounds map[int]string
	iterPos    map[int]string
	nIters     int
	// a Pebble snapshot.Get whose callback failed on a present key: the wrapper returns without
	// closing the value, and the store's Close then reports the leak
	snapGetFailed bool
}

func newCauses(cfg Cfg, bufDefect bool) *causes {
	return &causes{cfg: cfg, bufDefect: bufDefect, live: map[int]bool{}, hasRange: map[int]bool{}, batchF5: map[int]bool{},
		isBuf: map[int]bool{}, batchBuf: map[int]bool{}, snapF5: map[int]bool{}, snapBuf: map[int]bool{},
		iterF5: map[int]bool{}, iterBuf: map[int]bool{}, iterBounds: map[int]string{}, iterPos: map[int]string{}}
}

func srcHandle(src string) int {
	var h int
	fmt.Sscanf(src[1:], "%d", &h)
	return h
}

// srcTaint: is what a reader of src sees possibly spoilt by F5 / by the BufferBatch defect?
func (c *causes) srcTaint(src string) (f5, buf bool) {
	switch {
	case src == "db":
		return c.dbF5, c.dbBuf
	case strings.HasPrefix(src, "b"):
		h := srcHandle(src)
		return c.batchF5[h] || c.dbF5, c.batchBuf[h] || c.dbBuf
	case strings.HasPrefix(src, "s"):
		h := srcHandle(src)
		return c.snapF5[h], c.snapBuf[h]
	}
	return false, false
}

// before returns, for the op about to run: the cause that explains a difference on db/memory, the
// cause that explains a difference on every backend, and the iterator class of the op (bounds or
// position; used to decide whether an out-of-contract iterator op is compared at all).
func (c *causes) before(o Op, okc bool) (memCause, allCause, iterCls string) {
	f5, buf := false, false
	switch o.K {
	case "get", "has", "scan", "iter":
		f5, buf = c.srcTaint(o.Src)
		if o.K == "scan" || o.K == "iter" {
			iterCls = iterClass(c.cfg, o.Key, o.U)
		}
	case "update":
		f5, buf = c.dbF5, c.dbBuf
		for _, in := range o.Inner {
			if in.K == "scan" && iterCls == "" {
				iterCls = iterClass(c.cfg, in.Key, in.U)
			}
		}
	case "first", "next", "prev", "seek", "value":
		f5, buf = c.iterF5[o.H], c.iterBuf[o.H]
		if o.K == "first" || o.K == "seek" {
			delete(c.iterPos, o.H)
		}
		if o.K == "prev" && !okc && !c.cfg.PrevFix && !c.closed && c.iterPos[o.H] == "" {
			c.iterPos[o.H] = sigPrevFirst
		}
		if o.K == "next" && !okc && !c.cfg.NextClamp && !c.closed && c.iterPos[o.H] == "" {
			c.iterPos[o.H] = sigNextEnd
		}
		if t := c.iterBounds[o.H]; t != "" {
			iterCls = t
		} else {
			iterCls = c.iterPos[o.H]
		}
	}
	if buf {
		allCause = sigBufNil
	}
	switch {
	case f5:
		memCause = sigBatchDR
	case buf:
		memCause = sigBufNil
	default:
		memCause = iterCls
	}
	return memCause, allCause, iterCls
}

// after updates the bookkeeping once the op ran.
func (c *causes) after(o Op) {
	storeChanged := func(except int) {
		if c.closed {
			return
		}
		for b, l := range c.live {
			if l && b != except && c.hasRange[b] {
				c.batchF5[b] = true
			}
		}
	}
	switch o.K {
	case "newbatch":
		c.live[c.nBatches] = true
		c.isBuf[c.nBatches] = o.Idx && o.Wrap == "buffer"
		c.nBatches++
	case "bdelrange":
		if c.live[o.H] {
			c.hasRange[o.H] = true
		}
	case "bput":
		if c.bufDefect && c.live[o.H] && c.isBuf[o.H] && len(o.Val) == 0 && o.NilB {
			c.batchBuf[o.H] = true
		}
	case "put", "del", "delrange":
		storeChanged(-1)
	case "update":
		if !o.Fail {
			storeChanged(-1)
		}
	case "bwrite":
		if c.live[o.H] && !c.closed {
			storeChanged(o.H)
			c.dbF5 = c.dbF5 || c.batchF5[o.H]
			c.dbBuf = c.dbBuf || c.batchBuf[o.H]
			c.live[o.H] = false
		}
	case "bclose":
		c.live[o.H] = false
	case "snap":
		if !c.closed {
			c.snapF5[c.nSnaps], c.snapBuf[c.nSnaps] = c.dbF5, c.dbBuf
			c.nSnaps++
		}
	case "iter":
		c.iterF5[c.nIters], c.iterBuf[c.nIters] = c.srcTaint(o.Src)
		if cls := iterClass(c.cfg, o.Key, o.U); cls != "" {
			c.iterBounds[c.nIters] = cls
		}
		c.nIters++
	case "close":
		c.closed = true
	}
}

// Run executes ops on the three real backends and on the Lean models and compares.
func (rn *Runner) Run(ops []Op) (*SeqResult, error) {
	sr := &SeqResult{InContract: true, Outs: map[string][]string{}}
	// models
	rn.mu.Lock()
	ans, err := rn.drv.AskAll(append([]string{"reset"}, lines(ops)...))
	rn.mu.Unlock()
	if err != nil {
		return nil, err
	}
	ans = ans[1:]
	backends := []Backend{memoryBackend(), pebble1Backend(false), pebble2Backend(rn.disk)}
	type bstate struct {
		w        *World
		stopped  bool
		deadIter map[int]bool
	}
	var bst []*bstate
	for _, b := range backends {
		w, err := NewWorld(b)
		if err != nil {
			return nil, fmt.Errorf("open %s: %w", b.Name, err)
		}
		defer w.Dispose()
		bst = append(bst, &bstate{w: w, deadIter: map[int]bool{}})
	}
	cs := newCauses(rn.cfg, rn.bufDefect)
	iterOrigin := map[int]string{} // live iterator handle -> source it was created from
	orphan := map[int]bool{}       // iterators whose batch / snapshot was closed under them
	nIters := 0
	for i, o := range ops {
		memModel, spec, okc := parseDrv(ans[i])
		if !okc {
			sr.InContract = false
		}
		memCause, allCause, iterCls := cs.before(o, okc)
		skipCross := false
		switch o.K {
		case "iter":
			iterOrigin[nIters] = o.Src
			nIters++
		case "iclose":
			delete(iterOrigin, o.H)
		case "bwrite", "bclose", "sclose":
			// Pebble: an iterator must be closed before the batch / snapshot it reads from
			from := fmt.Sprintf("b%d", o.H)
			if o.K == "sclose" {
				from = fmt.Sprintf("s%d", o.H)
			}
			for h, src := range iterOrigin {
				if src == from {
					orphan[h] = true
					skipCross = true
				}
			}
		case "first", "next", "prev", "seek", "value":
			if orphan[o.H] {
				skipCross = true
			}
		}
		if !okc {
			switch o.K {
			case "bsize", "value", "close", "get", "has", "sclose", "iclose", "bdelrange":
				// outside the documented contract (Size after DeleteRange, Value() of an invalid
				// iterator, handles used after the store was closed): not compared across backends
				skipCross = true
			case "iter", "scan", "first", "seek", "next", "prev":
				if iterCls == "" {
					skipCross = true
				}
			}
		}
		// db.BufferBatch is not part of the Mem model: reads it may have spoilt are left out of the
		// model correspondence
		bufAffected := cs.dbBuf || allCause != ""
		for bi, b := range bst {
			out := b.w.Exec(o)
			sr.Outs[b.w.name] = append(sr.Outs[b.w.name], out)
			if bi == 0 && !bufAffected {
				// correspondence: Lean Mem model vs real db/memory (always, also outside the contract)
				sr.Compared++
				if out != memModel {
					sr.Mismatches = append(sr.Mismatches, lib.Mismatch{Sig: "mem-model:" + o.K,
						Input: map[string]any{"ops": lines(ops[:i+1]), "cfg": rn.cfg}, Model: memModel, Impl: out})
				}
			}
			if b.stopped || skipCross {
				continue
			}
			switch o.K {
			case "first", "next", "prev", "seek", "value", "iclose":
				if b.deadIter[o.H] {
					continue
				}
			}
			sr.Compared++
			if out == spec {
				continue
			}
			sig := ""
			switch {
			case bi != 0 && o.K == "close" && cs.snapGetFailed && spec == "ok" && out == "err:other":
				sig = sigSnapLeak
			case bi == 0:
				sig = memCause
			case o.K == "has" && strings.HasPrefix(o.Src, "s") && spec == "false" && out == "err:pebble-notfound":
				sig = sigSnapHas
			default:
				sig = allCause
			}
			if sig == "" {
				sig = b.w.name + "-differs-from-contract:" + o.K
			}
			sr.Divs = append(sr.Divs, Divergence{Sig: sig, Backend: b.w.name, At: i, Op: o.Line(), Contract: spec, Got: out})
			switch o.K {
			case "get", "has", "scan", "bsize", "value":
				// read-only: the backend's state is still comparable
			case "first", "next", "prev", "seek":
				b.deadIter[o.H] = true
			default:
				b.stopped = true
			}
		}
		if o.K == "get" && o.Fail && strings.HasPrefix(o.Src, "s") && spec == "err:cb" {
			cs.snapGetFailed = true
		}
		cs.after(o)
	}
	return sr, nil
}

func hasSig(sr *SeqResult, sig string) *Divergence {
	for i := range sr.Divs {
		if sr.Divs[i].Sig == sig {
			return &sr.Divs[i]
		}
	}
	return nil
}

func createsHandle(o Op) bool { return o.K == "iter" || o.K == "newbatch" || o.K == "snap" }

// shrink removes ops (never handle-creating ones: handles are numbered by creation order) while
// the same Sig still shows up.
func (rn *Runner) shrink(ops []Op, sig string) []Op {
	cur := ops
	if sr, err := rn.Run(cur); err == nil {
		if d := hasSig(sr, sig); d != nil {
			cur = cur[:d.At+1]
		}
	}
	for pass := 0; pass < 2; pass++ {
		for i := len(cur) - 2; i >= 0; i-- {
			if createsHandle(cur[i]) {
				continue
			}
			cand := append(append([]Op{}, cur[:i]...), cur[i+1:]...)
			sr, err := rn.Run(cand)
			if err != nil {
				return cur
			}
			if d := hasSig(sr, sig); d != nil {
				cur = cand[:d.At+1]
				if i > len(cur)-1 {
					i = len(cur) - 1
				}
			}
		}
	}
	return cur
}

type Replay struct {
	Cfg     Cfg                 `json:"memory_variant"`
	Lines   []string            `json:"lines"`
	Ops     []Op                `json:"ops"`
	Div     *Divergence         `json:"divergence,omitempty"`
	Outputs map[string][]string `json:"outputs,omitempty"`
}

var reported sync.Map

// account folds one sequence result into the harness result; new Sigs are shrunk first.
func (rn *Runner) account(res *lib.Result, ops []Op, sr *SeqResult) {
	res.Compared(sr.Compared)
	for _, m := range sr.Mismatches {
		res.Mismatch(m)
	}
	for _, d := range sr.Divs {
		res.Hit("divergence:" + d.Sig)
		if _, dup := reported.LoadOrStore(d.Sig, true); dup {
			continue
		}
		small := rn.shrink(ops, d.Sig)
		rp := Replay{Cfg: rn.cfg, Lines: lines(small), Ops: small}
		what := fmt.Sprintf("%s: op %q: contract says %q, %s says %q", d.Sig, d.Op, d.Contract, d.Backend, d.Got)
		if sr2, err := rn.Run(small); err == nil {
			if d2 := hasSig(sr2, d.Sig); d2 != nil {
				rp.Div, rp.Outputs = d2, sr2.Outs
				what = fmt.Sprintf("after %d ops, %q: contract (Lean Spec) says %q, %s says %q", d2.At, d2.Op, d2.Contract, d2.Backend, d2.Got)
			}
		}
		res.Violate(lib.Violation{Sig: d.Sig, What: what, Replay: rp})
	}
}

func hitOps(res *lib.Result, ops []Op) {
	for _, o := range ops {
		k := o.K
		switch o.K {
		case "get", "has", "iter", "scan":
			k += ":" + o.Src[:1]
		}
		res.Hit("op:" + k)
		if o.K == "iter" || o.K == "scan" {
			switch {
			case o.U && len(o.Key) == 0:
				res.Hit("bounds:empty-prefix+ub")
			case o.U && allFF(o.Key):
				res.Hit("bounds:all-ff-prefix+ub")
			case o.U && o.Key[len(o.Key)-1] == 0xff:
				res.Hit("bounds:ff-terminated-prefix+ub")
			case o.U:
				res.Hit("bounds:prefix+ub")
			case len(o.Key) == 0:
				res.Hit("bounds:all-keys")
			default:
				res.Hit("bounds:lower-bound-only")
			}
		}
		if (o.K == "put" || o.K == "bput") && len(o.Val) == 0 {
			res.Hit("empty-value")
		}
		if (o.K == "put" || o.K == "bput" || o.K == "get") && len(o.Key) == 0 {
			res.Hit("empty-key")
		}
		if o.K == "update" {
			res.Hit(fmt.Sprintf("update:idx=%v,fail=%v", o.Idx, o.Fail))
		}
	}
}

func hitOutputs(res *lib.Result, sr *SeqResult) {
	for _, o := range sr.Outs["memory"] {
		switch {
		case o == "panic", o == "notfound", o == "err:cb", o == "err:closed", o == "F invalid", o == "[]":
			res.Hit("out:" + o)
		case strings.HasPrefix(o, "T "):
			res.Hit("out:positioned-valid")
		}
	}
	if sr.InContract {
		res.Hit("sequence:inside-contract")
	} else {
		res.Hit("sequence:leaves-contract")
	}
}

// ---- directed corpus (DESIGN §7 L5 and the guidance of the task) --------------------------------

func k(bs ...byte) []byte { return bs }

func corpus() [][]Op {
	seven := []Op{
		{K: "put", Key: k(0x00), Val: k(1)}, {K: "put", Key: k(0x01, 0x01), Val: k(2)}, {K: "put", Key: k(0x01, 0x02), Val: k(3)},
		{K: "put", Key: k(0x02), Val: k(4)}, {K: "put", Key: k(0xff), Val: k(5)}, {K: "put", Key: k(0xff, 0xff), Val: k(6)},
		{K: "put", Key: k(0xff, 0xff, 0x01), Val: k(7)}, {K: "put", Key: nil, Val: nil},
	}
	with := func(more ...Op) []Op { return append(append([]Op{}, seven...), more...) }
	return [][]Op{
		with(Op{K: "scan", Src: "db", Key: k(0xff, 0xff), U: true}, Op{K: "scan", Src: "db", Key: k(0xff), U: true},
			Op{K: "scan", Src: "db", Key: nil, U: true, NilB: true}, Op{K: "scan", Src: "db", Key: nil, U: true}),
		with(Op{K: "scan", Src: "db", Key: k(0x01), U: false}, Op{K: "scan", Src: "db", Key: k(0x01), U: true},
			Op{K: "scan", Src: "db", Key: k(0x01, 0xff), U: true}),
		with(Op{K: "iter", Src: "db"}, Op{K: "first"}, Op{K: "prev"}, Op{K: "prev"}, Op{K: "next"}),
		with(Op{K: "iter", Src: "db"}, Op{K: "seek", Key: k(0xff, 0xff, 0xff)}, Op{K: "prev"}, Op{K: "next"}, Op{K: "next"}, Op{K: "prev"}),
		with(Op{K: "newbatch"}, Op{K: "bdelrange", Key: nil, End: k(0xff)}, Op{K: "put", Key: k(0x01), Val: k(9)}, Op{K: "bwrite"},
			Op{K: "scan", Src: "db"}),
		with(Op{K: "newbatch", Idx: true}, Op{K: "bdelrange", Key: k(0x01), End: nil}, Op{K: "bdelrange", Key: k(0x01), End: nil, NilB: true},
			Op{K: "scan", Src: "b0"}, Op{K: "delrange", Key: k(0x01), End: nil}, Op{K: "bwrite"}, Op{K: "scan", Src: "db"}),
		with(Op{K: "get", Src: "db", Key: k(0x02), Fail: true}, Op{K: "get", Src: "db", Key: k(0x03), Fail: true},
			Op{K: "snap"}, Op{K: "get", Src: "s0", Key: k(0x02), Fail: true}, Op{K: "has", Src: "s0", Key: k(0x03)}, Op{K: "has", Src: "s0", Key: k(0x02)},
			Op{K: "sclose"}),
		with(Op{K: "update", Idx: true, Fail: true, Inner: []Op{{K: "put", Key: k(0x05), Val: k(5)}, {K: "delrange", Key: nil, End: k(0xff)}, {K: "get", Key: k(0x05)}, {K: "scan"}}},
			Op{K: "scan", Src: "db"},
			Op{K: "update", Idx: false, Fail: true, Inner: []Op{{K: "put", Key: k(0x05), Val: k(5)}, {K: "del", Key: k(0x00)}}},
			Op{K: "scan", Src: "db"},
			Op{K: "update", Idx: true, Inner: []Op{{K: "put", Key: k(0x05), Val: k(5)}, {K: "del", Key: k(0x05)}, {K: "put", Key: k(0x00), Val: nil}, {K: "has", Key: k(0x05)}}},
			Op{K: "scan", Src: "db"}),
		with(Op{K: "newbatch", Idx: true, Wrap: "buffer"}, Op{K: "bput", Key: k(0x00), Val: nil, NilB: true}, Op{K: "bput", Key: k(0x07), Val: nil},
			Op{K: "bdel", Key: k(0x02)}, Op{K: "get", Src: "b0", Key: k(0x00)}, Op{K: "get", Src: "b0", Key: k(0x07)}, Op{K: "get", Src: "b0", Key: k(0x02)},
			Op{K: "bwrite"}, Op{K: "scan", Src: "db"}),
		with(Op{K: "newbatch", Idx: true, Wrap: "sync"}, Op{K: "bput", Key: k(0x00), Val: nil, NilB: true}, Op{K: "bdelrange", Key: k(0x01), End: k(0x03)},
			Op{K: "scan", Src: "b0", Key: nil}, Op{K: "has", Src: "b0", Key: k(0x02)}, Op{K: "bsize"}, Op{K: "bwrite"}, Op{K: "scan", Src: "db"}),
		// batches whose Size() is 0 although they are not empty: empty key with empty value, delete of the
		// empty key, DeleteRange only
		with(Op{K: "update", Idx: false, Inner: []Op{{K: "del", Key: nil}}}, Op{K: "has", Src: "db", Key: nil},
			Op{K: "update", Idx: false, Inner: []Op{{K: "put", Key: nil, Val: nil}}}, Op{K: "has", Src: "db", Key: nil},
			Op{K: "update", Idx: true, Inner: []Op{{K: "del", Key: nil, NilB: true}}}, Op{K: "has", Src: "db", Key: nil},
			Op{K: "update", Idx: true, Inner: []Op{{K: "put", Key: nil, Val: nil, NilB: true}}}, Op{K: "has", Src: "db", Key: nil},
			Op{K: "update", Idx: false, Inner: []Op{{K: "delrange", Key: k(0x01), End: k(0x03)}}}, Op{K: "scan", Src: "db"},
			Op{K: "update", Idx: true, Inner: []Op{{K: "delrange", Key: nil, End: k(0xff, 0xff, 0xff)}}}, Op{K: "scan", Src: "db"},
			Op{K: "newbatch"}, Op{K: "bput", Key: nil, Val: nil}, Op{K: "bsize"}, Op{K: "bwrite"}, Op{K: "has", Src: "db", Key: nil},
			Op{K: "newbatch", Idx: true}, Op{K: "bdel", H: 1, Key: nil}, Op{K: "bsize", H: 1}, Op{K: "bwrite", H: 1}, Op{K: "has", Src: "db", Key: nil}),
		// a failing Get callback on a snapshot, a batch and the store, then Close: nothing may stay pinned
		with(Op{K: "snap"}, Op{K: "get", Src: "s0", Key: k(0x02), Fail: true}, Op{K: "sclose"},
			Op{K: "newbatch", Idx: true}, Op{K: "get", Src: "b0", Key: k(0x02), Fail: true}, Op{K: "bclose"},
			Op{K: "get", Src: "db", Key: k(0x02), Fail: true}, Op{K: "close"}),
		with(Op{K: "newbatch", Idx: true}, Op{K: "close"}, Op{K: "get", Src: "db", Key: k(0)}, Op{K: "put", Key: k(0), Val: k(0)},
			Op{K: "bput", Key: k(1), Val: k(1)}, Op{K: "bwrite"}, Op{K: "update", Idx: true, Inner: []Op{{K: "put", Key: k(1), Val: k(1)}}},
			Op{K: "snap"}, Op{K: "close"}),
	}
}

// enumerate iterator positioning: every sequence of `depth` moves over a fixed store, per bound.
func positionSequences(depth int) [][]Op {
	base := []Op{{K: "put", Key: k(0x01), Val: k(1)}, {K: "put", Key: k(0x01, 0xff), Val: nil}, {K: "put", Key: k(0x02), Val: k(2)},
		{K: "put", Key: k(0xff), Val: k(3)}}
	moves := []Op{{K: "first"}, {K: "next"}, {K: "prev"}, {K: "seek", Key: nil}, {K: "seek", Key: k(0x01, 0xff)}, {K: "seek", Key: k(0x02, 0x00)},
		{K: "seek", Key: k(0xff, 0xff)}}
	var all [][]Op
	for _, bounds := range []Op{{K: "iter", Src: "db"}, {K: "iter", Src: "db", Key: k(0x01), U: true}, {K: "iter", Src: "db", Key: k(0x03), U: true}} {
		// one sequence per first move; the remaining moves are enumerated inside it with fresh iterators
		var rec func(prefix []int)
		var seqs [][]int
		rec = func(prefix []int) {
			if len(prefix) == depth {
				seqs = append(seqs, append([]int{}, prefix...))
				return
			}
			for m := range moves {
				rec(append(prefix, m))
			}
		}
		rec(nil)
		const perWorld = 200
		for s := 0; s < len(seqs); s += perWorld {
			ops := append([]Op{}, base...)
			h := 0
			for _, sq := range seqs[s:min(s+perWorld, len(seqs))] {
				ops = append(ops, bounds)
				for _, m := range sq {
					mv := moves[m]
					mv.H = h
					ops = append(ops, mv)
				}
				ops = append(ops, Op{K: "iclose", H: h})
				h++
			}
			all = append(all, ops)
		}
	}
	return all
}

// every prefix x withUpperBound x source over one store
func boundsSequences() [][]Op {
	var ops []Op
	for _, key := range keyAlphabet {
		ops = append(ops, Op{K: "put", Key: key, Val: key})
	}
	ops = append(ops, Op{K: "snap"}, Op{K: "newbatch", Idx: true}, Op{K: "bput", H: 0, Key: k(0x01, 0x02), Val: nil}, Op{K: "bdel", H: 0, Key: k(0xff)})
	for _, p := range append(append([][]byte{}, prefixAlphabet...), boundAlphabet...) {
		for _, u := range []bool{false, true} {
			for _, src := range []string{"db", "s0", "b0"} {
				ops = append(ops, Op{K: "scan", Src: src, Key: p, U: u})
			}
		}
	}
	return [][]Op{ops}
}

func fixOps(ops []Op) []Op {
	// corpus entries leave handle numbers 0
	return ops
}

// ---- main -------------------------------------------------------------------------------------

// finish removes the scratch root (only succeeds when it is empty) and writes the result.
func finish(f lib.Flags, res *lib.Result) {
	os.Remove(scratchRoot)
	lib.Finish(f, res)
}

func main() {
	f := lib.ParseFlags()
	res := lib.NewResult("op sequences of the db.KeyValueStore interface over a 16-key alphabet (empty key, keys extending keys, " +
		"0xff-terminated / all-0xff prefixes, empty values) run on db/memory, db/pebble, db/pebblev2 and the Lean Mem/Spec models; " +
		"non-trivial = distinct sequence with >= 8 ops that uses a batch, snapshot or iterator")
	// lib.NewRNG(s) and lib.NewRNG(s+1) are the same SplitMix stream shifted by one: scramble the seed
	// first so that different --seed values give unrelated sequences
	r := lib.NewRNG(lib.NewRNG(f.Seed*0x2545F4914F6CDD1D+0x9E3779B9).Uint64() ^ f.Seed<<32)
	drv, err := lib.StartDriver(f.Driver)
	if err != nil {
		res.Note("driver: %v", err)
		finish(f, res)
	}
	defer drv.Close()

	// A. dbutils.UpperBound against the model + its defining property on the real function
	upperBoundPhase(f, r, drv, res)

	// B. which variant of db/memory is this?
	cfg := probeCfg()
	res.Note("db/memory variant probed on the real code: %+v", cfg)
	if a, err := drv.Ask(cfg.Line()); err != nil || a != "ok" {
		res.Note("driver rejected cfg: %v %q", err, a)
		finish(f, res)
	}
	rn := &Runner{drv: drv, cfg: cfg, bufDefect: probeBufNil()}
	res.Note("db.BufferBatch nil-value defect present in this tree: %v", rn.bufDefect)

	runOne := func(ops []Op, label string) {
		sr, err := rn.Run(ops)
		if err != nil {
			res.Note("run: %v", err)
			return
		}
		nontrivial := false
		for _, o := range ops {
			if createsHandle(o) || o.K == "update" {
				nontrivial = true
			}
		}
		res.Case(strings.Join(lines(ops), "\n"), nontrivial && len(ops) >= 8)
		res.Hit("sequences:" + label)
		hitOps(res, ops)
		hitOutputs(res, sr)
		rn.account(res, ops, sr)
		res.Sample(6, map[string]any{"kind": label, "ops": lines(ops[:min(len(ops), 14)]), "memory": sr.Outs["memory"][:min(len(ops), 14)]})
	}

	if f.Replay != "" {
		var wrap struct {
			Replay Replay `json:"replay"`
		}
		b, err := os.ReadFile(f.Replay)
		if err == nil {
			err = json.Unmarshal(b, &wrap)
		}
		if err != nil || len(wrap.Replay.Ops) == 0 {
			res.Note("cannot read replay %s: %v", f.Replay, err)
			finish(f, res)
		}
		runOne(wrap.Replay.Ops, "replay")
		finish(f, res)
	}

	// C. directed corpus, exhaustive small spaces
	for _, ops := range corpus() {
		runOne(ops, "corpus")
	}
	for _, ops := range boundsSequences() {
		runOne(ops, "all-bounds")
	}
	for _, ops := range positionSequences(f.Scale(3, 4)) {
		runOne(ops, "all-position-sequences")
	}

	// D. random sequences; every 10th on a real directory
	n := f.Scale(700, 20000)
	for i := 0; i < n; i++ {
		rr := r.Fork(uint64(i))
		rn.disk = i%10 == 0
		allowF5 := i%7 == 3
		wild := i%3 == 1
		ops := genSequence(rr, rr.Range(8, 70), allowF5, wild)
		label := "random"
		if allowF5 {
			label = "random+store-changes-under-pending-deleterange"
		}
		runOne(ops, label)
	}
	rn.disk = false

	// E. thorough: one writer, concurrent snapshot / iterator readers
	if f.Thorough() {
		concurrencyPhase(f, r, res)
	} else {
		concurrencySmoke(r, res)
	}
	finish(f, res)
}

func genKey(r *lib.RNG) []byte {
	n := r.Intn(4)
	b := make([]byte, n)
	for i := range b {
		b[i] = lib.Pick(r, []byte{0x00, 0x01, 0x02, 0xfe, 0xff, 0xff})
	}
	return b
}

func upperBoundPhase(f lib.Flags, r *lib.RNG, drv *lib.Driver, res *lib.Result) {
	n := f.Scale(2000, 50000)
	for i := 0; i < n; i++ {
		p, key := genKey(r), genKey(r)
		ub := dbutils.UpperBound(p)
		implS := "nil"
		if ub != nil {
			implS = hx(ub)
		}
		modelS, err := drv.Ask("ub " + hx(p))
		if err != nil {
			res.Note("driver: %v", err)
			break
		}
		res.Compared(1)
		if modelS != implS {
			res.Mismatch(lib.Mismatch{Sig: "upperBound", Input: hx(p), Model: modelS, Impl: implS})
		}
		inRange := bytes.Compare(p, key) <= 0 && (ub == nil || bytes.Compare(key, ub) < 0)
		if bytes.HasPrefix(key, p) != inRange {
			res.Violate(lib.Violation{Sig: "upperbound-range-differs-from-prefix",
				What:   fmt.Sprintf("UpperBound(%x)=%x: key %x prefix=%v inRange=%v", p, ub, key, bytes.HasPrefix(key, p), inRange),
				Replay: map[string]string{"prefix": hx(p), "key": hx(key)}})
		}
		if ub == nil {
			res.Hit("ub=nil")
		} else {
			res.Hit(fmt.Sprintf("ub-len=%d", len(ub)))
		}
	}
}
