//go:build verif

package main

import (
	"encoding/binary"
	"fmt"
	"runtime"
	"sync"
	"sync/atomic"
	"time"

	"github.com/NethermindEth/juno/db"
	"verif/harness/lib"
)

// One writer commits version v = 1, 2, ... by rewriting the same 8 keys in ONE batch (plain batch,
// indexed batch, Update/Write helper, or DeleteRange + puts). Readers take a snapshot or an
// iterator and must see all 8 keys at one version v with  committed-before <= v <= started-after:
// a committed prefix of the writer's history, never a torn batch, never going backwards.

var concKeys = func() [][]byte {
	var ks [][]byte
	for i := 0; i < 8; i++ {
		ks = append(ks, []byte{0xc0, byte(i * 37)})
	}
	return ks
}()

func ver(v uint64) []byte { return binary.BigEndian.AppendUint64(nil, v) }

func commit(store db.KeyValueStore, r *lib.RNG, v uint64) error {
	order := r.Intn(len(concKeys))
	write := func(b db.Batch, withRange bool) error {
		if withRange {
			if err := b.DeleteRange([]byte{0xc0}, []byte{0xc1}); err != nil {
				return err
			}
		}
		for i := range concKeys {
			key := concKeys[(i+order)%len(concKeys)]
			if i%3 == 0 && !withRange {
				if err := b.Delete(key); err != nil {
					return err
				}
			}
			if err := b.Put(key, ver(v)); err != nil {
				return err
			}
		}
		return nil
	}
	switch r.Intn(5) {
	case 0:
		b := store.NewBatch()
		if err := write(b, false); err != nil {
			return err
		}
		return b.Write()
	case 1:
		b := store.NewIndexedBatch()
		if err := write(b, false); err != nil {
			return err
		}
		return b.Write()
	case 2:
		return store.Update(func(b db.IndexedBatch) error { return write(b, false) })
	case 3:
		return store.Write(func(b db.Batch) error { return write(b, false) })
	}
	b := store.NewBatch()
	if err := write(b, true); err != nil {
		return err
	}
	return b.Write()
}

// readVersion returns the single version visible through r (0 = nothing written yet) or an error text.
func readVersion(r db.KeyValueReader, useIter bool) (uint64, string) {
	var vs []uint64
	if useIter {
		it, err := r.NewIterator([]byte{0xc0}, true)
		if err != nil {
			return 0, "NewIterator: " + err.Error()
		}
		defer it.Close()
		n := 0
		for ok := it.First(); ok; ok = it.Next() {
			val, err := it.Value()
			if err != nil || len(val) != 8 {
				return 0, fmt.Sprintf("iterator value %x err %v", val, err)
			}
			vs = append(vs, binary.BigEndian.Uint64(val))
			n++
		}
		if n != 0 && n != len(concKeys) {
			return 0, fmt.Sprintf("iterator saw %d of %d keys", n, len(concKeys))
		}
	} else {
		missing := 0
		for _, key := range concKeys {
			err := r.Get(key, func(val []byte) error {
				if len(val) != 8 {
					return fmt.Errorf("value %x", val)
				}
				vs = append(vs, binary.BigEndian.Uint64(val))
				return nil
			})
			if err == db.ErrKeyNotFound {
				missing++
			} else if err != nil {
				return 0, "Get: " + err.Error()
			}
		}
		if missing != 0 && missing != len(concKeys) {
			return 0, fmt.Sprintf("%d of %d keys missing", missing, len(concKeys))
		}
	}
	if len(vs) == 0 {
		return 0, ""
	}
	for _, v := range vs {
		if v != vs[0] {
			return 0, fmt.Sprintf("mixed versions %v", vs)
		}
	}
	return vs[0], ""
}

func concurrentRun(b Backend, r *lib.RNG, commits, readers int, maxWait time.Duration, res *lib.Result) {
	store, clean, err := b.Open()
	if err != nil {
		res.Note("concurrency: open %s: %v", b.Name, err)
		return
	}
	defer clean()
	defer store.Close()
	var started, committed atomic.Uint64
	var done atomic.Bool
	var wg sync.WaitGroup
	var mu sync.Mutex
	var problem string
	report := func(s string) {
		mu.Lock()
		if problem == "" {
			problem = s
		}
		mu.Unlock()
	}
	reads := make([]int, readers)
	for i := 0; i < readers; i++ {
		wg.Add(1)
		rr := r.Fork(uint64(1000 + i))
		go func(i int) {
			defer wg.Done()
			last := uint64(0)
			for !done.Load() {
				lo := committed.Load()
				var v uint64
				var bad string
				kind := rr.Intn(3)
				err, panicked, _ := lib.Try(func() error {
					switch kind {
					case 0:
						s := store.NewSnapshot()
						v, bad = readVersion(s, rr.Bool())
						return s.Close()
					case 1:
						v, bad = readVersion(store, true) // one iterator = one consistent view
					default:
						ib := store.NewIndexedBatch()
						v, bad = readVersion(ib, true)
						return ib.Close()
					}
					return nil
				})
				hi := started.Load()
				switch {
				case panicked || err != nil:
					report(fmt.Sprintf("reader kind %d: %v", kind, err))
				case bad != "":
					report(fmt.Sprintf("reader kind %d saw a torn state: %s", kind, bad))
				case v < lo || v > hi:
					report(fmt.Sprintf("reader kind %d saw version %d outside [%d,%d]", kind, v, lo, hi))
				case v < last:
					report(fmt.Sprintf("reader kind %d went back from version %d to %d", kind, last, v))
				}
				last = v
				mu.Lock()
				reads[i]++
				mu.Unlock()
			}
		}(i)
	}
	totalReads := func() int {
		mu.Lock()
		defer mu.Unlock()
		n := 0
		for _, x := range reads {
			n += x
		}
		return n
	}
	t0 := time.Now()
	ok := lib.WithDeadline(10*time.Minute, func() {
		// at least `commits` commits; keep committing (bounded in time) until the readers have
		// completed 2*commits consistent views while the writer was running
		for v := uint64(1); v <= uint64(commits) || (totalReads() < 2*commits && time.Since(t0) < maxWait); v++ {
			started.Store(v)
			if err := commit(store, r, v); err != nil {
				report("writer: " + err.Error())
				break
			}
			committed.Store(v)
			if v%8 == 0 {
				runtime.Gosched()
			}
		}
	})
	done.Store(true)
	wg.Wait()
	if !ok {
		report("writer did not finish (deadlock?)")
	}
	total := 0
	for _, n := range reads {
		total += n
	}
	res.HitN("concurrent-reads:"+b.Name, total)
	res.HitN("concurrent-commits:"+b.Name, int(committed.Load()))
	res.Case(fmt.Sprintf("concurrent/%s/%d", b.Name, commits), true)
	if problem != "" {
		res.Violate(lib.Violation{Sig: "concurrent-reader-inconsistent:" + b.Name, What: problem,
			Replay: map[string]any{"backend": b.Name, "commits": commits, "readers": readers, "note": "schedule-dependent; re-run the thorough tier"}})
	}
}

func concurrencyPhase(f lib.Flags, r *lib.RNG, res *lib.Result) {
	for _, b := range []Backend{memoryBackend(), pebble1Backend(false), pebble2Backend(true), pebble2Backend(false)} {
		concurrentRun(b, r, 3000, 6, 90*time.Second, res)
	}
}

func concurrencySmoke(r *lib.RNG, res *lib.Result) {
	for _, b := range []Backend{memoryBackend(), pebble2Backend(false)} {
		concurrentRun(b, r, 200, 3, 4*time.Second, res)
	}
}
