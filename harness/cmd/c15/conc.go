//go:build verif

package main

import (
	"crypto/sha1"
	"encoding/binary"
	"encoding/hex"
	"encoding/json"
	"fmt"
	"os"
	"os/exec"
	"path/filepath"
	"runtime"
	"strings"
	"sync"
	"sync/atomic"
	"time"

	"github.com/NethermindEth/juno/db"
	"verif/harness/lib"
)

// Two writers with disjoint key families, each with its own batches (db/batch.go: "different batches
// can be used in different threads"):
//   - writer A commits version v = 1, 2, ... by rewriting the 8 keys c0.. in ONE batch (plain batch,
//     indexed batch, Update/Write helper, or DeleteRange + puts);
//   - writer B alternates, on the 8 keys c2.., a batch that writes them all at version v and a direct
//     store.DeleteRange over the whole family.
// Readers take a snapshot, an iterator or an indexed batch and must see, per family, either nothing
// (family B after a DeleteRange, family A before the first commit) or all 8 keys at ONE version v with
// committed-before <= v <= started-after: a committed prefix of that writer's history, never a torn
// batch, never going backwards.

type family struct {
	prefix             byte
	keys               [][]byte
	started, committed atomic.Uint64
}

func newFamily(prefix byte) *family {
	f := &family{prefix: prefix}
	for i := 0; i < 8; i++ {
		f.keys = append(f.keys, []byte{prefix, byte(i * 37)})
	}
	return f
}

func ver(v uint64) []byte { return binary.BigEndian.AppendUint64(nil, v) }

func (fam *family) commit(store db.KeyValueStore, r *lib.RNG, v uint64) error {
	order := r.Intn(len(fam.keys))
	write := func(b db.Batch, withRange bool) error {
		if withRange {
			if err := b.DeleteRange([]byte{fam.prefix}, []byte{fam.prefix + 1}); err != nil {
				return err
			}
		}
		for i := range fam.keys {
			key := fam.keys[(i+order)%len(fam.keys)]
			if i%3 == 0 && !withRange {
				if err := b.Delete(key); err != nil {
					return err
				}
			}
			if err := b.Put(key, ver(v)); err != nil {
				return err
			}
		}
		return nil
	}
	switch r.Intn(5) {
	case 0:
		b := store.NewBatch()
		if err := write(b, false); err != nil {
			return err
		}
		return b.Write()
	case 1:
		b := store.NewIndexedBatch()
		if err := write(b, false); err != nil {
			return err
		}
		return b.Write()
	case 2:
		return store.Update(func(b db.IndexedBatch) error { return write(b, false) })
	case 3:
		return store.Write(func(b db.Batch) error { return write(b, false) })
	}
	b := store.NewBatch()
	if err := write(b, true); err != nil {
		return err
	}
	return b.Write()
}

// readVersion returns the single version of the family visible through r (0 = no key) or an error text.
func (fam *family) readVersion(r db.KeyValueReader, useIter bool) (uint64, string) {
	var vs []uint64
	if useIter {
		it, err := r.NewIterator([]byte{fam.prefix}, true)
		if err != nil {
			return 0, "NewIterator: " + err.Error()
		}
		defer it.Close()
		n := 0
		for ok := it.First(); ok; ok = it.Next() {
			val, err := it.Value()
			if err != nil || len(val) != 8 {
				return 0, fmt.Sprintf("iterator value %x err %v", val, err)
			}
			vs = append(vs, binary.BigEndian.Uint64(val))
			n++
		}
		if n != 0 && n != len(fam.keys) {
			return 0, fmt.Sprintf("iterator saw %d of %d keys", n, len(fam.keys))
		}
	} else {
		missing := 0
		for _, key := range fam.keys {
			err := r.Get(key, func(val []byte) error {
				if len(val) != 8 {
					return fmt.Errorf("value %x", val)
				}
				vs = append(vs, binary.BigEndian.Uint64(val))
				return nil
			})
			if err == db.ErrKeyNotFound {
				missing++
			} else if err != nil {
				return 0, "Get: " + err.Error()
			}
		}
		if missing != 0 && missing != len(fam.keys) {
			return 0, fmt.Sprintf("%d of %d keys missing", missing, len(fam.keys))
		}
	}
	if len(vs) == 0 {
		return 0, ""
	}
	for _, v := range vs {
		if v != vs[0] {
			return 0, fmt.Sprintf("mixed versions %v", vs)
		}
	}
	return vs[0], ""
}

func concurrentRun(b Backend, r *lib.RNG, commits, readers int, maxWait time.Duration, res *lib.Result) {
	st, err := b.Open()
	if err != nil {
		res.Fatalf("concurrency: open %s: %v", b.Name, err)
		return
	}
	store := st.KV
	defer st.clean()
	defer store.Close()
	famA, famB := newFamily(0xc0), newFamily(0xc2)
	var done atomic.Bool
	var wg sync.WaitGroup
	var mu sync.Mutex
	var problem string
	report := func(s string) {
		mu.Lock()
		if problem == "" {
			problem = s
		}
		mu.Unlock()
	}
	var reads atomic.Int64
	for i := 0; i < readers; i++ {
		wg.Add(1)
		rr := r.Fork(uint64(1000 + i))
		go func() {
			defer wg.Done()
			lastA, lastB := uint64(0), uint64(0)
			for !done.Load() {
				loA, loB := famA.committed.Load(), famB.committed.Load()
				var vA, vB uint64
				var badA, badB string
				kind := rr.Intn(3)
				err, panicked, _ := lib.Try(func() error {
					switch kind {
					case 0:
						s := store.NewSnapshot()
						useIter := rr.Bool()
						vA, badA = famA.readVersion(s, useIter)
						vB, badB = famB.readVersion(s, useIter)
						return s.Close()
					case 1:
						// one iterator = one consistent view (per family)
						vA, badA = famA.readVersion(store, true)
						vB, badB = famB.readVersion(store, true)
					default:
						ib := store.NewIndexedBatch()
						vA, badA = famA.readVersion(ib, true)
						vB, badB = famB.readVersion(ib, true)
						return ib.Close()
					}
					return nil
				})
				hiA, hiB := famA.started.Load(), famB.started.Load()
				switch {
				case panicked || err != nil:
					report(fmt.Sprintf("reader kind %d: %v", kind, err))
				case badA != "" || badB != "":
					report(fmt.Sprintf("reader kind %d saw a torn state: %s %s", kind, badA, badB))
				case vA < loA || vA > hiA:
					report(fmt.Sprintf("reader kind %d saw version %d of family A outside [%d,%d]", kind, vA, loA, hiA))
				case vA < lastA:
					report(fmt.Sprintf("reader kind %d went back from version %d to %d (family A)", kind, lastA, vA))
				case vB != 0 && (vB > hiB || vB < lastB):
					// family B may be absent (0) at any time; when present it must be a version that was
					// started, and not older than the newest one this reader has already seen
					report(fmt.Sprintf("reader kind %d saw version %d of family B (started %d, seen before %d)", kind, vB, hiB, lastB))
				}
				_ = loB
				lastA = vA
				if vB != 0 {
					lastB = vB
				}
				reads.Add(1)
			}
		}()
	}
	// writer B
	wg.Add(1)
	rb := r.Fork(77)
	go func() {
		defer wg.Done()
		for v := uint64(1); !done.Load(); v++ {
			famB.started.Store(v)
			var err error
			if v%2 == 0 {
				err = store.DeleteRange([]byte{famB.prefix}, []byte{famB.prefix + 1})
			} else {
				err = famB.commit(store, rb, v)
			}
			if err != nil {
				report("writer B: " + err.Error())
				return
			}
			famB.committed.Store(v)
			if v%8 == 0 {
				runtime.Gosched()
			}
		}
	}()
	t0 := time.Now()
	ok := lib.WithDeadline(10*time.Minute, func() {
		// at least `commits` commits; keep committing (bounded in time) until the readers have
		// completed 2*commits consistent views while the writers were running
		for v := uint64(1); v <= uint64(commits) || (reads.Load() < int64(2*commits) && time.Since(t0) < maxWait); v++ {
			famA.started.Store(v)
			if err := famA.commit(store, r, v); err != nil {
				report("writer A: " + err.Error())
				break
			}
			famA.committed.Store(v)
			if v%8 == 0 {
				runtime.Gosched()
			}
		}
	})
	done.Store(true)
	wg.Wait()
	if !ok {
		res.Fatalf("concurrency on %s: writer did not finish within the harness deadline", b.Name)
	}
	res.HitN("concurrent-reads:"+b.Name, int(reads.Load()))
	res.HitN("concurrent-commits-A:"+b.Name, int(famA.committed.Load()))
	res.HitN("concurrent-commits-B:"+b.Name, int(famB.committed.Load()))
	res.Case(fmt.Sprintf("concurrent/%s/%d", b.Name, commits), true)
	if reads.Load() < int64(commits)/4 {
		res.Fatalf("concurrency on %s: only %d consistent views were taken while %d commits ran", b.Name, reads.Load(), commits)
	}
	if problem != "" {
		res.Violate(lib.Violation{Sig: "concurrent-reader-inconsistent:" + b.Name, What: problem,
			Replay: map[string]any{"backend": b.Name, "commits": commits, "readers": readers, "note": "schedule-dependent; re-run the thorough tier"}})
	}
}

func concurrencyPhase(f lib.Flags, r *lib.RNG, res *lib.Result) {
	for _, b := range []Backend{memoryBackend(), pebble1Backend(true), pebble2Backend(true), pebble1Backend(false), pebble2Backend(false)} {
		concurrentRun(b, r, 2000, 6, 60*time.Second, res)
	}
}

func concurrencySmoke(r *lib.RNG, res *lib.Result) {
	for _, b := range []Backend{memoryBackend(), pebble1Backend(false), pebble2Backend(false)} {
		concurrentRun(b, r, 200, 3, 30*time.Second, res)
	}
}

// concurrencyRaceChild (thorough tier): build this harness with -race and run its concurrency phase
// in a child process; a report of the race detector makes the child exit with status 66.
func concurrencyRaceChild(f lib.Flags, res *lib.Result) {
	repo := os.Getenv("VERIF_REPO")
	if repo == "" {
		repo = "/repo"
	}
	verif, _ := os.Getwd() // the check driver runs the harness with cwd = /verif
	if _, err := os.Stat(filepath.Join(verif, "harness", "go.mod")); err != nil {
		verif = "/verif"
	}
	args := []string{"build", "-race", "-tags", "verif"}
	tag := ""
	if repo != "/repo" {
		h := sha1.Sum([]byte(repo))
		tag = "-" + hex.EncodeToString(h[:])[:8]
		args = append(args, "-modfile="+filepath.Join(verif, ".build", "go"+tag+".mod"))
	}
	bin := filepath.Join(verif, ".build", "vh-c15-race"+tag)
	args = append(args, "-o", bin, "./cmd/c15")
	cmd := exec.Command("go", args...)
	cmd.Dir = filepath.Join(verif, "harness")
	if out, err := cmd.CombinedOutput(); err != nil {
		res.Fatalf("-race build of the harness failed: %v: %s", err, lastLines(string(out), 12))
		return
	}
	outPath := filepath.Join(verif, ".build", fmt.Sprintf("result-c15-race-%d.json", os.Getpid()))
	defer os.Remove(outPath)
	child := exec.Command(bin, "--conc-only", "--seed", fmt.Sprint(f.Seed), "--tier", f.Tier, "--out", outPath)
	child.Env = append(os.Environ(), "GORACE=halt_on_error=1 exitcode=66")
	out, err := child.CombinedOutput()
	if err != nil {
		if strings.Contains(string(out), "WARNING: DATA RACE") {
			res.Violate(lib.Violation{Sig: "data-race-in-concurrent-readers-writers", What: "the race detector fired in the concurrency phase",
				Replay: map[string]any{"report": lastLines(string(out), 60), "note": "schedule-dependent; re-run the thorough tier"}})
			return
		}
		res.Fatalf("-race child of the concurrency phase failed: %v: %s", err, lastLines(string(out), 12))
		return
	}
	b, err := os.ReadFile(outPath)
	var cr struct {
		Cases        int             `json:"cases"`
		Distribution map[string]int  `json:"distribution"`
		Violations   []lib.Violation `json:"violations"`
		Fatal        []string        `json:"fatal"`
	}
	if err == nil {
		err = json.Unmarshal(b, &cr)
	}
	if err != nil {
		res.Fatalf("-race child left no readable result: %v", err)
		return
	}
	for _, ft := range cr.Fatal {
		res.Fatalf("race child: %s", ft)
	}
	for _, v := range cr.Violations {
		res.Violate(v)
	}
	for k, n := range cr.Distribution {
		res.HitN("race-child:"+k, n)
	}
	for i := 0; i < cr.Cases; i++ {
		res.Case(fmt.Sprintf("race-child-%d", i), true)
	}
}

func lastLines(s string, n int) string {
	ls := strings.Split(strings.TrimSpace(s), "\n")
	if len(ls) > n {
		ls = ls[len(ls)-n:]
	}
	return strings.Join(ls, "\n")
}
