//go:build verif

package main

import (
	"encoding/hex"
	"fmt"
	"strings"
)

// Op is one operation of the storage interface. The same value is executed on every real
// backend (exec.go) and rendered as one protocol line for the Lean driver (Line).
//
//	put K V | del K | delrange S E                      direct writes on the store
//	get SRC K F | has SRC K | iter SRC P U | scan SRC P U  reads; SRC = db | bN | sN
//	newbatch IDX | bput B K V | bdel B K | bdelrange B S E | bsize B | bwrite B | bclose B
//	snap | sclose S
//	first I | next I | prev I | seek I K | value I | key I | iclose I
//	rscan SRC P U T | getw SRC K K2 V2 | reopen        (flush, xupdate: harness-only, no model line)
//	update IDX FAIL inner;inner;...                     db.Update (IDX=1) / db.Write (IDX=0)
//	bflush B                                            BufferBatch.Flush alone (bad-handle on any other batch)
//	psize P U                                           CalculatePrefixSize(P, U) (db/memory: the same loop over its iterator)
//	crash                                               power loss (unsynced file data is dropped) + restart; only on
//	                                                    the crashable file systems of the durability family
//	close
//	lnew KIND UNDER                                     db.NewBufferBatch (KIND=buf) / db.NewSyncBatch (KIND=sync) over
//	                                                    UNDER = bN (an indexed batch) | lM (an earlier layer): STACKS of
//	                                                    wrappers, several over one batch, over each other (ModelStack.lean)
//	lput L K V | ldel L K | ldelrange L S E | lget L K F | lhas L K | lscan L P U | lsize L | lwrite L | lclose L
//	                                                    the methods of db.IndexedBatch on layer L
//	lflush L                                            BufferBatch.Flush of layer L (bad-handle on a SyncBatch)
//
// Calls on a batch that was wrapped in db.BufferBatch are sent to the driver as the layered ops of
// ModelBuf.lean (newbuf, bufput, bufdel, bufget, bufflush, bufwrite, bufclose; bufother for the four
// methods that panic): see driverLines.
type Op struct {
	K     string `json:"k"`
	Src   string `json:"src,omitempty"` // db | b<N> | s<N>
	H     int    `json:"h,omitempty"`   // handle of batch / snapshot / iterator ops
	Key   []byte `json:"key,omitempty"` // key, range start, prefix or seek target
	Val   []byte `json:"val,omitempty"`
	End   []byte `json:"end,omitempty"`
	U     bool   `json:"u,omitempty"`    // withUpperBound
	Fail  bool   `json:"fail,omitempty"` // the callback returns an error
	Idx   bool   `json:"idx,omitempty"`  // indexed batch / Update (vs Write)
	NilB  bool   `json:"nil,omitempty"`  // pass nil instead of []byte{} for empty byte strings
	Wrap  string `json:"wrap,omitempty"` // newbatch: "" | "sync" (db.SyncBatch) | "buffer" (db.BufferBatch) around an indexed batch
	Key2  []byte `json:"key2,omitempty"` // getw: key written by the callback; rscan: seek target
	Inner []Op   `json:"inner,omitempty"`
	// probe: set on the `scan db` the runner inserts after every op that may change the store (the
	// store-level state is compared after every such op, not only when the sequence reads it); holds
	// the kind of the op it follows
	probe string
}

func hx(b []byte) string {
	if len(b) == 0 {
		return "-"
	}
	return hex.EncodeToString(b)
}

func b01(b bool) string {
	if b {
		return "1"
	}
	return "0"
}

// Line renders the op in the driver's line protocol.
func (o Op) Line() string {
	switch o.K {
	case "put":
		return "put " + hx(o.Key) + " " + hx(o.Val)
	case "del":
		return "del " + hx(o.Key)
	case "delrange":
		return "delrange " + hx(o.Key) + " " + hx(o.End)
	case "get":
		return "get " + o.Src + " " + hx(o.Key) + " " + b01(o.Fail)
	case "has":
		return "has " + o.Src + " " + hx(o.Key)
	case "iter", "scan":
		return o.K + " " + o.Src + " " + hx(o.Key) + " " + b01(o.U)
	case "rscan":
		return "rscan " + o.Src + " " + hx(o.Key) + " " + b01(o.U) + " " + hx(o.Key2)
	case "getw":
		return "getw " + o.Src + " " + hx(o.Key) + " " + hx(o.Key2) + " " + hx(o.Val)
	case "reopen", "crash":
		return "reopen" // (in the models both are "nothing happens": every acknowledged write is durable)
	case "bflush":
		return fmt.Sprintf("bufflush %d", o.H)
	case "psize":
		return "psize " + hx(o.Key) + " " + b01(o.U)
	case "lnew":
		return "lnew " + o.Wrap + " " + o.Src
	case "lput":
		return fmt.Sprintf("lput %d %s %s", o.H, hx(o.Key), hx(o.Val))
	case "ldel":
		return fmt.Sprintf("ldel %d %s", o.H, hx(o.Key))
	case "ldelrange":
		return fmt.Sprintf("ldelrange %d %s %s", o.H, hx(o.Key), hx(o.End))
	case "lget":
		return fmt.Sprintf("lget %d %s %s", o.H, hx(o.Key), b01(o.Fail))
	case "lhas":
		return fmt.Sprintf("lhas %d %s", o.H, hx(o.Key))
	case "lscan":
		return fmt.Sprintf("lscan %d %s %s", o.H, hx(o.Key), b01(o.U))
	case "lsize", "lwrite", "lclose", "lflush":
		return fmt.Sprintf("%s %d", o.K, o.H)
	case "flush", "xupdate", "path":
		return "" // harness-only: no effect in the models / not modelled (compared backend against backend)
	case "newbatch":
		return "newbatch " + b01(o.Idx)
	case "bput":
		return fmt.Sprintf("bput %d %s %s", o.H, hx(o.Key), hx(o.Val))
	case "bdel":
		return fmt.Sprintf("bdel %d %s", o.H, hx(o.Key))
	case "bdelrange":
		return fmt.Sprintf("bdelrange %d %s %s", o.H, hx(o.Key), hx(o.End))
	case "bsize", "bwrite", "bclose", "sclose", "first", "next", "prev", "value", "key", "iclose":
		return fmt.Sprintf("%s %d", o.K, o.H)
	case "seek":
		return fmt.Sprintf("seek %d %s", o.H, hx(o.Key))
	case "snap", "close":
		return o.K
	case "update":
		parts := make([]string, 0, len(o.Inner))
		for _, in := range o.Inner {
			switch in.K {
			case "put":
				parts = append(parts, "put:"+hx(in.Key)+":"+hx(in.Val))
			case "del":
				parts = append(parts, "del:"+hx(in.Key))
			case "delrange":
				parts = append(parts, "delrange:"+hx(in.Key)+":"+hx(in.End))
			case "get":
				parts = append(parts, "get:"+hx(in.Key)+":"+b01(in.Fail))
			case "has":
				parts = append(parts, "has:"+hx(in.Key))
			case "scan":
				parts = append(parts, "scan:"+hx(in.Key)+":"+b01(in.U))
			default:
				parts = append(parts, "bad")
			}
		}
		s := "."
		if len(parts) > 0 {
			s = strings.Join(parts, ";")
		}
		return "update " + b01(o.Idx) + " " + b01(o.Fail) + " " + s
	}
	return "bad"
}

func (o Op) String() string { return o.Line() }

func lines(ops []Op) []string {
	out := make([]string, len(ops))
	for i, o := range ops {
		out[i] = o.Line()
		if out[i] == "" {
			out[i] = "(" + o.K + " " + o.Src + ")"
		}
		if o.K == "crash" {
			out[i] = "crash" // (the models see a reopen)
		}
	}
	return out
}

// driverLines renders the ops for the Lean driver; calls on a db.BufferBatch become the layered ops
// of ModelBuf.lean ("" = harness-only op, no line).
func driverLines(ops []Op) []string {
	out := make([]string, len(ops))
	var isBuf []bool
	buf := func(h int) bool { return h >= 0 && h < len(isBuf) && isBuf[h] }
	for i, o := range ops {
		out[i] = o.Line()
		switch o.K {
		case "newbatch":
			isBuf = append(isBuf, o.Idx && o.Wrap == "buffer")
			if o.Idx && o.Wrap == "buffer" {
				out[i] = "newbuf"
			}
		case "bput":
			if buf(o.H) {
				out[i] = fmt.Sprintf("bufput %d %s %s", o.H, hx(o.Key), hx(o.Val))
			}
		case "bdel":
			if buf(o.H) {
				out[i] = fmt.Sprintf("bufdel %d %s", o.H, hx(o.Key))
			}
		case "bwrite":
			if buf(o.H) {
				out[i] = fmt.Sprintf("bufwrite %d", o.H)
			}
		case "bclose":
			if buf(o.H) {
				out[i] = fmt.Sprintf("bufclose %d", o.H)
			}
		case "bsize", "bdelrange":
			if buf(o.H) {
				out[i] = fmt.Sprintf("bufother %d", o.H)
			}
		case "get", "has", "scan", "rscan":
			if h, ok := bufSrc(o.Src); ok && buf(h) {
				if o.K == "get" {
					out[i] = fmt.Sprintf("bufget %d %s %s", h, hx(o.Key), b01(o.Fail))
				} else {
					out[i] = fmt.Sprintf("bufother %d", h)
				}
			}
		}
	}
	return out
}

// bufSrc: the batch handle of a reader source "b<N>"
func bufSrc(src string) (int, bool) {
	if !strings.HasPrefix(src, "b") {
		return 0, false
	}
	var h int
	if _, err := fmt.Sscanf(src[1:], "%d", &h); err != nil {
		return 0, false
	}
	return h, true
}
