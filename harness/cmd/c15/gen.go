//go:build verif

package main

import (
	"fmt"

	"verif/harness/lib"
)

// Small alphabets that force the edge cases named in the property: the empty key, keys that
// extend other keys, 0xff-terminated and all-0xff prefixes, empty values.
var (
	keyAlphabet = [][]byte{
		{}, {0x00}, {0x00, 0x00}, {0x01}, {0x01, 0x00}, {0x01, 0x01}, {0x01, 0xff}, {0x01, 0xff, 0x00},
		{0x02}, {0xfe}, {0xfe, 0xff}, {0xff}, {0xff, 0x00}, {0xff, 0xfe}, {0xff, 0xff}, {0xff, 0xff, 0x01},
	}
	valAlphabet    = [][]byte{{}, {0x00}, {0xaa}, {0xbb, 0xcc}, {0xff}}
	// (0xff-terminated prefixes: the bound is CUT after the incremented byte — {0x01,0xff} -> {0x02} —, and the
	// key alphabet holds the key that IS that bound and keys right above it)
	prefixAlphabet = [][]byte{{}, {0x00}, {0x01}, {0x01, 0xff}, {0x02}, {0xfe}, {0xff}, {0xff, 0xff}, {0x01, 0x01}, {0x03},
		{0x00, 0xff}, {0xfe, 0xff}, {0x01, 0xff, 0xff}, {0xfe, 0xff, 0xff}, {0x01, 0xfe, 0xff}}
	boundAlphabet  = [][]byte{
		{}, {0x00}, {0x01}, {0x01, 0x00}, {0x01, 0xff}, {0x01, 0xff, 0xff}, {0x02}, {0x03}, {0xfe}, {0xff},
		{0xff, 0xff}, {0xff, 0xff, 0xff},
	}
)

type genBatch struct {
	live, idx, hasRange bool
	buffer              bool // wrapped in db.BufferBatch: only Put / Delete / Get / Write / Close exist
}

// Gen produces op sequences and keeps just enough bookkeeping to use handles sensibly.
type Gen struct {
	r       *lib.RNG
	batches []genBatch
	snaps   []bool // live
	iters   []bool // live
	iterSrc []string
	closed  bool
	allowF5 bool // may change the store while a live batch holds a materialised DeleteRange
	getw    bool // Get callbacks that write to the store (only when db/memory calls back outside its lock)
}

func (g *Gen) key() []byte    { return lib.Pick(g.r, keyAlphabet) }
func (g *Gen) val() []byte    { return lib.Pick(g.r, valAlphabet) }
func (g *Gen) bound() []byte  { return lib.Pick(g.r, boundAlphabet) }
func (g *Gen) prefix() []byte { return lib.Pick(g.r, prefixAlphabet) }

func (g *Gen) iterArgs() ([]byte, bool) { return g.prefix(), g.r.Chance(2, 3) }

func pickLive(r *lib.RNG, live []bool) int {
	var c []int
	for i, l := range live {
		if l {
			c = append(c, i)
		}
	}
	if len(c) == 0 {
		return -1
	}
	return lib.Pick(r, c)
}

func (g *Gen) liveBatch(needIdx bool) int { return g.liveBatchX(needIdx, true) }

func (g *Gen) liveBatchX(needIdx, allowBuffer bool) int {
	var c []int
	for i, b := range g.batches {
		if b.live && (!needIdx || b.idx) && (allowBuffer || !b.buffer) {
			c = append(c, i)
		}
	}
	if len(c) == 0 {
		return -1
	}
	return lib.Pick(g.r, c)
}

// iterFrom: is there a live iterator created from src?
func (g *Gen) iterFrom(src string) bool {
	for i, l := range g.iters {
		if l && g.iterSrc[i] == src {
			return true
		}
	}
	return false
}

func (g *Gen) pendingRange(except int) bool {
	for i, b := range g.batches {
		if i != except && b.live && b.hasRange {
			return true
		}
	}
	return false
}

func (g *Gen) src() string { return g.srcX(false) }

func (g *Gen) srcX(allowBuffer bool) string {
	switch g.r.Intn(10) {
	case 0, 1, 2:
		if b := g.liveBatchX(true, allowBuffer); b >= 0 {
			return fmt.Sprintf("b%d", b)
		}
	case 3, 4:
		if s := pickLive(g.r, g.snaps); s >= 0 {
			return fmt.Sprintf("s%d", s)
		}
	}
	return "db"
}

func (g *Gen) inner(idx bool) []Op {
	n := g.r.Intn(6)
	var ops []Op
	for i := 0; i < n; i++ {
		nb := g.r.Chance(1, 4)
		switch c := g.r.Intn(10); {
		case c < 3:
			ops = append(ops, Op{K: "put", Key: g.key(), Val: g.val(), NilB: nb})
		case c < 5:
			ops = append(ops, Op{K: "del", Key: g.key(), NilB: nb})
		case c < 6:
			ops = append(ops, Op{K: "delrange", Key: g.bound(), End: g.bound(), NilB: nb})
		case !idx:
			ops = append(ops, Op{K: "put", Key: g.key(), Val: g.val(), NilB: nb})
		case c < 8:
			ops = append(ops, Op{K: "get", Key: g.key(), Fail: g.r.Chance(1, 5), NilB: nb})
		case c < 9:
			ops = append(ops, Op{K: "has", Key: g.key(), NilB: nb})
		default:
			p, u := g.iterArgs()
			ops = append(ops, Op{K: "scan", Key: p, U: u, NilB: nb})
		}
	}
	return ops
}

// Next returns the next op of the sequence.
func (g *Gen) Next() Op {
	nb := g.r.Chance(1, 4)
	if g.closed {
		switch g.r.Intn(12) {
		case 0:
			return Op{K: "get", Src: "db", Key: g.key()}
		case 1:
			return Op{K: "has", Src: "db", Key: g.key()}
		case 2:
			return Op{K: "put", Key: g.key(), Val: g.val()}
		case 3:
			return Op{K: "del", Key: g.key()}
		case 4:
			return Op{K: "delrange", Key: g.bound(), End: g.bound()}
		case 5:
			if g.r.Bool() {
				return Op{K: "psize", Key: g.prefix(), U: g.r.Bool()}
			}
			return Op{K: "scan", Src: "db", Key: nil, U: false}
		case 6:
			g.iters = append(g.iters, false)
			g.iterSrc = append(g.iterSrc, "db")
			return Op{K: "iter", Src: "db", Key: nil, U: false}
		case 7:
			g.batches = append(g.batches, genBatch{live: true, idx: g.r.Bool()})
			return Op{K: "newbatch", Idx: g.batches[len(g.batches)-1].idx}
		case 8:
			if b := g.liveBatchX(false, false); b >= 0 {
				return Op{K: "bput", H: b, Key: g.key(), Val: g.val()}
			}
		case 9:
			// (a db.BufferBatch whose Write failed has dropped its map and panics on the next Put:
			// use after a failed Write on a closed store is not exercised for that wrapper)
			if b := g.liveBatchX(false, false); b >= 0 {
				return Op{K: "bwrite", H: b}
			}
		case 10:
			return Op{K: "update", Idx: g.r.Bool(), Fail: g.r.Bool(), Inner: []Op{{K: "put", Key: g.key(), Val: g.val()}}}
		}
		return Op{K: "snap"} // panics on every backend
	}
	for {
		switch c := g.r.Intn(100); {
		case c < 12:
			if !g.allowF5 && g.pendingRange(-1) {
				continue
			}
			return Op{K: "put", Key: g.key(), Val: g.val(), NilB: nb}
		case c < 16:
			if !g.allowF5 && g.pendingRange(-1) {
				continue
			}
			return Op{K: "del", Key: g.key(), NilB: nb}
		case c < 19:
			if !g.allowF5 && g.pendingRange(-1) {
				continue
			}
			return Op{K: "delrange", Key: g.bound(), End: g.bound(), NilB: nb}
		case c < 27:
			if g.getw && g.r.Chance(1, 6) && (g.allowF5 || !g.pendingRange(-1)) {
				src := g.src()
				if src[0] == 's' {
					src = "db"
				}
				return Op{K: "getw", Src: src, Key: g.key(), Key2: g.key(), Val: g.val()}
			}
			return Op{K: "get", Src: g.srcX(true), Key: g.key(), Fail: g.r.Chance(1, 6), NilB: nb}
		case c < 31:
			return Op{K: "has", Src: g.src(), Key: g.key(), NilB: nb}
		case c < 38:
			p, u := g.iterArgs()
			if g.r.Chance(1, 8) {
				return Op{K: "psize", Key: p, U: u, NilB: nb}
			}
			if g.r.Chance(1, 40) {
				return Op{K: "path"}
			}
			if g.r.Chance(1, 4) {
				return Op{K: "rscan", Src: g.src(), Key: p, U: u, Key2: g.bound(), NilB: nb}
			}
			return Op{K: "scan", Src: g.src(), Key: p, U: u, NilB: nb}
		case c < 43:
			p, u := g.iterArgs()
			src := g.src()
			g.iters = append(g.iters, true)
			g.iterSrc = append(g.iterSrc, src)
			return Op{K: "iter", Src: src, Key: p, U: u, NilB: nb}
		case c < 47:
			idx := g.r.Chance(2, 3)
			wrap := ""
			if idx {
				wrap = lib.Pick(g.r, []string{"", "", "", "sync", "buffer"})
			}
			g.batches = append(g.batches, genBatch{live: true, idx: idx, buffer: wrap == "buffer"})
			return Op{K: "newbatch", Idx: idx, U: g.r.Chance(1, 4), Key2: []byte{byte(g.r.Intn(12))}, Wrap: wrap}
		case c < 55:
			if b := g.liveBatch(false); b >= 0 {
				if g.batches[b].buffer && g.r.Chance(1, 4) {
					return Op{K: "bflush", H: b}
				}
				return Op{K: "bput", H: b, Key: g.key(), Val: g.val(), NilB: nb}
			}
		case c < 59:
			if b := g.liveBatch(false); b >= 0 {
				return Op{K: "bdel", H: b, Key: g.key(), NilB: nb}
			}
		case c < 62:
			if b := g.liveBatchX(false, false); b >= 0 {
				g.batches[b].hasRange = true
				return Op{K: "bdelrange", H: b, Key: g.bound(), End: g.bound(), NilB: nb}
			}
		case c < 64:
			// db.BufferBatch: Flush alone (the entries reach the wrapped batch, the map stays), and now
			// and then one of the four methods that panic
			if g.r.Chance(1, 2) {
				for i, b := range g.batches {
					if b.live && b.buffer {
						src := fmt.Sprintf("b%d", i)
						return lib.Pick(g.r, []Op{{K: "bflush", H: i}, {K: "bflush", H: i}, {K: "bflush", H: i}, {K: "bflush", H: i},
							{K: "bsize", H: i}, {K: "bdelrange", H: i, Key: g.bound(), End: g.bound()},
							{K: "has", Src: src, Key: g.key()}, {K: "scan", Src: src}})
					}
				}
			}
			if len(g.batches) > 0 {
				if h := g.r.Intn(len(g.batches)); !g.batches[h].buffer {
					return Op{K: "bsize", H: h}
				}
			}
		case c < 68:
			if b := g.liveBatch(false); b >= 0 {
				if (!g.allowF5 && g.pendingRange(b)) || g.iterFrom(fmt.Sprintf("b%d", b)) {
					continue
				}
				g.batches[b].live = false
				return Op{K: "bwrite", H: b}
			}
		case c < 69:
			if b := g.liveBatch(false); b >= 0 && !g.iterFrom(fmt.Sprintf("b%d", b)) {
				g.batches[b].live = false
				return Op{K: "bclose", H: b}
			}
		case c < 70:
			// use of a batch after Write/Close: every call must fail
			for i, b := range g.batches {
				if !b.live && !b.buffer {
					return lib.Pick(g.r, []Op{{K: "bput", H: i, Key: g.key(), Val: g.val()}, {K: "bdel", H: i, Key: g.key()},
						{K: "bdelrange", H: i, Key: g.bound(), End: g.bound()}, {K: "bwrite", H: i}, {K: "bclose", H: i},
						{K: "get", Src: fmt.Sprintf("b%d", i), Key: g.key()}})
				}
			}
		case c < 71:
			// (outside the contract) a batch that was not created indexed is read anyway
			for i, b := range g.batches {
				if b.live && !b.idx && g.r.Bool() {
					return lib.Pick(g.r, []Op{{K: "get", Src: fmt.Sprintf("b%d", i), Key: g.key()}, {K: "has", Src: fmt.Sprintf("b%d", i), Key: g.key()}})
				}
			}
			// reopen / flush when nothing is live
			if pickLive(g.r, g.iters) < 0 && pickLive(g.r, g.snaps) < 0 && g.liveBatch(false) < 0 {
				return Op{K: "reopen", U: g.r.Bool()}
			}
			return Op{K: "flush"}
		case c < 73:
			g.snaps = append(g.snaps, true)
			return Op{K: "snap"}
		case c < 74:
			if s := pickLive(g.r, g.snaps); s >= 0 && !g.iterFrom(fmt.Sprintf("s%d", s)) {
				g.snaps[s] = false
				return Op{K: "sclose", H: s}
			}
		case c < 92:
			if i := pickLive(g.r, g.iters); i >= 0 {
				switch m := g.r.Intn(20); {
				case m < 3:
					return Op{K: "first", H: i}
				case m < 9:
					return Op{K: "next", H: i}
				case m < 14:
					return Op{K: "prev", H: i}
				case m < 18:
					return Op{K: "seek", H: i, Key: g.bound(), NilB: nb}
				case m < 19:
					return lib.Pick(g.r, []Op{{K: "value", H: i}, {K: "value", H: i, U: true}, {K: "key", H: i}, {K: "key", H: i}})
				default:
					g.iters[i] = false
					return Op{K: "iclose", H: i}
				}
			}
		case c < 97:
			if !g.allowF5 && g.pendingRange(-1) {
				continue
			}
			idx := g.r.Chance(2, 3)
			return Op{K: "update", Idx: idx, Fail: g.r.Chance(1, 3), Inner: g.inner(idx)}
		case c < 98:
			// iterator after Close: positioning calls panic, Value/Close return an error
			for i, l := range g.iters {
				if !l {
					return lib.Pick(g.r, []Op{{K: "first", H: i}, {K: "next", H: i}, {K: "prev", H: i},
						{K: "seek", H: i, Key: g.key()}, {K: "value", H: i}, {K: "iclose", H: i}})
				}
			}
		default:
			// Close only when no reader is live (Pebble refuses to close with open iterators/snapshots)
			if pickLive(g.r, g.iters) < 0 && pickLive(g.r, g.snaps) < 0 && g.r.Chance(1, 3) {
				g.closed = true
				return Op{K: "close"}
			}
		}
	}
}

// Sequence generates one op sequence of the given length.
func genSequence(r *lib.RNG, n int, allowF5, getw bool) []Op {
	g := &Gen{r: r, allowF5: allowF5, getw: getw}
	// start from a populated store most of the time
	var ops []Op
	for i, m := 0, r.Intn(7); i < m; i++ {
		ops = append(ops, Op{K: "put", Key: g.key(), Val: g.val()})
	}
	for len(ops) < n {
		ops = append(ops, g.Next())
	}
	return ops
}
