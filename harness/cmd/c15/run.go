//go:build verif

package main

import (
	"bytes"
	"encoding/hex"
	"fmt"
	"strings"
	"sync"
	"time"

	"verif/harness/lib"
)

// ---- ways in which a backend is KNOWN to leave the contract (each with its own narrow Sig) -------
//
// A divergence between db/memory and Pebble is filed under one of these only when the Lean
// transcription of db/memory (`Mem`) predicts exactly the output the real db/memory gave — i.e. the
// real code behaves as transcribed — and the transcription is outside its proved boundary for
// exactly that reason (`f5Free` failed earlier in the sequence / `memOK` fails on this op).
// Theorem `memory_equals_pebble_partial` says the transcription cannot differ from the Pebble
// wrappers for any other reason. Everything else is `<a>-differs-from-<b>:<op>` (unlisted).
const (
	sigBatchDR   = "memory-batch-deleterange-materialised-at-call-time"
	sigReentrant = "memory-get-callback-write-deadlocks"
)

// Cfg: which variant of db/memory the tree holds. CbUnlocked: Get calls back outside the store lock.
// RangeLog: batch.DeleteRange records the range itself (Lean `mem2Impl`, ModelRange.lean) instead of a
// Delete per key visible at call time (Lean `memImpl`, finding F5).
type Cfg struct{ CbUnlocked, RangeLog bool }

func (c Cfg) Line() string { return "cfg " + b01(c.CbUnlocked) + " " + b01(c.RangeLog) }

// probeCfg asks the real db/memory whether a Get callback may write to the store, and whether a
// batch's DeleteRange deletes a key that reaches the store between the call and Write.
func probeCfg() (Cfg, error) {
	var c Cfg
	w2, err := NewWorld(memoryBackend())
	if err != nil {
		return Cfg{}, err
	}
	defer w2.Dispose()
	for _, o := range []Op{{K: "newbatch"}, {K: "bdelrange", End: []byte{0xff}}, {K: "put", Key: []byte{1}, Val: []byte{9}}, {K: "bwrite"}} {
		w2.Exec(o)
	}
	switch out := w2.Exec(Op{K: "has", Src: "db", Key: []byte{1}}); out {
	case "false":
		c.RangeLog = true
	case "true":
	default:
		return Cfg{}, fmt.Errorf("probe of db/memory batch.DeleteRange answered %q", out)
	}
	// (last: on the locked variant the call never returns and keeps the store's lock)
	w, err := NewWorld(memoryBackend())
	if err != nil {
		return Cfg{}, err
	}
	defer w.Dispose()
	w.Exec(Op{K: "put", Key: []byte{1}, Val: []byte{1}})
	switch out := w.Exec(Op{K: "getw", Src: "db", Key: []byte{1}, Key2: []byte{2}, Val: []byte{2}}); out {
	case "val:01":
		c.CbUnlocked = true
	case "hang":
	default:
		return Cfg{}, fmt.Errorf("probe of db/memory re-entrancy answered %q", out)
	}
	return c, nil
}

// ---- the documented contract, Go side (mirror of `documented` in Model.lean; cross-checked
// against the driver's flag on every op, so the two cannot drift apart silently) ------------------

type tBatch struct{ live, idx, hasRange, buf bool }
type tIter struct {
	live, valid, orphan bool
	origin              string
	prefix              []byte // NewIterator(prefix, ub)
	ub                  bool
}

// tLayer: a db.BufferBatch / db.SyncBatch made by lnew; base = the batch at the bottom of its chain
type tLayer struct {
	ok   bool
	base int
}

type tracker struct {
	open    bool
	layers  []tLayer
	batches []tBatch
	snaps   []int // 0 = no such handle (creation failed), 1 = live, 2 = closed
	iters   []tIter
	offRail bool // an undocumented Close / Reopen happened: backends are no longer comparable
}

func newTracker() *tracker { return &tracker{open: true} }

func srcHandle(src string) int {
	var h int
	fmt.Sscanf(src[1:], "%d", &h)
	return h
}

func (t *tracker) srcOK(src string) bool {
	switch {
	case src == "db":
		return true
	case strings.HasPrefix(src, "b"):
		h := srcHandle(src)
		if !t.open {
			return false
		}
		if h < len(t.batches) && t.batches[h].live {
			return t.batches[h].idx
		}
		return true
	case strings.HasPrefix(src, "s"):
		h := srcHandle(src)
		if !t.open {
			return false
		}
		return !(h < len(t.snaps) && t.snaps[h] == 2)
	}
	return false
}

func (t *tracker) liveIterFrom(src string) bool {
	for _, it := range t.iters {
		if it.live && it.origin == src {
			return true
		}
	}
	return false
}

func (t *tracker) anyLive() (iters, snaps, batches bool) {
	for _, it := range t.iters {
		iters = iters || it.live
	}
	for _, s := range t.snaps {
		snaps = snaps || s == 1
	}
	for _, b := range t.batches {
		batches = batches || b.live
	}
	return
}

// bufOther: one of the four db.BufferBatch methods that panic ("should not be called")
func (t *tracker) bufOther(o Op) bool {
	h := -1
	switch o.K {
	case "bsize", "bdelrange":
		h = o.H
	case "has", "scan", "rscan":
		if x, ok := bufSrc(o.Src); ok {
			h = x
		}
	}
	return h >= 0 && h < len(t.batches) && t.batches[h].buf
}

func (t *tracker) documented(o Op) bool {
	if t.bufOther(o) {
		return true // (mirrors `xdocumented` of the driver)
	}
	if isLayerOp(o) {
		// (mirrors `sdocumented` / `ldocumented`: the predicate of the same call on the batch at the bottom)
		if o.K == "lnew" || o.K == "lflush" || o.H < 0 || o.H >= len(t.layers) || !t.layers[o.H].ok {
			return true
		}
		return t.documented(baseOpOf(o, t.layers[o.H].base))
	}
	switch o.K {
	case "get", "has", "iter", "scan", "rscan":
		return t.srcOK(o.Src)
	case "getw":
		return t.srcOK(o.Src) && !strings.HasPrefix(o.Src, "s")
	case "bdelrange":
		return t.open
	case "bsize":
		if o.H < len(t.batches) && t.batches[o.H].live {
			return !t.batches[o.H].hasRange
		}
		return true
	case "bwrite", "bclose":
		return !t.liveIterFrom(fmt.Sprintf("b%d", o.H))
	case "sclose":
		return t.open && !t.liveIterFrom(fmt.Sprintf("s%d", o.H))
	case "first", "seek", "iclose", "next", "prev":
		return t.open
	case "value", "key":
		if !t.open {
			return false
		}
		if o.H < len(t.iters) && t.iters[o.H].live {
			return t.iters[o.H].valid
		}
		return true
	case "reopen", "crash":
		i, s, b := t.anyLive()
		return !i && !s && !b
	case "close":
		i, s, _ := t.anyLive()
		return !i && !s
	}
	return true
}

// comparable: is the outcome of this op on the real backends comparable backend against backend?
// (documented, and not on an iterator whose batch / snapshot was closed under it)
func (t *tracker) comparable(o Op) bool {
	if t.offRail {
		return false
	}
	switch o.K {
	case "first", "next", "prev", "seek", "value", "key", "iclose":
		if o.H < len(t.iters) && t.iters[o.H].orphan {
			return false
		}
	}
	return t.documented(o)
}

// after: bookkeeping once the op ran; ref = what the reference backend (pebble v2) answered.
func (t *tracker) after(o Op, documented bool, ref string) {
	switch o.K {
	case "lnew":
		l := tLayer{}
		if h, ok := handleOf(o.Src, 'b'); ok {
			l = tLayer{ok: h < len(t.batches), base: h}
		} else if h, ok := handleOf(o.Src, 'l'); ok && h < len(t.layers) {
			l = t.layers[h]
		}
		t.layers = append(t.layers, l)
	case "lwrite", "lclose", "ldelrange":
		// the call reached the batch at the bottom iff it answered ok (a buffer on the way panics on
		// DeleteRange; a failed Flush or a closed batch / store leaves the batch as it was)
		if o.H >= 0 && o.H < len(t.layers) && t.layers[o.H].ok && ref == "ok" {
			t.after(baseOpOf(o, t.layers[o.H].base), documented, ref)
		}
	case "newbatch":
		t.batches = append(t.batches, tBatch{live: true, idx: o.Idx, buf: o.Idx && o.Wrap == "buffer"})
	case "bdelrange":
		if o.H < len(t.batches) && t.batches[o.H].live && !t.batches[o.H].buf {
			t.batches[o.H].hasRange = true
		}
	case "bwrite", "bclose":
		if !documented {
			for i := range t.iters {
				if t.iters[i].live && t.iters[i].origin == fmt.Sprintf("b%d", o.H) {
					t.iters[i].orphan = true
				}
			}
		}
		if o.H < len(t.batches) && (o.K == "bclose" || t.open) {
			t.batches[o.H].live = false
		}
	case "snap":
		if t.open {
			t.snaps = append(t.snaps, 1)
		}
	case "sclose":
		if !documented {
			for i := range t.iters {
				if t.iters[i].live && t.iters[i].origin == fmt.Sprintf("s%d", o.H) {
					t.iters[i].orphan = true
				}
			}
		}
		if o.H < len(t.snaps) && t.snaps[o.H] == 1 {
			t.snaps[o.H] = 2
		}
	case "iter":
		t.iters = append(t.iters, tIter{live: strings.HasPrefix(ref, "h:"), origin: o.Src, prefix: o.Key, ub: o.U})
	case "first", "next", "prev", "seek":
		if o.H < len(t.iters) && t.iters[o.H].live {
			t.iters[o.H].valid = !strings.HasSuffix(ref, "invalid") && strings.Contains(ref, "=")
		}
	case "iclose":
		if o.H < len(t.iters) {
			t.iters[o.H].live = false
		}
	case "close":
		if !documented {
			t.offRail = true
		}
		t.open = false
	case "reopen", "crash":
		if !documented {
			t.offRail = true
		}
	}
}

// ---- running one sequence everywhere ------------------------------------------------------------

type Divergence struct {
	Sig     string `json:"sig"`
	A       string `json:"backend"`
	B       string `json:"reference"`
	At      int    `json:"at"`
	Op      string `json:"op"`
	OutA    string `json:"backend_says"`
	OutB    string `json:"reference_says"`
	ModelOf string `json:"lean_model_of_backend_says,omitempty"`
}

type SeqResult struct {
	Divs       []Divergence
	Mismatches []lib.Mismatch
	Compared   int
	InContract bool
	F5Left     bool // some step left f5Free
	Hang       bool // a call other than the re-entrant Get did not return: its goroutine is still running
	Outs       map[string][]string
}

type Runner struct {
	drv  *lib.Driver // nil: the Lean models are not available (the run is Fatal anyway)
	mu   sync.Mutex
	cfg  Cfg
	disk bool
	// crashable: the pebble backends run on file systems that can simulate a power loss (op "crash")
	crashable bool
	res  *lib.Result
	once sync.Once
}

type drvAns struct {
	mem, peb, spec string
	d, m, f        bool
	ok             bool
}

func parseDrv(s string) drvAns {
	p := strings.Split(s, " | ")
	if len(p) != 4 || len(p[3]) != 3 {
		return drvAns{}
	}
	return drvAns{mem: p[0], peb: p[1], spec: p[2], d: p[3][0] == '1', m: p[3][1] == '1', f: p[3][2] == '1', ok: true}
}

// pebModelComparable: outside the documented contract the Peb model is still a faithful
// transcription for these calls (and says so: non-indexed reads error, closed snapshots panic).
func pebModelComparable(t *tracker, o Op) bool {
	if t.offRail || !t.open {
		return false
	}
	switch o.K {
	case "get", "has":
		return true
	case "value":
		// (Key() of an invalid Pebble iterator is whatever key it held last: not modelled)
		return !(o.H < len(t.iters) && t.iters[o.H].orphan)
	case "bsize":
		return true
	}
	return false
}

// askAllDeadline: a driver that neither answers nor dies must not hang the harness.
func askAllDeadline(d *lib.Driver, ls []string) (out []string, err error) {
	done := lib.WithDeadline(120*time.Second, func() { out, err = d.AskAll(ls) })
	if !done {
		return nil, fmt.Errorf("no answer to %d lines within 120 s", len(ls))
	}
	return out, err
}

func askDeadline(d *lib.Driver, l string) (out string, err error) {
	done := lib.WithDeadline(60*time.Second, func() { out, err = d.Ask(l) })
	if !done {
		return "", fmt.Errorf("no answer to %q within 60 s", l)
	}
	return out, err
}

// mayCommit: ops after which the store may hold something else than before
func mayCommit(o Op) bool {
	switch o.K {
	case "put", "del", "delrange", "bwrite", "update", "getw", "xupdate", "bflush", "reopen", "flush", "crash", "lwrite", "lflush":
		return true
	}
	return false
}

const probeMaxOps = 400

// withProbes inserts a full scan of the store after every op that may change it; orig[i] = index,
// in the sequence as given, of the op that expanded op i is or follows.
func withProbes(in []Op) (ops []Op, orig []int) {
	if len(in) > probeMaxOps {
		orig = make([]int, len(in))
		for i := range in {
			orig[i] = i
		}
		return in, orig
	}
	for i, o := range in {
		ops, orig = append(ops, o), append(orig, i)
		if mayCommit(o) {
			ops, orig = append(ops, Op{K: "scan", Src: "db", probe: o.K}), append(orig, i)
		}
	}
	return ops, orig
}

// Run executes ops on the three real backends and, if a driver is there, on the Lean models.
func (rn *Runner) Run(given []Op) (*SeqResult, error) {
	sr := &SeqResult{InContract: true, Outs: map[string][]string{}}
	ops, orig := withProbes(given)
	var ans []string
	lineOf := make([]int, len(ops))
	if rn.drv != nil {
		ls := []string{"reset"}
		dl := driverLines(ops)
		for i := range ops {
			lineOf[i] = -1
			if l := dl[i]; l != "" {
				lineOf[i] = len(ls)
				ls = append(ls, l)
			}
		}
		rn.mu.Lock()
		a, err := askAllDeadline(rn.drv, ls)
		rn.mu.Unlock()
		if err != nil {
			return nil, fmt.Errorf("lean driver: %w", err)
		}
		if len(a) != len(ls) || a[0] != "ok" {
			return nil, fmt.Errorf("lean driver: %d answers for %d lines, reset answered %q", len(a), len(ls), a[0])
		}
		ans = a
	}
	backends := []Backend{memoryBackend(), pebble1BackendX(false, rn.crashable), pebble2BackendX(rn.disk && !rn.crashable, rn.crashable)}
	var ws []*World
	for _, b := range backends {
		w, err := NewWorld(b)
		if err != nil {
			for _, x := range ws {
				x.Dispose()
			}
			return nil, fmt.Errorf("open %s: %w", b.Name, err)
		}
		ws = append(ws, w)
	}
	defer func() {
		for _, w := range ws {
			w.Dispose()
		}
	}()
	// The wrappers db.BufferBatch / db.SyncBatch are the same code on every backend, so a defect in them
	// shows on all three alike. Their oracle: the same sequence with the wrapper left out (a plain indexed
	// batch of db/memory) must answer the same, for every call the wrapper supports.
	var plain *World
	for _, o := range given {
		if o.K == "newbatch" && o.Idx && o.Wrap != "" {
			w, err := NewWorld(memoryBackend())
			if err != nil {
				return nil, fmt.Errorf("open memory (plain batches): %w", err)
			}
			w.name = "memory with plain batches"
			plain = w
			defer plain.Dispose()
			break
		}
	}
	// Stacks of wrappers: the same sequence with the reference semantics of the wrappers (stack.go)
	var seq *World
	for _, o := range given {
		if o.K == "lnew" {
			w, err := NewWorld(memoryBackend())
			if err != nil {
				return nil, fmt.Errorf("open memory (sequential application): %w", err)
			}
			w.name, w.seq = "sequential application on memory", true
			seq = w
			defer seq.Dispose()
			break
		}
	}
	tr := newTracker()
	stopped := map[string]bool{} // pair no longer compared after an unlisted state-changing divergence
	unmodelled := false          // an op without a model line changed the store (xupdate): the models' stores are behind
	for i, o := range ops {
		kind := o.K
		if o.probe != "" {
			kind = "state-after-" + o.probe
		}
		if o.K == "xupdate" {
			unmodelled = true
		}
		doc := tr.documented(o)
		cmp := tr.comparable(o)
		var da drvAns
		if ans != nil && lineOf[i] >= 0 {
			da = parseDrv(ans[lineOf[i]])
			if !da.ok {
				return nil, fmt.Errorf("lean driver answered %q to %q", ans[lineOf[i]], driverLines(ops[:i+1])[i])
			}
			if da.d != doc {
				return nil, fmt.Errorf("contract predicates drifted apart: op %d %q of %v: Go says documented=%v, Lean says %v",
					orig[i], o.Line(), lines(given[:orig[i]+1]), doc, da.d)
			}
			if !(da.d && da.m && (da.f || rn.cfg.RangeLog)) { // (the repaired batch is proved without f5Free)
				sr.InContract = false
			}
			if !da.f {
				sr.F5Left = true
			}
			if unmodelled && o.probe != "" {
				da = drvAns{} // backend against backend only
			}
		}
		outs := make([]string, len(ws))
		for bi, w := range ws {
			outs[bi] = w.Exec(o)
			if o.probe == "" {
				sr.Outs[w.name] = append(sr.Outs[w.name], outs[bi])
			}
			if outs[bi] == "hang" && o.K != "getw" {
				sr.Hang = true
			}
		}
		// 1. correspondence: each real backend against the Lean transcription of it
		if da.ok {
			if outs[0] != "poisoned" {
				sr.Compared++
				if outs[0] != da.mem {
					sr.Mismatches = append(sr.Mismatches, lib.Mismatch{Sig: "mem-model:" + kind,
						Input: map[string]any{"ops": lines(given[:orig[i]+1]), "cfg": rn.cfg}, Model: da.mem, Impl: outs[0]})
				}
			}
			if cmp || pebModelComparable(tr, o) {
				for bi := 1; bi <= 2; bi++ {
					sr.Compared++
					if outs[bi] != da.peb {
						sr.Mismatches = append(sr.Mismatches, lib.Mismatch{Sig: "peb-model:" + ws[bi].name + ":" + kind,
							Input: map[string]any{"ops": lines(given[:orig[i]+1])}, Model: da.peb, Impl: outs[bi]})
					}
				}
			}
		}
		// 2. the property oracle, independent of the driver: backend against backend
		if cmp {
			for _, pair := range [][2]int{{0, 2}, {1, 2}} {
				a, b := pair[0], pair[1]
				name := ws[a].name + "/" + ws[b].name
				if stopped[name] || outs[a] == "poisoned" || outs[b] == "poisoned" {
					continue
				}
				sr.Compared++
				if outs[a] == outs[b] {
					continue
				}
				sig := ""
				model := ""
				if a == 0 && da.ok && outs[0] == da.mem {
					// the real db/memory does what its transcription does; why does the transcription differ?
					model = da.mem
					switch {
					case outs[0] == "hang" && !da.m:
						sig = sigReentrant
					case sr.F5Left && !rn.cfg.RangeLog:
						sig = sigBatchDR
					}
				}
				if sig == "" {
					sig = ws[a].name + "-differs-from-" + ws[b].name + ":" + kind
					switch o.K {
					case "get", "has", "scan", "rscan", "bsize", "value", "key", "first", "next", "prev", "seek", "psize":
						if o.probe != "" {
							stopped[name] = true // the stores hold different things from here on
						}
					default:
						stopped[name] = true
					}
				}
				opText := lines([]Op{given[orig[i]]})[0]
				if o.probe != "" {
					opText = "content of the store after " + opText
				}
				sr.Divs = append(sr.Divs, Divergence{Sig: sig, A: ws[a].name, B: ws[b].name, At: orig[i], Op: opText,
					OutA: outs[a], OutB: outs[b], ModelOf: model})
			}
		}
		// 2b. iteration under a prefix, decided on each backend by itself (all three build the bound with the same
		// dbutils.UpperBound, so a defect there is invisible backend against backend): a bounded scan yields
		// exactly the entries of the unbounded scan of the same source whose key has the prefix, and a bounded
		// iterator is never positioned on a key without the prefix
		if cmp && !stopped["prefix"] {
			for bi, w := range ws {
				d, applied := prefixOracle(w, tr, o, outs[bi])
				if d != nil {
					d.At, d.Op = orig[i], lines([]Op{given[orig[i]]})[0]
					sr.Divs = append(sr.Divs, *d)
					stopped["prefix"] = true
					break
				}
				if applied {
					sr.Compared++
				}
			}
		}
		// 3. wrapped against plain
		if plain != nil {
			skip := false
			if h, ok := opBatch(o); ok && h < len(tr.batches) && tr.batches[h].buf {
				// Flush exists only on the wrapper; four methods of it panic by design; after Write / Close and
				// on a closed store the wrapper's map outlives the batch (outside the contract)
				skip = o.K == "bflush" || tr.bufOther(o) || !tr.batches[h].live || !tr.open
			}
			if !(skip && (o.K == "bflush" || tr.bufOther(o))) { // those are not executed on the plain batch at all
				po := o
				po.Wrap = ""
				pout := plain.Exec(po)
				if cmp && !skip && !stopped["plain"] && outs[0] != "poisoned" && pout != "poisoned" {
					sr.Compared++
					if pout != outs[0] {
						opText := lines([]Op{given[orig[i]]})[0]
						if o.probe != "" {
							opText = "content of the store after " + opText
						}
						which := "wrapped-batch"
						if h, ok := opBatch(given[orig[i]]); ok && h < len(tr.batches) {
							which = "syncbatch"
							if tr.batches[h].buf {
								which = "bufferbatch"
							}
						}
						sr.Divs = append(sr.Divs, Divergence{Sig: which + "-differs-from-the-batch-it-wraps:" + kind, A: "memory", B: plain.name,
							At: orig[i], Op: opText, OutA: outs[0], OutB: pout})
						stopped["plain"] = true
					}
				}
			}
		}
		// 4. stacks of wrappers against the sequential application of the same calls
		if seq != nil {
			qout := seq.Exec(o)
			if cmp && !stopped["seq"] && outs[0] != "poisoned" && qout != "poisoned" {
				sr.Compared++
				if qout != outs[0] {
					opText := lines([]Op{given[orig[i]]})[0]
					if o.probe != "" {
						opText = "content of the store after " + opText
					}
					sr.Divs = append(sr.Divs, Divergence{Sig: "layered-batches-differ-from-sequential-application:" + kind, A: "memory", B: seq.name,
						At: orig[i], Op: opText, OutA: outs[0], OutB: qout})
					stopped["seq"] = true
				}
			}
		}
		tr.after(o, doc, outs[2])
	}
	return sr, nil
}

// opBatch: the batch handle an op works on, if any
func opBatch(o Op) (int, bool) {
	switch o.K {
	case "bput", "bdel", "bdelrange", "bsize", "bwrite", "bclose", "bflush":
		return o.H, true
	case "get", "has", "scan", "rscan", "iter", "getw":
		return bufSrc(o.Src)
	}
	return 0, false
}

func hasSig(sr *SeqResult, sig string) *Divergence {
	for i := range sr.Divs {
		if sr.Divs[i].Sig == sig {
			return &sr.Divs[i]
		}
	}
	return nil
}

func createsHandle(o Op) bool { return o.K == "iter" || o.K == "newbatch" || o.K == "snap" || o.K == "lnew" }

// shrink removes ops (never handle-creating ones: handles are numbered by creation order) while
// the same Sig still shows up.
func (rn *Runner) shrink(ops []Op, sig string) []Op {
	cur := ops
	if sr, err := rn.Run(cur); err == nil {
		if d := hasSig(sr, sig); d != nil {
			cur = cur[:d.At+1]
		}
	}
	if len(cur) > 400 {
		return cur
	}
	for pass := 0; pass < 2; pass++ {
		for i := len(cur) - 2; i >= 0; i-- {
			if createsHandle(cur[i]) {
				continue
			}
			cand := append(append([]Op{}, cur[:i]...), cur[i+1:]...)
			sr, err := rn.Run(cand)
			if err != nil {
				return cur
			}
			if d := hasSig(sr, sig); d != nil {
				cur = cand[:d.At+1]
				if i > len(cur)-1 {
					i = len(cur) - 1
				}
			}
		}
	}
	return cur
}

type Replay struct {
	Cfg     Cfg                 `json:"memory_variant"`
	Lines   []string            `json:"lines"`
	Ops     []Op                `json:"ops"`
	Div     *Divergence         `json:"divergence,omitempty"`
	Outputs map[string][]string `json:"outputs,omitempty"`
}

var reported sync.Map

// account folds one sequence result into the harness result; new Sigs are shrunk first.
func (rn *Runner) account(res *lib.Result, ops []Op, sr *SeqResult) {
	res.Compared(sr.Compared)
	for _, m := range sr.Mismatches {
		res.Mismatch(m)
	}
	for _, d := range sr.Divs {
		res.Hit("divergence:" + d.Sig)
		if _, dup := reported.LoadOrStore(d.Sig, true); dup {
			continue
		}
		small := ops[:d.At+1]
		if !sr.Hang { // (re-running a sequence with a call that never returns would leave one more goroutine spinning)
			small = rn.shrink(ops, d.Sig)
		}
		rp := Replay{Cfg: rn.cfg, Lines: lines(small), Ops: small, Div: &d}
		what := fmt.Sprintf("%s: op %q: %s says %q, %s says %q", d.Sig, d.Op, d.A, d.OutA, d.B, d.OutB)
		if sr.Hang {
		} else if sr2, err := rn.Run(small); err == nil {
			if d2 := hasSig(sr2, d.Sig); d2 != nil {
				rp.Div, rp.Outputs = d2, sr2.Outs
				what = fmt.Sprintf("after %d ops, %q: %s says %q, %s says %q", d2.At, d2.Op, d2.A, d2.OutA, d2.B, d2.OutB)
			}
		}
		res.Violate(lib.Violation{Sig: d.Sig, What: what, Replay: rp})
	}
}

// parseEntries: the entries of a scan output "[k=v,k=v,...]" (hex, "-" = empty)
func parseEntries(out string) (keys [][]byte, entries []string, ok bool) {
	if len(out) < 2 || out[0] != '[' || out[len(out)-1] != ']' {
		return nil, nil, false
	}
	if out == "[]" {
		return nil, nil, true
	}
	for _, e := range strings.Split(out[1:len(out)-1], ",") {
		kv := strings.SplitN(e, "=", 2)
		if len(kv) != 2 {
			return nil, nil, false
		}
		var key []byte
		if kv[0] != "-" {
			b, err := hex.DecodeString(kv[0])
			if err != nil {
				return nil, nil, false
			}
			key = b
		}
		keys, entries = append(keys, key), append(entries, e)
	}
	return keys, entries, true
}

// prefixOracle: see step 2b of Run. The unbounded scan is made right here, on the same source (read-only).
func prefixOracle(w *World, tr *tracker, o Op, out string) (*Divergence, bool) {
	switch o.K {
	case "scan", "rscan", "lscan":
		if !o.U || out == "poisoned" {
			return nil, false
		}
		_, got, ok := parseEntries(out)
		if !ok {
			return nil, false // an error answer (compared backend against backend)
		}
		full := o
		full.K, full.Key, full.U, full.probe = "scan", nil, false, ""
		if o.K == "lscan" {
			full.K = "lscan"
		}
		fout := w.Exec(full)
		fkeys, fentries, ok := parseEntries(fout)
		if !ok {
			return &Divergence{Sig: "bounded-scan-differs-from-the-keys-with-the-prefix", A: w.name, B: w.name + ": unbounded scan of the same source",
				OutA: out, OutB: fout}, true
		}
		var want []string
		for i, k := range fkeys {
			if bytes.HasPrefix(k, o.Key) && (o.K != "rscan" || bytes.Compare(k, o.Key2) < 0) {
				want = append(want, fentries[i])
			}
		}
		if o.K == "rscan" {
			for i, j := 0, len(want)-1; i < j; i, j = i+1, j-1 {
				want[i], want[j] = want[j], want[i]
			}
		}
		if strings.Join(got, ",") != strings.Join(want, ",") {
			return &Divergence{Sig: "bounded-scan-differs-from-the-keys-with-the-prefix", A: w.name,
				B: w.name + ": entries of its unbounded scan whose key has the prefix", OutA: out, OutB: "[" + strings.Join(want, ",") + "]"}, true
		}
		return nil, true
	case "first", "next", "prev", "seek":
		if o.H < 0 || o.H >= len(tr.iters) || !tr.iters[o.H].live || !tr.iters[o.H].ub || !strings.HasPrefix(out, "T ") {
			return nil, false
		}
		keys, _, ok := parseEntries("[" + out[2:] + "]")
		if ok && len(keys) == 1 && !bytes.HasPrefix(keys[0], tr.iters[o.H].prefix) {
			return &Divergence{Sig: "bounded-iterator-positioned-on-a-key-without-the-prefix", A: w.name,
				B: "prefix " + hx(tr.iters[o.H].prefix), OutA: out, OutB: "a key with the prefix, or invalid"}, true
		}
		return nil, true
	}
	return nil, false
}
