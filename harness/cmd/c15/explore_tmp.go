//go:build verif && explore

package main

import (
	"fmt"
	"os"
	"strings"
)

func h(s string) []byte {
	if s == "-" || s == "" {
		return nil
	}
	var b []byte
	fmt.Sscanf(s, "%x", &b)
	return b
}

func parse(line string) Op {
	w := strings.Fields(line)
	o := Op{K: w[0]}
	atoi := func(s string) int { var n int; fmt.Sscan(s, &n); return n }
	switch w[0] {
	case "put":
		o.Key, o.Val = h(w[1]), h(w[2])
	case "del":
		o.Key = h(w[1])
	case "delrange":
		o.Key, o.End = h(w[1]), h(w[2])
	case "get":
		o.Src, o.Key, o.Fail = w[1], h(w[2]), w[3] == "1"
	case "has":
		o.Src, o.Key = w[1], h(w[2])
	case "iter", "scan":
		o.Src, o.Key, o.U = w[1], h(w[2]), w[3] == "1"
	case "newbatch":
		o.Idx = w[1] == "1"
	case "bput":
		o.H, o.Key, o.Val = atoi(w[1]), h(w[2]), h(w[3])
	case "bdel":
		o.H, o.Key = atoi(w[1]), h(w[2])
	case "bdelrange":
		o.H, o.Key, o.End = atoi(w[1]), h(w[2]), h(w[3])
	case "seek":
		o.H, o.Key = atoi(w[1]), h(w[2])
	case "bsize", "bwrite", "bclose", "sclose", "first", "next", "prev", "value", "iclose":
		o.H = atoi(w[1])
	}
	return o
}

func init() {
	if os.Getenv("C15_EXPLORE") == "" {
		return
	}
	data, _ := os.ReadFile(os.Getenv("C15_EXPLORE"))
	var seqs [][]string
	var cur []string
	for _, l := range strings.Split(string(data), "\n") {
		l = strings.TrimSpace(l)
		if l == "" || strings.HasPrefix(l, "#") {
			if len(cur) > 0 {
				seqs = append(seqs, cur)
				cur = nil
			}
			if strings.HasPrefix(l, "#") {
				fmt.Println(l)
			}
			continue
		}
		cur = append(cur, l)
	}
	if len(cur) > 0 {
		seqs = append(seqs, cur)
	}
	for _, s := range seqs {
		bks := []Backend{memoryBackend(), pebble1Backend(false), pebble2Backend(true)}
		var ws []*World
		for _, b := range bks {
			w, err := NewWorld(b)
			if err != nil {
				panic(err)
			}
			ws = append(ws, w)
		}
		for _, l := range s {
			o := parse(l)
			var outs []string
			for _, w := range ws {
				outs = append(outs, w.Exec(o))
			}
			mark := "  "
			if outs[0] != outs[1] || outs[1] != outs[2] {
				mark = "!!"
			}
			fmt.Printf("%s %-28s mem=%-22s p1=%-22s p2=%s\n", mark, l, outs[0], outs[1], outs[2])
		}
		for _, w := range ws {
			w.Dispose()
		}
		fmt.Println()
	}
	os.Exit(0)
}
