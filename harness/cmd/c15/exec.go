//go:build verif

package main

import (
	"context"
	"errors"
	"fmt"
	"os"
	"strconv"
	"strings"
	"sync/atomic"
	"time"

	"github.com/NethermindEth/juno/db"
	"github.com/NethermindEth/juno/db/memory"
	pebblev1 "github.com/NethermindEth/juno/db/pebble"
	"github.com/NethermindEth/juno/db/pebblev2"
	cpebble "github.com/cockroachdb/pebble"
	cpebble2 "github.com/cockroachdb/pebble/v2"
	cvfs2 "github.com/cockroachdb/pebble/v2/vfs"
	cvfs "github.com/cockroachdb/pebble/vfs"
	"verif/harness/lib"
)

var errCb = errors.New("c15 callback failure")

// hangs counts calls that did not return within their deadline (each costs seconds)
var hangs atomic.Int64

// quiet logger: pebble prints "leaked iterators" etc. through the logger; the harness decides itself
type nopLogger struct{}

func (nopLogger) Infof(string, ...any)  {}
func (nopLogger) Errorf(string, ...any) {}
func (nopLogger) Fatalf(f string, a ...any) {
	panic(fmt.Sprintf("pebble fatal: "+f, a...))
}

// Backend opens a fresh, empty store and can reopen it (durable backends).
type Backend struct {
	Name string
	Open func() (*Store, error)
}

// Store is an open backend plus what is needed to reopen it on the same files.
type Store struct {
	KV     db.KeyValueStore
	reopen func() (db.KeyValueStore, error) // nil: not durable (db/memory)
	flush  func(db.KeyValueStore) error     // force memtable -> sstable + compaction; nil: nothing to do
	// crash: power loss — whatever the file system was not told to sync is gone — followed by a restart on
	// what is left; nil: not durable (db/memory: "crash" keeps the content, i.e. it stands for the ideal
	// store in which every acknowledged write survives) or not on a crashable file system
	crash func(db.KeyValueStore) (db.KeyValueStore, error)
	clean func()
}

// listenerIO / listenerCommit count the calls of the db.EventListener installed with WithListener on the
// pebble backends that run on real directories (every 10th sequence): the same results are demanded
// with and without a listener
var listenerIO, listenerCommit atomic.Int64

func withListener(s db.KeyValueStore) db.KeyValueStore {
	return s.WithListener(&db.SelectiveListener{
		OnIOCb:     func(bool, time.Duration) { listenerIO.Add(1) },
		OnCommitCb: func(time.Duration) { listenerCommit.Add(1) },
	})
}

var scratchRoot = "/tmp/aC15"

func tempDir() (string, error) {
	if err := os.MkdirAll(scratchRoot, 0o755); err != nil {
		return "", err
	}
	return os.MkdirTemp(scratchRoot, "run-*")
}

func memoryBackend() Backend {
	return Backend{"memory", func() (*Store, error) {
		return &Store{KV: memory.New(), clean: func() {}}, nil
	}}
}

// pebble backends: on pebble's in-memory file system (what juno's own tests use) or on a real
// directory; small memtables so that larger sequences reach sstables on their own
func pebble1Backend(disk bool) Backend { return pebble1BackendX(disk, false) }

func pebble1BackendX(disk, crashable bool) Backend {
	return Backend{"pebble1", func() (*Store, error) {
		dir, clean := "c15", func() {}
		var fs cvfs.FS = cvfs.NewMem()
		var strict *cvfs.MemFS
		if crashable {
			strict = cvfs.NewStrictMem()
			fs = strict
			// the store's directory itself must survive the power loss (pebble does not sync the parent)
			if err := strict.MkdirAll(dir, 0o755); err != nil {
				return nil, err
			}
			root, err := strict.OpenDir("/")
			if err != nil {
				return nil, err
			}
			if err := root.Sync(); err != nil {
				return nil, err
			}
			root.Close()
		}
		if disk {
			d, err := tempDir()
			if err != nil {
				return nil, err
			}
			dir, clean, fs = d, func() { os.RemoveAll(d) }, cvfs.Default
		}
		open := func() (db.KeyValueStore, error) {
			s, err := pebblev1.New(dir, func(o *cpebble.Options) error {
				o.FS = fs
				o.Logger = nopLogger{}
				o.MemTableSize = 64 << 10
				return nil
			})
			if err == nil && crashable {
				s = withListener(s)
			}
			return s, err
		}
		s, err := open()
		if err != nil {
			clean()
			return nil, err
		}
		st := &Store{KV: s, reopen: open, clean: clean, flush: func(s db.KeyValueStore) error {
			p, ok := s.Impl().(*cpebble.DB)
			if !ok {
				return fmt.Errorf("Impl() is %T", s.Impl())
			}
			if err := p.Flush(); err != nil {
				return err
			}
			return p.Compact([]byte{}, []byte{0xff, 0xff, 0xff, 0xff, 0xff}, true)
		}}
		if strict != nil {
			st.crash = func(old db.KeyValueStore) (db.KeyValueStore, error) {
				// nothing written from now on (Close flushes) reaches the "disk"; then drop what was never synced
				strict.SetIgnoreSyncs(true)
				lib.Try(func() error { return old.Close() })
				strict.ResetToSyncedState()
				strict.SetIgnoreSyncs(false)
				return open()
			}
		}
		return st, nil
	}}
}

func pebble2Backend(disk bool) Backend { return pebble2BackendX(disk, false) }

func pebble2BackendX(disk, crashable bool) Backend {
	return Backend{"pebble2", func() (*Store, error) {
		dir, clean := "c15", func() {}
		var fs cvfs2.FS = cvfs2.NewMem()
		var crashFS *cvfs2.MemFS
		if crashable {
			crashFS = cvfs2.NewCrashableMem()
			fs = crashFS
			if err := crashFS.MkdirAll(dir, 0o755); err != nil {
				return nil, err
			}
			root, err := crashFS.OpenDir("/")
			if err != nil {
				return nil, err
			}
			if err := root.Sync(); err != nil {
				return nil, err
			}
			root.Close()
		}
		if disk {
			d, err := tempDir()
			if err != nil {
				return nil, err
			}
			dir, clean, fs = d, func() { os.RemoveAll(d) }, cvfs2.Default
		}
		open := func() (db.KeyValueStore, error) {
			s, err := pebblev2.New(dir, func(o *cpebble2.Options) error {
				o.FS = fs
				o.Logger = nopLogger{}
				o.MemTableSize = 64 << 10
				return nil
			})
			if err == nil && (disk || crashable) {
				s = withListener(s)
			}
			return s, err
		}
		s, err := open()
		if err != nil {
			clean()
			return nil, err
		}
		st := &Store{KV: s, reopen: open, clean: clean, flush: func(s db.KeyValueStore) error {
			p, ok := s.Impl().(*cpebble2.DB)
			if !ok {
				return fmt.Errorf("Impl() is %T", s.Impl())
			}
			if err := p.Flush(); err != nil {
				return err
			}
			return p.Compact(context.Background(), []byte{}, []byte{0xff, 0xff, 0xff, 0xff, 0xff}, true)
		}}
		if crashFS != nil {
			st.crash = func(old db.KeyValueStore) (db.KeyValueStore, error) {
				// the file system as a power loss leaves it: exactly what was synced
				crashFS = crashFS.CrashClone(cvfs2.CrashCloneCfg{UnsyncedDataPercent: 0})
				fs = crashFS
				lib.Try(func() error { return old.Close() }) // (the old instance writes to the old file system)
				return open()
			}
		}
		return st, nil
	}}
}

// World is the state of one backend while a sequence runs: the store and the handle tables.
type World struct {
	name     string
	st       *Store
	store    db.KeyValueStore
	closed   bool
	batches  []db.Batch // nil entry = never allocated (creation failed)
	snaps    []db.Snapshot
	snapDone []bool // Close was called on that snapshot
	iters    []db.Iterator
	poisoned bool // a call never returned (it may still hold a lock): the backend is not used any more
	// stacks of wrappers (stack.go): layers[i] = the db.BufferBatch / db.SyncBatch made by the i-th lnew (nil:
	// not made); seq: this world runs the REFERENCE semantics of the wrappers (a buffer is the log of its calls,
	// Flush replays it in call order; a SyncBatch is the batch it wraps) instead of db.BufferBatch / db.SyncBatch
	held      map[int][][2][]byte // per iterator handle: (slice returned by Key(), private copy) of the last positions
	layers    []db.IndexedBatch
	layerKind []string
	seq       bool
}

func NewWorld(b Backend) (*World, error) {
	st, err := b.Open()
	if err != nil {
		return nil, err
	}
	return &World{name: b.Name, st: st, store: st.KV}, nil
}

// Dispose closes whatever is still open (errors and panics ignored: the sequences themselves end with
// an in-contract close of everything, which IS compared) and removes the directory.
func (w *World) Dispose() {
	if !w.poisoned {
		for _, it := range w.iters {
			if it != nil {
				lib.Try(func() error { return it.Close() })
			}
		}
		for _, b := range w.batches {
			if b != nil {
				lib.Try(func() error { return b.Close() })
			}
		}
		for i, s := range w.snaps {
			if s != nil && !w.snapDone[i] {
				lib.Try(func() error { return s.Close() })
			}
		}
		if !w.closed {
			lib.Try(func() error { return w.store.Close() })
		}
	}
	w.st.clean()
}

func classify(err error) string {
	switch {
	case err == nil:
		return "ok"
	case errors.Is(err, errCb):
		return "err:cb"
	case errors.Is(err, db.ErrKeyNotFound):
		return "notfound"
	case errors.Is(err, cpebble.ErrNotFound), errors.Is(err, cpebble2.ErrNotFound):
		return "err:pebble-notfound"
	case errors.Is(err, cpebble.ErrNotIndexed), errors.Is(err, cpebble2.ErrNotIndexed):
		return "err:not-indexed"
	case errors.Is(err, cpebble.ErrClosed), errors.Is(err, cpebble2.ErrClosed), strings.Contains(err.Error(), "closed"):
		return "err:closed"
	case strings.Contains(err.Error(), "iterator is not valid"):
		return "err:invalid"
	}
	return "err:other"
}

func bs(b []byte, nilB bool) []byte {
	if len(b) == 0 {
		if nilB {
			return nil
		}
		return []byte{}
	}
	return append([]byte{}, b...)
}

func kv(k, v []byte) string { return hx(k) + "=" + hx(v) }

// cur renders Valid/Key/Value of an iterator; Value and UncopiedValue must agree.
func cur(it db.Iterator) string {
	if !it.Valid() {
		return "invalid"
	}
	k := it.Key()
	v, err := it.Value()
	if err != nil {
		return "valid-but-value-" + classify(err)
	}
	u, err := it.UncopiedValue()
	if err != nil {
		return "valid-but-uncopied-" + classify(err)
	}
	if string(u) != string(v) {
		return "uncopied-value-differs:" + hx(u) + "/" + hx(v)
	}
	return kv(k, v)
}

// heldKeys: a slice returned by Key() is the caller's (db.Iterator documents invalidation by the next positioning
// call for UncopiedValue only; db/typed/prefix keeps Key() results in the entries it yields). The world keeps the
// last few slices it got from every iterator next to a private copy and, after every positioning call, checks that
// none of them changed; then it takes the key of the new position. A change is appended to the op's answer, so it
// shows as a divergence between backends (and from the model) with the op sequence as replay.
func (w *World) heldKeys(h int, it db.Iterator) string {
	if w.held == nil {
		w.held = map[int][][2][]byte{}
	}
	out := ""
	for _, p := range w.held[h] {
		if string(p[0]) != string(p[1]) {
			out = " KEY-RETURNED-EARLIER-CHANGED:" + hx(p[1]) + "->" + hx(p[0])
			break
		}
	}
	if it.Valid() {
		k := it.Key()
		l := append(w.held[h], [2][]byte{k, append([]byte{}, k...)})
		if len(l) > 4 {
			l = l[len(l)-4:]
		}
		w.held[h] = l
	}
	return out
}

func tf(b bool) string {
	if b {
		return "T"
	}
	return "F"
}

func (w *World) reader(src string) (db.KeyValueReader, string) {
	if src == "db" {
		return w.store, ""
	}
	n, err := strconv.Atoi(src[1:])
	if err != nil {
		return nil, "bad-op"
	}
	switch src[0] {
	case 'b':
		if n >= len(w.batches) || w.batches[n] == nil {
			return nil, "bad-handle"
		}
		// every backend's batch type has Get/Has/NewIterator, whether created indexed or not
		ib, ok := w.batches[n].(db.IndexedBatch)
		if !ok {
			return nil, "bad-handle"
		}
		return ib, ""
	case 's':
		if n >= len(w.snaps) || w.snaps[n] == nil {
			return nil, "bad-handle"
		}
		return w.snaps[n], "" // also after its Close (outside the contract; compared with the models only)
	}
	return nil, "bad-op"
}

func doGet(r db.KeyValueReader, o Op) string {
	var got []byte
	seen := false
	err := r.Get(bs(o.Key, o.NilB), func(v []byte) error {
		seen = true
		got = append([]byte{}, v...)
		if o.Fail {
			return errCb
		}
		return nil
	})
	if err != nil {
		return classify(err)
	}
	if !seen {
		return "err:callback-not-called"
	}
	return "val:" + hx(got)
}

func doHas(r db.KeyValueReader, o Op) string {
	ok, err := r.Has(bs(o.Key, o.NilB))
	if err != nil {
		return classify(err)
	}
	return strconv.FormatBool(ok)
}

const scanCap = 5000

func doScan(r db.KeyValueReader, o Op) string {
	it, err := r.NewIterator(bs(o.Key, o.NilB), o.U)
	if err != nil {
		return classify(err)
	}
	var parts []string
	n := 0
	for ok := it.First(); ok; ok = it.Next() {
		parts = append(parts, cur(it))
		n++
		if n > scanCap {
			parts = append(parts, "unbounded")
			break
		}
	}
	if err := it.Close(); err != nil {
		return "close-" + classify(err)
	}
	return "[" + strings.Join(parts, ",") + "]"
}

// doRScan: it.Seek(t); for ok := it.Prev(); ok; ok = it.Prev() { collect }
func doRScan(r db.KeyValueReader, o Op) string {
	it, err := r.NewIterator(bs(o.Key, o.NilB), o.U)
	if err != nil {
		return classify(err)
	}
	var parts []string
	n := 0
	it.Seek(bs(o.Key2, o.NilB))
	for ok := it.Prev(); ok; ok = it.Prev() {
		parts = append(parts, cur(it))
		n++
		if n > scanCap {
			parts = append(parts, "unbounded")
			break
		}
	}
	if err := it.Close(); err != nil {
		return "close-" + classify(err)
	}
	return "[" + strings.Join(parts, ",") + "]"
}

// Exec runs one op; panics of the code under test become the output "panic", a call that does not
// return within the deadline becomes "hang" (and the backend is not used any more).
func (w *World) Exec(o Op) (out string) {
	if w.poisoned {
		return "poisoned"
	}
	// Generous: on a loaded machine a synced write to a real directory can stall for seconds, and a
	// deadline that fires on the unchanged tree would be a false alarm. A call that really never returns
	// (db/memory's Get calling back under the store lock, before 94ab97c) costs the whole deadline once per
	// call; re-entrant calls are few.
	deadline := 180 * time.Second
	if o.K == "getw" || o.K == "xupdate" {
		deadline = 25 * time.Second
	}
	res := make(chan string, 1)
	go func() {
		var s string
		_, panicked, _ := lib.Try(func() error { s = w.exec(o); return nil })
		if panicked {
			s = "panic"
		}
		res <- s
	}()
	select {
	case s := <-res:
		return s
	case <-time.After(deadline):
		w.poisoned = true
		hangs.Add(1)
		return "hang"
	}
}

// smallHintPanics: set by probeSmallBatchHint while Pebble panics on an empty batch made with a size hint
// below its 12-byte batch header (finding 4); the sequences then stay at or above 12
var smallHintPanics bool

// batchSizeOf: the size hint of New(Indexed)BatchWithSize: 64, 0, 1 MiB, or a hint below / at Pebble's 12-byte
// batch header (o.Key2 is free on newbatch: it carries the choice, so that replays keep it)
func batchSizeOf(o Op) int {
	if len(o.Key2) == 0 {
		return 64
	}
	small := []int{1, 11, 12}[int(o.Key2[0]>>2)%3]
	if smallHintPanics && small < 12 {
		small = 12
	}
	return []int{64, 0, small, 1 << 20}[o.Key2[0]&3]
}

func (w *World) batch(h int) db.Batch {
	if h < 0 || h >= len(w.batches) {
		return nil
	}
	return w.batches[h]
}

func (w *World) iter(h int) db.Iterator {
	if h < 0 || h >= len(w.iters) {
		return nil
	}
	return w.iters[h]
}

func (w *World) exec(o Op) string {
	switch o.K {
	case "put":
		return classify(w.store.Put(bs(o.Key, o.NilB), bs(o.Val, o.NilB)))
	case "del":
		return classify(w.store.Delete(bs(o.Key, o.NilB)))
	case "delrange":
		return classify(w.store.DeleteRange(bs(o.Key, o.NilB), bs(o.End, o.NilB)))
	case "get", "has", "scan", "rscan", "iter", "getw":
		r, bad := w.reader(o.Src)
		if bad != "" {
			if o.K == "iter" {
				w.iters = append(w.iters, nil)
			}
			return bad
		}
		switch o.K {
		case "get":
			return doGet(r, o)
		case "has":
			return doHas(r, o)
		case "scan":
			return doScan(r, o)
		case "rscan":
			return doRScan(r, o)
		case "getw":
			// Get whose callback writes to the store
			var got []byte
			err := r.Get(bs(o.Key, o.NilB), func(v []byte) error {
				got = append([]byte{}, v...)
				return w.store.Put(bs(o.Key2, o.NilB), bs(o.Val, o.NilB))
			})
			if err != nil {
				return classify(err)
			}
			return "val:" + hx(got)
		}
		it, err := r.NewIterator(bs(o.Key, o.NilB), o.U)
		if err != nil {
			w.iters = append(w.iters, nil)
			return classify(err)
		}
		w.iters = append(w.iters, it)
		return "h:" + strconv.Itoa(len(w.iters)-1)
	case "newbatch":
		var b db.Batch
		switch {
		case o.Idx && o.U:
			b = w.store.NewIndexedBatchWithSize(batchSizeOf(o))
		case o.Idx:
			b = w.store.NewIndexedBatch()
		case o.U:
			b = w.store.NewBatchWithSize(batchSizeOf(o))
		default:
			b = w.store.NewBatch()
		}
		if ib, ok := b.(db.IndexedBatch); ok && o.Idx {
			switch o.Wrap {
			case "sync":
				b = db.NewSyncBatch(ib)
			case "buffer":
				b = db.NewBufferBatch(ib)
			}
		}
		w.batches = append(w.batches, b)
		return "h:" + strconv.Itoa(len(w.batches)-1)
	case "bput", "bdel", "bdelrange", "bsize", "bwrite", "bclose", "bflush":
		b := w.batch(o.H)
		if b == nil {
			return "bad-handle"
		}
		switch o.K {
		case "bflush":
			bb, ok := b.(*db.BufferBatch)
			if !ok {
				return "bad-handle"
			}
			return classify(bb.Flush())
		case "bput":
			return classify(b.Put(bs(o.Key, o.NilB), bs(o.Val, o.NilB)))
		case "bdel":
			return classify(b.Delete(bs(o.Key, o.NilB)))
		case "bdelrange":
			return classify(b.DeleteRange(bs(o.Key, o.NilB), bs(o.End, o.NilB)))
		case "bsize":
			return "n:" + strconv.Itoa(b.Size())
		case "bwrite":
			return classify(b.Write())
		}
		return classify(b.Close())
	case "snap":
		s := w.store.NewSnapshot() // panics on a closed store (both backends)
		w.snaps = append(w.snaps, s)
		w.snapDone = append(w.snapDone, false)
		return "h:" + strconv.Itoa(len(w.snaps)-1)
	case "sclose":
		if o.H >= len(w.snaps) || w.snaps[o.H] == nil || w.snapDone[o.H] {
			return "bad-handle" // a second Close is not attempted
		}
		err := w.snaps[o.H].Close()
		w.snapDone[o.H] = true
		return classify(err)
	case "first", "next", "prev", "seek", "value", "key", "iclose":
		it := w.iter(o.H)
		if it == nil {
			return "bad-handle"
		}
		switch o.K {
		case "first":
			r := it.First()
			return tf(r) + " " + cur(it) + w.heldKeys(o.H, it)
		case "next":
			r := it.Next()
			return tf(r) + " " + cur(it) + w.heldKeys(o.H, it)
		case "prev":
			r := it.Prev()
			return tf(r) + " " + cur(it) + w.heldKeys(o.H, it)
		case "seek":
			r := it.Seek(bs(o.Key, o.NilB))
			return tf(r) + " " + cur(it) + w.heldKeys(o.H, it)
		case "key":
			k := it.Key()
			if k == nil && !it.Valid() {
				return "nil"
			}
			return "key:" + hx(k) // (valid iterator on the empty key: nil and empty are the same key)
		case "value":
			var v []byte
			var err error
			if o.U {
				v, err = it.UncopiedValue()
			} else {
				v, err = it.Value()
			}
			if err != nil {
				return classify(err)
			}
			if !it.Valid() {
				return "nil" // Pebble: (nil, nil) on an iterator that is not valid
			}
			return "val:" + hx(v) // nil and empty values are the same value
		}
		return classify(it.Close())
	case "update":
		var outs []string
		entered := false
		run := func(b db.Batch) error {
			entered = true
			ib, _ := b.(db.IndexedBatch)
			for _, in := range o.Inner {
				var s string
				switch in.K {
				case "put":
					s = classify(b.Put(bs(in.Key, in.NilB), bs(in.Val, in.NilB)))
				case "del":
					s = classify(b.Delete(bs(in.Key, in.NilB)))
				case "delrange":
					s = classify(b.DeleteRange(bs(in.Key, in.NilB), bs(in.End, in.NilB)))
				case "get":
					if ib == nil || !o.Idx {
						s = "bad-op"
					} else {
						s = doGet(ib, in)
					}
				case "has":
					if ib == nil || !o.Idx {
						s = "bad-op"
					} else {
						s = doHas(ib, in)
					}
				case "scan":
					if ib == nil || !o.Idx {
						s = "bad-op"
					} else {
						s = doScan(ib, in)
					}
				default:
					s = "bad-op"
				}
				outs = append(outs, s)
			}
			if o.Fail {
				return errCb
			}
			return nil
		}
		var err error
		if o.Idx {
			err = w.store.Update(func(b db.IndexedBatch) error { return run(b) })
		} else {
			err = w.store.Write(func(b db.Batch) error { return run(b) })
		}
		if !entered || len(outs) == 0 {
			return "-> " + classify(err)
		}
		return strings.Join(outs, ";") + " -> " + classify(err)
	case "xupdate":
		return w.xupdate(o)
	case "lnew", "lput", "ldel", "ldelrange", "lget", "lhas", "lscan", "lsize", "lwrite", "lclose", "lflush":
		return w.execLayer(o)
	case "psize":
		return w.prefixSize(bs(o.Key, o.NilB), o.U)
	case "path":
		// Helper.Path(): the backends name different places by design; what they share is that an open store
		// names ONE place, the same on every call (db/memory makes a directory on the first call)
		p1, p2 := w.store.Path(), w.store.Path()
		switch {
		case p1 != p2:
			return "path:changes-between-calls"
		case p1 == "":
			return "path:empty"
		}
		return "path:stable"
	case "flush":
		if w.st.flush == nil || w.closed {
			return "ok"
		}
		return classify(w.st.flush(w.store))
	case "reopen":
		if w.closed {
			return "err:closed"
		}
		if w.st.reopen == nil {
			return "ok" // db/memory is not durable: nothing to reopen
		}
		if w.st.flush != nil && o.U {
			if err := w.st.flush(w.store); err != nil {
				return "flush-" + classify(err)
			}
		}
		if err := w.store.Close(); err != nil {
			return "close-" + classify(err)
		}
		s, err := w.st.reopen()
		if err != nil {
			w.closed = true
			return "reopen-" + classify(err)
		}
		w.store, w.st.KV = s, s
		return "ok"
	case "crash":
		if w.closed {
			return "err:closed"
		}
		if w.st.crash == nil {
			return "ok"
		}
		s, err := w.st.crash(w.store)
		if err != nil {
			w.closed = true
			return "restart-" + classify(err)
		}
		w.store, w.st.KV = s, s
		return "ok"
	case "close":
		err := w.store.Close()
		w.closed = true
		return classify(err)
	}
	return "bad-op"
}

// xupdate: helper callbacks that re-enter the store (not representable in the models; compared
// backend against backend). o.Src selects the shape; the result lists what the store holds after.
func (w *World) xupdate(o Op) string {
	k1, k2 := bs(o.Key, false), bs(o.Key2, false)
	var err error
	switch o.Src {
	case "direct-put-then-fail": // the callback writes to the store directly, then fails
		err = w.store.Update(func(b db.IndexedBatch) error {
			if e := b.Put(k1, []byte{1}); e != nil {
				return e
			}
			if e := w.store.Put(k2, []byte{2}); e != nil {
				return e
			}
			return errCb
		})
	case "callback-writes-batch": // the callback calls Write on the batch it was given
		err = w.store.Update(func(b db.IndexedBatch) error {
			if e := b.Put(k1, []byte{1}); e != nil {
				return e
			}
			return b.Write()
		})
	case "nested-update":
		err = w.store.Update(func(b db.IndexedBatch) error {
			if e := b.Put(k1, []byte{1}); e != nil {
				return e
			}
			return w.store.Write(func(b2 db.Batch) error { return b2.Put(k2, []byte{2}) })
		})
	case "get-callback-reads": // a Get callback that reads the store again (Has + a full scan)
		err = w.store.Get(k1, func(v []byte) error {
			if _, e := w.store.Has(k2); e != nil {
				return e
			}
			it, e := w.store.NewIterator(nil, false)
			if e != nil {
				return e
			}
			for ok := it.First(); ok; ok = it.Next() {
			}
			return it.Close()
		})
	case "update-reads-store": // the callback reads the store and a snapshot while its batch is open
		err = w.store.Update(func(b db.IndexedBatch) error {
			if e := b.Put(k1, []byte{1}); e != nil {
				return e
			}
			s := w.store.NewSnapshot()
			defer s.Close()
			has, e := s.Has(k1)
			if e != nil {
				return e
			}
			if has {
				return b.Delete(k2)
			}
			return b.Put(k2, []byte{3})
		})
	default:
		return "bad-op"
	}
	return classify(err) + " " + doScan(w.store, Op{})
}

// prefixSize: CalculatePrefixSize of the pebble packages; db/memory has no such function, there the
// same loop runs over its iterator.
func (w *World) prefixSize(prefix []byte, u bool) string {
	switch s := w.store.(type) {
	case *pebblev2.DB:
		it, err := pebblev2.CalculatePrefixSize(context.Background(), s, prefix, u)
		if err != nil {
			return classify(err)
		}
		return fmt.Sprintf("n:%d:%d", it.Count, int64(it.Size))
	case *pebblev1.DB:
		it, err := pebblev1.CalculatePrefixSize(context.Background(), s, prefix, u)
		if err != nil {
			return classify(err)
		}
		return fmt.Sprintf("n:%d:%d", it.Count, int64(it.Size))
	}
	it, err := w.store.NewIterator(prefix, u)
	if err != nil {
		return classify(err)
	}
	count, size := 0, 0
	for it.First(); it.Valid(); it.Next() {
		v, err := it.Value()
		if err != nil {
			it.Close()
			return classify(err)
		}
		count++
		size += len(it.Key()) + len(v)
		if count > scanCap {
			break
		}
	}
	if err := it.Close(); err != nil {
		return "close-" + classify(err)
	}
	return fmt.Sprintf("n:%d:%d", count, size)
}
