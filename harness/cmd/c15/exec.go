//go:build verif

package main

import (
	"errors"
	"fmt"
	"os"
	"strconv"
	"strings"
	"time"

	"github.com/NethermindEth/juno/db"
	"github.com/NethermindEth/juno/db/memory"
	pebblev1 "github.com/NethermindEth/juno/db/pebble"
	"github.com/NethermindEth/juno/db/pebblev2"
	cpebble "github.com/cockroachdb/pebble"
	cpebble2 "github.com/cockroachdb/pebble/v2"
	cvfs2 "github.com/cockroachdb/pebble/v2/vfs"
	cvfs "github.com/cockroachdb/pebble/vfs"
	"verif/harness/lib"
)

var errCb = errors.New("c15 callback failure")

// quiet logger: pebble prints "leaked iterators" etc. through the logger; the harness decides itself
type nopLogger struct{}

func (nopLogger) Infof(string, ...any)  {}
func (nopLogger) Errorf(string, ...any) {}
func (nopLogger) Fatalf(f string, a ...any) {
	panic(fmt.Sprintf("pebble fatal: "+f, a...))
}

// Backend opens a fresh, empty store.
type Backend struct {
	Name string
	Open func() (db.KeyValueStore, func(), error)
}

var scratchRoot = "/tmp/aC15"

func tempDir() (string, error) {
	if err := os.MkdirAll(scratchRoot, 0o755); err != nil {
		return "", err
	}
	return os.MkdirTemp(scratchRoot, "run-*")
}

func memoryBackend() Backend {
	return Backend{"memory", func() (db.KeyValueStore, func(), error) { return memory.New(), func() {}, nil }}
}

// pebble backends on pebble's in-memory file system (what juno's own tests use)
func pebble1Backend(disk bool) Backend {
	return Backend{"pebble1", func() (db.KeyValueStore, func(), error) {
		dir, clean := "c15", func() {}
		if disk {
			d, err := tempDir()
			if err != nil {
				return nil, nil, err
			}
			dir, clean = d, func() { os.RemoveAll(d) }
		}
		s, err := pebblev1.New(dir, func(o *cpebble.Options) error {
			if !disk {
				o.FS = cvfs.NewMem()
			}
			o.Logger = nopLogger{}
			return nil
		})
		return s, clean, err
	}}
}

func pebble2Backend(disk bool) Backend {
	return Backend{"pebble2", func() (db.KeyValueStore, func(), error) {
		dir, clean := "c15", func() {}
		if disk {
			d, err := tempDir()
			if err != nil {
				return nil, nil, err
			}
			dir, clean = d, func() { os.RemoveAll(d) }
		}
		s, err := pebblev2.New(dir, func(o *cpebble2.Options) error {
			if !disk {
				o.FS = cvfs2.NewMem()
			}
			o.Logger = nopLogger{}
			return nil
		})
		return s, clean, err
	}}
}

// World is the state of one backend while a sequence runs: the store and the handle tables.
type World struct {
	name    string
	store   db.KeyValueStore
	closed  bool
	batches []db.Batch // nil entry = never allocated (creation failed)
	snaps   []db.Snapshot
	iters   []db.Iterator
	clean   func()
}

func NewWorld(b Backend) (*World, error) {
	s, clean, err := b.Open()
	if err != nil {
		return nil, err
	}
	return &World{name: b.Name, store: s, clean: clean}, nil
}

// Dispose closes whatever is still open (errors and panics ignored) and removes the directory.
func (w *World) Dispose() {
	for _, it := range w.iters {
		if it != nil {
			lib.Try(func() error { return it.Close() })
		}
	}
	for _, b := range w.batches {
		if b != nil {
			lib.Try(func() error { return b.Close() })
		}
	}
	for _, s := range w.snaps {
		if s != nil {
			lib.Try(func() error { return s.Close() })
		}
	}
	if !w.closed {
		lib.Try(func() error { return w.store.Close() })
	}
	w.clean()
}

func classify(err error) string {
	switch {
	case err == nil:
		return "ok"
	case errors.Is(err, errCb):
		return "err:cb"
	case errors.Is(err, db.ErrKeyNotFound):
		return "notfound"
	case errors.Is(err, cpebble.ErrNotFound), errors.Is(err, cpebble2.ErrNotFound):
		return "err:pebble-notfound"
	case errors.Is(err, cpebble.ErrClosed), errors.Is(err, cpebble2.ErrClosed), strings.Contains(err.Error(), "closed"):
		return "err:closed"
	case strings.Contains(err.Error(), "iterator is not valid"):
		return "err:invalid"
	}
	return "err:other"
}

func bs(b []byte, nilB bool) []byte {
	if len(b) == 0 {
		if nilB {
			return nil
		}
		return []byte{}
	}
	return append([]byte{}, b...)
}

func kv(k, v []byte) string { return hx(k) + "=" + hx(v) }

// cur renders Valid/Key/Value of an iterator.
func cur(it db.Iterator) string {
	if !it.Valid() {
		return "invalid"
	}
	k := it.Key()
	v, err := it.Value()
	if err != nil {
		return "valid-but-value-" + classify(err)
	}
	return kv(k, v)
}

func tf(b bool) string {
	if b {
		return "T"
	}
	return "F"
}

func (w *World) reader(src string) (db.KeyValueReader, string) {
	if src == "db" {
		return w.store, ""
	}
	n, err := strconv.Atoi(src[1:])
	if err != nil {
		return nil, "bad-op"
	}
	switch src[0] {
	case 'b':
		if n >= len(w.batches) || w.batches[n] == nil {
			return nil, "bad-handle"
		}
		ib, ok := w.batches[n].(db.IndexedBatch)
		if !ok {
			return nil, "bad-handle"
		}
		return ib, ""
	case 's':
		if n >= len(w.snaps) || w.snaps[n] == nil {
			return nil, "bad-handle"
		}
		return w.snaps[n], ""
	}
	return nil, "bad-op"
}

func doGet(r db.KeyValueReader, o Op) string {
	var got []byte
	seen := false
	err := r.Get(bs(o.Key, o.NilB), func(v []byte) error {
		seen = true
		got = append([]byte{}, v...)
		if o.Fail {
			return errCb
		}
		return nil
	})
	if err != nil {
		return classify(err)
	}
	if !seen {
		return "err:callback-not-called"
	}
	return "val:" + hx(got)
}

func doHas(r db.KeyValueReader, o Op) string {
	ok, err := r.Has(bs(o.Key, o.NilB))
	if err != nil {
		return classify(err)
	}
	return strconv.FormatBool(ok)
}

const scanCap = 4096

func doScan(r db.KeyValueReader, o Op) string {
	it, err := r.NewIterator(bs(o.Key, o.NilB), o.U)
	if err != nil {
		return classify(err)
	}
	var parts []string
	n := 0
	for ok := it.First(); ok; ok = it.Next() {
		parts = append(parts, cur(it))
		n++
		if n > scanCap {
			parts = append(parts, "unbounded")
			break
		}
	}
	if err := it.Close(); err != nil {
		return "close-" + classify(err)
	}
	return "[" + strings.Join(parts, ",") + "]"
}

// Exec runs one op; panics of the code under test become the output "panic".
func (w *World) Exec(o Op) (out string) {
	done := lib.WithDeadline(20*time.Second, func() {
		err, panicked, _ := lib.Try(func() error { out = w.exec(o); return nil })
		_ = err
		if panicked {
			out = "panic"
		}
	})
	if !done {
		return "hang"
	}
	return out
}

func (w *World) batch(h int) db.Batch {
	if h < 0 || h >= len(w.batches) {
		return nil
	}
	return w.batches[h]
}

func (w *World) iter(h int) db.Iterator {
	if h < 0 || h >= len(w.iters) {
		return nil
	}
	return w.iters[h]
}

func (w *World) exec(o Op) string {
	switch o.K {
	case "put":
		return classify(w.store.Put(bs(o.Key, o.NilB), bs(o.Val, o.NilB)))
	case "del":
		return classify(w.store.Delete(bs(o.Key, o.NilB)))
	case "delrange":
		return classify(w.store.DeleteRange(bs(o.Key, o.NilB), bs(o.End, o.NilB)))
	case "get", "has", "scan", "iter":
		r, bad := w.reader(o.Src)
		if bad != "" {
			if o.K == "iter" {
				w.iters = append(w.iters, nil)
			}
			return bad
		}
		switch o.K {
		case "get":
			return doGet(r, o)
		case "has":
			return doHas(r, o)
		case "scan":
			return doScan(r, o)
		}
		it, err := r.NewIterator(bs(o.Key, o.NilB), o.U)
		if err != nil {
			w.iters = append(w.iters, nil)
			return classify(err)
		}
		w.iters = append(w.iters, it)
		return "h:" + strconv.Itoa(len(w.iters)-1)
	case "newbatch":
		var b db.Batch
		switch {
		case o.Idx && o.U:
			b = w.store.NewIndexedBatchWithSize(64)
		case o.Idx:
			b = w.store.NewIndexedBatch()
		case o.U:
			b = w.store.NewBatchWithSize(64)
		default:
			b = w.store.NewBatch()
		}
		if ib, ok := b.(db.IndexedBatch); ok && o.Idx {
			switch o.Wrap {
			case "sync":
				b = db.NewSyncBatch(ib)
			case "buffer":
				b = db.NewBufferBatch(ib)
			}
		}
		w.batches = append(w.batches, b)
		return "h:" + strconv.Itoa(len(w.batches)-1)
	case "bput", "bdel", "bdelrange", "bsize", "bwrite", "bclose":
		b := w.batch(o.H)
		if b == nil {
			return "bad-handle"
		}
		switch o.K {
		case "bput":
			return classify(b.Put(bs(o.Key, o.NilB), bs(o.Val, o.NilB)))
		case "bdel":
			return classify(b.Delete(bs(o.Key, o.NilB)))
		case "bdelrange":
			return classify(b.DeleteRange(bs(o.Key, o.NilB), bs(o.End, o.NilB)))
		case "bsize":
			return "n:" + strconv.Itoa(b.Size())
		case "bwrite":
			return classify(b.Write())
		}
		return classify(b.Close())
	case "snap":
		s := w.store.NewSnapshot() // panics on a closed store (both backends)
		w.snaps = append(w.snaps, s)
		return "h:" + strconv.Itoa(len(w.snaps)-1)
	case "sclose":
		if o.H >= len(w.snaps) || w.snaps[o.H] == nil {
			return "bad-handle"
		}
		err := w.snaps[o.H].Close()
		w.snaps[o.H] = nil
		return classify(err)
	case "first", "next", "prev", "seek", "value", "iclose":
		it := w.iter(o.H)
		if it == nil {
			return "bad-handle"
		}
		switch o.K {
		case "first":
			r := it.First()
			return tf(r) + " " + cur(it)
		case "next":
			r := it.Next()
			return tf(r) + " " + cur(it)
		case "prev":
			r := it.Prev()
			return tf(r) + " " + cur(it)
		case "seek":
			r := it.Seek(bs(o.Key, o.NilB))
			return tf(r) + " " + cur(it)
		case "value":
			v, err := it.Value()
			if err != nil {
				return classify(err)
			}
			if !it.Valid() {
				return "nil" // Pebble: (nil, nil) on an iterator that is not valid
			}
			return "val:" + hx(v) // nil and empty values are the same value
		}
		return classify(it.Close())
	case "update":
		var outs []string
		entered := false
		run := func(b db.Batch) error {
			entered = true
			ib, _ := b.(db.IndexedBatch)
			for _, in := range o.Inner {
				var s string
				switch in.K {
				case "put":
					s = classify(b.Put(bs(in.Key, in.NilB), bs(in.Val, in.NilB)))
				case "del":
					s = classify(b.Delete(bs(in.Key, in.NilB)))
				case "delrange":
					s = classify(b.DeleteRange(bs(in.Key, in.NilB), bs(in.End, in.NilB)))
				case "get":
					if ib == nil || !o.Idx {
						s = "bad-op"
					} else {
						s = doGet(ib, in)
					}
				case "has":
					if ib == nil || !o.Idx {
						s = "bad-op"
					} else {
						s = doHas(ib, in)
					}
				case "scan":
					if ib == nil || !o.Idx {
						s = "bad-op"
					} else {
						s = doScan(ib, in)
					}
				default:
					s = "bad-op"
				}
				outs = append(outs, s)
			}
			if o.Fail {
				return errCb
			}
			return nil
		}
		var err error
		if o.Idx {
			err = w.store.Update(func(b db.IndexedBatch) error { return run(b) })
		} else {
			err = w.store.Write(func(b db.Batch) error { return run(b) })
		}
		if !entered || len(outs) == 0 {
			return "-> " + classify(err)
		}
		return strings.Join(outs, ";") + " -> " + classify(err)
	case "close":
		err := w.store.Close()
		w.closed = true
		return classify(err)
	}
	return "bad-op"
}
