//go:build verif

// Harness for C05: crash / fault enumeration over the real juno storage code, replayed on the
// Lean model (see notes/C05.md).
package main

import (
	"context"
	"encoding/json"
	"fmt"
	"os"
	"runtime"
	"sync"
	"time"

	"github.com/NethermindEth/juno/core"
	"github.com/NethermindEth/juno/db"
	"github.com/NethermindEth/juno/db/memory"
	"github.com/NethermindEth/juno/db/pebblev2"
	"github.com/NethermindEth/juno/pruner"
	"verif/harness/lib"
)

// ---------------------------------------------------------------------------------------------
// Scenario families. Every scenario is a pure function of (family, seed, backends): a replay file
// names exactly these.
// ---------------------------------------------------------------------------------------------

type scenKey struct {
	Family  string `json:"scenario"`
	Seed    uint64 `json:"seed"`
	SrcNew  bool   `json:"src_new_state"`
	DstNew  bool   `json:"dst_new_state"`
	Backend string `json:"backend"`
}

func newScenario(k scenKey, g *lib.ChainGen) *Scenario {
	return &Scenario{Name: k.Family, Seed: k.Seed, SrcNew: k.SrcNew, DstNew: k.DstNew, Queries: eventQueries(g),
		U: newUniverse(g), Backend: k.Backend}
}

// randomTail appends nops random steps. mix chooses the op distribution.
func randomTail(b *builder, nops int, withL1 bool) {
	g, r := b.g, b.r
	for n := 0; n < nops; n++ {
		h := g.Height()
		switch x := r.Intn(20); {
		case h == 0 || x < 9:
			switch y := r.Intn(6); {
			case y == 0:
				b.finalise(eventfulSpec(g, r, ""))
			case y < 4:
				b.store(eventfulSpec(g, r, ""))
			default:
				b.store(nil)
			}
		case x < 12:
			b.revert()
		case x < 13:
			if !b.rejectedParent() {
				b.rejected()
			}
		case x < 15:
			if withL1 {
				b.l1head()
			} else {
				b.store(eventfulSpec(g, r, ""))
			}
		case x < 16:
			b.simple("snap")
		case x < 18:
			b.simple("restart")
		default:
			b.simple("kill")
		}
	}
}

// short: random histories from the empty chain.
func shortScenario(k scenKey, nops int) *Scenario {
	r := lib.NewRNG(k.Seed)
	g := lib.NewChainGen(r, k.SrcNew, lib.DefaultGenOptions())
	sc := newScenario(k, g)
	b := &builder{g: g, r: r, sc: sc}
	sc.BaseWorld = b.world()
	randomTail(b, nops, true)
	return sc
}

// rejects: both refusals of verifyBlockSuccession (wrong number, wrong parent) and the sequencer's
// Finalise path, in a fixed shape.
func rejectsScenario(k scenKey) *Scenario {
	r := lib.NewRNG(k.Seed)
	g := lib.NewChainGen(r, k.SrcNew, lib.DefaultGenOptions())
	sc := newScenario(k, g)
	b := &builder{g: g, r: r, sc: sc}
	sc.BaseWorld = b.world()
	b.simple("badrevert") // RevertHead on the empty chain
	b.rejectedTampered("newroot")
	b.store(eventfulSpec(g, r, ""))
	b.rejectedTampered("oldroot")
	b.finalise(eventfulSpec(g, r, ""))
	b.rejectedTampered("newroot")
	b.revert()
	b.store(eventfulSpec(g, r, ""))
	if !b.rejectedParent() {
		panic("harness: no orphan block to offer")
	}
	b.rejected()
	b.finalise(eventfulSpec(g, r, ""))
	b.simple("kill")
	b.revert()
	b.finalise(eventfulSpec(g, r, ""))
	return sc
}

// storeWhere stores (or finalises) the next block of the given protocol version, drawing blocks
// until one satisfies pred (the generator is rolled back after each unsuitable draw).
func (b *builder) storeWhere(version string, pred func(*lib.Bundle) bool, finalise bool) {
	for try := 0; try < 400; try++ {
		bd, err := b.g.Next(eventfulSpec(b.g, b.r, version))
		if err != nil {
			panic(fmt.Sprintf("generator: %v", err))
		}
		if pred(bd) {
			op := "store"
			if finalise {
				op = "finalise"
			}
			b.push(Step{Op: op, B: bd})
			return
		}
		if err := b.g.Revert(); err != nil {
			panic(fmt.Sprintf("generator: %v", err))
		}
	}
	panic("harness: the generator produced no block of the wanted kind in 400 draws")
}

// classes: the rarely taken branches of writeBlockContent / deleteBlockContent — CASM-hash
// metadata of a class declared before 0.14.1 (v1 hash, v2 computed), of one declared from 0.14.1 on,
// of a MIGRATED class (metadata read from the database and rewritten; RevertHead un-migrates it), an
// L1-handler transaction (message-hash lookup) — stored, reverted across a process restart and
// stored again, so that every one of them is written, deleted and rewritten under every fault.
func classesScenario(k scenKey) *Scenario {
	r := lib.NewRNG(k.Seed)
	opt := lib.DefaultGenOptions()
	opt.Versions = []string{"0.14.0", "0.14.1"}
	g := lib.NewChainGen(r, k.SrcNew, opt)
	sc := newScenario(k, g)
	b := &builder{g: g, r: r, sc: sc}
	sc.BaseWorld = b.world()
	declares := func(bd *lib.Bundle) bool { return len(bd.SU.StateDiff.DeclaredV1Classes) > 0 }
	migrates := func(bd *lib.Bundle) bool { return len(bd.SU.StateDiff.MigratedClasses) > 0 }
	l1 := func(bd *lib.Bundle) bool {
		for _, tx := range bd.Block.Transactions {
			if _, ok := tx.(*core.L1HandlerTransaction); ok {
				return true
			}
		}
		return false
	}
	b.storeWhere("0.14.0", declares, false)
	b.storeWhere("0.14.1", migrates, k.Seed%2 == 1)
	b.revert()
	if k.Seed%3 == 0 {
		b.simple("kill")
	}
	b.storeWhere("0.14.1", migrates, false)
	b.storeWhere("0.14.1", func(bd *lib.Bundle) bool { return declares(bd) || l1(bd) }, false)
	b.simple("restart")
	b.revert()
	b.revert()
	b.revert()
	b.storeWhere("0.14.0", l1, k.Seed%2 == 0)
	return sc
}

// genesis: block 0 through the node's own StoreGenesis (Finalise of a header-less block built
// around a state diff), a few blocks on top, everything reverted down to the EMPTY chain (RevertHead
// of the genesis block deletes the chain height), the same genesis stored again.
func genesisScenario(k scenKey) *Scenario {
	r := lib.NewRNG(k.Seed)
	opt := lib.DefaultGenOptions()
	opt.Versions = []string{"0.13.2", "0.14.0"}
	g := lib.NewChainGen(r, k.SrcNew, opt)
	sc := newScenario(k, g)
	b := &builder{g: g, r: r, sc: sc}
	sc.BaseWorld = b.world()
	diff, classes := g.GenDiff(lib.NewAbsState(), 0, "0.13.2")
	b.genesis(diff, classes)
	b.store(eventfulSpec(g, r, "0.13.2"))
	if k.Seed%2 == 0 {
		b.simple("restart")
	}
	b.store(eventfulSpec(g, r, "0.13.2"))
	b.revert()
	b.revert()
	b.revert()
	if k.Seed%3 == 0 {
		b.simple("kill")
	}
	b.genesis(diff, classes)
	b.store(eventfulSpec(g, r, "0.13.2"))
	return sc
}

var exhaustiveOps = []string{"store", "finalise", "revert", "rejected", "snap", "restart", "kill", "l1head"}

// exhaustive: after a fixed prefix (two blocks, graceful restart, one block) EVERY pair of calls
// from the alphabet above, followed by one store; the pair is seed % 64.
func exhaustiveScenario(k scenKey) *Scenario {
	r := lib.NewRNG(k.Seed / 64)
	g := lib.NewChainGen(r, k.SrcNew, lib.DefaultGenOptions())
	sc := newScenario(k, g)
	b := &builder{g: g, r: r, sc: sc}
	sc.BaseWorld = b.world()
	b.store(eventfulSpec(g, r, ""))
	b.store(eventfulSpec(g, r, ""))
	b.simple("restart")
	b.store(eventfulSpec(g, r, ""))
	pair := int(k.Seed % 64)
	for _, op := range []string{exhaustiveOps[pair/8], exhaustiveOps[pair%8]} {
		switch op {
		case "store":
			b.store(eventfulSpec(g, r, ""))
		case "finalise":
			b.finalise(eventfulSpec(g, r, ""))
		case "revert":
			b.revert()
		case "rejected":
			if !b.rejectedParent() {
				b.rejected()
			}
		case "l1head":
			b.l1head()
		default:
			b.simple(op)
		}
	}
	b.store(eventfulSpec(g, r, ""))
	return sc
}

// snapshotReorg: the shape of lead L3 — blocks, graceful restart, reverts below the snapshot,
// replacement blocks, ungraceful restart, one more block.
func snapshotReorgScenario(k scenKey) *Scenario {
	r := lib.NewRNG(k.Seed)
	g := lib.NewChainGen(r, k.SrcNew, lib.DefaultGenOptions())
	sc := newScenario(k, g)
	b := &builder{g: g, r: r, sc: sc}
	sc.BaseWorld = b.world()
	for i := 0; i < 2+r.Intn(2); i++ {
		b.store(eventfulSpec(g, r, ""))
	}
	b.simple("restart")
	nrev := 1 + r.Intn(2)
	for i := 0; i < nrev; i++ {
		b.revert()
	}
	for i := 0; i < nrev; i++ {
		b.store(eventfulSpec(g, r, ""))
	}
	b.simple("kill")
	b.store(eventfulSpec(g, r, ""))
	return sc
}

// prune: a pruning node (pruner's filter initialiser) with multi-batch prunes between stores,
// reverts and restarts.
func pruneScenario(k scenKey) *Scenario {
	r := lib.NewRNG(k.Seed)
	opt := lib.DefaultGenOptions()
	g := lib.NewChainGen(r, k.SrcNew, opt)
	sc := newScenario(k, g)
	sc.Pruning = true
	sc.ViaPruner = k.Seed%2 == 0
	b := &builder{g: g, r: r, sc: sc}
	sc.BaseWorld = b.world()
	// (the pruner never prunes near the head; reverts stay above the retention floor)
	for i := 0; i < 6+r.Intn(2); i++ {
		b.store(eventfulSpec(g, r, ""))
	}
	b.prune(uint64(1 + r.Intn(2)))
	b.store(eventfulSpec(g, r, ""))
	if r.Bool() {
		b.simple("kill")
	} else {
		b.simple("restart")
	}
	b.prune(uint64(3 + r.Intn(2)))
	b.revert()
	b.store(eventfulSpec(g, r, ""))
	return sc
}

const oneBatch = 1 << 30

// pruneDeep: a pruning node whose persisted snapshot (next = 5) lies more than BlockHashLag below
// the retention floor after a deep single-batch prune: the pruner's filter initialiser must clamp
// the resume point to the floor (the headers below floor-lag are gone). Base: blocks 0..4,
// snapshot, blocks 5..29 (mostly empty), process killed.
func pruneDeepScenario(k scenKey) *Scenario {
	r := lib.NewRNG(k.Seed)
	g := lib.NewChainGen(r, k.SrcNew, lib.DefaultGenOptions())
	sc := newScenario(k, g)
	sc.Pruning = true
	sc.ViaPruner = k.Seed%2 == 0
	dst, dstDB := lib.NewNode(g.Net, k.DstNew)
	fastForward(g, dst, 5, 2, r)
	if err := dst.WriteRunningEventFilter(); err != nil {
		panic(err)
	}
	fastForward(g, dst, 25, 4, r)
	sc.Base = dstDB
	b := &builder{g: g, r: r, sc: sc}
	sc.BaseWorld = b.world()
	b.pruneWith(uint64(22+r.Intn(4)), oneBatch)
	b.simple("kill")
	b.store(eventfulSpec(g, r, ""))
	b.prune(b.flr + 2)
	if r.Bool() {
		b.simple("restart")
	}
	b.revert()
	b.store(eventfulSpec(g, r, ""))
	return sc
}

// boundaryPrune: a pruning node across the event-window boundary: a base pruned below 8184, blocks
// up to 8194, a single-batch prune to 8189, a multi-batch prune up to / past the boundary (window
// [0,8191] goes when the target reaches 8192), ungraceful restart, revert, store.
func boundaryPruneScenario(k scenKey, graceful bool) *Scenario {
	bb := getBoundaryBase(k.DstNew)
	r := lib.NewRNG(k.Seed)
	g := cloneGen(bb.g, r)
	sc := newScenario(k, g)
	sc.SrcNew = k.DstNew
	sc.Pruning = true
	sc.Base = bb.killedPruned
	if graceful {
		sc.Base = bb.gracefulPruned
	}
	sc.ViaPruner = true
	b := &builder{g: g, r: r, sc: sc, flr: basePruneFloor}
	sc.BaseWorld = b.world()
	for i := 0; i < 6; i++ {
		b.store(eventfulSpec(g, r, ""))
	}
	w := uint64(core.NumBlocksPerFilter)
	b.pruneWith(w-3, oneBatch)
	b.simple("kill")
	// the multi-batch prune ends just below, at, or just above the window boundary (the persisted
	// window [0,8191] goes exactly when the target reaches 8192): target = W-1 .. W+2 by seed
	b.prune(w - 1 + k.Seed%4)
	b.simple("kill")
	b.revert()
	b.store(eventfulSpec(g, r, ""))
	return sc
}

// pruneMixed: a pruning node under a RANDOM history in which prunes (one batch per block, a few
// blocks per batch, or a single batch; targets anywhere between the floor and the head, so that they
// straddle BlockHashLag = 10 from both sides) alternate with stores, reverts (never below the
// floor), refused offers, snapshots, graceful and ungraceful restarts and L1-head updates.
func pruneMixedScenario(k scenKey, nops int) *Scenario {
	r := lib.NewRNG(k.Seed)
	g := lib.NewChainGen(r, k.SrcNew, lib.DefaultGenOptions())
	sc := newScenario(k, g)
	sc.Pruning = true
	sc.ViaPruner = k.Seed%2 == 0
	b := &builder{g: g, r: r, sc: sc}
	sc.BaseWorld = b.world()
	for i := 0; i < 4+r.Intn(11); i++ {
		b.store(eventfulSpec(g, r, ""))
	}
	pruned := false
	for n := 0; n < nops; n++ {
		h := uint64(g.Height() - 1) // number of the head block
		x := r.Intn(20)
		if n == nops-2 && !pruned {
			x = 9 // every history of the family prunes at least once
		}
		switch {
		case x < 6:
			if r.Chance(1, 4) {
				b.finalise(eventfulSpec(g, r, ""))
			} else {
				b.store(eventfulSpec(g, r, ""))
			}
		case x < 8:
			if h > b.flr {
				b.revert()
			} else {
				b.store(eventfulSpec(g, r, ""))
			}
		case x < 12:
			top := h // highest target: the head itself stays (the Pruner service stops one below)
			if sc.ViaPruner {
				top = h - 1
			}
			if top <= b.flr {
				b.store(eventfulSpec(g, r, ""))
				continue
			}
			to := b.flr + 1 + uint64(r.Intn(int(top-b.flr)))
			switch r.Intn(3) {
			case 0:
				b.prune(to)
			case 1:
				b.pruneWith(to, 200+r.Intn(600))
			default:
				b.pruneWith(to, oneBatch)
			}
			pruned = true
		case x < 13:
			b.simple("snap")
		case x < 15:
			b.simple("restart")
		case x < 17:
			b.simple("kill")
		case x < 18:
			if !b.rejectedParent() {
				b.rejected()
			}
		default:
			b.l1head()
		}
	}
	b.store(eventfulSpec(g, r, ""))
	return sc
}

// boundaryBase is a node holding W-2 blocks (a few with events), stopped gracefully or killed.
type boundaryBase struct {
	g        *lib.ChainGen
	graceful *memory.Database
	killed   *memory.Database
	// the same two images pruned below basePruneFloor in one batch (a pruning node's base; the
	// model driver builds this image in closed form, see Driver.lean `base <snap> <floor>`)
	gracefulPruned *memory.Database
	killedPruned   *memory.Database
}

// basePruneFloor: retention floor of the pruned base images (W-8).
const basePruneFloor = uint64(core.NumBlocksPerFilter) - 8

var (
	baseMu    sync.Mutex
	baseCache = map[bool]*boundaryBase{}
)

func getBoundaryBase(newState bool) *boundaryBase {
	baseMu.Lock()
	defer baseMu.Unlock()
	if bb, ok := baseCache[newState]; ok {
		return bb
	}
	r := lib.NewRNG(0xB0DA)
	opt := lib.DefaultGenOptions()
	opt.Versions = []string{"0.14.0", "0.14.1"}
	g := lib.NewChainGen(r, newState, opt)
	dst, dstDB := lib.NewNode(g.Net, newState)
	fastForward(g, dst, int(core.NumBlocksPerFilter)-2, 1500, r)
	bb := &boundaryBase{g: g, killed: dstDB.Copy()}
	if err := dst.WriteRunningEventFilter(); err != nil {
		panic(err)
	}
	bb.graceful = dstDB.Copy()
	for _, pair := range [][2]**memory.Database{{&bb.killedPruned, &bb.killed}, {&bb.gracefulPruned, &bb.graceful}} {
		c := (*pair[1]).Copy()
		if _, _, err := pruner.PruneUpto(context.Background(), c, basePruneFloor, oneBatch); err != nil {
			panic(fmt.Sprintf("pruning the boundary base: %v", err))
		}
		*pair[0] = c
	}
	baseCache[newState] = bb
	return bb
}

// cloneGen continues a generator on a private copy of its source node.
func cloneGen(g *lib.ChainGen, r *lib.RNG) *lib.ChainGen {
	c := *g
	c.SrcDB = g.SrcDB.Copy()
	c.Src = lib.NodeOn(c.SrcDB, g.Net, g.NewState)
	c.R = r
	c.Bundles = append([]*lib.Bundle(nil), g.Bundles...)
	c.States = append([]*lib.AbsState(nil), g.States...)
	return &c
}

var initFaultOps = []string{"snap", "restart", "revert", "store"}

// boundaryInitFault: the one situation in which a lazy filter initialisation WRITES (a fill that
// reaches the end of a window persists it): snapshot with next = 8190, blocks 8190 and 8191
// stored, process killed. The first call of the new process is a snapshot write, a graceful
// restart, a RevertHead or a Store (variant = seed %% 4); every commit — the initialisation's
// window write among them — fails once / is a crash point.
func boundaryInitFaultScenario(k scenKey) *Scenario {
	bb := getBoundaryBase(k.DstNew)
	r := lib.NewRNG(k.Seed)
	g := cloneGen(bb.g, r)
	sc := newScenario(k, g)
	sc.SrcNew = k.DstNew
	sc.Base = bb.graceful
	b := &builder{g: g, r: r, sc: sc}
	sc.BaseWorld = b.world()
	b.store(eventfulSpec(g, r, ""))
	b.store(eventfulSpec(g, r, ""))
	b.simple("kill")
	switch initFaultOps[k.Seed%4] {
	case "snap":
		b.simple("snap")
	case "restart":
		b.simple("restart")
	case "revert":
		b.revert()
		b.store(eventfulSpec(g, r, ""))
	case "store":
	}
	b.store(eventfulSpec(g, r, ""))
	return sc
}

// boundaryInitFaultPruned: the same situation on a PRUNING node — the floor-aware initialiser
// resumes the snapshot from max(next, floor). After blocks 8190 and 8191 the node prunes in one
// batch, either to 8191 (the floor lies ABOVE the snapshot's next block 8190: the resume point is
// clamped, the fill is the single block 8191, which is the last of its window and is persisted
// directly) or to 8186 (floor below the snapshot); then the process is killed and the first call of
// the new process is a snapshot write, a graceful restart, a RevertHead (floor 8190 then, so that
// the revert stays above it) or a Store.
func boundaryInitFaultPrunedScenario(k scenKey) *Scenario {
	bb := getBoundaryBase(k.DstNew)
	r := lib.NewRNG(k.Seed)
	g := cloneGen(bb.g, r)
	sc := newScenario(k, g)
	sc.SrcNew = k.DstNew
	sc.Pruning = true
	sc.Base = bb.gracefulPruned
	b := &builder{g: g, r: r, sc: sc, flr: basePruneFloor}
	sc.BaseWorld = b.world()
	b.store(eventfulSpec(g, r, ""))
	b.store(eventfulSpec(g, r, ""))
	w := uint64(core.NumBlocksPerFilter)
	first := initFaultOps[k.Seed%4]
	switch {
	case first == "revert":
		b.pruneWith(w-2, oneBatch)
	case (k.Seed/4)%2 == 0:
		b.pruneWith(w-1, oneBatch)
	default:
		b.pruneWith(w-6, oneBatch)
	}
	b.simple("kill")
	switch first {
	case "snap":
		b.simple("snap")
	case "restart":
		b.simple("restart")
	case "revert":
		b.revert()
		b.store(eventfulSpec(g, r, ""))
	case "store":
	}
	b.store(eventfulSpec(g, r, ""))
	return sc
}

// boundary: histories around the 8192-block window boundary. directed = the fixed shape
// store×3, revert×2 (back across the boundary), store×2, kill, store; otherwise random.
func boundaryScenario(k scenKey, graceful, directed bool, nops int) *Scenario {
	bb := getBoundaryBase(k.DstNew)
	r := lib.NewRNG(k.Seed)
	g := cloneGen(bb.g, r)
	sc := newScenario(k, g)
	sc.SrcNew = k.DstNew
	sc.Base = bb.killed
	if graceful {
		sc.Base = bb.graceful
	}
	b := &builder{g: g, r: r, sc: sc}
	sc.BaseWorld = b.world()
	if directed {
		// blocks 8190, 8191 (the last of its window), 8192; back across the boundary; 8191 and 8192
		// again. By seed the boundary blocks go through Finalise (the sequencer's path, which has
		// its own copy of the Store logic) instead of Store.
		put := func(i uint64) {
			if (k.Seed>>i)&1 == 1 {
				b.finalise(eventfulSpec(g, r, ""))
			} else {
				b.store(eventfulSpec(g, r, ""))
			}
		}
		b.store(eventfulSpec(g, r, ""))
		put(0)
		b.store(eventfulSpec(g, r, ""))
		b.revert()
		b.revert()
		put(1)
		b.store(eventfulSpec(g, r, ""))
		b.simple("kill")
		b.store(eventfulSpec(g, r, ""))
		return sc
	}
	// random walk kept within a few blocks of the boundary
	w := int(core.NumBlocksPerFilter)
	for n := 0; n < nops; n++ {
		h := g.Height() // number of blocks
		switch x := r.Intn(20); {
		case h <= w-2 || (x < 9 && h < w+3):
			b.store(eventfulSpec(g, r, ""))
		case x < 14 || h >= w+3:
			b.revert()
		case x < 15:
			b.rejected()
		case x < 16:
			b.simple("snap")
		case x < 18:
			b.simple("restart")
		default:
			b.simple("kill")
		}
	}
	return sc
}

func buildScenario(k scenKey, f lib.Flags) *Scenario {
	var sc *Scenario
	switch k.Family {
	case "short":
		sc = shortScenario(k, f.Scale(7, 10))
	case "snapshot-reorg":
		sc = snapshotReorgScenario(k)
	case "rejects":
		sc = rejectsScenario(k)
	case "exhaustive":
		sc = exhaustiveScenario(k)
	case "classes":
		sc = classesScenario(k)
	case "genesis":
		sc = genesisScenario(k)
	case "prune":
		sc = pruneScenario(k)
	case "prune-deep":
		sc = pruneDeepScenario(k)
	case "boundary-prune-killed":
		sc = boundaryPruneScenario(k, false)
	case "boundary-prune-graceful":
		sc = boundaryPruneScenario(k, true)
	case "boundary-init-fault":
		sc = boundaryInitFaultScenario(k)
	case "boundary-init-fault-pruned":
		sc = boundaryInitFaultPrunedScenario(k)
	case "prune-mixed":
		sc = pruneMixedScenario(k, f.Scale(8, 12))
	case "l2-service":
		sc = l2ServiceScenario(k)
	case "boundary-directed-killed":
		sc = boundaryScenario(k, false, true, 0)
	case "boundary-directed-graceful":
		sc = boundaryScenario(k, true, true, 0)
	case "boundary-random-killed":
		sc = boundaryScenario(k, false, false, f.Scale(7, 10))
	case "boundary-random-graceful":
		sc = boundaryScenario(k, true, false, f.Scale(7, 10))
	default:
		panic("unknown scenario family " + k.Family)
	}
	if k.Backend == "pebble" {
		sc.NewStore = pebbleStore
	}
	// a third of the never-pruning histories run on a node built with the plain initialiser
	// (option WithRunningEventFilterInitializer), the others with blockchain.New's default
	if !sc.Pruning && (k.Seed+uint64(len(k.Family)))%3 == 0 {
		sc.CoreInit = true
	}
	return sc
}

var pebbleSeq struct {
	sync.Mutex
	n int
}

// pebbleStore opens a Pebble database under /tmp/aC05 holding a copy of the base image.
func pebbleStore(base *memory.Database) (db.KeyValueStore, func()) {
	pebbleSeq.Lock()
	pebbleSeq.n++
	dir := fmt.Sprintf("/tmp/aC05/pebble-%d-%d", os.Getpid(), pebbleSeq.n)
	pebbleSeq.Unlock()
	if err := os.MkdirAll(dir, 0o755); err != nil {
		panic(err)
	}
	p, err := pebblev2.New(dir)
	if err != nil {
		panic(err)
	}
	if base != nil {
		it, _ := base.NewIterator(nil, false)
		batch := p.NewBatch()
		for ok := it.First(); ok; ok = it.Next() {
			v, _ := it.Value()
			if err := batch.Put(it.Key(), v); err != nil {
				panic(err)
			}
		}
		it.Close()
		if err := batch.Write(); err != nil {
			panic(err)
		}
	}
	return p, func() { _ = p.Close(); _ = os.RemoveAll(dir) }
}

// runJobs runs the scenarios concurrently (each has its own PRNG stream, so results do not
// depend on scheduling).
func runJobs(r *runner, keys []scenKey) {
	var wg sync.WaitGroup
	for _, k := range keys {
		wg.Add(1)
		go func() {
			defer wg.Done()
			if k.Family == "l2-matrix" {
				defer func() {
					if p := recover(); p != nil {
						r.res.Violate(lib.Violation{Sig: "fault-free-source-node-fails", What: fmt.Sprintf("building history %s/%d: %v", k.Family, k.Seed, p),
							Replay: map[string]any{"scenario": k.Family, "seed": k.Seed, "src_new_state": k.SrcNew, "dst_new_state": k.DstNew, "backend": k.Backend}})
					}
				}()
				r.runL2Matrix(k)
				return
			}
			r.runScenario(func() (sc *Scenario) {
				// the chain generator runs juno's own Finalise / RevertHead on its source node; when
				// that fails without any fault the history cannot even be manufactured
				defer func() {
					if p := recover(); p != nil {
						sc = nil
						r.res.Violate(lib.Violation{Sig: "fault-free-source-node-fails", What: fmt.Sprintf("building history %s/%d: %v", k.Family, k.Seed, p),
							Replay: map[string]any{"scenario": k.Family, "seed": k.Seed, "src_new_state": k.SrcNew, "dst_new_state": k.DstNew, "backend": k.Backend}})
					}
				}()
				return buildScenario(k, r.f)
			})
		}()
	}
	wg.Wait()
}

func main() {
	f := lib.ParseFlags()
	res := lib.NewResult("a case is one (history, fault) pair: a history of store / revert / prune / set-L1-head / snapshot / graceful and ungraceful restart " +
		"steps on the real Blockchain (both state backends; from the empty chain or next to the 8192-block event-window boundary), with no fault, " +
		"a crash after the k-th commit, or a failure of the k-th commit, for every k; non-trivial = every case (each history stores blocks with events)")
	workers := min(runtime.NumCPU(), 12)
	r := &runner{res: res, f: f, sem: make(chan struct{}, workers)}
	var probeProblem string
	r.fixes, probeProblem = probeFixes()
	checkVariantAgainstKnown(res, r.fixes)
	if probeProblem != "" {
		// the two-block history the probe runs (store, store with the last commit failing, one
		// revert of the filter) did not behave like any variant of the code
		res.Violate(lib.Violation{Sig: "fault-free-store-fails", What: "probe history (store block 0; store block 1 on a fresh instance " +
			"of the same store; store block 1 with its last commit failing): " + probeProblem,
			Replay: map[string]any{"scenario": "probe", "seed": 1}})
	}
	res.Note("repairs detected in the code under test (reset-on-error, drop-snapshot-on-revert, drop-previous-window-on-crossing, init-error-not-cached): %s", r.fixes)
	res.SetExtra("repairs_detected", r.fixes)
	if f.Driver != "" {
		r.drivers = make(chan *lib.Driver, workers)
		for i := 0; i < workers; i++ {
			d, err := lib.StartDriver(f.Driver)
			if err != nil {
				res.Fatalf("the Lean model driver %q did not start: %v", f.Driver, err)
				lib.Finish(f, res)
			}
			defer d.Close()
			r.drivers <- d
		}
		selfTestDriver(r)
	}
	t0 := time.Now()
	var keys []scenKey
	if f.Replay != "" {
		keys = replayKeys(f.Replay, r)
	} else {
		for i := 0; i < f.Scale(5, 24); i++ {
			for _, dstNew := range []bool{false, true} {
				keys = append(keys, scenKey{"short", f.Seed*1000 + uint64(i), i%2 == 0, dstNew, "memory"})
			}
		}
		for i := 0; i < f.Scale(1, 5); i++ {
			for _, dstNew := range []bool{false, true} {
				keys = append(keys, scenKey{"snapshot-reorg", f.Seed*1000 + uint64(i), i%2 == 1, dstNew, "memory"})
				keys = append(keys, scenKey{"rejects", f.Seed*1000 + uint64(i), i%2 == 0, dstNew, "memory"})
				keys = append(keys, scenKey{"prune", f.Seed*1000 + uint64(i), i%2 == 0, dstNew, "memory"})
				keys = append(keys, scenKey{"prune-deep", f.Seed*1000 + uint64(i), i%2 == 1, dstNew, "memory"})
			}
		}
		// one backend per seed in the quick tier, both in the thorough tier
		for i, dstNew := range []bool{f.Seed%2 == 0, f.Seed%2 == 1} {
			if i == 0 || f.Thorough() {
				keys = append(keys, scenKey{"boundary-prune-killed", f.Seed, dstNew, dstNew, "memory"})
			}
			if f.Thorough() {
				keys = append(keys, scenKey{"boundary-prune-graceful", f.Seed, dstNew, dstNew, "memory"})
			}
		}
		// the four first calls after the kill (snap, restart: the init error is reported by the call
		// itself; revert, store: healed by resetFilterOnError). Quick: one of each kind per seed,
		// backends alternate with the seed; thorough: all four on both backends.
		for v := uint64(0); v < 4; v++ {
			if !f.Thorough() && v%2 != f.Seed%2 {
				continue
			}
			dstNew := (f.Seed/2+v/2)%2 == 0
			keys = append(keys, scenKey{"boundary-init-fault", f.Seed*4 + v, dstNew, dstNew, "memory"})
			if f.Thorough() {
				keys = append(keys, scenKey{"boundary-init-fault", f.Seed*4 + v, !dstNew, !dstNew, "memory"})
			}
		}
		// the same on a pruning node (floor-aware initialiser, resume point clamped to the floor)
		for v := uint64(0); v < 8; v++ {
			if !f.Thorough() && v != (f.Seed*3)%8 && v != (f.Seed*3+5)%8 {
				continue
			}
			dstNew := (f.Seed+v)%2 == 0
			keys = append(keys, scenKey{"boundary-init-fault-pruned", f.Seed*8 + v, dstNew, dstNew, "memory"})
		}
		// random histories of a pruning node
		for i := 0; i < f.Scale(3, 12); i++ {
			keys = append(keys, scenKey{"prune-mixed", f.Seed*1000 + uint64(i), i%2 == 0, (uint64(i)+f.Seed)%2 == 0, "memory"})
		}
		// the L2 path of the pruner service (Pruner.onNewBlock): directed histories with every fault,
		// and the exhaustive matrix of event bursts on a small node (one backend per seed)
		for i := 0; i < f.Scale(2, 8); i++ {
			keys = append(keys, scenKey{"l2-service", f.Seed*1000 + uint64(i), i%2 == 1, (uint64(i)+f.Seed)%2 == 0, "memory"})
		}
		keys = append(keys, scenKey{"l2-matrix", f.Seed, f.Seed%2 == 0, f.Seed%2 == 1, "memory"})
		if f.Thorough() {
			keys = append(keys, scenKey{"l2-matrix", f.Seed, f.Seed%2 == 1, f.Seed%2 == 0, "memory"})
			keys = append(keys, scenKey{"l2-service", f.Seed*1000 + 900, true, true, "pebble"})
		}
		// class declarations / migrations / L1-handler messages stored, reverted and stored again
		for i := 0; i < f.Scale(2, 6); i++ {
			keys = append(keys, scenKey{"classes", f.Seed*1000 + uint64(i), i%2 == 1, (uint64(i)+f.Seed)%2 == 1, "memory"})
		}
		// StoreGenesis, RevertHead down to the empty chain
		for i := 0; i < f.Scale(1, 4); i++ {
			keys = append(keys, scenKey{"genesis", f.Seed*1000 + uint64(i), (uint64(i)+f.Seed)%2 == 0, (uint64(i)+f.Seed/2)%2 == 1, "memory"})
		}
		// Pebble v2 in the quick tier too (its batch / range-delete code is its own)
		keys = append(keys, scenKey{"short", f.Seed*1000 + 900, f.Seed%2 == 0, f.Seed%2 == 1, "pebble"})
		keys = append(keys, scenKey{"rejects", f.Seed*1000 + 900, f.Seed%2 == 1, f.Seed%2 == 0, "pebble"})
		keys = append(keys, scenKey{"prune-mixed", f.Seed*1000 + 900, f.Seed%2 == 0, f.Seed%2 == 0, "pebble"})
		for _, dstNew := range []bool{false, true} {
			keys = append(keys, scenKey{"boundary-directed-killed", f.Seed, dstNew, dstNew, "memory"})
			if f.Thorough() || dstNew == (f.Seed%2 == 1) {
				keys = append(keys, scenKey{"boundary-directed-graceful", f.Seed, dstNew, dstNew, "memory"})
			}
			for i := 0; i < f.Scale(1, 4); i++ {
				keys = append(keys, scenKey{"boundary-random-killed", f.Seed*1000 + uint64(i), dstNew, dstNew, "memory"})
				if f.Thorough() {
					keys = append(keys, scenKey{"boundary-random-graceful", f.Seed*1000 + uint64(i), dstNew, dstNew, "memory"})
				}
			}
		}
		if f.Thorough() {
			// every pair of calls after a fixed prefix, both destination backends
			for pair := uint64(0); pair < 64; pair++ {
				for _, dstNew := range []bool{false, true} {
					keys = append(keys, scenKey{"exhaustive", f.Seed*64 + pair, pair%2 == 0, dstNew, "memory"})
				}
			}
			for i := 0; i < 4; i++ {
				for _, dstNew := range []bool{false, true} {
					keys = append(keys, scenKey{"short", f.Seed*1000 + 500 + uint64(i), i%2 == 0, dstNew, "pebble"})
					keys = append(keys, scenKey{"prune", f.Seed*1000 + 500 + uint64(i), i%2 == 0, dstNew, "pebble"})
					keys = append(keys, scenKey{"prune-mixed", f.Seed*1000 + 500 + uint64(i), i%2 == 1, dstNew, "pebble"})
				}
			}
		}
	}
	runJobs(r, keys)
	res.Note("elapsed %s", time.Since(t0).Round(time.Millisecond))
	lib.Finish(f, res)
}

// replayKeys reads a replay file written by the check driver (or a bare scenario key).
func replayKeys(path string, r *runner) []scenKey {
	raw, err := os.ReadFile(path)
	if err != nil {
		panic(err)
	}
	var outer struct {
		Replay json.RawMessage `json:"replay"`
	}
	body := raw
	if json.Unmarshal(raw, &outer) == nil && len(outer.Replay) > 0 {
		body = outer.Replay
	}
	var k struct {
		scenKey
		Fault string `json:"fault"`
		K     int    `json:"k"`
	}
	if err := json.Unmarshal(body, &k); err != nil {
		panic(err)
	}
	if k.Backend == "" {
		k.Backend = "memory"
	}
	if k.Fault == "fail-commit" {
		r.onlyK = k.K
	}
	return []scenKey{k.scenKey}
}
