//go:build verif

package main

import (
	"fmt"
	"strings"
	"time"

	"github.com/NethermindEth/juno/core"
	"github.com/NethermindEth/juno/db/memory"
	"github.com/NethermindEth/juno/pruner"
	"verif/harness/lib"
)

// Round 6: the L2 path of the pruner service (Pruner.onNewBlock): guards, stale-event check, the
// in-memory counter pendingL2Heads / l2HeadsPerPrune, and the shared tail pruneUpto.

// l2ServiceScenario: a pruning node in catch-up mode (L1 head above its own chain, so the L2 path
// drives the retention floor), every step through the full machinery (twin, crash after every commit,
// failure of every commit, model):
//
//	blocks 0..h+2; L1 head h+5; two reverts (the events of blocks h+1, h+2 are now STALE);
//	burst A (threshold 2): stale event, counted event, event that prunes — up to the head itself
//	  when numRetainedBlocks = 0 (even seeds), one below it otherwise; one batch per block;
//	two blocks; burst B (threshold 3): two counted events, nothing may happen;
//	kill / graceful restart; burst C (threshold 1, numRetainedBlocks 1): an event below
//	  numRetainedBlocks, one at the L1 head, a stale one, one that prunes (a few blocks per batch);
//	revert down to the new floor, store.
func l2ServiceScenario(k scenKey) *Scenario {
	r := lib.NewRNG(k.Seed)
	g := lib.NewChainGen(r, k.SrcNew, lib.DefaultGenOptions())
	sc := newScenario(k, g)
	sc.Pruning = true
	sc.ViaPruner = true
	b := &builder{g: g, r: r, sc: sc}
	sc.BaseWorld = b.world()
	for i := 0; i < 7+r.Intn(2); i++ {
		b.store(eventfulSpec(g, r, ""))
	}
	top := uint64(g.Height() - 1)
	l1 := top + 3
	b.l1headAt(l1)
	b.revert()
	b.revert()
	h := top - 2
	retained := k.Seed % 2
	b.pruneL2([]uint64{h + 1, h - 1, h}, retained, 2, 0)
	b.store(eventfulSpec(g, r, ""))
	b.store(eventfulSpec(g, r, ""))
	b.pruneL2([]uint64{h + 1, h + 2}, 0, 3, 0)
	if (k.Seed/2)%2 == 0 {
		b.simple("kill")
	} else {
		b.simple("restart")
	}
	b.pruneL2([]uint64{0, l1, h + 3, h + 2}, 1, 1, 300)
	b.revert()
	b.store(eventfulSpec(g, r, ""))
	return sc
}

// runL2Matrix: the decision of Pruner.onNewBlock enumerated exhaustively on a small node, fault-free:
// chain 0..4 on disk (block 5 was stored and reverted: its event is stale), L1 head 7; every burst of
// 1 or 2 events with block numbers 0..7 and every burst of 3 events with numbers 1..5, for
// numRetainedBlocks 0..2 and l2HeadsPerPrune 1..3 (all nine for the short bursts; thresholds 2, 3 for
// the long ones), each on a new Pruner over a copy of the image. After every burst:
//   - property oracle: the head block is still fully present, nothing above the spec's target was
//     pruned (specL2), and every historical state the shared floor lets through
//     (RequireStateRetainedByBlockNumber) is reconstructible (oldest retained <= k+1, k <= height);
//   - model: result class, OldestRetainedBlock and the served decision for k = 0..6 against `l2events`.
func (r *runner) runL2Matrix(k scenKey) {
	r.sem <- struct{}{}
	defer func() { <-r.sem }()
	rng := lib.NewRNG(k.Seed)
	g := lib.NewChainGen(rng, k.SrcNew, lib.DefaultGenOptions())
	sc := newScenario(k, g)
	sc.Pruning, sc.ViaPruner = true, true
	b := &builder{g: g, r: rng, sc: sc}
	sc.BaseWorld = b.world()
	for i := 0; i < 6; i++ {
		b.store(eventfulSpec(g, rng, ""))
	}
	const l1num, height = 7, 4
	b.l1headAt(l1num)
	b.revert()
	store := memory.New()
	n := newNode(sc, NewFaultDB(store))
	tr := newTrace(sc, r)
	for i := range sc.Steps {
		tr.before(n)
		err := n.exec(&sc.Steps[i])
		tr.stepQ(&sc.Steps[i], err, n, store, true)
		if err != nil {
			r.violate(sc, "fault-free-"+sc.Steps[i].Op+"-fails", fmt.Sprintf("step %d %s failed without any injected fault: %v", i, &sc.Steps[i], err),
				map[string]any{"step": i, "fault": "none"})
			return
		}
	}
	lines, want := tr.script()
	add := func(l, w string) { lines = append(lines, l); want = append(want, w) }
	base := image(store)
	l1 := &core.L1Head{BlockNumber: l1num}
	var bursts [][]uint64
	for a := uint64(0); a <= 7; a++ {
		bursts = append(bursts, []uint64{a})
		for c := uint64(0); c <= 7; c++ {
			bursts = append(bursts, []uint64{a, c})
		}
	}
	nShort := len(bursts)
	for a := uint64(1); a <= 5; a++ {
		for c := uint64(1); c <= 5; c++ {
			for d := uint64(1); d <= 5; d++ {
				bursts = append(bursts, []uint64{a, c, d})
			}
		}
	}
	deadline := time.Now().Add(25 * time.Minute)
	// one burst on a new Pruner over a copy of the image; false = stop (harness failure)
	burst := func(nums []uint64, retained, per uint64, defaultThreshold bool) bool {
		if time.Now().After(deadline) {
			r.res.Fatalf("l2-matrix: harness deadline expired")
			return false
		}
		st := &Step{Op: "prune", Retained: retained, L2: nums, L2Per: per}
		if defaultThreshold {
			st.L2Per = 0 // pruner.New without WithL2HeadsPerPrune: defaultL2HeadsPerPrune
		}
		work := base.Copy()
		floor := &pruner.RetentionFloor{}
		if err := floor.Seed(work); err != nil {
			r.res.Fatalf("l2-matrix: seeding the retention floor: %v", err)
			return false
		}
		node := &Node{sc: sc, fdb: NewFaultDB(work), floor: floor}
		err, panicked, stack := lib.Try(func() error { return node.pruneViaL2(st) })
		if panicked {
			err = fmt.Errorf("%w\n%s", err, stack)
		}
		extra := map[string]any{"fault": "none", "l2_events": nums, "retained": retained, "l2_heads_per_prune": per}
		// what the burst may do
		pending, expect := uint64(0), uint64(0)
		for _, num := range nums {
			t, ok, nx, class := specL2(l1, height, num, retained, per, pending)
			pending = nx
			r.res.Hit("l2-matrix-event:" + class)
			if ok && t > expect {
				expect = t
			}
		}
		r.res.Case(fmt.Sprintf("l2-matrix/%d/%v/%d/%d", k.Seed, nums, retained, per), true)
		if err != nil {
			r.violate(sc, "fault-free-prune-fails", fmt.Sprintf("L2-head events %v (numRetainedBlocks %d, l2HeadsPerPrune %d) on chain 0..%d, L1 head %d: %v",
				nums, retained, per, height, l1num, err), extra)
			return true
		}
		oldest, oerr := pruner.OldestRetainedBlock(work)
		floorStr := "-"
		if oerr == nil {
			floorStr = fmt.Sprint(oldest)
		}
		_, cerr := core.GetBlockCommitmentByBlockNum(work, height)
		_, serr := core.GetStateUpdateByBlockNum(work, height)
		switch {
		case oerr != nil || cerr != nil || serr != nil || oldest > height:
			r.violate(sc, "l2-events-prune-the-head", fmt.Sprintf("after L2-head events %v (numRetainedBlocks %d, l2HeadsPerPrune %d) on chain 0..%d, L1 head %d, "+
				"the head block is no longer fully present: OldestRetainedBlock = %s (%v), commitments of block %d: %v, state update: %v",
				nums, retained, per, height, l1num, floorStr, oerr, height, cerr, serr), extra)
		case oldest > expect:
			r.violate(sc, "l2-events-prune-more-than-asked", fmt.Sprintf("after L2-head events %v (numRetainedBlocks %d, l2HeadsPerPrune %d) on chain 0..%d, L1 head %d "+
				"(block 5 was reverted: its event is stale) the oldest retained block is %d; the events ask for at most %d",
				nums, retained, per, height, l1num, oldest, expect), extra)
		}
		add("save", "ok")
		add(fmt.Sprintf("l2events %d %d %s -", retained, per, strings.Trim(strings.ReplaceAll(fmt.Sprint(nums), " ", ","), "[]")), errClass(err))
		add("floor", floorStr)
		for q := uint64(0); q <= 6; q++ {
			served := pruner.RequireStateRetainedByBlockNumber(work, floor, q) == nil
			if served && oerr == nil && (oldest > q+1 || q > height) {
				r.violate(sc, "pruned-state-served-after-l2-events", fmt.Sprintf("after L2-head events %v (numRetainedBlocks %d, l2HeadsPerPrune %d) the shared retention floor "+
					"lets the state at block %d through although the oldest retained block is %d (height %d)", nums, retained, per, q, oldest, height), extra)
			}
			add(fmt.Sprintf("served %d", q), map[bool]string{false: "n", true: "y"}[served])
		}
		add("load", "ok")
		return true
	}
	for bi, nums := range bursts {
		for retained := uint64(0); retained <= 2; retained++ {
			for per := uint64(1); per <= 3; per++ {
				if bi >= nShort && per == 1 {
					continue
				}
				if !burst(nums, retained, per, false) {
					return
				}
			}
		}
	}
	// the default threshold (defaultL2HeadsPerPrune = 128, no option): 127 events of block 3 only count,
	// the 128th prunes
	for _, cnt := range []int{127, 128, 129} {
		nums := make([]uint64, cnt)
		for i := range nums {
			nums[i] = 3
		}
		if !burst(nums, 1, 128, true) {
			return
		}
		r.res.Hit(fmt.Sprintf("l2-matrix-default-threshold:%d-events", cnt))
	}
	r.res.Hit("scenario:l2-matrix")
	drv := r.driver()
	if drv == nil {
		return
	}
	defer r.release(drv)
	got, err := drv.AskAll(lines)
	if err != nil {
		r.res.Fatalf("Lean driver failed while replaying l2-matrix/%d (%d requests, %d answered): %v", k.Seed, len(lines), len(got), err)
		return
	}
	r.res.Compared(len(lines))
	for i := range lines {
		if got[i] != want[i] {
			in := sc.Describe()
			in["request"] = clip(lines[i])
			in["context"] = clipAll(lines[max(0, i-10) : i+1])
			r.res.Mismatch(lib.Mismatch{Sig: "c05-model:l2-matrix:" + strings.SplitN(lines[i], " ", 2)[0], Input: in, Model: clip(got[i]), Impl: clip(want[i])})
			r.res.Hit("mismatch:l2-matrix")
			return
		}
	}
}
