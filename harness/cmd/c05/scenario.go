//go:build verif

package main

import (
	"context"
	"errors"
	"fmt"
	"sync"
	"time"

	"github.com/NethermindEth/juno/blockchain"
	"github.com/NethermindEth/juno/core"
	"github.com/NethermindEth/juno/core/felt"
	"github.com/NethermindEth/juno/db"
	"github.com/NethermindEth/juno/db/memory"
	"github.com/NethermindEth/juno/feed"
	"github.com/NethermindEth/juno/pruner"
	"github.com/NethermindEth/juno/utils/log"
	"verif/harness/lib"
)

// Step is one operation of a history together with the world the node must be in afterwards
// when nothing fails.
type Step struct {
	Op      string // store | finalise | rejected | revert | l1head | snap | restart | kill | prune
	B       *lib.Bundle
	L1      *core.L1Head
	PruneTo uint64
	// a refused offer whose roots were tampered with ("newroot" | "oldroot"); HonestRoot is the
	// root the block's diff really produces
	Tamper     string
	HonestRoot *felt.Felt
	// batch-rotation threshold of a prune step (0 = pruneBatchBytes: one batch per block)
	BatchBytes int
	// numRetainedBlocks of the pruner.Pruner that runs this prune step (scenarios with ViaPruner):
	// the L1 head it is sent is PruneTo + Retained
	Retained uint64
	// a prune step driven through the L2 path of the Pruner service (Pruner.onNewBlock): instead of an
	// L1-head event the service (a new Pruner: counter 0, l2HeadsPerPrune = L2Per) receives these
	// L2-head events (numbers of the blocks they carry), one after the other; PruneTo is the retention
	// floor the burst must leave (the floor before the step when no event may prune)
	L2    []uint64
	L2Per uint64
	// set by the fault-free run: the real sweep of this prune step committed exactly the batches the
	// model's sweep does (one per block), so a fault at batch k is the model's fault at batch k
	ModelBatches bool
	After        World
}

// pruneTarget: the target a prune step asks for, whatever the node's present floor (an L2 burst
// may ask for nothing: every event dropped or only counted).
func (s *Step) pruneTarget(before *World) (uint64, bool) {
	if len(s.L2) == 0 {
		return s.PruneTo, true
	}
	pending, best, any := uint64(0), uint64(0), false
	for _, num := range s.L2 {
		t, ok, nx, _ := specL2(before.L1, before.Height(), num, s.Retained, s.L2Per, pending)
		pending = nx
		if ok && (!any || t > best) {
			best, any = t, true
		}
	}
	return best, any
}

func (s *Step) batchBytes() int {
	if s.BatchBytes > 0 {
		return s.BatchBytes
	}
	return pruneBatchBytes
}

func (s *Step) String() string {
	switch s.Op {
	case "store":
		return fmt.Sprintf("store(%d)", s.B.Block.Number)
	case "genesis":
		return "store-genesis"
	case "finalise":
		return fmt.Sprintf("finalise(%d)", s.B.Block.Number)
	case "rejected":
		if s.Tamper != "" {
			return fmt.Sprintf("rejected-%s(%d)", s.Tamper, s.B.Block.Number)
		}
		return fmt.Sprintf("rejected(%d)", s.B.Block.Number)
	case "l1head":
		return fmt.Sprintf("l1head(%d)", s.L1.BlockNumber)
	case "prune":
		if len(s.L2) > 0 {
			return fmt.Sprintf("l2events(%v per=%d retained=%d)->prune(<%d)", s.L2, s.L2Per, s.Retained, s.PruneTo)
		}
		return fmt.Sprintf("prune(<%d)", s.PruneTo)
	}
	return s.Op
}

// Scenario is a history: a starting image (a node that was shut down gracefully after storing
// BaseWorld.Chain) and the steps that follow.
type Scenario struct {
	Name      string
	Seed      uint64
	SrcNew    bool
	DstNew    bool
	Pruning   bool
	// the node is built with WithRunningEventFilterInitializer(core.InitializeRunningEventFilter)
	// instead of the default floor-aware initialiser (never-pruning scenarios only)
	CoreInit  bool
	// the node is wired as node.New / node.Run do: ONE pruner.RetentionFloor shared between the
	// Blockchain (WithRetentionFloor) and the pruner.Pruner service, seeded from the database when
	// the process starts; prune steps go through the real Pruner (an L1-head event on its feed), which
	// raises the shared floor and then runs PruneUpto
	ViaPruner bool
	Base      *memory.Database
	BaseWorld World
	Steps     []Step
	Queries   [][2]*felt.Felt
	U         *universe
	// NewStore builds the store a run uses from a copy of the base image (memory by default;
	// the thorough tier also runs on Pebble).
	NewStore func(base *memory.Database) (db.KeyValueStore, func())
	Backend  string
}

func (sc *Scenario) Describe() map[string]any {
	ops := make([]string, len(sc.Steps))
	for i := range sc.Steps {
		ops[i] = sc.Steps[i].String()
	}
	return map[string]any{"scenario": sc.Name, "seed": sc.Seed, "src_new_state": sc.SrcNew, "dst_new_state": sc.DstNew,
		"pruning_node": sc.Pruning, "via_pruner_service": sc.ViaPruner, "core_initialiser": sc.CoreInit, "base_height": sc.BaseWorld.Height(), "ops": ops, "backend": sc.Backend}
}

func (sc *Scenario) worldBefore(i int) *World {
	if i == 0 {
		return &sc.BaseWorld
	}
	return &sc.Steps[i-1].After
}

// open builds a node the way node.New does. blockchain.New installs the floor-aware initialiser
// (pruner.InitializeRunningEventFilter) by default; a never-pruning scenario with CoreInit set
// passes core.InitializeRunningEventFilter through the option instead (both wirings are run; the
// model is told which one: cfg flag p).
func (sc *Scenario) open(store db.KeyValueStore) *blockchain.Blockchain {
	bc, _ := sc.openF(store)
	return bc
}

// openF also returns the retention floor of the new process (nil unless ViaPruner).
func (sc *Scenario) openF(store db.KeyValueStore) (*blockchain.Blockchain, *pruner.RetentionFloor) {
	opts := []blockchain.Option{}
	if sc.CoreInit && !sc.Pruning {
		opts = append(opts, blockchain.WithRunningEventFilterInitializer(core.InitializeRunningEventFilter))
	}
	var floor *pruner.RetentionFloor
	if sc.ViaPruner {
		// node.New: unseeded floor handed to the Blockchain; node.Run: seeded before the services start
		floor = &pruner.RetentionFloor{}
		opts = append(opts, blockchain.WithRetentionFloor(floor))
	}
	bc := lib.NodeOn(store, lib.TestNetwork(), sc.DstNew, opts...)
	if floor != nil {
		if err := floor.Seed(store); err != nil {
			panic(fmt.Sprintf("seeding the retention floor: %v", err))
		}
	}
	return bc, floor
}

func newNode(sc *Scenario, fdb *FaultDB) *Node {
	n := &Node{sc: sc, fdb: fdb}
	n.bc, n.floor = sc.openF(fdb)
	return n
}

// Node is a live node of a run.
type Node struct {
	sc  *Scenario
	fdb *FaultDB
	bc  *blockchain.Blockchain
	// the process' shared retention floor (ViaPruner scenarios)
	floor *pruner.RetentionFloor
	// cached observation of the in-memory filter (dropped by every call)
	mf    *core.RunningEventFilter
	mfErr error
	mfOK  bool
	// the error with which the last "rejected" step was refused
	rejectErr error
}

// pruneBatchBytes is the batch-rotation threshold used for prune steps: small, so that a prune
// of a few blocks is several commits.
const pruneBatchBytes = 1

// exec runs one step on the live node.
func (n *Node) exec(s *Step) error {
	n.mfOK = false
	err, panicked, stack := lib.Try(func() error {
		switch s.Op {
		case "store":
			return lib.StoreOn(n.bc, s.B)
		case "finalise":
			// the sequencer's path: Finalise recomputes roots, commitments and hash and appends
			// the block in one batch (no succession check); it must reproduce the bundle
			c := s.B.Clone()
			if num := c.Block.Number; num > 0 {
				// as the chain generator does: the state to start from is the parent's root
				c.SU.OldRoot = s.After.Chain[num-1].Block.GlobalStateRoot
			}
			if err := n.bc.Finalise(c.Block, c.SU, c.Classes, nil); err != nil {
				return err
			}
			if !c.Block.Hash.Equal(s.B.Block.Hash) {
				return fmt.Errorf("Finalise produced block hash %s, the source node %s", c.Block.Hash.String(), s.B.Block.Hash.String())
			}
			return nil
		case "genesis":
			// the node's own genesis path: StoreGenesis builds block 0 around the given state diff and
			// appends it through Finalise (no transactions, zero header fields, no signature)
			c := s.B.Clone()
			if err := n.bc.StoreGenesis(c.SU.StateDiff, c.Classes); err != nil {
				return err
			}
			if h, err := n.bc.Head(); err != nil || !h.Hash.Equal(s.B.Block.Hash) {
				return fmt.Errorf("StoreGenesis produced a different block than the source node (%v)", err)
			}
			return nil
		case "rejected":
			// a block that does not extend the head (here: the head offered again) must be refused,
			// and refusing it must change nothing, on disk or in memory
			if s.Tamper != "" {
				// the commitments are those of the honest block (SanityCheckNewHeight would refuse
				// the tampered one before Store is reached); Store itself must refuse the roots
				n.rejectErr = n.storeTampered(s)
			} else {
				n.rejectErr = lib.StoreOn(n.bc, s.B)
			}
			if n.rejectErr == nil {
				return fmt.Errorf("a block that does not extend the head was accepted")
			}
			return nil
		case "badrevert":
			// RevertHead on an empty chain must fail and change nothing
			n.rejectErr = n.bc.RevertHead()
			if n.rejectErr == nil {
				return fmt.Errorf("RevertHead succeeded on an empty chain")
			}
			return nil
		case "revert":
			return n.bc.RevertHead()
		case "l1head":
			cp := *s.L1
			return n.bc.SetL1Head(&cp)
		case "snap":
			return n.bc.WriteRunningEventFilter()
		case "restart":
			if err := n.bc.WriteRunningEventFilter(); err != nil {
				return err
			}
			n.bc, n.floor = n.sc.openF(n.fdb)
			return nil
		case "kill":
			n.bc, n.floor = n.sc.openF(n.fdb)
			return nil
		case "prune":
			if n.sc.ViaPruner {
				return n.pruneViaPruner(s)
			}
			_, _, err := pruner.PruneUpto(context.Background(), n.fdb, s.PruneTo, s.batchBytes())
			return err
		}
		return fmt.Errorf("unknown op %q", s.Op)
	})
	if panicked {
		return fmt.Errorf("%w\n%s", err, stack)
	}
	return err
}

// errPrunerIdle: the Pruner dropped the L1-head event without pruning (harness error: the
// generator only sends events that pass onNewL1Head's guards).
var errPrunerIdle = errors.New("harness: the pruner did not answer the L1-head event")

// pruneViaPruner runs a prune step the way a pruning node does: a pruner.Pruner service sharing
// the process' RetentionFloor with the Blockchain receives an L1-head event; onNewL1Head computes
// oldestBlockToKeep = l1 - numRetainedBlocks, pruneUpto raises the shared floor and runs the
// multi-batch sweep. The listener callbacks tell when the event has been handled.
func (n *Node) pruneViaPruner(s *Step) error {
	if len(s.L2) > 0 {
		return n.pruneViaL2(s)
	}
	l1Feed, l2Feed := feed.New[*core.L1Head](), feed.New[*core.Block]()
	done := make(chan error, 4)
	lst := &pruner.SelectiveListener{
		OnPruneCb:      func(uint64, uint64, time.Duration) { done <- nil },
		OnPruneErrorCb: func(err error) { done <- err },
	}
	p := pruner.New(n.fdb, n.floor, s.Retained, l2Feed.Subscribe(), l1Feed.Subscribe(), log.NewNopZapLogger(),
		pruner.WithTargetBatchByteSize(s.batchBytes()), pruner.WithListener(lst))
	ctx, cancel := context.WithCancel(context.Background())
	fin := make(chan error, 1)
	go func() { fin <- p.Run(ctx) }()
	l1Feed.Send(&core.L1Head{BlockNumber: s.PruneTo + s.Retained})
	var err error
	select {
	case err = <-done:
	case <-time.After(10 * time.Minute):
		err = errPrunerIdle
	}
	cancel()
	<-fin
	return err
}

// pruneViaL2 drives a prune step through the L2 path of the Pruner service: a NEW pruner.Pruner
// (pendingL2Heads = 0) sharing the process' RetentionFloor receives the step's L2-head events one
// after the other on its new-head feed; onNewBlock applies its guards (no L1 head on disk, L1 head not
// above the block, block below numRetainedBlocks, stale event: block above the chain height), counts
// the event, and at the l2HeadsPerPrune-th counted event calls pruneUpto(num - numRetainedBlocks).
// Events that are dropped produce no callback, so completion is observed on the feed itself: the
// subscription buffers ONE event and Run handles events sequentially — when the buffer is empty the
// event has been taken, and when a following sentinel (an L1 head 0: dropped by the guards or a
// PruneUpto(0), which writes nothing) has been taken too, the handler of the last L2 event has
// returned. Only then is the context cancelled (the sweep polls it). Returns the first prune error.
func (n *Node) pruneViaL2(s *Step) error {
	l1Feed, l2Feed := feed.New[*core.L1Head](), feed.New[*core.Block]()
	var mu sync.Mutex
	var errs []error
	lst := &pruner.SelectiveListener{
		OnPruneErrorCb: func(err error) { mu.Lock(); errs = append(errs, err); mu.Unlock() },
	}
	l2Sub, l1Sub := l2Feed.Subscribe(), l1Feed.Subscribe()
	opts := []pruner.Option{pruner.WithTargetBatchByteSize(s.batchBytes()), pruner.WithListener(lst)}
	if s.L2Per > 0 {
		// (0 = the Pruner's own default, defaultL2HeadsPerPrune)
		opts = append(opts, pruner.WithL2HeadsPerPrune(s.L2Per))
	}
	p := pruner.New(n.fdb, n.floor, s.Retained, l2Sub, l1Sub, log.NewNopZapLogger(), opts...)
	ctx, cancel := context.WithCancel(context.Background())
	fin := make(chan error, 1)
	go func() { fin <- p.Run(ctx) }()
	deadline := time.Now().Add(20 * time.Minute)
	idle := false
	taken := func(pending func() int) {
		for pending() > 0 && !idle {
			if time.Now().After(deadline) {
				idle = true
			}
			time.Sleep(20 * time.Microsecond)
		}
	}
	for _, num := range s.L2 {
		l2Feed.Send(&core.Block{Header: &core.Header{Number: num}})
		taken(func() int { return len(l2Sub.Recv()) })
	}
	l1Feed.Send(&core.L1Head{BlockNumber: 0})
	taken(func() int { return len(l1Sub.Recv()) })
	cancel()
	<-fin
	if idle {
		return errPrunerIdle
	}
	mu.Lock()
	defer mu.Unlock()
	if len(errs) > 0 {
		return errs[0]
	}
	return nil
}

// storeTampered calls Store with the step's (tampered) block and the commitments of the honest one.
func (n *Node) storeTampered(s *Step) error {
	c := s.B.Clone()
	honest := s.B.Clone()
	honest.Block.GlobalStateRoot = s.HonestRoot
	honest.SU.NewRoot = s.HonestRoot
	commitments, err := core.VerifyBlockHash(honest.Block, lib.TestNetwork(), honest.SU.StateDiff, core.TrieBackend)
	if err != nil {
		// the hash of the honest block does not cover OldRoot: same commitments
		return fmt.Errorf("harness: commitments of the honest block: %w", err)
	}
	return n.bc.Store(c.Block, commitments, c.SU, c.Classes)
}

// memFilter observes the node's in-memory running event filter without touching the disk: the
// snapshot write is diverted by the store wrapper.
func (n *Node) memFilter() (*core.RunningEventFilter, error) {
	if !n.mfOK {
		n.mf, n.mfErr = n.memFilterSlow()
		n.mfOK = true
	}
	return n.mf, n.mfErr
}

func (n *Node) memFilterSlow() (*core.RunningEventFilter, error) {
	n.fdb.mu.Lock()
	n.fdb.captureKey = db.RunningEventFilter.Key()
	n.fdb.captured = nil
	n.fdb.mu.Unlock()
	err := n.bc.WriteRunningEventFilter()
	n.fdb.mu.Lock()
	raw := n.fdb.captured
	n.fdb.captureKey, n.fdb.captured = nil, nil
	n.fdb.mu.Unlock()
	if err != nil {
		return nil, err
	}
	if raw == nil {
		return nil, fmt.Errorf("WriteRunningEventFilter wrote nothing")
	}
	return decodeSnapshot(raw)
}

// ---------------------------------------------------------------------------------------------
// Scenario construction
// ---------------------------------------------------------------------------------------------

// builder grows a scenario with the chain generator.
type builder struct {
	g   *lib.ChainGen
	r   *lib.RNG
	sc  *Scenario
	l1  *core.L1Head
	flr uint64
	// children of heads that were reverted since, by number: right number, wrong parent
	orphans map[uint64]*lib.Bundle
}

func eventfulSpec(g *lib.ChainGen, r *lib.RNG, version string) *lib.BlockSpec {
	if version == "" {
		if h := g.Head(); h != nil {
			version = h.Block.ProtocolVersion
		} else {
			version = lib.Pick(r, g.Opt.Versions)
		}
	}
	n := 1 + r.Intn(3)
	spec := &lib.BlockSpec{Version: version}
	for i := 0; i < n; i++ {
		tx := g.GenTx(version)
		rc := g.GenReceipt(tx)
		if len(rc.Events) == 0 {
			from := g.Addr(r.Intn(g.NAddrs()))
			rc.Events = append(rc.Events, &core.Event{From: &from, Keys: []felt.Felt{lib.EventKey(r.Intn(3))}, Data: []felt.Felt{*lib.F(7)}})
		}
		spec.Txs = append(spec.Txs, tx)
		spec.Rcs = append(spec.Rcs, rc)
	}
	return spec
}

// world captures the generator's present chain, with a probe child.
func (b *builder) world() World {
	w := World{Chain: append([]*lib.Bundle(nil), b.g.Bundles...), L1: b.l1, Floor: b.flr,
		States: append([]*lib.AbsState(nil), b.g.States...)}
	if len(b.g.States) > 0 {
		w.State = b.g.HeadState()
	}
	probe, err := b.g.Next(eventfulSpec(b.g, b.r, ""))
	if err != nil {
		panic(fmt.Sprintf("generator: probe block: %v", err))
	}
	w.Probe = probe
	if err := b.g.Revert(); err != nil {
		panic(fmt.Sprintf("generator: dropping probe block: %v", err))
	}
	return w
}

func (b *builder) push(s Step) {
	s.After = b.world()
	b.sc.Steps = append(b.sc.Steps, s)
}

func (b *builder) store(spec *lib.BlockSpec) {
	bd, err := b.g.Next(spec)
	if err != nil {
		panic(fmt.Sprintf("generator: %v", err))
	}
	b.push(Step{Op: "store", B: bd})
}

// rejected offers a block the node already holds: the parent of the head when there is one
// (a different number and different events than the head's, so that any trace the refused block
// leaves in memory is visible), else the head.
func (b *builder) rejected() {
	switch n := len(b.g.Bundles); {
	case n >= 2:
		b.push(Step{Op: "rejected", B: b.g.Bundles[n-2]})
	case n == 1:
		b.push(Step{Op: "rejected", B: b.g.Bundles[0]})
	}
}

// rejectedTampered offers the next block (the world's probe) with a wrong new or old root.
func (b *builder) rejectedTampered(kind string) {
	n := len(b.sc.Steps)
	var probe *lib.Bundle
	if n == 0 {
		probe = b.sc.BaseWorld.Probe
	} else {
		probe = b.sc.Steps[n-1].After.Probe
	}
	if probe == nil {
		return
	}
	t := probe.Clone()
	junk := lib.F(0xBAD0000 + uint64(n))
	st := Step{Op: "rejected", B: t, Tamper: kind, HonestRoot: probe.Block.GlobalStateRoot}
	switch kind {
	case "newroot":
		t.Block.GlobalStateRoot = junk
		t.SU.NewRoot = junk
	case "oldroot":
		t.SU.OldRoot = junk
	}
	b.push(st)
}

// finalise appends the next block through Finalise instead of Store.
func (b *builder) finalise(spec *lib.BlockSpec) {
	bd, err := b.g.Next(spec)
	if err != nil {
		panic(fmt.Sprintf("generator: %v", err))
	}
	b.push(Step{Op: "finalise", B: bd})
}

// genesis makes the chain's block 0 through StoreGenesis on the source node and appends the step.
func (b *builder) genesis(diff *core.StateDiff, classes map[felt.Felt]core.ClassDefinition) {
	if b.g.Height() != 0 {
		panic("harness: genesis on a non-empty chain")
	}
	d := lib.DeepCopy(diff).(*core.StateDiff)
	if err := b.g.Src.StoreGenesis(d, classes); err != nil {
		panic(fmt.Sprintf("generator: source StoreGenesis: %v", err))
	}
	blk, err := b.g.Src.Head()
	if err != nil {
		panic(fmt.Sprintf("generator: head after StoreGenesis: %v", err))
	}
	su, err := b.g.Src.StateUpdateByNumber(0)
	if err != nil {
		panic(fmt.Sprintf("generator: state update after StoreGenesis: %v", err))
	}
	bd := (&lib.Bundle{Block: blk, SU: su, Classes: classes}).Clone()
	st := lib.NewAbsState()
	st.Apply(0, diff, classes)
	b.g.Bundles = append(b.g.Bundles, bd)
	b.g.States = append(b.g.States, st)
	b.push(Step{Op: "genesis", B: bd})
}

// rejectedParent offers a block with the expected number whose parent is a block that has been
// reverted (if the history has produced one): verifyBlockSuccession must refuse it.
func (b *builder) rejectedParent() bool {
	o := b.orphans[uint64(b.g.Height())]
	if o == nil || b.g.Head() == nil || o.Block.ParentHash.Equal(b.g.Head().Block.Hash) {
		return false
	}
	b.push(Step{Op: "rejected", B: o})
	return true
}

func (b *builder) revert() {
	// the probe of the present world is a child of the head that is about to go
	if n := len(b.sc.Steps); n > 0 && b.sc.Steps[n-1].After.Probe != nil {
		if b.orphans == nil {
			b.orphans = map[uint64]*lib.Bundle{}
		}
		p := b.sc.Steps[n-1].After.Probe
		b.orphans[p.Block.Number] = p
	}
	if err := b.g.Revert(); err != nil {
		panic(fmt.Sprintf("generator: %v", err))
	}
	b.push(Step{Op: "revert"})
}

func (b *builder) l1head() {
	h := b.g.Height() - 1
	if h < 0 {
		return
	}
	n := b.r.Intn(h + 1)
	bl := b.g.Bundles[n].Block
	b.l1 = &core.L1Head{BlockNumber: uint64(n), BlockHash: bl.Hash, StateRoot: bl.GlobalStateRoot}
	b.push(Step{Op: "l1head", L1: b.l1})
}

// l1headAt sets the L1 head to an arbitrary number (a node that is catching up has an L1 head far
// above its own chain: the pruner's L2 path then drives the retention floor).
func (b *builder) l1headAt(n uint64) {
	l1 := &core.L1Head{BlockNumber: n, BlockHash: lib.F(0x11000000 + n), StateRoot: lib.F(0x12000000 + n)}
	if int(n) < len(b.g.Bundles) {
		bl := b.g.Bundles[n].Block
		l1.BlockHash, l1.StateRoot = bl.Hash, bl.GlobalStateRoot
	}
	b.l1 = l1
	b.push(Step{Op: "l1head", L1: b.l1})
}

// specL2 is what an L2-head event must do (the property's reading of Pruner.onNewBlock: the pruner
// acts only on blocks of the present chain, below the L1 head, never prunes the head, coalesces
// l2HeadsPerPrune events): the prune target (ok = the event prunes) and the counter afterwards.
func specL2(l1 *core.L1Head, height int, num, retained, per, pending uint64) (target uint64, prunes bool, next uint64, class string) {
	switch {
	case l1 == nil:
		return 0, false, pending, "no-l1-head"
	case l1.BlockNumber <= num:
		return 0, false, pending, "l1-not-above"
	case num < retained:
		return 0, false, pending, "below-retained"
	case height < 0:
		return 0, false, pending, "empty-chain"
	case num > uint64(height):
		return 0, false, pending, "stale"
	case pending+1 < per:
		return 0, false, pending + 1, "counted"
	}
	return num - retained, true, 0, "prunes"
}

// pruneL2: a prune step through the L2 path (ViaPruner scenarios): the events nums go to a new
// Pruner with numRetainedBlocks = retained and l2HeadsPerPrune = per.
func (b *builder) pruneL2(nums []uint64, retained, per uint64, batchBytes int) {
	if !b.sc.ViaPruner {
		panic("harness: L2-head events need a scenario that runs through the Pruner service")
	}
	pending, prunes := uint64(0), 0
	for _, num := range nums {
		t, ok, nx, _ := specL2(b.l1, b.g.Height()-1, num, retained, per, pending)
		pending = nx
		if ok {
			if t > b.flr {
				prunes++
				b.flr = t
			}
		}
	}
	if prunes > 1 {
		panic("harness: more than one event of an L2 burst prunes (one fault position per step)")
	}
	b.push(Step{Op: "prune", PruneTo: b.flr, BatchBytes: batchBytes, Retained: retained, L2: append([]uint64(nil), nums...), L2Per: per})
}

func (b *builder) simple(op string) { b.push(Step{Op: op}) }

func (b *builder) prune(to uint64) { b.pruneWith(to, 0) }

// pruneWith: a prune with an explicit batch threshold (a huge one = a single batch).
func (b *builder) pruneWith(to uint64, batchBytes int) {
	if to > b.flr {
		b.flr = to
	}
	st := Step{Op: "prune", PruneTo: to, BatchBytes: batchBytes}
	if b.sc.ViaPruner {
		// the pruner acts on an L1 head strictly below the chain height; numRetainedBlocks 0..2
		h := uint64(b.g.Height() - 1)
		if to >= h {
			panic(fmt.Sprintf("harness: prune target %d is not below the head %d (scenario runs through the Pruner service)", to, h))
		}
		st.Retained = min(uint64(b.r.Intn(3)), h-1-to)
	}
	b.push(st)
}

// fastForward stores n blocks without transactions on the generator and on a plain destination
// node, returning nothing: it is how a scenario gets near the 8192-block window boundary.
func fastForward(g *lib.ChainGen, dst *blockchain.Blockchain, n int, everyNthEventful int, r *lib.RNG) {
	for i := 0; i < n; i++ {
		var spec *lib.BlockSpec
		if everyNthEventful > 0 && i%everyNthEventful == 0 {
			spec = eventfulSpec(g, r, "0.14.0")
		} else {
			spec = &lib.BlockSpec{Version: "0.14.0", NoTxs: true, Diff: emptyDiff()}
		}
		bd, err := g.Next(spec)
		if err != nil {
			panic(fmt.Sprintf("generator: %v", err))
		}
		if err := lib.StoreOn(dst, bd); err != nil {
			panic(fmt.Sprintf("prefix store of block %d: %v", bd.Block.Number, err))
		}
	}
}

func emptyDiff() *core.StateDiff {
	return &core.StateDiff{
		StorageDiffs:      map[felt.Felt]map[felt.Felt]*felt.Felt{},
		Nonces:            map[felt.Felt]*felt.Felt{},
		DeployedContracts: map[felt.Felt]*felt.Felt{},
		DeclaredV0Classes: []*felt.Felt{},
		DeclaredV1Classes: map[felt.Felt]*felt.Felt{},
		ReplacedClasses:   map[felt.Felt]*felt.Felt{},
		MigratedClasses:   map[felt.SierraClassHash]felt.CasmClassHash{},
	}
}
