//go:build verif

package main

import (
	"encoding/binary"
	"errors"
	"fmt"
	"os"
	"sort"
	"strings"
	"time"

	"github.com/NethermindEth/juno/blockchain/statebackend"
	"github.com/NethermindEth/juno/core"
	"github.com/NethermindEth/juno/core/felt"
	"github.com/NethermindEth/juno/db"
	"github.com/NethermindEth/juno/db/memory"
	"github.com/NethermindEth/juno/pruner"
	"verif/harness/lib"
)

// ---------------------------------------------------------------------------------------------
// Correspondence with the Lean model (lean/JunoModel/C05): a run of the real code is replayed on
// the model driver in the model's vocabulary (blocks = number / hash ids / bloom bit sets /
// transaction ids; faults = fail or crash at the k-th commit of a call) and every observation the
// two have in common is compared: result class of each call, chain height, state root, in-memory
// running filter (window, next, cells), persisted windows (keys and cells), persisted snapshot,
// L1 head, what a restart would initialise the filter to, which records exist around the head.
// ---------------------------------------------------------------------------------------------

type ids struct{ m map[felt.Felt]int }

func (x *ids) of(f *felt.Felt) int {
	if f == nil || f.IsZero() {
		return 0
	}
	if v, ok := x.m[*f]; ok {
		return v
	}
	v := len(x.m) + 1
	x.m[*f] = v
	return v
}

func natList(xs []int) string {
	if len(xs) == 0 {
		return "-"
	}
	s := make([]string, len(xs))
	for i, x := range xs {
		s[i] = fmt.Sprint(x)
	}
	return strings.Join(s, ",")
}

// parentRoot: the model's "old root" of a block is the state root of the block it builds on (the
// state update's OldRoot can differ textually from it across a protocol-version change, because
// the commitment formula depends on the version; juno recomputes it with the new block's version).
func parentRoot(chain []*lib.Bundle, b *lib.Bundle) *felt.Felt {
	n := b.Block.Number
	if n == 0 || int(n) > len(chain) {
		return nil
	}
	return chain[n-1].Block.GlobalStateRoot
}

// blockArgs: number, hash, parent, claimed new root, old root, root the diff really produces,
// key ids, transaction ids. `applied` is nil for an honest block (= its root).
func (x *ids) blockArgs(u *universe, b *lib.Bundle, oldRoot *felt.Felt) string {
	return x.blockArgsT(u, b, oldRoot, nil)
}

func (x *ids) blockArgsT(u *universe, b *lib.Bundle, oldRoot, applied *felt.Felt) string {
	if applied == nil {
		applied = b.Block.GlobalStateRoot
	}
	bi := u.blockKeys(b)
	txs := make([]int, len(b.Block.Transactions))
	for i, tx := range b.Block.Transactions {
		txs[i] = x.of(tx.Hash())
	}
	return fmt.Sprintf("%d %d %d %d %d %d %s %s", b.Block.Number, x.of(b.Block.Hash), x.of(b.Block.ParentHash),
		x.of(b.Block.GlobalStateRoot), x.of(oldRoot), x.of(applied), natList(bi), natList(txs))
}

// errClass maps an error of the real code to the model's error classes.
func errClass(err error) string {
	if err == nil {
		return "ok"
	}
	msg := err.Error()
	switch {
	case strings.Contains(msg, "couldn't initialize the running event filter"):
		return "err:init"
	case errors.Is(err, errInjected) || strings.Contains(msg, errInjected.Error()):
		return "err:io"
	case strings.Contains(msg, "state's current root") || strings.Contains(msg, "state commitment mismatch") ||
		strings.Contains(msg, "does not match the expected root") || strings.Contains(msg, "root mismatch"):
		return "err:state"
	case errors.Is(err, core.ErrAggregatedBloomFilterBlockOutOfRange) || strings.Contains(msg, "block number is not within range"):
		return "err:range"
	case errors.Is(err, statebackend.ErrParentDoesNotMatchHead):
		return "err:parent"
	case strings.Contains(msg, "expected block #"):
		return "err:succession"
	case errors.Is(err, db.ErrKeyNotFound):
		return "err:notfound"
	}
	return "err:other:" + strings.ReplaceAll(msg, " ", "_")
}

// cellsOf lists the cells of a window as the model prints them.
func (t *trace) cellsOf(f *core.AggregatedBloomFilter) string { return cellsString(t.sc.U.cells(f)) }

// diskObs is what model and implementation both show of a store.
type diskObs struct {
	H, St, Wins, Snap, L1 string
	WinBits               map[string]string
	SnapBits              string
	Init, InitBits        string // core.InitializeRunningEventFilter on the image (never-pruned nodes)
	InitP, InitPBits      string // pruner.InitializeRunningEventFilter on the image
	Head, Above           string // blkobs of the head block and of the number above it
	Floor                 string // OldestRetainedBlock
	AtFloor, BelowFloor   string // blkobs of the oldest retained block and the one below it
}

func persistedWindows(store db.KeyValueStore) []uint64 {
	it, err := store.NewIterator(db.AggregatedBloomFilters.Key(), true)
	if err != nil {
		panic(err)
	}
	defer it.Close()
	var los []uint64
	for ok := it.First(); ok; ok = it.Next() {
		k := it.Key()
		if len(k) >= 9 {
			los = append(los, binary.BigEndian.Uint64(k[1:9]))
		}
	}
	sort.Slice(los, func(i, j int) bool { return los[i] < los[j] })
	return los
}

func (t *trace) blkObs(store db.KeyValueStore, n uint64) string {
	hdr, nbh, txs, txl, su, cm := "-", "-", "-", "-", "-", "-"
	if h, err := core.GetBlockHeaderByNumber(store, n); err == nil {
		hdr = fmt.Sprint(t.ids.of(h.Hash))
		if k, err := core.GetBlockHeaderNumberByHash(store, h.Hash); err == nil {
			nbh = fmt.Sprint(k)
		}
	}
	if x, err := core.GetTransactionsByBlockNumber(store, n); err == nil {
		txs = fmt.Sprint(len(x))
		k := 0
		for _, tx := range x {
			if _, err := core.TransactionBlockNumbersAndIndicesByHashBucket.Get(store, (*felt.TransactionHash)(tx.Hash())); err == nil {
				k++
			}
		}
		txl = fmt.Sprint(k)
	}
	if _, err := core.GetStateUpdateByBlockNum(store, n); err == nil {
		su = "y"
	}
	if _, err := core.GetBlockCommitmentByBlockNum(store, n); err == nil {
		cm = "y"
	}
	return fmt.Sprintf("hdr=%s nbh=%s txs=%s txl=%s su=%s cm=%s", hdr, nbh, txs, txl, su, cm)
}

// observeDisk reads everything from a store (never through a live node).
func (t *trace) observeDisk(store db.KeyValueStore, full bool) diskObs {
	o := diskObs{H: "-", St: "0", Wins: "-", Snap: "-", L1: "-", WinBits: map[string]string{}}
	h, err := core.GetChainHeight(store)
	if err == nil {
		o.H = fmt.Sprint(h)
		bc := t.sc.open(store)
		if r, closer, err := bc.HeadState(); err == nil {
			if c, ok := r.(committer); ok {
				ver := "0.14.0"
				if hd, err := core.GetBlockHeaderByNumber(store, h); err == nil {
					ver = hd.ProtocolVersion
				}
				if root, err := c.Commitment(ver); err == nil {
					o.St = fmt.Sprint(t.ids.of(&root))
				}
			}
			_ = closer()
		}
		o.Head = t.blkObs(store, h)
		o.Above = t.blkObs(store, h+1)
	} else {
		o.Head = t.blkObs(store, 0)
		o.Above = t.blkObs(store, 1)
	}
	o.Floor = "-"
	if f, err := pruner.OldestRetainedBlock(store); err == nil {
		o.Floor = fmt.Sprint(f)
		o.AtFloor = t.blkObs(store, f)
		if f > 0 {
			o.BelowFloor = t.blkObs(store, f-1)
		}
	}
	los := persistedWindows(store)
	if len(los) > 0 {
		parts := make([]string, len(los))
		for i, lo := range los {
			parts[i] = fmt.Sprint(lo)
			if full {
				if f, err := core.GetAggregatedBloomFilter(store, lo, lo+core.MaxBlockOffsetPerFilter); err == nil {
					o.WinBits[parts[i]] = t.cellsOf(&f)
				} else {
					o.WinBits[parts[i]] = "unreadable"
				}
			}
		}
		o.Wins = strings.Join(parts, ",")
	}
	if s, err := core.GetRunningEventFilter(store); err == nil {
		nx, _ := s.NextBlock()
		lo, _ := s.FromBlock()
		o.Snap = fmt.Sprintf("%d/%d", lo, nx)
		if full {
			in, _ := s.InnerFilter()
			o.SnapBits = t.cellsOf(in)
		}
	}
	if l1, err := core.GetL1Head(store); err == nil {
		o.L1 = fmt.Sprint(l1.BlockNumber)
	}
	if full {
		obsInit := func(pruning bool) (string, string) {
			rf, err := restartFilter(store, pruning)
			if err != nil {
				return "err", "err"
			}
			nx, _ := rf.NextBlock()
			lo, _ := rf.FromBlock()
			in, _ := rf.InnerFilter()
			return fmt.Sprintf("%d/%d", lo, nx), t.cellsOf(in)
		}
		if !t.sc.Pruning {
			o.Init, o.InitBits = obsInit(false)
		}
		o.InitP, o.InitPBits = obsInit(true)
	}
	return o
}

// stepRec is one executed call with what was seen afterwards.
type stepRec struct {
	line    string // model request without the fault field
	fault   string
	out     string
	disk    diskObs
	mem     string
	memBits string
	skip    bool // a fault inside a prune: commit numbering is not comparable, stop here
	quiet   bool // only the result was recorded (steps of a fault run before the fault)
	lazy    bool // the in-memory filter was not observed (left lazy)
	// StateAtBlockNumber(k) hands out a reader / refuses, for a sample of k (the decision of the
	// in-memory retention floor, or of the database probe when the floor is not seeded)
	served [][2]uint64
}

type crashRec struct {
	step  int
	fault string
	disk  diskObs
}

type trace struct {
	sc      *Scenario
	fixes   string
	ids     *ids
	steps   []stepRec
	crashes []crashRec
	pre     int
}

func newTrace(sc *Scenario, r *runner) *trace {
	return &trace{sc: sc, fixes: r.fixes, ids: &ids{m: map[felt.Felt]int{}}}
}

func (t *trace) opLine(s *Step) string {
	switch s.Op {
	case "store", "finalise", "rejected", "genesis":
		switch s.Tamper {
		case "newroot":
			// the offered block claims a root its diff does not produce
			return "store " + t.ids.blockArgsT(t.sc.U, s.B, parentRoot(s.After.Chain, s.B), s.HonestRoot)
		case "oldroot":
			return "store " + t.ids.blockArgs(t.sc.U, s.B, s.B.SU.OldRoot)
		}
		return "store " + t.ids.blockArgs(t.sc.U, s.B, parentRoot(s.After.Chain, s.B))
	case "badrevert":
		return "revert"
	case "l1head":
		return fmt.Sprintf("l1head %d", s.L1.BlockNumber)
	case "prune":
		if len(s.L2) > 0 {
			nums := make([]string, len(s.L2))
			for i, x := range s.L2 {
				nums[i] = fmt.Sprint(x)
			}
			return fmt.Sprintf("l2events %d %d %s", s.Retained, s.L2Per, strings.Join(nums, ","))
		}
		if t.sc.ViaPruner {
			return fmt.Sprintf("l1event %d %d", s.PruneTo+s.Retained, s.Retained)
		}
		return fmt.Sprintf("prune %d", s.PruneTo)
	}
	return s.Op
}

// before notes the commit counter ahead of a call (to locate a fault inside the call).
func (t *trace) before(n *Node) { t.pre = n.fdb.Commits() }

// step records a call and the state after it. Observing the live filter initialises it, which
// the model is told with `touch`.
func (t *trace) step(s *Step, err error, n *Node, store db.KeyValueStore) {
	t.stepQL(s, err, n, store, false, false)
}

func (t *trace) stepQ(s *Step, err error, n *Node, store db.KeyValueStore, quiet bool) {
	t.stepQL(s, err, n, store, quiet, false)
}

// stepQL: quiet = only the result is recorded; lazy = the disk is observed but the in-memory
// filter is left alone (after a kill / restart: the next call then runs on a filter that has not
// been initialised yet, as in a freshly started process).
func (t *trace) stepQL(s *Step, err error, n *Node, store db.KeyValueStore, quiet, lazy bool) {
	rec := stepRec{line: t.opLine(s), fault: "-", out: errClass(err), quiet: quiet, lazy: lazy}
	if (s.Op == "rejected" || s.Op == "badrevert") && err == nil {
		rec.out = errClass(n.rejectErr)
	}
	if n.fdb.failAt > t.pre && n.fdb.failAt <= n.fdb.Commits() && (rec.out == "err:io" || rec.out == "err:init") {
		// position among the call's OWN commits (window writes of a lazy filter initialisation
		// inside the call are not commits of the call in the model: they have a fault of their own)
		rec.fault = fmt.Sprintf("f%d", n.fdb.failAt-t.pre-1-n.fdb.initWritesBetween(t.pre, n.fdb.failAt))
		if n.fdb.isInitWrite(n.fdb.failAt) {
			rec.fault = "i"
		}
		if s.Op == "prune" && !s.ModelBatches {
			// the real sweep rotated its batch elsewhere than the model's (byte threshold other than
			// "one batch per block"): the position of the failing batch is not comparable
			rec.skip = true
		}
	}
	if s.Op == "kill" {
		rec.fault = ""
	}
	if quiet {
		t.steps = append(t.steps, rec)
		return
	}
	rec.served = servedSample(n, store, s)
	if lazy {
		rec.mem, rec.memBits = "lazy", "-"
		rec.disk = t.observeDisk(store, true)
		t.steps = append(t.steps, rec)
		return
	}
	if mem, merr := n.memFilter(); merr == nil {
		nx, _ := mem.NextBlock()
		lo, _ := mem.FromBlock()
		rec.mem = fmt.Sprintf("%d/%d", lo, nx)
		in, _ := mem.InnerFilter()
		rec.memBits = t.cellsOf(in)
	} else {
		rec.mem, rec.memBits = "broken", "-"
	}
	rec.disk = t.observeDisk(store, true)
	t.steps = append(t.steps, rec)
}

// crash records the image left by a crash after the kk-th commit of step j.
func (t *trace) crash(step int, fault string, img *memory.Database) {
	t.crashes = append(t.crashes, crashRec{step: step, fault: fault, disk: t.observeDisk(img, true)})
}

func obsLine(o diskObs, mem string) string {
	return fmt.Sprintf("h=%s st=%s mem=%s wins=%s snap=%s l1=%s", o.H, o.St, mem, o.Wins, o.Snap, o.L1)
}

// script assembles the model requests with the implementation's answers.
func (t *trace) script() (lines, want []string) {
	add := func(l, w string) { lines = append(lines, l); want = append(want, w) }
	// fifth flag: which initialiser the node's lazily initialised filter uses. blockchain.New
	// installs pruner.InitializeRunningEventFilter (floor-aware) unless the option
	// WithRunningEventFilterInitializer says otherwise: the model's calls are then `execP`.
	pflag := "1"
	if t.sc.CoreInit {
		pflag = "0"
	}
	// sixth flag: the node is wired as node.New does (shared, seeded retention floor + Pruner service)
	wflag := "0"
	if t.sc.ViaPruner {
		wflag = "1"
	}
	add(fmt.Sprintf("cfg %d %s%s%s", core.NumBlocksPerFilter, t.fixes, pflag, wflag), "ok")
	if t.sc.Base != nil {
		for _, b := range t.sc.BaseWorld.Chain {
			add("blk "+t.ids.blockArgs(t.sc.U, b, parentRoot(t.sc.BaseWorld.Chain, b)), "ok")
		}
		snap := "-"
		if s, err := core.GetRunningEventFilter(t.sc.Base); err == nil {
			nx, _ := s.NextBlock()
			snap = fmt.Sprint(nx)
		}
		if f, err := pruner.OldestRetainedBlock(t.sc.Base); err == nil && f > 0 {
			snap += fmt.Sprintf(" %d", f)
		}
		add("base "+snap, "ok")
	}
	// the model's calls initialise a lazy filter with the initialiser the node was built with
	// (cfg flag above), inside the call, as the real code does; `touch` = an observation of the
	// in-memory filter. Both initialisers are compared on every image of a never-pruned node
	// (core.InitializeRunningEventFilter = `init`, pruner.InitializeRunningEventFilter = `initp`);
	// on a pruned image only the floor-aware one is defined.
	pr := t.sc.Pruning
	touch := "touch"
	diskChecks := func(o diskObs) {
		for _, lo := range strings.Split(o.Wins, ",") {
			if lo != "-" && lo != "" {
				add("winbits "+lo, o.WinBits[lo])
			}
		}
		if o.Snap != "-" {
			add("snapbits", o.SnapBits)
		}
		if !pr {
			add("init", o.Init)
			if o.Init != "err" {
				add("initbits", o.InitBits)
			}
		}
		add("initp", o.InitP)
		if o.InitP != "err" {
			add("initpbits", o.InitPBits)
		}
		if pr {
			add("floor", o.Floor)
			if o.Floor != "-" {
				var fl uint64
				fmt.Sscan(o.Floor, &fl)
				add(fmt.Sprintf("blkobs %d", fl), o.AtFloor)
				if fl > 0 {
					add(fmt.Sprintf("blkobs %d", fl-1), o.BelowFloor)
				}
			}
		}
		hn := uint64(0)
		if o.H != "-" {
			fmt.Sscan(o.H, &hn)
			add(fmt.Sprintf("blkobs %d", hn), o.Head)
			add(fmt.Sprintf("blkobs %d", hn+1), o.Above)
		} else {
			add("blkobs 0", o.Head)
			add("blkobs 1", o.Above)
		}
	}
	ci := 0
	for j, st := range t.steps {
		// crash points of this step (recorded by the fault-free run only, where trace step j is
		// scenario step j)
		for ci < len(t.crashes) && t.crashes[ci].step == j {
			c := t.crashes[ci]
			ci++
			add("save", "ok")
			add(st.line+" "+c.fault, "ok")
			add("obsd", obsLine(c.disk, "lazy"))
			diskChecks(c.disk)
			add("load", "ok")
		}
		if st.skip {
			break
		}
		l := st.line
		if st.fault != "" {
			l += " " + st.fault
		}
		add(l, st.out)
		if st.quiet {
			continue
		}
		for _, kv := range st.served {
			add(fmt.Sprintf("served %d", kv[0]), map[uint64]string{0: "n", 1: "y"}[kv[1]])
		}
		if st.lazy {
			add("obs", obsLine(st.disk, "lazy"))
			diskChecks(st.disk)
			continue
		}
		add(touch, "ok")
		add("obs", obsLine(st.disk, st.mem))
		if st.mem != "broken" {
			add("membits", st.memBits)
		}
		diskChecks(st.disk)
	}
	return lines, want
}

func (t *trace) compare(r *runner, sc *Scenario, extra map[string]any) {
	drv := r.driver()
	if drv == nil {
		return
	}
	defer r.release(drv)
	lines, want := t.script()
	if d := os.Getenv("C05_DUMP"); d != "" {
		_ = os.WriteFile(fmt.Sprintf("%s/script-%d-%v.txt", d, len(lines), extra["k"]), []byte(strings.Join(lines, "\n")+"\n"), 0o644)
	}
	t0 := time.Now()
	got, err := drv.AskAll(lines)
	r.res.HitN("driver-ms", int(time.Since(t0).Milliseconds()))
	if err != nil {
		r.res.Fatalf("Lean driver failed while replaying %s/%d (%d requests, %d answered): %v", sc.Name, sc.Seed, len(lines), len(got), err)
		return
	}
	r.res.Compared(len(lines))
	for i := range lines {
		if got[i] != want[i] {
			ctx := lines[max(0, i-6) : i+1]
			if len(lines[0]) > 0 && i > 40 {
				ctx = append([]string{"…"}, ctx...)
			}
			in := sc.Describe()
			for k, v := range extra {
				in[k] = v
			}
			in["request"] = clip(lines[i])
			in["context"] = clipAll(ctx)
			r.res.Mismatch(lib.Mismatch{Sig: "c05-model:" + strings.SplitN(lines[i], " ", 2)[0], Input: in, Model: clip(got[i]), Impl: clip(want[i])})
			r.res.Hit("mismatch:" + strings.SplitN(lines[i], " ", 2)[0])
			return
		}
	}
}

func clip(s string) string {
	if len(s) > 400 {
		return s[:400] + "…"
	}
	return s
}

func clipAll(xs []string) []string {
	out := make([]string, len(xs))
	for i, x := range xs {
		out[i] = clip(x)
	}
	return out
}

// servedSample asks the live node for the state at a handful of block numbers around the disk's
// retention floor, the step's prune target, and the head.
func servedSample(n *Node, store db.KeyValueStore, s *Step) [][2]uint64 {
	set := map[uint64]bool{0: true, 1: true}
	around := func(x uint64) {
		for d := uint64(0); d < 3; d++ {
			set[x+d] = true
			if x >= d {
				set[x-d] = true
			}
		}
	}
	if f, err := pruner.OldestRetainedBlock(store); err == nil {
		around(f)
	}
	if s.Op == "prune" {
		around(s.PruneTo)
	}
	if h, err := core.GetChainHeight(store); err == nil {
		around(h)
	}
	ks := make([]uint64, 0, len(set))
	for k := range set {
		ks = append(ks, k)
	}
	sort.Slice(ks, func(i, j int) bool { return ks[i] < ks[j] })
	out := make([][2]uint64, 0, len(ks))
	for _, k := range ks {
		v := uint64(0)
		if _, closer, err := n.bc.StateAtBlockNumber(k); err == nil {
			_ = closer()
			v = 1
		}
		out = append(out, [2]uint64{k, v})
	}
	return out
}
