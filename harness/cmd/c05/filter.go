//go:build verif

package main

import (
	"encoding/binary"
	"fmt"
	"sort"
	"strings"
	"sync"

	"github.com/NethermindEth/juno/core"
	"verif/harness/lib"
)

// The bloom index is observed at the level of KEYS, through the filter's own query function
// (BlocksForKeys): the generator's events use a small universe of keys (every address as `from`,
// every event key at every position), each key has an id, a block is described by the ids of the
// keys its events carry, and a window by its cells (block, key id): "the window answers that
// block b may contain key id". This is what the Lean model calls the set bits of a block / the
// cells of a window (an ideal bloom filter: one bit per key). A real bloom false positive would
// show up as an extra cell; with 8192 bits, 6 hash functions and a few keys per block its
// probability is below 1e-10 per cell, and runs are deterministic per seed.

type keyEntry struct {
	id    int
	bytes []byte
}

type universe struct {
	keys  []keyEntry
	byKey map[string]int
	cache sync.Map // *lib.Bundle -> []int
}

const maxKeyPos = 4

func newUniverse(g *lib.ChainGen) *universe {
	u := &universe{byKey: map[string]int{}}
	add := func(b []byte) {
		u.byKey[string(b)] = len(u.keys)
		u.keys = append(u.keys, keyEntry{id: len(u.keys), bytes: b})
	}
	for i := 0; i < g.NAddrs(); i++ {
		a := g.Addr(i)
		ab := a.Bytes()
		add(append([]byte(nil), ab[:]...))
	}
	for k := 0; k < 3; k++ {
		for pos := 0; pos < maxKeyPos; pos++ {
			key := lib.EventKey(k)
			kb := key.Bytes()
			add(binary.AppendVarint(append([]byte(nil), kb[:]...), int64(pos)))
		}
	}
	return u
}

// blockKeys returns the sorted key ids of a block's events.
func (u *universe) blockKeys(b *lib.Bundle) []int {
	if v, ok := u.cache.Load(b); ok {
		return v.([]int)
	}
	out := u.blockKeysSlow(b)
	u.cache.Store(b, out)
	return out
}

func (u *universe) blockKeysSlow(b *lib.Bundle) []int {
	set := map[int]bool{}
	note := func(raw []byte) {
		id, ok := u.byKey[string(raw)]
		if !ok {
			panic(fmt.Sprintf("harness: event key %x outside the key universe", raw))
		}
		set[id] = true
	}
	for _, rc := range b.Block.Receipts {
		for _, ev := range rc.Events {
			fb := ev.From.Bytes()
			note(fb[:])
			for i := range ev.Keys {
				kb := ev.Keys[i].Bytes()
				note(binary.AppendVarint(append([]byte(nil), kb[:]...), int64(i)))
			}
		}
	}
	out := make([]int, 0, len(set))
	for id := range set {
		out = append(out, id)
	}
	sort.Ints(out)
	return out
}

type cell struct {
	b  uint64
	id int
}

// cells asks the window, for every key of the universe, which blocks may contain it.
func (u *universe) cells(f *core.AggregatedBloomFilter) map[cell]bool {
	out := map[cell]bool{}
	lo := f.FromBlock()
	for _, k := range u.keys {
		bs := f.BlocksForKeys([][]byte{k.bytes})
		for i, ok := bs.NextSet(0); ok; i, ok = bs.NextSet(i + 1) {
			out[cell{lo + uint64(i), k.id}] = true
		}
	}
	return out
}

func cellsString(cs map[cell]bool) string {
	if len(cs) == 0 {
		return "-"
	}
	l := make([]cell, 0, len(cs))
	for c := range cs {
		l = append(l, c)
	}
	sort.Slice(l, func(i, j int) bool {
		if l[i].b != l[j].b {
			return l[i].b < l[j].b
		}
		return l[i].id < l[j].id
	})
	parts := make([]string, len(l))
	for i, c := range l {
		parts[i] = fmt.Sprintf("%d:%d", c.b, c.id)
	}
	return strings.Join(parts, ",")
}

// idealCells: what the window starting at lo must at least contain for the chain of world w.
func (u *universe) idealCells(w *World, lo uint64) map[cell]bool {
	out := map[cell]bool{}
	for n := lo; n < lo+core.NumBlocksPerFilter && int(n) <= w.Height(); n++ {
		if n < w.Floor {
			continue
		}
		for _, id := range u.blockKeys(w.Chain[n]) {
			out[cell{n, id}] = true
		}
	}
	return out
}

// filterVsChain: a running filter describes the chain when next == height+1, its window is the
// aligned window of next, and it has a cell wherever a block of the chain in that window has a
// key (no false negatives). Extra cells are only counted.
func (u *universe) filterVsChain(rf *core.RunningEventFilter, w *World, prefix string, ps *problems, res *lib.Result) {
	next, err := rf.NextBlock()
	if err != nil {
		ps.add(prefix+"running-filter-unreadable", "%v", err)
		return
	}
	from, _ := rf.FromBlock()
	wantNext := uint64(w.Height() + 1)
	if next != wantNext {
		ps.add(prefix+"running-filter-next-differs-from-height", "running filter expects block %d next, the chain's next block is %d", next, wantNext)
	}
	wantFrom := wantNext - wantNext%core.NumBlocksPerFilter
	if from != wantFrom {
		ps.add(prefix+"running-filter-window-differs", "running filter window starts at %d, the window of block %d starts at %d", from, wantNext, wantFrom)
		return
	}
	inner, _ := rf.InnerFilter()
	got := u.cells(inner)
	want := u.idealCells(w, from)
	missing, first := 0, uint64(0)
	for c := range want {
		if !got[c] {
			if missing == 0 || c.b < first {
				first = c.b
			}
			missing++
		}
	}
	if missing > 0 {
		ps.add(prefix+"running-filter-false-negative", "running filter lacks %d (block, key) entries of the chain's events; first in block %d", missing, first)
	}
	if len(got) > len(want)-missing {
		res.Hit(prefix + "running-filter-extra-cells")
	}
}

// filterObs is what can be observed of a running event filter.
type filterObs struct {
	From, Next uint64
	Cells      string
}

// observeFilter: cells of blocks below floor (pruned) are left out — a pruning node may keep
// them (harmless false positives) or not.
func (u *universe) observeFilter(rf *core.RunningEventFilter, floor uint64) filterObs {
	from, _ := rf.FromBlock()
	next, _ := rf.NextBlock()
	inner, _ := rf.InnerFilter()
	cs := u.cells(inner)
	for c := range cs {
		if c.b < floor {
			delete(cs, c)
		}
	}
	return filterObs{From: from, Next: next, Cells: cellsString(cs)}
}
