//go:build verif

package main

import (
	"encoding/json"
	"errors"
	"fmt"
	"os"

	"github.com/NethermindEth/juno/core"
	"github.com/NethermindEth/juno/core/felt"
	"github.com/NethermindEth/juno/db"
	"github.com/NethermindEth/juno/db/memory"
	"verif/harness/lib"
)

// probeFixes finds out, by behaviour, which of the proposed repairs the code under test
// contains; the Lean model is run in the same variant ("the model follows the code").
//
//	a: Store / RevertHead drop the in-memory running filter when they return an error
//	b: RevertHead deletes the persisted running-filter snapshot in its batch
//	c: a revert crossing a window boundary backwards deletes the persisted previous window
func probeFixes() (flags string, problem string) {
	defer func() {
		if r := recover(); r != nil {
			flags, problem = "000", fmt.Sprint(r)
		}
	}()
	return probeFixesInner(), ""
}

func probeFixesInner() string {
	flag := func(b bool) string {
		if b {
			return "1"
		}
		return "0"
	}
	// (a) fail the commit of the second block and look at the filter's next block
	a := false
	{
		r := lib.NewRNG(1)
		g := lib.NewChainGen(r, false, lib.DefaultGenOptions())
		b0, _ := g.Next(nil)
		b1, _ := g.Next(nil)
		store := memory.New()
		fdb := NewFaultDB(store)
		sc := &Scenario{}
		n := newNode(sc, fdb)
		if err := lib.StoreOn(n.bc, b0); err != nil {
			panic(fmt.Sprintf("probe: %v", err))
		}
		// fail the LAST commit the call makes (the batch), however many it makes
		trial := NewFaultDB(store.Copy())
		if err := lib.StoreOn(sc.open(trial), b1); err != nil {
			panic(fmt.Sprintf("probe: %v", err))
		}
		fdb.failAt = fdb.Commits() + trial.Commits()
		if err := lib.StoreOn(n.bc, b1); err == nil || !errors.Is(err, errInjected) {
			panic(fmt.Sprintf("probe: expected the injected error, got %v", err))
		}
		if mf, err := n.memFilter(); err == nil {
			nx, _ := mf.NextBlock()
			a = nx == 1
		}
	}
	// (b), (c) on the filter alone: window [W, 2W-1], next = W, previous window persisted
	store := memory.New()
	prev := core.NewAggregatedFilter(0)
	if err := core.WriteAggregatedBloomFilter(store, &prev); err != nil {
		panic(err)
	}
	cur := core.NewAggregatedFilter(core.NumBlocksPerFilter)
	rf := core.NewRunningEventFilterHot(store, &cur, core.NumBlocksPerFilter)
	if err := core.WriteRunningEventFilter(store, rf); err != nil {
		panic(err)
	}
	batch := store.NewBatch()
	if err := rf.OnReorgWithBatch(batch); err != nil {
		panic(fmt.Sprintf("probe: OnReorgWithBatch: %v", err))
	}
	if err := batch.Write(); err != nil {
		panic(err)
	}
	_, errSnap := core.GetRunningEventFilter(store)
	_, errWin := core.GetAggregatedBloomFilter(store, 0, core.MaxBlockOffsetPerFilter)
	// (d) a lazy filter whose initialiser fails once: is the error kept?
	calls := 0
	lazy := core.NewRunningEventFilterLazy(memory.New(), func(d db.KeyValueStore) (*core.RunningEventFilter, error) {
		calls++
		if calls == 1 {
			return nil, errInjected
		}
		return core.InitializeRunningEventFilter(d)
	})
	_, err1 := lazy.NextBlock()
	_, err2 := lazy.NextBlock()
	if err1 == nil {
		panic("probe: the failing initialiser was not called")
	}
	return flag(a) + flag(errors.Is(errSnap, db.ErrKeyNotFound)) + flag(errors.Is(errWin, db.ErrKeyNotFound)) + flag(err2 == nil)
}

// Which signature of known/C05.json documents the defect each probed repair removes.
var fixSigs = [4][]string{
	{"running-filter-diverges-after-failed-store-commit", "running-filter-diverges-after-failed-revert-commit",
		"running-filter-init-error-is-sticky-after-failed-write"},
	{"restart-trusts-stale-snapshot-after-revert"},
	{"restart-trusts-persisted-window-of-incomplete-window"},
	{"filter-init-error-cached-after-failed-init-write"},
}

// checkVariantAgainstKnown: the Lean side claims theorems for a definite variant of the code. A
// defect that known/C05.json records as FIXED must be probed as repaired; otherwise the tree has
// regressed (or the record is wrong) and neither the model variant nor the claimed theorems are
// the right ones — never a green run.
func checkVariantAgainstKnown(res *lib.Result, flags string) {
	if flags != "1111" {
		// the obligations in Props.lean (crash_consistent, restart_ok, next_block_storable,
		// memory_tracks_disk) are stated for Fixes.all; on any other variant they are not about the
		// code under test. The model still runs in the probed variant, so that the oracle reports
		// the concrete failing input of the regression.
		res.Fatalf("the code under test behaves as variant %s (reset-on-error, drop-snapshot-on-revert, drop-previous-window-on-crossing, "+
			"init-error-not-cached), the claimed theorems are about 1111: a repair has been undone", flags)
	}
	raw, err := os.ReadFile("known/C05.json")
	if err != nil {
		if raw, err = os.ReadFile("/verif/known/C05.json"); err != nil {
			res.Fatalf("cannot read known/C05.json to check the probed code variant %s against it: %v", flags, err)
			return
		}
	}
	var k struct {
		Known []struct {
			Sig string `json:"sig"`
		} `json:"known"`
		Fixed []struct {
			Sig string `json:"sig"`
		} `json:"fixed"`
	}
	if err := json.Unmarshal(raw, &k); err != nil {
		res.Fatalf("known/C05.json: %v", err)
		return
	}
	fixed := map[string]bool{}
	for _, e := range k.Fixed {
		fixed[e.Sig] = true
	}
	for i, sigs := range fixSigs {
		for _, sig := range sigs {
			if fixed[sig] && flags[i] == '0' {
				res.Fatalf("known/C05.json records %q as fixed, but the code under test behaves as before the fix (probed variant %s): "+
					"regression, or the record is wrong; the model variant and the claimed theorems do not apply", sig, flags)
			}
		}
	}
}

// selfTestDriver checks the driver's closed-form base image against the model's own store
// writes on a short chain (the closed form is only used for the 8190-block base chains).
func selfTestDriver(r *runner) {
	drv := r.driver()
	defer r.release(drv)
	lines := []string{"cfg 4 0000"}
	want := []string{"ok"}
	rng := lib.NewRNG(7)
	g := lib.NewChainGen(rng, false, lib.DefaultGenOptions())
	u := newUniverse(g)
	x := &ids{m: map[felt.Felt]int{}}
	for i := 0; i < 11; i++ {
		b, err := g.Next(eventfulSpec(g, rng, ""))
		if err != nil {
			panic(err)
		}
		lines = append(lines, "blk "+x.blockArgs(u, b, parentRoot(g.Bundles, b)))
		want = append(want, "ok")
	}
	lines = append(lines, "basecheck", "bogus request")
	want = append(want, "same", "bad-op")
	got, err := drv.AskAll(lines)
	if err != nil {
		r.res.Fatalf("Lean driver died during its self-test: %v", err)
		return
	}
	r.res.Compared(len(lines))
	for i := range lines {
		if got[i] != want[i] {
			r.res.Mismatch(lib.Mismatch{Sig: "c05-driver-selftest", Input: lines[i], Model: got[i], Impl: want[i]})
			return
		}
	}
	_, _ = drv.Ask("base -")
}
