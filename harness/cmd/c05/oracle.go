//go:build verif

package main

import (
	"bytes"
	"encoding/binary"
	"errors"
	"fmt"
	"reflect"
	"sort"

	"github.com/NethermindEth/juno/blockchain"
	"github.com/NethermindEth/juno/core"
	"github.com/NethermindEth/juno/core/felt"
	"github.com/NethermindEth/juno/db"
	"github.com/NethermindEth/juno/db/memory"
	"github.com/NethermindEth/juno/l1/eth"
	"github.com/NethermindEth/juno/pruner"
	"github.com/cespare/xxhash/v2"
	"verif/harness/lib"
)

// World is what a node must look like at one point of a fault-free history: the chain it holds,
// the abstract head state, the recorded L1 head and the oldest block that pruning has kept.
type World struct {
	Chain []*lib.Bundle // Chain[i] is block i
	State *lib.AbsState // fold of the chain's diffs (nil for the empty chain)
	Probe *lib.Bundle   // a valid child of the chain's head (what sync would offer next)
	L1    *core.L1Head  // nil = never set
	Floor uint64        // blocks below Floor have been pruned (0 = nothing pruned)
	// Asked: the highest prune target the LIVE process has been asked for through its Pruner
	// service (0 = none): the shared in-memory retention floor is raised to Asked-1 before the sweep,
	// so after a sweep that failed half-way the live node may refuse historical states below
	// Asked-1 although the disk still holds them (a restarted process serves them again).
	Asked uint64
	// States[i] = abstract state after block i (oracle for historical reads)
	States []*lib.AbsState
}

func (w *World) Height() int { return len(w.Chain) - 1 }

func (w *World) Head() *lib.Bundle {
	if len(w.Chain) == 0 {
		return nil
	}
	return w.Chain[len(w.Chain)-1]
}

// Problem is one way in which a node disagrees with the world it should be in.
type Problem struct {
	Sig    string
	Detail string
	Block  uint64 // for event-query misses: the block of the first missing event
}

type problems []Problem

func (p *problems) add(sig, format string, a ...any) {
	*p = append(*p, Problem{Sig: sig, Detail: fmt.Sprintf(format, a...)})
}

func isNotFound(err error) bool { return err != nil && errors.Is(err, db.ErrKeyNotFound) }

func noPreConfirmed() (blockchain.PreConfirmedReader, error) { return nil, nil }

// canonValue removes the one harmless non-determinism of the stored bytes: a legacy trie node
// is written with or without two all-zero cached child hashes depending on map iteration order
// during the update (core/trie/node.go WriteTo); both decode to the same node.
func canonValue(k, v []byte) []byte {
	if len(k) == 0 {
		return v
	}
	switch db.Bucket(k[0]) {
	case db.StateTrie, db.ContractStorage, db.ClassesTrie:
		if len(v) > 32+64 && bytes.Equal(v[len(v)-64:], make([]byte, 64)) {
			return v[:len(v)-64]
		}
	}
	return v
}

// looseSkip: buckets left out of the cross-run digest. The trie2 node buckets are not a
// function of the history alone: a revert leaves (unreachable) node garbage that depends on map
// iteration order, so two identical fault-free runs can differ there. Their content is checked
// through the state readers and the recomputed commitment instead.
func looseSkip(k []byte) bool {
	if len(k) == 0 {
		return false
	}
	switch db.Bucket(k[0]) {
	case db.ClassTrie, db.ContractTrieContract, db.ContractTrieStorage:
		return true
	}
	return false
}

// digest is a canonical hash of a whole key/value image (same-run comparisons).
func digest(m db.KeyValueStore) string { return digestOf(m, false) }

// looseDigest is the digest used to compare images of different runs.
func looseDigest(m db.KeyValueStore) string { return digestOf(m, true) }

func digestOf(m db.KeyValueStore, loose bool) string {
	it, err := m.NewIterator(nil, false)
	if err != nil {
		panic(err)
	}
	defer it.Close()
	h := xxhash.New()
	var lenb [8]byte
	for ok := it.First(); ok; ok = it.Next() {
		k := it.Key()
		if loose && looseSkip(k) {
			continue
		}
		v, err := it.Value()
		if err != nil {
			panic(err)
		}
		v = canonValue(k, v)
		binary.BigEndian.PutUint64(lenb[:], uint64(len(k)))
		h.Write(lenb[:])
		h.Write(k)
		binary.BigEndian.PutUint64(lenb[:], uint64(len(v)))
		h.Write(lenb[:])
		h.Write(v)
	}
	return fmt.Sprintf("%016x", h.Sum64())
}

// diffImages names the buckets in which two images differ (for violation messages).
func diffImages(a, b db.KeyValueStore) string {
	return diffImagesOf(a, b, false)
}

func diffImagesOf(a, b db.KeyValueStore, loose bool) string {
	dump := func(s db.KeyValueStore) map[string]string {
		out := map[string]string{}
		it, err := s.NewIterator(nil, false)
		if err != nil {
			panic(err)
		}
		defer it.Close()
		for ok := it.First(); ok; ok = it.Next() {
			if loose && looseSkip(it.Key()) {
				continue
			}
			v, _ := it.Value()
			out[string(it.Key())] = string(canonValue(it.Key(), v))
		}
		return out
	}
	da, dbb := dump(a), dump(b)
	counts := map[string]int{}
	for k, v := range da {
		if w, ok := dbb[k]; !ok {
			counts[db.Bucket(k[0]).String()+":only-left"]++
		} else if w != v {
			counts[db.Bucket(k[0]).String()+":value"]++
		}
	}
	for k := range dbb {
		if _, ok := da[k]; !ok {
			counts[db.Bucket(k[0]).String()+":only-right"]++
		}
	}
	keys := make([]string, 0, len(counts))
	for k := range counts {
		keys = append(keys, fmt.Sprintf("%s=%d", k, counts[k]))
	}
	sort.Strings(keys)
	return fmt.Sprint(keys)
}

// blocksToCheck picks the block numbers whose full content is compared: everything for short
// chains, otherwise the ends, the event-window boundary and the retention floor.
func blocksToCheck(w *World) []uint64 {
	h := w.Height()
	if h < 0 {
		return nil
	}
	set := map[uint64]bool{}
	add := func(n int) {
		if n >= int(w.Floor) && n <= h {
			set[uint64(n)] = true
		}
	}
	if h <= 48 {
		for i := 0; i <= h; i++ {
			add(i)
		}
	} else {
		for i := 0; i < 3; i++ {
			add(i)
			add(int(w.Floor) + i)
		}
		for i := h - 8; i <= h; i++ {
			add(i)
		}
		for i := -3; i <= 3; i++ {
			add(int(core.NumBlocksPerFilter) + i)
		}
	}
	out := make([]uint64, 0, len(set))
	for n := range set {
		out = append(out, n)
	}
	sort.Slice(out, func(i, j int) bool { return out[i] < out[j] })
	return out
}

func sameFelt(a, b *felt.Felt) bool {
	if a == nil || b == nil {
		return a == b
	}
	return a.Equal(b)
}

// checkBlock compares everything the Reader API returns for block n with the bundle.
func checkBlock(bc *blockchain.Blockchain, want *lib.Bundle, p *problems) {
	n := want.Block.Number
	blk, err := bc.BlockByNumber(n)
	if err != nil {
		p.add("block-unreadable", "BlockByNumber(%d): %v", n, err)
		return
	}
	if !sameFelt(blk.Hash, want.Block.Hash) {
		p.add("block-hash-differs", "block %d: header hash %v, chain has %v", n, blk.Hash, want.Block.Hash)
		return
	}
	if !sameFelt(blk.GlobalStateRoot, want.Block.GlobalStateRoot) || !sameFelt(blk.ParentHash, want.Block.ParentHash) ||
		blk.TransactionCount != want.Block.TransactionCount || blk.EventCount != want.Block.EventCount ||
		blk.Timestamp != want.Block.Timestamp || blk.ProtocolVersion != want.Block.ProtocolVersion {
		p.add("header-differs", "block %d: header fields differ from the chain's block", n)
	}
	if blk.EventsBloom == nil || !blk.EventsBloom.Equal(want.Block.EventsBloom) {
		p.add("header-differs", "block %d: events bloom differs", n)
	}
	if len(blk.Transactions) != len(want.Block.Transactions) || len(blk.Receipts) != len(want.Block.Receipts) {
		p.add("txs-differ", "block %d: %d txs / %d receipts, chain has %d / %d", n, len(blk.Transactions), len(blk.Receipts),
			len(want.Block.Transactions), len(want.Block.Receipts))
		return
	}
	hashes, err := bc.TransactionHashesByBlockNumber(n)
	if err != nil || len(hashes) != len(want.Block.Transactions) {
		p.add("txs-differ", "block %d: TransactionHashesByBlockNumber: %d hashes, err %v", n, len(hashes), err)
	}
	cnt, err := bc.BlockTransactionCountByNumber(n)
	if err != nil || cnt != uint64(len(want.Block.Transactions)) {
		p.add("txs-differ", "block %d: BlockTransactionCountByNumber = %d, %v", n, cnt, err)
	}
	for i, tx := range want.Block.Transactions {
		if !sameFelt(blk.Transactions[i].Hash(), tx.Hash()) {
			p.add("txs-differ", "block %d tx %d: hash differs", n, i)
			continue
		}
		if i < len(hashes) && !hashes[i].Equal(tx.Hash()) {
			p.add("txs-differ", "block %d tx %d: hash list differs", n, i)
		}
		rc, wrc := blk.Receipts[i], want.Block.Receipts[i]
		if !sameFelt(rc.TransactionHash, wrc.TransactionHash) || len(rc.Events) != len(wrc.Events) ||
			rc.Reverted != wrc.Reverted || !sameFelt(rc.Fee, wrc.Fee) || len(rc.L2ToL1Message) != len(wrc.L2ToL1Message) {
			p.add("receipts-differ", "block %d receipt %d differs", n, i)
		}
		for j := range wrc.Events {
			if j < len(rc.Events) && (!sameFelt(rc.Events[j].From, wrc.Events[j].From) ||
				!reflect.DeepEqual(rc.Events[j].Keys, wrc.Events[j].Keys) && len(rc.Events[j].Keys)+len(wrc.Events[j].Keys) > 0) {
				p.add("receipts-differ", "block %d receipt %d event %d differs", n, i, j)
			}
		}
		// tx-hash lookups
		bn, idx, err := bc.BlockNumberAndIndexByTxHash((*felt.TransactionHash)(tx.Hash()))
		if err != nil || bn != n || idx != uint64(i) {
			p.add("tx-lookup-differs", "block %d tx %d: BlockNumberAndIndexByTxHash = (%d,%d,%v)", n, i, bn, idx, err)
		}
		got, err := bc.TransactionByHash(tx.Hash())
		if err != nil || !sameFelt(got.Hash(), tx.Hash()) {
			p.add("tx-lookup-differs", "block %d tx %d: TransactionByHash: %v", n, i, err)
		}
		r2, bh, bn2, err := bc.Receipt(tx.Hash())
		if err != nil || bn2 != n || !sameFelt(bh, want.Block.Hash) || !sameFelt(r2.TransactionHash, tx.Hash()) {
			p.add("tx-lookup-differs", "block %d tx %d: Receipt(): block %d, err %v", n, i, bn2, err)
		}
		if l1, ok := tx.(*core.L1HandlerTransaction); ok {
			mh := eth.Hash(l1.MessageHash())
			th, err := bc.L1HandlerTxnHash(&mh)
			if err != nil || !th.Equal(tx.Hash()) {
				p.add("l1-message-lookup-differs", "block %d tx %d: L1HandlerTxnHash: %v", n, i, err)
			}
		}
	}
	// hash -> number and by-hash readers
	num, err := bc.BlockNumberByHash(want.Block.Hash)
	if err != nil || num != n {
		p.add("hash-lookup-differs", "BlockNumberByHash(block %d) = %d, %v", n, num, err)
	}
	if hd, err := bc.BlockHeaderByHash(want.Block.Hash); err != nil || hd.Number != n {
		p.add("hash-lookup-differs", "BlockHeaderByHash(block %d): %v", n, err)
	}
	if bh, err := bc.BlockHeaderHashByNumber(n); err != nil || !sameFelt(bh, want.Block.Hash) {
		p.add("hash-lookup-differs", "BlockHeaderHashByNumber(%d): %v", n, err)
	}
	// state update
	su, err := bc.StateUpdateByNumber(n)
	if err != nil {
		p.add("state-update-unreadable", "StateUpdateByNumber(%d): %v", n, err)
	} else {
		if !sameFelt(su.BlockHash, want.SU.BlockHash) || !sameFelt(su.NewRoot, want.SU.NewRoot) || !sameFelt(su.OldRoot, want.SU.OldRoot) {
			p.add("state-update-differs", "block %d: state update header differs", n)
		}
		if su.StateDiff.Length() != want.SU.StateDiff.Length() || !sameDiff(su.StateDiff, want.SU.StateDiff) {
			p.add("state-update-differs", "block %d: state diff differs", n)
		}
	}
	if su2, err := bc.StateUpdateByHash(want.Block.Hash); err != nil || !sameFelt(su2.BlockHash, want.Block.Hash) {
		p.add("state-update-differs", "StateUpdateByHash(block %d): %v", n, err)
	}
	// commitments
	cm, err := bc.BlockCommitmentsByNumber(n)
	if err != nil || cm == nil {
		p.add("commitments-unreadable", "BlockCommitmentsByNumber(%d): %v", n, err)
	} else {
		wc, err := core.VerifyBlockHash(want.Clone().Block, lib.TestNetwork(), want.SU.StateDiff, core.TrieBackend)
		if err == nil && wc != nil && (!sameFelt(cm.TransactionCommitment, wc.TransactionCommitment) ||
			!sameFelt(cm.EventCommitment, wc.EventCommitment) || !sameFelt(cm.ReceiptCommitment, wc.ReceiptCommitment) ||
			!sameFelt(cm.StateDiffCommitment, wc.StateDiffCommitment)) {
			p.add("commitments-differ", "block %d: stored commitments differ from the block's", n)
		}
	}
}

func sameDiff(a, b *core.StateDiff) bool {
	if len(a.StorageDiffs) != len(b.StorageDiffs) || len(a.Nonces) != len(b.Nonces) ||
		len(a.DeployedContracts) != len(b.DeployedContracts) || len(a.ReplacedClasses) != len(b.ReplacedClasses) ||
		len(a.DeclaredV1Classes) != len(b.DeclaredV1Classes) || len(a.DeclaredV0Classes) != len(b.DeclaredV0Classes) {
		return false
	}
	for addr, kv := range b.StorageDiffs {
		akv, ok := a.StorageDiffs[addr]
		if !ok || len(akv) != len(kv) {
			return false
		}
		for k, v := range kv {
			if av, ok := akv[k]; !ok || !sameFelt(av, v) {
				return false
			}
		}
	}
	for addr, v := range b.Nonces {
		if av, ok := a.Nonces[addr]; !ok || !sameFelt(av, v) {
			return false
		}
	}
	for addr, v := range b.DeployedContracts {
		if av, ok := a.DeployedContracts[addr]; !ok || !sameFelt(av, v) {
			return false
		}
	}
	for addr, v := range b.ReplacedClasses {
		if av, ok := a.ReplacedClasses[addr]; !ok || !sameFelt(av, v) {
			return false
		}
	}
	return true
}

// checkAbsent: the block `ghost` (the head of the other candidate world) must be completely
// invisible.
func checkAbsent(bc *blockchain.Blockchain, w *World, ghost *lib.Bundle, p *problems) {
	n := ghost.Block.Number
	inChain := func(h *felt.Felt) bool {
		for _, b := range w.Chain {
			if b.Block.Hash.Equal(h) {
				return true
			}
		}
		return false
	}
	if int(n) > w.Height() {
		if _, err := bc.BlockByNumber(n); !isNotFound(err) {
			p.add("absent-block-visible", "BlockByNumber(%d) above the head: %v", n, err)
		}
		if _, err := bc.BlockHeaderByNumber(n); !isNotFound(err) {
			p.add("absent-block-visible", "BlockHeaderByNumber(%d) above the head: %v", n, err)
		}
		if _, err := bc.StateUpdateByNumber(n); !isNotFound(err) {
			p.add("absent-block-visible", "StateUpdateByNumber(%d) above the head: %v", n, err)
		}
		if _, err := bc.BlockCommitmentsByNumber(n); !isNotFound(err) {
			p.add("absent-block-visible", "BlockCommitmentsByNumber(%d) above the head: %v", n, err)
		}
		if _, _, err := bc.TransactionsAndReceiptsByBlockNumber(n); !isNotFound(err) {
			p.add("absent-block-visible", "TransactionsAndReceiptsByBlockNumber(%d) above the head: %v", n, err)
		}
	}
	if !inChain(ghost.Block.Hash) {
		if _, err := bc.BlockNumberByHash(ghost.Block.Hash); !isNotFound(err) {
			p.add("absent-block-visible", "BlockNumberByHash(hash of absent block %d): %v", n, err)
		}
		if _, err := bc.BlockByHash(ghost.Block.Hash); !isNotFound(err) {
			p.add("absent-block-visible", "BlockByHash(hash of absent block %d): %v", n, err)
		}
		if _, err := bc.StateUpdateByHash(ghost.Block.Hash); !isNotFound(err) {
			p.add("absent-block-visible", "StateUpdateByHash(hash of absent block %d): %v", n, err)
		}
	}
	present := map[felt.Felt]bool{}
	for _, b := range w.Chain {
		for _, tx := range b.Block.Transactions {
			present[*tx.Hash()] = true
		}
	}
	for i, tx := range ghost.Block.Transactions {
		if present[*tx.Hash()] {
			continue
		}
		if _, _, err := bc.BlockNumberAndIndexByTxHash((*felt.TransactionHash)(tx.Hash())); !isNotFound(err) {
			p.add("absent-block-visible", "tx %d of absent block %d still resolves: %v", i, n, err)
		}
		if _, err := bc.TransactionByHash(tx.Hash()); !isNotFound(err) {
			p.add("absent-block-visible", "TransactionByHash(tx %d of absent block %d): %v", i, n, err)
		}
		if l1, ok := tx.(*core.L1HandlerTransaction); ok {
			mh := eth.Hash(l1.MessageHash())
			if _, err := bc.L1HandlerTxnHash(&mh); !isNotFound(err) {
				p.add("absent-block-visible", "L1 message of absent block %d still resolves: %v", n, err)
			}
		}
	}
}

type committer interface {
	Commitment(protocolVersion string) (felt.Felt, error)
}

// checkState compares the head state with the abstract state and recomputes the commitment.
func checkState(bc *blockchain.Blockchain, w *World, p *problems) {
	reader, closer, err := bc.HeadState()
	if len(w.Chain) == 0 {
		if err == nil {
			_ = closer()
			p.add("state-on-empty-chain", "HeadState succeeds on an empty chain")
		}
		return
	}
	if err != nil {
		p.add("head-state-unreadable", "HeadState: %v", err)
		return
	}
	defer func() { _ = closer() }()
	head := w.Head().Block
	if c, ok := reader.(committer); ok {
		root, err := c.Commitment(head.ProtocolVersion)
		if err != nil {
			p.add("state-root-unreadable", "recomputing the state commitment: %v", err)
		} else if !root.Equal(head.GlobalStateRoot) {
			p.add("state-root-differs", "state commitment from the tries %s != head block's root %s", root.String(), head.GlobalStateRoot.String())
		}
	}
	bad := 0
	first := ""
	note := func(format string, a ...any) {
		bad++
		if first == "" {
			first = fmt.Sprintf(format, a...)
		}
	}
	for a, c := range w.State.Contracts {
		for k, v := range c.Storage {
			got, err := reader.ContractStorage(&a, &k)
			if err != nil || !got.Equal(&v) {
				note("storage %s[%s] = %s (%v), chain says %s", a.String(), k.String(), got.String(), err, v.String())
			}
		}
		if w.State.Deployed[a] {
			ch, err := reader.ContractClassHash(&a)
			if err != nil || !ch.Equal(&c.Class) {
				note("class hash of %s = %s (%v), chain says %s", a.String(), ch.String(), err, c.Class.String())
			}
			nn, err := reader.ContractNonce(&a)
			if err != nil || !nn.Equal(&c.Nonce) {
				note("nonce of %s = %s (%v), chain says %s", a.String(), nn.String(), err, c.Nonce.String())
			}
		}
	}
	for ch, at := range w.State.Classes {
		cd, err := reader.Class(&ch)
		if err != nil || cd == nil {
			note("declared class %s unreadable: %v", ch.String(), err)
		} else if cd.At != at {
			note("declared class %s at block %d, chain says %d", ch.String(), cd.At, at)
		}
	}
	if bad > 0 {
		p.add("head-state-differs", "%d state reads differ from the fold of the chain's diffs; first: %s", bad, first)
	}
}

type evRef struct {
	Block uint64
	Tx    felt.Felt
	From  felt.Felt
	NKeys int
}

// naiveEvents scans the receipts of the chain.
func naiveEvents(w *World, from *felt.Felt, key *felt.Felt) []evRef {
	var out []evRef
	for _, b := range w.Chain {
		if b.Block.Number < w.Floor {
			continue
		}
		for _, rc := range b.Block.Receipts {
			for _, ev := range rc.Events {
				if from != nil && !ev.From.Equal(from) {
					continue
				}
				if key != nil && (len(ev.Keys) == 0 || !ev.Keys[0].Equal(key)) {
					continue
				}
				out = append(out, evRef{Block: b.Block.Number, Tx: *rc.TransactionHash, From: *ev.From, NKeys: len(ev.Keys)})
			}
		}
	}
	return out
}

func queryEvents(bc *blockchain.Blockchain, w *World, from *felt.Felt, key *felt.Felt) ([]evRef, error) {
	var addrs []felt.Address
	if from != nil {
		addrs = []felt.Address{felt.Address(*from)}
	}
	var keys [][]felt.Felt
	if key != nil {
		keys = [][]felt.Felt{{*key}}
	}
	ef, err := bc.EventFilter(addrs, keys, noPreConfirmed)
	if err != nil {
		return nil, err
	}
	defer ef.Close()
	if w.Floor > 0 {
		if err := ef.SetRangeEndBlockByNumber(blockchain.EventFilterFrom, w.Floor); err != nil {
			return nil, err
		}
	}
	evs, tok, err := ef.Events(nil, 1<<30)
	if err != nil {
		return nil, err
	}
	if !tok.IsEmpty() {
		return nil, fmt.Errorf("unexpected continuation token %s", tok.String())
	}
	out := make([]evRef, 0, len(evs))
	for _, e := range evs {
		out = append(out, evRef{Block: e.BlockNumber, Tx: *e.TransactionHash, From: *e.From, NKeys: len(e.Keys)})
	}
	return out, nil
}

// eventQueries: which (from, key) filters are asked. Every one goes through the bloom index.
func eventQueries(g *lib.ChainGen) [][2]*felt.Felt {
	var qs [][2]*felt.Felt
	for i := 0; i < 3; i++ {
		k := lib.EventKey(i)
		qs = append(qs, [2]*felt.Felt{nil, &k})
	}
	for i := 0; i < g.NAddrs(); i++ {
		a := g.Addr(i)
		qs = append(qs, [2]*felt.Felt{&a, nil})
	}
	return qs
}

func checkEvents(bc *blockchain.Blockchain, w *World, qs [][2]*felt.Felt, p *problems) {
	if len(w.Chain) == 0 {
		return
	}
	for _, q := range qs {
		want := naiveEvents(w, q[0], q[1])
		got, err := queryEvents(bc, w, q[0], q[1])
		if err != nil {
			p.add("event-query-fails", "event query (from=%v key=%v): %v", q[0], q[1], err)
			return
		}
		if len(got) < len(want) {
			missing := firstMissing(want, got)
			p.add("event-query-misses-events", "event query (from=%v key=%v) returned %d events, a scan of the receipts finds %d; first missing one is in block %d",
				q[0], q[1], len(got), len(want), missing)
			(*p)[len(*p)-1].Block = missing
			return
		}
		if !reflect.DeepEqual(got, want) && len(got)+len(want) > 0 {
			p.add("event-query-differs", "event query (from=%v key=%v) returned %d events, the scan %d, or a different order", q[0], q[1], len(got), len(want))
			return
		}
	}
}

func firstMissing(want, got []evRef) uint64 {
	seen := map[evRef]int{}
	for _, g := range got {
		seen[g]++
	}
	for _, w := range want {
		if seen[w] == 0 {
			return w.Block
		}
		seen[w]--
	}
	return 0
}

// checkNode runs every read-side check of the property on a node that should be in world w.
// ghost (may be nil) is a block that must be invisible.
func checkNode(bc *blockchain.Blockchain, w *World, ghost *lib.Bundle, qs [][2]*felt.Felt) problems {
	var p problems
	h, err := bc.Height()
	switch {
	case len(w.Chain) == 0:
		if !isNotFound(err) {
			p.add("height-differs", "Height() = %d, %v on a chain that should be empty", h, err)
			return p
		}
	case err != nil || int(h) != w.Height():
		p.add("height-differs", "Height() = %d, %v; expected %d", h, err, w.Height())
		return p
	}
	if hd, err := bc.Head(); len(w.Chain) > 0 && (err != nil || !sameFelt(hd.Hash, w.Head().Block.Hash)) {
		p.add("head-differs", "Head(): %v", err)
	}
	for _, n := range blocksToCheck(w) {
		checkBlock(bc, w.Chain[n], &p)
	}
	if ghost != nil {
		checkAbsent(bc, w, ghost, &p)
	}
	checkState(bc, w, &p)
	checkEvents(bc, w, qs, &p)
	l1, err := bc.L1Head()
	switch {
	case w.L1 == nil:
		if !isNotFound(err) {
			p.add("l1-head-differs", "L1Head() = %+v, %v; never set", l1, err)
		}
	case err != nil || l1.BlockNumber != w.L1.BlockNumber || !sameFelt(l1.BlockHash, w.L1.BlockHash) || !sameFelt(l1.StateRoot, w.L1.StateRoot):
		p.add("l1-head-differs", "L1Head() = %+v, %v; expected block %d", l1, err, w.L1.BlockNumber)
	}
	return p
}

// checkRetention: what pruning may and may not have removed. The store's oldest retained block F
// (first block with a commitments record) must be w.Floor; every block at or above F must be
// fully present (checkNode looks at them, including hash / transaction-hash / L1-message
// lookups); every block below F must be fully absent — commitments, state update, transactions,
// transaction-hash and L1-message lookups, hash->number mapping — except for the two documented
// carve-outs: the hash->number mapping of F-1 and the headers of the last BlockHashLag blocks
// below F. The state history must still serve reads at F-1 and at F.
func checkRetention(store db.KeyValueReader, bc *blockchain.Blockchain, w *World, p *problems) {
	if len(w.Chain) == 0 {
		return
	}
	f, err := pruner.OldestRetainedBlock(store)
	if err != nil {
		p.add("retention-floor-unreadable", "OldestRetainedBlock: %v", err)
		return
	}
	if f != w.Floor {
		p.add("retention-floor-differs", "OldestRetainedBlock = %d, expected %d", f, w.Floor)
		return
	}
	for n := uint64(0); n < f && int(n) <= w.Height(); n++ {
		b := w.Chain[n]
		if _, err := bc.BlockCommitmentsByNumber(n); !isNotFound(err) {
			p.add("pruned-block-visible", "BlockCommitmentsByNumber(%d) below the floor %d: %v", n, f, err)
		}
		if _, err := bc.StateUpdateByNumber(n); !isNotFound(err) {
			p.add("pruned-block-visible", "StateUpdateByNumber(%d) below the floor %d: %v", n, f, err)
		}
		if _, _, err := bc.TransactionsAndReceiptsByBlockNumber(n); !isNotFound(err) {
			p.add("pruned-block-visible", "TransactionsAndReceiptsByBlockNumber(%d) below the floor %d: %v", n, f, err)
		}
		_, err := bc.BlockNumberByHash(b.Block.Hash)
		switch {
		case n+1 == f && err != nil:
			p.add("retention-carve-out-missing", "hash->number mapping of block %d (the block below the oldest retained one) is gone: %v", n, err)
		case n+1 < f && !isNotFound(err):
			p.add("pruned-block-visible", "BlockNumberByHash(block %d) below the floor %d: %v", n, f, err)
		}
		_, err = bc.BlockHeaderByNumber(n)
		switch {
		case n+core.BlockHashLag >= f && err != nil:
			p.add("retention-carve-out-missing", "header of block %d (within BlockHashLag of the floor %d) is gone: %v", n, f, err)
		case n+core.BlockHashLag < f && !isNotFound(err):
			p.add("pruned-block-visible", "BlockHeaderByNumber(%d) more than BlockHashLag below the floor %d: %v", n, f, err)
		}
		for i, tx := range b.Block.Transactions {
			if _, _, err := bc.BlockNumberAndIndexByTxHash((*felt.TransactionHash)(tx.Hash())); !isNotFound(err) {
				p.add("pruned-block-visible", "tx %d of pruned block %d still resolves: %v", i, n, err)
			}
			if l1, ok := tx.(*core.L1HandlerTransaction); ok {
				mh := eth.Hash(l1.MessageHash())
				if _, err := bc.L1HandlerTxnHash(&mh); !isNotFound(err) {
					p.add("pruned-block-visible", "L1 message of pruned block %d still resolves: %v", n, err)
				}
			}
		}
	}
	// "memory agrees with disk" for the retention floor: the state of a block whose history entries
	// have been pruned (k + 1 < F: history holds pre-block values, so F-1 is still reconstructible)
	// must never be handed out — whatever the in-memory floor of the live process says
	for _, k := range []uint64{0, f / 2, f - 2} {
		if f < 2 || k+1 >= f {
			continue
		}
		if rd, closer, err := bc.StateAtBlockNumber(k); err == nil {
			_ = rd
			_ = closer()
			p.add("pruned-state-served", "StateAtBlockNumber(%d) hands out a reader although the oldest retained block on disk is %d "+
				"(state history, state updates and lookups of the blocks below it are deleted)", k, f)
			break
		}
	}
	// historical state: one below the floor, the floor, and the block below the head (from the
	// highest target the live process was asked to prune to, when that is above the disk's floor)
	lo := max(f, w.Asked)
	at := map[uint64]bool{lo: true}
	if lo > 0 {
		at[lo-1] = true
	}
	if w.Height() >= 1 && uint64(w.Height()-1) >= lo {
		at[uint64(w.Height()-1)] = true
	}
	for n := range at {
		if int(n) > w.Height() || int(n) >= len(w.States) {
			continue
		}
		checkHistory(bc, w, n, p)
	}
}

// checkHistory reads the state as of block n and compares it with the fold of the diffs 0..n.
func checkHistory(bc *blockchain.Blockchain, w *World, n uint64, p *problems) {
	reader, closer, err := bc.StateAtBlockNumber(n)
	if err != nil {
		p.add("historical-state-unreadable", "StateAtBlockNumber(%d) (floor %d, head %d): %v", n, w.Floor, w.Height(), err)
		return
	}
	defer func() { _ = closer() }()
	st := w.States[n]
	bad, first := 0, ""
	note := func(format string, a ...any) {
		bad++
		if first == "" {
			first = fmt.Sprintf(format, a...)
		}
	}
	// every contract / slot known at the head, as of block n
	head := w.States[w.Height()]
	for a, hc := range head.Contracts {
		c := st.Contracts[a]
		for k := range hc.Storage {
			want := felt.Zero
			if c != nil {
				want = c.Storage[k]
			}
			got, err := reader.ContractStorage(&a, &k)
			if err != nil && st.Deployed[a] {
				note("storage %s[%s] at block %d: %v", a.String(), k.String(), n, err)
			} else if err == nil && !got.Equal(&want) {
				note("storage %s[%s] at block %d = %s, the chain says %s", a.String(), k.String(), n, got.String(), want.String())
			}
		}
		if st.Deployed[a] && c != nil {
			nn, err := reader.ContractNonce(&a)
			if err != nil || !nn.Equal(&c.Nonce) {
				note("nonce of %s at block %d = %s (%v), the chain says %s", a.String(), n, nn.String(), err, c.Nonce.String())
			}
			ch, err := reader.ContractClassHash(&a)
			if err != nil || !ch.Equal(&c.Class) {
				note("class hash of %s at block %d = %s (%v), the chain says %s", a.String(), n, ch.String(), err, c.Class.String())
			}
		}
	}
	if bad > 0 {
		p.add("historical-state-differs", "%d reads of the state at block %d differ from the fold of the chain's diffs; first: %s", bad, n, first)
	}
}

// storeProbe offers the world's probe block to a node and checks that it became the head.
func storeProbe(bc *blockchain.Blockchain, w *World, p *problems, sigPrefix string) {
	if w.Probe == nil {
		return
	}
	err, panicked, _ := lib.Try(func() error { return lib.StoreOn(bc, w.Probe) })
	if err != nil {
		sig := sigPrefix + "next-block-cannot-be-stored"
		if panicked {
			sig = sigPrefix + "next-block-store-panics"
		}
		p.add(sig, "storing the next block %d: %v", w.Probe.Block.Number, err)
		return
	}
	h, err := bc.Height()
	if err != nil || h != w.Probe.Block.Number {
		p.add(sigPrefix+"next-block-not-head", "after storing block %d Height() = %d, %v", w.Probe.Block.Number, h, err)
		return
	}
	var q problems
	checkBlock(bc, w.Probe, &q)
	for _, x := range q {
		p.add(sigPrefix+"next-block-"+x.Sig, "%s", x.Detail)
	}
}

// restartFilter is what a new process would hold after initialising from this image.
func restartFilter(store db.KeyValueStore, pruning bool) (*core.RunningEventFilter, error) {
	view := newOverlay(store)
	if pruning {
		return pruner.InitializeRunningEventFilter(view)
	}
	return core.InitializeRunningEventFilter(view)
}

// decodeSnapshot decodes bytes written by WriteRunningEventFilter.
func decodeSnapshot(raw []byte) (*core.RunningEventFilter, error) {
	tmp := memory.New()
	if err := tmp.Put(db.RunningEventFilter.Key(), raw); err != nil {
		return nil, err
	}
	return core.GetRunningEventFilter(tmp)
}
