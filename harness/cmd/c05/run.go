//go:build verif

package main

import (
	"context"
	"encoding/binary"
	"errors"
	"fmt"
	"sort"
	"strings"
	"sync"

	"github.com/cespare/xxhash/v2"

	"github.com/NethermindEth/juno/core"
	"github.com/NethermindEth/juno/db"
	"github.com/NethermindEth/juno/db/memory"
	"github.com/NethermindEth/juno/pruner"
	"verif/harness/lib"
)

// crashPoint is the image of the store right after one applied commit.
type crashPoint struct {
	K    int // commit index (1-based, over the whole history)
	Step int
	Img  *memory.Database
}

// twin is the fault-free run of a scenario: the reference for every crash / fault case.
type twin struct {
	commits    int
	crash      []crashPoint
	initWrites map[int]bool // commits that were window writes of a lazy filter initialisation
	digAfter   []string     // image digest after each step
	looseAfter []string     // cross-run digest after each step
	digBase    string
	finalImg   *memory.Database
	trace      *trace
}

func singleCommitOp(op string) bool { return op != "prune" }

type runner struct {
	res     *lib.Result
	f       lib.Flags
	drivers chan *lib.Driver // pool of model drivers (nil = no correspondence)
	sem     chan struct{}    // worker slots
	fixes   string           // which repairs the code under test contains ("000" = none)
	onlyK   int              // replay: only this failing commit (0 = all)
}

func (r *runner) driver() *lib.Driver {
	if r.drivers == nil {
		return nil
	}
	return <-r.drivers
}

func (r *runner) release(d *lib.Driver) { r.drivers <- d }

func (r *runner) violate(sc *Scenario, sig, what string, extra map[string]any) {
	rep := sc.Describe()
	for k, v := range extra {
		rep[k] = v
	}
	r.res.Violate(lib.Violation{Sig: sig, What: what, Replay: rep})
}

func (r *runner) report(sc *Scenario, ps problems, prefix string, extra map[string]any) {
	for _, p := range ps {
		r.violate(sc, prefix+p.Sig, p.Detail, extra)
	}
}

// reportCause reports the problems of one situation. When a root cause was identified the
// problems are its consequences and go into ONE violation named after the cause; otherwise every
// problem is a violation of its own.
//
// Only symptoms that the cause EXPLAINS are folded into its signature (a known-finding signature
// must match nothing but the defect it documents): every cause concerns the running event filter
// / the event index, so a problem about anything else (a block record, a lookup, the state, the
// height, the image) is always reported under its own signature; and the cached initialisation
// error only explains calls that return that very error.
func (r *runner) reportCause(sc *Scenario, cause, causeWhat string, ps problems, prefix string, extra map[string]any) {
	if cause == "" {
		r.report(sc, ps, prefix, extra)
		return
	}
	explains := func(p Problem) bool {
		if cause == sigInitCached {
			return strings.Contains(p.Detail, "couldn't initialize the running event filter")
		}
		if cause == "event-query-uses-stale-cached-window-after-reorg" {
			return strings.HasSuffix(p.Sig, "event-query-misses-events")
		}
		for _, frag := range []string{"running-filter", "event-query", "next-block-cannot-be-stored", "retry-fails", "later-call-fails", "final-image-differs"} {
			if strings.Contains(p.Sig, frag) {
				return true
			}
		}
		return false
	}
	var rest problems
	cons := make([]string, 0, len(ps))
	seen := map[string]bool{}
	for _, p := range ps {
		if !explains(p) {
			rest = append(rest, p)
			continue
		}
		if !seen[p.Sig] {
			seen[p.Sig] = true
			cons = append(cons, p.Sig+": "+p.Detail)
		}
	}
	sort.Strings(cons)
	ex := map[string]any{"consequences": cons}
	for k, v := range extra {
		ex[k] = v
	}
	what := causeWhat
	if len(cons) > 0 {
		what += " Consequences observed: " + strings.Join(cons, " | ")
	}
	r.violate(sc, cause, what, ex)
	r.report(sc, rest, prefix, extra)
}

// sigInitCached: a lazy filter initialisation failed on a write and the error is kept by the
// instance (L17; paths not covered by the Reset of 3373c0b: WriteRunningEventFilter, event queries).
const sigInitCached = "filter-init-error-cached-after-failed-init-write"

func (sc *Scenario) newStore() (db.KeyValueStore, func()) {
	if sc.NewStore != nil {
		return sc.NewStore(sc.Base)
	}
	if sc.Base == nil {
		return memory.New(), func() {}
	}
	return sc.Base.Copy(), func() {}
}

// checkLiveFilter compares the node's in-memory running filter with the chain it should describe.
func (r *runner) checkLiveFilter(n *Node, w *World, ps *problems) {
	rf, err := n.memFilter()
	if err != nil {
		ps.add("running-filter-unreadable", "observing the in-memory running filter: %v", err)
		return
	}
	n.sc.U.filterVsChain(rf, w, "", ps, r.res)
}

// liveChecks: everything the property asks of a live node that should be in world w.
// Returns the problems and, when an event-query miss is explained by a stale cached window
// (lead L2, owned by C09), that cause.
func (r *runner) liveChecks(n *Node, store db.KeyValueStore, w *World, ghost *lib.Bundle, withFilter bool) (problems, string, string) {
	sc := n.sc
	ps := checkNode(n.bc, w, ghost, sc.Queries)
	if sc.Pruning {
		checkRetention(store, n.bc, w, &ps)
	}
	var fps problems
	if withFilter {
		r.checkLiveFilter(n, w, &fps)
	}
	cause, what := "", ""
	if len(fps) == 0 && withFilter {
		// the running filter is right; is a miss explained by the window cache?
		next := uint64(w.Height() + 1)
		for _, p := range ps {
			if p.Sig != "event-query-misses-events" || p.Block >= next-next%core.NumBlocksPerFilter {
				continue
			}
			lo := p.Block - p.Block%core.NumBlocksPerFilter
			f, err := core.GetAggregatedBloomFilter(store, lo, lo+core.MaxBlockOffsetPerFilter)
			if err != nil {
				continue
			}
			got := sc.U.cells(&f)
			ok := true
			for _, id := range sc.U.blockKeys(w.Chain[p.Block]) {
				ok = ok && got[cell{p.Block, id}]
			}
			if ok {
				cause = "event-query-uses-stale-cached-window-after-reorg"
				what = fmt.Sprintf("the persisted window [%d,%d] on disk contains block %d's keys and the running filter is exact, "+
					"but the live instance answers from a copy of the window cached before the reorg (AggregatedBloomFilterCache is never invalidated).",
					lo, lo+core.MaxBlockOffsetPerFilter, p.Block)
			}
		}
	}
	if cause == "" && (len(fps) > 0 || hasSig(ps, "event-query-misses-events") || hasSig(ps, "event-query-fails")) {
		// is the filter wrong because of what the disk made a (re)started instance believe?
		cause, what = sc.restartCause(store, w)
	}
	return append(ps, fps...), cause, what
}

func hasSig(ps problems, sig string) bool {
	for _, p := range ps {
		if p.Sig == sig {
			return true
		}
	}
	return false
}

// runTwin executes the scenario without faults, checking the live node after every step and
// recording the crash image after every commit.
func (r *runner) runTwin(sc *Scenario) (*twin, bool) {
	store, cleanup := sc.newStore()
	defer cleanup()
	fdb := NewFaultDB(store)
	tw := &twin{digBase: digest(store), trace: newTrace(sc, r)}
	cur := 0
	fdb.onCommit = func(idx int, _ string) {
		tw.crash = append(tw.crash, crashPoint{K: idx, Step: cur, Img: image(store)})
	}
	n := newNode(sc, fdb)
	stepCommits := make([]int, len(sc.Steps))
	// the chain part of the image (see chainDigest) the first time each (head, floor) was reached
	type seenImg struct {
		dig  string
		step int
	}
	seen := map[string]seenImg{worldKey(&sc.BaseWorld): {chainDigest(store), -1}}
	for i := range sc.Steps {
		cur = i
		s := &sc.Steps[i]
		before := fdb.Commits()
		tw.trace.before(n)
		err := n.exec(s)
		r.res.Hit("op:" + s.Op)
		r.hitFeatures(sc, i)
		if s.Op == "rejected" && err == nil {
			r.res.Hit("rejected:" + errClass(n.rejectErr))
		}
		// after a kill / restart the filter is left untouched, so that the next call runs with a
		// lazy filter on the real code (initialisation inside the call, as in a fresh process)
		lazyObs := s.Op == "kill" || s.Op == "restart"
		tw.trace.stepQL(s, err, n, store, false, lazyObs)
		if err != nil {
			r.violate(sc, "fault-free-"+s.Op+"-fails", fmt.Sprintf("step %d %s failed without any injected fault: %v", i, s, err),
				map[string]any{"step": i, "fault": "none"})
			return tw, false
		}
		nc := fdb.Commits() - before
		stepCommits[i] = nc
		if s.Op == "prune" && s.BatchBytes == 0 && nc == modelPruneBatches(sc.worldBefore(i), s) {
			s.ModelBatches = true
			r.res.Hit("prune-failing-batches-compared-with-model")
		}
		r.res.Hit(fmt.Sprintf("commits-per-%s:%d", s.Op, min(nc, 9)))
		tw.digAfter = append(tw.digAfter, digest(store))
		tw.looseAfter = append(tw.looseAfter, looseDigest(store))
		// "fully present or fully absent": whenever the node holds the same chain (same head, same
		// retention floor) again — after a RevertHead, after a revert-and-restore, through Finalise
		// instead of Store — the chain part of the database must be what it was the first time
		cd, wk := chainDigest(store), worldKey(&s.After)
		if first, ok := seen[wk]; !ok {
			seen[wk] = seenImg{cd, i}
		} else if first.dig != cd {
			r.res.Hit("same-chain-image-compared")
			var ref db.KeyValueStore = memory.New()
			if first.step >= 0 {
				ref = tw.crashAfter(first.step)
			} else if sc.Base != nil {
				ref = sc.Base
			}
			r.violate(sc, "same-chain-different-image-after-"+s.Op, fmt.Sprintf("after step %d %s the node holds the chain it held after step %d (head %d, floor %d), "+
				"but the block / class / state buckets of the database differ: %s", i, s, first.step, s.After.Height(), s.After.Floor,
				diffChainImages(store, ref)), map[string]any{"step": i, "fault": "none"})
		} else {
			r.res.Hit("same-chain-image-compared")
		}
		var ps problems
		cause, what := "", ""
		if lazyObs {
			ps = checkNode(n.bc, &s.After, nil, nil) // no event query: it would initialise the filter
		} else {
			ps, cause, what = r.liveChecks(n, store, &s.After, nil, s.Op != "prune")
		}
		r.reportCause(sc, cause, what, ps, "live-", map[string]any{"step": i, "fault": "none"})
		r.res.Case(fmt.Sprintf("%s/%d/live/%d", sc.Name, sc.Seed, i), true)
	}
	tw.commits = fdb.Commits()
	tw.finalImg = image(store)
	tw.initWrites = map[int]bool{}
	for _, cp := range tw.crash {
		if fdb.isInitWrite(cp.K) {
			tw.initWrites[cp.K] = true
			r.res.Hit("init-write-inside:" + sc.Steps[cp.Step].Op)
		}
	}
	if r.drivers != nil {
		kk, last := 0, -1
		for _, cp := range tw.crash {
			if cp.Step != last {
				kk, last = 0, cp.Step
			}
			// (a commit inside a kill step is the lazy filter initialisation of the observation
			// that follows it; the model has no fault position there. The batches of a prune are
			// compared when the real sweep rotated its batch exactly where the model does.)
			st := &sc.Steps[cp.Step]
			if st.Op == "kill" || (st.Op == "prune" && !(st.BatchBytes == 0 && stepCommits[cp.Step] == modelPruneBatches(sc.worldBefore(cp.Step), st))) {
				if st.Op == "prune" {
					r.res.Hit("prune-batches-not-compared-with-model")
				}
			} else if tw.initWrites[cp.K] {
				tw.trace.crash(cp.Step, "ci", cp.Img)
				continue // not one of the call's own commits
			} else {
				tw.trace.crash(cp.Step, fmt.Sprintf("c%d", kk), cp.Img)
			}
			kk++
		}
	}
	return tw, true
}

// checkCrashPoints: for every commit k, a process dying right after it leaves img. A fresh
// node on img must be in the world before or after the interrupted step.
func (r *runner) checkCrashPoints(sc *Scenario, tw *twin) {
	for _, cp := range tw.crash {
		s := &sc.Steps[cp.Step]
		extra := map[string]any{"step": cp.Step, "fault": "crash-after-commit", "k": cp.K}
		before, after := sc.worldBefore(cp.Step), &s.After
		digBefore := tw.digBase
		if cp.Step > 0 {
			digBefore = tw.digAfter[cp.Step-1]
		}
		d := digest(cp.Img)
		w, ghost := after, (*lib.Bundle)(nil)
		r.res.Hit("crash-point:" + s.Op)
		if tw.initWrites[cp.K] {
			// the process died after the lazy initialisation persisted a window, before the call's
			// own commit: everything but the window bucket must be the before-image
			r.res.Hit("crash-point-after-init-write")
			if df := diffImages(cp.Img, tw.imgBefore(cp.Step, sc)); strings.Count(df, "=") != strings.Count(df, "AggregatedBloomFilters:") {
				r.violate(sc, "init-write-changes-more-than-windows", fmt.Sprintf("the image after commit %d (the window write of a lazy filter "+
					"initialisation inside step %d %s) differs from the image before the call in: %s", cp.K, cp.Step, s, df), extra)
			}
			gh := (*lib.Bundle)(nil)
			if s.Op == "store" || s.Op == "finalise" || s.Op == "genesis" {
				gh = s.B
			}
			r.checkRestartedImage(sc, cp.Img, before, gh, "crash-", extra)
			r.res.Case(fmt.Sprintf("%s/%d/crash/%d", sc.Name, sc.Seed, cp.K), true)
			continue
		}
		switch {
		case d == tw.digAfter[cp.Step]:
			if s.Op == "revert" {
				ghost = before.Head()
			}
		case d == digBefore:
			w = before
			if s.Op == "store" || s.Op == "finalise" || s.Op == "genesis" {
				ghost = s.B
			}
		case singleCommitOp(s.Op):
			r.violate(sc, "op-not-atomic-"+s.Op,
				fmt.Sprintf("the image after commit %d (inside step %d %s) is neither the image before nor the image after the operation; "+
					"it differs from the after-image in: %s", cp.K, cp.Step, s, diffImages(cp.Img, tw.crashAfter(cp.Step))), extra)
			// still look at what a restarted node sees
			if h, err := core.GetChainHeight(cp.Img); (err == nil && int(h) == before.Height()) || (err != nil && before.Height() < 0) {
				w = before
				if s.Op == "store" {
					ghost = s.B
				}
			} else if s.Op == "revert" {
				ghost = before.Head()
			}
		default:
			// an interrupted prune: the image must be that of a prune that stopped at some block F
			// between the old floor and the target — everything from F on intact, everything below
			// F gone (checkRetention), the floor read back from the image itself
			w = midPruneWorld(cp.Img, before, after, func(sig, what string) { r.violate(sc, "crash-"+sig, what, extra) })
		}
		r.checkRestartedImage(sc, cp.Img, w, ghost, "crash-", extra)
		if s.Op == "prune" && d != tw.digAfter[cp.Step] {
			r.checkPruneResumes(sc, cp, tw, extra)
			if d != digBefore {
				// a torn multi-batch prune that is NOT resumed: the rest of the history runs on
				// the node whose floor lies between the old one and the target
				r.continueOnMidPrune(sc, cp, w, extra)
			}
		}
		r.res.Case(fmt.Sprintf("%s/%d/crash/%d", sc.Name, sc.Seed, cp.K), true)
	}
}

// modelPruneBatches: how many batches the model's sweep (threshold 1: a batch is rotated as soon as
// it holds a point delete; transaction lookups and the hash->number mapping of the block below are
// the point deletes it knows) writes for this step.
func modelPruneBatches(before *World, s *Step) int {
	n := 1
	for b := before.Floor; b < s.PruneTo && int(b) <= before.Height(); b++ {
		if b > 0 || len(before.Chain[b].Block.Transactions) > 0 {
			n++
		}
	}
	return n
}

// midPruneWorld: the world of an image taken between two batches of a prune (or after a failed
// batch): the chain of the finished prune with the retention floor the image itself reports.
func midPruneWorld(store db.KeyValueReader, before, after *World, bad func(sig, what string)) *World {
	w := *after
	f, err := pruner.OldestRetainedBlock(store)
	switch {
	case err != nil:
		bad("retention-floor-unreadable", fmt.Sprintf("OldestRetainedBlock on the image of an interrupted prune: %v", err))
	case f < before.Floor || f > after.Floor:
		bad("retention-floor-out-of-range", fmt.Sprintf("an interrupted prune from floor %d to %d left OldestRetainedBlock = %d", before.Floor, after.Floor, f))
	default:
		w.Floor = f
	}
	return &w
}

// crashAfter returns the image at the end of a step (the last crash point of that step, or of
// an earlier one when the step committed nothing).
func (tw *twin) crashAfter(step int) db.KeyValueStore {
	var img *memory.Database
	for _, cp := range tw.crash {
		if cp.Step <= step {
			img = cp.Img
		}
	}
	if img == nil {
		return memory.New()
	}
	return img
}

// restartCause explains, from the image alone, why a filter initialised from it cannot describe
// the chain: a persisted window of a window that is not complete (L15), or a persisted snapshot
// that lacks keys of blocks it claims to cover (L3).
func (sc *Scenario) restartCause(img db.KeyValueStore, w *World) (string, string) {
	next := uint64(w.Height() + 1)
	for _, lo := range persistedWindows(img) {
		if lo+core.NumBlocksPerFilter > next {
			return "restart-trusts-persisted-window-of-incomplete-window",
				fmt.Sprintf("the disk holds a persisted bloom window [%d,%d] although the chain ends at block %d (a RevertHead of block %d, the last of its window, "+
					"leaves it behind); without a usable snapshot InitializeRunningEventFilter continues after that window.",
					lo, lo+core.MaxBlockOffsetPerFilter, w.Height(), lo+core.MaxBlockOffsetPerFilter)
		}
	}
	if s, err := core.GetRunningEventFilter(img); err == nil {
		nx, _ := s.NextBlock()
		lo, _ := s.FromBlock()
		in, _ := s.InnerFilter()
		if nx <= next {
			got := sc.U.cells(in)
			for b := lo; b < nx && int(b) <= w.Height(); b++ {
				for _, id := range sc.U.blockKeys(w.Chain[b]) {
					if !got[cell{b, id}] {
						return "restart-trusts-stale-snapshot-after-revert",
							fmt.Sprintf("the persisted running-filter snapshot (next=%d) was written before block %d was reverted and replaced; "+
								"it lacks the keys of the block now at %d, and InitializeRunningEventFilter resumes from it.", nx, b, b)
					}
				}
			}
		}
	}
	return "", ""
}

// checkRestartedImage opens a fresh node on a copy of the image (an ungraceful restart) and
// checks it against world w, including that the next block can be stored.
func (r *runner) checkRestartedImage(sc *Scenario, img *memory.Database, w *World, ghost *lib.Bundle, prefix string, extra map[string]any) {
	// first thing a restarted process does in sync: store the next block — on an instance whose
	// running filter has not been touched yet (lazy initialisation inside Store's closure)
	var ps problems
	storeProbe(sc.open(img.Copy()), w, &ps, "first-call-after-restart-")
	work := img.Copy()
	bc := sc.open(work)
	ps = append(ps, checkNode(bc, w, ghost, sc.Queries)...)
	if sc.Pruning {
		checkRetention(work, bc, w, &ps)
	}
	rf, err := restartFilter(img, sc.Pruning)
	if err != nil {
		ps.add("running-filter-cannot-initialise", "initialising the running event filter from the image: %v", err)
	} else {
		sc.U.filterVsChain(rf, w, "restarted-", &ps, r.res)
	}
	storeProbe(bc, w, &ps, "")
	cause, what := "", ""
	if len(ps) > 0 {
		cause, what = sc.restartCause(img, w)
	}
	r.reportCause(sc, cause, what, ps, prefix, extra)
}

func (r *runner) checkPruneResumes(sc *Scenario, cp crashPoint, tw *twin, extra map[string]any) {
	s := &sc.Steps[cp.Step]
	work := cp.Img.Copy()
	_, _, err := pruner.PruneUpto(context.Background(), work, s.PruneTo, s.batchBytes())
	if err != nil {
		r.violate(sc, "prune-cannot-resume-after-crash", fmt.Sprintf("PruneUpto(%d) on the image after commit %d: %v", s.PruneTo, cp.K, err), extra)
		return
	}
	if d := looseDigest(work); d != tw.looseAfter[cp.Step] {
		r.violate(sc, "prune-resume-differs", fmt.Sprintf("resuming the prune interrupted after commit %d does not reach the image of the uninterrupted prune: %s",
			cp.K, diffImagesOf(work, tw.crashAfter(cp.Step), true)), extra)
	}
}

// runFault executes the scenario with commit k failing once, checks the live node right after
// the failed call, retries it and runs the rest of the history.
func (r *runner) runFault(sc *Scenario, tw *twin, k int) {
	store, cleanup := sc.newStore()
	defer cleanup()
	fdb := NewFaultDB(store)
	fdb.failAt = k
	n := newNode(sc, fdb)
	tr := newTrace(sc, r)
	failedStep := -1
	failedOp := ""
	// root cause found right after the failed call: the in-memory filter no longer is what the
	// disk implies (L4); everything that goes wrong afterwards in this run is its consequence
	cause, causeWhat := "", ""
	var all problems
	note := func(ps problems, prefix string) {
		for _, p := range ps {
			p.Sig = prefix + p.Sig
			all = append(all, p)
		}
	}
	// the failing commit was a direct write of a lazy filter initialisation (a fill that reaches the
	// end of a window persists it): the model's `failInit` fault
	initFault := false
	finish := func() {
		if failedStep < 0 {
			return
		}
		extra := map[string]any{"step": failedStep, "fault": "fail-commit", "k": k}
		if initFault {
			r.res.Hit("failed-commit-inside-filter-init:" + failedOp)
			cause, causeWhat = "", ""
			for _, p := range all {
				if strings.Contains(p.Detail, "couldn't initialize the running event filter") {
					cause = sigInitCached
					if failedOp != "snap" && failedOp != "restart" {
						// Store / RevertHead / Finalise drop the filter when they fail (3373c0b): an
						// initialisation error that survives THEM is a different defect
						cause = "filter-init-error-survives-failed-" + failedOp
					}
					causeWhat = fmt.Sprintf("commit %d was the window write of a lazy running-filter initialisation (a fill that reaches the end of a window) "+
						"inside step %d %s; ensureInit keeps the error for the life of the instance (sync.Once): later calls return it although the "+
						"database is intact and healthy (only a failing Store / RevertHead / Finalise drops it again).", k, failedStep, &sc.Steps[failedStep])
					break
				}
			}
		}
		r.reportCause(sc, cause, causeWhat, all, "", extra)
		tr.compare(r, sc, extra)
	}
	defer finish()
	for i := range sc.Steps {
		s := &sc.Steps[i]
		digBefore := ""
		if fdb.injected == 0 && fdb.Commits() < k {
			digBefore = digest(store)
		}
		tr.before(n)
		err := n.exec(s)
		tr.stepQ(s, err, n, store, err == nil && failedStep < 0 && fdb.injected == 0)
		if err == nil {
			if fdb.injected > 0 && failedStep < 0 {
				failedStep = i
				all.add("commit-error-swallowed-by-"+s.Op, "commit %d failed inside step %d %s but the call returned nil", k, i, s)
				return
			}
			if failedStep >= 0 {
				// a later step of the history, after the retried one
				ps, c2, w2 := r.liveChecks(n, store, &s.After, nil, s.Op != "prune")
				if c2 != "" && cause == "" {
					cause, causeWhat = c2, w2
				}
				// (named after the failed call, not after the later call that happens to expose it)
				note(ps, "after-failed-"+failedOp+"-commit-later-")
			}
			continue
		}
		if failedStep >= 0 || !errors.Is(err, errInjected) && !strings.Contains(err.Error(), errInjected.Error()) {
			if failedStep < 0 {
				failedStep = i
				all.add("fault-free-"+s.Op+"-fails", "step %d %s: %v", i, s, err)
			} else {
				all.add("after-failed-"+failedOp+"-commit-later-call-fails", "step %d %s: %v (the injected failure was at step %d)", i, s, err, failedStep)
			}
			return
		}
		// the injected failure surfaced here
		r.res.Case(fmt.Sprintf("%s/%d/fail/%d", sc.Name, sc.Seed, k), true)
		failedStep, failedOp = i, s.Op
		initFault = strings.Contains(err.Error(), "couldn't initialize the running event filter")
		r.res.Hit("failed-commit:" + s.Op)
		before := sc.worldBefore(i)
		var ps problems
		if singleCommitOp(s.Op) {
			if d := digest(store); d != digBefore {
				df := diffImagesOf(store, tw.imgBefore(i, sc), true)
				if fdb.initWritesBetween(tr.pre, fdb.Commits()+1) > 0 && strings.Count(df, "=") == strings.Count(df, "AggregatedBloomFilters:") {
					// a lazy filter initialisation inside the failed call persisted a complete window
					// before the call's own commit failed (on a pruning node the re-written window may
					// lack the bits of pruned blocks): allowed, the windows are checked below
					r.res.Hit("failed-call-kept-init-window-write:" + s.Op)
				} else {
					ps.add("disk-changed-by-failed-"+s.Op, "the call returned the injected error but the store changed: %s", df)
				}
			}
		}
		w := before
		var ghost *lib.Bundle
		if s.Op == "store" || s.Op == "finalise" || s.Op == "genesis" {
			ghost = s.B
		}
		if s.Op == "prune" {
			w = midPruneWorld(store, before, &s.After, func(sig, what string) { ps.add(sig, "%s", what) })
			if sc.ViaPruner {
				w.Asked = s.PruneTo
			}
		}
		// in-memory filter vs what a restart would build from the surviving disk
		if mem, err := n.memFilter(); err == nil && (s.Op == "store" || s.Op == "finalise" || s.Op == "genesis" || s.Op == "revert") {
			if disk, err := restartFilter(store, sc.Pruning); err == nil {
				mo, do := sc.U.observeFilter(mem, w.Floor), sc.U.observeFilter(disk, w.Floor)
				if mo != do {
					ps.add("running-filter-differs-from-restart", "in memory window %d / next %d, a restart gives window %d / next %d", mo.From, mo.Next, do.From, do.Next)
					cause = "running-filter-diverges-after-failed-" + s.Op + "-commit"
					causeWhat = fmt.Sprintf("step %d %s returned the injected commit error; the disk is unchanged (height %d) but the in-memory running event filter "+
						"has window %d / next %d where a restart on the same disk gives window %d / next %d (same entries: %v): "+
						"the filter is mutated inside the batch closure, before the commit.", i, s, before.Height(), mo.From, mo.Next, do.From, do.Next, mo.Cells == do.Cells)
				}
			}
		}
		lp, c2, w2 := r.liveChecks(n, store, w, ghost, s.Op != "prune")
		if c2 != "" && cause == "" {
			cause, causeWhat = c2, w2
		}
		ps = append(ps, lp...)
		note(ps, "after-failed-"+s.Op+"-commit-")
		// in every other run a DIFFERENT call comes between the failure and the retry: the head is
		// offered again; it must be refused and must change nothing
		if head := before.Head(); head != nil && !initFault && singleCommitOp(s.Op) && (uint64(k)+sc.Seed)%2 == 1 {
			other := &Step{Op: "rejected", B: head, After: *before}
			d0 := digest(store)
			tr.before(n)
			oerr := n.exec(other)
			changed := digest(store) != d0
			tr.step(other, oerr, n, store)
			r.res.Hit("different-call-before-retry:" + s.Op)
			if oerr != nil {
				all.add("after-failed-"+s.Op+"-commit-head-offered-again-is-accepted", "after step %d %s failed, block %d (the head) was offered again: %v", i, s, head.Block.Number, oerr)
				return
			}
			if changed {
				all.add("after-failed-"+s.Op+"-commit-refused-offer-changes-disk", "after step %d %s failed, the refused offer of block %d changed the store", i, s, head.Block.Number)
			}
			ops2, c4, w4 := r.liveChecks(n, store, w, ghost, true)
			if c4 != "" && cause == "" {
				cause, causeWhat = c4, w4
			}
			note(ops2, "after-failed-"+s.Op+"-commit-and-refused-offer-")
		}
		// retry: the failed call must be repeatable on the live node
		tr.before(n)
		err = n.exec(s)
		tr.step(s, err, n, store)
		if err != nil {
			all.add("retry-fails-after-failed-"+s.Op+"-commit", "repeating step %d %s on the live node: %v", i, s, err)
			return
		}
		qs, c3, w3 := r.liveChecks(n, store, &s.After, nil, s.Op != "prune")
		if c3 != "" && cause == "" {
			cause, causeWhat = c3, w3
		}
		note(qs, "after-failed-"+s.Op+"-commit-retried-")
	}
	if failedStep < 0 {
		r.res.Hit("fault-position-not-reached")
		return
	}
	last := &sc.Steps[len(sc.Steps)-1].After
	var ps problems
	if sc.Pruning {
		// the event index of a pruning node is not a function of the chain alone (a filter rebuilt
		// from the floor lacks the bits of pruned blocks, one resumed from a snapshot keeps them):
		// the chain part must be the fault-free run's, the event index must describe the chain
		if chainDigest(store) != chainDigest(tw.finalImg) {
			ps.add("final-image-differs", "the chain part of the image at the end of the history differs from the fault-free run: %s", diffChainImages(store, tw.finalImg))
		}
		if rf, err := restartFilter(store, true); err != nil {
			ps.add("running-filter-cannot-initialise", "initialising the running event filter from the final image: %v", err)
		} else {
			sc.U.filterVsChain(rf, last, "restarted-", &ps, r.res)
		}
	} else if d := looseDigest(store); d != tw.looseAfter[len(sc.Steps)-1] {
		ps.add("final-image-differs", "the image at the end of the history differs from the fault-free run: %s", diffImagesOf(store, tw.finalImg, true))
	}
	storeProbe(n.bc, last, &ps, "")
	note(ps, "history-after-failed-"+failedOp+"-commit-")
}

func (tw *twin) imgBefore(step int, sc *Scenario) db.KeyValueStore {
	if step == 0 {
		if sc.Base == nil {
			return memory.New()
		}
		return sc.Base
	}
	return tw.crashAfter(step - 1)
}

// runScenario: fault-free twin, every crash point, every failing commit. The fault runs are
// independent of each other and take worker slots of their own.
func (r *runner) runScenario(build func() *Scenario) {
	r.sem <- struct{}{}
	sc := build()
	if sc == nil {
		<-r.sem
		return
	}
	tw, ok := r.runTwin(sc)
	tw.trace.compare(r, sc, map[string]any{"fault": "none"})
	if ok && r.onlyK == 0 {
		r.checkCrashPoints(sc, tw)
	}
	<-r.sem
	if !ok {
		return
	}
	var wg sync.WaitGroup
	for k := 1; k <= tw.commits; k++ {
		if r.onlyK != 0 && k != r.onlyK {
			continue
		}
		wg.Add(1)
		go func() {
			defer wg.Done()
			r.sem <- struct{}{}
			defer func() { <-r.sem }()
			r.runFault(sc, tw, k)
		}()
	}
	wg.Wait()
	r.res.Hit("scenario:" + sc.Name)
	r.res.Sample(8, sc.Describe())
}

// hitFeatures counts, for the evidence histogram, the rarely taken branches of writeBlockContent /
// deleteBlockContent / the pruner's per-block sweep that step i of the scenario goes through.
func (r *runner) hitFeatures(sc *Scenario, i int) {
	s := &sc.Steps[i]
	var b *lib.Bundle
	pre := ""
	switch s.Op {
	case "store", "finalise", "genesis":
		b, pre = s.B, "stored-block:"
	case "revert":
		b, pre = sc.worldBefore(i).Head(), "reverted-block:"
	case "prune":
		bw := sc.worldBefore(i)
		for n := bw.Floor; n < s.PruneTo && int(n) <= bw.Height(); n++ {
			r.hitBlockFeatures("pruned-block:", bw.Chain[n], bw)
		}
		if len(s.L2) > 0 {
			pending := uint64(0)
			for _, num := range s.L2 {
				var class string
				_, _, pending, class = specL2(bw.L1, bw.Height(), num, s.Retained, s.L2Per, pending)
				r.res.Hit("l2-event:" + class)
			}
			if s.PruneTo == uint64(bw.Height()) && s.PruneTo > bw.Floor {
				r.res.Hit("l2-event:prunes-up-to-the-head")
			}
		}
		if s.PruneTo%core.NumBlocksPerFilter == 0 && s.PruneTo > 0 {
			r.res.Hit("prune-target:window-boundary")
		}
		if s.PruneTo == uint64(bw.Height()) {
			r.res.Hit("prune-target:head")
		}
		switch lag := uint64(core.BlockHashLag); {
		case s.PruneTo < lag:
			r.res.Hit("prune-target:below-block-hash-lag")
		case s.PruneTo == lag:
			r.res.Hit("prune-target:at-block-hash-lag")
		default:
			r.res.Hit("prune-target:above-block-hash-lag")
		}
		switch {
		case s.BatchBytes == 0:
			r.res.Hit("prune-batch:one-block")
		case s.BatchBytes == oneBatch:
			r.res.Hit("prune-batch:single")
		default:
			r.res.Hit("prune-batch:few-blocks")
		}
		return
	default:
		return
	}
	if b != nil {
		r.hitBlockFeatures(pre, b, sc.worldBefore(i))
	}
}

func (r *runner) hitBlockFeatures(pre string, b *lib.Bundle, before *World) {
	d := b.SU.StateDiff
	l1 := false
	for _, tx := range b.Block.Transactions {
		if _, ok := tx.(*core.L1HandlerTransaction); ok {
			l1 = true
		}
	}
	flag := func(name string, on bool) {
		if on {
			r.res.Hit(pre + name)
		}
	}
	flag("l1-handler-tx", l1)
	flag("no-txs", len(b.Block.Transactions) == 0)
	flag("declares-cairo0", len(d.DeclaredV0Classes) > 0)
	flag("declares-sierra-casm-v1", len(d.DeclaredV1Classes) > 0 && b.Block.ProtocolVersion < "0.14.1")
	flag("declares-sierra-casm-v2", len(d.DeclaredV1Classes) > 0 && b.Block.ProtocolVersion >= "0.14.1")
	flag("migrates-class", len(d.MigratedClasses) > 0)
	flag("replaces-class", len(d.ReplacedClasses) > 0)
	flag("deploys", len(d.DeployedContracts) > 0)
	flag("empty-diff", d.Length() == 0)
	flag("last-of-window", (b.Block.Number+1)%core.NumBlocksPerFilter == 0)
	flag("first-of-window", b.Block.Number%core.NumBlocksPerFilter == 0 && b.Block.Number > 0)
	if h := before.Head(); h != nil && pre == "stored-block:" {
		flag("protocol-version-change", h.Block.ProtocolVersion != b.Block.ProtocolVersion)
	}
}

// worldKey identifies the chain a node holds: head hash, height, retention floor.
func worldKey(w *World) string {
	if w.Head() == nil {
		return "empty"
	}
	return fmt.Sprintf("%s/%d/%d", w.Head().Block.Hash.String(), w.Height(), w.Floor)
}

// chainSkip: buckets that are NOT a function of the chain a node holds: the event index (running
// filter snapshot and persisted windows: a function of the history — stale bits of reverted blocks
// are allowed), the L1 head, and the trie2 node buckets (unreachable garbage after a revert, see
// looseSkip).
func chainSkip(k []byte) bool {
	if len(k) == 0 {
		return false
	}
	switch db.Bucket(k[0]) {
	case db.AggregatedBloomFilters, db.RunningEventFilter, db.L1Height:
		return true
	}
	return looseSkip(k)
}

// chainDigest hashes the chain part of an image: blocks, lookups, classes, class metadata, state
// and state history.
func chainDigest(m db.KeyValueStore) string {
	it, err := m.NewIterator(nil, false)
	if err != nil {
		panic(err)
	}
	defer it.Close()
	h := xxhash.New()
	var lenb [8]byte
	for ok := it.First(); ok; ok = it.Next() {
		k := it.Key()
		if chainSkip(k) {
			continue
		}
		v, err := it.Value()
		if err != nil {
			panic(err)
		}
		v = canonValue(k, v)
		binary.BigEndian.PutUint64(lenb[:], uint64(len(k)))
		h.Write(lenb[:])
		h.Write(k)
		binary.BigEndian.PutUint64(lenb[:], uint64(len(v)))
		h.Write(lenb[:])
		h.Write(v)
	}
	return fmt.Sprintf("%016x", h.Sum64())
}

// diffChainImages names the buckets in which the chain parts of two images differ.
func diffChainImages(a, b db.KeyValueStore) string {
	dump := func(s db.KeyValueStore) map[string]string {
		out := map[string]string{}
		it, err := s.NewIterator(nil, false)
		if err != nil {
			panic(err)
		}
		defer it.Close()
		for ok := it.First(); ok; ok = it.Next() {
			if chainSkip(it.Key()) {
				continue
			}
			v, _ := it.Value()
			out[string(it.Key())] = string(canonValue(it.Key(), v))
		}
		return out
	}
	da, dbb := dump(a), dump(b)
	counts := map[string]int{}
	for k, v := range da {
		if w, ok := dbb[k]; !ok {
			counts[db.Bucket(k[0]).String()+":only-now"]++
		} else if w != v {
			counts[db.Bucket(k[0]).String()+":value"]++
		}
	}
	for k := range dbb {
		if _, ok := da[k]; !ok {
			counts[db.Bucket(k[0]).String()+":only-first-time"]++
		}
	}
	keys := make([]string, 0, len(counts))
	for k := range counts {
		keys = append(keys, fmt.Sprintf("%s=%d", k, counts[k]))
	}
	sort.Strings(keys)
	return fmt.Sprint(keys)
}

// continueOnMidPrune: the process died between two batches of the prune of step cp.Step and the
// prune is NOT resumed: a new process runs the rest of the history on the image whose retention
// floor lies somewhere between the old floor and the target. After every later call the node must
// be in the world of the fault-free run, with the floor this run has really reached.
func (r *runner) continueOnMidPrune(sc *Scenario, cp crashPoint, w0 *World, extra map[string]any) {
	store := cp.Img.Copy()
	fdb := NewFaultDB(store)
	n := newNode(sc, fdb)
	floor := w0.Floor
	r.res.Hit("continued-on-mid-prune-image")
	var all problems
	for j := cp.Step + 1; j < len(sc.Steps); j++ {
		s := &sc.Steps[j]
		if s.Op == "revert" && uint64(sc.worldBefore(j).Height()) <= floor {
			break // (cannot happen: the floor here is never above the fault-free run's)
		}
		if err := n.exec(s); err != nil {
			all.add("later-call-fails", "step %d %s on the node that continued from the image after commit %d (floor %d): %v", j, s, cp.K, floor, err)
			break
		}
		if t, ok := s.pruneTarget(sc.worldBefore(j)); s.Op == "prune" && ok && t > floor && int(t) <= s.After.Height() {
			floor = t
		}
		w := s.After
		w.Floor = floor
		var ps problems
		if s.Op == "kill" || s.Op == "restart" {
			ps = checkNode(n.bc, &w, nil, nil)
			checkRetention(store, n.bc, &w, &ps)
		} else {
			ps, _, _ = r.liveChecks(n, store, &w, nil, s.Op != "prune")
		}
		for _, p := range ps {
			p.Sig = "later-" + p.Sig
			all = append(all, p)
		}
		r.res.Hit("continued-on-mid-prune-image:" + s.Op)
	}
	r.report(sc, all, "crash-in-prune-not-resumed-", extra)
}
