//go:build verif

package main

import (
	"bytes"
	"errors"
	"sync"

	"github.com/NethermindEth/juno/db"
	"github.com/NethermindEth/juno/db/memory"
)

// errInjected is what a commit returns when the fault schedule says so.
var errInjected = errors.New("verif: injected commit failure")

// FaultDB wraps a db.KeyValueStore and numbers every COMMIT: a batch Write (also the one at the
// end of Update/Write closures) and every direct Put / Delete / DeleteRange on the store. Reads
// pass through. A commit is all-or-nothing: when the schedule fails commit k, nothing of it
// reaches the inner store and the error is returned to the caller; after every applied commit
// the onCommit callback may take a crash image of the inner store.
type FaultDB struct {
	inner db.KeyValueStore
	mu    sync.Mutex
	// number of commits attempted so far (1-based index of the last one)
	commits int
	// fail the commit with this index (0 = none)
	failAt int
	// number of faults actually injected
	injected int
	// called with the index of a commit right after it was applied
	onCommit func(idx int, label string)
	// label of the operation currently running (set by the runner)
	label string
	// capture mode: a direct Put on captureKey is diverted into captured (used to observe the
	// in-memory running filter through WriteRunningEventFilter without touching the disk)
	captureKey []byte
	captured   []byte
	// per-commit write counts (for the evidence histogram)
	sizes []int
	// indices of commits that were direct writes of a persisted bloom window: the only direct
	// window writes are those of a lazy filter initialisation (a fill crossing a window boundary)
	directWin []int
}

func NewFaultDB(inner db.KeyValueStore) *FaultDB { return &FaultDB{inner: inner} }

// begin decides the fate of the next commit.
func (f *FaultDB) begin() (idx int, fail bool) {
	f.mu.Lock()
	defer f.mu.Unlock()
	f.commits++
	if f.failAt != 0 && f.commits == f.failAt {
		f.injected++
		return f.commits, true
	}
	return f.commits, false
}

func (f *FaultDB) done(idx, nwrites int) {
	f.mu.Lock()
	cb, label := f.onCommit, f.label
	f.sizes = append(f.sizes, nwrites)
	f.mu.Unlock()
	if cb != nil {
		cb(idx, label)
	}
}

func (f *FaultDB) Commits() int { f.mu.Lock(); defer f.mu.Unlock(); return f.commits }

func (f *FaultDB) SetLabel(l string) { f.mu.Lock(); f.label = l; f.mu.Unlock() }

// --- reads --------------------------------------------------------------------------------

func (f *FaultDB) Has(key []byte) (bool, error) { return f.inner.Has(key) }
func (f *FaultDB) Get(key []byte, cb func([]byte) error) error {
	return f.inner.Get(key, cb)
}

func (f *FaultDB) NewIterator(prefix []byte, withUpperBound bool) (db.Iterator, error) {
	return f.inner.NewIterator(prefix, withUpperBound)
}
func (f *FaultDB) NewSnapshot() db.Snapshot { return f.inner.NewSnapshot() }
func (f *FaultDB) Impl() any                { return f.inner.Impl() }
func (f *FaultDB) Path() string             { return f.inner.Path() }
func (f *FaultDB) Close() error             { return f.inner.Close() }
func (f *FaultDB) WithListener(db.EventListener) db.KeyValueStore {
	return f
}

// --- direct writes: each one is a commit of its own ---------------------------------------

func (f *FaultDB) Put(key, value []byte) error {
	f.mu.Lock()
	if f.captureKey != nil && bytes.Equal(key, f.captureKey) {
		f.captured = bytes.Clone(value)
		f.mu.Unlock()
		return nil
	}
	f.mu.Unlock()
	idx, fail := f.begin()
	if len(key) > 0 && db.Bucket(key[0]) == db.AggregatedBloomFilters {
		f.mu.Lock()
		f.directWin = append(f.directWin, idx)
		f.mu.Unlock()
	}
	if fail {
		return errInjected
	}
	if err := f.inner.Put(key, value); err != nil {
		return err
	}
	f.done(idx, 1)
	return nil
}

// isInitWrite: commit idx was a direct window write (a lazy filter initialisation).
func (f *FaultDB) isInitWrite(idx int) bool {
	f.mu.Lock()
	defer f.mu.Unlock()
	for _, i := range f.directWin {
		if i == idx {
			return true
		}
	}
	return false
}

// initWritesBetween counts the lazy-initialisation window writes with lo < index < hi.
func (f *FaultDB) initWritesBetween(lo, hi int) int {
	f.mu.Lock()
	defer f.mu.Unlock()
	n := 0
	for _, i := range f.directWin {
		if i > lo && i < hi {
			n++
		}
	}
	return n
}

func (f *FaultDB) Delete(key []byte) error {
	idx, fail := f.begin()
	if fail {
		return errInjected
	}
	if err := f.inner.Delete(key); err != nil {
		return err
	}
	f.done(idx, 1)
	return nil
}

func (f *FaultDB) DeleteRange(start, end []byte) error {
	idx, fail := f.begin()
	if fail {
		return errInjected
	}
	if err := f.inner.DeleteRange(start, end); err != nil {
		return err
	}
	f.done(idx, 1)
	return nil
}

// --- batches ------------------------------------------------------------------------------

type faultBatch struct {
	db.IndexedBatch
	f *FaultDB
	n int
}

func (b *faultBatch) Put(k, v []byte) error { b.n++; return b.IndexedBatch.Put(k, v) }
func (b *faultBatch) Delete(k []byte) error { b.n++; return b.IndexedBatch.Delete(k) }
func (b *faultBatch) DeleteRange(s, e []byte) error {
	b.n++
	return b.IndexedBatch.DeleteRange(s, e)
}

func (b *faultBatch) Write() error {
	idx, fail := b.f.begin()
	if fail {
		_ = b.IndexedBatch.Close()
		return errInjected
	}
	if err := b.IndexedBatch.Write(); err != nil {
		return err
	}
	b.f.done(idx, b.n)
	return nil
}

// plainBatch hides the read methods of an indexed batch behind db.Batch.
type plainBatch struct {
	db.Batch
	f *FaultDB
	n int
}

func (b *plainBatch) Put(k, v []byte) error         { b.n++; return b.Batch.Put(k, v) }
func (b *plainBatch) Delete(k []byte) error         { b.n++; return b.Batch.Delete(k) }
func (b *plainBatch) DeleteRange(s, e []byte) error { b.n++; return b.Batch.DeleteRange(s, e) }
func (b *plainBatch) Write() error {
	idx, fail := b.f.begin()
	if fail {
		_ = b.Batch.Close()
		return errInjected
	}
	if err := b.Batch.Write(); err != nil {
		return err
	}
	b.f.done(idx, b.n)
	return nil
}

func (f *FaultDB) NewBatch() db.Batch { return &plainBatch{Batch: f.inner.NewBatch(), f: f} }
func (f *FaultDB) NewBatchWithSize(n int) db.Batch {
	return &plainBatch{Batch: f.inner.NewBatchWithSize(n), f: f}
}

func (f *FaultDB) NewIndexedBatch() db.IndexedBatch {
	return &faultBatch{IndexedBatch: f.inner.NewIndexedBatch(), f: f}
}

func (f *FaultDB) NewIndexedBatchWithSize(n int) db.IndexedBatch {
	return &faultBatch{IndexedBatch: f.inner.NewIndexedBatchWithSize(n), f: f}
}

// Update / Write run the BACKEND'S OWN Update / Write (memory.Database.Update, pebblev2.DB.Update:
// batch creation, closure, discard on error, commit), so that code is executed as in production.
// The commit is numbered, and made to fail, at the last moment before the backend commits: the
// wrapped closure returns the injected error after the real closure has succeeded, upon which the
// backend discards the batch — exactly a commit of which nothing was applied.
func (f *FaultDB) Update(fn func(db.IndexedBatch) error) error {
	idx, n := 0, 0
	err := f.inner.Update(func(b db.IndexedBatch) error {
		cb := &countIndexed{IndexedBatch: b}
		if err := fn(cb); err != nil {
			return err
		}
		var fail bool
		if idx, fail = f.begin(); fail {
			return errInjected
		}
		n = cb.n
		return nil
	})
	if err == nil {
		f.done(idx, n)
	}
	return err
}

func (f *FaultDB) Write(fn func(db.Batch) error) error {
	idx, n := 0, 0
	err := f.inner.Write(func(b db.Batch) error {
		cb := &countBatch{Batch: b}
		if err := fn(cb); err != nil {
			return err
		}
		var fail bool
		if idx, fail = f.begin(); fail {
			return errInjected
		}
		n = cb.n
		return nil
	})
	if err == nil {
		f.done(idx, n)
	}
	return err
}

type countIndexed struct {
	db.IndexedBatch
	n int
}

func (b *countIndexed) Put(k, v []byte) error { b.n++; return b.IndexedBatch.Put(k, v) }
func (b *countIndexed) Delete(k []byte) error { b.n++; return b.IndexedBatch.Delete(k) }
func (b *countIndexed) DeleteRange(s, e []byte) error {
	b.n++
	return b.IndexedBatch.DeleteRange(s, e)
}

type countBatch struct {
	db.Batch
	n int
}

func (b *countBatch) Put(k, v []byte) error         { b.n++; return b.Batch.Put(k, v) }
func (b *countBatch) Delete(k []byte) error         { b.n++; return b.Batch.Delete(k) }
func (b *countBatch) DeleteRange(s, e []byte) error { b.n++; return b.Batch.DeleteRange(s, e) }

var _ db.KeyValueStore = (*FaultDB)(nil)

// image copies the whole content of a store into a fresh memory database (a crash image: what
// a process starting on the surviving files would see).
func image(s db.KeyValueStore) *memory.Database {
	if m, ok := s.(*memory.Database); ok {
		return m.Copy()
	}
	out := memory.New()
	it, err := s.NewIterator(nil, false)
	if err != nil {
		panic(err)
	}
	defer it.Close()
	for ok := it.First(); ok; ok = it.Next() {
		v, err := it.Value()
		if err != nil {
			panic(err)
		}
		if err := out.Put(bytes.Clone(it.Key()), bytes.Clone(v)); err != nil {
			panic(err)
		}
	}
	return out
}

// overlayDB reads through to a base store and keeps writes to itself: a throw-away view used to
// run code that may write (lazy filter initialisation persists a window when a fill crosses a
// boundary) without copying or touching the base.
type overlayDB struct {
	db.KeyValueStore // base: only its read methods are reachable
	mu               sync.Mutex
	put              map[string][]byte
	del              map[string]bool
}

func newOverlay(base db.KeyValueStore) *overlayDB {
	return &overlayDB{KeyValueStore: base, put: map[string][]byte{}, del: map[string]bool{}}
}

func (o *overlayDB) Get(key []byte, cb func([]byte) error) error {
	o.mu.Lock()
	if v, ok := o.put[string(key)]; ok {
		o.mu.Unlock()
		return cb(v)
	}
	if o.del[string(key)] {
		o.mu.Unlock()
		return db.ErrKeyNotFound
	}
	o.mu.Unlock()
	return o.KeyValueStore.Get(key, cb)
}

func (o *overlayDB) Has(key []byte) (bool, error) {
	err := o.Get(key, func([]byte) error { return nil })
	if errors.Is(err, db.ErrKeyNotFound) {
		return false, nil
	}
	return err == nil, err
}

func (o *overlayDB) Put(key, value []byte) error {
	o.mu.Lock()
	o.put[string(key)] = bytes.Clone(value)
	delete(o.del, string(key))
	o.mu.Unlock()
	return nil
}

func (o *overlayDB) Delete(key []byte) error {
	o.mu.Lock()
	delete(o.put, string(key))
	o.del[string(key)] = true
	o.mu.Unlock()
	return nil
}

// Snapshot of the overlay = the overlay itself (nothing else writes during the call).
func (o *overlayDB) NewSnapshot() db.Snapshot { return overlaySnap{o} }

type overlaySnap struct{ *overlayDB }

func (overlaySnap) Close() error { return nil }

func (o *overlayDB) DeleteRange([]byte, []byte) error { panic("overlayDB: DeleteRange") }
func (o *overlayDB) NewBatch() db.Batch               { panic("overlayDB: NewBatch") }
func (o *overlayDB) NewBatchWithSize(int) db.Batch    { panic("overlayDB: NewBatchWithSize") }
func (o *overlayDB) NewIndexedBatch() db.IndexedBatch { panic("overlayDB: NewIndexedBatch") }
func (o *overlayDB) NewIndexedBatchWithSize(int) db.IndexedBatch {
	panic("overlayDB: NewIndexedBatchWithSize")
}
func (o *overlayDB) Update(func(db.IndexedBatch) error) error { panic("overlayDB: Update") }
func (o *overlayDB) Write(func(db.Batch) error) error         { panic("overlayDB: Write") }
func (o *overlayDB) Close() error                             { return nil }
func (o *overlayDB) WithListener(db.EventListener) db.KeyValueStore {
	return o
}
