//go:build verif

package main

import (
	"fmt"
	"time"

	"github.com/NethermindEth/juno/db"
	"github.com/NethermindEth/juno/db/memory"
	pebblev1 "github.com/NethermindEth/juno/db/pebble"
	"github.com/NethermindEth/juno/db/pebblev2"
	cpebble "github.com/cockroachdb/pebble"
	cvfs "github.com/cockroachdb/pebble/vfs"
	cpebble2 "github.com/cockroachdb/pebble/v2"
	cvfs2 "github.com/cockroachdb/pebble/v2/vfs"
)

func try(name string, f func() string) {
	done := make(chan string, 1)
	go func() {
		defer func() {
			if r := recover(); r != nil {
				done <- fmt.Sprintf("panic: %v", r)
			}
		}()
		done <- f()
	}()
	select {
	case s := <-done:
		fmt.Printf("  %-34s %s\n", name, s)
	case <-time.After(time.Second):
		fmt.Printf("  %-34s HANG\n", name)
	}
}

func main() {
	p1, _ := pebblev1.New("x", func(o *cpebble.Options) error { o.FS = cvfs.NewMem(); return nil })
	p2, _ := pebblev2.New("x", func(o *cpebble2.Options) error { o.FS = cvfs2.NewMem(); return nil })
	for _, s := range []struct {
		n string
		s db.KeyValueStore
	}{{"memory", memory.New()}, {"pebble1", p1}, {"pebble2", p2}} {
		fmt.Println(s.n)
		st := s.s
		st.Put([]byte{1}, []byte{1})
		st.Put([]byte{2}, []byte{2})
		st.Put([]byte{3}, []byte{3})
		b := st.NewBatch()
		b.Put([]byte{5}, []byte{5})
		ib := b.(db.IndexedBatch)
		try("nonidx get own", func() string { return fmt.Sprint(ib.Get([]byte{5}, func(v []byte) error { return nil })) })
		try("nonidx get base", func() string { return fmt.Sprint(ib.Get([]byte{1}, func(v []byte) error { return nil })) })
		try("nonidx get missing", func() string { return fmt.Sprint(ib.Get([]byte{9}, func(v []byte) error { return nil })) })
		try("nonidx has own", func() string { return fmt.Sprint(ib.Has([]byte{5})) })
		try("nonidx has missing", func() string { return fmt.Sprint(ib.Has([]byte{9})) })
		try("nonidx iter", func() string {
			it, err := ib.NewIterator(nil, false)
			if err != nil {
				return "err " + err.Error()
			}
			r := fmt.Sprint("first=", it.First(), " valid=", it.Valid(), " key=", it.Key())
			v, e := it.Value()
			r += fmt.Sprint(" val=", v, e, " next=", it.Next())
			return r + fmt.Sprint(" close=", it.Close())
		})
		try("nonidx write", func() string { return fmt.Sprint(b.Write()) })
		it, _ := st.NewIterator(nil, false)
		try("key unpositioned", func() string { return fmt.Sprint(it.Key() == nil, it.Valid()) })
		try("uncopied unpositioned", func() string { v, e := it.UncopiedValue(); return fmt.Sprint(v, e) })
		it.Seek([]byte{9})
		try("key after", func() string { return fmt.Sprint(it.Key() == nil) })
		try("uncopied after", func() string { v, e := it.UncopiedValue(); return fmt.Sprint(v, e) })
		it.Close()
		sn := st.NewSnapshot()
		sn.Close()
		try("closed snap get", func() string { return fmt.Sprint(sn.Get([]byte{1}, func(v []byte) error { return nil })) })
		try("closed snap has", func() string { return fmt.Sprint(sn.Has([]byte{1})) })
		try("closed snap iter", func() string { _, e := sn.NewIterator(nil, false); return fmt.Sprint(e) })
		try("closed snap close", func() string { return fmt.Sprint(sn.Close()) })
		try("update cb direct put+fail", func() string {
			e := st.Update(func(b db.IndexedBatch) error { b.Put([]byte{7}, nil); st.Put([]byte{8}, nil); return fmt.Errorf("x") })
			h7, _ := st.Has([]byte{7})
			h8, _ := st.Has([]byte{8})
			return fmt.Sprint(e, h7, h8)
		})
		try("update cb b.Write()", func() string {
			e := st.Update(func(b db.IndexedBatch) error { b.Put([]byte{7}, nil); return b.Write() })
			h7, _ := st.Has([]byte{7})
			return fmt.Sprint(e, h7)
		})
		try("nested update", func() string {
			e := st.Update(func(b db.IndexedBatch) error {
				return st.Update(func(b2 db.IndexedBatch) error { return b2.Put([]byte{6}, nil) })
			})
			h, _ := st.Has([]byte{6})
			return fmt.Sprint(e, h)
		})
		try("get cb has", func() string {
			return fmt.Sprint(st.Get([]byte{1}, func(v []byte) error { _, e := st.Has([]byte{2}); return e }))
		})
		ib2 := st.NewIndexedBatch()
		try("batch get cb put store", func() string {
			return fmt.Sprint(ib2.Get([]byte{1}, func(v []byte) error { return st.Put([]byte{4}, v) }))
		})
		try("get cb put", func() string {
			return fmt.Sprint(st.Get([]byte{1}, func(v []byte) error { return st.Put([]byte{4}, v) }))
		})
	}
}
