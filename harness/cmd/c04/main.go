//go:build verif

// Harness for C04: reverting the head exactly undoes a block; forks converge.
//
// Node A stores a chain, reverts k blocks and follows another fork; node B is a fresh node that
// stores only the chain A should now hold. The decoded content of the two databases and every
// answer of the Reader API must be identical, RevertHead must not fail on a block the node
// stored, and restarted copies of A and B must behave alike. Every operation is also replayed on
// the Lean model (`c04drv`) and the bucket families of the real database are compared with it.
package main

import (
	"encoding/json"
	"fmt"
	"math/big"
	"os"
	"os/exec"
	"runtime"
	"runtime/pprof"
	"sort"
	"strings"
	"sync"
	"time"

	"github.com/NethermindEth/juno/core"
	"github.com/NethermindEth/juno/core/felt"
	"verif/harness/lib"
)

type caseSpec struct {
	Kind     string `json:"scenario"`
	NewState bool   `json:"new_state"`
	Seed     uint64 `json:"seed"`
	Case     int    `json:"case"`
	Name     string `json:"name,omitempty"`
}

func genOptions() lib.GenOptions {
	o := lib.DefaultGenOptions()
	o.NAddr = 4
	o.NSlots = 4
	o.MaxTxs = 3
	return o
}

// buildFork generates a random fork scenario from (seed, case index, backend).
func buildFork(cs caseSpec, thorough bool) *Scenario {
	r := lib.NewRNG(cs.Seed).Fork(uint64(cs.Case)*2 + 1)
	opt := genOptions()
	g := NewGen(r, cs.NewState, opt)
	g.BiasSys = r.Chance(1, 3)
	g.ImplicitClasses = r.Chance(1, 3)
	g.Repeats = true
	maxL := 9
	if thorough {
		maxL = 14
	}
	p := forkParams{L: 1 + r.Intn(maxL)}
	rounds := 1 + r.Intn(2)
	h := p.L
	for i := 0; i < rounds; i++ {
		var k int
		switch c := r.Intn(5); {
		case h == 0:
			k = 0
		case c == 0:
			k = h // whole chain including the genesis block
		case c == 1:
			k = 1
		default:
			k = 1 + r.Intn(h)
		}
		m := r.Intn(5)
		p.Rounds = append(p.Rounds, k)
		p.M = append(p.M, m)
		h = h - k + m
	}
	sc := g.GenFork(cs.NewState, p)
	sc.Warm = r.Bool()
	sc.Restart = r.Chance(1, 3)
	sc.FailedOps = r.Chance(1, 3)
	sc.FinaliseA = r.Chance(1, 4)
	// restarts of node A: a quarter of the positions (before each RevertHead, before the first
	// Store of a fork, before the comparisons), killed or shut down gracefully
	if r.Chance(2, 3) {
		n := 0
		for i := range p.Rounds {
			n += p.Rounds[i] + 3
		}
		for i := 0; i < n; i++ {
			m := 0
			if r.Chance(1, 4) {
				m = 1 + r.Intn(3)/2
			}
			sc.RestartPlan = append(sc.RestartPlan, m)
		}
	}
	return sc
}

// ---------------------------------------------------------------------------------------------
// Directed scenarios: one per shape the property text names, and one per defect ever seen.
// ---------------------------------------------------------------------------------------------

type directed struct {
	name string
	mk   func(newState bool) *Scenario
}

func sc1(main []*lib.BlockSpec, revert int, fork ...*lib.BlockSpec) *Scenario {
	return &Scenario{Main: main, Rounds: []Round{{Revert: revert, Fork: fork}}, Restart: true}
}

func withClass(s *lib.BlockSpec, hash uint64) *lib.BlockSpec {
	if s.Classes == nil {
		s.Classes = map[felt.Felt]core.ClassDefinition{}
	}
	s.Classes[*lib.F(hash)] = myCairo0(hash)
	return s
}

func declareV0(s *lib.BlockSpec, hash uint64, withDef bool) *lib.BlockSpec {
	s.Diff.DeclaredV0Classes = append(s.Diff.DeclaredV0Classes, lib.F(hash))
	if withDef {
		withClass(s, hash)
	}
	return s
}

func l1Tx(seq uint64) (core.Transaction, *core.TransactionReceipt) {
	g := lib.NewChainGen(lib.NewRNG(seq), false, genOptions())
	for {
		tx := g.GenTx("0.14.0")
		if _, ok := tx.(*core.L1HandlerTransaction); ok {
			return tx, g.GenReceipt(tx)
		}
	}
}

var directedScenarios = []directed{
	{"zero-write-to-never-written-slot", func(ns bool) *Scenario { // the failure fixed by 05cf200
		return sc1(specs("0.14.0", D().Deploy(0x104, 0xc000).Set(0x104, 1, 7), D().Set(0x104, 1, 8).Set(0x104, 2, 0), D()), 2, D().Set(0x104, 2, 9).Spec("0.14.0"))
	}},
	{"zero-write-only-block", func(ns bool) *Scenario {
		return sc1(specs("0.13.2", D().Deploy(0x104, 0xc000), D().Set(0x104, 5, 0)), 1, D().Set(0x104, 5, 1).Spec("0.13.2"))
	}},
	{"system-contract-emptied-then-later-block-reverted", func(ns bool) *Scenario {
		return sc1(specs("0.13.2", D().Set(1, 7, 5), D(), D().Set(1, 7, 0), D()), 1)
	}},
	{"system-contract-first-touched-with-zero", func(ns bool) *Scenario {
		return sc1(specs("0.14.0", D().Set(2, 7, 0), D().Deploy(0x104, 0xc000)), 1, D().Set(2, 7, 3).Spec("0.14.0"))
	}},
	{"system-contract-emptying-block-reverted", func(ns bool) *Scenario {
		return sc1(specs("0.14.0", D().Set(1, 7, 5), D(), D().Set(1, 7, 0)), 1, D().Set(1, 8, 1).Spec("0.14.0"))
	}},
	{"system-contract-created-and-reverted", func(ns bool) *Scenario {
		return sc1(specs("0.14.0", D().Deploy(0x104, 0xc000), D().Set(1, 7, 5).Set(2, 1, 1)), 1, D().Set(1, 7, 6).Spec("0.14.0"))
	}},
	{"sibling-slots-insert-reverted", func(ns bool) *Scenario { // trie2 leaf below a binary node
		return sc1(specs("0.14.0", D().Deploy(0x104, 0xc000).Set(0x104, 3, 1).Set(0x104, 7, 2), D().Set(0x104, 2, 5)), 1, D().Set(0x104, 7, 3).Spec("0.14.0"))
	}},
	{"sibling-addresses-deploy-reverted", func(ns bool) *Scenario {
		return sc1(specs("0.14.0", D().Deploy(0x104, 0xc000), D().Deploy(0x105, 0xc001).Set(0x105, 1, 1)), 1, D().Deploy(0x105, 0xc002).Spec("0.14.0"))
	}},
	{"deploy-then-touch-same-block", func(ns bool) *Scenario {
		return sc1(specs("0.14.0", D().Deploy(0x104, 0xc000), D().Deploy(0x106, 0xc001).Set(0x106, 1, 1).Set(0x106, 9, 2).Nonce(0x106, 3)), 1,
			D().Deploy(0x106, 0xc002).Set(0x106, 9, 4).Spec("0.14.0"))
	}},
	{"replace-class-and-nonce", func(ns bool) *Scenario {
		return sc1(specs("0.13.4", D().Deploy(0x104, 0xc000), D().Replace(0x104, 0xc001).Nonce(0x104, 1), D().Replace(0x104, 0xc002).Nonce(0x104, 2)), 2,
			D().Replace(0x104, 0xc003).Spec("0.13.4"))
	}},
	{"same-value-rewrite", func(ns bool) *Scenario {
		return sc1(specs("0.14.0", D().Deploy(0x104, 0xc000).Set(0x104, 1, 7), D().Set(0x104, 1, 7), D().Set(0x104, 1, 7).Nonce(0x104, 0)), 2, D().Set(0x104, 1, 0).Spec("0.14.0"))
	}},
	{"class-for-deployed-contract", func(ns bool) *Scenario { // sync supplies the class of a deployed contract
		return sc1([]*lib.BlockSpec{D().Deploy(0x104, 0xc000).Spec("0.13.2"), withClass(D().Deploy(0x105, 0xc005).Spec("0.13.2"), 0xc005)}, 1,
			withClass(D().Deploy(0x106, 0xc005).Spec("0.13.2"), 0xc005), D().Spec("0.13.2"))
	}},
	{"cairo0-declare-and-redeclare", func(ns bool) *Scenario {
		return sc1([]*lib.BlockSpec{declareV0(D().Spec("0.13.2"), 0xd001, true), declareV0(D().Spec("0.13.2"), 0xd001, false),
			declareV0(declareV0(D().Spec("0.13.2"), 0xd001, true), 0xd002, true)}, 2, declareV0(D().Spec("0.13.2"), 0xd002, true))
	}},
	{"revert-whole-chain-and-rebuild", func(ns bool) *Scenario {
		return sc1(specs("0.14.1", D().Deploy(0x104, 0xc000).Set(0x104, 1, 1).Set(1, 1, 1), D().Set(0x104, 1, 2).Nonce(0x104, 1)), 2,
			D().Deploy(0x105, 0xc000).Spec("0.14.1"), D().Set(0x105, 1, 1).Spec("0.14.1"))
	}},
	{"deploy-and-replace-same-address", func(ns bool) *Scenario { // one address in two sections (904a370)
		return sc1(specs("0.14.0", D().Deploy(0x105, 0xc000), D().Deploy(0x104, 0xc000).Replace(0x104, 0xc001).Nonce(0x104, 1).Set(0x104, 1, 1),
			D().Replace(0x104, 0xc002)), 1, D().Replace(0x104, 0xc003).Spec("0.14.0"))
	}},
	{"deploy-and-replace-reverted-together", func(ns bool) *Scenario {
		return sc1(specs("0.14.0", D().Deploy(0x105, 0xc000), D().Deploy(0x104, 0xc000).Replace(0x104, 0xc001), D().Replace(0x104, 0xc002).Nonce(0x104, 2)), 2,
			D().Deploy(0x104, 0xc003).Spec("0.14.0"))
	}},
	{"duplicate-cairo0-declaration", func(ns bool) *Scenario { // DeclaredV0Classes is a slice: [c, c]
		return sc1([]*lib.BlockSpec{D().Spec("0.13.2"), declareV0(declareV0(D().Spec("0.13.2"), 0xd007, true), 0xd007, false)}, 1,
			declareV0(D().Spec("0.13.2"), 0xd007, true))
	}},
	{"noop-replace-and-noop-nonce", func(ns bool) *Scenario { // a class replaced by the class it has, a nonce set to the value it has
		return sc1(specs("0.14.0", D().Deploy(0x104, 0xc000).Deploy(0x105, 0xc001).Nonce(0x104, 1), D().Replace(0x104, 0xc000).Replace(0x105, 0xc002).Nonce(0x104, 1).Nonce(0x105, 0),
			D().Replace(0x104, 0xc000).Replace(0x105, 0xc002)), 2, D().Replace(0x104, 0xc001).Replace(0x105, 0xc003).Spec("0.14.0"))
	}},
	{"migration-reverted-and-migrated-again", func(ns bool) *Scenario { // the second time is legitimate once the first is reverted
		h, _, _, c2 := mySierra(11)
		m1, m2 := D().Spec("0.14.1"), D().Deploy(0x104, 0xc000).Spec("0.14.1")
		m1.Diff.MigratedClasses[felt.SierraClassHash(h)] = felt.CasmClassHash(c2)
		m2.Diff.MigratedClasses[felt.SierraClassHash(h)] = felt.CasmClassHash(c2)
		return &Scenario{Main: []*lib.BlockSpec{declareSierra(D().Spec("0.13.4"), 11, false), D().Spec("0.14.1"), m1},
			Rounds: []Round{{Revert: 1, Fork: []*lib.BlockSpec{D().Spec("0.14.1"), m2}}, {Revert: 1, Fork: []*lib.BlockSpec{D().Spec("0.14.1")}}}, Restart: true}
	}},
	// round 6: after the revert the node is offered a block that repeats what the surviving chain did (or touches
	// what the revert removed); Store must refuse it — or, if it stores it, undo it exactly
	{"migrated-class-offered-again-after-a-revert", func(ns bool) *Scenario {
		h, _, _, c2 := mySierra(12)
		m1 := D().Deploy(0x104, 0xc000).Spec("0.14.1")
		m1.Diff.MigratedClasses[felt.SierraClassHash(h)] = felt.CasmClassHash(c2)
		sc := sc1([]*lib.BlockSpec{declareSierra(D().Spec("0.13.4"), 12, false), D().Spec("0.14.1"), m1, D().Set(0x104, 1, 5).Spec("0.14.1")}, 1,
			D().Set(0x104, 1, 6).Spec("0.14.1"))
		sc.Rounds[0].RefusedKind = "already-migrated-class-migrated-again"
		sc.Rounds[0].Refused = refusedSpec("0.14.1", func(d *core.StateDiff, _ map[felt.Felt]core.ClassDefinition) {
			d.MigratedClasses[felt.SierraClassHash(h)] = felt.CasmClassHash(c2)
		})
		return sc
	}},
	{"v2-declared-class-offered-for-migration", func(ns bool) *Scenario {
		h, _, _, c2 := mySierra(13)
		sc := sc1([]*lib.BlockSpec{D().Deploy(0x104, 0xc000).Spec("0.14.1"), declareSierra(D().Spec("0.14.1"), 13, true), D().Nonce(0x104, 1).Spec("0.14.1")}, 1,
			D().Nonce(0x104, 2).Spec("0.14.1"))
		sc.Rounds[0].RefusedKind = "v2-declared-class-migrated"
		sc.Rounds[0].Refused = refusedSpec("0.14.1", func(d *core.StateDiff, _ map[felt.Felt]core.ClassDefinition) {
			d.MigratedClasses[felt.SierraClassHash(h)] = felt.CasmClassHash(c2)
		})
		return sc
	}},
	{"deployed-address-offered-again-after-a-revert", func(ns bool) *Scenario {
		sc := sc1(specs("0.14.0", D().Deploy(0x104, 0xc000).Set(0x104, 1, 1), D().Replace(0x104, 0xc001).Nonce(0x104, 1), D().Set(0x104, 1, 2)), 1,
			D().Set(0x104, 1, 3).Spec("0.14.0"))
		sc.Rounds[0].RefusedKind = "deployed-address-deployed-again"
		sc.Rounds[0].Refused = D().Deploy(0x104, 0xc001).Spec("0.14.0") // the class it has
		return sc
	}},
	{"contract-touched-after-its-deployment-was-reverted", func(ns bool) *Scenario {
		sc := sc1(specs("0.14.0", D().Deploy(0x104, 0xc000), D().Deploy(0x105, 0xc001).Set(0x105, 1, 1).Nonce(0x105, 1)), 1,
			D().Deploy(0x105, 0xc002).Spec("0.14.0"))
		sc.Rounds[0].RefusedKind = "nonce-of-absent-contract"
		sc.Rounds[0].Refused = D().Nonce(0x105, 2).Spec("0.14.0")
		return sc
	}},
	{"l1-handler-reverted-and-resent", func(ns bool) *Scenario {
		tx, rc := l1Tx(7)
		a := D().Deploy(0x104, 0xc000).Spec("0.14.0")
		b := D().Spec("0.14.0")
		b.NoTxs, b.Txs, b.Rcs = false, []core.Transaction{tx}, []*core.TransactionReceipt{rc}
		c := D().Spec("0.14.0")
		c.NoTxs, c.Txs, c.Rcs = false, []core.Transaction{tx}, []*core.TransactionReceipt{rc}
		return sc1([]*lib.BlockSpec{a, b}, 1, D().Spec("0.14.0"), c)
	}},
}

// mySierra builds a small Sierra class (hash computed by juno).
func mySierra(i uint64) (felt.Felt, *core.SierraClass, felt.Felt, felt.Felt) {
	casm := &core.CasmClass{
		Bytecode:        []felt.Felt{*lib.F(11 + i), *lib.F(2), *lib.F(13 + i), *lib.F(4)},
		CompilerVersion: "2.1.0",
		Prime:           new(big.Int).SetUint64(1),
		External:        []core.CasmEntryPoint{{Offset: i, Builtins: []string{"range_check"}, Selector: lib.F(177 + i)}},
		L1Handler:       []core.CasmEntryPoint{},
		Constructor:     []core.CasmEntryPoint{{Offset: 1, Builtins: []string{}, Selector: lib.F(188)}},
	}
	cls := &core.SierraClass{
		Abi:     fmt.Sprintf("[c04 abi %d]", i),
		AbiHash: lib.F(3000 + i),
		EntryPoints: core.SierraEntryPointsByType{
			Constructor: []core.SierraEntryPoint{{Index: 0, Selector: lib.F(188)}},
			External:    []core.SierraEntryPoint{{Index: 1, Selector: lib.F(177 + i)}},
			L1Handler:   []core.SierraEntryPoint{},
		},
		Program:         []felt.Felt{*lib.F(1), *lib.F(6), *lib.F(0), *lib.F(i), *lib.F(9)},
		ProgramHash:     lib.F(4000 + i),
		SemanticVersion: "0.1.0",
		Compiled:        casm,
	}
	h, err := cls.Hash()
	if err != nil {
		panic(err)
	}
	return h, cls, casm.Hash(core.HashVersionV1), casm.Hash(core.HashVersionV2)
}

func declareSierra(s *lib.BlockSpec, i uint64, v2 bool) *lib.BlockSpec {
	h, cls, c1, c2 := mySierra(i)
	casm := c1
	if v2 {
		casm = c2
	}
	s.Diff.DeclaredV1Classes[h] = &casm
	if s.Classes == nil {
		s.Classes = map[felt.Felt]core.ClassDefinition{}
	}
	s.Classes[h] = cls
	return s
}

// outsideScenarios: each violates exactly ONE clause of the theorems' hypothesis BlockOK (or of the
// Fresh part of it) and is run on the real code and on the model. Recorded outcome per backend:
// refused-by-juno / stored-and-undone / stored-not-undone(sig). The model must agree in every case.
var outsideScenarios = []directed{
	{"fresh.txs:transaction-hash-already-indexed", func(ns bool) *Scenario {
		g := lib.NewChainGen(lib.NewRNG(11), false, genOptions())
		tx := g.GenTx("0.14.0")
		for {
			if _, l1 := tx.(*core.L1HandlerTransaction); !l1 {
				break
			}
			tx = g.GenTx("0.14.0")
		}
		rc := g.GenReceipt(tx)
		a, b := D().Deploy(0x104, 0xc000).Spec("0.14.0"), D().Spec("0.14.0")
		a.NoTxs, a.Txs, a.Rcs = false, []core.Transaction{tx}, []*core.TransactionReceipt{rc}
		b.NoTxs, b.Txs, b.Rcs = false, []core.Transaction{tx}, []*core.TransactionReceipt{rc}
		return sc1([]*lib.BlockSpec{a, b}, 1)
	}},
	{"fresh.msgs:l1-message-already-indexed", func(ns bool) *Scenario {
		tx, rc := l1Tx(9)
		a, b := D().Deploy(0x104, 0xc000).Spec("0.14.0"), D().Spec("0.14.0")
		a.NoTxs, a.Txs, a.Rcs = false, []core.Transaction{tx}, []*core.TransactionReceipt{rc}
		b.NoTxs, b.Txs, b.Rcs = false, []core.Transaction{tx}, []*core.TransactionReceipt{rc}
		return sc1([]*lib.BlockSpec{a, b}, 1)
	}},
	{"decl1:sierra-class-declared-again", func(ns bool) *Scenario {
		return sc1([]*lib.BlockSpec{declareSierra(D().Spec("0.14.0"), 1, false), declareSierra(D().Spec("0.14.0"), 1, false)}, 1)
	}},
	{"decl1:sierra-declaration-without-definition", func(ns bool) *Scenario {
		s := declareSierra(D().Spec("0.14.0"), 2, false)
		s.Classes = map[felt.Felt]core.ClassDefinition{}
		return sc1([]*lib.BlockSpec{D().Spec("0.14.0"), s}, 1)
	}},
	{"defsListed:definition-neither-declared-nor-deployed", func(ns bool) *Scenario {
		return sc1([]*lib.BlockSpec{D().Spec("0.13.2"), withClass(D().Spec("0.13.2"), 0xc009)}, 1)
	}},
	{"depNotSys:system-contract-address-deployed", func(ns bool) *Scenario {
		return sc1(specs("0.14.0", D().Deploy(0x104, 0xc000), D().Deploy(1, 0xc000).Set(1, 3, 1)), 1)
	}},
	{"migVer:migration-before-0.14.1", func(ns bool) *Scenario {
		h, _, _, c2 := mySierra(3)
		m := D().Spec("0.14.0")
		m.Diff.MigratedClasses[felt.SierraClassHash(h)] = felt.CasmClassHash(c2)
		return sc1([]*lib.BlockSpec{declareSierra(D().Spec("0.14.0"), 3, false), m}, 1)
	}},
	{"known0:cairo0-declaration-of-unknown-class-without-definition", func(ns bool) *Scenario {
		return sc1([]*lib.BlockSpec{D().Spec("0.13.2"), declareV0(D().Spec("0.13.2"), 0xd00a, false)}, 1)
	}},
	// blocks that State.Update itself must refuse (the premise `store = ok` of the theorems, tied on its error side)
	{"refused:deploy-at-an-existing-address", func(ns bool) *Scenario {
		return sc1(specs("0.14.0", D().Deploy(0x104, 0xc000), D().Deploy(0x104, 0xc001)), 1)
	}},
	{"refused:nonce-of-a-contract-that-does-not-exist", func(ns bool) *Scenario {
		return sc1(specs("0.14.0", D().Deploy(0x104, 0xc000), D().Nonce(0x105, 1)), 1)
	}},
	{"refused:class-replaced-on-a-contract-that-does-not-exist", func(ns bool) *Scenario {
		return sc1(specs("0.14.0", D().Deploy(0x104, 0xc000), D().Replace(0x105, 0xc001)), 1)
	}},
	{"refused:storage-of-a-contract-that-does-not-exist", func(ns bool) *Scenario {
		return sc1(specs("0.14.0", D().Deploy(0x104, 0xc000), D().Set(0x105, 1, 3)), 1)
	}},
	{"refused:migration-of-an-unknown-class", func(ns bool) *Scenario {
		h, _, _, c2 := mySierra(5)
		m := D().Spec("0.14.1")
		m.Diff.MigratedClasses[felt.SierraClassHash(h)] = felt.CasmClassHash(c2)
		return sc1([]*lib.BlockSpec{D().Spec("0.14.1"), m}, 1)
	}},
	{"refused:second-migration-of-a-class", func(ns bool) *Scenario {
		h, _, _, c2 := mySierra(6)
		m1, m2 := D().Spec("0.14.1"), D().Spec("0.14.1")
		m1.Diff.MigratedClasses[felt.SierraClassHash(h)] = felt.CasmClassHash(c2)
		m2.Diff.MigratedClasses[felt.SierraClassHash(h)] = felt.CasmClassHash(c2)
		return sc1([]*lib.BlockSpec{declareSierra(D().Spec("0.14.0"), 6, false), m1, m2}, 1)
	}},
	{"refused:second-migration-after-other-blocks", func(ns bool) *Scenario {
		// the same class listed as migrated again two blocks after its migration, next to ordinary content
		h, _, _, c2 := mySierra(7)
		m1 := D().Deploy(0x104, 0xc000).Spec("0.14.1")
		m1.Diff.MigratedClasses[felt.SierraClassHash(h)] = felt.CasmClassHash(c2)
		m2 := D().Set(0x104, 1, 5).Nonce(0x104, 1).Spec("0.14.1")
		m2.Diff.MigratedClasses[felt.SierraClassHash(h)] = felt.CasmClassHash(c2)
		return sc1([]*lib.BlockSpec{declareSierra(D().Spec("0.13.4"), 7, false), m1, D().Set(0x104, 1, 3).Spec("0.14.1"), m2}, 1,
			D().Set(0x104, 1, 4).Spec("0.14.1"))
	}},
	{"refused:migration-of-a-class-declared-with-the-v2-hash", func(ns bool) *Scenario {
		h, _, _, c2 := mySierra(8)
		m := D().Spec("0.14.1")
		m.Diff.MigratedClasses[felt.SierraClassHash(h)] = felt.CasmClassHash(c2)
		return sc1([]*lib.BlockSpec{declareSierra(D().Spec("0.14.1"), 8, true), m}, 1)
	}},
	{"refused:sierra-declaration-without-definition-from-0.14.1", func(ns bool) *Scenario { // fecbdb1
		s := declareSierra(D().Spec("0.14.1"), 9, true)
		s.Classes = map[felt.Felt]core.ClassDefinition{}
		return sc1([]*lib.BlockSpec{D().Spec("0.14.1"), s}, 1)
	}},
	{"refused:sierra-declaration-without-compiled-class-below-0.14.1", func(ns bool) *Scenario { // 302c657
		s := declareSierra(D().Deploy(0x104, 0xc000).Spec("0.14.0"), 14, false)
		for h, def := range s.Classes {
			c := *def.(*core.SierraClass)
			c.Compiled = nil
			s.Classes[h] = &c
		}
		return sc1([]*lib.BlockSpec{D().Spec("0.14.0"), s}, 1)
	}},
	{"decl1:sierra-class-declared-again-with-the-v2-hash", func(ns bool) *Scenario {
		return sc1([]*lib.BlockSpec{declareSierra(D().Spec("0.14.1"), 10, true), declareSierra(D().Spec("0.14.1"), 10, true)}, 1)
	}},
	{"casmFresh+migrate:declare-and-migrate-in-one-block", func(ns bool) *Scenario {
		h, _, _, c2 := mySierra(4)
		s := declareSierra(D().Spec("0.14.1"), 4, true)
		s.Diff.MigratedClasses[felt.SierraClassHash(h)] = felt.CasmClassHash(c2)
		return sc1([]*lib.BlockSpec{D().Spec("0.14.1"), s}, 1)
	}},
}

// enumScenario: exhaustive small space. A chain of 3 blocks, each doing one action on ONE slot of
// one contract (ordinary contract deployed in block 0, or system contract 0x1), then revert k,
// then one fork block writing 1.
func enumScenario(idx int, nacts int) (*Scenario, bool) {
	acts := []int{-1, 0, 1, 2}[:nacts] // -1: no write
	n := idx
	target := n % 2
	n /= 2
	k := 1 + n%3
	n /= 3
	var a [3]int
	for i := 0; i < 3; i++ {
		a[i] = acts[n%nacts]
		n /= nacts
	}
	if n > 0 {
		return nil, false
	}
	addr := uint64(0x104)
	if target == 1 {
		addr = 1
	}
	var main []*lib.BlockSpec
	for i := 0; i < 3; i++ {
		d := D()
		if i == 0 && target == 0 {
			d.Deploy(addr, 0xc000)
		}
		if a[i] >= 0 {
			d.Set(addr, 3, uint64(a[i]))
		}
		main = append(main, d.Spec("0.14.0"))
	}
	sc := sc1(main, k, D().Set(addr, 3, 1).Spec("0.14.0"))
	if target == 0 && k == 3 {
		sc.Rounds[0].Fork = []*lib.BlockSpec{D().Deploy(addr, 0xc000).Set(addr, 3, 1).Spec("0.14.0")}
	}
	sc.Restart = false
	return sc, true
}

func enumCount(nacts int) int { return 2 * 3 * nacts * nacts * nacts }

// windowScenario crosses the 8192-block boundary of the event filter windows.
func windowScenario(newState bool) *Scenario {
	const W = 8192
	r := lib.NewRNG(0x8192)
	opt := genOptions()
	g := NewGen(r, newState, opt)
	st := lib.NewAbsState()
	var main []*lib.BlockSpec
	total := W + 3
	for i := 0; i < total; i++ {
		var spec *lib.BlockSpec
		if i >= W-6 || i == 100 {
			spec = g.Block(st, uint64(i), "0.14.0")
			if len(spec.Txs) == 0 { // make sure the blocks around the boundary carry events
				tx := g.G.GenTx("0.14.0")
				rc := g.G.GenReceipt(tx)
				from, key := g.G.Addr(2), lib.EventKey(0)
				rc.Events = append(rc.Events, &core.Event{From: &from, Keys: []felt.Felt{key}, Data: []felt.Felt{*lib.F(uint64(i))}})
				spec.Txs, spec.Rcs, spec.NoTxs = []core.Transaction{tx}, []*core.TransactionReceipt{rc}, false
			}
		} else {
			spec = &lib.BlockSpec{Version: "0.14.0", Diff: emptyDiff(), NoTxs: true}
		}
		st.Apply(uint64(i), spec.Diff, spec.Classes)
		main = append(main, spec)
	}
	// revert back into window 0 (blocks W+2 .. W-3), then a fork that crosses the boundary again
	k := 6
	base := lib.NewAbsState()
	for i := 0; i < total-k; i++ {
		base.Apply(uint64(i), main[i].Diff, main[i].Classes)
	}
	var fork []*lib.BlockSpec
	cur := base
	for j := 0; j < 6; j++ {
		num := uint64(total - k + j)
		spec := g.Block(cur, num, "0.14.0")
		tx := g.G.GenTx("0.14.0")
		rc := g.G.GenReceipt(tx)
		from, key := g.G.Addr(3), lib.EventKey(2)
		rc.Events = append(rc.Events, &core.Event{From: &from, Keys: []felt.Felt{key, *lib.F(0x777)}, Data: []felt.Felt{*lib.F(num)}})
		spec.Txs, spec.Rcs, spec.NoTxs = append(spec.Txs, tx), append(spec.Rcs, rc), false
		fork = append(fork, spec)
		n := cur.Clone()
		n.Apply(num, spec.Diff, spec.Classes)
		cur = n
	}
	return &Scenario{Kind: "window", NewState: newState, Main: main, Rounds: []Round{{Revert: k, Fork: fork}}, Warm: true, Restart: true, ObsFrom: W - 8}
}

// buildCase builds the scenario of a case.
func buildCase(cs caseSpec, thorough bool) *Scenario {
	var sc *Scenario
	switch cs.Kind {
	case "fork":
		sc = buildFork(cs, thorough)
	case "directed":
		for _, d := range directedScenarios {
			if d.name == cs.Name {
				sc = d.mk(cs.NewState)
				sc.Restart = cs.Case%3 == 0 // restarted copies compared in the variant without in-place restarts
				sc.FailedOps = cs.Case%3 == 1
				sc.RestartMode = cs.Case % 3  // variant: no restart / killed / graceful before the first revert
				sc.FinaliseA = cs.Case%3 == 2 // and A produces every second block itself in the third variant
			}
		}
	case "outside":
		for _, d := range outsideScenarios {
			if d.name == cs.Name {
				sc = d.mk(cs.NewState)
				sc.Restart = false
			}
		}
	case "enum":
		nacts := 3
		if thorough {
			nacts = 4
		}
		sc, _ = enumScenario(cs.Case, nacts)
		if sc != nil {
			// half of the cases restart A before the first revert (mostly killed: a snapshot is 8 MB
			// that the memory DB copies for every legacy iterator)
			sc.RestartMode = []int{0, 1, 1, 0, 1, 2}[(cs.Case/2)%6]
			sc.LightModel = cs.Case%4 != 0
			sc.SmallUniverse = true
			sc.FailedOps = cs.Case%5 == 0
		}
	case "boundary":
		base := getBase(cs.NewState, genOptions())
		sc = buildBoundary(cs, base)
		if sc != nil {
			sc.FullBaseDump = cs.Case == 0
		}
	case "window":
		// no in-place restart of A here: a fresh Blockchain instance has an empty filter cache and
		// would hide a stale cached window (restarted COPIES of A and B are still compared)
		sc = windowScenario(cs.NewState)
	}
	if sc == nil {
		return nil
	}
	sc.Kind, sc.NewState, sc.Seed, sc.Case, sc.Name = cs.Kind, cs.NewState, cs.Seed, cs.Case, cs.Name
	return sc
}

// ---------------------------------------------------------------------------------------------
// Shrinking: edit the explicit specs and execute again; keep an edit when the same finding
// still occurs.
// ---------------------------------------------------------------------------------------------

func cloneScenario(sc *Scenario) *Scenario {
	c := *sc
	c.Main = append([]*lib.BlockSpec{}, sc.Main...)
	c.Rounds = nil
	for _, rd := range sc.Rounds {
		c.Rounds = append(c.Rounds, Round{Revert: rd.Revert, Fork: append([]*lib.BlockSpec{}, rd.Fork...), Refused: rd.Refused, RefusedKind: rd.RefusedKind})
	}
	return &c
}

func cloneSpec(s *lib.BlockSpec) *lib.BlockSpec {
	c := *s
	c.Diff = lib.DeepCopy(s.Diff).(*core.StateDiff)
	cl := map[felt.Felt]core.ClassDefinition{}
	for k, v := range s.Classes {
		cl[k] = v
	}
	c.Classes = cl
	return &c
}

// specEdits returns simplified variants of one spec.
func specEdits(s *lib.BlockSpec) []*lib.BlockSpec {
	var out []*lib.BlockSpec
	if len(s.Txs) > 0 {
		c := cloneSpec(s)
		c.Txs, c.Rcs, c.NoTxs = nil, nil, true
		out = append(out, c)
	}
	d := s.Diff
	if len(d.StorageDiffs) > 0 {
		for _, a := range sortedKeys(d.StorageDiffs) {
			c := cloneSpec(s)
			delete(c.Diff.StorageDiffs, a)
			out = append(out, c)
			if len(d.StorageDiffs[a]) > 1 {
				for _, k := range sortedKeys(d.StorageDiffs[a]) {
					c := cloneSpec(s)
					delete(c.Diff.StorageDiffs[a], k)
					out = append(out, c)
				}
			}
		}
	}
	if len(d.Nonces) > 0 {
		c := cloneSpec(s)
		c.Diff.Nonces = map[felt.Felt]*felt.Felt{}
		out = append(out, c)
	}
	if len(d.ReplacedClasses) > 0 {
		c := cloneSpec(s)
		c.Diff.ReplacedClasses = map[felt.Felt]*felt.Felt{}
		out = append(out, c)
	}
	if len(d.DeclaredV0Classes) > 0 || len(d.DeclaredV1Classes) > 0 || len(d.MigratedClasses) > 0 || len(s.Classes) > 0 {
		c := cloneSpec(s)
		c.Diff.DeclaredV0Classes = []*felt.Felt{}
		c.Diff.DeclaredV1Classes = map[felt.Felt]*felt.Felt{}
		c.Diff.MigratedClasses = map[felt.SierraClassHash]felt.CasmClassHash{}
		c.Classes = map[felt.Felt]core.ClassDefinition{}
		out = append(out, c)
	}
	for _, a := range sortedKeys(d.DeployedContracts) {
		c := cloneSpec(s)
		delete(c.Diff.DeployedContracts, a)
		out = append(out, c)
	}
	return out
}

func shrink(sc *Scenario, sig string, opt lib.GenOptions, budget int) *Scenario {
	best := cloneScenario(sc)
	try := func(c *Scenario) bool {
		if budget <= 0 {
			return false
		}
		budget--
		r := execScenario(c, opt, false)
		if r.Skipped == "" && r.has(sig) {
			best = c
			return true
		}
		return false
	}
	for progress := true; progress && budget > 0; {
		progress = false
		// fewer rounds
		if len(best.Rounds) > 1 {
			c := cloneScenario(best)
			c.Rounds = c.Rounds[:len(c.Rounds)-1]
			if try(c) {
				progress = true
				continue
			}
		}
		// shorter last fork
		if n := len(best.Rounds); n > 0 && len(best.Rounds[n-1].Fork) > 0 {
			c := cloneScenario(best)
			c.Rounds[n-1].Fork = c.Rounds[n-1].Fork[:len(c.Rounds[n-1].Fork)-1]
			if try(c) {
				progress = true
				continue
			}
		}
		// drop the last main block together with one revert
		if len(best.Rounds) > 0 && best.Rounds[0].Revert > 1 && len(best.Main) > 1 {
			c := cloneScenario(best)
			c.Main = c.Main[:len(c.Main)-1]
			c.Rounds[0].Revert--
			if try(c) {
				progress = true
				continue
			}
		}
		// drop a main block below the fork point (renumbers the rest)
		if len(best.Rounds) > 0 {
			fp := len(best.Main) - best.Rounds[0].Revert
			for i := 0; i < fp && !progress; i++ {
				c := cloneScenario(best)
				c.Main = append(append([]*lib.BlockSpec{}, c.Main[:i]...), c.Main[i+1:]...)
				if try(c) {
					progress = true
				}
			}
			if progress {
				continue
			}
		}
		if len(best.RestartPlan) > 0 || best.RestartMode > 0 {
			c := cloneScenario(best)
			c.RestartPlan, c.RestartMode = nil, 0
			if try(c) {
				progress = true
				continue
			}
			// keep one restart only
			done := false
			for i, m := range best.RestartPlan {
				if m == 0 {
					continue
				}
				nz := 0
				for _, x := range best.RestartPlan {
					if x != 0 {
						nz++
					}
				}
				if nz <= 1 {
					break
				}
				c := cloneScenario(best)
				c.RestartPlan = make([]int, len(best.RestartPlan))
				c.RestartPlan[i] = m
				if try(c) {
					done = true
					break
				}
			}
			if done {
				progress = true
				continue
			}
		}
		dropped := false
		for ri := range best.Rounds {
			if best.Rounds[ri].Refused == nil {
				continue
			}
			c := cloneScenario(best)
			c.Rounds[ri].Refused, c.Rounds[ri].RefusedKind = nil, ""
			if try(c) {
				dropped = true
				break
			}
		}
		if dropped {
			progress = true
			continue
		}
		if best.FailedOps {
			c := cloneScenario(best)
			c.FailedOps = false
			if try(c) {
				progress = true
				continue
			}
		}
		if best.Warm || best.Restart {
			c := cloneScenario(best)
			c.Warm, c.Restart = false, false
			if try(c) {
				progress = true
				continue
			}
		}
		// simplify single blocks
		edit := func(list []*lib.BlockSpec, set func(c *Scenario, i int, s *lib.BlockSpec)) bool {
			for i, s := range list {
				for _, e := range specEdits(s) {
					c := cloneScenario(best)
					set(c, i, e)
					if try(c) {
						return true
					}
				}
			}
			return false
		}
		if edit(best.Main, func(c *Scenario, i int, s *lib.BlockSpec) { c.Main[i] = s }) {
			progress = true
			continue
		}
		for ri := range best.Rounds {
			ri := ri
			if edit(best.Rounds[ri].Fork, func(c *Scenario, i int, s *lib.BlockSpec) { c.Rounds[ri].Fork[i] = s }) {
				progress = true
				break
			}
		}
	}
	return best
}

func scenarioText(sc *Scenario) map[string]any {
	var main []string
	for _, s := range sc.Main {
		main = append(main, specSummary(s))
	}
	var rounds []map[string]any
	for _, rd := range sc.Rounds {
		var fk []string
		for _, s := range rd.Fork {
			fk = append(fk, specSummary(s))
		}
		m := map[string]any{"revert": rd.Revert, "then_store": fk}
		if rd.Refused != nil {
			m["offered_after_the_reverts_(must_be_refused_or_undone)"] = rd.RefusedKind + ": " + specSummary(rd.Refused)
		}
		rounds = append(rounds, m)
	}
	if len(main) > 24 {
		main = append([]string{fmt.Sprintf("... %d earlier blocks ...", len(main)-24)}, main[len(main)-24:]...)
	}
	out := map[string]any{"main_chain": main, "rounds": rounds, "failed_operations_offered_to_A": sc.FailedOps, "event_queries_before_revert": sc.Warm, "restart_compared": sc.Restart,
		"restart_plan_of_A": sc.RestartPlan, "restart_mode_of_A": sc.RestartMode}
	if sc.Base != nil {
		out["base_image"] = fmt.Sprintf("blocks 0..%d are empty (no transactions, empty state diff, version %s); main_chain starts at block %d", sc.Base.Len-1, baseVersion, sc.Base.Len)
		out["event_queries_after_every_operation_of_A"] = sc.QueryEach
	}
	return out
}

// ---------------------------------------------------------------------------------------------
// Probes: which repairs does the tree under test contain? (The model follows the code.)
// ---------------------------------------------------------------------------------------------

type probes struct {
	zeroWriteFix          bool
	removeImplicitClasses bool
	legacyPurgeOnUpdate   bool
	dropReopenedWindow    bool
	legacyDedupDeclared   bool
	failed                []string // probes that could not run
}

func runProbes(opt lib.GenOptions) probes {
	var p probes
	// 05cf200: legacy revert of a zero write to a never-written slot succeeds
	r := execScenario(&Scenario{NewState: false, Main: specs("0.14.0", D().Deploy(0x104, 0xc000).Set(0x104, 1, 7), D().Set(0x104, 1, 8).Set(0x104, 2, 0)),
		Rounds: []Round{{Revert: 1}}}, opt, false)
	if r.Skipped != "" || r.Hits["revert-ok"]+r.Hits["revert-error"] == 0 {
		p.failed = append(p.failed, "zeroWriteFix: "+r.Skipped)
	}
	p.zeroWriteFix = true
	for _, f := range r.Findings {
		if f.Sig == "revert-fails-on-stored-block" && strings.Contains(f.What, "check head state") {
			p.zeroWriteFix = false
		}
	}
	// class supplied for a deployed contract is removed by the revert
	r = execScenario(&Scenario{NewState: true, Main: []*lib.BlockSpec{D().Spec("0.13.2"), withClass(D().Deploy(0x105, 0xc005).Spec("0.13.2"), 0xc005)},
		Rounds: []Round{{Revert: 1}}}, opt, false)
	if r.Skipped != "" || r.Hits["revert-ok"] == 0 {
		p.failed = append(p.failed, "removeImplicitClasses: "+r.Skipped)
	}
	p.removeImplicitClasses = !r.has("class-of-deployed-contract-survives-revert")
	// legacy removeDeclaredClasses tolerates a class hash listed twice
	r = execScenario(&Scenario{NewState: false, Main: []*lib.BlockSpec{D().Spec("0.13.2"), declareV0(declareV0(D().Spec("0.13.2"), 0xd007, true), 0xd007, false)},
		Rounds: []Round{{Revert: 1}}}, opt, false)
	if r.Skipped != "" || r.Hits["revert-ok"]+r.Hits["revert-error"] == 0 {
		p.failed = append(p.failed, "legacyDedupDeclared: "+r.Skipped)
	}
	p.legacyDedupDeclared = !r.has(sigDupDeclared)
	// legacy Update purges an emptied system contract (then the record is gone from the database)
	n := newNode("P", false)
	line := newLine(lib.NewRNG(3), false, opt)
	for _, s := range specs("0.14.0", D().Set(1, 7, 5), D().Set(1, 7, 0)) {
		b, err := line.Next(s)
		if err != nil {
			p.failed = append(p.failed, "legacyPurgeOnUpdate: "+err.Error())
			return p
		}
		if err := n.Store(b); err != nil {
			p.failed = append(p.failed, "legacyPurgeOnUpdate: "+err.Error())
			return p
		}
	}
	_, err := core.GetContractClassHash(n.DB, lib.F(1))
	p.legacyPurgeOnUpdate = err != nil
	return p
}

func b2i(b bool) int {
	if b {
		return 1
	}
	return 0
}

func (p probes) cfgLine(newState bool) string {
	return fmt.Sprintf("cfg %d %d %d %d %d %d 2000", b2i(!newState), b2i(p.zeroWriteFix), b2i(p.dropReopenedWindow), b2i(p.removeImplicitClasses),
		b2i(p.legacyPurgeOnUpdate), b2i(p.legacyDedupDeclared))
}

// caseDeadline bounds one scenario (a hang of the code under test is a finding, not a harness stall).
const caseDeadline = 20 * time.Minute

// modelDeadline bounds one model run on the Lean driver (the longest, the 8195-block window case, takes
// about 20 s idle); a driver that stops answering is a harness failure, not a stall.
var modelDeadline = 10 * time.Minute

func main() {
	if pf := os.Getenv("C04_PROF"); pf != "" { // developer aid: CPU profile
		if fh, err := os.Create(pf); err == nil {
			_ = pprof.StartCPUProfile(fh)
		}
	}
	if v, err := time.ParseDuration(os.Getenv("C04_MODEL_DEADLINE")); err == nil && v > 0 { // self-test aid
		modelDeadline = v
	}
	f := lib.ParseFlags()
	res := lib.NewResult("a case = one scenario on one state backend: node A stores a chain, then 1-2 rounds of (revert k blocks, follow a fork); " +
		"after every round A is compared with a fresh node B that stored only the resulting chain (decoded database + full Reader API + restarted copies) " +
		"and with the Lean model. Kinds: random forks, directed shapes (incl. blocks that violate one protocol assumption each), " +
		"exhaustive 3-block/one-slot enumeration, 8192-block window boundary (from a base image of 8185 empty blocks: chain end W-2..W+2, every revert depth to W-4, event queries after every operation). Non-trivial = at least one block was reverted")
	opt := genOptions()
	pr := runProbes(opt)
	res.Note("repairs detected in the tree under test: zeroWriteFix(05cf200)=%v removeImplicitClasses(64c1acb)=%v legacyPurgeOnUpdate=%v legacyDedupDeclared(7460746)=%v",
		pr.zeroWriteFix, pr.removeImplicitClasses, pr.legacyPurgeOnUpdate, pr.legacyDedupDeclared)
	for _, pf := range pr.failed {
		res.Fatalf("probe could not run: %s", pf)
	}
	if !pr.zeroWriteFix || pr.legacyPurgeOnUpdate || !pr.legacyDedupDeclared {
		// Cfg.asFound does not hold for the legacy backend of this tree: the theorems say nothing about it
		// (the regressions themselves are reported as violations by the directed scenarios)
		res.Fatalf("the legacy backend of the tree under test is not the code the theorems are about (Cfg.asFound): zeroWriteFix=%v legacyPurgeOnUpdate=%v legacyDedupDeclared(7460746)=%v",
			pr.zeroWriteFix, pr.legacyPurgeOnUpdate, pr.legacyDedupDeclared)
	}
	if repo := os.Getenv("VERIF_REPO"); repo != "" {
		if out, err := exec.Command("git", "-C", repo, "rev-parse", "HEAD").Output(); err == nil {
			res.SetExtra("repo_head", strings.TrimSpace(string(out)))
		}
		if out, err := exec.Command("git", "-C", repo, "status", "--porcelain").Output(); err == nil {
			res.SetExtra("repo_dirty", strings.TrimSpace(string(out)) != "")
		}
	}

	var cases []caseSpec
	if f.Replay != "" {
		raw, err := os.ReadFile(f.Replay)
		if err != nil {
			res.Fatalf("replay: %v", err)
			lib.Finish(f, res)
		}
		var doc struct {
			Replay struct {
				Replay caseSpec `json:"replay"`
			} `json:"replay"`
		}
		if err := json.Unmarshal(raw, &doc); err != nil || doc.Replay.Replay.Kind == "" {
			res.Fatalf("replay: cannot read a case from %s (%v)", f.Replay, err)
			lib.Finish(f, res)
		}
		cases = []caseSpec{doc.Replay.Replay}
	} else {
		for _, ns := range []bool{false, true} {
			// the 8195-block scenario stored block by block (thorough only: the boundary family below
			// reaches the same heights from the base image, on both backends, in every quick run)
			if f.Thorough() {
				cases = append(cases, caseSpec{Kind: "window", NewState: ns, Seed: f.Seed})
			}
		}
		for _, d := range directedScenarios {
			for _, ns := range []bool{false, true} {
				for variant := 0; variant < 3; variant++ {
					cases = append(cases, caseSpec{Kind: "directed", NewState: ns, Seed: f.Seed, Name: d.name, Case: variant})
				}
			}
		}
		for _, d := range outsideScenarios {
			for _, ns := range []bool{false, true} {
				cases = append(cases, caseSpec{Kind: "outside", NewState: ns, Seed: f.Seed, Name: d.name})
			}
		}
		for i := 0; i < enumCount(f.Scale(3, 4)); i++ {
			for _, ns := range []bool{false, true} {
				cases = append(cases, caseSpec{Kind: "enum", NewState: ns, Seed: f.Seed, Case: i})
			}
		}
		n := f.Scale(96, 2500)
		for i := 0; i < n; i++ {
			cases = append(cases, caseSpec{Kind: "fork", NewState: i%2 == 0, Seed: f.Seed, Case: i})
		}
		// last: the boundary family (its base images are being built while the cases above run)
		for i, bp := range boundaryParamList(f.Thorough()) {
			for _, ns := range []bool{false, true} {
				cases = append(cases, caseSpec{Kind: "boundary", NewState: ns, Seed: f.Seed, Case: i, Name: bp.name()})
			}
		}
	}
	for _, ns := range []bool{false, true} {
		for _, c := range cases {
			if c.Kind == "boundary" && c.NewState == ns {
				go getBase(ns, opt)
				break
			}
		}
	}

	if only := os.Getenv("C04_ONLY"); only != "" { // developer aid: run some kinds of case only (comma separated)
		var keep []caseSpec
		for _, c := range cases {
			for _, k := range strings.Split(only, ",") {
				if c.Kind == k {
					keep = append(keep, c)
				}
			}
		}
		cases = keep
	}
	nworkers := runtime.GOMAXPROCS(0)
	if nworkers > 12 {
		nworkers = 12
	}
	drivers := make(chan *lib.Driver, nworkers)
	for i := 0; i < nworkers; i++ {
		d, err := lib.StartDriver(f.Driver)
		if err != nil {
			res.Fatalf("Lean driver did not start: %v", err)
			lib.Finish(f, res)
		}
		defer d.Close()
		drivers <- d
	}

	type shrinkJob struct {
		cs caseSpec
		sc *Scenario
		fd Finding
	}
	var mu sync.Mutex
	firstBySig := map[string]*shrinkJob{}

	var wg sync.WaitGroup
	sem := make(chan struct{}, nworkers)
	for _, cs := range cases {
		wg.Add(1)
		sem <- struct{}{}
		go func(cs caseSpec) {
			defer wg.Done()
			defer func() { <-sem }()
			sc := buildCase(cs, f.Thorough())
			if sc == nil {
				res.Fatalf("unknown case %+v", cs)
				return
			}
			backend := "legacy"
			if cs.NewState {
				backend = "new"
			}
			var r *ExecResult
			if !lib.WithDeadline(caseDeadline, func() { r = execScenario(sc, opt, true) }) {
				res.Violate(lib.Violation{Sig: "scenario-does-not-terminate", What: fmt.Sprintf("[%s backend] a scenario did not finish within %s", backend, caseDeadline),
					Replay: map[string]any{"replay": cs, "shrunk_history": scenarioText(sc)}})
				return
			}
			res.Hit("kind=" + cs.Kind)
			res.Hit("backend=" + backend)
			for h, n := range r.Hits {
				res.HitN(h, n)
			}
			// the model is asked about everything that happened, also when the scenario ended early
			answers := map[string]string{}
			if r.Trace != nil {
				p := pr
				// 702b167 (the reopened window's persisted copy is dropped): observed per case, it matters
				// only to a case that reopens a window
				p.dropReopenedWindow = r.Hits["reopened-window-still-persisted"] == 0
				d := <-drivers
				var n int
				var ans map[string]string
				var err error
				if !lib.WithDeadline(modelDeadline, func() { n, ans, err = r.Trace.runModel(d, p.cfgLine(cs.NewState), res, cs) }) {
					// the driver neither answers nor closes its pipes: abandon it (Close would wait for it)
					res.Fatalf("Lean driver did not answer within %s in case %+v", modelDeadline, cs)
					n, ans = 0, map[string]string{}
					if nd, err2 := lib.StartDriver(f.Driver); err2 == nil {
						d = nd
					}
				} else if err != nil {
					// a dead driver is not reused: start a fresh one for the other cases
					res.Fatalf("Lean driver failed in case %+v: %v", cs, err)
					d.Close()
					if nd, err2 := lib.StartDriver(f.Driver); err2 == nil {
						d = nd
					}
				}
				drivers <- d
				answers = ans
				res.Compared(n)
			}
			res.Compared(r.Compared)
			if cs.Kind == "outside" {
				// blocks outside the protocol assumptions: what juno does with them is recorded; the
				// property oracle (A == B) does not apply, the model correspondence does
				outcome := "stored-and-undone"
				switch {
				case r.Skipped != "":
					outcome = "refused-by-juno"
				case len(r.Findings) > 0:
					var sigs []string
					for _, fd := range r.Findings {
						sigs = append(sigs, fd.Sig)
					}
					sort.Strings(sigs)
					outcome = "stored-not-undone(" + sigs[0] + ")"
				}
				res.Hit(fmt.Sprintf("outside-protocol:%s:%s:%s", cs.Name, backend, outcome))
				res.Case(fmt.Sprintf("%s/%s/%s", cs.Kind, backend, cs.Name), true)
				if !strings.HasPrefix(cs.Name, "refused:") || r.Skipped != "" {
					return
				}
				// a block juno must refuse was STORED: the property speaks about every block the node was able
				// to store, so what follows (RevertHead fails, A differs from B) is reported like for any other
				// stored block, with the offered blocks as replay
				res.Hit("refused-block-was-stored:" + cs.Name)
			}
			for _, fd := range r.Findings {
				if m, ok := fd.Detail.(map[string]any); ok && m["k1_candidate"] == true {
					step, _ := m["revert_step"].(string)
					if answers[step] == "err:revRootOld" {
						fd.Sig = sigK1 // the model of the code as found predicts exactly this failure here
					}
				}
				res.Hit("finding:" + fd.Sig)
				mu.Lock()
				old := firstBySig[fd.Sig]
				// prefer the smallest scenario as the one to shrink and report
				if old == nil || len(sc.Main)+len(sc.Rounds) < len(old.sc.Main)+len(old.sc.Rounds) {
					firstBySig[fd.Sig] = &shrinkJob{cs, sc, fd}
				}
				mu.Unlock()
			}
			if r.BaseFailed {
				res.Fatalf("case %+v: %s", cs, r.Skipped)
			}
			if r.Skipped != "" {
				res.Hit("skipped")
				res.Note("case %+v skipped: %s", cs, r.Skipped)
				return
			}
			res.Case(fmt.Sprintf("%s/%s/%d/%d/%s", cs.Kind, backend, cs.Seed, cs.Case, cs.Name), r.Hits["revert-ok"] > 0)
			if cs.Kind == "fork" {
				res.Sample(5, map[string]any{"case": cs, "history": r.Ops})
			}
		}(cs)
	}
	wg.Wait()

	// shrink and report one violation per signature
	sigs := make([]string, 0, len(firstBySig))
	for s := range firstBySig {
		sigs = append(sigs, s)
	}
	sort.Strings(sigs)
	var wg2 sync.WaitGroup
	for _, sig := range sigs {
		job := firstBySig[sig]
		wg2.Add(1)
		go func(sig string, job *shrinkJob) {
			defer wg2.Done()
			backend := "legacy"
			if job.cs.NewState {
				backend = "new"
			}
			sc, fd := job.sc, job.fd
			// K1 is decided with the model's answer, which the shrinker does not have: shrink on the raw sig
			raw := sig
			if job.cs.Kind != "window" && sig != sigK1 {
				budget := 120
				if job.sc.Base != nil {
					budget = 16
				}
				small := shrink(job.sc, raw, opt, budget)
				r := execScenario(small, opt, false)
				for _, x := range r.Findings {
					if x.Sig == raw {
						sc, fd = small, x
					}
				}
			}
			res.Violate(lib.Violation{Sig: sig, What: "[" + backend + " backend] " + fd.What,
				Replay: map[string]any{"replay": job.cs, "shrunk_history": scenarioText(sc), "difference": fd.Detail}})
		}(sig, job)
	}
	wg2.Wait()
	pprof.StopCPUProfile()
	lib.Finish(f, res)
}
