//go:build verif

package main

import (
	"fmt"
	"time"

	"github.com/NethermindEth/juno/core"
	"github.com/NethermindEth/juno/core/felt"
	"verif/harness/lib"
)

func emptyDiff() *core.StateDiff {
	return &core.StateDiff{
		StorageDiffs:      map[felt.Felt]map[felt.Felt]*felt.Felt{},
		Nonces:            map[felt.Felt]*felt.Felt{},
		DeployedContracts: map[felt.Felt]*felt.Felt{},
		DeclaredV0Classes: []*felt.Felt{},
		DeclaredV1Classes: map[felt.Felt]*felt.Felt{},
		ReplacedClasses:   map[felt.Felt]*felt.Felt{},
		MigratedClasses:   map[felt.SierraClassHash]felt.CasmClassHash{},
	}
}

func main() {
	for _, nw := range []bool{false, true} {
		t0 := time.Now()
		r := lib.NewRNG(1)
		opt := lib.DefaultGenOptions()
		opt.MaxTxs = 1
		g := lib.NewChainGen(r, nw, opt)
		a, adb := lib.NewNode(g.Net, nw)
		for i := 0; i < 8193; i++ {
			sp := &lib.BlockSpec{Version: "0.14.0", Diff: emptyDiff(), NoTxs: i < 8185}
			bd, err := g.Next(sp)
			if err != nil {
				panic(err)
			}
			if err := lib.StoreOn(a, bd); err != nil {
				panic(err)
			}
		}
		fmt.Println("built", time.Since(t0))
		for i := 0; i < 2; i++ {
			if err := a.RevertHead(); err != nil {
				fmt.Println("revert", err)
			}
			g.Revert()
		}
		_, err := core.GetAggregatedBloomFilter(adb, 0, 8191)
		fmt.Println("persisted [0,8191] after revert to 8190: err=", err)
		// restart
		a2 := lib.NodeOn(adb, g.Net, nw)
		bd, _ := g.Next(&lib.BlockSpec{Version: "0.14.0", Diff: emptyDiff()})
		fmt.Println("restarted node store 8191':", lib.StoreOn(a2, bd))
		a3db := adb.Copy()
		_ = a3db
		fmt.Println("live node store 8191':", lib.StoreOn(a, bd))
	}
}
