//go:build verif

// Harness for C04: reverting the head exactly undoes a block; forks converge.
//
// Node A stores a chain, reverts k blocks and follows another fork; node B is a fresh node that
// stores only the chain A should now hold. The decoded content of the two databases and every
// answer of the Reader API must be identical, RevertHead must not fail on a block the node
// stored, and restarted copies of A and B must behave alike. Every operation is also replayed on
// the Lean model (`c04drv`) and the bucket families of the real database are compared with it.
package main

import (
	"encoding/json"
	"fmt"
	"os"
	"runtime"
	"runtime/pprof"
	"sort"
	"sync"

	"github.com/NethermindEth/juno/core"
	"github.com/NethermindEth/juno/core/felt"
	"verif/harness/lib"
)

type caseSpec struct {
	Kind     string `json:"scenario"`
	NewState bool   `json:"new_state"`
	Seed     uint64 `json:"seed"`
	Case     int    `json:"case"`
	Name     string `json:"name,omitempty"`
}

func genOptions() lib.GenOptions {
	o := lib.DefaultGenOptions()
	o.NAddr = 4
	o.NSlots = 4
	o.MaxTxs = 3
	return o
}

// buildFork generates a random fork scenario from (seed, case index, backend).
func buildFork(cs caseSpec, thorough bool) *Scenario {
	r := lib.NewRNG(cs.Seed).Fork(uint64(cs.Case)*2 + 1)
	opt := genOptions()
	g := NewGen(r, cs.NewState, opt)
	g.BiasSys = r.Chance(1, 3)
	g.ImplicitClasses = r.Chance(1, 3)
	maxL := 9
	if thorough {
		maxL = 14
	}
	p := forkParams{L: 1 + r.Intn(maxL)}
	rounds := 1 + r.Intn(2)
	h := p.L
	for i := 0; i < rounds; i++ {
		var k int
		switch c := r.Intn(5); {
		case h == 0:
			k = 0
		case c == 0:
			k = h // whole chain including the genesis block
		case c == 1:
			k = 1
		default:
			k = 1 + r.Intn(h)
		}
		m := r.Intn(5)
		p.Rounds = append(p.Rounds, k)
		p.M = append(p.M, m)
		h = h - k + m
	}
	sc := g.GenFork(cs.NewState, p)
	sc.Warm = r.Bool()
	sc.Restart = r.Chance(1, 3)
	sc.FailedOps = r.Chance(1, 3)
	// restarts of node A: a quarter of the positions (before each RevertHead, before the first
	// Store of a fork, before the comparisons), killed or shut down gracefully
	if r.Chance(2, 3) {
		n := 0
		for i := range p.Rounds {
			n += p.Rounds[i] + 3
		}
		for i := 0; i < n; i++ {
			m := 0
			if r.Chance(1, 4) {
				m = 1 + r.Intn(3)/2
			}
			sc.RestartPlan = append(sc.RestartPlan, m)
		}
	}
	return sc
}

// ---------------------------------------------------------------------------------------------
// Directed scenarios: one per shape the property text names, and one per defect ever seen.
// ---------------------------------------------------------------------------------------------

type directed struct {
	name string
	mk   func(newState bool) *Scenario
}

func sc1(main []*lib.BlockSpec, revert int, fork ...*lib.BlockSpec) *Scenario {
	return &Scenario{Main: main, Rounds: []Round{{Revert: revert, Fork: fork}}, Restart: true}
}

func withClass(s *lib.BlockSpec, hash uint64) *lib.BlockSpec {
	if s.Classes == nil {
		s.Classes = map[felt.Felt]core.ClassDefinition{}
	}
	s.Classes[*lib.F(hash)] = myCairo0(hash)
	return s
}

func declareV0(s *lib.BlockSpec, hash uint64, withDef bool) *lib.BlockSpec {
	s.Diff.DeclaredV0Classes = append(s.Diff.DeclaredV0Classes, lib.F(hash))
	if withDef {
		withClass(s, hash)
	}
	return s
}

func l1Tx(seq uint64) (core.Transaction, *core.TransactionReceipt) {
	g := lib.NewChainGen(lib.NewRNG(seq), false, genOptions())
	for {
		tx := g.GenTx("0.14.0")
		if _, ok := tx.(*core.L1HandlerTransaction); ok {
			return tx, g.GenReceipt(tx)
		}
	}
}

var directedScenarios = []directed{
	{"zero-write-to-never-written-slot", func(ns bool) *Scenario { // the failure fixed by 05cf200
		return sc1(specs("0.14.0", D().Deploy(0x104, 0xc000).Set(0x104, 1, 7), D().Set(0x104, 1, 8).Set(0x104, 2, 0), D()), 2, D().Set(0x104, 2, 9).Spec("0.14.0"))
	}},
	{"zero-write-only-block", func(ns bool) *Scenario {
		return sc1(specs("0.13.2", D().Deploy(0x104, 0xc000), D().Set(0x104, 5, 0)), 1, D().Set(0x104, 5, 1).Spec("0.13.2"))
	}},
	{"system-contract-emptied-then-later-block-reverted", func(ns bool) *Scenario {
		return sc1(specs("0.13.2", D().Set(1, 7, 5), D(), D().Set(1, 7, 0), D()), 1)
	}},
	{"system-contract-first-touched-with-zero", func(ns bool) *Scenario {
		return sc1(specs("0.14.0", D().Set(2, 7, 0), D().Deploy(0x104, 0xc000)), 1, D().Set(2, 7, 3).Spec("0.14.0"))
	}},
	{"system-contract-emptying-block-reverted", func(ns bool) *Scenario {
		return sc1(specs("0.14.0", D().Set(1, 7, 5), D(), D().Set(1, 7, 0)), 1, D().Set(1, 8, 1).Spec("0.14.0"))
	}},
	{"system-contract-created-and-reverted", func(ns bool) *Scenario {
		return sc1(specs("0.14.0", D().Deploy(0x104, 0xc000), D().Set(1, 7, 5).Set(2, 1, 1)), 1, D().Set(1, 7, 6).Spec("0.14.0"))
	}},
	{"sibling-slots-insert-reverted", func(ns bool) *Scenario { // trie2 leaf below a binary node
		return sc1(specs("0.14.0", D().Deploy(0x104, 0xc000).Set(0x104, 3, 1).Set(0x104, 7, 2), D().Set(0x104, 2, 5)), 1, D().Set(0x104, 7, 3).Spec("0.14.0"))
	}},
	{"sibling-addresses-deploy-reverted", func(ns bool) *Scenario {
		return sc1(specs("0.14.0", D().Deploy(0x104, 0xc000), D().Deploy(0x105, 0xc001).Set(0x105, 1, 1)), 1, D().Deploy(0x105, 0xc002).Spec("0.14.0"))
	}},
	{"deploy-then-touch-same-block", func(ns bool) *Scenario {
		return sc1(specs("0.14.0", D().Deploy(0x104, 0xc000), D().Deploy(0x106, 0xc001).Set(0x106, 1, 1).Set(0x106, 9, 2).Nonce(0x106, 3)), 1,
			D().Deploy(0x106, 0xc002).Set(0x106, 9, 4).Spec("0.14.0"))
	}},
	{"replace-class-and-nonce", func(ns bool) *Scenario {
		return sc1(specs("0.13.4", D().Deploy(0x104, 0xc000), D().Replace(0x104, 0xc001).Nonce(0x104, 1), D().Replace(0x104, 0xc002).Nonce(0x104, 2)), 2,
			D().Replace(0x104, 0xc003).Spec("0.13.4"))
	}},
	{"same-value-rewrite", func(ns bool) *Scenario {
		return sc1(specs("0.14.0", D().Deploy(0x104, 0xc000).Set(0x104, 1, 7), D().Set(0x104, 1, 7), D().Set(0x104, 1, 7).Nonce(0x104, 0)), 2, D().Set(0x104, 1, 0).Spec("0.14.0"))
	}},
	{"class-for-deployed-contract", func(ns bool) *Scenario { // sync supplies the class of a deployed contract
		return sc1([]*lib.BlockSpec{D().Deploy(0x104, 0xc000).Spec("0.13.2"), withClass(D().Deploy(0x105, 0xc005).Spec("0.13.2"), 0xc005)}, 1,
			withClass(D().Deploy(0x106, 0xc005).Spec("0.13.2"), 0xc005), D().Spec("0.13.2"))
	}},
	{"cairo0-declare-and-redeclare", func(ns bool) *Scenario {
		return sc1([]*lib.BlockSpec{declareV0(D().Spec("0.13.2"), 0xd001, true), declareV0(D().Spec("0.13.2"), 0xd001, false),
			declareV0(declareV0(D().Spec("0.13.2"), 0xd001, true), 0xd002, true)}, 2, declareV0(D().Spec("0.13.2"), 0xd002, true))
	}},
	{"revert-whole-chain-and-rebuild", func(ns bool) *Scenario {
		return sc1(specs("0.14.1", D().Deploy(0x104, 0xc000).Set(0x104, 1, 1).Set(1, 1, 1), D().Set(0x104, 1, 2).Nonce(0x104, 1)), 2,
			D().Deploy(0x105, 0xc000).Spec("0.14.1"), D().Set(0x105, 1, 1).Spec("0.14.1"))
	}},
	{"l1-handler-reverted-and-resent", func(ns bool) *Scenario {
		tx, rc := l1Tx(7)
		a := D().Deploy(0x104, 0xc000).Spec("0.14.0")
		b := D().Spec("0.14.0")
		b.NoTxs, b.Txs, b.Rcs = false, []core.Transaction{tx}, []*core.TransactionReceipt{rc}
		c := D().Spec("0.14.0")
		c.NoTxs, c.Txs, c.Rcs = false, []core.Transaction{tx}, []*core.TransactionReceipt{rc}
		return sc1([]*lib.BlockSpec{a, b}, 1, D().Spec("0.14.0"), c)
	}},
}

// enumScenario: exhaustive small space. A chain of 3 blocks, each doing one action on ONE slot of
// one contract (ordinary contract deployed in block 0, or system contract 0x1), then revert k,
// then one fork block writing 1.
func enumScenario(idx int, nacts int) (*Scenario, bool) {
	acts := []int{-1, 0, 1, 2}[:nacts] // -1: no write
	n := idx
	target := n % 2
	n /= 2
	k := 1 + n%3
	n /= 3
	var a [3]int
	for i := 0; i < 3; i++ {
		a[i] = acts[n%nacts]
		n /= nacts
	}
	if n > 0 {
		return nil, false
	}
	addr := uint64(0x104)
	if target == 1 {
		addr = 1
	}
	var main []*lib.BlockSpec
	for i := 0; i < 3; i++ {
		d := D()
		if i == 0 && target == 0 {
			d.Deploy(addr, 0xc000)
		}
		if a[i] >= 0 {
			d.Set(addr, 3, uint64(a[i]))
		}
		main = append(main, d.Spec("0.14.0"))
	}
	sc := sc1(main, k, D().Set(addr, 3, 1).Spec("0.14.0"))
	if target == 0 && k == 3 {
		sc.Rounds[0].Fork = []*lib.BlockSpec{D().Deploy(addr, 0xc000).Set(addr, 3, 1).Spec("0.14.0")}
	}
	sc.Restart = false
	return sc, true
}

func enumCount(nacts int) int { return 2 * 3 * nacts * nacts * nacts }

// windowScenario crosses the 8192-block boundary of the event filter windows.
func windowScenario(newState bool) *Scenario {
	const W = 8192
	r := lib.NewRNG(0x8192)
	opt := genOptions()
	g := NewGen(r, newState, opt)
	st := lib.NewAbsState()
	var main []*lib.BlockSpec
	total := W + 3
	for i := 0; i < total; i++ {
		var spec *lib.BlockSpec
		if i >= W-6 || i == 100 {
			spec = g.Block(st, uint64(i), "0.14.0")
			if len(spec.Txs) == 0 { // make sure the blocks around the boundary carry events
				tx := g.G.GenTx("0.14.0")
				rc := g.G.GenReceipt(tx)
				from, key := g.G.Addr(2), lib.EventKey(0)
				rc.Events = append(rc.Events, &core.Event{From: &from, Keys: []felt.Felt{key}, Data: []felt.Felt{*lib.F(uint64(i))}})
				spec.Txs, spec.Rcs, spec.NoTxs = []core.Transaction{tx}, []*core.TransactionReceipt{rc}, false
			}
		} else {
			spec = &lib.BlockSpec{Version: "0.14.0", Diff: emptyDiff(), NoTxs: true}
		}
		st.Apply(uint64(i), spec.Diff, spec.Classes)
		main = append(main, spec)
	}
	// revert back into window 0 (blocks W+2 .. W-3), then a fork that crosses the boundary again
	k := 6
	base := lib.NewAbsState()
	for i := 0; i < total-k; i++ {
		base.Apply(uint64(i), main[i].Diff, main[i].Classes)
	}
	var fork []*lib.BlockSpec
	cur := base
	for j := 0; j < 6; j++ {
		num := uint64(total - k + j)
		spec := g.Block(cur, num, "0.14.0")
		tx := g.G.GenTx("0.14.0")
		rc := g.G.GenReceipt(tx)
		from, key := g.G.Addr(3), lib.EventKey(2)
		rc.Events = append(rc.Events, &core.Event{From: &from, Keys: []felt.Felt{key, *lib.F(0x777)}, Data: []felt.Felt{*lib.F(num)}})
		spec.Txs, spec.Rcs, spec.NoTxs = append(spec.Txs, tx), append(spec.Rcs, rc), false
		fork = append(fork, spec)
		n := cur.Clone()
		n.Apply(num, spec.Diff, spec.Classes)
		cur = n
	}
	return &Scenario{Kind: "window", NewState: newState, Main: main, Rounds: []Round{{Revert: k, Fork: fork}}, Warm: true, Restart: true, ObsFrom: W - 8}
}

// buildCase builds the scenario of a case.
func buildCase(cs caseSpec, thorough bool) *Scenario {
	var sc *Scenario
	switch cs.Kind {
	case "fork":
		sc = buildFork(cs, thorough)
	case "directed":
		for _, d := range directedScenarios {
			if d.name == cs.Name {
				sc = d.mk(cs.NewState)
				sc.Restart = cs.Case%3 == 0 // restarted copies compared in the variant without in-place restarts
				sc.FailedOps = cs.Case%3 == 1
				sc.RestartMode = cs.Case % 3 // variant: no restart / killed / graceful before the first revert
			}
		}
	case "enum":
		nacts := 3
		if thorough {
			nacts = 4
		}
		sc, _ = enumScenario(cs.Case, nacts)
		if sc != nil {
			// half of the cases restart A before the first revert (mostly killed: a snapshot is 8 MB
			// that the memory DB copies for every legacy iterator)
			sc.RestartMode = []int{0, 1, 1, 0, 1, 2}[(cs.Case/2)%6]
			sc.LightModel = cs.Case%4 != 0
			sc.SmallUniverse = true
			sc.FailedOps = cs.Case%5 == 0
		}
	case "window":
		// no in-place restart of A here: a fresh Blockchain instance has an empty filter cache and
		// would hide a stale cached window (restarted COPIES of A and B are still compared)
		sc = windowScenario(cs.NewState)
	}
	if sc == nil {
		return nil
	}
	sc.Kind, sc.NewState, sc.Seed, sc.Case, sc.Name = cs.Kind, cs.NewState, cs.Seed, cs.Case, cs.Name
	return sc
}

// ---------------------------------------------------------------------------------------------
// Shrinking: edit the explicit specs and execute again; keep an edit when the same finding
// still occurs.
// ---------------------------------------------------------------------------------------------

func cloneScenario(sc *Scenario) *Scenario {
	c := *sc
	c.Main = append([]*lib.BlockSpec{}, sc.Main...)
	c.Rounds = nil
	for _, rd := range sc.Rounds {
		c.Rounds = append(c.Rounds, Round{Revert: rd.Revert, Fork: append([]*lib.BlockSpec{}, rd.Fork...)})
	}
	return &c
}

func cloneSpec(s *lib.BlockSpec) *lib.BlockSpec {
	c := *s
	c.Diff = lib.DeepCopy(s.Diff).(*core.StateDiff)
	cl := map[felt.Felt]core.ClassDefinition{}
	for k, v := range s.Classes {
		cl[k] = v
	}
	c.Classes = cl
	return &c
}

// specEdits returns simplified variants of one spec.
func specEdits(s *lib.BlockSpec) []*lib.BlockSpec {
	var out []*lib.BlockSpec
	if len(s.Txs) > 0 {
		c := cloneSpec(s)
		c.Txs, c.Rcs, c.NoTxs = nil, nil, true
		out = append(out, c)
	}
	d := s.Diff
	if len(d.StorageDiffs) > 0 {
		for _, a := range sortedKeys(d.StorageDiffs) {
			c := cloneSpec(s)
			delete(c.Diff.StorageDiffs, a)
			out = append(out, c)
			if len(d.StorageDiffs[a]) > 1 {
				for _, k := range sortedKeys(d.StorageDiffs[a]) {
					c := cloneSpec(s)
					delete(c.Diff.StorageDiffs[a], k)
					out = append(out, c)
				}
			}
		}
	}
	if len(d.Nonces) > 0 {
		c := cloneSpec(s)
		c.Diff.Nonces = map[felt.Felt]*felt.Felt{}
		out = append(out, c)
	}
	if len(d.ReplacedClasses) > 0 {
		c := cloneSpec(s)
		c.Diff.ReplacedClasses = map[felt.Felt]*felt.Felt{}
		out = append(out, c)
	}
	if len(d.DeclaredV0Classes) > 0 || len(d.DeclaredV1Classes) > 0 || len(d.MigratedClasses) > 0 || len(s.Classes) > 0 {
		c := cloneSpec(s)
		c.Diff.DeclaredV0Classes = []*felt.Felt{}
		c.Diff.DeclaredV1Classes = map[felt.Felt]*felt.Felt{}
		c.Diff.MigratedClasses = map[felt.SierraClassHash]felt.CasmClassHash{}
		c.Classes = map[felt.Felt]core.ClassDefinition{}
		out = append(out, c)
	}
	for _, a := range sortedKeys(d.DeployedContracts) {
		c := cloneSpec(s)
		delete(c.Diff.DeployedContracts, a)
		out = append(out, c)
	}
	return out
}

func shrink(sc *Scenario, sig string, opt lib.GenOptions, budget int) *Scenario {
	best := cloneScenario(sc)
	try := func(c *Scenario) bool {
		if budget <= 0 {
			return false
		}
		budget--
		r := execScenario(c, opt, false)
		if r.Skipped == "" && r.has(sig) {
			best = c
			return true
		}
		return false
	}
	for progress := true; progress && budget > 0; {
		progress = false
		// fewer rounds
		if len(best.Rounds) > 1 {
			c := cloneScenario(best)
			c.Rounds = c.Rounds[:len(c.Rounds)-1]
			if try(c) {
				progress = true
				continue
			}
		}
		// shorter last fork
		if n := len(best.Rounds); n > 0 && len(best.Rounds[n-1].Fork) > 0 {
			c := cloneScenario(best)
			c.Rounds[n-1].Fork = c.Rounds[n-1].Fork[:len(c.Rounds[n-1].Fork)-1]
			if try(c) {
				progress = true
				continue
			}
		}
		// drop the last main block together with one revert
		if len(best.Rounds) > 0 && best.Rounds[0].Revert > 1 && len(best.Main) > 1 {
			c := cloneScenario(best)
			c.Main = c.Main[:len(c.Main)-1]
			c.Rounds[0].Revert--
			if try(c) {
				progress = true
				continue
			}
		}
		// drop a main block below the fork point (renumbers the rest)
		if len(best.Rounds) > 0 {
			fp := len(best.Main) - best.Rounds[0].Revert
			for i := 0; i < fp && !progress; i++ {
				c := cloneScenario(best)
				c.Main = append(append([]*lib.BlockSpec{}, c.Main[:i]...), c.Main[i+1:]...)
				if try(c) {
					progress = true
				}
			}
			if progress {
				continue
			}
		}
		if len(best.RestartPlan) > 0 || best.RestartMode > 0 {
			c := cloneScenario(best)
			c.RestartPlan, c.RestartMode = nil, 0
			if try(c) {
				progress = true
				continue
			}
			// keep one restart only
			done := false
			for i, m := range best.RestartPlan {
				if m == 0 {
					continue
				}
				nz := 0
				for _, x := range best.RestartPlan {
					if x != 0 {
						nz++
					}
				}
				if nz <= 1 {
					break
				}
				c := cloneScenario(best)
				c.RestartPlan = make([]int, len(best.RestartPlan))
				c.RestartPlan[i] = m
				if try(c) {
					done = true
					break
				}
			}
			if done {
				progress = true
				continue
			}
		}
		if best.FailedOps {
			c := cloneScenario(best)
			c.FailedOps = false
			if try(c) {
				progress = true
				continue
			}
		}
		if best.Warm || best.Restart {
			c := cloneScenario(best)
			c.Warm, c.Restart = false, false
			if try(c) {
				progress = true
				continue
			}
		}
		// simplify single blocks
		edit := func(list []*lib.BlockSpec, set func(c *Scenario, i int, s *lib.BlockSpec)) bool {
			for i, s := range list {
				for _, e := range specEdits(s) {
					c := cloneScenario(best)
					set(c, i, e)
					if try(c) {
						return true
					}
				}
			}
			return false
		}
		if edit(best.Main, func(c *Scenario, i int, s *lib.BlockSpec) { c.Main[i] = s }) {
			progress = true
			continue
		}
		for ri := range best.Rounds {
			ri := ri
			if edit(best.Rounds[ri].Fork, func(c *Scenario, i int, s *lib.BlockSpec) { c.Rounds[ri].Fork[i] = s }) {
				progress = true
				break
			}
		}
	}
	return best
}

func scenarioText(sc *Scenario) map[string]any {
	var main []string
	for _, s := range sc.Main {
		main = append(main, specSummary(s))
	}
	var rounds []map[string]any
	for _, rd := range sc.Rounds {
		var fk []string
		for _, s := range rd.Fork {
			fk = append(fk, specSummary(s))
		}
		rounds = append(rounds, map[string]any{"revert": rd.Revert, "then_store": fk})
	}
	if len(main) > 24 {
		main = append([]string{fmt.Sprintf("... %d earlier blocks ...", len(main)-24)}, main[len(main)-24:]...)
	}
	return map[string]any{"main_chain": main, "rounds": rounds, "failed_operations_offered_to_A": sc.FailedOps, "event_queries_before_revert": sc.Warm, "restart_compared": sc.Restart,
		"restart_plan_of_A": sc.RestartPlan, "restart_mode_of_A": sc.RestartMode}
}

// ---------------------------------------------------------------------------------------------
// Probes: which repairs does the tree under test contain? (The model follows the code.)
// ---------------------------------------------------------------------------------------------

type probes struct {
	zeroWriteFix          bool
	removeImplicitClasses bool
	legacyPurgeOnUpdate   bool
	dropReopenedWindow    bool
}

func runProbes(opt lib.GenOptions) probes {
	var p probes
	// 05cf200: legacy revert of a zero write to a never-written slot succeeds
	r := execScenario(&Scenario{NewState: false, Main: specs("0.14.0", D().Deploy(0x104, 0xc000).Set(0x104, 1, 7), D().Set(0x104, 1, 8).Set(0x104, 2, 0)),
		Rounds: []Round{{Revert: 1}}}, opt, false)
	p.zeroWriteFix = !r.has("revert-fails-on-stored-block")
	// class supplied for a deployed contract is removed by the revert
	r = execScenario(&Scenario{NewState: true, Main: []*lib.BlockSpec{D().Spec("0.13.2"), withClass(D().Deploy(0x105, 0xc005).Spec("0.13.2"), 0xc005)},
		Rounds: []Round{{Revert: 1}}}, opt, false)
	p.removeImplicitClasses = r.Skipped == "" && !r.has("class-of-deployed-contract-survives-revert")
	// legacy Update purges an emptied system contract (then the record is gone from the database)
	n := newNode("P", false)
	line := newLine(lib.NewRNG(3), false, opt)
	okAll := true
	for _, s := range specs("0.14.0", D().Set(1, 7, 5), D().Set(1, 7, 0)) {
		b, err := line.Next(s)
		if err != nil || n.Store(b) != nil {
			okAll = false
			break
		}
	}
	if okAll {
		_, err := core.GetContractClassHash(n.DB, lib.F(1))
		p.legacyPurgeOnUpdate = err != nil
	}
	return p
}

func b2i(b bool) int {
	if b {
		return 1
	}
	return 0
}

func (p probes) cfgLine(newState bool) string {
	return fmt.Sprintf("cfg %d %d %d %d %d 2000", b2i(!newState), b2i(p.zeroWriteFix), b2i(p.dropReopenedWindow), b2i(p.removeImplicitClasses),
		b2i(p.legacyPurgeOnUpdate))
}

func main() {
	if pf := os.Getenv("C04_PROF"); pf != "" { // developer aid: CPU profile
		if fh, err := os.Create(pf); err == nil {
			_ = pprof.StartCPUProfile(fh)
		}
	}
	f := lib.ParseFlags()
	res := lib.NewResult("a case = one scenario on one state backend: node A stores a chain, then 1-2 rounds of (revert k blocks, follow a fork); " +
		"after every round A is compared with a fresh node B that stored only the resulting chain (decoded database + full Reader API + restarted copies) " +
		"and with the Lean model. Kinds: random forks, directed shapes, exhaustive 3-block/one-slot enumeration, 8192-block window crossing. " +
		"Non-trivial = at least one block was reverted")
	opt := genOptions()
	pr := runProbes(opt)
	res.Note("repairs detected in the tree under test: zeroWriteFix(05cf200)=%v removeImplicitClasses=%v legacyPurgeOnUpdate=%v", pr.zeroWriteFix,
		pr.removeImplicitClasses, pr.legacyPurgeOnUpdate)

	var cases []caseSpec
	if f.Replay != "" {
		raw, err := os.ReadFile(f.Replay)
		if err != nil {
			res.Note("replay: %v", err)
			lib.Finish(f, res)
		}
		var doc struct {
			Replay struct {
				Replay caseSpec `json:"replay"`
			} `json:"replay"`
		}
		if err := json.Unmarshal(raw, &doc); err != nil || doc.Replay.Replay.Kind == "" {
			res.Note("replay: cannot read a case from %s (%v)", f.Replay, err)
			lib.Finish(f, res)
		}
		cases = []caseSpec{doc.Replay.Replay}
	} else {
		for _, ns := range []bool{false, true} {
			// quick: one backend per run (by seed parity), thorough: both
			if f.Thorough() || ns == (f.Seed%2 == 0) {
				cases = append(cases, caseSpec{Kind: "window", NewState: ns, Seed: f.Seed})
			}
		}
		for _, d := range directedScenarios {
			for _, ns := range []bool{false, true} {
				for variant := 0; variant < 3; variant++ {
					cases = append(cases, caseSpec{Kind: "directed", NewState: ns, Seed: f.Seed, Name: d.name, Case: variant})
				}
			}
		}
		for i := 0; i < enumCount(f.Scale(3, 4)); i++ {
			for _, ns := range []bool{false, true} {
				cases = append(cases, caseSpec{Kind: "enum", NewState: ns, Seed: f.Seed, Case: i})
			}
		}
		n := f.Scale(96, 2500)
		for i := 0; i < n; i++ {
			cases = append(cases, caseSpec{Kind: "fork", NewState: i%2 == 0, Seed: f.Seed, Case: i})
		}
	}

	if only := os.Getenv("C04_ONLY"); only != "" { // developer aid: run one kind of case
		var keep []caseSpec
		for _, c := range cases {
			if c.Kind == only {
				keep = append(keep, c)
			}
		}
		cases = keep
	}
	nworkers := runtime.GOMAXPROCS(0)
	if nworkers > 12 {
		nworkers = 12
	}
	drivers := make(chan *lib.Driver, nworkers)
	for i := 0; i < nworkers; i++ {
		d, err := lib.StartDriver(f.Driver)
		if err != nil {
			res.Note("driver: %v", err)
			lib.Finish(f, res)
		}
		defer d.Close()
		drivers <- d
	}

	type shrinkJob struct {
		cs caseSpec
		sc *Scenario
		fd Finding
	}
	var mu sync.Mutex
	firstBySig := map[string]*shrinkJob{}

	var wg sync.WaitGroup
	sem := make(chan struct{}, nworkers)
	for _, cs := range cases {
		wg.Add(1)
		sem <- struct{}{}
		go func(cs caseSpec) {
			defer wg.Done()
			defer func() { <-sem }()
			sc := buildCase(cs, f.Thorough())
			if sc == nil {
				res.Note("unknown case %+v", cs)
				return
			}
			r := execScenario(sc, opt, true)
			backend := "legacy"
			if cs.NewState {
				backend = "new"
			}
			res.Hit("kind=" + cs.Kind)
			res.Hit("backend=" + backend)
			for h, n := range r.Hits {
				res.HitN(h, n)
			}
			if r.Skipped != "" {
				res.Hit("skipped")
				res.Note("case %+v skipped: %s", cs, r.Skipped)
				return
			}
			res.Compared(r.Compared)
			res.Case(fmt.Sprintf("%s/%s/%d/%d/%s", cs.Kind, backend, cs.Seed, cs.Case, cs.Name), r.Hits["revert-ok"] > 0)
			if r.Trace != nil {
				p := pr
				if cs.Kind == "window" {
					p.dropReopenedWindow = r.Hits["reopened-window-dropped"] > 0
				}
				d := <-drivers
				n, err := r.Trace.runModel(d, p.cfgLine(cs.NewState), res, cs)
				drivers <- d
				if err != nil {
					res.Note("driver: %v", err)
				}
				res.Compared(n)
			}
			for _, fd := range r.Findings {
				res.Hit("finding:" + fd.Sig)
				mu.Lock()
				old := firstBySig[fd.Sig]
				// prefer the smallest scenario as the one to shrink and report
				if old == nil || len(sc.Main)+len(sc.Rounds) < len(old.sc.Main)+len(old.sc.Rounds) {
					firstBySig[fd.Sig] = &shrinkJob{cs, sc, fd}
				}
				mu.Unlock()
			}
			if cs.Kind == "fork" {
				res.Sample(5, map[string]any{"case": cs, "history": r.Ops})
			}
		}(cs)
	}
	wg.Wait()

	// shrink and report one violation per signature
	sigs := make([]string, 0, len(firstBySig))
	for s := range firstBySig {
		sigs = append(sigs, s)
	}
	sort.Strings(sigs)
	var wg2 sync.WaitGroup
	for _, sig := range sigs {
		job := firstBySig[sig]
		wg2.Add(1)
		go func(sig string, job *shrinkJob) {
			defer wg2.Done()
			backend := "legacy"
			if job.cs.NewState {
				backend = "new"
			}
			sc, fd := job.sc, job.fd
			if job.cs.Kind != "window" {
				small := shrink(job.sc, sig, opt, 120)
				r := execScenario(small, opt, false)
				for _, x := range r.Findings {
					if x.Sig == sig {
						sc, fd = small, x
					}
				}
			}
			res.Violate(lib.Violation{Sig: sig, What: "[" + backend + " backend] " + fd.What,
				Replay: map[string]any{"replay": job.cs, "shrunk_history": scenarioText(sc), "difference": fd.Detail}})
		}(sig, job)
	}
	wg2.Wait()
	pprof.StopCPUProfile()
	lib.Finish(f, res)
}
