//go:build verif

package main

import (
	"fmt"
	"strings"
	"sync"

	"github.com/NethermindEth/juno/core"
	"github.com/NethermindEth/juno/core/felt"
	"github.com/NethermindEth/juno/db/memory"
	"verif/harness/lib"
)

// ---------------------------------------------------------------------------------------------
// Base image: a chain of W-baseTail empty blocks, built ONCE per state backend (source node and
// destination database). Every scenario that needs the 8192-block boundary of the event-filter
// windows starts from copies of it: node A and every node B are opened on a copy of the database, the
// source line on a copy of the source. The Lean model gets the same chain in closed form (`bulk`,
// ModelChain.lean `bulkNode`); the first checkpoint of a run compares ALL bucket families of the real
// image with it.
// ---------------------------------------------------------------------------------------------

const W = int(core.NumBlocksPerFilter)

// baseTail: the base ends this many blocks before the first window boundary (last base block W-1-baseTail)
const baseTail = 7

const baseVersion = "0.14.0"

type Base struct {
	NewState bool
	Len      int
	line     *Line
	db       *memory.Database
	spec     *lib.BlockSpec
	specs    []*lib.BlockSpec
	bulk     string // "<v> <hash> <hash> ..." for the model driver
	err      error
}

var (
	baseOnce [2]sync.Once
	baseImg  [2]*Base
)

func backendIdx(newState bool) int {
	if newState {
		return 1
	}
	return 0
}

// getBase returns the base image of a backend (built by the first caller).
func getBase(newState bool, opt lib.GenOptions) *Base {
	i := backendIdx(newState)
	baseOnce[i].Do(func() { baseImg[i] = buildBase(newState, opt, W-baseTail) })
	return baseImg[i]
}

func buildBase(newState bool, opt lib.GenOptions, n int) *Base {
	b := &Base{NewState: newState, Len: n, spec: &lib.BlockSpec{Version: baseVersion, Diff: emptyDiff(), NoTxs: true}}
	b.line = newLine(lib.NewRNG(execHeaderSeed+1), newState, opt)
	bc, d := lib.NewNode(lib.TestNetwork(), newState)
	b.db = d
	var sb strings.Builder
	fmt.Fprintf(&sb, "%d", verClass(baseVersion))
	for i := 0; i < n; i++ {
		bd, err := b.line.Next(b.spec)
		if err != nil {
			b.err = fmt.Errorf("base block %d cannot be finalised: %w", i, err)
			return b
		}
		if err := lib.StoreOn(bc, bd); err != nil {
			b.err = fmt.Errorf("base block %d cannot be stored: %w", i, err)
			return b
		}
		sb.WriteString(" ")
		sb.WriteString(hexNat(bd.Block.Hash))
		b.specs = append(b.specs, b.spec)
	}
	b.bulk = sb.String()
	return b
}

// node opens a new Blockchain (a new process: cold running filter, empty cache) on a copy of the image.
func (b *Base) node(name string) *Node {
	d := b.db.Copy()
	return &Node{Name: name, BC: lib.NodeOn(d, lib.TestNetwork(), b.NewState), DB: d}
}

// newLine: a source line at the head of the base with its own header randomness.
func (b *Base) newLine(hr *lib.RNG) *Line {
	l := b.line.CopyAtHead()
	l.cg.R = hr
	return l
}

// ---------------------------------------------------------------------------------------------
// Boundary scenarios: the main chain ends at E in {W-2 .. W+2}, k blocks are reverted (the deepest
// reverted block is between W-4 and E), a fork of m blocks with other events follows, optionally a
// second round. After EVERY operation of node A (store, revert, restart) a light family of event
// queries is asked on A — no restart in between unless the plan says so — and compared with the
// ground truth computed from the blocks A should hold; the model answers the same query
// (`BC.query`: which filter serves which window).
// ---------------------------------------------------------------------------------------------

type boundaryParams struct {
	E, K, M int
	Second  bool
}

// boundaryParamList: every (chain end, revert depth); the fork is as long as the reverted part or two
// blocks longer (quick: alternating, thorough: both).
func boundaryParamList(thorough bool) []boundaryParams {
	var out []boundaryParams
	i := 0
	for _, e := range []int{W - 2, W - 1, W, W + 1, W + 2} {
		for k := 1; k <= 5; k++ {
			if e-k+1 < W-4 {
				continue
			}
			for v := 0; v < 2; v++ {
				if !thorough && v != i%2 {
					continue
				}
				m := k
				if v == 1 {
					m = k + 2
				}
				out = append(out, boundaryParams{E: e, K: k, M: m, Second: (e+k+v)%3 == 0})
			}
			i++
		}
	}
	return out
}

// eventTx makes a transaction whose receipt carries exactly the given event (plus what GenReceipt drew).
func eventTx(g *Gen, version string, from felt.Felt, keys []felt.Felt, data uint64) (core.Transaction, *core.TransactionReceipt) {
	tx := g.G.GenTx(version)
	rc := g.G.GenReceipt(tx)
	rc.Events = append(rc.Events, &core.Event{From: &from, Keys: keys, Data: []felt.Felt{*lib.F(data)}})
	return tx, rc
}

func (p boundaryParams) name() string {
	return fmt.Sprintf("end=W%+d,revert=%d,fork=%d,second=%v", p.E-W, p.K, p.M, p.Second)
}

// buildBoundary builds the scenario named by cs.Name (the parameters are in the name, so that a replay
// does not depend on the tier's case list).
func buildBoundary(cs caseSpec, base *Base) *Scenario {
	var p boundaryParams
	var d int
	if _, err := fmt.Sscanf(cs.Name, "end=W%d,revert=%d,fork=%d,second=%t", &d, &p.K, &p.M, &p.Second); err != nil {
		return nil
	}
	p.E = W + d
	if p.E < W-4 || p.E > W+8 || p.K < 1 || p.K > p.E+1-base.Len || p.M < 0 || p.M > 16 {
		return nil
	}
	r := lib.NewRNG(cs.Seed).Fork(0xb0000 + uint64(p.E*1000+p.K*50+p.M)*4 + uint64(backendIdx(cs.NewState)))
	opt := genOptions()
	g := NewGen(r, cs.NewState, opt)
	g.BiasSys = r.Chance(1, 3)
	st := lib.NewAbsState()
	sc := &Scenario{Kind: "boundary", NewState: cs.NewState, Base: base, ObsFrom: uint64(W - 10), QueryEach: true,
		LightModel: cs.Case%4 != 0}
	cur := st
	next := func(num int, round int) *lib.BlockSpec {
		var spec *lib.BlockSpec
		if r.Chance(1, 3) {
			spec = &lib.BlockSpec{Version: baseVersion, Diff: emptyDiff(), NoTxs: true}
		} else {
			spec = g.Block(cur, uint64(num), baseVersion)
		}
		// every block around the boundary carries an event that tells the forks apart; one block in
		// four carries none at all (an empty column in the aggregated filter)
		if !r.Chance(1, 4) {
			from, keys := g.G.Addr(2), []felt.Felt{lib.EventKey(0)}
			if round > 0 {
				from, keys = g.G.Addr(2+round%2), []felt.Felt{lib.EventKey(round % 3), *lib.F(0x777)}
			}
			tx, rc := eventTx(g, baseVersion, from, keys, uint64(num))
			spec.Txs, spec.Rcs, spec.NoTxs = append(spec.Txs, tx), append(spec.Rcs, rc), false
		}
		n := cur.Clone()
		n.Apply(uint64(num), spec.Diff, spec.Classes)
		cur = n
		return spec
	}
	states := map[int]*lib.AbsState{base.Len: st}
	for num := base.Len; num <= p.E; num++ {
		sc.Main = append(sc.Main, next(num, 0))
		states[num+1] = cur
	}
	h := p.E + 1 // number of blocks
	round := 1
	addRound := func(k, m int) {
		if k > h-base.Len {
			k = h - base.Len
		}
		h -= k
		cur = states[h]
		rd := Round{Revert: k}
		for j := 0; j < m; j++ {
			rd.Fork = append(rd.Fork, next(h, round))
			h++
			states[h] = cur
		}
		sc.Rounds = append(sc.Rounds, rd)
		round++
	}
	addRound(p.K, p.M)
	if p.Second {
		k2 := 1 + r.Intn(4)
		addRound(k2, r.Intn(3))
	}
	sc.Warm = true
	sc.Restart = cs.Case%5 == 0
	sc.FailedOps = cs.Case%4 == 1
	sc.FinaliseA = cs.Case%4 == 2
	// two cases in three keep the same Blockchain instance throughout (a restart empties the window
	// cache); the others restart A at random positions, killed or gracefully
	if cs.Case%3 == 2 {
		n := 0
		for _, rd := range sc.Rounds {
			n += rd.Revert + 3
		}
		for i := 0; i < n; i++ {
			m := 0
			if r.Chance(1, 3) {
				m = 1 + r.Intn(2)
			}
			sc.RestartPlan = append(sc.RestartPlan, m)
		}
	}
	return sc
}

// ---------------------------------------------------------------------------------------------
// Ground truth for event queries: the events of the blocks the node should hold.
// ---------------------------------------------------------------------------------------------

type evQuery struct {
	Name  string
	Addrs []felt.Felt
	Keys  [][]felt.Felt
	Lo    uint64
	Hi    uint64
	Chunk uint64
}

func matchesKeys(filter [][]felt.Felt, keys []felt.Felt) bool {
	if len(keys) < len(filter) {
		return false
	}
	for i, fk := range filter {
		if len(fk) == 0 {
			continue
		}
		ok := false
		for j := range fk {
			if fk[j].Equal(&keys[i]) {
				ok = true
			}
		}
		if !ok {
			return false
		}
	}
	return true
}

// truthEvents: the answer an event query must give on a node holding exactly `chain`.
func truthEvents(chain []*lib.Bundle, q evQuery) string {
	var all []filteredEventText
	for n := q.Lo; n <= q.Hi && n < uint64(len(chain)); n++ {
		b := chain[n].Block
		for ti, rc := range b.Receipts {
			for ei, e := range rc.Events {
				if len(q.Addrs) > 0 {
					ok := false
					for i := range q.Addrs {
						if q.Addrs[i].Equal(e.From) {
							ok = true
						}
					}
					if !ok {
						continue
					}
				}
				if !matchesKeys(q.Keys, e.Keys) {
					continue
				}
				all = append(all, filteredEventText{Block: b.Number, Hash: b.Hash.String(), Tx: rc.TransactionHash.String(),
					TxIdx: uint(ti), EvIdx: uint(ei), From: e.From.String(), Keys: canon(e.Keys), Data: canon(e.Data)})
			}
		}
	}
	return "ok " + canon(all)
}

// lightQueries: the queries asked after every operation of A in a QueryEach scenario.
func lightQueries(u *Universe, g *lib.ChainGen, height uint64) []evQuery {
	var qs []evQuery
	for _, i := range []int{2, 3} {
		a := g.Addr(i)
		qs = append(qs, evQuery{Name: fmt.Sprintf("Events(from=%s,[0,h])", &a), Addrs: []felt.Felt{a}, Lo: 0, Hi: height, Chunk: 1000})
	}
	for i := 0; i < 3; i++ {
		k := lib.EventKey(i)
		qs = append(qs, evQuery{Name: fmt.Sprintf("Events(key0=%s,[0,h])", &k), Keys: [][]felt.Felt{{k}}, Lo: 0, Hi: height, Chunk: 3})
	}
	lo := uint64(0)
	if u.ObsFrom > 0 {
		lo = u.ObsFrom
	}
	if lo <= height {
		qs = append(qs, evQuery{Name: "Events(all,[obs,h],chunk=2)", Lo: lo, Hi: height, Chunk: 2})
	}
	return qs
}

func askEvents(n *Node, q evQuery) string {
	addrs := make([]felt.Address, len(q.Addrs))
	for i := range q.Addrs {
		addrs[i] = felt.Address(q.Addrs[i])
	}
	return short(eventsQuery(n.BC, addrs, q.Keys, q.Lo, q.Hi, q.Chunk))
}

const sigEventsWrong = "event-query-wrong-after-revert"

// checkEventsTruth asks the light queries on node A and compares with the ground truth; `reverted`
// says whether A has reverted a block so far (an event answer that is wrong before any revert is
// not this property's matter, but is still reported — under its own signature).
func checkEventsTruth(r *ExecResult, a *Node, u *Universe, g *lib.ChainGen, chain []*lib.Bundle, when string, reverted bool) {
	if len(chain) == 0 {
		return
	}
	h := uint64(len(chain) - 1)
	for _, q := range lightQueries(u, g, h) {
		got := askEvents(a, q)
		want := short(truthEvents(chain, q))
		r.Compared++
		r.hit("event-truth-checked")
		if got != want {
			sig := sigEventsWrong
			if !reverted {
				sig = "event-query-wrong-before-any-revert"
			}
			r.find(sig, fmt.Sprintf("%s: %s on node A (head %d) answers %s, the blocks it holds contain %s", when, q.Name, h, got, want),
				map[string]string{"query": q.Name, "got": got, "want": want, "when": when})
			return
		}
	}
}

// candidateBlooms: what the model's `query` must answer for [lo, hi] on `chain`: block=bloomid of
// every block with a non-empty events bloom.
func candidateBlooms(chain []*lib.Bundle, lo, hi uint64) string {
	var parts []string
	for n := lo; n <= hi && n < uint64(len(chain)); n++ {
		if id := bloomID(chain[n].Block.EventsBloom); id != "0" {
			parts = append(parts, fmt.Sprintf("%x=%s", n, id))
		}
	}
	return "ok [" + strings.Join(parts, ",") + "]"
}
