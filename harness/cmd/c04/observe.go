//go:build verif

package main

import (
	"fmt"
	"sort"

	"github.com/NethermindEth/juno/blockchain"
	"github.com/NethermindEth/juno/core"
	"github.com/NethermindEth/juno/core/felt"
	"github.com/NethermindEth/juno/l1/eth"
	"verif/harness/lib"
)

// Universe is every identifier a scenario ever mentioned (live or reverted): the Reader API is
// asked about all of them, so that an index entry surviving a revert is seen.
type Universe struct {
	Addrs       []felt.Felt
	Slots       []felt.Felt
	Classes     map[felt.Felt]bool
	BlockHashes map[felt.Felt]bool
	TxHashes    map[felt.Felt]bool
	MsgHashes   map[string]bool // hex of the 32-byte message hash
	MaxHeight   uint64
	ObsFrom     uint64 // identifiers of blocks below ObsFrom are not recorded
	// LightLastUpdated: ContractStorageLastUpdatedBlock only for two addresses x two slots (every call of
	// the legacy backend copies the whole memory database: long chains only)
	LightLastUpdated bool
	HashNum          map[felt.Felt]uint64
}

func NewUniverse(g *lib.ChainGen) *Universe {
	u := &Universe{Classes: map[felt.Felt]bool{}, BlockHashes: map[felt.Felt]bool{}, TxHashes: map[felt.Felt]bool{},
		MsgHashes: map[string]bool{}}
	for i := 0; i < g.NAddrs(); i++ {
		u.Addrs = append(u.Addrs, g.Addr(i))
	}
	u.Addrs = append(u.Addrs, *lib.F(0xdead)) // never used
	for i := 0; i < g.Opt.NSlots; i++ {
		u.Slots = append(u.Slots, g.Slot(i))
	}
	u.Slots = append(u.Slots, *lib.F(0xbeef))
	for i := 0; i < 4; i++ {
		u.Classes[g.ClassHash(i)] = true
	}
	u.BlockHashes[felt.Zero] = true
	u.BlockHashes[*lib.F(0x123456)] = true
	u.TxHashes[*lib.F(0x654321)] = true
	return u
}

// Add records the identifiers of a bundle.
func (u *Universe) Add(b *lib.Bundle) {
	if b.Block.Number < u.ObsFrom {
		if b.Block.Number > u.MaxHeight {
			u.MaxHeight = b.Block.Number
		}
		return
	}
	u.BlockHashes[*b.Block.Hash] = true
	if u.HashNum == nil {
		u.HashNum = map[felt.Felt]uint64{}
	}
	u.HashNum[*b.Block.Hash] = b.Block.Number
	if b.Block.Number > u.MaxHeight {
		u.MaxHeight = b.Block.Number
	}
	for _, tx := range b.Block.Transactions {
		u.TxHashes[*tx.Hash()] = true
		if l1, ok := tx.(*core.L1HandlerTransaction); ok {
			u.MsgHashes[fmt.Sprintf("%x", l1.MessageHash())] = true
		}
	}
	d := b.SU.StateDiff
	for _, c := range d.DeclaredV0Classes {
		u.Classes[*c] = true
	}
	for c := range d.DeclaredV1Classes {
		u.Classes[c] = true
	}
	for c := range d.MigratedClasses {
		u.Classes[felt.Felt(c)] = true
	}
	for c := range b.Classes {
		u.Classes[c] = true
	}
	for _, c := range d.DeployedContracts {
		u.Classes[*c] = true
	}
	for _, c := range d.ReplacedClasses {
		u.Classes[*c] = true
	}
}

func sortedFelts(m map[felt.Felt]bool) []felt.Felt {
	out := make([]felt.Felt, 0, len(m))
	for f := range m {
		out = append(out, f)
	}
	sort.Slice(out, func(i, j int) bool { return out[i].Cmp(&out[j]) < 0 })
	return out
}

// Obs is the answer of every Reader query, keyed by a canonical query text.
type Obs map[string]string

func (o Obs) put(q string, a string) { o[q] = short(a) }

// observeState asks one state reader everything about the universe.
func observeState(o Obs, tag string, st core.StateReader, u *Universe, version string, head bool) {
	for i := range u.Addrs {
		a := &u.Addrs[i]
		o.put(fmt.Sprintf("%s.ContractClassHash(%s)", tag, a), res(st.ContractClassHash(a)))
		o.put(fmt.Sprintf("%s.ContractNonce(%s)", tag, a), res(st.ContractNonce(a)))
		for j := range u.Slots {
			k := &u.Slots[j]
			o.put(fmt.Sprintf("%s.ContractStorage(%s,%s)", tag, a, k), res(st.ContractStorage(a, k)))
			if u.LightLastUpdated && (i%4 != 2 || j%3 != 2) {
				continue
			}
			o.put(fmt.Sprintf("%s.ContractStorageLastUpdatedBlock(%s,%s)", tag, a, k),
				res(st.ContractStorageLastUpdatedBlock((*felt.Address)(a), k)))
		}
	}
	for _, c := range sortedFelts(u.Classes) {
		c := c
		cls, err := st.Class(&c)
		o.put(fmt.Sprintf("%s.Class(%s)", tag, &c), res(cls, err))
		sc := felt.SierraClassHash(c)
		o.put(fmt.Sprintf("%s.CompiledClassHash(%s)", tag, &c), res(st.CompiledClassHash(&sc)))
		o.put(fmt.Sprintf("%s.CompiledClassHashV2(%s)", tag, &c), res(st.CompiledClassHashV2(&sc)))
	}
	if head {
		if s, ok := st.(interface {
			Commitment(string) (felt.Felt, error)
		}); ok {
			o.put(tag+".Commitment", res(s.Commitment(version)))
		}
		if tr, err := st.ClassTrie(); err != nil {
			o.put(tag+".ClassTrie", errClass(err))
		} else {
			o.put(tag+".ClassTrie.Hash", res(tr.Hash()))
		}
		if tr, err := st.ContractTrie(); err != nil {
			o.put(tag+".ContractTrie", errClass(err))
		} else {
			o.put(tag+".ContractTrie.Hash", res(tr.Hash()))
		}
		for i := range u.Addrs {
			a := &u.Addrs[i]
			if tr, err := st.ContractStorageTrie(a); err != nil {
				o.put(fmt.Sprintf("%s.ContractStorageTrie(%s)", tag, a), errClass(err))
			} else {
				o.put(fmt.Sprintf("%s.ContractStorageTrie(%s).Hash", tag, a), res(tr.Hash()))
			}
		}
	}
}

type filteredEventText struct {
	Block uint64
	Hash  string
	Tx    string
	TxIdx uint
	EvIdx uint
	From  string
	Keys  string
	Data  string
}

func eventsQuery(bc *blockchain.Blockchain, addrs []felt.Address, keys [][]felt.Felt, from, to uint64, chunk uint64) string {
	f, err := bc.EventFilter(addrs, keys, func() (blockchain.PreConfirmedReader, error) { return nil, nil })
	if err != nil {
		return errClass(err)
	}
	defer f.Close()
	if err := f.SetRangeEndBlockByNumber(blockchain.EventFilterFrom, from); err != nil {
		return errClass(err)
	}
	if err := f.SetRangeEndBlockByNumber(blockchain.EventFilterTo, to); err != nil {
		return errClass(err)
	}
	var all []filteredEventText
	var tok *blockchain.ContinuationToken
	for round := 0; round < 100000; round++ {
		evs, next, err := f.Events(tok, chunk)
		if err != nil {
			return errClass(err)
		}
		for _, e := range evs {
			all = append(all, filteredEventText{Block: e.BlockNumber, Hash: e.BlockHash.String(), Tx: e.TransactionHash.String(),
				TxIdx: e.TransactionIndex, EvIdx: e.EventIndex, From: e.From.String(), Keys: canon(e.Keys), Data: canon(e.Data)})
		}
		if next.IsEmpty() {
			return "ok " + canon(all)
		}
		n := next
		tok = &n
	}
	return "err:continuation-token-does-not-terminate"
}

// observeEvents runs a fixed family of event queries over [0, height].
func observeEvents(o Obs, bc *blockchain.Blockchain, u *Universe, height uint64, tag string) {
	// unfiltered queries read every block of the range: on long chains they start at ObsFrom (the filtered
	// ones, which go through the aggregated filters, always start at 0)
	lo := uint64(0)
	if u.ObsFrom > 0 && u.ObsFrom <= height {
		lo = u.ObsFrom
	}
	o.put(fmt.Sprintf("%sEvents(all,[%d,h],chunk=1000)", tag, lo), eventsQuery(bc, nil, nil, lo, height, 1000))
	o.put(fmt.Sprintf("%sEvents(all,[%d,h],chunk=2)", tag, lo), eventsQuery(bc, nil, nil, lo, height, 2))
	for i := range u.Addrs {
		a := felt.Address(u.Addrs[i])
		o.put(fmt.Sprintf("%sEvents(from=%s)", tag, &u.Addrs[i]), eventsQuery(bc, []felt.Address{a}, nil, 0, height, 1000))
	}
	for i := 0; i < 3; i++ {
		k := lib.EventKey(i)
		o.put(fmt.Sprintf("%sEvents(key0=%s)", tag, &k), eventsQuery(bc, nil, [][]felt.Felt{{k}}, 0, height, 3))
	}
	if height > 1 && lo+1 <= height-1 {
		o.put(fmt.Sprintf("%sEvents(all,[%d,h-1])", tag, lo+1), eventsQuery(bc, nil, nil, lo+1, height-1, 1000))
	}
}

// observe asks the node every Reader query about every identifier of the universe.
// stateBlocks limits the historical state reads to the given block numbers (nil = all).
func observe(bc *blockchain.Blockchain, u *Universe, stateBlocks []uint64, blockRange []uint64) Obs {
	o := Obs{}
	height, herr := bc.Height()
	o.put("Height", res(height, herr))
	o.put("Head", res(bc.Head()))
	o.put("HeadsHeader", res(bc.HeadsHeader()))
	o.put("L1Head", res(bc.L1Head()))
	o.put("GetReverseStateDiff", res(bc.GetReverseStateDiff()))
	version := ""
	if hh, err := bc.HeadsHeader(); err == nil {
		version = hh.ProtocolVersion
	}
	if blockRange == nil {
		for n := uint64(0); n <= u.MaxHeight+1; n++ {
			blockRange = append(blockRange, n)
		}
	}
	for _, n := range blockRange {
		o.put(fmt.Sprintf("BlockByNumber(%d)", n), res(bc.BlockByNumber(n)))
		o.put(fmt.Sprintf("BlockHeaderByNumber(%d)", n), res(bc.BlockHeaderByNumber(n)))
		o.put(fmt.Sprintf("BlockHeaderHashByNumber(%d)", n), res(bc.BlockHeaderHashByNumber(n)))
		o.put(fmt.Sprintf("BlockTransactionCountByNumber(%d)", n), res(bc.BlockTransactionCountByNumber(n)))
		o.put(fmt.Sprintf("TransactionsByBlockNumber(%d)", n), res(bc.TransactionsByBlockNumber(n)))
		txs, rcs, err := bc.TransactionsAndReceiptsByBlockNumber(n)
		o.put(fmt.Sprintf("TransactionsAndReceiptsByBlockNumber(%d)", n), res([]any{txs, rcs}, err))
		o.put(fmt.Sprintf("TransactionHashesByBlockNumber(%d)", n), res(bc.TransactionHashesByBlockNumber(n)))
		o.put(fmt.Sprintf("StateUpdateByNumber(%d)", n), res(bc.StateUpdateByNumber(n)))
		o.put(fmt.Sprintf("BlockCommitmentsByNumber(%d)", n), res(bc.BlockCommitmentsByNumber(n)))
		for idx := uint64(0); idx < uint64(len(txs))+1; idx++ {
			o.put(fmt.Sprintf("TransactionByBlockNumberAndIndex(%d,%d)", n, idx), res(bc.TransactionByBlockNumberAndIndex(n, idx)))
			tx, rc, bh, err := bc.TransactionAndReceiptByBlockNumberAndIndex(n, idx)
			o.put(fmt.Sprintf("TransactionAndReceiptByBlockNumberAndIndex(%d,%d)", n, idx), res([]any{tx, rc, bh}, err))
			o.put(fmt.Sprintf("TransactionExecutionStatusByBlockNumberAndIndex(%d,%d)", n, idx),
				res(bc.TransactionExecutionStatusByBlockNumberAndIndex(n, idx)))
		}
	}
	for _, h := range sortedFelts(u.BlockHashes) {
		h := h
		o.put(fmt.Sprintf("BlockByHash(%s)", &h), res(bc.BlockByHash(&h)))
		o.put(fmt.Sprintf("BlockHeaderByHash(%s)", &h), res(bc.BlockHeaderByHash(&h)))
		o.put(fmt.Sprintf("BlockNumberByHash(%s)", &h), res(bc.BlockNumberByHash(&h)))
		o.put(fmt.Sprintf("StateUpdateByHash(%s)", &h), res(bc.StateUpdateByHash(&h)))
	}
	for _, h := range sortedFelts(u.TxHashes) {
		h := h
		o.put(fmt.Sprintf("TransactionByHash(%s)", &h), res(bc.TransactionByHash(&h)))
		rc, bh, bn, err := bc.Receipt(&h)
		o.put(fmt.Sprintf("Receipt(%s)", &h), res([]any{rc, bh, bn}, err))
		bn2, idx, err := bc.BlockNumberAndIndexByTxHash((*felt.TransactionHash)(&h))
		o.put(fmt.Sprintf("BlockNumberAndIndexByTxHash(%s)", &h), res([]uint64{bn2, idx}, err))
	}
	msgs := make([]string, 0, len(u.MsgHashes))
	for m := range u.MsgHashes {
		msgs = append(msgs, m)
	}
	sort.Strings(msgs)
	for _, m := range msgs {
		var raw []byte
		fmt.Sscanf(m, "%x", &raw)
		h := eth.HashFromBytes(raw)
		o.put(fmt.Sprintf("L1HandlerTxnHash(%s)", m), res(bc.L1HandlerTxnHash(&h)))
	}
	// state
	if st, closer, err := bc.HeadState(); err != nil {
		o.put("HeadState", errClass(err))
	} else {
		observeState(o, "HeadState", st, u, version, true)
		_ = closer()
	}
	if stateBlocks == nil && u.ObsFrom == 0 {
		for n := uint64(0); n <= u.MaxHeight+1; n++ {
			stateBlocks = append(stateBlocks, n)
		}
	}
	for _, n := range stateBlocks {
		tag := fmt.Sprintf("StateAtBlockNumber(%d)", n)
		if n > height || herr != nil {
			// reading above the head is outside the Reader contract of the legacy backend
			// (it answers from the head state); only the documented range is compared
			continue
		}
		if st, closer, err := bc.StateAtBlockNumber(n); err != nil {
			o.put(tag, errClass(err))
		} else {
			observeState(o, tag, st, u, version, false)
			_ = closer()
		}
	}
	for _, h := range sortedFelts(u.BlockHashes) {
		h := h
		if n, ok := u.HashNum[h]; ok && (u.ObsFrom > 0 && n <= height || n+1 < height) {
			// historical state by hash only for the head, its parent and unknown (reverted) hashes:
			// by number every block is read
			continue
		}
		tag := fmt.Sprintf("StateAtBlockHash(%s)", &h)
		if st, closer, err := bc.StateAtBlockHash(&h); err != nil {
			o.put(tag, errClass(err))
		} else {
			observeState(o, tag, st, u, version, false)
			_ = closer()
		}
	}
	if herr == nil {
		observeEvents(o, bc, u, height, "")
	} else {
		o.put("EventFilter", res(bc.EventFilter(nil, nil, nil)))
	}
	return o
}

type obsDiff struct {
	Query string `json:"query"`
	A     string `json:"a"`
	B     string `json:"b"`
}

func diffObs(a, b Obs) []obsDiff {
	var out []obsDiff
	for q, va := range a {
		vb, ok := b[q]
		if !ok {
			out = append(out, obsDiff{q, va, "<not asked>"})
		} else if va != vb {
			out = append(out, obsDiff{q, va, vb})
		}
	}
	for q, vb := range b {
		if _, ok := a[q]; !ok {
			out = append(out, obsDiff{q, "<not asked>", vb})
		}
	}
	sort.Slice(out, func(i, j int) bool { return out[i].Query < out[j].Query })
	return out
}
