//go:build verif

package main

import (
	"crypto/sha256"
	"encoding/binary"
	"encoding/hex"
	"errors"
	"fmt"
	"math/big"
	"os"
	"regexp"
	"sort"
	"strings"

	"github.com/NethermindEth/juno/core"
	"github.com/NethermindEth/juno/core/felt"
	"github.com/NethermindEth/juno/db"
	"github.com/NethermindEth/juno/encoder"
	"github.com/bits-and-blooms/bloom/v3"
	"verif/harness/lib"
)

// ---------------------------------------------------------------------------------------------
// Correspondence with the Lean model: every store / revert of a scenario is also sent to the
// model driver; the outcome of each operation, the equality pattern of the state roots and, at
// checkpoints, the decoded content of every bucket family of the real database are compared
// with the model's.
// ---------------------------------------------------------------------------------------------

type traceStep struct {
	line   string
	expect string // "" = not compared
	what   string
}

type Trace struct {
	newState bool
	steps    []traceStep
	rootIDs  map[string]int
	pairs    map[[2]string]bool // (addr, slot) pairs ever written
	nrev     int
	bulked   bool
}

// lastRevert names the last recorded revert step (key into the model's answers).
func (t *Trace) lastRevert() string {
	if t == nil {
		return ""
	}
	return fmt.Sprintf("revert #%d on A", t.nrev)
}

func newTrace(newState bool) *Trace {
	return &Trace{newState: newState, rootIDs: map[string]int{}, pairs: map[[2]string]bool{}}
}

func hexNat(f *felt.Felt) string {
	if f == nil {
		return "0"
	}
	var b big.Int
	f.BigInt(&b)
	return b.Text(16)
}

func hexBytesNat(b []byte) string {
	return new(big.Int).SetBytes(b).Text(16)
}

func verClass(v string) int {
	switch {
	case v >= "0.15.0": // above core.LatestVer (0.14.1): CheckBlockVersion refuses it
		return 3
	case v >= "0.14.1":
		return 2
	case v >= "0.14.0":
		return 1
	default:
		return 0
	}
}

// bloomID: 0 for a filter without set bits, else a 48-bit digest of the set-bit indices.
func bloomIDOfIndices(idx []uint) string {
	if len(idx) == 0 {
		return "0"
	}
	sort.Slice(idx, func(i, j int) bool { return idx[i] < idx[j] })
	h := sha256.New()
	for _, i := range idx {
		var b [4]byte
		binary.BigEndian.PutUint32(b[:], uint32(i))
		h.Write(b[:])
	}
	s := h.Sum(nil)
	out := hexBytesNat(s[:6])
	if out == "0" {
		out = "1"
	}
	return out
}

func bloomID(f *bloom.BloomFilter) string {
	if f == nil {
		return "0"
	}
	bs := f.BitSet()
	idx := make([]uint, bs.Count())
	bs.NextSetMany(0, idx)
	return bloomIDOfIndices(idx)
}

func (t *Trace) rootID(r *felt.Felt) string {
	k := r.String()
	id, ok := t.rootIDs[k]
	if !ok {
		id = len(t.rootIDs)
		t.rootIDs[k] = id
	}
	return fmt.Sprintf("%x", id)
}

func (t *Trace) add(line, expect, what string) {
	t.steps = append(t.steps, traceStep{line, expect, what})
}

func (t *Trace) newNode(name string) {
	if t == nil {
		return
	}
	t.add("new "+name, "ok", "new node")
}

// bulkNode: a node opened on a copy of the base image (the model builds the same chain in closed form).
func (t *Trace) bulkNode(name string, b *Base) {
	if t == nil {
		return
	}
	if !t.bulked {
		// the closed form is computed once per trace; every node on the image is a copy of it
		t.add("bulk base-image "+b.bulk, "ok", "the base image")
		t.bulked = true
	}
	t.add("copy base-image "+name, "ok", "new node on the base image")
}

// restart records an in-place restart of a node (graceful: WriteRunningEventFilter first). With
// dumpRunning the running filter is read back at once on both sides: the real node initialises its lazy
// filter from the database (InitializeRunningEventFilter), the model runs `initFilter`.
func (t *Trace) restart(n *Node, graceful, dumpRunning bool) {
	if t == nil {
		return
	}
	name := modelName(n)
	if graceful {
		t.add("shutdown "+name, "ok", "graceful shutdown of "+name)
	}
	t.add("kill "+name, "ok", "restart of "+name)
	if dumpRunning {
		real, err := t.realFamily(n, "running", 0)
		if err != nil {
			real = "harness-error:" + err.Error()
		}
		t.add("dump "+name+" running", real, "family running after a restart of "+name)
	}
}

// query records an event query over [lo, hi] on a node: `want` is the candidate list computed from
// the blocks the node should hold.
func (t *Trace) query(n *Node, lo, hi uint64, want string) {
	if t == nil {
		return
	}
	t.add(fmt.Sprintf("query %s %x %x", modelName(n), lo, hi), want, fmt.Sprintf("event query candidates on %s", modelName(n)))
}

func sortedKeys[V any](m map[felt.Felt]V) []felt.Felt {
	out := make([]felt.Felt, 0, len(m))
	for k := range m {
		out = append(out, k)
	}
	sort.Slice(out, func(i, j int) bool { return out[i].Cmp(&out[j]) < 0 })
	return out
}

func blockLine(b *lib.Bundle) string {
	var sb strings.Builder
	h := b.Block.Header
	fmt.Fprintf(&sb, "n=%x h=%s p=%s v=%d bl=%s pay=0", h.Number, hexNat(h.Hash), hexNat(h.ParentHash), verClass(h.ProtocolVersion), bloomID(h.EventsBloom))
	for _, tx := range b.Block.Transactions {
		msg := "-"
		if l1, ok := tx.(*core.L1HandlerTransaction); ok {
			msg = hexBytesNat(l1.MessageHash())
		}
		fmt.Fprintf(&sb, " tx=%s:%s", hexNat(tx.Hash()), msg)
	}
	d := b.SU.StateDiff
	for _, a := range sortedKeys(d.DeployedContracts) {
		fmt.Fprintf(&sb, " dep=%s:%s", hexNat(&a), hexNat(d.DeployedContracts[a]))
	}
	for _, a := range sortedKeys(d.ReplacedClasses) {
		fmt.Fprintf(&sb, " rep=%s:%s", hexNat(&a), hexNat(d.ReplacedClasses[a]))
	}
	for _, a := range sortedKeys(d.Nonces) {
		fmt.Fprintf(&sb, " non=%s:%s", hexNat(&a), hexNat(d.Nonces[a]))
	}
	for _, a := range sortedKeys(d.StorageDiffs) {
		for _, k := range sortedKeys(d.StorageDiffs[a]) {
			fmt.Fprintf(&sb, " sto=%s:%s:%s", hexNat(&a), hexNat(&k), hexNat(d.StorageDiffs[a][k]))
		}
	}
	for _, c := range d.DeclaredV0Classes {
		fmt.Fprintf(&sb, " d0=%s", hexNat(c))
	}
	for _, c := range sortedKeys(d.DeclaredV1Classes) {
		fmt.Fprintf(&sb, " d1=%s:%s", hexNat(&c), hexNat(d.DeclaredV1Classes[c]))
	}
	mig := map[felt.Felt]felt.Felt{}
	for c, h := range d.MigratedClasses {
		mig[felt.Felt(c)] = felt.Felt(h)
	}
	for _, c := range sortedKeys(mig) {
		hh := mig[c]
		fmt.Fprintf(&sb, " mig=%s:%s", hexNat(&c), hexNat(&hh))
	}
	for _, c := range sortedKeys(b.Classes) {
		switch def := b.Classes[c].(type) {
		case *core.SierraClass:
			if def.Compiled == nil {
				// delivered without a compiled class (deprecated compiled format): no V2 hash can be computed
				fmt.Fprintf(&sb, " cls=%s:n:0", hexNat(&c))
				break
			}
			v2 := def.Compiled.Hash(core.HashVersionV2)
			fmt.Fprintf(&sb, " cls=%s:s:%s", hexNat(&c), hexNat(&v2))
		default:
			fmt.Fprintf(&sb, " cls=%s:c:0", hexNat(&c))
		}
	}
	return sb.String()
}

// modelErrClass maps an error of the real Store / RevertHead to the model's error enum (root
// verifications are one class: juno prints the same text for the old-root and the new-root check).
func modelErrClass(err error) string {
	if err == nil {
		return "ok"
	}
	m := err.Error()
	has := func(sub string) bool { return strings.Contains(m, sub) }
	switch {
	case has("panic:"):
		return "panic"
	case has("unsupported block version"):
		return "err:version"
	case has("expected block #"):
		return "err:blockNumber"
	case has("parent hash does not match"):
		return "err:parentHash"
	case has("check head state"):
		return "err:checkHeadState"
	case has("contract already deployed"):
		return "err:contractExists"
	case has("state commitment mismatch"), has("does not match the expected root"):
		return "err:root"
	case has("cannot migrate"), has("metadata not found"), has("not available in newClasses"), has("must be a SierraClass"), has("malformed compiled class"),
		has("unmigrate"), has("casm metadata"), has("revert migrated"):
		return "err:casm"
	case has("get class"), has("remove declared classes"), has("remove classes of deployed contracts"):
		return "err:classMissing"
	case has("contract not deployed"), has("purge contract"):
		return "err:contractMissing"
	case has("block number is not within range"):
		return "err:filterRange"
	case has("key not found"):
		return "err:notFound"
	}
	return "err:unmapped:" + errClass(err)
}

// normModel folds the model's finer error names into the classes modelErrClass can tell apart.
func normModel(ans string) string {
	switch ans {
	case "err:rootOld", "err:rootNew", "err:revRootOld", "err:revRootNew":
		return "err:root"
	case "err:noHead":
		return "err:notFound"
	}
	if strings.HasPrefix(ans, "ok") {
		return ans
	}
	return ans
}

func (t *Trace) store(n *Node, b *lib.Bundle, spec *lib.BlockSpec, err error) {
	if t == nil {
		return
	}
	for a, kv := range b.SU.StateDiff.StorageDiffs {
		for k := range kv {
			a, k := a, k
			t.pairs[[2]string{a.String(), k.String()}] = true
		}
	}
	name := modelName(n)
	expect := ""
	if err == nil {
		expect = "ok " + t.rootID(b.Block.GlobalStateRoot)
	} else {
		expect = t.storeErrClass(err)
	}
	t.add("store "+name+" "+blockLine(b), expect, fmt.Sprintf("store block %d on %s", b.Block.Number, name))
}

// storeWrongRoot records the failing operation "Store of the block with a wrong new state root".
func (t *Trace) storeWrongRoot(n *Node, b *lib.Bundle, err error) {
	if t == nil {
		return
	}
	t.add("storewrongroot "+modelName(n)+" "+blockLine(b), t.storeErrClass(err), fmt.Sprintf("store block %d with a wrong state root on %s", b.Block.Number, modelName(n)))
}

// storeRefused records a block that juno's own Finalise refused on the source node (the model is
// asked to store the same content on the node A it would have been offered to).
func (t *Trace) storeRefused(n *Node, number uint64, parent *felt.Felt, spec *lib.BlockSpec, err error) {
	if t == nil {
		return
	}
	b := &lib.Bundle{Block: &core.Block{Header: &core.Header{Number: number, Hash: lib.F(0xdead0000 + number), ParentHash: parent,
		ProtocolVersion: spec.Version}, Transactions: spec.Txs}, SU: &core.StateUpdate{StateDiff: spec.Diff}, Classes: spec.Classes}
	t.add("store "+modelName(n)+" "+blockLine(b), t.storeErrClass(err), fmt.Sprintf("store refused block %d on %s", number, modelName(n)))
}

// storeErrClass: the new backend's State.Update returns the contract lookup's db.ErrKeyNotFound
// unwrapped (core/state/accessors.go: "TODO: return more precise error (e.g. ErrContractNotDeployed)");
// every other lookup of Store wraps its error or tolerates a missing key, so on the new backend a bare
// key-not-found from Store is the missing contract.
func (t *Trace) storeErrClass(err error) string {
	cls := modelErrClass(err)
	if cls == "err:notFound" && t.newState {
		return "err:contractMissing"
	}
	return cls
}

func (t *Trace) revert(n *Node, err error) {
	if t == nil {
		return
	}
	t.nrev++
	cls := modelErrClass(err)
	if _, herr := n.BC.Height(); cls == "err:notFound" && t.newState && herr == nil {
		// state.Revert returns the class lookup's db.ErrKeyNotFound unwrapped (every other lookup of
		// RevertHead on a node with a head wraps its error: "get reverse state diff", "get casm
		// metadata", ...), so on the new backend a bare key-not-found below a head is the class lookup
		cls = "err:classMissing"
	}
	t.add("revert "+modelName(n), cls, fmt.Sprintf("revert #%d on %s", t.nrev, modelName(n)))
}

func modelName(n *Node) string { return n.Name }

var families = []string{"height", "headers", "numByHash", "blockTxs", "txLoc", "l1msg", "sus", "commitments", "casm",
	"persisted", "snapshot", "running", "contracts", "storage", "classes", "hStorage", "hNonce", "hClass"}

// checkpoint compares every bucket family of the real node with the model's. Scenarios on the base
// image compare the block-keyed families from u.ObsFrom on (the base itself is compared once, `full`).
func (t *Trace) checkpoint(n *Node, u *Universe, withRunning, full bool) {
	if t == nil {
		return
	}
	lo := u.ObsFrom
	if full {
		lo = 0
	}
	for _, fam := range families {
		if fam == "running" && !withRunning {
			// serialising the in-memory filter costs 8 MB of copying; done at the last checkpoint only
			continue
		}
		real, err := t.realFamily(n, fam, lo)
		if err != nil {
			real = "harness-error:" + err.Error()
		}
		if lo > 0 {
			t.add(fmt.Sprintf("dumpfrom %s %s %x", modelName(n), fam, lo), real, "family "+fam+" of "+modelName(n))
		} else {
			t.add("dump "+modelName(n)+" "+fam, real, "family "+fam+" of "+modelName(n))
		}
	}
}

// checkpointOp: the cheap families after a single operation (everything but the two that hold 8 MB
// aggregated filters), so that a wrong intermediate state is seen at the operation that produced it.
func (t *Trace) checkpointOp(n *Node, u *Universe) {
	if t == nil {
		return
	}
	lo := u.ObsFrom
	for _, fam := range families {
		if fam == "running" || fam == "persisted" {
			continue
		}
		real, err := t.realFamily(n, fam, lo)
		if err != nil {
			real = "harness-error:" + err.Error()
		}
		if lo > 0 {
			t.add(fmt.Sprintf("dumpfrom %s %s %x", modelName(n), fam, lo), real, "family "+fam+" of "+modelName(n)+" after an operation")
		} else {
			t.add("dump "+modelName(n)+" "+fam, real, "family "+fam+" of "+modelName(n)+" after an operation")
		}
	}
}

func joinOrDash(xs []string) string {
	if len(xs) == 0 {
		return "-"
	}
	return strings.Join(xs, " ")
}

func natOfBytes8(b []byte) string { return fmt.Sprintf("%x", binary.BigEndian.Uint64(b)) }

// forEach iterates one bucket in key order.
func forEach(n *Node, bucket db.Bucket, f func(key, val []byte) error) error {
	it, err := n.DB.NewIterator(bucket.Key(), true)
	if err != nil {
		return err
	}
	defer it.Close()
	for ok := it.First(); ok; ok = it.Next() {
		k := append([]byte{}, it.Key()...)
		v, err := it.Value()
		if err != nil {
			return err
		}
		if err := f(k[1:], v); err != nil {
			return err
		}
	}
	return nil
}

// sortByNat sorts "hexnat:..." entries numerically by the leading fields (the model's order).
func sortEntries(xs []string, nkeys int) {
	key := func(s string) []*big.Int {
		parts := strings.Split(s, ":")
		out := make([]*big.Int, 0, nkeys)
		for i := 0; i < nkeys && i < len(parts); i++ {
			v, _ := new(big.Int).SetString(parts[i], 16)
			if v == nil {
				v = new(big.Int)
			}
			out = append(out, v)
		}
		return out
	}
	sort.SliceStable(xs, func(i, j int) bool {
		a, b := key(xs[i]), key(xs[j])
		for x := range a {
			if c := a[x].Cmp(b[x]); c != 0 {
				return c < 0
			}
		}
		return false
	})
}

// filterColumns decodes a marshalled AggregatedBloomFilter into "[block=bloomid,...]".
func filterColumns(raw []byte) (from uint64, text string, err error) {
	const header = 20
	if len(raw) < header {
		return 0, "", fmt.Errorf("short filter")
	}
	from = binary.BigEndian.Uint64(raw[0:8])
	count := int(binary.BigEndian.Uint32(raw[16:20]))
	cols := map[uint64][]uint{}
	off := header
	for row := 0; row < count; row++ {
		if off+4 > len(raw) {
			return 0, "", fmt.Errorf("truncated filter")
		}
		l := int(binary.BigEndian.Uint32(raw[off:]))
		off += 4
		words := raw[off+8 : off+l]
		for w := 0; w+8 <= len(words); w += 8 {
			x := binary.BigEndian.Uint64(words[w:])
			for x != 0 {
				bit := uint64(0)
				for x&(1<<bit) == 0 {
					bit++
				}
				x &^= 1 << bit
				col := uint64(w/8)*64 + bit
				cols[col] = append(cols[col], uint(row))
			}
		}
		off += l
	}
	keys := make([]uint64, 0, len(cols))
	for c := range cols {
		keys = append(keys, c)
	}
	sort.Slice(keys, func(i, j int) bool { return keys[i] < keys[j] })
	var parts []string
	for _, c := range keys {
		parts = append(parts, fmt.Sprintf("%x=%s", from+c, bloomIDOfIndices(cols[c])))
	}
	return from, "[" + strings.Join(parts, ",") + "]", nil
}

// filterText renders a running filter / snapshot the way the model dumps it.
func filterText(rf *core.RunningEventFilter) (string, error) {
	inner, err := rf.InnerFilter()
	if err != nil {
		return "", err
	}
	next, _ := rf.NextBlock()
	raw, err := inner.MarshalBinary()
	if err != nil {
		return "", err
	}
	from, text, err := filterColumns(raw)
	if err != nil {
		return "", err
	}
	return fmt.Sprintf("%x:%x:%s", from, next, text), nil
}

// realFamily: lo > 0 keeps only the entries of blocks >= lo in the block-keyed families.
func (t *Trace) realFamily(n *Node, fam string, lo uint64) (string, error) {
	var out []string
	switch fam {
	case "height":
		h, err := core.GetChainHeight(n.DB)
		if err != nil {
			return "none", nil
		}
		return fmt.Sprintf("%x", h), nil
	case "headers":
		err := forEach(n, db.BlockHeadersByNumber, func(k, v []byte) error {
			var h *core.Header
			if err := encoder.Unmarshal(v, &h); err != nil {
				return err
			}
			if binary.BigEndian.Uint64(k) < lo {
				return nil
			}
			out = append(out, fmt.Sprintf("%s:%s:%s:%x:%s:%s", natOfBytes8(k), hexNat(h.Hash), hexNat(h.ParentHash),
				verClass(h.ProtocolVersion), bloomID(h.EventsBloom), t.rootID(h.GlobalStateRoot)))
			return nil
		})
		return joinOrDash(out), err
	case "numByHash":
		err := forEach(n, db.BlockHeaderNumbersByHash, func(k, v []byte) error {
			if binary.BigEndian.Uint64(v) < lo {
				return nil
			}
			out = append(out, hexBytesNat(k)+":"+natOfBytes8(v))
			return nil
		})
		sortEntries(out, 1)
		return joinOrDash(out), err
	case "blockTxs":
		err := forEach(n, db.BlockTransactions, func(k, v []byte) error {
			var num uint64
			if err := encoder.Unmarshal(k, &num); err != nil {
				return err
			}
			if num < lo {
				return nil
			}
			txs, err := core.GetTransactionsByBlockNumber(n.DB, num)
			if err != nil {
				return err
			}
			var hs []string
			for _, tx := range txs {
				hs = append(hs, hexNat(tx.Hash()))
			}
			out = append(out, fmt.Sprintf("%x:%s", num, strings.Join(hs, ",")))
			return nil
		})
		sortEntries(out, 1)
		return joinOrDash(out), err
	case "txLoc":
		err := forEach(n, db.TransactionBlockNumbersAndIndicesByHash, func(k, v []byte) error {
			if binary.BigEndian.Uint64(v[0:8]) < lo {
				return nil
			}
			out = append(out, hexBytesNat(k)+":"+natOfBytes8(v[0:8])+":"+natOfBytes8(v[8:16]))
			return nil
		})
		sortEntries(out, 1)
		return joinOrDash(out), err
	case "l1msg":
		err := forEach(n, db.L1HandlerTxnHashByMsgHash, func(k, v []byte) error {
			out = append(out, hexBytesNat(k)+":"+hexBytesNat(v))
			return nil
		})
		sortEntries(out, 1)
		return joinOrDash(out), err
	case "sus":
		err := forEach(n, db.StateUpdatesByBlockNumber, func(k, v []byte) error {
			if binary.BigEndian.Uint64(k) < lo {
				return nil
			}
			out = append(out, natOfBytes8(k))
			return nil
		})
		return joinOrDash(out), err
	case "commitments":
		err := forEach(n, db.BlockCommitments, func(k, v []byte) error {
			if binary.BigEndian.Uint64(k) < lo {
				return nil
			}
			out = append(out, natOfBytes8(k))
			return nil
		})
		return joinOrDash(out), err
	case "casm":
		err := forEach(n, db.ClassCasmHashMetadata, func(k, v []byte) error {
			if len(v) < 42 {
				return fmt.Errorf("short casm metadata")
			}
			decl := natOfBytes8(v[0:8])
			v2 := hexBytesNat(v[8:40])
			off := 40
			mig := "0"
			if v[off] == 1 {
				mig = natOfBytes8(v[off+1 : off+9])
				off += 9
			} else {
				off++
			}
			v1 := "-"
			if v[off] == 1 {
				v1 = hexBytesNat(v[off+1 : off+33])
			}
			out = append(out, fmt.Sprintf("%s:%s:%s:%s:%s", hexBytesNat(k), decl, v2, mig, v1))
			return nil
		})
		sortEntries(out, 1)
		return joinOrDash(out), err
	case "persisted":
		err := forEach(n, db.AggregatedBloomFilters, func(k, v []byte) error {
			from, to := binary.BigEndian.Uint64(k[0:8]), binary.BigEndian.Uint64(k[8:16])
			f, err := core.GetAggregatedBloomFilter(n.DB, from, to)
			if err != nil {
				return err
			}
			raw, err := f.MarshalBinary()
			if err != nil {
				return err
			}
			_, text, err := filterColumns(raw)
			if err != nil {
				return err
			}
			out = append(out, fmt.Sprintf("%x:%s", from, text))
			return nil
		})
		return joinOrDash(out), err
	case "snapshot":
		// bucket db.RunningEventFilter: written by a graceful shutdown, deleted by every RevertHead
		rf, err := core.GetRunningEventFilter(n.DB)
		if err != nil {
			if errors.Is(err, db.ErrKeyNotFound) {
				return "none", nil
			}
			return "", err
		}
		return filterText(rf)
	case "running":
		// the in-memory filter is reachable only through its snapshot: write it, read it, and put
		// back whatever snapshot the database held before
		var prev []byte
		hadPrev := n.DB.Get(db.RunningEventFilter.Key(), func(v []byte) error { prev = append([]byte{}, v...); return nil }) == nil
		if err := n.BC.WriteRunningEventFilter(); err != nil {
			return "", err
		}
		rf, err := core.GetRunningEventFilter(n.DB)
		if err != nil {
			return "", err
		}
		if hadPrev {
			_ = n.DB.Put(db.RunningEventFilter.Key(), prev)
		} else {
			_ = n.DB.Delete(db.RunningEventFilter.Key())
		}
		return filterText(rf)
	case "contracts":
		if t.newState {
			err := forEach(n, db.Contract, func(k, v []byte) error {
				if len(v) != 72 && len(v) != 104 {
					return fmt.Errorf("contract record of %d bytes", len(v))
				}
				out = append(out, fmt.Sprintf("%s:%s:%s:%s", hexBytesNat(k), hexBytesNat(v[0:32]), hexBytesNat(v[32:64]), natOfBytes8(v[len(v)-8:])))
				return nil
			})
			sortEntries(out, 1)
			return joinOrDash(out), err
		}
		type rec struct{ nonce, class, height string }
		recs := map[string]*rec{}
		get := func(k []byte) *rec {
			a := hexBytesNat(k)
			if recs[a] == nil {
				recs[a] = &rec{"?", "?", "?"}
			}
			return recs[a]
		}
		if err := forEach(n, db.ContractClassHash, func(k, v []byte) error { get(k).class = hexBytesNat(v); return nil }); err != nil {
			return "", err
		}
		if err := forEach(n, db.ContractNonce, func(k, v []byte) error { get(k).nonce = hexBytesNat(v); return nil }); err != nil {
			return "", err
		}
		if err := forEach(n, db.ContractDeploymentHeight, func(k, v []byte) error { get(k).height = natOfBytes8(v); return nil }); err != nil {
			return "", err
		}
		for a, r := range recs {
			out = append(out, fmt.Sprintf("%s:%s:%s:%s", a, r.nonce, r.class, r.height))
		}
		sortEntries(out, 1)
		return joinOrDash(out), nil
	case "storage":
		// logical storage content: read every (address, slot) ever written through the storage trie
		st, closer, err := n.BC.HeadState()
		if err != nil {
			return "-", nil
		}
		defer closer()
		tries := map[string]core.TrieReader{}
		for p := range t.pairs {
			a, _ := new(felt.Felt).SetString(p[0])
			k, _ := new(felt.Felt).SetString(p[1])
			tr, ok := tries[p[0]]
			if !ok {
				tr, err = st.ContractStorageTrie(a)
				if err != nil {
					return "", err
				}
				tries[p[0]] = tr
			}
			v, err := tr.Get(k)
			if err != nil {
				return "", err
			}
			if !v.IsZero() {
				out = append(out, fmt.Sprintf("%s:%s:%s", hexNat(a), hexNat(k), hexNat(&v)))
			}
		}
		sortEntries(out, 2)
		return joinOrDash(out), nil
	case "classes":
		err := forEach(n, db.Class, func(k, v []byte) error {
			h := felt.FromBytes[felt.Felt](k)
			c, err := core.GetClass(n.DB, &h)
			if err != nil {
				return err
			}
			kind := "c"
			if _, ok := c.Class.(*core.SierraClass); ok {
				kind = "s"
			}
			out = append(out, fmt.Sprintf("%s:%x:%s", hexBytesNat(k), c.At, kind))
			return nil
		})
		sortEntries(out, 1)
		return joinOrDash(out), err
	case "hStorage":
		b := db.DeprecatedContractStorageHistory
		if t.newState {
			b = db.ContractStorageHistory
		}
		err := forEach(n, b, func(k, v []byte) error {
			out = append(out, fmt.Sprintf("%s:%s:%s:%s", hexBytesNat(k[0:32]), hexBytesNat(k[32:64]), natOfBytes8(k[64:72]), hexBytesNat(v)))
			return nil
		})
		sortEntries(out, 3)
		return joinOrDash(out), err
	case "hNonce", "hClass":
		var b db.Bucket
		switch {
		case fam == "hNonce" && t.newState:
			b = db.ContractNonceHistory
		case fam == "hNonce":
			b = db.DeprecatedContractNonceHistory
		case t.newState:
			b = db.ContractClassHashHistory
		default:
			b = db.DeprecatedContractClassHashHistory
		}
		err := forEach(n, b, func(k, v []byte) error {
			out = append(out, fmt.Sprintf("%s:%s:%s", hexBytesNat(k[0:32]), natOfBytes8(k[32:40]), hexBytesNat(v)))
			return nil
		})
		sortEntries(out, 2)
		return joinOrDash(out), err
	}
	return "", fmt.Errorf("unknown family %s", fam)
}

// runModel sends the trace to the driver and reports disagreements.
func (t *Trace) runModel(drv *lib.Driver, cfgLine string, res *lib.Result, ctx any) (compared int, answers map[string]string, err error) {
	answers = map[string]string{}
	lines := []string{cfgLine}
	for _, s := range t.steps {
		lines = append(lines, s.line)
	}
	if pth := os.Getenv("C04_DUMPTRACE"); pth != "" { // developer aid: the driver input of the last case
		_ = os.WriteFile(pth, []byte(strings.Join(lines, "\n")+"\n"), 0o644)
	}
	outs, err := drv.AskAll(lines)
	if err != nil {
		return 0, answers, err
	}
	if outs[0] != "ok" {
		return 0, answers, fmt.Errorf("driver rejected %q: %s", cfgLine, outs[0])
	}
	for i, s := range t.steps {
		got := outs[i+1]
		answers[s.what] = got
		if got == "bad-op" {
			return compared, answers, fmt.Errorf("driver answered bad-op to %q", s.line)
		}
		if s.expect == "" {
			continue
		}
		compared++
		ok := normModel(got) == s.expect
		if !ok {
			// history up to the disagreeing step (operations only)
			var hist []string
			for _, p := range t.steps[:i+1] {
				if !strings.HasPrefix(p.line, "dump ") {
					hist = append(hist, p.line)
				}
			}
			if len(hist) > 40 {
				hist = hist[len(hist)-40:]
			}
			res.Mismatch(lib.Mismatch{Sig: "model-differs:" + reDigits.ReplaceAllString(strings.SplitN(s.what, " of ", 2)[0], "#N"), Input: map[string]any{"case": ctx, "step": s.what, "ops": hist},
				Model: short(got), Impl: short(s.expect)})
			return compared, answers, nil // later steps depend on this one
		}
	}
	return compared, answers, nil
}

var reDigits = regexp.MustCompile(`#[0-9]+`)

var _ = hex.EncodeToString
