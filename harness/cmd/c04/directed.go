//go:build verif

package main

import (
	"github.com/NethermindEth/juno/core"
	"github.com/NethermindEth/juno/core/felt"
	"verif/harness/lib"
)

// diffB builds state diffs for directed scenarios.
type diffB struct{ d *core.StateDiff }

func D() *diffB { return &diffB{d: emptyDiff()} }

func (b *diffB) Deploy(addr, class uint64) *diffB {
	b.d.DeployedContracts[*lib.F(addr)] = lib.F(class)
	return b
}

func (b *diffB) Replace(addr, class uint64) *diffB {
	b.d.ReplacedClasses[*lib.F(addr)] = lib.F(class)
	return b
}

func (b *diffB) Nonce(addr, n uint64) *diffB {
	b.d.Nonces[*lib.F(addr)] = lib.F(n)
	return b
}

func (b *diffB) Set(addr, slot, val uint64) *diffB {
	a := *lib.F(addr)
	if b.d.StorageDiffs[a] == nil {
		b.d.StorageDiffs[a] = map[felt.Felt]*felt.Felt{}
	}
	b.d.StorageDiffs[a][*lib.F(slot)] = lib.F(val)
	return b
}

func (b *diffB) Spec(version string) *lib.BlockSpec {
	return &lib.BlockSpec{Version: version, Diff: b.d, NoTxs: true}
}

func specs(version string, ds ...*diffB) []*lib.BlockSpec {
	var out []*lib.BlockSpec
	for _, d := range ds {
		out = append(out, d.Spec(version))
	}
	return out
}
