//go:build verif

package main

import (
	"fmt"
	"sort"

	"github.com/NethermindEth/juno/blockchain"
	"github.com/NethermindEth/juno/core"
	"github.com/NethermindEth/juno/core/felt"
	"github.com/NethermindEth/juno/db/memory"
	"verif/harness/lib"
)

// ---------------------------------------------------------------------------------------------
// A scenario is data: explicit block specs for a main chain and for each fork, plus how many
// blocks are reverted before each fork. Generation (from the case RNG and the abstract state)
// and execution (on real nodes) are separate, so that a failing scenario can be shrunk by
// editing the specs and executing again.
// ---------------------------------------------------------------------------------------------

type Round struct {
	Revert int
	Fork   []*lib.BlockSpec
	// Refused (round 6): a block offered to node A right after the reverts of the round that Store must
	// refuse (it repeats a deployment / migration of the surviving chain, or touches a contract that is not
	// there; repeat.go). If the tree under test stores it, it is reverted at once and A must equal B.
	Refused     *lib.BlockSpec
	RefusedKind string
}

type Scenario struct {
	Kind     string
	NewState bool
	Main     []*lib.BlockSpec
	Rounds   []Round
	ObsFrom  uint64 // only blocks >= ObsFrom are queried (0 = all)
	// RestartPlan: one entry per restart position of node A, consumed in order (positions: before
	// every RevertHead, before the first Store of every fork, before every comparison). 0 = keep the
	// Blockchain instance, 1 = new Blockchain on the same database (process killed), 2 = write the
	// running-filter snapshot first (graceful shutdown), then new Blockchain. Past its end,
	// RestartMode is used for the first RevertHead of a round and the first fork Store (rotated).
	RestartPlan []int
	RestartMode int
	// FailedOps: before the first Store of every fork (and before the first RevertHead of every
	// round) node A is first given an operation that must fail inside the batch — a copy of the
	// block whose state root is wrong, a Store of a block that does not extend the head — and then
	// the real one; B never sees the failing operations.
	FailedOps     bool
	SmallUniverse bool // state queries over {0x1, 0x2, 0x104, unused} x {slot 3, unused} only
	LightModel    bool // skip the (8 MB) running-filter family in the model comparison
	Warm          bool // ask event queries on node A before each revert (fills the filter cache)
	Restart       bool // after each round also compare restarted copies of A and B
	// Base: the chain starts on a prebuilt image of Base.Len empty blocks (boundary.go); Main are the blocks above it
	Base *Base
	// QueryEach: after every operation of node A event queries are asked on A (same Blockchain instance
	// unless the restart plan says otherwise) and compared with the ground truth and with the model
	QueryEach bool
	// FinaliseA: node A produces every second block itself (Blockchain.Finalise, the sequencer's path) instead
	// of receiving it through Store; B always uses Store
	FinaliseA bool
	// FullBaseDump: the first checkpoint compares the model with the WHOLE database (ties the closed-form base)
	FullBaseDump bool
	Seed         uint64
	Case         int
	Name         string
}

var versions = []string{"0.13.2", "0.13.4", "0.14.0", "0.14.1"}

func emptyDiff() *core.StateDiff {
	return &core.StateDiff{
		StorageDiffs:      map[felt.Felt]map[felt.Felt]*felt.Felt{},
		Nonces:            map[felt.Felt]*felt.Felt{},
		DeployedContracts: map[felt.Felt]*felt.Felt{},
		DeclaredV0Classes: []*felt.Felt{},
		DeclaredV1Classes: map[felt.Felt]*felt.Felt{},
		ReplacedClasses:   map[felt.Felt]*felt.Felt{},
		MigratedClasses:   map[felt.SierraClassHash]felt.CasmClassHash{},
	}
}

// Gen generates block specs. It owns a master ChainGen used only as a content generator
// (GenDiff / GenTx / GenReceipt: one transaction sequence, so transaction hashes are unique
// over all forks of a scenario); blocks are finalised on separate source nodes (Line).
type Gen struct {
	R       *lib.RNG
	G       *lib.ChainGen
	cairo0  map[felt.Felt]core.ClassDefinition // definitions seen so far (for re-declarations)
	BiasSys bool
	// ImplicitClasses: supply class definitions for deployed contracts' undeclared classes
	ImplicitClasses bool
	// Repeats: rounds carry a block that Store must refuse (repeat.go)
	Repeats bool
}

func myCairo0(i uint64) *core.DeprecatedCairoClass {
	return &core.DeprecatedCairoClass{
		Abi:          []byte(fmt.Sprintf(`[{"implicit":%d}]`, i)),
		Externals:    []core.DeprecatedEntryPoint{{Selector: lib.F(9 + i), Offset: lib.F(2)}},
		L1Handlers:   []core.DeprecatedEntryPoint{},
		Constructors: []core.DeprecatedEntryPoint{},
		Program:      "H4sIAAAAAAAA/wEAAP//AAAAAAAAAAA=",
	}
}

func NewGen(r *lib.RNG, newState bool, opt lib.GenOptions) *Gen {
	return &Gen{R: r, G: lib.NewChainGen(r, newState, opt), cairo0: map[felt.Felt]core.ClassDefinition{}}
}

func (g *Gen) nextVersion(cur string) string {
	idx := 0
	for i, v := range versions {
		if v == cur {
			idx = i
		}
	}
	if cur == "" {
		return versions[g.R.Intn(len(versions))]
	}
	if g.R.Chance(1, 3) && idx+1 < len(versions) {
		idx += 1 + g.R.Intn(len(versions)-idx-1)
	}
	return versions[idx]
}

// Block draws the spec of block number num on top of abstract state prev.
func (g *Gen) Block(prev *lib.AbsState, num uint64, version string) *lib.BlockSpec {
	r := g.R
	diff, classes := g.G.GenDiff(prev, num, version)
	// re-declaration of an already declared Cairo-0 class (allowed by old protocol versions;
	// juno keeps the first declaration height and must not drop the class on revert)
	if r.Chance(1, 6) {
		var declared []felt.Felt
		for c := range prev.Classes {
			if _, ok := g.cairo0[c]; ok {
				declared = append(declared, c)
			}
		}
		sort.Slice(declared, func(i, j int) bool { return declared[i].Cmp(&declared[j]) < 0 })
		if len(declared) > 0 {
			c := lib.Pick(r, declared)
			dup := false
			for _, x := range diff.DeclaredV0Classes {
				if x.Equal(&c) {
					dup = true
				}
			}
			if !dup {
				diff.DeclaredV0Classes = append(diff.DeclaredV0Classes, &c)
				if r.Bool() {
					classes[c] = lib.DeepCopy(g.cairo0[c]).(core.ClassDefinition)
				}
			}
		}
	}
	// the way sync feeds a node (sync/data_source.go fetchUnknownClasses): the definition of a
	// deployed contract's class is supplied when the state does not know the class yet, also when
	// the class is not in the declared lists (pre-declare era deploys)
	if g.ImplicitClasses && len(diff.DeployedContracts) > 0 && r.Chance(1, 2) {
		for _, ch := range diff.DeployedContracts {
			if _, known := prev.Classes[*ch]; known {
				continue
			}
			if _, now := classes[*ch]; now {
				continue
			}
			classes[*ch] = myCairo0(ch.Uint64())
		}
	}
	for c, def := range classes {
		if _, ok := def.(*core.DeprecatedCairoClass); ok {
			g.cairo0[c] = def
		}
	}
	// one address in several sections: a contract deployed by the block is also given another
	// class by the same block (State.Update applies deployments first, then replacements)
	if len(diff.DeployedContracts) > 0 && r.Chance(1, 4) {
		var as []felt.Felt
		for a := range diff.DeployedContracts {
			as = append(as, a)
		}
		sort.Slice(as, func(i, j int) bool { return as[i].Cmp(&as[j]) < 0 })
		a := lib.Pick(r, as)
		ch := g.G.ClassHash(r.Intn(4))
		diff.ReplacedClasses[a] = &ch
	}
	if g.BiasSys && r.Chance(1, 2) {
		// extra system-contract traffic over a tiny slot/value space: first touch with zero,
		// emptying, refilling
		a := g.G.Addr(r.Intn(2))
		k := g.G.Slot(2 + r.Intn(2))
		v := lib.F(uint64(r.Intn(3)))
		if diff.StorageDiffs[a] == nil {
			diff.StorageDiffs[a] = map[felt.Felt]*felt.Felt{}
		}
		diff.StorageDiffs[a][k] = v
	}
	spec := &lib.BlockSpec{Version: version, Diff: diff, Classes: classes}
	n := r.Intn(g.G.Opt.MaxTxs + 1)
	if n == 0 {
		spec.NoTxs = true
	}
	for i := 0; i < n; i++ {
		tx := g.G.GenTx(version)
		spec.Txs = append(spec.Txs, tx)
		spec.Rcs = append(spec.Rcs, g.G.GenReceipt(tx))
	}
	return spec
}

// absAfter folds specs into abstract states: out[i] is the state after i blocks.
func absAfter(base *lib.AbsState, baseHeight int, specs []*lib.BlockSpec) []*lib.AbsState {
	out := []*lib.AbsState{base}
	cur := base
	for i, s := range specs {
		n := cur.Clone()
		n.Apply(uint64(baseHeight+i), s.Diff, s.Classes)
		out = append(out, n)
		cur = n
	}
	return out
}

type forkParams struct {
	L      int   // main chain length
	Rounds []int // revert depth of each round (<= current height)
	M      []int // fork length of each round
}

// GenFork draws a whole fork scenario.
func (g *Gen) GenFork(newState bool, p forkParams) *Scenario {
	sc := &Scenario{Kind: "fork", NewState: newState}
	states := []*lib.AbsState{lib.NewAbsState()}
	vers := []string{""}
	for i := 0; i < p.L; i++ {
		v := g.nextVersion(vers[len(vers)-1])
		spec := g.Block(states[len(states)-1], uint64(i), v)
		sc.Main = append(sc.Main, spec)
		st := states[len(states)-1].Clone()
		st.Apply(uint64(i), spec.Diff, spec.Classes)
		states = append(states, st)
		vers = append(vers, v)
	}
	reverted := map[int][]*lib.BlockSpec{}
	chainSpecs := append([]*lib.BlockSpec{}, sc.Main...)
	for ri, k := range p.Rounds {
		if k > len(states)-1 {
			k = len(states) - 1
		}
		reverted[ri] = append([]*lib.BlockSpec{}, chainSpecs[len(chainSpecs)-k:]...)
		chainSpecs = chainSpecs[:len(chainSpecs)-k]
		states = states[:len(states)-k]
		vers = vers[:len(vers)-k]
		rd := Round{Revert: k}
		if g.Repeats && g.R.Chance(2, 3) {
			rd.Refused, rd.RefusedKind = g.RefusedBlock(states[len(states)-1], chainSpecs, reverted[ri], uint64(len(states)-1), vers[len(vers)-1])
		}
		// transactions of the reverted blocks: a real reorg re-includes some of them in the new fork
		// (same hash, same L1 message) at another index or height
		var pool []int
		var poolTx []core.Transaction
		var poolRc []*core.TransactionReceipt
		for _, old := range reverted[ri] {
			for i := range old.Txs {
				pool = append(pool, len(poolTx))
				poolTx = append(poolTx, old.Txs[i])
				poolRc = append(poolRc, old.Rcs[i])
			}
		}
		for j := 0; j < p.M[ri]; j++ {
			num := uint64(len(states) - 1)
			v := g.nextVersion(vers[len(vers)-1])
			spec := g.Block(states[len(states)-1], num, v)
			for len(pool) > 0 && g.R.Chance(1, 2) {
				i := g.R.Intn(len(pool))
				idx := pool[i]
				pool = append(pool[:i], pool[i+1:]...)
				at := g.R.Intn(len(spec.Txs) + 1)
				spec.Txs = append(spec.Txs[:at], append([]core.Transaction{poolTx[idx]}, spec.Txs[at:]...)...)
				spec.Rcs = append(spec.Rcs[:at], append([]*core.TransactionReceipt{poolRc[idx]}, spec.Rcs[at:]...)...)
				spec.NoTxs = false
			}
			rd.Fork = append(rd.Fork, spec)
			chainSpecs = append(chainSpecs, spec)
			st := states[len(states)-1].Clone()
			st.Apply(num, spec.Diff, spec.Classes)
			states = append(states, st)
			vers = append(vers, v)
		}
		sc.Rounds = append(sc.Rounds, rd)
	}
	return sc
}

// ---------------------------------------------------------------------------------------------
// Line: a source node that finalises specs into bundles (never reverted: a fork is a new
// source node on which the common prefix is stored again).
// ---------------------------------------------------------------------------------------------

type Line struct {
	cg *lib.ChainGen
}

func newLine(r *lib.RNG, newState bool, opt lib.GenOptions) *Line {
	net := lib.TestNetwork()
	src, d := lib.NewNode(net, newState)
	return &Line{cg: &lib.ChainGen{R: r, Net: net, NewState: newState, Src: src, SrcDB: d, Opt: opt}}
}

func (l *Line) Height() int { return len(l.cg.Bundles) }

func (l *Line) Next(spec *lib.BlockSpec) (*lib.Bundle, error) {
	s := *spec
	if s.Diff == nil {
		s.Diff = emptyDiff()
	}
	s.Diff = lib.DeepCopy(s.Diff).(*core.StateDiff)
	if s.Classes == nil {
		s.Classes = map[felt.Felt]core.ClassDefinition{}
	}
	if len(s.Txs) == 0 {
		s.NoTxs = true
		s.Txs, s.Rcs = nil, nil
	}
	var b *lib.Bundle
	err, _, _ := lib.Try(func() error {
		var e error
		b, e = l.cg.Next(&s)
		return e
	})
	return b, err
}

// ForkAt returns a new line holding the first p blocks of l.
func (l *Line) ForkAt(p int) (*Line, error) {
	n := newLine(l.cg.R, l.cg.NewState, l.cg.Opt)
	for i := 0; i < p; i++ {
		if err := lib.StoreOn(n.cg.Src, l.cg.Bundles[i]); err != nil {
			return nil, fmt.Errorf("replaying block %d on a new source: %w", i, err)
		}
		n.cg.Bundles = append(n.cg.Bundles, l.cg.Bundles[i])
		n.cg.States = append(n.cg.States, l.cg.States[i])
	}
	return n, nil
}

// CopyAtHead returns a new line on a copy of the source database (cheap fork at the head).
func (l *Line) CopyAtHead() *Line {
	d := l.cg.SrcDB.Copy()
	src := lib.NodeOn(d, l.cg.Net, l.cg.NewState)
	c := &lib.ChainGen{R: l.cg.R, Net: l.cg.Net, NewState: l.cg.NewState, Src: src, SrcDB: d, Opt: l.cg.Opt}
	c.Bundles = append(c.Bundles, l.cg.Bundles...)
	c.States = append(c.States, l.cg.States...)
	return &Line{cg: c}
}

// Node is a destination node under test.
type Node struct {
	Name string
	BC   *blockchain.Blockchain
	DB   *memory.Database
}

func newNode(name string, newState bool) *Node {
	bc, d := lib.NewNode(lib.TestNetwork(), newState)
	return &Node{Name: name, BC: bc, DB: d}
}

// Restarted opens a new Blockchain on a copy of the node's database (an ungraceful restart: no
// shutdown hook has run).
func (n *Node) Restarted(newState bool) *Node {
	d := n.DB.Copy()
	return &Node{Name: n.Name + "-restarted", BC: lib.NodeOn(d, lib.TestNetwork(), newState), DB: d}
}

// RestartInPlace replaces the Blockchain instance by a new one on the SAME database: everything
// the node keeps in memory (running event filter, filter cache) is lost and rebuilt lazily.
func (n *Node) RestartInPlace(newState, graceful bool) error {
	if graceful {
		if err := n.BC.WriteRunningEventFilter(); err != nil {
			return err
		}
	}
	n.BC = lib.NodeOn(n.DB, lib.TestNetwork(), newState)
	return nil
}

// StoreWrongRoot offers a copy of the bundle whose new state root is wrong directly to
// Blockchain.Store (past the sanity check, as a caller with a stale or corrupt state update would):
// State.Update runs inside the batch and fails at the final root verification.
func (n *Node) StoreWrongRoot(b *lib.Bundle) (attempted bool, err error) {
	c := b.Clone()
	commitments, err := n.BC.SanityCheckNewHeight(c.Block, c.SU, c.Classes)
	if err != nil {
		return false, err
	}
	wrong := new(felt.Felt).Add(c.SU.NewRoot, lib.F(1))
	c.SU.NewRoot = wrong
	c.Block.GlobalStateRoot = wrong
	err, _, _ = lib.Try(func() error { return n.BC.Store(c.Block, commitments, c.SU, c.Classes) })
	return true, err
}

// StoreWrongParent offers a copy of the bundle with the right number and a parent hash that is not the
// head's directly to Blockchain.Store (a block of another branch): verifyBlockSuccession must refuse it.
func (n *Node) StoreWrongParent(b *lib.Bundle) (c *lib.Bundle, attempted bool, err error) {
	c = b.Clone()
	commitments, err := n.BC.SanityCheckNewHeight(c.Block, c.SU, c.Classes)
	if err != nil {
		return c, false, err
	}
	c.Block.ParentHash = new(felt.Felt).Add(c.Block.ParentHash, lib.F(1))
	err, _, _ = lib.Try(func() error { return n.BC.Store(c.Block, commitments, c.SU, c.Classes) })
	return c, true, err
}

// StoreUnsupportedVersion offers a copy of the bundle whose protocol version is above the latest one juno
// supports directly to Blockchain.Store: verifyBlockSuccession (CheckBlockVersion) must refuse it.
func (n *Node) StoreUnsupportedVersion(b *lib.Bundle) (c *lib.Bundle, attempted bool, err error) {
	c = b.Clone()
	commitments, err := n.BC.SanityCheckNewHeight(c.Block, c.SU, c.Classes)
	if err != nil {
		return c, false, err
	}
	c.Block.ProtocolVersion = "0.15.0"
	err, _, _ = lib.Try(func() error { return n.BC.Store(c.Block, commitments, c.SU, c.Classes) })
	return c, true, err
}

func (n *Node) Store(b *lib.Bundle) error {
	err, _, _ := lib.Try(func() error { return lib.StoreOn(n.BC, b) })
	return err
}

// FinaliseOwn makes the node produce the block itself (sequencer mode: Blockchain.Finalise computes the
// roots and the hash and writes the block) instead of receiving it through Store. The input is what the
// source node was given: no hash, no new root. The outcome must be the block the source finalised.
func (n *Node) FinaliseOwn(b *lib.Bundle) error {
	c := b.Clone()
	c.Block.Hash, c.SU.BlockHash = nil, nil
	c.Block.GlobalStateRoot, c.SU.NewRoot = nil, nil
	err, _, _ := lib.Try(func() error { return n.BC.Finalise(c.Block, c.SU, c.Classes, nil) })
	if err != nil {
		return fmt.Errorf("finalise: %w", err)
	}
	if c.Block.Hash == nil || !c.Block.Hash.Equal(b.Block.Hash) || c.Block.GlobalStateRoot == nil || !c.Block.GlobalStateRoot.Equal(b.Block.GlobalStateRoot) {
		return fmt.Errorf("finalise: the node finalised another block than the source node did from the same input (hash %v / %v)", c.Block.Hash, b.Block.Hash)
	}
	return nil
}

func (n *Node) Revert() error {
	err, _, _ := lib.Try(func() error { return n.BC.RevertHead() })
	return err
}
