//go:build verif

package main

import (
	"encoding/hex"
	"errors"
	"fmt"
	"math/big"
	"reflect"
	"sort"
	"strings"

	"github.com/NethermindEth/juno/core"
	"github.com/NethermindEth/juno/core/felt"
	"github.com/NethermindEth/juno/db"
	"github.com/bits-and-blooms/bloom/v3"
)

// ---------------------------------------------------------------------------------------------
// Canonical text of any value returned by the Reader API or decoded from the database:
// maps sorted by key, pointers followed, felts in hex, only exported struct fields (unexported
// fields are caches). Two values have the same text iff they are equal as data.
// ---------------------------------------------------------------------------------------------

var (
	feltType     = reflect.TypeOf(felt.Felt{})
	bloomPtrType = reflect.TypeOf((*bloom.BloomFilter)(nil))
	bigIntType   = reflect.TypeOf(big.Int{})
	casmMetaType = reflect.TypeOf(core.ClassCasmHashMetadata{})
)

func canon(v any) string {
	var sb strings.Builder
	canonValue(&sb, reflect.ValueOf(v), 0)
	return sb.String()
}

func canonValue(sb *strings.Builder, v reflect.Value, depth int) {
	if depth > 40 {
		sb.WriteString("<deep>")
		return
	}
	if !v.IsValid() {
		sb.WriteString("nil")
		return
	}
	t := v.Type()
	if t == bloomPtrType {
		if v.IsNil() {
			sb.WriteString("nil")
			return
		}
		b, _ := v.Interface().(*bloom.BloomFilter).MarshalBinary()
		sb.WriteString("bloom:" + hex.EncodeToString(b))
		return
	}
	if t == bigIntType && v.CanAddr() {
		sb.WriteString("big:" + v.Addr().Interface().(*big.Int).String())
		return
	}
	if t == casmMetaType {
		m := v.Interface().(core.ClassCasmHashMetadata)
		sb.WriteString(casmMetaText(&m))
		return
	}
	if t.Kind() == reflect.Array && t.ConvertibleTo(feltType) {
		f := v.Convert(feltType).Interface().(felt.Felt)
		sb.WriteString(f.String())
		return
	}
	switch v.Kind() {
	case reflect.Ptr:
		if v.IsNil() {
			sb.WriteString("nil")
			return
		}
		if t.Elem() == bigIntType {
			sb.WriteString("big:" + v.Interface().(*big.Int).String())
			return
		}
		canonValue(sb, v.Elem(), depth+1)
	case reflect.Interface:
		if v.IsNil() {
			sb.WriteString("nil")
			return
		}
		e := v.Elem()
		et := e.Type()
		for et.Kind() == reflect.Ptr {
			et = et.Elem()
		}
		sb.WriteString(et.Name() + "=")
		canonValue(sb, e, depth+1)
	case reflect.Slice:
		if v.IsNil() || v.Len() == 0 {
			// nil and empty slices are the same data (the codec does not keep the difference)
			sb.WriteString("[]")
			return
		}
		if t.Elem().Kind() == reflect.Uint8 {
			sb.WriteString("x" + hex.EncodeToString(v.Bytes()))
			return
		}
		fallthrough
	case reflect.Array:
		sb.WriteString("[")
		for i := 0; i < v.Len(); i++ {
			if i > 0 {
				sb.WriteString(",")
			}
			canonValue(sb, v.Index(i), depth+1)
		}
		sb.WriteString("]")
	case reflect.Map:
		type kv struct{ k, v string }
		items := make([]kv, 0, v.Len())
		it := v.MapRange()
		for it.Next() {
			var kb, vb strings.Builder
			canonValue(&kb, it.Key(), depth+1)
			canonValue(&vb, it.Value(), depth+1)
			items = append(items, kv{kb.String(), vb.String()})
		}
		sort.Slice(items, func(i, j int) bool { return items[i].k < items[j].k })
		sb.WriteString("{")
		for i, it := range items {
			if i > 0 {
				sb.WriteString(",")
			}
			sb.WriteString(it.k + ":" + it.v)
		}
		sb.WriteString("}")
	case reflect.Struct:
		sb.WriteString("(")
		first := true
		for i := 0; i < v.NumField(); i++ {
			f := t.Field(i)
			if !f.IsExported() {
				continue
			}
			if !first {
				sb.WriteString(" ")
			}
			first = false
			sb.WriteString(f.Name + "=")
			canonValue(sb, v.Field(i), depth+1)
		}
		sb.WriteString(")")
	case reflect.String:
		fmt.Fprintf(sb, "%q", v.String())
	case reflect.Bool:
		fmt.Fprintf(sb, "%v", v.Bool())
	case reflect.Int, reflect.Int8, reflect.Int16, reflect.Int32, reflect.Int64:
		fmt.Fprintf(sb, "%d", v.Int())
	case reflect.Uint, reflect.Uint8, reflect.Uint16, reflect.Uint32, reflect.Uint64, reflect.Uintptr:
		fmt.Fprintf(sb, "%d", v.Uint())
	case reflect.Float32, reflect.Float64:
		fmt.Fprintf(sb, "%v", v.Float())
	case reflect.Func, reflect.Chan, reflect.UnsafePointer:
		sb.WriteString("<" + v.Kind().String() + ">")
	default:
		fmt.Fprintf(sb, "<%s>", v.Kind())
	}
}

func casmMetaText(m *core.ClassCasmHashMetadata) string {
	b, err := m.MarshalBinary()
	if err != nil {
		return "casm-meta-err:" + err.Error()
	}
	return "casm-meta:" + hex.EncodeToString(b)
}

// errClass maps an error to a small stable enum; the text of unknown errors is kept (with
// numbers and hex removed) so that two different failures never look the same.
func errClass(err error) string {
	if err == nil {
		return "ok"
	}
	if errors.Is(err, db.ErrKeyNotFound) {
		return "notfound"
	}
	msg := err.Error()
	var out strings.Builder
	for i := 0; i < len(msg); i++ {
		c := msg[i]
		if c == '0' && i+1 < len(msg) && msg[i+1] == 'x' {
			j := i + 2
			for j < len(msg) && strings.IndexByte("0123456789abcdefABCDEF", msg[j]) >= 0 {
				j++
			}
			out.WriteString("#")
			i = j - 1
			continue
		}
		if c >= '0' && c <= '9' {
			j := i
			for j < len(msg) && msg[j] >= '0' && msg[j] <= '9' {
				j++
			}
			out.WriteString("#")
			i = j - 1
			continue
		}
		out.WriteByte(c)
	}
	s := out.String()
	if len(s) > 160 {
		s = s[:160]
	}
	return "err:" + s
}

// res formats a (value, error) answer.
func res(v any, err error) string {
	if err != nil {
		return errClass(err)
	}
	return "ok " + canon(v)
}
