//go:build verif

package main

import (
	"crypto/sha256"
	"encoding/binary"
	"encoding/hex"
	"fmt"
	"sort"

	"github.com/NethermindEth/juno/core"
	"github.com/NethermindEth/juno/core/felt"
	"github.com/NethermindEth/juno/core/trie"
	"github.com/NethermindEth/juno/db"
	"github.com/NethermindEth/juno/db/memory"
	"github.com/NethermindEth/juno/encoder"
)

// ---------------------------------------------------------------------------------------------
// Decoded dump of a whole memory database: "Bucket/keyhex" -> canonical value text.
// Values whose byte encoding is not canonical (CBOR of Go maps: state updates, transactions
// with resource-bound maps, class definitions) are decoded and re-written canonically; every
// other value is compared byte for byte. Long values are replaced by their SHA-256.
// ---------------------------------------------------------------------------------------------

func short(s string) string {
	if len(s) <= 300 {
		return s
	}
	h := sha256.Sum256([]byte(s))
	return fmt.Sprintf("sha256:%s(len=%d)", hex.EncodeToString(h[:12]), len(s))
}

func dumpDB(d *memory.Database) (map[string]string, error) {
	out := map[string]string{}
	it, err := d.NewIterator(nil, false)
	if err != nil {
		return nil, err
	}
	defer it.Close()
	for ok := it.First(); ok; ok = it.Next() {
		k := append([]byte{}, it.Key()...)
		v, err := it.Value()
		if err != nil {
			return nil, err
		}
		if len(k) == 0 {
			out["<empty-key>"] = short(hex.EncodeToString(v))
			continue
		}
		bucket := db.Bucket(k[0])
		name := bucket.String() + "/" + hex.EncodeToString(k[1:])
		out[name] = short(decodeValue(d, bucket, k[1:], v))
	}
	return out, nil
}

func decodeValue(d *memory.Database, bucket db.Bucket, key, val []byte) string {
	switch bucket {
	case db.StateUpdatesByBlockNumber:
		var su *core.StateUpdate
		if err := encoder.Unmarshal(val, &su); err == nil {
			return canon(su)
		}
	case db.BlockTransactions:
		var n uint64
		if err := encoder.Unmarshal(key, &n); err == nil {
			txs, rcs, err := core.GetTransactionsAndReceiptsByBlockNumber(d, n)
			if err == nil {
				return canon(txs) + "|" + canon(rcs)
			}
		}
	case db.Class:
		if len(key) == felt.Bytes {
			h := felt.FromBytes[felt.Felt](key)
			if c, err := core.GetClass(d, &h); err == nil {
				return canon(c)
			}
		}
	case db.BlockHeadersByNumber:
		if len(key) == 8 {
			if h, err := core.GetBlockHeaderByNumber(d, binary.BigEndian.Uint64(key)); err == nil {
				return canon(h)
			}
		}
	case db.ContractStorage, db.StateTrie, db.ClassesTrie:
		// legacy trie node: value, left and right child keys, and optionally the cached hashes of
		// the two children. The cached hashes are derived data (present or not depending on the
		// node's history); a wrong cached hash would change the roots that every later Store /
		// RevertHead verifies. They are left out of the comparison.
		rootKeyLen := 0
		if bucket == db.ContractStorage {
			rootKeyLen = felt.Bytes
		}
		if len(key) > rootKeyLen {
			var n trie.Node
			if err := n.UnmarshalBinary(val); err == nil {
				l, r := "-", "-"
				if n.Left != nil {
					l, r = n.Left.String(), n.Right.String()
				}
				return "node(" + n.Value.String() + " " + l + " " + r + ")"
			}
		}
	case db.BlockCommitments:
		if len(key) == 8 {
			if c, err := core.GetBlockCommitmentByBlockNum(d, binary.BigEndian.Uint64(key)); err == nil {
				return canon(c)
			}
		}
	}
	return "x" + hex.EncodeToString(val)
}

type dbDiff struct {
	Key string `json:"key"`
	A   string `json:"a"`
	B   string `json:"b"`
}

func bucketOf(key string) string {
	for i := 0; i < len(key); i++ {
		if key[i] == '/' {
			return key[:i]
		}
	}
	return key
}

// diffDumps lists the keys on which two dumps differ ("<absent>" when a key is missing).
func diffDumps(a, b map[string]string) []dbDiff {
	var out []dbDiff
	for k, va := range a {
		vb, ok := b[k]
		if !ok {
			out = append(out, dbDiff{k, va, "<absent>"})
		} else if va != vb {
			out = append(out, dbDiff{k, va, vb})
		}
	}
	for k, vb := range b {
		if _, ok := a[k]; !ok {
			out = append(out, dbDiff{k, "<absent>", vb})
		}
	}
	sort.Slice(out, func(i, j int) bool { return out[i].Key < out[j].Key })
	return out
}
