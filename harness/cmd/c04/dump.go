//go:build verif

package main

import (
	"bytes"
	"crypto/sha256"
	"encoding/binary"
	"encoding/hex"
	"fmt"
	"sort"

	"github.com/NethermindEth/juno/core"
	"github.com/NethermindEth/juno/core/felt"
	"github.com/NethermindEth/juno/core/trie"
	"github.com/NethermindEth/juno/db"
	"github.com/NethermindEth/juno/db/memory"
	"github.com/NethermindEth/juno/encoder"
)

// ---------------------------------------------------------------------------------------------
// Decoded dump of a whole memory database: "Bucket/keyhex" -> canonical value text.
// Values whose byte encoding is not canonical (CBOR of Go maps: state updates, transactions
// with resource-bound maps, class definitions) are decoded and re-written canonically; every
// other value is compared byte for byte. Long values are replaced by their SHA-256.
// ---------------------------------------------------------------------------------------------

func short(s string) string {
	if len(s) <= 300 {
		return s
	}
	h := sha256.Sum256([]byte(s))
	return fmt.Sprintf("sha256:%s(len=%d)", hex.EncodeToString(h[:12]), len(s))
}

// dumpRaw reads the whole database: "Bucket/keyhex" -> raw value bytes.
type rawEntry struct{ k, v []byte }

func dumpRaw(d *memory.Database) (map[string]rawEntry, error) {
	out := map[string]rawEntry{}
	it, err := d.NewIterator(nil, false)
	if err != nil {
		return nil, err
	}
	defer it.Close()
	for ok := it.First(); ok; ok = it.Next() {
		k := append([]byte{}, it.Key()...)
		v, err := it.Value()
		if err != nil {
			return nil, err
		}
		if len(k) == 0 {
			out["<empty-key>"] = rawEntry{k, v}
			continue
		}
		out[db.Bucket(k[0]).String()+"/"+hex.EncodeToString(k[1:])] = rawEntry{k, v}
	}
	return out, nil
}

// diffDatabases lists the keys on which the decoded contents of two databases differ. Values
// that are byte-identical are equal; the others are decoded first (see decodeValue).
func diffDatabases(da, dbb *memory.Database) ([]dbDiff, int, error) {
	ra, err := dumpRaw(da)
	if err != nil {
		return nil, 0, err
	}
	rb, err := dumpRaw(dbb)
	if err != nil {
		return nil, 0, err
	}
	var out []dbDiff
	text := func(d *memory.Database, e rawEntry) string {
		if len(e.k) == 0 {
			return short(hex.EncodeToString(e.v))
		}
		return short(decodeValue(d, db.Bucket(e.k[0]), e.k[1:], e.v))
	}
	for name, va := range ra {
		vb, ok := rb[name]
		switch {
		case !ok:
			out = append(out, dbDiff{name, text(da, va), "<absent>"})
		case !bytes.Equal(va.v, vb.v):
			ta, tb := text(da, va), text(dbb, vb)
			if ta != tb {
				out = append(out, dbDiff{name, ta, tb})
			}
		}
	}
	for name, vb := range rb {
		if _, ok := ra[name]; !ok {
			out = append(out, dbDiff{name, "<absent>", text(dbb, vb)})
		}
	}
	sort.Slice(out, func(i, j int) bool { return out[i].Key < out[j].Key })
	return out, len(ra), nil
}

func decodeValue(d *memory.Database, bucket db.Bucket, key, val []byte) string {
	switch bucket {
	case db.StateUpdatesByBlockNumber:
		var su *core.StateUpdate
		if err := encoder.Unmarshal(val, &su); err == nil {
			return canon(su)
		}
	case db.BlockTransactions:
		var n uint64
		if err := encoder.Unmarshal(key, &n); err == nil {
			txs, rcs, err := core.GetTransactionsAndReceiptsByBlockNumber(d, n)
			if err == nil {
				return canon(txs) + "|" + canon(rcs)
			}
		}
	case db.Class:
		if len(key) == felt.Bytes {
			h := felt.FromBytes[felt.Felt](key)
			if c, err := core.GetClass(d, &h); err == nil {
				return canon(c)
			}
		}
	case db.BlockHeadersByNumber:
		if len(key) == 8 {
			if h, err := core.GetBlockHeaderByNumber(d, binary.BigEndian.Uint64(key)); err == nil {
				return canon(h)
			}
		}
	case db.ContractStorage, db.StateTrie, db.ClassesTrie:
		// legacy trie node: value, left and right child keys, and optionally the cached hashes of
		// the two children. The cached hashes are derived data (present or not depending on the
		// node's history); a wrong cached hash would change the roots that every later Store /
		// RevertHead verifies. They are left out of the comparison.
		rootKeyLen := 0
		if bucket == db.ContractStorage {
			rootKeyLen = felt.Bytes
		}
		if len(key) > rootKeyLen {
			var n trie.Node
			if err := n.UnmarshalBinary(val); err == nil {
				l, r := "-", "-"
				if n.Left != nil {
					l, r = n.Left.String(), n.Right.String()
				}
				return "node(" + n.Value.String() + " " + l + " " + r + ")"
			}
		}
	case db.BlockCommitments:
		if len(key) == 8 {
			if c, err := core.GetBlockCommitmentByBlockNum(d, binary.BigEndian.Uint64(key)); err == nil {
				return canon(c)
			}
		}
	}
	return "x" + hex.EncodeToString(val)
}

type dbDiff struct {
	Key string `json:"key"`
	A   string `json:"a"`
	B   string `json:"b"`
}

func bucketOf(key string) string {
	for i := 0; i < len(key); i++ {
		if key[i] == '/' {
			return key[:i]
		}
	}
	return key
}
