//go:build verif

package main

import (
	"fmt"
	"regexp"
	"sort"
	"strings"

	"github.com/NethermindEth/juno/core"
	"github.com/NethermindEth/juno/core/felt"
	"verif/harness/lib"
)

// Finding is one way in which the property failed in a scenario.
type Finding struct {
	Sig    string
	What   string
	Detail any
}

type ExecResult struct {
	Findings []Finding
	Hits     map[string]int
	Skipped  string // non-empty: the scenario could not be built (not a property matter)
	Ops      []string
	Trace    *Trace
	Compared int // number of (query, answer) and (key, value) pairs compared between A and B
	// BaseFailed: the base image (or a source snapshot) could not be made: a harness failure, not a skip
	BaseFailed bool
	// Outside: outcomes of a scenario whose blocks violate one BlockOK clause on purpose
	Outside []string
	// emptiedAt: system contract address -> number of the reverted block that had emptied it (K2)
	emptiedAt map[string]uint64
}

func (r *ExecResult) hit(s string)          { r.Hits[s]++ }
func (r *ExecResult) op(f string, a ...any) { r.Ops = append(r.Ops, fmt.Sprintf(f, a...)) }
func (r *ExecResult) find(sig, what string, d any) {
	r.Findings = append(r.Findings, Finding{sig, what, d})
}

func (r *ExecResult) has(sig string) bool {
	for _, f := range r.Findings {
		if f.Sig == sig {
			return true
		}
	}
	return false
}

var (
	reArgs = regexp.MustCompile(`\([^()]*\)`)
	sysA   = lib.F(1).String()
	sysB   = lib.F(2).String()
)

// queryKind strips the arguments from a query text: "StateAtBlockNumber(3).ContractStorage(0x1,0x2)"
// -> "StateAtBlockNumber.ContractStorage".
func queryKind(q string) string { return reArgs.ReplaceAllString(q, "") }

func isSysAddrText(s string) bool { return s == sysA || s == sysB }

// sysAddrOfStateQuery returns the system-contract address a historical contract read is about.
var reHistSys = regexp.MustCompile(`^StateAtBlock(Number|Hash)\([^()]*\)\.Contract(ClassHash|Nonce|Storage)\((0x[0-9a-f]+)[,)]`)

func sysAddrOfStateQuery(q string) string {
	m := reHistSys.FindStringSubmatch(q)
	if m == nil || !isSysAddrText(m[3]) {
		return ""
	}
	return m[3]
}

// head reads of the new backend go to the storage leaf on disk (state_reader.go ContractStorage)
var reHeadStorage = regexp.MustCompile(`^(?:HeadState|StateAtBlockHash\(0x0\))\.ContractStorage\((0x[0-9a-f]+),(0x[0-9a-f]+)\)$`)
var reClassQuery = regexp.MustCompile(`\.Class\((0x[0-9a-f]+)\)$`)

func feltText(hex64 string) string {
	t := strings.TrimLeft(hex64, "0")
	if t == "" {
		t = "0"
	}
	return "0x" + t
}

// implicitClasses: class hashes supplied as definitions (for deployed contracts) without being in
// a declared list of the same block.
func implicitClasses(sc *Scenario) map[string]bool {
	out := map[string]bool{}
	scan := func(specs []*lib.BlockSpec) {
		for _, s := range specs {
			declared := map[felt.Felt]bool{}
			for _, c := range s.Diff.DeclaredV0Classes {
				declared[*c] = true
			}
			for c := range s.Diff.DeclaredV1Classes {
				declared[c] = true
			}
			for c := range s.Classes {
				if !declared[c] {
					out[c.String()] = true
				}
			}
		}
	}
	scan(sc.Main)
	for _, rd := range sc.Rounds {
		scan(rd.Fork)
	}
	return out
}

// heightIsEmptiedBlock: the deployment height A has for a system contract is the number of a
// reverted block that had emptied that contract (the exact cause of the known defect).
func heightIsEmptiedBlock(r *ExecResult, addr, heightHex string) bool {
	n, ok := r.emptiedAt[addr]
	if !ok {
		return false
	}
	var h uint64
	if _, err := fmt.Sscanf(heightHex, "%x", &h); err != nil {
		return false
	}
	return h == n
}

// newStateContractRecord decodes the text of a core/state contract record ("x" + hex of
// nonce(32) classHash(32) [storageRoot(32)] deployHeight(8)) into (rest, deployHeight).
func splitContractRecord(v string) (string, string, bool) {
	if !strings.HasPrefix(v, "x") || (len(v) != 1+2*72 && len(v) != 1+2*104) {
		return "", "", false
	}
	return v[:len(v)-16], v[len(v)-16:], true
}

// compareNodes compares the decoded database content and every Reader answer of A and B and
// turns each difference into a finding. `when` says at which point of the scenario.
func compareNodes(r *ExecResult, a, b *Node, u *Universe, when string, newState bool, implicit map[string]bool, crossedCachedWindow bool) {
	diffs, nkeys, err := diffDatabases(a.DB, b.DB)
	if err != nil {
		r.find("harness-db-dump-failed", err.Error(), nil)
		return
	}
	r.Compared += nkeys
	deployHeightOnly := map[string]bool{} // system contracts whose record differs only in the deploy height
	type group struct {
		n     int
		first dbDiff
	}
	groups := map[string]*group{}
	add := func(sig string, d dbDiff) {
		g := groups[sig]
		if g == nil {
			g = &group{first: d}
			groups[sig] = g
		}
		g.n++
	}
	staleLeaf := map[string]bool{} // "owner/slot" of storage-trie leaves present only in A
	for _, d := range diffs {
		bucket := bucketOf(d.Key)
		if bucket == "RunningEventFilter" {
			// the snapshot of the in-memory filter a graceful shutdown of A wrote (B was never shut
			// down); whether a node started from it behaves like B is compared by restartCompare
			continue
		}
		if newState && (bucket == "ContractTrieStorage" || bucket == "ContractTrieContract" || bucket == "ClassTrie") &&
			d.B == "<absent>" && strings.HasSuffix(d.Key, "fb") {
			// a leaf node (path length 251) that only A has: trie2 did not remove a deleted leaf
			if bucket == "ContractTrieStorage" {
				k := strings.TrimPrefix(d.Key, "ContractTrieStorage/")
				if len(k) == 64+2+64+2 {
					staleLeaf[feltText(k[:64])+"/"+feltText(k[66:130])] = true
				}
			}
			add("newstate-deleted-trie-leaf-stays-on-disk-after-revert", d)
			continue
		}
		if bucket == "AggregatedBloomFilters" && d.B == "<absent>" {
			// a persisted window that only A has: known defect when it is the window A's running
			// filter has reopened (onReorg loads it but leaves it on disk)
			k := strings.TrimPrefix(d.Key, "AggregatedBloomFilters/")
			if h, err := a.BC.Height(); err == nil && len(k) == 32 {
				var from uint64
				fmt.Sscanf(k[:16], "%x", &from)
				next := h + 1
				if from == next-next%core.NumBlocksPerFilter {
					add(sigStaleWindow, d)
					continue
				}
			}
		}
		if bucket == "Class" && d.A != "<absent>" && implicit[feltText(strings.TrimPrefix(d.Key, "Class/"))] {
			// only this direction is that defect: A still has a class (or an older declaration
			// height) that B does not have; a class missing on A is something else
			add("class-of-deployed-contract-survives-revert", d)
			continue
		}
		if bucket == "Contract" && newState {
			addr := "0x" + strings.TrimLeft(strings.TrimPrefix(d.Key, "Contract/"), "0")
			ra, ha, ok1 := splitContractRecord(d.A)
			rb, hb, ok2 := splitContractRecord(d.B)
			if ok1 && ok2 && ra == rb && ha != hb && isSysAddrText(addr) && heightIsEmptiedBlock(r, addr, ha) {
				deployHeightOnly[addr] = true
				add(sigSysHeight, d)
				continue
			}
		}
		if bucket == "ContractDeploymentHeight" && !newState && d.A != "<absent>" && d.B != "<absent>" {
			// legacy backend with system-contract purge in Update (proposed C01 repair): same defect
			addr := "0x" + strings.TrimLeft(strings.TrimPrefix(d.Key, "ContractDeploymentHeight/"), "0")
			if isSysAddrText(addr) && heightIsEmptiedBlock(r, addr, strings.TrimPrefix(d.A, "x")) {
				deployHeightOnly[addr] = true
				add(sigSysHeight, d)
				continue
			}
		}
		add("db-differs-after-revert:"+bucket, d)
	}
	for sig, g := range groups {
		r.find(sig, fmt.Sprintf("%s: database of A (stored, reverted, forked) and B (stored the final chain only) differ in %d key(s), first %s: A=%s B=%s",
			when, g.n, g.first.Key, g.first.A, g.first.B), g.first)
	}
	var blocks []uint64
	if u.ObsFrom > 0 {
		for n := u.ObsFrom; n <= u.MaxHeight+1; n++ {
			blocks = append(blocks, n)
		}
	}
	stateBlocks := blocks
	if u.ObsFrom > 0 {
		// long chains: head state only (every legacy historical read copies the whole memory DB;
		// historical reads are covered by the short scenarios)
		stateBlocks = []uint64{}
	}
	oa := observe(a.BC, u, stateBlocks, blocks)
	ob := observe(b.BC, u, stateBlocks, blocks)
	r.Compared += len(oa)
	type ogroup struct {
		n     int
		first obsDiff
	}
	ogroups := map[string]*ogroup{}
	for _, d := range diffObs(oa, ob) {
		sig := "reader-differs-after-revert:" + queryKind(d.Query)
		if sa := sysAddrOfStateQuery(d.Query); sa != "" && deployHeightOnly[sa] {
			sig = sigSysHeight
		}
		if m := reHeadStorage.FindStringSubmatch(d.Query); m != nil && staleLeaf[m[1]+"/"+m[2]] {
			sig = "newstate-deleted-trie-leaf-stays-on-disk-after-revert"
		}
		if m := reClassQuery.FindStringSubmatch(d.Query); m != nil && implicit[m[1]] && strings.HasPrefix(d.A, "ok") {
			sig = "class-of-deployed-contract-survives-revert"
		}
		if strings.HasPrefix(d.Query, "Events(") {
			sig = "event-query-differs-after-revert"
			if crossedCachedWindow {
				// event queries were answered (filling blockchain.AggregatedBloomFilterCache) before a
				// revert went back across a filter-window boundary (DESIGN section 7 L2, owned by C09)
				sig = "event-query-misses-events-after-revert-across-cached-window"
			}
		}
		g := ogroups[sig]
		if g == nil {
			g = &ogroup{first: d}
			ogroups[sig] = g
		}
		g.n++
	}
	for sig, g := range ogroups {
		r.find(sig, fmt.Sprintf("%s: %d Reader answer(s) differ between A and B, first %s: A=%s B=%s", when, g.n, g.first.Query, g.first.A, g.first.B), g.first)
	}
}

// checkReverseDiff compares Blockchain.GetReverseStateDiff (what sync hands to plugins on a reorg,
// and what RevertHead applies) with the definition: for every key of the head block's diff the
// value the abstract state had before the block.
func checkReverseDiff(r *ExecResult, n *Node, chain []*lib.BlockSpec, when string) {
	if len(chain) == 0 {
		return
	}
	rd, err := n.BC.GetReverseStateDiff()
	if err != nil {
		r.find("get-reverse-state-diff-fails", fmt.Sprintf("%s: GetReverseStateDiff on a node with head %d: %v", when, len(chain)-1, err), nil)
		return
	}
	before := lib.NewAbsState()
	for i, s := range chain[:len(chain)-1] {
		before.Apply(uint64(i), s.Diff, s.Classes)
	}
	head := chain[len(chain)-1].Diff
	bad := func(what string, got *felt.Felt, want felt.Felt) bool {
		if got == nil || !got.Equal(&want) {
			g := "<nil>"
			if got != nil {
				g = got.String()
			}
			r.find("reverse-state-diff-wrong", fmt.Sprintf("%s: GetReverseStateDiff of block %d: %s is %s, the value before the block was %s", when, len(chain)-1, what, g, want.String()),
				map[string]string{"entry": what, "got": g, "want": want.String()})
			return true
		}
		return false
	}
	r.hit("reverse-diff-checked")
	for a, kv := range head.StorageDiffs {
		for k := range kv {
			var want felt.Felt
			if c := before.Contracts[a]; c != nil {
				want = c.Storage[k]
			}
			var got *felt.Felt
			if m := rd.StorageDiffs[a]; m != nil {
				got = m[k]
			}
			if bad(fmt.Sprintf("storage[%s][%s]", a.String(), k.String()), got, want) {
				return
			}
		}
	}
	for a := range head.Nonces {
		var want felt.Felt
		if c := before.Contracts[a]; c != nil {
			want = c.Nonce
		}
		if bad(fmt.Sprintf("nonce[%s]", a.String()), rd.Nonces[a], want) {
			return
		}
	}
	for a := range head.ReplacedClasses {
		if _, deployedNow := head.DeployedContracts[a]; deployedNow {
			// the contract did not exist before the block; the entry is unused (the contract is
			// purged) and the two backends fill it differently (legacy: the deployed class, new: 0)
			continue
		}
		var want felt.Felt
		if c := before.Contracts[a]; c != nil {
			want = c.Class
		}
		if bad(fmt.Sprintf("class[%s]", a.String()), rd.ReplacedClasses[a], want) {
			return
		}
	}
}

// sysContractEmptyButTouched reports whether, in the chain given by specs, some system contract
// has been written to (so the legacy backend has a record for it) while its storage is empty.
func sysContractEmptyButTouched(specs []*lib.BlockSpec) bool {
	st := lib.NewAbsState()
	touched := map[felt.Felt]bool{}
	for i, s := range specs {
		st.Apply(uint64(i), s.Diff, s.Classes)
		for a := range s.Diff.StorageDiffs {
			if a.Equal(lib.F(1)) || a.Equal(lib.F(2)) {
				touched[a] = true
			}
		}
	}
	for a := range touched {
		c := st.Contracts[a]
		if c == nil || len(c.Storage) == 0 {
			return true
		}
	}
	return false
}

const sigSysHeight = "system-contract-deploy-height-differs-after-revert"

const sigK1 = "legacy-revert-fails-when-system-contract-storage-is-empty"

// classifyRevertError gives the signature of a failing RevertHead. k1Candidate says that the
// failure has the shape of the known legacy defect (old-root verification failed while a system
// contract that was written has empty storage); it is filed under that known signature only if the
// Lean model (the code as found) predicts exactly this failure at this step, see main.go.
func classifyRevertError(err error, newState bool, chainBefore []*lib.BlockSpec) (sig string, k1Candidate bool) {
	msg := err.Error()
	if strings.HasPrefix(msg, "panic:") {
		return "revert-panics-on-stored-block", false
	}
	if !newState && strings.Contains(msg, "does not match the expected root") && !strings.Contains(msg, "verify state update root") &&
		len(chainBefore) > 0 && sysContractEmptyButTouched(chainBefore[:len(chainBefore)-1]) {
		return "revert-fails-on-stored-block", true
	}
	return "revert-fails-on-stored-block", false
}

// emptiedSystemContracts: the system contracts that the head block of chain leaves with empty
// storage although they had storage before it (the cause of the known deploy-height defect when
// that block is reverted).
func emptiedSystemContracts(chain []*lib.BlockSpec) []string {
	if len(chain) == 0 {
		return nil
	}
	before := lib.NewAbsState()
	for i, s := range chain[:len(chain)-1] {
		before.Apply(uint64(i), s.Diff, s.Classes)
	}
	after := before.Clone()
	head := chain[len(chain)-1]
	after.Apply(uint64(len(chain)-1), head.Diff, head.Classes)
	var out []string
	for _, a := range []*felt.Felt{lib.F(1), lib.F(2)} {
		cb, ca := before.Contracts[*a], after.Contracts[*a]
		if cb != nil && len(cb.Storage) > 0 && (ca == nil || len(ca.Storage) == 0) {
			out = append(out, a.String())
		}
	}
	return out
}

// rejected turns "a node refused a block the source node (same backend) finalised" into a
// finding; a panic is its own finding.
func (r *ExecResult) rejected(who string, what string, err error) {
	if strings.HasPrefix(err.Error(), "panic:") {
		r.find("store-panics", fmt.Sprintf("%s: Store of %s panicked: %v", who, what, err), map[string]string{"error": err.Error()})
		return
	}
	r.find("finalised-block-rejected", fmt.Sprintf("%s rejects %s, which a source node of the same backend finalised: %v", who, what, err),
		map[string]string{"error": err.Error()})
}

const sigDupDeclared = "legacy-revert-fails-on-duplicate-declared-class"

func hasDuplicateDeclared(s *lib.BlockSpec) bool {
	seen := map[felt.Felt]bool{}
	for _, c := range s.Diff.DeclaredV0Classes {
		if seen[*c] {
			return true
		}
		seen[*c] = true
	}
	for c := range s.Diff.DeclaredV1Classes {
		if seen[c] {
			return true
		}
	}
	return false
}

const sigStaleWindow = "stale-persisted-filter-window-after-revert"

const execHeaderSeed = 0xC04

// execScenario runs a scenario on real nodes: A stores the main chain, then per round reverts
// and follows the fork; B is a fresh node that stores only the chain A should now hold.
func execScenario(sc *Scenario, opt lib.GenOptions, withTrace bool) *ExecResult {
	r := &ExecResult{Hits: map[string]int{}}
	hr := lib.NewRNG(execHeaderSeed) // header randomness (timestamps, gas prices): fixed per execution
	if withTrace {
		r.Trace = newTrace(sc.NewState)
	}
	probe := lib.NewChainGen(lib.NewRNG(1), sc.NewState, opt) // only for the address/slot universe
	u := NewUniverse(probe)
	if sc.SmallUniverse {
		u.Addrs = []felt.Felt{*lib.F(1), *lib.F(2), *lib.F(0x104), *lib.F(0xdead)}
		u.Slots = []felt.Felt{*lib.F(3), *lib.F(0xbeef)}
	}
	baseLen := 0
	var line *Line
	var a *Node
	chain := []*lib.BlockSpec{}
	if sc.Base != nil {
		if sc.Base.err != nil {
			r.Skipped = "base image: " + sc.Base.err.Error()
			r.BaseFailed = true
			return r
		}
		baseLen = sc.Base.Len
		line = sc.Base.newLine(hr)
		a = sc.Base.node("A")
		r.Trace.bulkNode("A", sc.Base)
		chain = append(chain, sc.Base.specs...)
	} else {
		line = newLine(hr, sc.NewState, opt)
		a = newNode("A", sc.NewState)
		r.Trace.newNode("A")
	}
	implicit := implicitClasses(sc)
	reverted := false
	// curBundles: the blocks node A should hold right now
	curBundles := func() []*lib.Bundle { return line.cg.Bundles[:len(chain)] }
	// afterOp: the per-operation event oracle of QueryEach scenarios
	afterOp := func(when string) {
		if sc.QueryEach || !sc.LightModel {
			r.Trace.checkpointOp(a, u)
		}
		if !sc.QueryEach || len(chain) == 0 {
			return
		}
		checkEventsTruth(r, a, u, probe, curBundles(), when, reverted)
		h := uint64(len(chain) - 1)
		lo := uint64(0)
		if h > 3 && len(r.Ops)%2 == 0 {
			lo = h - 3
		}
		r.Trace.query(a, lo, h, candidateBlooms(curBundles(), lo, h))
	}

	storeOn := func(n *Node, b *lib.Bundle, spec *lib.BlockSpec) error {
		var err error
		if n == a && sc.FinaliseA && spec != nil && (int(b.Block.Number)+sc.Case)%2 == 0 {
			err = n.FinaliseOwn(b)
			r.hit("A-finalised-the-block-itself")
		} else {
			err = n.Store(b)
		}
		r.Trace.store(n, b, spec, err)
		return err
	}
	// restarts of node A
	planPos := 0
	restartA := func(where string, first bool, rot int) {
		mode := 0
		if planPos < len(sc.RestartPlan) {
			mode = sc.RestartPlan[planPos]
		} else if first && sc.RestartMode > 0 {
			mode = 1 + (sc.RestartMode-1+rot)%2
		}
		planPos++
		if mode == 0 {
			return
		}
		if err := a.RestartInPlace(sc.NewState, mode == 2); err != nil {
			r.find("restart-fails", fmt.Sprintf("%s: writing the running filter snapshot failed: %v", where, err), nil)
			return
		}
		r.Trace.restart(a, mode == 2, planPos%3 == 0)
		if mode == 2 {
			r.op("A.gracefulRestart (%s)", where)
			r.hit("restart:graceful:" + strings.SplitN(where, " ", 2)[0])
		} else {
			r.op("A.restart (%s)", where)
			r.hit("restart:kill:" + strings.SplitN(where, " ", 2)[0])
		}
	}
	u.ObsFrom = sc.ObsFrom
	u.LightLastUpdated = sc.Base != nil
	// snaps: copies of the source line at the heights that later rounds fork from (taken when the line
	// passes them; dropped when the line forks below them)
	forkPoints := map[int]bool{}
	{
		h := baseLen + len(sc.Main)
		for _, rd := range sc.Rounds {
			k := rd.Revert
			if k > h-baseLen {
				k = h - baseLen
			}
			h -= k
			forkPoints[h] = true
			h += len(rd.Fork)
		}
	}
	snaps := map[int]*Line{}
	maybeSnap := func() {
		if h := line.Height(); forkPoints[h] && snaps[h] == nil {
			snaps[h] = line.CopyAtHead()
		}
	}
	maybeSnap()
	for i, spec := range sc.Main {
		num := baseLen + i
		b, err := line.Next(spec)
		if err != nil {
			parent := &felt.Zero
			if h := line.cg.Head(); h != nil {
				parent = h.Block.Hash
			}
			r.Trace.storeRefused(a, uint64(num), parent, spec, err)
			r.Skipped = fmt.Sprintf("main block %d cannot be finalised: %v", num, err)
			return r
		}
		maybeSnap()
		u.Add(b)
		if err := storeOn(a, b, spec); err != nil {
			r.rejected("A", fmt.Sprintf("main block %d", num), err)
			return r
		}
		r.op("A.store main[%d] %s", num, specSummary(spec))
		chain = append(chain, spec)
		if num >= W-2 || i == len(sc.Main)-1 || sc.Base == nil {
			afterOp(fmt.Sprintf("after storing main block %d", num))
		}
	}
	everClosed := len(chain) >= W
	for ri, rd := range sc.Rounds {
		if sc.Warm {
			h, _ := a.BC.Height()
			o := Obs{}
			observeEvents(o, a.BC, u, h, "")
			r.op("A.eventQueries")
		}
		k := rd.Revert
		if k > len(chain)-baseLen {
			k = len(chain) - baseLen
		}
		crossed := sc.Warm && k > 0 && len(chain) > 0 && (len(chain)-1)/W > 0 && (len(chain)-1)/W != (len(chain)-k-1)/W
		for j := 0; j < k; j++ {
			restartA(fmt.Sprintf("before-revert of block %d", len(chain)-1), j == 0, 0)
			err := a.Revert()
			r.Trace.revert(a, err)
			r.op("A.revert (block %d)", len(chain)-1)
			if err != nil {
				sig, k1 := classifyRevertError(err, sc.NewState, chain)
				if !sc.NewState && hasDuplicateDeclared(chain[len(chain)-1]) && strings.Contains(err.Error(), "remove declared classes") &&
					strings.Contains(err.Error(), "key not found") {
					sig = sigDupDeclared
				}
				r.find(sig, fmt.Sprintf("RevertHead of block %d, which the node had stored, failed: %v", len(chain)-1, err),
					map[string]any{"block": len(chain) - 1, "error": err.Error(), "k1_candidate": k1 && sig == "revert-fails-on-stored-block",
						"revert_step": r.Trace.lastRevert()})
				r.hit("revert-error")
				return r
			}
			r.hit("revert-ok")
			reverted = true
			if n := len(chain) - 1; n%W == 0 || n%W == W-1 {
				r.hit(fmt.Sprintf("revert-at-window-boundary:block%%W=%d", n%W))
			}
			if len(chain) == 1 {
				r.hit("revert-genesis")
			}
			for _, ft := range specFeatures(chain[len(chain)-1], chain[:len(chain)-1]) {
				r.hit("reverted-block:" + ft)
			}
			for _, sa := range emptiedSystemContracts(chain) {
				if r.emptiedAt == nil {
					r.emptiedAt = map[string]uint64{}
				}
				r.emptiedAt[sa] = uint64(len(chain) - 1)
			}
			chain = chain[:len(chain)-1]
			afterOp(fmt.Sprintf("round %d after reverting block %d", ri, len(chain)))
		}
		p := len(chain)
		// B: a node that never saw the reverted blocks
		var b *Node
		if sc.Base != nil {
			b = sc.Base.node(fmt.Sprintf("B%d", ri))
			r.Trace.bulkNode(b.Name, sc.Base)
		} else {
			b = newNode(fmt.Sprintf("B%d", ri), sc.NewState)
			r.Trace.newNode(b.Name)
		}
		for i := baseLen; i < p; i++ {
			if err := storeOn(b, line.cg.Bundles[i], chain[i]); err != nil {
				r.rejected("B", fmt.Sprintf("prefix block %d", i), err)
				return r
			}
		}
		if s := snaps[p]; s != nil && s.Height() == p {
			line = s.CopyAtHead()
		} else if sc.Base != nil {
			r.Skipped = fmt.Sprintf("no source snapshot at fork point %d", p)
			r.BaseFailed = true
			return r
		} else {
			nl, err := line.ForkAt(p)
			if err != nil {
				r.Skipped = err.Error()
				return r
			}
			line = nl
		}
		for h := range snaps {
			if h > p {
				delete(snaps, h)
			}
		}
		restartA("before-compare after the reverts", false, 0)
		checkReverseDiff(r, a, chain, fmt.Sprintf("round %d after the reverts", ri))
		compareNodes(r, a, b, u, fmt.Sprintf("round %d after reverting %d block(s) to height %d", ri, k, p), sc.NewState, implicit, false)
		r.Trace.checkpoint(a, u, !sc.LightModel && len(rd.Fork) == 0 && ri == len(sc.Rounds)-1, sc.Base != nil && ri == 0 && sc.FullBaseDump)
		if sc.Restart {
			restartCompare(r, a, b, line, u, sc.NewState, fmt.Sprintf("round %d after the reverts", ri))
		}
		if everClosed && len(chain) < W {
			// window 0 was completed and is open again: its persisted copy must be gone (702b167)
			if _, err := core.GetAggregatedBloomFilter(a.DB, 0, core.NumBlocksPerFilter-1); err != nil {
				r.hit("reopened-window-dropped")
			} else {
				r.hit("reopened-window-still-persisted")
			}
		}
		// round 6: a block that Store must refuse, offered on the state of the fork point
		if rd.Refused != nil {
			if done := offerRefused(r, sc, rd, ri, a, b, line, u, chain, implicit, storeOn); done {
				return r
			}
		}
		// the fork
		for j, spec := range rd.Fork {
			bd, err := line.Next(spec)
			if err != nil {
				parent := &felt.Zero
				if h := line.cg.Head(); h != nil {
					parent = h.Block.Hash
				}
				r.Trace.storeRefused(a, uint64(len(chain)), parent, spec, err)
				r.Skipped = fmt.Sprintf("round %d fork block %d cannot be finalised: %v", ri, j, err)
				return r
			}
			maybeSnap()
			u.Add(bd)
			errB := storeOn(b, bd, spec)
			if errB != nil {
				r.rejected("B", fmt.Sprintf("round %d fork block %d", ri, j), errB)
				return r
			}
			if j == 0 {
				restartA(fmt.Sprintf("before-fork-store of block %d", bd.Block.Number), true, 1)
			}
			if j == 0 && sc.FailedOps {
				if attempted, err := a.StoreWrongRoot(bd); attempted {
					r.op("A.store of fork%d[0] with a wrong state root (must fail)", ri)
					r.Trace.storeWrongRoot(a, bd, err)
					if err == nil {
						r.find("block-with-wrong-state-root-stored", "Blockchain.Store accepted a block whose new state root is not the root of the updated state", nil)
						return r
					}
					r.hit("failed-op:store-wrong-root")
				}
				if c, attempted, err := a.StoreWrongParent(bd); attempted {
					r.op("A.store of fork%d[0] with a parent hash that is not the head's (must fail)", ri)
					r.Trace.store(a, c, nil, err)
					if err == nil {
						r.find("block-not-extending-head-stored", "Store accepted a block whose parent hash is not the head's hash", nil)
						return r
					}
					r.hit("failed-op:store-wrong-parent")
				}
				if c, attempted, err := a.StoreUnsupportedVersion(bd); attempted {
					r.op("A.store of fork%d[0] with protocol version 0.15.0 (must fail)", ri)
					r.Trace.store(a, c, nil, err)
					if err == nil {
						r.find("block-with-unsupported-version-stored", "Store accepted a block whose protocol version is above the latest supported one", nil)
						return r
					}
					r.hit("failed-op:store-unsupported-version")
				}
				if len(line.cg.Bundles) >= 2 {
					// a block that does not extend the head (its parent is stored already)
					if err := storeOn(a, line.cg.Bundles[len(line.cg.Bundles)-2], nil); err == nil {
						r.find("block-not-extending-head-stored", "Store accepted a block whose number/parent do not extend the head", nil)
						return r
					}
					r.op("A.store of an already stored block (must fail)")
					r.hit("failed-op:store-not-extending-head")
				}
			}
			errA := storeOn(a, bd, spec)
			r.op("A.store fork%d[%d] %s", ri, j, specSummary(spec))
			if errA != nil {
				r.find("store-fails-after-revert", fmt.Sprintf("round %d: A cannot store fork block %d (number %d) that B stored: %v", ri, j, bd.Block.Number, errA),
					map[string]any{"error": errA.Error()})
				return r
			}
			chain = append(chain, spec)
			if len(chain) >= W {
				everClosed = true
			}
			afterOp(fmt.Sprintf("round %d after storing fork block %d", ri, len(chain)-1))
		}
		if len(rd.Fork) > 0 {
			restartA("before-compare after the fork", false, 0)
			checkReverseDiff(r, a, chain, fmt.Sprintf("round %d after the fork", ri))
			compareNodes(r, a, b, u, fmt.Sprintf("round %d after following the fork to height %d", ri, len(chain)), sc.NewState, implicit, crossed)
			r.Trace.checkpoint(a, u, !sc.LightModel && ri == len(sc.Rounds)-1, false)
		}
		if sc.Restart {
			restartCompare(r, a, b, line, u, sc.NewState, fmt.Sprintf("round %d", ri))
		}
		r.hit(fmt.Sprintf("fork-depth=%s", bucketInt(k)))
	}
	return r
}

// restartCompare opens new Blockchain instances on copies of both databases, offers both the
// same next block and compares outcome and event answers.
func restartCompare(r *ExecResult, a, b *Node, line *Line, u *Universe, newState bool, when string) {
	a2, b2 := a.Restarted(newState), b.Restarted(newState)
	probeLine := line.CopyAtHead()
	v := "0.14.0"
	if h := probeLine.cg.Head(); h != nil {
		v = h.Block.ProtocolVersion
	}
	spec := &lib.BlockSpec{Version: v, Diff: emptyDiff(), Txs: nil, NoTxs: true}
	bd, err := probeLine.Next(spec)
	if err != nil {
		r.Skipped = "restart probe block cannot be finalised: " + err.Error()
		return
	}
	if h0, err := b.BC.Height(); err == nil {
		o1, o2 := Obs{}, Obs{}
		observeEvents(o1, a2.BC, u, h0, "")
		observeEvents(o2, b.BC, u, h0, "")
		if d := diffObs(o1, o2); len(d) > 0 {
			r.find("restarted-node-event-query-differs-after-revert", fmt.Sprintf("%s: a restarted copy of A and B give %d different event answers, first %s: A=%s B=%s", when, len(d), d[0].Query, d[0].A, d[0].B), d[0])
		}
	}
	ea, eb := a2.Store(bd), b2.Store(bd)
	r.hit("restart-compared")
	if (ea == nil) != (eb == nil) {
		sig := "restarted-node-store-differs-after-revert"
		if ea != nil && strings.Contains(ea.Error(), "block number is not within range") && r.has(sigStaleWindow) {
			sig = sigStaleWindow
		}
		r.find(sig,
			fmt.Sprintf("%s: after a restart A answers %q and B answers %q to the same next block %d", when, errClass(ea), errClass(eb), bd.Block.Number),
			map[string]any{"a": errClass(ea), "b": errClass(eb)})
		return
	}
	if ea != nil {
		return
	}
	ha, _ := a2.BC.Height()
	oa, ob := Obs{}, Obs{}
	observeEvents(oa, a2.BC, u, ha, "")
	observeEvents(ob, b2.BC, u, ha, "")
	if d := diffObs(oa, ob); len(d) > 0 {
		r.find("restarted-node-event-query-differs-after-revert", fmt.Sprintf("%s: after a restart %d event answers differ, first %s: A=%s B=%s", when, len(d), d[0].Query, d[0].A, d[0].B), d[0])
	}
}

func bucketInt(k int) string {
	switch {
	case k <= 3:
		return fmt.Sprint(k)
	case k <= 6:
		return "4-6"
	default:
		return "7+"
	}
}

// specSummary is a short human-readable description of a block spec for replays.
func specSummary(s *lib.BlockSpec) string {
	d := s.Diff
	var parts []string
	parts = append(parts, "v"+s.Version, fmt.Sprintf("txs=%d", len(s.Txs)))
	addrs := func(m map[felt.Felt]*felt.Felt) string {
		var xs []string
		for a, v := range m {
			xs = append(xs, a.String()+"->"+v.String())
		}
		sort.Strings(xs)
		return strings.Join(xs, ",")
	}
	if len(d.DeployedContracts) > 0 {
		parts = append(parts, "deploy{"+addrs(d.DeployedContracts)+"}")
	}
	if len(d.ReplacedClasses) > 0 {
		parts = append(parts, "replace{"+addrs(d.ReplacedClasses)+"}")
	}
	if len(d.Nonces) > 0 {
		parts = append(parts, "nonce{"+addrs(d.Nonces)+"}")
	}
	if len(d.StorageDiffs) > 0 {
		var xs []string
		for a, kv := range d.StorageDiffs {
			xs = append(xs, a.String()+":{"+addrs(kv)+"}")
		}
		sort.Strings(xs)
		parts = append(parts, "storage{"+strings.Join(xs, " ")+"}")
	}
	if len(d.DeclaredV0Classes) > 0 {
		var xs []string
		for _, c := range d.DeclaredV0Classes {
			xs = append(xs, c.String())
		}
		parts = append(parts, "declareV0{"+strings.Join(xs, ",")+"}")
	}
	if len(d.DeclaredV1Classes) > 0 {
		parts = append(parts, "declareV1{"+addrs(d.DeclaredV1Classes)+"}")
	}
	if len(d.MigratedClasses) > 0 {
		var xs []string
		for c, h := range d.MigratedClasses {
			cc, hh := felt.Felt(c), felt.Felt(h)
			xs = append(xs, cc.String()+"->"+hh.String())
		}
		sort.Strings(xs)
		parts = append(parts, "migrate{"+strings.Join(xs, ",")+"}")
	}
	if len(s.Classes) > 0 {
		parts = append(parts, fmt.Sprintf("classdefs=%d", len(s.Classes)))
	}
	for _, tx := range s.Txs {
		parts = append(parts, fmt.Sprintf("%T", tx)[6:])
	}
	return strings.Join(parts, " ")
}

// specFeatures names what a block does (for the distribution of reverted blocks).
func specFeatures(s *lib.BlockSpec, before []*lib.BlockSpec) []string {
	st := lib.NewAbsState()
	for i, b := range before {
		st.Apply(uint64(i), b.Diff, b.Classes)
	}
	var out []string
	d := s.Diff
	if len(d.DeployedContracts) > 0 {
		out = append(out, "deploy")
	}
	if len(d.ReplacedClasses) > 0 {
		out = append(out, "replace-class")
	}
	if len(d.Nonces) > 0 {
		out = append(out, "nonce")
	}
	// several entries in one section (an implementation that handles the first / the last one right only)
	if len(d.ReplacedClasses) >= 2 {
		out = append(out, "replace-class>=2-entries")
	}
	if len(d.Nonces) >= 2 {
		out = append(out, "nonce>=2-entries")
	}
	if len(d.DeployedContracts) >= 2 {
		out = append(out, "deploy>=2-entries")
	}
	if len(d.StorageDiffs) >= 2 {
		out = append(out, "storage>=2-addresses")
	}
	if len(d.DeclaredV0Classes)+len(d.DeclaredV1Classes) >= 2 {
		out = append(out, "declare>=2-entries")
	}
	if len(d.DeclaredV0Classes) > 0 {
		out = append(out, "declare-cairo0")
		for _, c := range d.DeclaredV0Classes {
			if _, ok := st.Classes[*c]; ok {
				out = append(out, "redeclare-cairo0")
			}
		}
	}
	if len(d.DeclaredV1Classes) > 0 {
		out = append(out, "declare-sierra")
	}
	if len(d.MigratedClasses) > 0 {
		out = append(out, "casm-migration")
	}
	for _, tx := range s.Txs {
		if _, ok := tx.(*core.L1HandlerTransaction); ok {
			out = append(out, "l1-handler")
			break
		}
	}
	if len(s.Txs) > 0 {
		out = append(out, "txs")
	}
	declared := map[felt.Felt]bool{}
	for _, c := range d.DeclaredV0Classes {
		declared[*c] = true
	}
	for c := range d.DeclaredV1Classes {
		declared[c] = true
	}
	for c := range s.Classes {
		if !declared[c] {
			out = append(out, "class-for-deployed-contract")
			break
		}
	}
	seen := map[string]bool{}
	for a, kv := range d.StorageDiffs {
		sys := a.Equal(lib.F(1)) || a.Equal(lib.F(2))
		if sys {
			seen["system-contract-write"] = true
		}
		if _, ok := d.DeployedContracts[a]; ok {
			seen["deploy-then-touch"] = true
		}
		for k, v := range kv {
			cur := felt.Zero
			if c := st.Contracts[a]; c != nil {
				cur = c.Storage[k]
			}
			switch {
			case v.IsZero() && cur.IsZero():
				seen["zero-write-to-unwritten-slot"] = true
			case v.IsZero():
				seen["storage-delete"] = true
			case v.Equal(&cur):
				seen["same-value-rewrite"] = true
			case cur.IsZero():
				seen["storage-insert"] = true
			default:
				seen["storage-overwrite"] = true
			}
		}
		if sys {
			// does the block leave the system contract with empty storage?
			after := st.Clone()
			after.Apply(uint64(len(before)), d, s.Classes)
			if c := after.Contracts[a]; c == nil || len(c.Storage) == 0 {
				seen["system-contract-left-empty"] = true
			}
		}
	}
	for k := range seen {
		out = append(out, k)
	}
	if len(out) == 0 {
		out = append(out, "empty")
	}
	return out
}
