//go:build verif

package main

import (
	"fmt"
	"sort"

	"github.com/NethermindEth/juno/core"
	"github.com/NethermindEth/juno/core/felt"
	"verif/harness/lib"
)

// Round 6: blocks that REPEAT something the chain already did, or touch something that is not there.
// State.Update / storeCasmHashMetadata must refuse them (the store-time guards the revert side relies on:
// RevertHead un-deploys every deployed address, un-migrates every migrated class, so a block that was
// allowed to deploy / migrate "again" cannot be undone). They are drawn from the history of the case — the
// class a block of the surviving chain migrated, the address it deployed — and offered to node A right
// after the reverts of a round, on the very state the fork point has.
//
// refusedKinds: kind -> the error class the real code and the model must both answer.
var refusedKinds = map[string]string{
	"already-migrated-class-migrated-again":        "err:casm",
	"v2-declared-class-migrated":                   "err:casm",
	"class-declared-and-migrated-at-once":          "err:casm",
	"deployed-address-deployed-again":              "err:contractExists", // with the class it has
	"deployed-address-deployed-with-another-class": "err:contractExists",
	"nonce-of-absent-contract":                     "err:contractMissing",
	"class-replaced-on-absent-contract":            "err:contractMissing",
	"storage-of-absent-contract":                   "err:contractMissing",
}

type repeatCand struct {
	kind    string
	version string // minimal protocol version the block needs ("" = any)
	apply   func(d *core.StateDiff, classes map[felt.Felt]core.ClassDefinition)
}

func maxVersion(a, b string) string {
	if a == "" {
		return b
	}
	if b == "" || a >= b {
		return a
	}
	return b
}

// repeatCandidates lists every refused block the history allows. st = abstract state at the fork point,
// chain = the blocks the node holds there.
func repeatCandidates(g *lib.ChainGen, st *lib.AbsState, chain, revertedBlocks []*lib.BlockSpec) []repeatCand {
	var out []repeatCand
	// classes migrated / declared with the V2 hash by a block of the surviving chain
	migrated := map[felt.Felt]felt.Felt{}
	declaredV2 := map[felt.Felt]felt.Felt{}
	for _, s := range chain {
		for c, h := range s.Diff.MigratedClasses {
			migrated[felt.Felt(c)] = felt.Felt(h)
		}
		if s.Version >= "0.14.1" {
			for c, h := range s.Diff.DeclaredV1Classes {
				declaredV2[c] = *h
			}
		}
	}
	for _, c := range sortedKeys(migrated) {
		c, h := c, migrated[c]
		out = append(out, repeatCand{"already-migrated-class-migrated-again", "0.14.1", func(d *core.StateDiff, _ map[felt.Felt]core.ClassDefinition) {
			d.MigratedClasses[felt.SierraClassHash(c)] = felt.CasmClassHash(h)
		}})
	}
	for _, c := range sortedKeys(declaredV2) {
		c, h := c, declaredV2[c]
		if _, also := migrated[c]; also {
			continue
		}
		out = append(out, repeatCand{"v2-declared-class-migrated", "0.14.1", func(d *core.StateDiff, _ map[felt.Felt]core.ClassDefinition) {
			d.MigratedClasses[felt.SierraClassHash(c)] = felt.CasmClassHash(h)
		}})
	}
	// a class of our own (never used by the generator): declared with the V2 hash and migrated by the same block
	{
		h, cls, _, c2 := mySierra(40)
		if _, known := st.Classes[h]; !known {
			out = append(out, repeatCand{"class-declared-and-migrated-at-once", "0.14.1", func(d *core.StateDiff, classes map[felt.Felt]core.ClassDefinition) {
				cc := c2
				d.DeclaredV1Classes[h] = &cc
				classes[h] = cls
				d.MigratedClasses[felt.SierraClassHash(h)] = felt.CasmClassHash(c2)
			}})
		}
	}
	var deployed []felt.Felt
	for a, ok := range st.Deployed {
		if ok {
			deployed = append(deployed, a)
		}
	}
	sort.Slice(deployed, func(i, j int) bool { return deployed[i].Cmp(&deployed[j]) < 0 })
	for _, a := range deployed {
		a := a
		cur := st.Contracts[a].Class
		out = append(out, repeatCand{"deployed-address-deployed-again", "", func(d *core.StateDiff, _ map[felt.Felt]core.ClassDefinition) {
			ch := cur
			d.DeployedContracts[a] = &ch
			delete(d.ReplacedClasses, a)
		}})
		other := g.ClassHash(0)
		if other.Equal(&cur) {
			other = g.ClassHash(1)
		}
		out = append(out, repeatCand{"deployed-address-deployed-with-another-class", "", func(d *core.StateDiff, _ map[felt.Felt]core.ClassDefinition) {
			ch := other
			d.DeployedContracts[a] = &ch
			delete(d.ReplacedClasses, a)
		}})
	}
	// an ordinary address that holds nothing: preferably one whose deployment was just reverted
	var absent []felt.Felt
	for _, s := range revertedBlocks {
		absent = append(absent, sortedKeys(s.Diff.DeployedContracts)...)
	}
	for i := 2; i < 2+g.Opt.NAddr+1; i++ {
		absent = append(absent, g.Addr(i))
	}
	for _, a := range absent {
		a := a
		if _, ok := st.Contracts[a]; ok || st.Deployed[a] {
			continue
		}
		out = append(out,
			repeatCand{"nonce-of-absent-contract", "", func(d *core.StateDiff, _ map[felt.Felt]core.ClassDefinition) {
				if _, now := d.DeployedContracts[a]; now {
					delete(d.DeployedContracts, a)
					delete(d.ReplacedClasses, a)
					delete(d.StorageDiffs, a)
				}
				d.Nonces[a] = lib.F(1)
			}},
			repeatCand{"class-replaced-on-absent-contract", "", func(d *core.StateDiff, _ map[felt.Felt]core.ClassDefinition) {
				if _, now := d.DeployedContracts[a]; now {
					delete(d.DeployedContracts, a)
					delete(d.Nonces, a)
					delete(d.StorageDiffs, a)
				}
				ch := g.ClassHash(2)
				d.ReplacedClasses[a] = &ch
			}},
			repeatCand{"storage-of-absent-contract", "", func(d *core.StateDiff, _ map[felt.Felt]core.ClassDefinition) {
				if _, now := d.DeployedContracts[a]; now {
					delete(d.DeployedContracts, a)
					delete(d.Nonces, a)
					delete(d.ReplacedClasses, a)
				}
				d.StorageDiffs[a] = map[felt.Felt]*felt.Felt{g.Slot(2): lib.F(3)}
			}})
		break
	}
	return out
}

// RefusedBlock draws one refused block for the fork point (nil when the history allows none): the repeated
// element alone, or inside an ordinary block of the generator (half of the time).
func (g *Gen) RefusedBlock(st *lib.AbsState, chain, revertedBlocks []*lib.BlockSpec, num uint64, headVersion string) (*lib.BlockSpec, string) {
	cands := repeatCandidates(g.G, st, chain, revertedBlocks)
	if len(cands) == 0 {
		return nil, ""
	}
	// kinds first, then one candidate of the kind: the rare kinds (migrations) are not drowned by the addresses
	byKind := map[string][]repeatCand{}
	var kinds []string
	for _, c := range cands {
		if len(byKind[c.kind]) == 0 {
			kinds = append(kinds, c.kind)
		}
		byKind[c.kind] = append(byKind[c.kind], c)
	}
	sort.Strings(kinds)
	// history-dependent kinds are preferred when they exist
	var rare []string
	for _, k := range kinds {
		if k == "already-migrated-class-migrated-again" || k == "v2-declared-class-migrated" {
			rare = append(rare, k)
		}
	}
	kind := lib.Pick(g.R, kinds)
	if len(rare) > 0 && g.R.Chance(2, 3) {
		kind = lib.Pick(g.R, rare)
	}
	c := lib.Pick(g.R, byKind[kind])
	v := headVersion
	if v == "" {
		v = "0.14.0"
	}
	v = maxVersion(v, c.version)
	var spec *lib.BlockSpec
	if g.R.Bool() {
		spec = g.Block(st, num, v)
	} else {
		spec = &lib.BlockSpec{Version: v, Diff: emptyDiff(), Classes: map[felt.Felt]core.ClassDefinition{}, NoTxs: true}
	}
	if spec.Classes == nil {
		spec.Classes = map[felt.Felt]core.ClassDefinition{}
	}
	c.apply(spec.Diff, spec.Classes)
	return spec, kind
}

// refusedSpec builds a directed refused block.
func refusedSpec(version string, edit func(d *core.StateDiff, classes map[felt.Felt]core.ClassDefinition)) *lib.BlockSpec {
	s := &lib.BlockSpec{Version: version, Diff: emptyDiff(), Classes: map[felt.Felt]core.ClassDefinition{}, NoTxs: true}
	edit(s.Diff, s.Classes)
	return s
}

// offerRefused offers the round's refused block on the fork point: the source node (the same code) is asked to
// finalise it; when it refuses, the model must refuse with the same error class. When the tree under test builds
// the block, node A stores it like any other block and reverts it at once: "every block the node was able to
// store" can be undone, and A must equal B, which never saw it. Returns true when the case ends here.
func offerRefused(r *ExecResult, sc *Scenario, rd Round, ri int, a, b *Node, line *Line, u *Universe, chain []*lib.BlockSpec,
	implicit map[string]bool, storeOn func(*Node, *lib.Bundle, *lib.BlockSpec) error) bool {
	num := uint64(len(chain))
	kind := rd.RefusedKind
	pl := line.CopyAtHead()
	bd, err := pl.Next(rd.Refused)
	if err != nil {
		parent := &felt.Zero
		if h := line.cg.Head(); h != nil {
			parent = h.Block.Hash
		}
		r.Trace.storeRefused(a, num, parent, rd.Refused, err)
		got := modelErrClass(err)
		if got == "err:notFound" && sc.NewState {
			got = "err:contractMissing"
		}
		r.op("block %d that Store must refuse (%s: %s) is refused: %s", num, kind, specSummary(rd.Refused), got)
		if want := refusedKinds[kind]; want != "" && got != want {
			r.hit("refused-op-with-another-error:" + kind + ":" + got)
		} else {
			r.hit("refused-op:" + kind)
		}
		return false
	}
	u.Add(bd)
	if errA := storeOn(a, bd, rd.Refused); errA != nil {
		r.op("block %d (%s) finalised by the source node, refused by A: %v", num, kind, errA)
		r.hit("refused-op-by-A-only:" + kind)
		return false
	}
	r.op("A.store block %d that Store used to refuse (%s) %s", num, kind, specSummary(rd.Refused))
	r.hit("refused-block-was-stored:" + kind)
	before := len(r.Findings)
	err = a.Revert()
	r.Trace.revert(a, err)
	r.op("A.revert (block %d)", num)
	if err != nil {
		r.find("revert-fails-on-stored-block", fmt.Sprintf("RevertHead of block %d (%s), which the node had stored, failed: %v", num, kind, err),
			map[string]any{"block": num, "error": err.Error(), "offered": kind, "revert_step": r.Trace.lastRevert()})
		r.hit("revert-error")
		return true
	}
	r.hit("revert-ok")
	checkReverseDiff(r, a, chain, fmt.Sprintf("round %d after storing and reverting block %d (%s)", ri, num, kind))
	compareNodes(r, a, b, u, fmt.Sprintf("round %d after storing and reverting block %d (%s)", ri, num, kind), sc.NewState, implicit, false)
	return len(r.Findings) > before
}
