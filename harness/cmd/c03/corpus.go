//go:build verif

package main

import (
	"fmt"
	"strings"
)

// Directed histories, run before the random ones on every seed. They pin the boundary cases of
// both history encodings: read exactly at / just before / just after a change, first and last
// log, deploy height, no-op writes, logs deleted by a revert, class declared-at, CASM migration,
// and the system-contract cases (one backend at a time where the backends' roots differ).
//
// Addresses 0x104/0x105 are ordinary, 0x1/0x2 the system contracts, slots 2,3,4, class hashes
// c000..c003 (contract classes, need not be declared).

func st(version, diff string) Step { return Step{Op: "store", Version: version, Diff: diff} }

var rv = Step{Op: "revert"}

func corpus() []scenario {
	initOnce()
	both := []bool{false, true}
	v := "0.13.2"
	c0 := hx(&cairo0Fxs[0])
	s0, s1 := sierraFxs[0], sierraFxs[1]
	boundaries := []Step{
		st(v, "sa 104 sk 2 5 d 104 c000"),            // 0: deploy + first write in the same block
		st(v, ""),                                    // 1
		st(v, "sa 104 sk 2 6 n 104 1"),               // 2: overwrite, first nonce
		st(v, "r 104 c001"),                          // 3: replace class
		st(v, "sa 104 sk 2 0 n 104 2 d 105 c002"),    // 4: delete slot, second contract
		st(v, "sa 104 sk 2 0 sk 3 0 sa 105 sk 2 0"),  // 5: zero to a now-unset and to never-written slots (no-ops)
		st(v, "sa 104 sk 2 7 sa 105 sk 4 1 n 105 1"), // 6
		rv, rv, rv, // back to head 3
		st(v, "sa 104 sk 2 6 n 104 3"), // 4': same-value rewrite
		st(v, "r 104 c001"),            // 5': same-class replace
		st(v, "r 104 c000 sa 104 sk 2 0"),
		rv,
		st(v, "r 104 c000 sa 104 sk 2 0"), // re-apply
		rv, rv, rv, rv, rv, rv, rv,        // down to the empty chain
		st(v, "d 105 c003"),
		st(v, "n 105 5 sa 105 sk 3 9"),
	}
	l1 := []Step{
		st(v, "sa 104 sk 2 1 d 104 c000"),
		st(v, "sa 104 sk 2 2 sk 3 0"),
		rv,
		st(v, "sa 104 sk 3 4"),
		st(v, "sa 104 sk 3 0"),
		st(v, "sa 104 sk 3 0"),
		rv, rv,
	}
	system := []Step{
		st(v, "d 104 c000"),
		st(v, "sa 1 sk 2 5"),
		st(v, "sa 2 sk 0 1"),
		st(v, "sa 1 sk 3 6 sk 2 0"),
		rv,
		st(v, "sa 1 sk 2 5 sk 4 0"),
		rv, rv, rv,
		st(v, "sa 1 sk 3 8 sa 2 sk 0 2"),
		st(v, ""),
	}
	classes := []Step{
		st("0.13.4", "c0 "+c0),
		st("0.13.4", "c1 "+hx(&s0.hash)+" "+hx(&s0.casm1)+" "+hx(&s0.casm2)),
		st("0.14.0", ""),
		st("0.14.1", "m "+hx(&s0.hash)+" "+hx(&s0.casm2)+" c1 "+hx(&s1.hash)+" "+hx(&s1.casm2)+" "+hx(&s1.casm2)),
		st("0.14.1", "d 104 "+hx(&s0.hash)),
		rv, rv,
		st("0.14.1", "m "+hx(&s0.hash)+" "+hx(&s0.casm2)),
		rv, rv, rv,
		st("0.14.1", "c1 "+hx(&s0.hash)+" "+hx(&s0.casm2)+" "+hx(&s0.casm2)),
		st("0.14.1", "c0 "+c0), // listed again: keeps the first declaration height …
		rv,                     // … and survives the revert of this block
	}
	// a block that empties the storage of a system contract
	drain := []Step{
		st(v, "sa 1 sk 2 5"),
		st(v, "d 104 c000"),
		st(v, "sa 1 sk 2 0"),
		st(v, ""),
		st(v, "sa 1 sk 3 9"),
		st(v, ""),
	}
	drainRevert := []Step{
		st(v, "sa 1 sk 2 5"),
		st(v, ""),
		st(v, "sa 1 sk 2 0"),
		rv,
		st(v, ""),
	}
	zeroFirst := []Step{ // a zero write is the first thing a system contract ever sees
		st(v, "sa 2 sk 2 0"),
		st(v, "sa 2 sk 2 3"),
		rv, rv,
	}
	dis := func(op, version, diff string) Step { return Step{Op: op, Version: version, Diff: diff} }
	// operations juno must discard, each deleting / overwriting live data, between accepted blocks;
	// readers opened at every step are held and re-queried afterwards
	discarded := []Step{
		st(v, "sa 104 sk 2 5 sk 3 6 d 104 c000 sa 1 sk 2 7"),
		st(v, "sa 104 sk 4 1 n 104 1 d 105 c001 sa 105 sk 2 9"),
		dis("simulate", v, "sa 104 sk 2 0 sk 3 0 sk 4 0 n 104 2 r 104 c003 sa 105 sk 2 0"),
		dis("store-dropped", v, "sa 104 sk 2 0 sk 3 8 n 104 2 r 104 c003 sa 1 sk 2 0 sk 3 1"),
		dis("store-wrong-root", v, "sa 104 sk 3 0 sa 105 sk 2 0 d 106 c002"),
		dis("store-late-fail", "0.14.1", "m "+hx(&s1.hash)+" "+hx(&s1.casm2)+" sa 104 sk 2 0 sk 4 0"),
		Step{Op: "revert-dropped"},
		st(v, "sa 104 sk 2 0 n 104 2"),
		dis("simulate", v, "sa 104 sk 3 0 sk 4 0 sa 105 sk 2 0"),
		Step{Op: "revert-dropped"},
		rv,
		dis("store-dropped", v, "sa 104 sk 2 0 sk 3 0 sk 4 0"),
		st(v, "sa 104 sk 4 0"),
	}
	// an address both deployed and replaced by ONE diff: not a well-formed Starknet state diff (an
	// address is "deployed" iff it had no class before the block), but juno stores such a block
	deployReplace := []Step{
		st(v, "d 104 c000"),
		st(v, "d 106 c000 r 106 c003 n 106 1"),
		st(v, ""),
		rv, rv,
		st(v, "d 106 c001 r 106 c002"),
	}
	// a block that lists the same Cairo-0 class twice (DeclaredV0Classes is a slice), then its
	// revert: before 7460746 the legacy backend could not revert it (the model follows the tree
	// through the dupDeclFix probe; a refused revert must not change any read)
	c0b := hx(&cairo0Fxs[1])
	listedTwice := []Step{
		st(v, "d 104 c000 sa 104 sk 2 5"),
		st(v, "c0 "+c0b+" c0 "+c0b+" sa 104 sk 2 6 sk 3 1 n 104 1"),
		st(v, ""),
		rv,
		rv,
	}
	// the definition of a Sierra class is supplied for a deployed contract (no declaration), a
	// later block declares the class; reverting that block fails on the new backend
	laterDecl := []Step{
		st("0.13.4", "d 104 "+hx(&s0.hash)+" x "+hx(&s0.hash)+" sa 104 sk 2 5"),
		st("0.13.4", "c1 "+hx(&s0.hash)+" "+hx(&s0.casm1)+" "+hx(&s0.casm2)+" sa 104 sk 2 6"),
		rv,
	}
	// a CASM migration that carries another hash than the one juno computed itself
	foreignMig := []Step{
		st("0.13.4", "c1 "+hx(&s0.hash)+" "+hx(&s0.casm1)+" "+hx(&s0.casm2)),
		st("0.14.1", "m "+hx(&s0.hash)+" abc"),
		st("0.14.1", ""),
		rv,
		rv,
		st("0.14.1", "m "+hx(&s0.hash)+" "+hx(&s0.casm2)),
	}
	// blocks a guard must reject, one guard each, between accepted blocks
	invalid := []Step{
		st("0.13.4", "d 104 c000 sa 104 sk 2 5 sk 3 6 c1 "+hx(&s0.hash)+" "+hx(&s0.casm1)+" "+hx(&s0.casm2)),
		dis("store-invalid", "0.13.4", "d 104 c001 sa 104 sk 2 0"),
		dis("store-invalid", "0.13.4", "r 107 c002 sa 104 sk 2 0"),
		dis("store-invalid", "0.13.4", "n 107 3 sa 104 sk 3 0"),
		dis("store-invalid", "0.13.4", "sa 107 sk 2 7 sa 104 sk 2 0 sk 3 0"),
		st("0.14.1", "m "+hx(&s0.hash)+" "+hx(&s0.casm2)+" c1 "+hx(&s1.hash)+" "+hx(&s1.casm2)+" "+hx(&s1.casm2)),
		dis("store-invalid", "0.14.1", "m "+hx(&s0.hash)+" "+hx(&s0.casm2)+" sa 104 sk 2 0"),
		dis("store-invalid", "0.14.1", "m "+hx(&s1.hash)+" "+hx(&s1.casm2)+" sa 104 sk 3 0"),
		dis("store-invalid", "0.14.1", "d 104 c003"),
		st("0.14.1", "sa 104 sk 2 0"),
		rv,
	}
	// values at the edges of the domain: class hash 0, nonce written as 0 and lowered, the largest
	// felt, same-value rewrites, replace to class 0 and back, with reverts in between
	pm1 := "800000000000011000000000000000000000000000000000000000000000000"
	extremes := []Step{
		st(v, "d 104 0 sa 104 sk 2 "+pm1+" n 104 0"),
		st(v, "n 104 5 sa 104 sk 2 "+pm1+" sk 3 "+pm1),
		st(v, "n 104 2 r 104 c001 sa 104 sk 2 1"),
		st(v, "r 104 0 n 104 0 sa 104 sk 3 0"),
		rv,
		st(v, "r 104 c001 n 104 "+pm1),
		rv, rv,
		st(v, "d 105 "+pm1+" sa 105 sk 4 "+pm1),
	}
	// the retention floor: destinations built with a seeded floor (the way node/node.go builds the
	// Blockchain). A chain of 7 blocks with changes at every height; then the commitments below block 3
	// are deleted (what the pruner leaves in the bucket the floor is seeded from) and the processes
	// restarted: floor 2 — block 2 is the lowest block served by number, blocks 0 and 1 are refused, views
	// by hash and the head are not affected; then the chain is reverted to BELOW the floor and grows
	// again (block numbers at and just above the floor change hands), one more prune step, restarts
	// in between.
	pp := func(m int) Step { return Step{Op: "prune-probe", Diff: fmt.Sprintf("%x", m)} }
	floor := []Step{
		st(v, "d 104 c000 sa 104 sk 2 1 sa 1 sk 2 5"),
		st(v, "sa 104 sk 2 2 n 104 1"),
		st(v, "sa 104 sk 3 3 r 104 c001"),
		st(v, "sa 104 sk 2 0 d 105 c002"),
		st(v, "sa 105 sk 2 4 n 104 2"),
		st(v, "sa 104 sk 2 5 sk 3 0"),
		st(v, "n 105 1"),
		pp(1), // oldest retained 1: floor 0, nothing refused
		pp(3), // floor 2
		st(v, "sa 104 sk 4 7"),
		rv, rv, rv, rv, rv, // head back to block 2 = the floor
		Step{Op: "restart"},
		rv, // head 1: below the floor, no block number has a view; by hash and head still served
		st(v, "sa 104 sk 2 9"),
		st(v, "sa 104 sk 2 8 n 104 5"), // block 3 again
		Step{Op: "restart"},
		st(v, ""),
		pp(4),
		st(v, "sa 104 sk 3 1"),
	}
	// a system contract whose creation is reverted: the blocks that created 0x1 and 0x2 are reverted
	// and the chain grows again past their heights WITHOUT touching them — they must not exist at any
	// block (a deployment height, record or history entry left behind by the revert would answer 0);
	// then 0x1 is created again higher up (its height is the new block's), reverted, and once more
	sysRevert := []Step{
		st(v, "d 104 c000 sa 104 sk 2 1"),
		st(v, "sa 1 sk 2 5"),        // 1: creates 0x1
		st(v, "sa 2 sk 3 1 sk 4 2"), // 2: creates 0x2
		st(v, "sa 1 sk 2 6"),        // 3
		rv, rv, rv,                  // head 0: both creations reverted
		st(v, "sa 104 sk 2 2"), // 1'
		st(v, ""),              // 2'
		st(v, "n 104 1"),       // 3'
		st(v, "sa 1 sk 4 2"),   // 4: 0x1 again, created at 4
		st(v, "sa 104 sk 3 1"), // 5
		rv, rv,                 // head 3: gone again
		st(v, "r 104 c001"),  // 4'
		st(v, "sa 2 sk 0 9"), // 5': 0x2, created at 5
		st(v, ""),
	}
	// BYTE BOUNDARY (round 5). Addresses and slots whose big-endian bytes end in 0xff, each with the
	// address / slot right above it (universe "ff", reads.go). The new backend purges a contract with a
	// prefix DeleteRange over bucket ++ address and reads its histories through iterators bounded on
	// bucket ++ address [++ slot]: the bound of a prefix ending in 0xff needs the carry into the byte
	// before the run. Contracts 0x200, 0x10000, 2^250 (the upper neighbours) are deployed FIRST and
	// filled; then 0x1ff, 0xffff, 2^250-1 are deployed right below them, written, and their deployments
	// reverted, re-applied, reverted again: every read of the neighbours — head (leaf nodes by path) and
	// historical — must be untouched, on both backends. Then the iterator shapes: an entry of the upper
	// neighbour (address for nonce / class hash, slot for storage) exactly at the block that is read,
	// while the key ending in 0xff has no entry at or after it.
	k1 := "3ffffffffffffffffffffffffffffffffffffffffffffffffffffffffffffff" // 2^250 - 1
	k2 := "400000000000000000000000000000000000000000000000000000000000000" // 2^250
	m1, p0 := k1, k2                                                        // the same pair as addresses (trie keys have 251 bits)
	boundary := []Step{
		st(v, "d 200 c000 sa 200 sk ff 7 sk 100 8 sk 0 1 n 200 1"),                                      // 0
		st(v, "d 10000 c001 sa 10000 sk ff 3 sk "+k1+" 4 d "+p0+" c002 sa "+p0+" sk 100 9 sk "+k2+" 2"), // 1
		st(v, "d 1ff c001 sa 1ff sk ff 5 sk 100 6"),                                                     // 2: right below 0x200
		rv, // purge of 0x1ff: the nodes of 0x200 .. 0x2fe must stay
		st(v, "d ffff c002 sa ffff sk 0 4 d "+m1+" c000 sa "+m1+" sk ff 1 sk "+k1+" 3"), // 2'
		st(v, "n 200 2 sa 200 sk 100 9 n 10000 1"),                                      // 3
		rv, rv, // purge of 0xffff and of 2^250-1
		st(v, "d 1ff c002 d ffff c000 d "+m1+" c001 sa 1ff sk "+k1+" 2"), // 2'': all three at once
		st(v, "sa 1ff sk "+k2+" 6 sa 200 sk ff 0 n 1ff 1 r 200 c003"),    // 3'
		st(v, "n 200 3 r 10000 c002 sa 200 sk 100 2 sa "+p0+" sk 0 1"),   // 4: entries of the upper neighbours at block 4
		st(v, "sa 200 sk "+k2+" 5 n "+p0+" 1"),                           // 5
		rv, rv, rv, rv,                                                   // back to head 1
		st(v, "sa 200 sk ff 2"),
	}
	// slots only: one contract, the slot pairs (0xff, 0x100) and (2^250-1, 2^250) written at different
	// blocks so that for each pair there is a block where only the UPPER slot has an entry
	boundarySlots := []Step{
		st(v, "d 200 c000 sa 200 sk ff 1 sk "+k1+" 2"), // 0
		st(v, ""),                            // 1
		st(v, "sa 200 sk 100 3 sk "+k2+" 4"), // 2: first entries of the upper slots
		st(v, "sa 200 sk 100 5"),             // 3
		st(v, "sa 200 sk ff 0 sk "+k2+" 0"),  // 4
		rv, rv,                               // head 2
		st(v, "sa 200 sk "+k2+" 7 sa 1 sk ff 1 sk 100 2"), // 3'
		st(v, "sa 1 sk 100 3"),                            // 4'
	}
	// WIDE BLOCKS (round 5): State.commit (new) and updateContractStorages (legacy) commit the storage of
	// the contracts of a block in a worker pool of GOMAXPROCS goroutines, heaviest contract first, and
	// merge the results; blocks that touch 40 contracts (+ the system contracts) at once — deployments,
	// writes of different sizes per contract, deletes, nonces, class replacements — and their reverts.
	all := func(f func(i int) string) string {
		var parts []string
		for i := 0; i < wideContracts; i++ {
			if t := f(i); t != "" {
				parts = append(parts, t)
			}
		}
		return strings.Join(parts, " ")
	}
	wide := []Step{
		st(v, all(func(i int) string { return fmt.Sprintf("d %x c00%d sa %x sk 2 %x", 0x300+i, i%3, 0x300+i, i+1) })),
		st(v, "sa 1 sk 2 5 "+all(func(i int) string {
			if i%2 == 0 {
				return fmt.Sprintf("sa %x sk 2 %x sk 3 %x", 0x300+i, i+2, i+1)
			}
			return fmt.Sprintf("sa %x sk 3 %x", 0x300+i, i+1)
		})),
		st(v, all(func(i int) string {
			switch i % 4 {
			case 0:
				return fmt.Sprintf("n %x 1 r %x c003", 0x300+i, 0x300+i)
			case 1:
				return fmt.Sprintf("sa %x sk 2 0 sk 3 0", 0x300+i)
			case 2:
				return fmt.Sprintf("n %x 2", 0x300+i)
			}
			return ""
		})),
		rv,
		st(v, all(func(i int) string { return fmt.Sprintf("sa %x sk 2 0", 0x300+i) })+" sa 2 sk 3 1"),
		rv, rv,
		st(v, all(func(i int) string { return fmt.Sprintf("n %x %x", 0x300+i, i+1) })),
		rv, rv,
		st(v, all(func(i int) string {
			if i%3 == 0 {
				return fmt.Sprintf("d %x c001 sa %x sk 3 7", 0x300+i, 0x300+i)
			}
			return ""
		})),
	}
	// TRAILING BYTES (round 5): the byte-boundary history in small, for several last bytes of the
	// address: X is deployed right below a filled contract X+1, reverted (the purge of X must leave the
	// nodes of X+1 — a bound that is too wide — and must take all nodes of X — a bound that is too
	// narrow: X is then deployed again WITHOUT storage and read at the head), the slot pair (X, X+1) of
	// both contracts gets its entries at different blocks, and everything is reverted again.
	tail := func(x uint64) []Step {
		X, Y := fmt.Sprintf("%x", x), fmt.Sprintf("%x", x+1)
		return []Step{
			st(v, "d "+Y+" c000 sa "+Y+" sk 1 7 sk "+X+" 8 sk "+Y+" 9 n "+Y+" 1"),
			st(v, "d "+X+" c001 sa "+X+" sk 1 5 sk "+X+" 6"),
			rv,
			st(v, "d "+X+" c002 n "+X+" 1"),
			st(v, "sa "+X+" sk "+Y+" 4 sa "+Y+" sk "+X+" 0 r "+Y+" c003"),
			st(v, "n "+Y+" 2 sa "+Y+" sk "+Y+" 1 sa 1 sk "+X+" 3"),
			rv, rv, rv,
			st(v, "sa "+Y+" sk 1 0 sa 2 sk "+Y+" 1"),
		}
	}
	var out []scenario
	add := func(name string, srcNew bool, dst []bool, drainOK bool, steps []Step) {
		// the directed histories alternate between the two ways a Blockchain is built
		out = append(out, scenario{cfg: Config{Name: name, SrcNew: srcNew, Dst: dst, AllowDrain: drainOK, Seeded: len(out)%2 == 1}, steps: steps})
	}
	add("boundaries/src-legacy", false, both, false, boundaries)
	add("boundaries/src-new", true, both, false, boundaries)
	add("noop-writes", false, both, false, l1)
	add("system-contracts", true, both, false, system)
	add("system-contract-creation-reverted/src-legacy", false, both, false, sysRevert)
	add("system-contract-creation-reverted/src-new", true, both, false, sysRevert)
	add("classes", false, both, false, classes)
	add("classes/src-new", true, both, false, classes)
	add("discarded/src-legacy", false, both, false, discarded)
	add("discarded/src-new", true, both, false, discarded)
	add("deploy-and-replace-in-one-diff", false, both, false, deployReplace)
	add("class-listed-twice/src-new", true, both, false, listedTwice)
	add("class-listed-twice/src-legacy", false, both, false, listedTwice)
	add("declared-after-registered-for-deployed/src-new", true, both, false, laterDecl)
	add("declared-after-registered-for-deployed/src-legacy", false, both, false, laterDecl)
	add("migration-with-a-foreign-hash/src-legacy", false, both, false, foreignMig)
	add("migration-with-a-foreign-hash/src-new", true, both, false, foreignMig)
	add("rejected-blocks/src-legacy", false, both, false, invalid)
	add("rejected-blocks/src-new", true, both, false, invalid)
	add("extreme-values/src-legacy", false, both, false, extremes)
	add("extreme-values/src-new", true, both, false, extremes)
	add("drain/new", true, []bool{true}, true, drain)
	add("drain/legacy", false, []bool{false}, true, drain)
	add("drain-revert/new", true, []bool{true}, true, drainRevert)
	add("drain-revert/legacy", false, []bool{false}, true, drainRevert)
	add("zero-first/new", true, []bool{true}, true, zeroFirst)
	add("zero-first/legacy", false, []bool{false}, true, zeroFirst[:2]) // legacy cannot revert after this (C04)
	out = append(out,
		scenario{cfg: Config{Name: "retention-floor/src-legacy", SrcNew: false, Dst: both, Seeded: true}, steps: floor},
		scenario{cfg: Config{Name: "retention-floor/src-new", SrcNew: true, Dst: both, Seeded: true}, steps: floor},
		// the same steps on processes with an unseeded floor: deleting commitments changes nothing
		scenario{cfg: Config{Name: "retention-floor/unseeded", SrcNew: true, Dst: both}, steps: floor},
		scenario{cfg: Config{Name: "byte-boundary/src-legacy", SrcNew: false, Dst: both, Univ: "ff"}, steps: boundary},
		scenario{cfg: Config{Name: "byte-boundary/src-new", SrcNew: true, Dst: both, Univ: "ff", Seeded: true}, steps: boundary},
		scenario{cfg: Config{Name: "byte-boundary-slots/src-new", SrcNew: true, Dst: both, Univ: "ff"}, steps: boundarySlots},
		scenario{cfg: Config{Name: "byte-boundary-slots/src-legacy", SrcNew: false, Dst: both, Univ: "ff", Seeded: true}, steps: boundarySlots},
		scenario{cfg: Config{Name: "trailing-byte-7f", SrcNew: true, Dst: both, Univ: "tail-17f"}, steps: tail(0x17f)},
		scenario{cfg: Config{Name: "trailing-byte-80", SrcNew: false, Dst: both, Univ: "tail-180", Seeded: true}, steps: tail(0x180)},
		scenario{cfg: Config{Name: "trailing-byte-fe", SrcNew: true, Dst: both, Univ: "tail-1fe", Seeded: true}, steps: tail(0x1fe)},
		scenario{cfg: Config{Name: "trailing-byte-00", SrcNew: false, Dst: both, Univ: "tail-300"}, steps: tail(0x300)},
		scenario{cfg: Config{Name: "trailing-byte-ff", SrcNew: true, Dst: both, Univ: "tail-3ff"}, steps: tail(0x3ff)},
		scenario{cfg: Config{Name: "trailing-bytes-ffff", SrcNew: false, Dst: both, Univ: "tail-5ffff", Seeded: true}, steps: tail(0x5ffff)},
		scenario{cfg: Config{Name: "trailing-bytes-00ff", SrcNew: true, Dst: both, Univ: "tail-700ff"}, steps: tail(0x700ff)},
		scenario{cfg: Config{Name: "wide-blocks/src-legacy", SrcNew: false, Dst: both, Univ: "wide"}, steps: wide},
		scenario{cfg: Config{Name: "wide-blocks/src-new", SrcNew: true, Dst: both, Univ: "wide", Seeded: true}, steps: wide})
	return out
}

func initOnce() {
	if len(sierraFxs) == 0 {
		initFixtures()
	}
}
