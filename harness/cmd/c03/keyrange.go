//go:build verif

package main

import (
	"fmt"
	"strings"

	"github.com/NethermindEth/juno/core/felt"
	"verif/harness/lib"
)

// Round 5: the trie height. Storage tries (and the contract / class tries) have height 251: a key is
// the low 251 bits of a felt. A felt can be as large as P-1 = 2^251 + 17*2^192. The legacy backend
// refuses a write whose key exceeds the height (core/trie Put: "key … exceeds trie height 251"); the
// new backend's core/trie2 turns the felt into a path with FeltToPath(key, 251), which keeps the low
// 251 bits: the slot 2^251 + k becomes the leaf of slot k. The history buckets are keyed by the whole
// felt. Not reachable with Starknet data (storage addresses are below 2^251), but a node stores what
// the feeder gateway sends.
//
// The probe, per backend: block 0 deploys 0x104 and sets slot 7 = 1; block 1 writes 5 to the slot
// 2^251 + 3 (never written: slot 3) and 9 to 2^251 + 7. Either the block is REFUSED (then nothing may
// have changed: all reads of block 0 and of the head are those of block 0), or it is stored and then
// every read of a slot of the domain must be what the state diffs say: slot 3 = 0 (never written), slot
// 7 = 1, at the head, at block 1 and at block 0 — and again after the block is reverted.
//
// The Lean model keeps slots as natural numbers and has no trie height (checks/c03.json, assumptions:
// keys below 2^251); this probe is oracle only.
func keyRangeProbe(res *lib.Result, newState bool) {
	kind := kindName(newState)
	g := lib.NewChainGen(lib.NewRNG(7), newState, lib.DefaultGenOptions())
	high := func(k uint64) *felt.Felt {
		return new(felt.Felt).Add(lib.FHex("0x800000000000000000000000000000000000000000000000000000000000000"), lib.F(k))
	}
	h3, h7 := high(3), high(7)
	lines := []string{"d 104 c000 sa 104 sk 7 1", "sa 104 sk " + hx(h3) + " 5 sk " + hx(h7) + " 9"}
	stored := 0
	var refusal string
	for i, line := range lines {
		d, err := decodeDiff("0.13.2", line)
		if err != nil {
			res.Fatalf("trie-height probe: diff %q: %v", line, err)
			return
		}
		var nerr error
		perr, pan, _ := lib.Try(func() error {
			_, nerr = g.Next(&lib.BlockSpec{Version: d.Version, Diff: d.Diff, Classes: d.Classes, NoTxs: true})
			return nil
		})
		if pan {
			res.Violate(lib.Violation{Sig: kind + "-store-panics-on-a-storage-key-above-the-trie-height", What: fmt.Sprint(perr),
				Replay: map[string]any{"backend": kind, "blocks": lines[:i+1]}})
			return
		}
		if nerr != nil {
			if i == 0 {
				res.Fatalf("trie-height probe (%s): block 0 refused: %v", kind, nerr)
				return
			}
			refusal = firstLine(nerr.Error())
			break
		}
		stored++
	}
	res.Case("trie-height-probe/"+kind, true)
	if refusal != "" {
		res.Hit("trie-height:" + kind + ":block-with-a-key-above-2^251-refused")
	} else {
		res.Hit("trie-height:" + kind + ":block-with-a-key-above-2^251-stored")
	}
	a := lib.F(0x104)
	type want struct {
		slot *felt.Felt
		head string // expected on the head view and on the view of the newest block
		b0   string // expected on the view of block 0
	}
	// only slots of the domain (below 2^251) are read: what a read of a key above the height answers is
	// not specified (both backends answer for the low 251 bits)
	wants := []want{{lib.F(3), "0", "0"}, {lib.F(7), "1", "1"}}
	cause := "-storage-key-above-the-trie-height-aliases-the-slot-of-its-low-251-bits"
	if stored == 1 {
		cause = "-after-a-refused-block-with-a-storage-key-above-the-trie-height"
	}
	check := func(view string, read func(k *felt.Felt) (felt.Felt, error), pick func(w want) string) {
		for _, w := range wants {
			var got string
			v, err := read(w.slot)
			if err != nil {
				got = errToken(err)
			} else {
				got = hx(&v)
			}
			res.Compared(1)
			if exp := pick(w); got != exp {
				low := w.slot.Cmp(h3) < 0
				res.Violate(lib.Violation{Sig: kind + "-" + view + "-storage-wrong-value" + cause,
					What: fmt.Sprintf("%s backend, %s view, head %d: storage 0x104[%s] = %s, the state diffs give %s (block 1 = %q%s); slot below 2^251: %v",
						kind, view, stored-1, hx(w.slot), got, exp, lines[1], map[bool]string{true: ", refused: " + refusal, false: ""}[stored == 1], low),
					Replay: map[string]any{"backend": kind, "blocks": lines, "block-1": map[bool]string{true: "refused", false: "stored"}[stored == 1],
						"view": view, "addr": "0x104", "slot": "0x" + hx(w.slot), "got": got, "want": exp}})
			}
		}
	}
	if r, _, err := g.Src.HeadState(); err != nil {
		res.Fatalf("trie-height probe (%s): head state: %v", kind, err)
	} else {
		check("head", func(k *felt.Felt) (felt.Felt, error) { return r.ContractStorage(a, k) }, func(w want) string { return w.head })
	}
	for n := 0; n < stored; n++ {
		r, _, err := g.Src.StateAtBlockNumber(uint64(n))
		if err != nil {
			res.Fatalf("trie-height probe (%s): state at block %d: %v", kind, n, err)
			continue
		}
		pick := func(w want) string { return w.head }
		if n == 0 {
			pick = func(w want) string { return w.b0 }
		}
		check("num", func(k *felt.Felt) (felt.Felt, error) { return r.ContractStorage(a, k) }, pick)
	}
	if stored == 2 && !strings.Contains(kind, "legacy") {
		// a revert of the block must restore block 0's answers
		if err := g.Revert(); err != nil {
			res.Hit("trie-height:" + kind + ":revert-of-the-block-refused")
			return
		}
		stored = 1
		cause = "-after-the-revert-of-a-block-with-a-storage-key-above-the-trie-height"
		if r, _, err := g.Src.HeadState(); err == nil {
			check("head", func(k *felt.Felt) (felt.Felt, error) { return r.ContractStorage(a, k) }, func(w want) string { return w.head })
		}
	}
}
