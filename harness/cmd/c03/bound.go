//go:build verif

package main

import (
	"bytes"
	"fmt"
	"sort"
	"strings"

	"github.com/NethermindEth/juno/core/felt"
	"github.com/NethermindEth/juno/db"
	"github.com/NethermindEth/juno/db/dbutils"
	"github.com/NethermindEth/juno/db/memory"
	"verif/harness/lib"
)

// Round 5: the keys at the byte level. Every prefix-bounded iterator (the history readers of the new
// backend, the scans of the pruner and of this harness) and every prefix DeleteRange (State.flush's
// purge of a contract's storage-trie nodes) gets its upper bound from db/dbutils.UpperBound. The Lean
// model (ModelKeys.lean) transcribes that function and Props.upper_bound_exact proves that
// [prefix, UpperBound(prefix)) holds exactly the keys that start with the prefix — for every prefix,
// also those ending in 0xff bytes. Here:
//
//   - the real UpperBound is compared with the model's on EVERY byte string of length 0, 1, 2 and on
//     longer ones built around every shape of the loop (trailing 0xff runs of every length, the byte
//     before the run at 0x00 / 0x7f / 0xfe / 0xff, the real key prefixes of the byte-boundary universe);
//   - the key prefixes the model builds (bucket byte ++ 32-byte felts) are compared with db/schema.go's;
//   - on a real store (memory; the pebble stores get the same two byte strings as bounds) a prefix
//     iterator and a prefix DeleteRange must touch exactly the keys with the prefix — the contract the
//     per-prefix lists of the model rest on (checks/c03.json, assumptions); the model's `inprefix` must
//     agree key by key.
//
// Findings here are reported as correspondence problems (Sig model-* / assumption-*) with the concrete
// prefix; the PROPERTY's oracle sees the same defect through the histories of the byte-boundary
// universe (corpus.go byte-boundary/*, random-ff-*): reads of the neighbours of a purged contract.

func hexb(b []byte) string {
	if len(b) == 0 {
		return "-"
	}
	return fmt.Sprintf("%x", b)
}

func ubTok(b []byte) string {
	if b == nil {
		return "nil"
	}
	return fmt.Sprintf("%x", b)
}

// succPrefix: the least byte string above every string with the prefix (nil: none), computed
// independently of the code under test: strip trailing 0xff, increment the last byte.
func succPrefix(p []byte) []byte {
	q := append([]byte{}, p...)
	for len(q) > 0 && q[len(q)-1] == 0xff {
		q = q[:len(q)-1]
	}
	if len(q) == 0 {
		return nil
	}
	q[len(q)-1]++
	return q
}

func upperBoundCheck(res *lib.Result, driverPath string, seed uint64) {
	var drv *lib.Driver
	if driverPath != "" {
		d, err := lib.StartDriver(driverPath)
		if err != nil {
			res.Fatalf("upper-bound check: Lean driver: %v", err)
		} else {
			drv = d
			defer drv.Close()
		}
	}
	ask := func(line string) (string, bool) {
		if drv == nil {
			return "", false
		}
		ans, err := drv.Ask(line)
		if err != nil {
			res.Fatalf("upper-bound check: Lean driver died: %v", err)
			drv = nil
			return "", false
		}
		return ans, true
	}
	reported := map[string]bool{}
	// one prefix against the independent oracle and (batched) against the model
	var batch [][]byte
	flush := func() {
		if len(batch) == 0 {
			return
		}
		toks := make([]string, len(batch))
		for i, p := range batch {
			toks[i] = hexb(p)
		}
		if ans, ok := ask("ub " + strings.Join(toks, " ")); ok {
			got := strings.Fields(ans)
			if len(got) != len(batch) {
				res.Fatalf("upper-bound check: driver answered %d tokens to %d prefixes: %.60s", len(got), len(batch), ans)
			} else {
				for i, p := range batch {
					res.Compared(1)
					if impl := ubTok(dbutils.UpperBound(p)); impl != got[i] && !reported["m"] {
						reported["m"] = true
						res.Mismatch(lib.Mismatch{Sig: "model-upper-bound", Input: fmt.Sprintf("UpperBound(%s)", hexb(p)), Model: got[i], Impl: impl})
					}
				}
			}
		}
		batch = batch[:0]
	}
	check := func(p []byte, family string) {
		res.Hit("bound:" + family)
		want := succPrefix(p)
		got := dbutils.UpperBound(p)
		res.Compared(1)
		if !bytes.Equal(want, got) || (want == nil) != (got == nil) {
			key := "o:" + family
			if !reported[key] {
				reported[key] = true
				res.Mismatch(lib.Mismatch{Sig: "assumption-prefix-upper-bound-is-not-the-least-bound", Input: fmt.Sprintf("UpperBound(%s)", hexb(p)),
					Model: ubTok(want) + " (least byte string above every key with the prefix)", Impl: ubTok(got)})
			}
		}
		batch = append(batch, append([]byte{}, p...))
		if len(batch) >= 512 {
			flush()
		}
	}
	// every byte string of length 0, 1, 2
	check(nil, "exhaustive-length-0..2")
	for a := 0; a < 256; a++ {
		check([]byte{byte(a)}, "exhaustive-length-0..2")
		for b := 0; b < 256; b++ {
			check([]byte{byte(a), byte(b)}, "exhaustive-length-0..2")
		}
	}
	// longer ones: random body, then a byte from the edge set, then t bytes 0xff
	r := lib.NewRNG(seed ^ 0xb0b0)
	edge := []byte{0x00, 0x01, 0x7f, 0xfe, 0xff}
	for n := 3; n <= 70; n++ {
		for t := 0; t <= n; t++ {
			for _, e := range edge {
				p := r.Bytes(n)
				for i := n - t; i < n; i++ {
					p[i] = 0xff
				}
				if t < n {
					p[n-t-1] = e
				}
				check(p, "trailing-ff-run")
			}
		}
	}
	// the key prefixes of the state buckets for the addresses / slots of both universes
	var felts []*felt.Felt
	for _, u := range []*Universe{universeOf(""), universeOf("ff")} {
		for i := range u.Addrs {
			felts = append(felts, &u.Addrs[i])
		}
		for i := range u.Slots {
			felts = append(felts, &u.Slots[i])
		}
	}
	bk := fmt.Sprintf("%x %x %x %x", byte(db.ContractStorageHistory), byte(db.ContractNonceHistory), byte(db.ContractClassHashHistory), byte(db.ContractTrieStorage))
	modelKey := func(what string, real []byte, args string) {
		if ans, ok := ask("keybytes " + bk + " " + args); ok {
			res.Compared(1)
			if ans != fmt.Sprintf("%x", real) && !reported["k"+what] {
				reported["k"+what] = true
				res.Mismatch(lib.Mismatch{Sig: "model-key-bytes-" + what, Input: args, Model: ans, Impl: fmt.Sprintf("%x", real)})
			}
		}
	}
	var prefixes [][]byte
	for _, a := range felts {
		n, c, t := db.ContractNonceHistoryKey(a), db.ContractClassHashHistoryKey(a), db.ContractTrieStorage.Key(a.Marshal())
		modelKey("nonce-history", n, "n "+hx(a))
		modelKey("classhash-history", c, "c "+hx(a))
		modelKey("trie-storage-owner", t, "t "+hx(a))
		prefixes = append(prefixes, n, c, t, db.DeprecatedContractNonceHistoryKey(a), db.DeprecatedContractClassHashHistoryKey(a))
		for _, k := range felts {
			s := db.ContractStorageHistoryKey(a, k)
			modelKey("storage-history", s, "s "+hx(a)+" "+hx(k))
			prefixes = append(prefixes, s, db.DeprecatedContractStorageHistoryKey(a, k))
		}
	}
	for _, p := range prefixes {
		check(p, "state-bucket-key-prefix")
	}
	flush()

	// a real store: iterator and range delete per prefix
	var samples [][]byte
	for a := 0; a < 256; a += 5 {
		samples = append(samples, []byte{byte(a)}, []byte{byte(a), 0xff}, []byte{0xff, byte(a)}, []byte{byte(a), 0xff, 0xff})
	}
	samples = append(samples, []byte{0xff}, []byte{0xff, 0xff}, []byte{0xfe, 0xff}, []byte{0x01, 0x02, 0xff}, []byte{0x01, 0xfe, 0xff, 0xff})
	for i, p := range prefixes {
		if p[len(p)-1] == 0xff || i%17 == 0 {
			samples = append(samples, p)
		}
	}
	for _, p := range samples {
		storeBoundCheck(res, p, ask, reported)
	}
}

// storeBoundCheck: a memory store filled with keys around the prefix p; the prefix iterator must
// yield exactly the keys that start with p, DeleteRange(p, UpperBound(p)) must delete exactly them.
func storeBoundCheck(res *lib.Result, p []byte, ask func(string) (string, bool), reported map[string]bool) {
	cat := func(parts ...[]byte) []byte {
		var out []byte
		for _, x := range parts {
			out = append(out, x...)
		}
		return out
	}
	keys := [][]byte{p, cat(p, []byte{0}), cat(p, []byte{0xff}), cat(p, []byte{0xff, 0xff, 0xff}), cat(p, []byte{0x7f, 1, 2})}
	if s := succPrefix(p); s != nil {
		// the least bound itself, and keys above it that a bound with trailing 0xff bytes still covers
		keys = append(keys, s, cat(s, []byte{0}), cat(s, []byte{0xfe}), cat(s, bytes.Repeat([]byte{0xff}, len(p)-len(s)+1)), cat(s, bytes.Repeat([]byte{0xfe}, len(p)+2)))
		s2 := append([]byte{}, s...)
		if s2[len(s2)-1] != 0xff {
			s2[len(s2)-1]++
			keys = append(keys, s2)
		}
	}
	if len(p) > 0 {
		keys = append(keys, p[:len(p)-1])
		if p[len(p)-1] > 0 {
			q := append([]byte{}, p...)
			q[len(q)-1]--
			keys = append(keys, q, cat(q, []byte{0xff, 0xff}))
		}
	}
	store := memory.New()
	seen := map[string]bool{}
	var all [][]byte
	for _, k := range keys {
		if len(k) == 0 || seen[string(k)] {
			continue
		}
		seen[string(k)] = true
		all = append(all, k)
		if err := store.Put(k, []byte{1}); err != nil {
			res.Fatalf("bound check: put: %v", err)
			return
		}
	}
	sort.Slice(all, func(i, j int) bool { return bytes.Compare(all[i], all[j]) < 0 })
	var want []string
	for _, k := range all {
		if bytes.HasPrefix(k, p) {
			want = append(want, fmt.Sprintf("%x", k))
		}
	}
	// the model's range predicate, key by key
	toks := make([]string, len(all))
	for i, k := range all {
		toks[i] = hexb(k)
	}
	if ans, ok := ask("inprefix " + hexb(p) + " " + strings.Join(toks, " ")); ok {
		got := strings.Fields(ans)
		if len(got) != len(all) {
			res.Fatalf("bound check: driver answered %d tokens to %d keys", len(got), len(all))
		} else {
			for i, k := range all {
				res.Compared(1)
				in := "0"
				if bytes.HasPrefix(k, p) {
					in = "1"
				}
				if got[i] != in && !reported["ip"] {
					reported["ip"] = true
					res.Mismatch(lib.Mismatch{Sig: "model-prefix-range", Input: fmt.Sprintf("prefix %s key %x", hexb(p), k), Model: got[i], Impl: in + " (bytes.HasPrefix)"})
				}
			}
		}
	}
	it, err := store.NewIterator(p, true)
	if err != nil {
		res.Fatalf("bound check: iterator: %v", err)
		return
	}
	var got []string
	for ok := it.First(); ok; ok = it.Next() {
		got = append(got, fmt.Sprintf("%x", it.Key()))
	}
	it.Close()
	res.Compared(1)
	res.Hit("bound:real-store:prefix-iterator")
	if strings.Join(got, " ") != strings.Join(want, " ") && !reported["it"] {
		reported["it"] = true
		res.Mismatch(lib.Mismatch{Sig: "assumption-prefix-iterator-leaves-the-prefix", Input: fmt.Sprintf("NewIterator(%s, true) over %s", hexb(p), strings.Join(toks, " ")),
			Model: strings.Join(want, " "), Impl: strings.Join(got, " ")})
	}
	if err := store.DeleteRange(p, dbutils.UpperBound(p)); err != nil {
		res.Fatalf("bound check: delete range: %v", err)
		return
	}
	var left, wantLeft []string
	for _, k := range all {
		if ok, _ := store.Has(k); ok {
			left = append(left, fmt.Sprintf("%x", k))
		}
		if !bytes.HasPrefix(k, p) {
			wantLeft = append(wantLeft, fmt.Sprintf("%x", k))
		}
	}
	res.Compared(1)
	res.Hit("bound:real-store:prefix-delete-range")
	if dbutils.UpperBound(p) != nil && strings.Join(left, " ") != strings.Join(wantLeft, " ") && !reported["dr"] {
		reported["dr"] = true
		res.Mismatch(lib.Mismatch{Sig: "assumption-prefix-delete-range-leaves-the-prefix", Input: fmt.Sprintf("DeleteRange(%s, UpperBound) over %s", hexb(p), strings.Join(toks, " ")),
			Model: "left: " + strings.Join(wantLeft, " "), Impl: "left: " + strings.Join(left, " ")})
	}
}
