//go:build verif

// Harness for C03: head and historical state reads equal the state as of the requested block.
//
// Histories of block additions and head reverts (chains manufactured by juno's own Finalise via
// harness/lib/chain.go) are run on real Blockchain nodes of both state backends; after every
// operation EVERY view the node offers (head, each block by number, each block by hash) is read
// over a small universe of addresses, slots and class hashes, and each answer is compared with
//   - the oracle: the abstract state g.States[n] = fold of the diffs 0..n   (-> Violate),
//   - the compiled Lean model of the backend, fed the same history           (-> Mismatch).
package main

import (
	"encoding/json"
	"fmt"
	"os"
	"sort"
	"strings"
	"sync"
	"time"

	"verif/harness/lib"
)

type scenario struct {
	cfg        Config
	steps      []Step // directed scenario; nil = random history
	seed       uint64
	n          int // number of random operations
	maxH       int
	exhaustive bool
	checkFrom  int // directed scenarios: all views are read after step i only for i >= checkFrom
}

type replayFile struct {
	Replay struct {
		Config Config         `json:"config"`
		Steps  []Step         `json:"steps"`
		Query  map[string]any `json:"query"`
	} `json:"replay"`
}

func main() {
	f := lib.ParseFlags()
	initFixtures()
	res := lib.NewResult("case = one state view (node, operation index, head | block by number | block by hash) read over " +
		"9 addresses x (class hash, nonce, 5 slots, last-update block of the slots) + 7 class hashes x (class, compiled class hash, compiled class hash v2); " +
		"non-trivial = a historical view in which at least one answer differs from the answer at the head")
	// private to this process: concurrent runs (other seeds, replays) must not share it
	scratch, err := os.MkdirTemp(os.TempDir(), "aC03-run-")
	if err != nil {
		res.Fatalf("scratch directory: %v", err)
		lib.Finish(f, res)
	}
	defer os.RemoveAll(scratch)
	if f.Driver == "" {
		res.Fatalf("no --driver: correspondence with the Lean model cannot be checked")
	}

	lf, sp, ho := probeVariant()
	if probeErr != nil {
		res.Fatalf("variant probe: %v", probeErr)
	}
	res.Note("variant found in the tree: leafFix=%v sysProbeFix=%v histOrderFix=%v migValFix=%v", lf, sp, ho, migValFix())
	res.Hit(fmt.Sprintf("variant:migValFix=%v", migValFix()))
	res.Note("variant of the legacy backend: dupDeclFix=%v", dupDeclFix())
	res.Hit(fmt.Sprintf("variant:dupDeclFix=%v", dupDeclFix()))
	if probeErr != nil {
		res.Fatalf("variant probe: %v", probeErr)
	}
	res.Hit(fmt.Sprintf("variant:histOrderFix=%v", ho))
	res.Hit(fmt.Sprintf("variant:leafFix=%v", lf))
	res.Hit(fmt.Sprintf("variant:sysProbeFix=%v", sp))
	if os.Getenv("C03_CHILD") == "concurrent" {
		// the race-detector build (see racechild.go): the concurrent stage only, memory and pebble
		concurrentStage(res, 6*time.Second, true, scratch)
		os.RemoveAll(scratch)
		lib.Finish(f, res)
	}
	if f.Replay != "" {
		replay(f, res, scratch)
		os.RemoveAll(scratch)
		lib.Finish(f, res)
	}

	t0 := time.Now()
	keyOrderCheck(res, f.Driver)
	upperBoundCheck(res, f.Driver, f.Seed)
	keyRangeProbe(res, false)
	keyRangeProbe(res, true)
	raceProbe(res, false)
	raceProbe(res, true)
	readErrorProbe(res, false)
	readErrorProbe(res, true)
	// real goroutines: quick = a short run on memory stores; thorough = longer, pebble too, and once
	// more under the race detector
	if f.Thorough() {
		concurrentStage(res, 4*time.Second, true, scratch)
		runRaceChild(f, res)
	} else {
		concurrentStage(res, 1200*time.Millisecond, false, scratch)
	}
	var scs []scenario
	for _, c := range corpus() {
		scs = append(scs, c)
	}
	exh, exhSkipped := exhaustiveScenarios()
	scs = append(scs, exh...)
	res.SetExtra("exhaustive_space", fmt.Sprintf("block 0 = deploy 0x104 + slot write, then every applicable sequence of 3 operations over "+
		"{head revert + %d blocks} (%d sequences run, %d not applicable), both backends, all views after every operation",
		len(exhaustAlphabet), len(exh), exhSkipped))
	root := lib.NewRNG(f.Seed)
	nRandom := f.Scale(30, 160)
	for i := 0; i < nRandom; i++ {
		// every second pair of histories runs on destinations built as node/node.go builds them (seeded
		// retention floor: the production path of StateAtBlockNumber)
		cfg := Config{Name: fmt.Sprintf("random-%d", i), SrcNew: i%2 == 1, Dst: []bool{false, true}, Seeded: i%4 < 2}
		sc := scenario{cfg: cfg, seed: root.Uint64(), n: f.Scale(24, 60), maxH: f.Scale(9, 16)}
		switch {
		case i%10 == 7:
			// drains of system contracts: one backend at a time
			sc.cfg.AllowDrain, sc.cfg.Dst = true, []bool{sc.cfg.SrcNew}
			sc.cfg.Name = fmt.Sprintf("random-drain-%d", i)
		case i%10 == 8:
			sc.cfg.Reopen = true
		case f.Thorough() && i%4 == 3:
			sc.cfg.Pebble = true
		}
		if i%3 == 2 && !sc.cfg.AllowDrain {
			// the byte-boundary universe: addresses and slots ending in 0xff next to their upper neighbours
			sc.cfg.Univ = "ff"
			sc.cfg.Name = fmt.Sprintf("random-ff-%d", i)
		}
		scs = append(scs, sc)
	}
	if f.Thorough() {
		// one chain that crosses block 255/256 (one more key byte changes in every history key) on
		// real iterators, both store kinds: writes and reverts around the boundary, all views read
		// from block 253 on
		for i, peb := range []bool{false, true} {
			scs = append(scs, boundaryChain(fmt.Sprintf("block-256-boundary-%d", i), i == 0, peb))
		}
		// a few long chains
		for i := 0; i < 6; i++ {
			scs = append(scs, scenario{cfg: Config{Name: fmt.Sprintf("long-%d", i), SrcNew: i%2 == 0, Dst: []bool{false, true}, Pebble: i%3 == 2, Seeded: i%2 == 1},
				seed: root.Uint64(), n: 110, maxH: 40})
		}
	}

	if only := os.Getenv("C03_ONLY"); only != "" {
		// debugging aid: run the scenarios whose name contains the string (never green: floors)
		var keep []scenario
		for _, sc := range scs {
			if strings.Contains(sc.cfg.Name, only) {
				keep = append(keep, sc)
			}
		}
		scs = keep
		res.Fatalf("C03_ONLY is set: partial run of %d scenarios", len(scs))
	}
	type found struct {
		cfg   Config
		steps []Step
		f     Failure
	}
	var mu sync.Mutex
	var all []found
	sem := make(chan struct{}, 14)
	var wg sync.WaitGroup
	for _, sc := range scs {
		wg.Add(1)
		sem <- struct{}{}
		go func(sc scenario) {
			defer wg.Done()
			defer func() { <-sem }()
			e, err := NewEngine(sc.cfg, lib.NewRNG(sc.seed), f.Driver, scratch, res)
			if err != nil {
				res.Fatalf("scenario %s could not start: %v", sc.cfg.Name, err)
				return
			}
			defer e.Close()
			ts := time.Now()
			defer func() {
				if os.Getenv("C03_TIMING") != "" {
					fmt.Fprintf(os.Stderr, "scenario %s start=%.1f dur=%.1f steps=%d\n", sc.cfg.Name, ts.Sub(t0).Seconds(), time.Since(ts).Seconds(), len(e.steps))
				}
			}()
			recorded := 0
			record := func() {
				for _, fl := range e.fails[recorded:] {
					mu.Lock()
					all = append(all, found{cfg: sc.cfg, steps: append([]Step{}, e.steps...), f: fl})
					mu.Unlock()
				}
				recorded = len(e.fails)
			}
			if sc.steps != nil {
				if sc.exhaustive {
					res.Hit("scenario:exhaustive-small-space")
				} else {
					res.Hit("scenario:directed")
				}
				for si, s := range sc.steps {
					if s.Op == "store" {
						if d, err := decodeDiff(s.Version, s.Diff); err == nil {
							e.describe(d)
						}
						e.hit("op:store")
					} else if s.Op == "revert" {
						e.hit("op:revert")
					}

					if err := e.Apply(s); err != nil {
						res.Fatalf("scenario %s: step cannot be executed: %v", sc.cfg.Name, err)
						break
					}
					if si >= sc.checkFrom {
						e.CheckAll()
					}
					record()
				}
			} else {
				res.Hit("scenario:random")
				// RandomHistory checks after each op; failures are recorded with the history so far
				e.onCheck = record
				e.RandomHistory(sc.n, sc.maxH)
				record()
			}
			if e.broken != "" {
				res.Note("scenario %s stopped: %s", sc.cfg.Name, firstLine(e.broken))
			}
			for k, v := range e.stats {
				res.HitN(k, v)
			}
		}(sc)
	}
	wg.Wait()
	res.Note("scenarios: %d in %.1fs", len(scs), time.Since(t0).Seconds())

	// one report per Sig: the shortest recorded history, shrunk
	sort.SliceStable(all, func(i, j int) bool { return len(all[i].steps) < len(all[j].steps) })
	done := map[string]bool{}
	for _, fd := range all {
		key := fmt.Sprint(fd.f.Violation, fd.f.Sig)
		if done[key] {
			continue
		}
		done[key] = true
		steps := shrink(fd.cfg, fd.steps, fd.f.Violation, fd.f.Sig, f.Driver, scratch, 25*time.Second)
		// re-run the shrunk history to get the failing query that goes with it
		fl := fd.f
		if fs, _ := runSteps(fd.cfg, steps, pick(fd.f.Violation && !strings.HasSuffix(fd.f.Sig, "-after-drain"), "", f.Driver), scratch, nil, false); hasSig(fs, fd.f.Violation, fd.f.Sig) {
			for _, x := range fs {
				if x.Violation == fd.f.Violation && x.Sig == fd.f.Sig {
					fl = x
				}
			}
		} else {
			steps = fd.steps
		}
		rp := map[string]any{"config": fd.cfg, "steps": steps, "query": fl.Query,
			"how": "cd /verif && ./check C03 --replay <this file>; each store step is a block with that state diff (token form, see harness/cmd/c03/enc.go)"}
		if fl.Violation {
			res.Violate(lib.Violation{Sig: fl.Sig, What: fl.What, Replay: rp})
		} else {
			res.Mismatch(lib.Mismatch{Sig: fl.Sig, Input: rp, Model: fl.Query["model"], Impl: fl.Query["impl"]})
		}
	}
	res.Note("total %.1fs", time.Since(t0).Seconds())
	os.RemoveAll(scratch) // lib.Finish exits the process: deferred calls do not run
	lib.Finish(f, res)
}

// boundaryChain: 253 cheap blocks, then writes of slots, nonce and class at blocks 253..261, then
// six reverts (back below 256) and two more blocks.
func boundaryChain(name string, srcNew, pebble bool) scenario {
	v := "0.13.2"
	steps := []Step{st(v, "d 104 c000 sa 104 sk 2 1 sa 1 sk 2 5")}
	for i := 1; i < 253; i++ {
		switch {
		case i%50 == 7:
			steps = append(steps, st(v, fmt.Sprintf("sa 104 sk 2 %x n 104 %x", i%5+1, i/50+1)))
		case i%97 == 3:
			steps = append(steps, st(v, fmt.Sprintf("sa 104 sk 3 %x", i%4)))
		default:
			steps = append(steps, st(v, ""))
		}
	}
	check := len(steps)
	steps = append(steps,
		st(v, "sa 104 sk 2 2 sk 3 1"),            // 253
		st(v, "sa 104 sk 2 3 n 104 9"),           // 254
		st(v, "sa 104 sk 2 4 r 104 c001"),        // 255
		st(v, "sa 104 sk 2 5 sk 3 0 n 104 a"),    // 256
		st(v, "sa 104 sk 2 0 sa 1 sk 2 6"),       // 257
		st(v, "d 105 c002 sa 105 sk 2 9"),        // 258
		st(v, ""),                                // 259
		st(v, "sa 104 sk 2 7 sk 4 1 r 104 c003"), // 260
		st(v, "n 104 b"),                         // 261
		rv, rv, rv, rv, rv, rv,                   // head back to 255
		st(v, "sa 104 sk 2 8 sk 3 2"), // 256'
		st(v, "sa 104 sk 2 0"),        // 257'
	)
	// the pebble one on processes with a seeded retention floor (the way a node builds them)
	return scenario{cfg: Config{Name: name, SrcNew: srcNew, Dst: []bool{false, true}, Pebble: pebble, Seeded: pebble}, steps: steps, checkFrom: check}
}

func pick(c bool, a, b string) string {
	if c {
		return a
	}
	return b
}

func replay(f lib.Flags, res *lib.Result, scratch string) {
	raw, err := os.ReadFile(f.Replay)
	if err != nil {
		res.Fatalf("replay: %v", err)
		return
	}
	var rf replayFile
	if err := json.Unmarshal(raw, &rf); err != nil || len(rf.Replay.Steps) == 0 {
		res.Fatalf("replay: cannot read steps from %s: %v", f.Replay, err)
		return
	}
	fs, valid, why := runStepsWhy(rf.Replay.Config, rf.Replay.Steps, f.Driver, scratch, res, true)
	if !valid {
		// a replay that does not run is never green
		res.Fatalf("replay: the recorded history could not be executed to the end: %s", why)
	}
	for _, fl := range fs {
		rp := map[string]any{"config": rf.Replay.Config, "steps": rf.Replay.Steps, "query": fl.Query}
		if fl.Violation {
			res.Violate(lib.Violation{Sig: fl.Sig, What: fl.What, Replay: rp})
		} else {
			res.Mismatch(lib.Mismatch{Sig: fl.Sig, Input: rp, Model: fl.Query["model"], Impl: fl.Query["impl"]})
		}
	}
}
