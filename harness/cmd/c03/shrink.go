//go:build verif

package main

import (
	"fmt"
	"strings"
	"time"

	"verif/harness/lib"
)

// runSteps executes a recorded history on fresh nodes and checks all views after the LAST step
// only (a recorded failing history ends at the step where the failure was seen). With
// checkEvery the views are checked after every step (replay of a whole scenario).
func runSteps(cfg Config, steps []Step, driver, scratch string, res *lib.Result, checkEvery bool) (fails []Failure, valid bool) {
	fails, valid, _ = runStepsWhy(cfg, steps, driver, scratch, res, checkEvery)
	return fails, valid
}

// runStepsWhy also says why a history could not be executed to the end.
func runStepsWhy(cfg Config, steps []Step, driver, scratch string, res *lib.Result, checkEvery bool) (fails []Failure, valid bool, why string) {
	e, err := NewEngine(cfg, lib.NewRNG(1), driver, scratch, res)
	if err != nil {
		return []Failure{{Sig: "engine", What: err.Error()}}, false, "engine: " + err.Error()
	}
	defer e.Close()
	e.full = true
	for i, s := range steps {
		if s.Op == "revert" && e.Height() == 0 {
			return nil, false, fmt.Sprintf("step %d: revert on an empty chain", i)
		}
		if err := e.Apply(s); err != nil {
			return nil, false, fmt.Sprintf("step %d (%s): %v", i, s.Op, err)
		}
		if e.broken != "" {
			// a store/revert failure is itself a failure to report, but only at the last step
			return e.fails, i == len(steps)-1, fmt.Sprintf("step %d (%s): %s", i, s.Op, firstLine(e.broken))
		}
		if checkEvery || i == len(steps)-1 {
			e.CheckAll()
		}
	}
	return e.fails, true, ""
}

func hasSig(fs []Failure, violation bool, sig string) bool {
	for _, f := range fs {
		if f.Violation == violation && f.Sig == sig {
			return true
		}
	}
	return false
}

// diffGroups splits a diff in token form into independently removable entries. A storage entry
// carries its address: ["sa", addr, "sk", slot, value]; an address without slots is ["sa", addr].
func diffGroups(line string) [][]string {
	t := strings.Fields(line)
	argc := map[string]int{"sa": 1, "sk": 2, "n": 2, "d": 2, "r": 2, "c0": 1, "c1": 3, "m": 2, "x": 1}
	var gs [][]string
	cur := ""
	curHasSlots := true
	flushEmpty := func() {
		if cur != "" && !curHasSlots {
			gs = append(gs, []string{"sa", cur})
		}
	}
	for i := 0; i < len(t); {
		n := argc[t[i]] + 1
		if n == 1 || i+n > len(t) {
			break
		}
		switch t[i] {
		case "sa":
			flushEmpty()
			cur, curHasSlots = t[i+1], false
		case "sk":
			gs = append(gs, []string{"sa", cur, "sk", t[i+1], t[i+2]})
			curHasSlots = true
		default:
			flushEmpty()
			cur, curHasSlots = "", true
			gs = append(gs, t[i:i+n])
		}
		i += n
	}
	flushEmpty()
	return gs
}

func joinGroups(gs [][]string, drop int) string {
	var out []string
	cur := ""
	for i, g := range gs {
		if i == drop {
			continue
		}
		if g[0] == "sa" {
			if g[1] != cur {
				out = append(out, "sa", g[1])
				cur = g[1]
			}
			out = append(out, g[2:]...)
			continue
		}
		cur = ""
		out = append(out, g...)
	}
	return strings.Join(out, " ")
}

// shrink minimises a failing history greedily: drop whole steps, then single diff entries, as
// long as the same failure (same Sig) is still observed after the last step.
func shrink(cfg Config, steps []Step, violation bool, sig, driver, scratch string, budget time.Duration) []Step {
	if violation && !strings.HasSuffix(sig, "-after-drain") {
		driver = "" // the oracle alone decides (the drain Sig needs the model's answer too)
	}
	deadline := time.Now().Add(budget)
	repro := func(s []Step) bool {
		if len(s) == 0 || time.Now().After(deadline) {
			return false
		}
		fs, _ := runSteps(cfg, s, driver, scratch, nil, false)
		return hasSig(fs, violation, sig)
	}
	cur := append([]Step{}, steps...)
	if !repro(cur) {
		return cur // not reproducible on fresh nodes from the recorded steps alone: keep as is
	}
	for changed := true; changed && time.Now().Before(deadline); {
		changed = false
		// drop steps, last first; also try dropping a store together with the revert after it
		for i := len(cur) - 1; i >= 0; i-- {
			cand := append(append([]Step{}, cur[:i]...), cur[i+1:]...)
			if repro(cand) {
				cur, changed = cand, true
				continue
			}
			if i+1 < len(cur) && cur[i].Op == "store" && cur[i+1].Op == "revert" {
				cand = append(append([]Step{}, cur[:i]...), cur[i+2:]...)
				if repro(cand) {
					cur, changed = cand, true
				}
			}
		}
		// drop diff entries
		for i := range cur {
			if cur[i].Op != "store" {
				continue
			}
			for gi := len(diffGroups(cur[i].Diff)) - 1; gi >= 0; gi-- {
				gs := diffGroups(cur[i].Diff)
				if gi >= len(gs) {
					continue
				}
				cand := append([]Step{}, cur...)
				cand[i].Diff = joinGroups(gs, gi)
				if repro(cand) {
					cur, changed = cand, true
				}
			}
		}
	}
	return cur
}
