//go:build verif

package main

import (
	"bytes"
	"fmt"

	"github.com/NethermindEth/juno/core/felt"
	"github.com/NethermindEth/juno/db"
	"verif/harness/lib"
)

// The model's history bucket is "per key prefix, the entries in ascending block order". That rests
// on the key layout of db/schema.go: key = prefix(addr[, slot]) ++ big-endian uint64(block), all of
// one length per bucket. Checked here on the real key functions: for block numbers around every
// byte boundary the byte order of the keys is the numeric order of the blocks, the key extends
// the prefix the readers iterate over by exactly 8 bytes, and the seek key the readers build
// (binary.BigEndian.AppendUint64(prefix, n)) is the stored key.
//
// The same facts are a theorem about the model's keys (Props.history_key_order: histKey = prefix ++
// beBytes 8 n, bytesLt = bytes.Compare < 0); the model's keys are compared here with the real ones,
// byte for byte, and the model's order with bytes.Compare on the real keys.
func keyOrderCheck(res *lib.Result, driverPath string) {
	var drv *lib.Driver
	if driverPath != "" {
		d, err := lib.StartDriver(driverPath)
		if err != nil {
			res.Fatalf("key check: Lean driver: %v", err)
		} else {
			drv = d
			defer drv.Close()
		}
	}
	modelKey := func(name string, prefix []byte, block uint64, real []byte) {
		if drv == nil {
			return
		}
		line := fmt.Sprintf("histkey %x", block)
		for _, b := range prefix {
			line += fmt.Sprintf(" %x", b)
		}
		ans, err := drv.Ask(line)
		if err != nil {
			res.Fatalf("key check: Lean driver died: %v", err)
			drv = nil
			return
		}
		res.Compared(1)
		if ans != fmt.Sprintf("%x", real) {
			res.Mismatch(lib.Mismatch{Sig: "model-history-key-bytes", Input: fmt.Sprintf("%s block %d", name, block), Model: ans, Impl: fmt.Sprintf("%x", real)})
		}
	}
	modelLt := func(x, y uint64, real bool) {
		if drv == nil {
			return
		}
		ans, err := drv.Ask(fmt.Sprintf("keylt %x %x", x, y))
		if err != nil {
			res.Fatalf("key check: Lean driver died: %v", err)
			drv = nil
			return
		}
		res.Compared(1)
		want := "0"
		if real {
			want = "1"
		}
		if ans != want {
			res.Mismatch(lib.Mismatch{Sig: "model-history-key-order", Input: fmt.Sprintf("%d %d", x, y), Model: ans, Impl: want})
		}
	}
	var blocks []uint64
	for _, sh := range []uint{0, 8, 16, 24, 32, 40, 48, 56} {
		b := uint64(1) << sh
		blocks = append(blocks, b-1, b, b+1, b*255, b*256-1)
	}
	blocks = append(blocks, 0, ^uint64(0), ^uint64(0)-1)
	addrs := []*felt.Felt{lib.F(1), lib.F(0x104), lib.FHex("0x7ffffffffffffffffffffffffffffffffffffffffffffffffffffffffff0001")}
	slot := lib.F(3)
	type kf struct {
		name   string
		prefix func(a *felt.Felt) []byte
		at     func(a *felt.Felt, b uint64) []byte
	}
	fs := []kf{
		{"ContractStorageHistory", func(a *felt.Felt) []byte { return db.ContractStorageHistoryKey(a, slot) },
			func(a *felt.Felt, b uint64) []byte { return db.ContractStorageHistoryAtBlockKey(a, slot, b) }},
		{"ContractNonceHistory", db.ContractNonceHistoryKey, db.ContractNonceHistoryAtBlockKey},
		{"ContractClassHashHistory", db.ContractClassHashHistoryKey, db.ContractClassHashHistoryAtBlockKey},
		{"DeprecatedContractStorageHistory", func(a *felt.Felt) []byte { return db.DeprecatedContractStorageHistoryKey(a, slot) },
			func(a *felt.Felt, b uint64) []byte { return db.DeprecatedContractStorageHistoryAtBlockKey(a, slot, b) }},
		{"DeprecatedContractNonceHistory", db.DeprecatedContractNonceHistoryKey, db.DeprecatedContractNonceHistoryAtBlockKey},
		{"DeprecatedContractClassHashHistory", db.DeprecatedContractClassHashHistoryKey, db.DeprecatedContractClassHashHistoryAtBlockKey},
	}
	for _, f := range fs {
		for _, a := range addrs {
			p := f.prefix(a)
			for _, x := range blocks {
				kx := f.at(a, x)
				res.Compared(1)
				if len(kx) != len(p)+8 || !bytes.HasPrefix(kx, p) {
					res.Mismatch(lib.Mismatch{Sig: "assumption-history-key-layout", Input: f.name, Model: "prefix ++ 8 bytes", Impl: fmt.Sprintf("%x", kx)})
					continue
				}
				if a == addrs[0] {
					modelKey(f.name, p, x, kx)
				}
				for _, y := range blocks {
					ky := f.at(a, y)
					res.Compared(1)
					if a == addrs[0] && f.name == fs[0].name {
						modelLt(x, y, bytes.Compare(kx, ky) < 0)
					}
					if (bytes.Compare(kx, ky) < 0) != (x < y) {
						res.Mismatch(lib.Mismatch{Sig: "assumption-history-key-order", Input: fmt.Sprintf("%s %d %d", f.name, x, y),
							Model: "byte order = block order", Impl: fmt.Sprintf("%x / %x", kx, ky)})
					}
				}
			}
		}
		res.Hit("keys:" + f.name + ":order-checked")
	}
}
