//go:build verif

package main

import (
	"encoding/binary"
	"fmt"
	"sort"
	"strings"

	"github.com/NethermindEth/juno/core"
	"github.com/NethermindEth/juno/core/felt"
	"github.com/NethermindEth/juno/db"
)

// Store-level correspondence (round 4). After every operation — accepted or discarded — the content
// of the buckets the Lean model keeps is read from the REAL database of every node, key by key, and
// compared with the model's buckets (`dumpstore`): an entry that a revert leaves behind, a write that
// went around a dropped batch, a record with a stale height are differences here even when no read
// of the universe happens to go through them.
//
// Buckets (token forms, hex without prefix):
//
//	legacy state   ContractClassHash ch:<a>=<c>   ContractNonce nn:<a>=<v>   ContractDeploymentHeight dh:<a>=<h>
//	               DeprecatedContract{Storage,Nonce,ClassHash}History  hs:<a>:<k>:<b>=<v>  hn:<a>:<b>=<v>  hc:<a>:<b>=<v>
//	new state      Contract ct:<a>=<nonce>,<class>,<height>   Contract{Storage,Nonce,ClassHash}History hs/hn/hc
//	               ContractTrieStorage, leaf nodes only  lf:<a>:<k>=<v>  (round 5: what the head reader fetches by path)
//	both           Class cl:<c>=<at>   ClassCasmHashMetadata mt:<c>=<declaredAt>,<v2>,<migratedAt>,<v1|->
//	               ChainHeight ht=<h>   BlockHeadersByNumber hd:<n>=<hash>   StateUpdatesByBlockNumber su:<n>
//	               BlockCommitments cm:<n>   BlockHeaderNumbersByHash hi:<hash>=<n>
//
// Not compared: inner trie nodes, class / contract trie (C01), transactions / receipts / filters (C04, C05), and — on a node of one
// backend — the buckets of the other (they must be EMPTY: checked).

func feltHex(b []byte) string { return hx(new(felt.Felt).SetBytes(b)) }

// scan calls f for every entry of a bucket.
func scan(store db.KeyValueStore, b db.Bucket, f func(key, val []byte)) error {
	prefix := b.Key()
	it, err := store.NewIterator(prefix, true)
	if err != nil {
		return err
	}
	defer it.Close()
	for ok := it.First(); ok; ok = it.Next() {
		k := append([]byte{}, it.Key()...)
		v, err := it.Value()
		if err != nil {
			return err
		}
		f(k[1:], append([]byte{}, v...))
	}
	return nil
}

func histTok(tag string, withSlot bool) func(k, v []byte) string {
	return func(k, v []byte) string {
		want := 32 + 8
		if withSlot {
			want += 32
		}
		if len(k) != want {
			return fmt.Sprintf("%s:malformed-key-%x", tag, k)
		}
		blk := binary.BigEndian.Uint64(k[len(k)-8:])
		if withSlot {
			return fmt.Sprintf("%s:%s:%s:%x=%s", tag, feltHex(k[:32]), feltHex(k[32:64]), blk, feltHex(v))
		}
		return fmt.Sprintf("%s:%s:%x=%s", tag, feltHex(k[:32]), blk, feltHex(v))
	}
}

// realStore reads the buckets of one node's database into sorted tokens.
func realStore(n *node) ([]string, error) {
	var toks []string
	add := func(b db.Bucket, f func(k, v []byte) string) error {
		return scan(n.store, b, func(k, v []byte) {
			if t := f(k, v); t != "" {
				toks = append(toks, t)
			}
		})
	}
	u64 := func(v []byte) string {
		if len(v) != 8 {
			return fmt.Sprintf("malformed-%x", v)
		}
		return fmt.Sprintf("%x", binary.BigEndian.Uint64(v))
	}
	type bk struct {
		b db.Bucket
		f func(k, v []byte) string
	}
	legacy := []bk{
		{db.ContractClassHash, func(k, v []byte) string { return "ch:" + feltHex(k) + "=" + feltHex(v) }},
		{db.ContractNonce, func(k, v []byte) string { return "nn:" + feltHex(k) + "=" + feltHex(v) }},
		{db.ContractDeploymentHeight, func(k, v []byte) string { return "dh:" + feltHex(k) + "=" + u64(v) }},
		{db.DeprecatedContractStorageHistory, histTok("hs", true)},
		{db.DeprecatedContractNonceHistory, histTok("hn", false)},
		{db.DeprecatedContractClassHashHistory, histTok("hc", false)},
	}
	newer := []bk{
		{db.Contract, func(k, v []byte) string {
			// core/state/contract.go: nonce ++ class hash ++ [storage root] ++ be64 deployment height
			if len(v) != 2*32+8 && len(v) != 3*32+8 {
				return fmt.Sprintf("ct:%s=malformed-%x", feltHex(k), v)
			}
			return fmt.Sprintf("ct:%s=%s,%s,%x", feltHex(k), feltHex(v[:32]), feltHex(v[32:64]), binary.BigEndian.Uint64(v[len(v)-8:]))
		}},
		{db.ContractStorageHistory, histTok("hs", true)},
		{db.ContractNonceHistory, histTok("hn", false)},
		{db.ContractClassHashHistory, histTok("hc", false)},
		{db.ContractTrieStorage, func(k, v []byte) string {
			// core/trie2/trieutils nodeKeyByPath: owner(32) ++ node type ++ active path bytes ++ path length.
			// Only the LEAF nodes of the storage tries are modelled (NState.leaves: what the head reader
			// fetches by path): node type 2, path length 251 (32 active bytes), value = the felt.
			if len(k) < 34 {
				return fmt.Sprintf("lf:malformed-key-%x", k)
			}
			if k[32] != 2 {
				return "" // inner node: trie structure is C01's
			}
			if len(k) != 32+1+32+1 || k[len(k)-1] != 251 {
				return fmt.Sprintf("lf:malformed-leaf-key-%x", k)
			}
			return fmt.Sprintf("lf:%s:%s=%s", feltHex(k[:32]), feltHex(k[33:65]), feltHex(v))
		}},
	}
	mine, other := legacy, newer
	if n.newSt {
		mine, other = newer, legacy
	}
	for _, x := range mine {
		if err := add(x.b, x.f); err != nil {
			return nil, err
		}
	}
	for _, x := range other {
		// a node of one backend never writes the state buckets of the other
		if err := add(x.b, func(k, v []byte) string { return "foreign-bucket:" + x.f(k, v) }); err != nil {
			return nil, err
		}
	}
	both := []bk{
		{db.Class, func(k, v []byte) string {
			// the value is an encoded DeclaredClassDefinition: its At through juno's own decoder
			dc, err := core.GetClass(n.store, new(felt.Felt).SetBytes(k))
			if err != nil || dc == nil {
				return fmt.Sprintf("cl:%s=undecodable(%v)", feltHex(k), err)
			}
			return fmt.Sprintf("cl:%s=%x", feltHex(k), dc.At)
		}},
		{db.ClassCasmHashMetadata, func(k, v []byte) string {
			// core/class.go MarshalBinary: declaredAt(8) v2(32) flag [migratedAt(8)] flag [v1(32)]
			if len(v) < 42 {
				return "mt:" + feltHex(k) + "=malformed"
			}
			decl := binary.BigEndian.Uint64(v[:8])
			v2 := feltHex(v[8:40])
			off := 40
			mig := uint64(0)
			if v[off] == 1 {
				if len(v) < off+9 {
					return "mt:" + feltHex(k) + "=malformed"
				}
				mig = binary.BigEndian.Uint64(v[off+1 : off+9])
				off += 9
			} else {
				off++
			}
			v1 := "-"
			if off < len(v) && v[off] == 1 {
				if len(v) < off+33 {
					return "mt:" + feltHex(k) + "=malformed"
				}
				v1 = feltHex(v[off+1 : off+33])
			}
			return fmt.Sprintf("mt:%s=%x,%s,%x,%s", feltHex(k), decl, v2, mig, v1)
		}},
		{db.ChainHeight, func(k, v []byte) string { return "ht=" + u64(v) }},
		{db.StateUpdatesByBlockNumber, func(k, v []byte) string { return "su:" + u64(k) }},
		{db.BlockCommitments, func(k, v []byte) string { return "cm:" + u64(k) }},
		{db.BlockHeaderNumbersByHash, func(k, v []byte) string { return "hi:" + feltHex(k) + "=" + u64(v) }},
	}
	for _, x := range both {
		if err := add(x.b, x.f); err != nil {
			return nil, err
		}
	}
	// headers: the hash through juno's own decoder (the header is a CBOR structure)
	var hdrErr error
	if err := scan(n.store, db.BlockHeadersByNumber, func(k, v []byte) {
		if len(k) != 8 {
			toks = append(toks, fmt.Sprintf("hd:malformed-key-%x", k))
			return
		}
		num := binary.BigEndian.Uint64(k)
		h, err := n.bc.BlockHeaderHashByNumber(num)
		if err != nil {
			hdrErr = err
			return
		}
		toks = append(toks, fmt.Sprintf("hd:%x=%s", num, hx(h)))
	}); err != nil {
		return nil, err
	}
	if hdrErr != nil {
		return nil, hdrErr
	}
	sort.Strings(toks)
	return toks, nil
}

// storeCheck compares the real buckets of a node with the model's.
func (e *Engine) storeCheck(n *node) {
	if e.drv == nil {
		return
	}
	real, err := realStore(n)
	if err != nil {
		e.fatal("reading the buckets of %s: %v", n.name, err)
		return
	}
	ans, ok := e.ask("dumpstore " + n.kind)
	if !ok {
		return
	}
	var model []string
	if ans != "-" {
		model = strings.Fields(ans)
	}
	for _, t := range model {
		if !strings.ContainsAny(t, ":=") {
			e.fatal("driver answer to dumpstore: %.80s", ans)
			return
		}
	}
	sort.Strings(model)
	if n.name == "src" && e.prunedBelow > 0 {
		// the prune step deletes commitments on the destinations only
		real, model = dropTag(real, "cm:"), dropTag(model, "cm:")
	}
	if e.res != nil {
		e.res.Compared(len(real) + 1)
	}
	e.stats["store:entries-compared:"+n.kind] += len(real)
	e.stats["store:snapshots-compared:"+n.kind]++
	// first difference, per bucket tag
	i, j := 0, 0
	for i < len(real) || j < len(model) {
		switch {
		case j >= len(model) || (i < len(real) && real[i] < model[j]):
			e.storeDiff(n, real[i], "in the database, not in the model")
			i++
		case i >= len(real) || model[j] < real[i]:
			e.storeDiff(n, model[j], "in the model, not in the database")
			j++
		default:
			i++
			j++
		}
	}
}

func (e *Engine) storeDiff(n *node, tok, what string) {
	tag := tok
	if k := strings.IndexAny(tok, ":="); k >= 0 {
		tag = tok[:k]
	}
	impl, mdl := tok, "-"
	if strings.HasPrefix(what, "in the model") {
		impl, mdl = "-", tok
	}
	e.fail(Failure{Sig: "model-store-" + n.kind + "-" + tag,
		What:  fmt.Sprintf("%s (%s) after step %d (%s): entry %s is %s", n.name, n.kind, len(e.steps), e.lastOp, tok, what),
		Query: map[string]any{"node": n.name, "backend": n.kind, "entry": tok, "impl": impl, "model": mdl, "step": len(e.steps)}})
}

func dropTag(xs []string, tag string) []string {
	var out []string
	for _, x := range xs {
		if !strings.HasPrefix(x, tag) {
			out = append(out, x)
		}
	}
	return out
}
