//go:build verif

package main

import (
	"fmt"
	"strings"

	"github.com/NethermindEth/juno/blockchain"
	"github.com/NethermindEth/juno/core"
	"github.com/NethermindEth/juno/core/felt"
	"github.com/NethermindEth/juno/db"
	"github.com/NethermindEth/juno/db/memory"
	"verif/harness/lib"
)

// Torn reads. juno serves RPC reads while sync stores blocks. A historical reader holds no
// snapshot; if ONE query makes several database accesses, a commit between two of them can mix two
// states. This probe makes that interleaving deterministic and single-threaded: a reader of block 0
// is opened, and from a hook that fires just before the i-th database access of a single query
//   - "store":      the next block is stored (reader opened while block 0 is the head),
//   - "two-stores": the next two blocks are stored,
//   - "revert":     the head is reverted (reader opened at head 2, block 2 goes away),
//
// for every i until the query makes no i-th access. The answer must be block 0's.
// One Sig per (backend, query kind, store|revert, access index): a torn read of another kind, or at
// another access, is a different finding.
func raceProbe(res *lib.Result, newState bool) {
	kind := kindName(newState)
	c0 := hx(&cairo0Fxs[0])
	blocks := []string{
		"sa 104 sk 2 1 sk 4 3 d 104 c000",
		"sa 104 sk 2 2 sk 3 5 sk 4 0 n 104 1 r 104 c001 d 105 c002 sa 105 sk 2 9 c0 " + c0,
		"sa 104 sk 2 7 sk 3 0 sk 4 9 n 104 2 r 104 c002 sa 105 sk 2 0 n 105 4",
	}
	g := lib.NewChainGen(lib.NewRNG(1), newState, lib.DefaultGenOptions())
	for _, line := range blocks {
		d, err := decodeDiff("0.13.2", line)
		if err != nil {
			res.Fatalf("torn-read probe (%s): %v", kind, err)
			return
		}
		if _, err := g.Next(&lib.BlockSpec{Version: d.Version, Diff: d.Diff, Classes: d.Classes, NoTxs: true}); err != nil {
			res.Fatalf("torn-read probe (%s): %v", kind, err)
			return
		}
	}
	a104, a105 := lib.F(0x104), lib.F(0x105)
	qs := []query{
		{Kind: "storage", Addr: a104, Slot: lib.F(2)}, {Kind: "storage", Addr: a104, Slot: lib.F(3)},
		{Kind: "storage", Addr: a104, Slot: lib.F(4)}, {Kind: "nonce", Addr: a104}, {Kind: "classhash", Addr: a104},
		{Kind: "storage", Addr: a105, Slot: lib.F(2)}, {Kind: "classhash", Addr: a105}, {Kind: "nonce", Addr: a105},
		{Kind: "class", Addr: &cairo0Fxs[0]},
	}
	type action struct {
		name   string
		before int // blocks on the chain when the reader is opened
		inside func(bc *blockchain.Blockchain) error
	}
	actions := []action{
		{"store", 1, func(bc *blockchain.Blockchain) error { return lib.StoreOn(bc, g.Bundles[1]) }},
		{"two-stores", 1, func(bc *blockchain.Blockchain) error {
			if err := lib.StoreOn(bc, g.Bundles[1]); err != nil {
				return err
			}
			return lib.StoreOn(bc, g.Bundles[2])
		}},
		{"revert", 3, func(bc *blockchain.Blockchain) error { return bc.RevertHead() }},
	}
	for _, act := range actions {
		for _, label := range []string{"num", "hash"} {
			for _, q := range qs {
				for i := 1; i <= 40; i++ {
					fdb := newFaultDB(newMem())
					bc := lib.NodeOn(fdb, g.Net, newState)
					for k := 0; k < act.before; k++ {
						if err := lib.StoreOn(bc, g.Bundles[k]); err != nil {
							res.Fatalf("torn-read probe (%s): store of block %d: %v", kind, k, err)
							return
						}
					}
					var r core.StateReader
					var err error
					if label == "num" {
						r, _, err = bc.StateAtBlockNumber(0)
					} else {
						r, _, err = bc.StateAtBlockHash(g.Bundles[0].Block.Hash)
					}
					if err != nil {
						res.Fatalf("torn-read probe (%s): reader of block 0: %v", kind, err)
						return
					}
					fired := false
					var inErr error
					fdb.hook = func() {
						fired = true
						inErr = act.inside(bc)
					}
					fdb.hookAt = i
					got := readOne(r, q)
					fdb.hookAt, fdb.hook = 0, nil
					if !fired {
						res.HitN(fmt.Sprintf("torn:%s:%s:db-accesses-per-query=%d", kind, q.Kind, i-1), 1)
						break
					}
					if inErr != nil {
						// the interleaving did not happen: nothing was tested (never green, never counted)
						res.Fatalf("torn-read probe (%s, %s inside a %s query): %v", kind, act.name, q.Kind, firstLine(inErr.Error()))
						return
					}
					want := expected(g.States[0], q, false)
					res.Case(fmt.Sprintf("torn/%s/%s/%s/%s/%v/%d", kind, act.name, label, q.Kind, q.Slot, i), true)
					res.Hit("torn:" + act.name + "-committed-inside-a-query")
					if !contains(want, got) {
						qj := qjson(q)
						qj["backend"], qj["view"], qj["n"], qj["before_db_access"], qj["got"], qj["want"], qj["inside"] = kind, label, 0, i, got, want[0], act.name
						// (by-number and by-hash views share the reader once resolved; one and two stores are one cause)
						res.Violate(lib.Violation{Sig: fmt.Sprintf("%s-%s-read-torn-by-%s-before-db-access-%d", kind, q.Kind, tornCause(act.name), i),
							What: fmt.Sprintf("%s backend: reader of block 0 (%s) opened at head %d; %s committed just before database access #%d of ONE %s query: answer %s, block 0 gives %s",
								kind, label, act.before-1, act.name, i, q.Kind, got, want[0]),
							Replay: map[string]any{"blocks": blocks, "query": qj,
								"how": "harness/cmd/c03/race.go: store the first `opened at head`+1 blocks; open the reader of block 0; perform the action from a db hook before the given access of the query"}})
					}
				}
			}
		}
	}
}

// readErrorProbe: a database read error in the middle of ONE query must surface as an error (or not
// matter); it must never turn into a value or into not-found. Chain of three blocks, every view of
// blocks 0 and 1 and the head view, every query, the i-th database access of the query fails.
func readErrorProbe(res *lib.Result, newState bool) {
	kind := kindName(newState)
	c0 := hx(&cairo0Fxs[0])
	blocks := []string{
		"sa 104 sk 2 1 sk 4 3 d 104 c000 sa 1 sk 2 5",
		"sa 104 sk 2 2 sk 3 5 sk 4 0 n 104 1 r 104 c001 d 105 c002 sa 105 sk 2 9 c0 " + c0,
		"sa 104 sk 3 0 n 105 4 sa 1 sk 3 6",
	}
	g := lib.NewChainGen(lib.NewRNG(1), newState, lib.DefaultGenOptions())
	for _, line := range blocks {
		d, err := decodeDiff("0.13.2", line)
		if err != nil {
			res.Fatalf("read-error probe (%s): %v", kind, err)
			return
		}
		if _, err := g.Next(&lib.BlockSpec{Version: d.Version, Diff: d.Diff, Classes: d.Classes, NoTxs: true}); err != nil {
			res.Fatalf("read-error probe (%s): %v", kind, err)
			return
		}
	}
	fdb := newFaultDB(newMem())
	bc := lib.NodeOn(fdb, g.Net, newState)
	for k := range blocks {
		if err := lib.StoreOn(bc, g.Bundles[k]); err != nil {
			res.Fatalf("read-error probe (%s): store of block %d: %v", kind, k, err)
			return
		}
	}
	a104, a105, a1, a9 := lib.F(0x104), lib.F(0x105), lib.F(1), lib.F(0x999)
	qs := []query{
		{Kind: "storage", Addr: a104, Slot: lib.F(2)}, {Kind: "storage", Addr: a104, Slot: lib.F(3)}, {Kind: "storage", Addr: a104, Slot: lib.F(4)},
		{Kind: "nonce", Addr: a104}, {Kind: "classhash", Addr: a104}, {Kind: "storage", Addr: a105, Slot: lib.F(2)},
		{Kind: "classhash", Addr: a105}, {Kind: "nonce", Addr: a105}, {Kind: "storage", Addr: a1, Slot: lib.F(2)},
		{Kind: "storage", Addr: a9, Slot: lib.F(2)}, {Kind: "nonce", Addr: a9}, {Kind: "class", Addr: &cairo0Fxs[0]}, {Kind: "class", Addr: &cairo0Fxs[1]},
	}
	type vw struct {
		label string
		n     int
	}
	for _, v := range []vw{{"num", 0}, {"num", 1}, {"hash", 0}, {"head", 2}} {
		for _, q := range qs {
			for i := 1; i <= 40; i++ {
				var r core.StateReader
				var err error
				switch v.label {
				case "num":
					r, _, err = bc.StateAtBlockNumber(uint64(v.n))
				case "hash":
					r, _, err = bc.StateAtBlockHash(g.Bundles[v.n].Block.Hash)
				default:
					r, _, err = bc.HeadState()
				}
				if err != nil {
					res.Fatalf("read-error probe (%s): %s reader of block %d: %v", kind, v.label, v.n, err)
					return
				}
				fdb.failed, fdb.failAt = false, i
				got := readOne(r, q)
				fdb.failAt = 0
				if !fdb.failed {
					break
				}
				st := g.States[v.n]
				want := expected(st, q, v.label == "head")
				res.Case(fmt.Sprintf("readerr/%s/%s/%d/%s/%v/%v/%d", kind, v.label, v.n, q.Kind, q.Addr, q.Slot, i), true)
				res.Hit("readerr:" + kind + ":" + tokClass(got))
				if strings.HasPrefix(got, "err:") || contains(want, got) {
					continue
				}
				qj := qjson(q)
				qj["backend"], qj["view"], qj["n"], qj["failing_db_access"], qj["got"], qj["want"] = kind, v.label, v.n, i, got, strings.Join(want, "|")
				res.Violate(lib.Violation{Sig: fmt.Sprintf("%s-%s-%s-read-error-at-db-access-%d-answered-as-%s", kind, v.label, q.Kind, i, classify(want, got)),
					What: fmt.Sprintf("%s backend, %s view of block %d: database access #%d of ONE %s query fails; the query answers %s instead of an error (the diffs give %s)",
						kind, v.label, v.n, i, q.Kind, got, strings.Join(want, "|")),
					Replay: map[string]any{"blocks": blocks, "query": qj,
						"how": "harness/cmd/c03/race.go readErrorProbe: store the blocks, open the view, make the given database read access of the query return an error"}})
			}
		}
	}
}

func tornCause(action string) string {
	if action == "two-stores" {
		return "store"
	}
	return action
}

func newMem() db.KeyValueStore { return memory.New() }

var _ = felt.Zero
