//go:build verif

package main

import (
	"fmt"

	"github.com/NethermindEth/juno/core"
	"github.com/NethermindEth/juno/core/felt"
	"github.com/NethermindEth/juno/db"
	"github.com/NethermindEth/juno/db/memory"
	"verif/harness/lib"
)

// Torn reads. juno serves RPC reads while sync stores blocks. A historical reader holds no
// snapshot; if ONE query makes several database accesses, a Store committing between two of them
// can mix two states. This probe makes that interleaving deterministic and single-threaded: a
// reader of block 0 is opened while block 0 is the head, and block 1 is stored from a hook that
// fires just before the i-th database access of a single query, for every i until the query makes
// no i-th access. The answer must be block 0's.
func raceProbe(res *lib.Result, newState bool) {
	kind := kindName(newState)
	c0 := hx(&cairo0Fxs[0])
	blocks := []string{
		"sa 104 sk 2 1 sk 4 3 d 104 c000",
		"sa 104 sk 2 2 sk 3 5 sk 4 0 n 104 1 r 104 c001 d 105 c002 sa 105 sk 2 9 c0 " + c0,
	}
	g := lib.NewChainGen(lib.NewRNG(1), newState, lib.DefaultGenOptions())
	for _, line := range blocks {
		d, err := decodeDiff("0.13.2", line)
		if err != nil {
			res.Fatalf("torn-read probe (%s): %v", kind, err)
			return
		}
		if _, err := g.Next(&lib.BlockSpec{Version: d.Version, Diff: d.Diff, Classes: d.Classes, NoTxs: true}); err != nil {
			res.Fatalf("torn-read probe (%s): %v", kind, err)
			return
		}
	}
	a104, a105 := lib.F(0x104), lib.F(0x105)
	qs := []query{
		{Kind: "storage", Addr: a104, Slot: lib.F(2)}, {Kind: "storage", Addr: a104, Slot: lib.F(3)},
		{Kind: "storage", Addr: a104, Slot: lib.F(4)}, {Kind: "nonce", Addr: a104}, {Kind: "classhash", Addr: a104},
		{Kind: "storage", Addr: a105, Slot: lib.F(2)}, {Kind: "classhash", Addr: a105}, {Kind: "nonce", Addr: a105},
		{Kind: "class", Addr: &cairo0Fxs[0]},
	}
	for _, label := range []string{"num", "hash"} {
		for _, q := range qs {
			for i := 1; i <= 40; i++ {
				fdb := newFaultDB(newMem())
				bc := lib.NodeOn(fdb, g.Net, newState)
				if err := lib.StoreOn(bc, g.Bundles[0]); err != nil {
					res.Fatalf("torn-read probe (%s): store of block 0: %v", kind, err)
					return
				}
				var r core.StateReader
				var err error
				if label == "num" {
					r, _, err = bc.StateAtBlockNumber(0)
				} else {
					r, _, err = bc.StateAtBlockHash(g.Bundles[0].Block.Hash)
				}
				if err != nil {
					res.Fatalf("torn-read probe (%s): reader of block 0: %v", kind, err)
					return
				}
				fired := false
				fdb.hook = func() {
					fired = true
					if err := lib.StoreOn(bc, g.Bundles[1]); err != nil {
						res.Note("race probe: store inside the hook failed: %v", firstLine(err.Error()))
					}
				}
				fdb.hookAt = i
				got := readOne(r, q)
				fdb.hookAt, fdb.hook = 0, nil
				if !fired {
					res.HitN(fmt.Sprintf("torn:%s:%s:db-accesses-per-query=%d", kind, q.Kind, i-1), 1)
					break
				}
				want := expected(g.States[0], q, false)
				res.Case(fmt.Sprintf("torn/%s/%s/%s/%v/%d", kind, label, q.Kind, q.Slot, i), true)
				res.Hit("torn:store-committed-inside-a-query")
				if !contains(want, got) {
					qj := qjson(q)
					qj["backend"], qj["view"], qj["n"], qj["store_before_db_access"], qj["got"], qj["want"] = kind, label, 0, i, got, want[0]
					res.Violate(lib.Violation{Sig: kind + "-historical-read-torn-by-store-inside-the-query",
						What: fmt.Sprintf("%s backend: reader of block 0 (%s) opened at head 0; block 1 committed just before database access #%d of ONE %s query: answer %s, block 0 gives %s",
							kind, label, i, q.Kind, got, want[0]),
						Replay: map[string]any{"blocks": blocks, "query": qj,
							"how": "harness/cmd/c03/race.go: store blocks[0]; open the reader of block 0; store blocks[1] from a db hook before the given access of the query"}})
				}
			}
		}
	}
}

func newMem() db.KeyValueStore { return memory.New() }

var _ = felt.Zero
