//go:build verif

package main

import (
	"fmt"
	"strings"

	"github.com/NethermindEth/juno/core/felt"
	"github.com/NethermindEth/juno/jsonrpc"
	rpcv10 "github.com/NethermindEth/juno/rpc/v10"
	rpcv9 "github.com/NethermindEth/juno/rpc/v9"
	"github.com/NethermindEth/juno/sync"
	"github.com/NethermindEth/juno/utils/log"
	"verif/harness/lib"
)

// The RPC composition. The property's "contracts that did not yet exist at that block are reported
// as not found" is, for storage, produced by the RPC handlers and not by the state readers (a head
// reader answers 0 for a slot of an address without contract): v8/v9 getStorageAt asks
// ContractClassHash first, v10 reads the slot and probes the class hash for a zero value on the
// latest block. This file drives starknet_getStorageAt / getNonce / getClassHashAt of the v9 and
// v10 handlers, built over the destination nodes, for latest / block number / block hash, and
// compares with the oracle: value of a contract that exists at the block, CONTRACT_NOT_FOUND (20)
// otherwise. System contracts 0x1/0x2: getNonce / getClassHashAt answer not-found by construction;
// getStorageAt must return every non-zero slot, and follows expectedOn for zero slots.
//
// Round 5: the composition has a Lean model (ModelRpc.lean: stateByBlockID, the class-hash probe of v9,
// the zero-on-latest probe of v10, the system-contract short cut of getNonce / getClassHashAt) with
// Props.rpc_reads_correct; every answer of the real handlers is compared with the model's (driver op
// `rpc`), system contracts and drains included.

type rpcPair struct {
	v9  *rpcv9.Handler
	v10 *rpcv10.Handler
}

func (e *Engine) rpcOf(n *node) *rpcPair {
	if e.rpc == nil {
		e.rpc = map[string]*rpcPair{}
	}
	if p, ok := e.rpc[n.name]; ok {
		return p
	}
	lg := log.NewNopZapLogger()
	p := &rpcPair{v9: rpcv9.New(n.bc, &sync.NoopSynchronizer{}, nil, lg), v10: rpcv10.New(n.bc, &sync.NoopSynchronizer{}, nil, lg)}
	e.rpc[n.name] = p
	return p
}

func rpcTok(v *felt.Felt, err *jsonrpc.Error) string {
	if err != nil {
		if err.Code == 20 {
			return "nf"
		}
		return fmt.Sprintf("err:rpc-%d", err.Code)
	}
	if v == nil {
		return "err:nil-result"
	}
	return hx(v)
}

// rpcCheck: the three contract read methods over the universe, on the latest block and on two
// blocks by number and by hash (the newest and a rotating one).
func (e *Engine) rpcCheck(n *node) {
	h := e.g.Height()
	if h == 0 || n.name == "src" {
		return
	}
	p := e.rpcOf(n)
	type target struct {
		label string
		n     int
	}
	// latest, and one block by number or by hash in turn (the newest every third time)
	k := (len(e.steps) * 7) % h
	if len(e.steps)%3 == 0 {
		k = h - 1
	}
	ts := []target{{"latest", h - 1}, {[]string{"num", "hash"}[len(e.steps)%2], k}}
	for _, t := range ts {
		if n.seeded && t.label == "num" && t.n < n.floor {
			// below the seeded floor: the handlers answer BLOCK_NOT_FOUND (the views are compared with
			// the model in belowFloor)
			e.stats["rpc:block-id:num-below-the-floor(skipped)"]++
			continue
		}
		st := e.g.States[t.n]
		var id9 rpcv9.BlockID
		var id10 rpcv10.BlockID
		switch t.label {
		case "latest":
			id9, id10 = rpcv9.BlockIDLatest(), rpcv10.BlockIDLatest()
		case "num":
			id9, id10 = rpcv9.BlockIDFromNumber(uint64(t.n)), rpcv10.BlockIDFromNumber(uint64(t.n))
		default:
			id9, id10 = rpcv9.BlockIDFromHash(e.g.Bundles[t.n].Block.Hash), rpcv10.BlockIDFromHash(e.g.Bundles[t.n].Block.Hash)
		}
		// the Lean model of the handlers (ModelRpc.lean) on the same block id
		var mdl []string
		ns := len(e.u.Slots)
		if ans, ok := e.ask("rpc" + strings.TrimPrefix(e.dumpLine(n, map[string]string{"latest": "head", "num": "num", "hash": "hash"}[t.label], t.n), "dump")); ok {
			mdl = strings.Fields(ans)
			if len(mdl) != len(e.u.Addrs)*(2*ns+2) {
				e.fatal("driver answer to rpc (%s, %s %d): %d tokens, want %d: %.80s", n.kind, t.label, t.n, len(mdl), len(e.u.Addrs)*(2*ns+2), ans)
				mdl = nil
			}
		}
		model := func(ai, off int, ver, method string, q query, got string) {
			if mdl == nil {
				return
			}
			m := mdl[ai*(2*ns+2)+off]
			if e.res != nil {
				e.res.Compared(1)
			}
			same := m == got
			switch {
			case m == "bnf":
				same = got == "err:rpc-24"
			case m == "err":
				same = strings.HasPrefix(got, "err:rpc-") && got != "err:rpc-24" && got != "err:rpc-20"
			}
			if !same {
				qj := qjson(q)
				qj["node"], qj["backend"], qj["block_id"], qj["n"], qj["rpc"], qj["method"], qj["impl"], qj["model"] = n.name, n.kind, t.label, t.n, ver, method, got, m
				e.fail(Failure{Sig: fmt.Sprintf("model-rpc-%s-%s-%s-%s", n.kind, ver, method, t.label),
					What: fmt.Sprintf("%s backend, rpc %s %s at block %d (%s): implementation %s, model %s", n.kind, ver, method, t.n, t.label, got, m), Query: qj})
			}
		}
		report := func(ver, method string, q query, got string, want []string) {
			e.stats["rpc:"+method+":"+tokClass(got)]++
			if contains(want, got) {
				return
			}
			kind := q.Kind
			if isSystem(q.Addr) {
				kind = "sys" + kind
			}
			qj := qjson(q)
			qj["node"], qj["backend"], qj["block_id"], qj["n"], qj["rpc"], qj["method"], qj["got"], qj["want"] = n.name, n.kind, t.label, t.n, ver, method, got, strings.Join(want, "|")
			e.fail(Failure{Violation: true, Sig: fmt.Sprintf("%s-rpc-%s-%s-%s-%s-%s", n.kind, ver, method, t.label, kind, classify(want, got)),
				What: fmt.Sprintf("%s backend, rpc %s %s at block %d (%s, head %d): %v = %s, the state diffs up to block %d give %s",
					n.kind, ver, method, t.n, t.label, h-1, qj, got, t.n, strings.Join(want, "|")),
				Query: qj})
		}
		for ai := range e.u.Addrs {
			a := e.u.Addrs[ai]
			sys := isSystem(&a)
			if sys && e.emptied {
				continue // drain histories: the state readers' answers are reported under their own Sig
			}
			exists := st.Deployed[a]
			// getNonce / getClassHashAt
			for _, k := range []string{"nonce", "classhash"} {
				q := query{Kind: k, Addr: &a}
				want := []string{"nf"}
				if !sys && exists {
					want = expected(st, q, false)
				}
				var g9, g10 string
				_, pan, _ := lib.Try(func() error {
					if k == "nonce" {
						v, err := p.v9.Nonce(&id9, &a)
						g9 = rpcTok(v, err)
						w, err := p.v10.Nonce(&id10, &a)
						g10 = rpcTok(w, err)
					} else {
						v, err := p.v9.ClassHashAt(&id9, &a)
						g9 = rpcTok(v, err)
						w, err := p.v10.ClassHashAt(&id10, &a)
						g10 = rpcTok(w, err)
					}
					return nil
				})
				if pan {
					g9, g10 = "panic", "panic"
				}
				report("v9", "get-"+k, q, g9, want)
				report("v10", "get-"+k, q, g10, want)
				off := 2 * ns
				if k == "classhash" {
					off++
				}
				model(ai, off, "v9", "get-"+k, q, g9)
				model(ai, off, "v10", "get-"+k, q, g10)
			}
			for si := range e.u.Slots {
				sl := e.u.Slots[si]
				q := query{Kind: "storage", Addr: &a, Slot: &sl}
				var want9, want10 []string
				switch {
				case !sys && exists:
					want9 = expected(st, q, false)
					want10 = want9
				case !sys:
					want9, want10 = []string{"nf"}, []string{"nf"}
				default:
					// v9: class-hash probe, then the slot; v10: the slot, and the probe for a zero on latest
					probe := e.expectedOn(n, st, query{Kind: "classhash", Addr: &a}, t.label == "latest")
					slot := e.expectedOn(n, st, q, t.label == "latest")
					for _, pr := range probe {
						if pr == "nf" && !(len(slot) == 1 && slot[0] != "0") {
							want9 = append(want9, "nf") // (a non-zero slot must be returned)
						} else if pr != "nf" {
							want9 = append(want9, slot...)
						}
					}
					if len(want9) == 0 {
						want9 = slot
					}
					for _, s := range slot {
						if s == "0" && t.label == "latest" {
							for _, pr := range probe {
								if pr == "nf" {
									want10 = append(want10, "nf")
								} else {
									want10 = append(want10, "0")
								}
							}
						} else {
							want10 = append(want10, s)
						}
					}
				}
				var g9, g10, glu string
				_, pan, _ := lib.Try(func() error {
					v, err := p.v9.StorageAt(&a, &sl, &id9)
					g9 = rpcTok(v, err)
					r, err := p.v10.StorageAt((*felt.Address)(&a), &sl, &id10, rpcv10.StorageAtResponseFlags{})
					if err != nil {
						g10 = rpcTok(nil, err)
					} else if r == nil {
						g10 = "err:nil-result"
					} else {
						g10 = hx(&r.Value)
					}
					// the same request with include_last_update_block: same value, plus the block of
					// the last update of the slot as of the requested block (every third slot)
					if (si+ai+len(e.steps))%3 != 0 {
						glu = "skipped"
						return nil
					}
					r2, err := p.v10.StorageAt((*felt.Address)(&a), &sl, &id10, rpcv10.StorageAtResponseFlags{IncludeLastUpdateBlock: true})
					switch {
					case err != nil:
						glu = rpcTok(nil, err)
					case r2 == nil:
						glu = "err:nil-result"
					case hx(&r2.Value) != g10:
						glu = "err:value-differs-with-the-flag"
					default:
						glu = fmt.Sprintf("%x", r2.LastUpdateBlock)
					}
					return nil
				})
				if pan {
					g9, g10, glu = "panic", "panic", "panic"
				}
				report("v9", "get-storage", q, g9, want9)
				report("v10", "get-storage", q, g10, want10)
				model(ai, si, "v9", "get-storage", q, g9)
				model(ai, ns+si, "v10", "get-storage", q, g10)
				if glu != "skipped" && g10 != "nf" && !strings.HasPrefix(g10, "err:") && g10 != "panic" {
					report("v10", "get-storage-last-update-block", query{Kind: "lu", Addr: &a, Slot: &sl}, glu,
						e.expectedOn(n, st, query{Kind: "lu", Addr: &a, Slot: &sl}, t.label == "latest"))
				} else if glu != "skipped" && glu != g10 {
					// the request without the flag was refused (contract not found / error): the flag must not
					// change that
					report("v10", "get-storage-with-last-update-block", q, glu, want10)
				}
			}
		}
		if e.res != nil {
			e.res.Case(fmt.Sprintf("%s/%d/%s/rpc-%s/%d", e.cfg.Name, len(e.steps), n.name, t.label, t.n), t.n != h-1)
		}
		e.stats["rpc:block-id:"+t.label]++
	}
}
