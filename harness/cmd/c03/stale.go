//go:build verif

package main

import (
	"sort"

	"github.com/NethermindEth/juno/core"
	"github.com/NethermindEth/juno/core/felt"
	"verif/harness/lib"
)

// Shadow of ONE defect, used only to give its violations a Sig of their own (so that listing it as
// a known finding cannot hide any other wrong head value): core/trie2 Trie.delete records the
// wrong path for a deleted leaf whose parent is the binary node of the last level, i.e. whose
// sibling leaf (key xor 1) exists at that moment; the leaf stays on disk until it is written again
// or the contract's storage is wiped. stateObject.commit applies the slots of a block in
// DESCENDING key order.

func sibling(k *felt.Felt) felt.Felt {
	b := k.Bytes()
	b[31] ^= 1
	return *new(felt.Felt).SetBytes(b[:])
}

// shadowWrites replays the writes of one block (or of a reverse diff) for one address.
func (e *Engine) shadowWrites(a felt.Felt, before map[felt.Felt]felt.Felt, writes map[felt.Felt]felt.Felt) {
	cur := map[felt.Felt]felt.Felt{}
	for k, v := range before {
		if !v.IsZero() {
			cur[k] = v
		}
	}
	keys := make([]felt.Felt, 0, len(writes))
	for k := range writes {
		keys = append(keys, k)
	}
	sort.Slice(keys, func(i, j int) bool { return keys[i].Cmp(&keys[j]) > 0 })
	if e.stale[a] == nil {
		e.stale[a] = map[felt.Felt]felt.Felt{}
	}
	for _, k := range keys {
		v := writes[k]
		if !v.IsZero() {
			cur[k] = v
			delete(e.stale[a], k)
			continue
		}
		old, present := cur[k]
		if !present {
			continue
		}
		if _, sib := cur[sibling(&k)]; sib {
			e.stale[a][k] = old
		} else {
			delete(e.stale[a], k)
		}
		delete(cur, k)
	}
}

func storageOf(st *lib.AbsState, a felt.Felt) map[felt.Felt]felt.Felt {
	if c, ok := st.Contracts[a]; ok {
		return c.Storage
	}
	return nil
}

func (e *Engine) shadowStore(prev *lib.AbsState, d *core.StateDiff) {
	for a, inner := range d.StorageDiffs {
		w := map[felt.Felt]felt.Felt{}
		for k, v := range inner {
			w[k] = *v
		}
		e.shadowWrites(a, storageOf(prev, a), w)
		if isSystem(&a) {
			// purged when the storage is empty afterwards: all leaves wiped
			after := e.g.HeadState()
			if len(storageOf(after, a)) == 0 {
				delete(e.stale, a)
			}
		}
	}
}

// shadowRevert is called after the head was popped: e.g.HeadState() is the state before the
// reverted block, d the diff of the reverted block.
func (e *Engine) shadowRevert(d *core.StateDiff) {
	target := e.g.HeadState() // state to return to
	// state before the revert = target + d
	for a, inner := range d.StorageDiffs {
		before := map[felt.Felt]felt.Felt{}
		for k, v := range storageOf(target, a) {
			before[k] = v
		}
		w := map[felt.Felt]felt.Felt{}
		for k, v := range inner {
			if v.IsZero() {
				delete(before, k)
			} else {
				before[k] = *v
			}
			w[k] = storageOf(target, a)[k] // zero value when unset
		}
		e.shadowWrites(a, before, w)
		if isSystem(&a) && len(storageOf(target, a)) == 0 {
			delete(e.stale, a)
		}
	}
	for a := range d.DeployedContracts {
		delete(e.stale, a)
	}
}
