//go:build verif

package main

import (
	"bytes"
	"errors"
	"fmt"
	"strings"

	"github.com/NethermindEth/juno/core"
	"github.com/NethermindEth/juno/core/felt"
	"github.com/NethermindEth/juno/db"
	"verif/harness/lib"
)

// Universe is the finite set of addresses, slots and class hashes every view is read over.
type Universe struct {
	Addrs   []felt.Felt
	Slots   []felt.Felt
	Classes []felt.Felt
}

// The address / slot tables of the two universes. "" = the universe of harness/lib's chain generator
// (0x1, 0x2, two addresses sharing a 240-bit prefix, 0x104..0x107; slots 0, 2^250-1, 2, 3, 4).
// "ff" = the byte-boundary universe (round 5): addresses and slots whose big-endian bytes END in 0xff
// next to the address / slot right above them — what a key-range helper that mishandles a trailing
// 0xff byte confuses: 0x1ff / 0x200 (one 0xff), 0xffff / 0x10000 (two), 2^250-1 / 2^250 (31 bytes 0xff
// after 0x03: the longest carry a trie key of 251 bits allows); slots 0xff / 0x100 and 2^250-1 / 2^250.
func universeTables(name string) (addrs, slots []felt.Felt) {
	big := "0x7ffffffffffffffffffffffffffffffffffffffffffffffffffffffffff000"
	if name == "ff" {
		addrs = []felt.Felt{*lib.F(1), *lib.F(2),
			*lib.FHex("0x3ffffffffffffffffffffffffffffffffffffffffffffffffffffffffffffff"),
			*lib.FHex("0x400000000000000000000000000000000000000000000000000000000000000"),
			*lib.F(0x1ff), *lib.F(0x200), *lib.F(0xffff), *lib.F(0x10000)}
		slots = []felt.Felt{*lib.F(0), *lib.FHex("0x3ffffffffffffffffffffffffffffffffffffffffffffffffffffffffffffff"),
			*lib.FHex("0x400000000000000000000000000000000000000000000000000000000000000"), *lib.F(0xff), *lib.F(0x100)}
		// each pair is (x ending in 0xff bytes, x + 1)
		one := lib.F(1)
		for _, pr := range [][2]*felt.Felt{{&addrs[2], &addrs[3]}, {&addrs[4], &addrs[5]}, {&addrs[6], &addrs[7]}, {&slots[1], &slots[2]}, {&slots[3], &slots[4]}} {
			if b := pr[0].Bytes(); b[31] != 0xff || !new(felt.Felt).Add(pr[0], one).Equal(pr[1]) {
				panic("byte-boundary universe: not a (…ff, …ff + 1) pair: " + pr[0].String())
			}
		}
		return addrs, slots
	}
	if strings.HasPrefix(name, "tail-") {
		// one address X (hex after the dash) and the address right above it; the same two numbers as
		// slots: every trailing byte pattern the key-range helper may mishandle gets a pair
		x, err := new(felt.Felt).SetString("0x" + strings.TrimPrefix(name, "tail-"))
		if err != nil {
			panic("universe " + name + ": " + err.Error())
		}
		y := new(felt.Felt).Add(x, lib.F(1))
		return []felt.Felt{*lib.F(1), *lib.F(2), *x, *y}, []felt.Felt{*lib.F(0), *lib.F(1), *x, *y}
	}
	if name == "wide" {
		// more contracts than the worker pools of State.commit / updateContractStorages have goroutines
		// (runtime.GOMAXPROCS(0)); two slots each
		addrs = []felt.Felt{*lib.F(1), *lib.F(2)}
		for i := uint64(0); i < wideContracts; i++ {
			addrs = append(addrs, *lib.F(0x300 + i))
		}
		return addrs, []felt.Felt{*lib.F(2), *lib.F(3)}
	}
	addrs = []felt.Felt{*lib.F(1), *lib.F(2), *lib.FHex(big + "1"), *lib.FHex(big + "2"), *lib.F(0x104), *lib.F(0x105), *lib.F(0x106), *lib.F(0x107)}
	slots = []felt.Felt{*lib.F(0), *lib.FHex("0x3ffffffffffffffffffffffffffffffffffffffffffffffffffffffffffffff"), *lib.F(2), *lib.F(3), *lib.F(4)}
	return addrs, slots
}

// wideContracts: ordinary contracts of the universe "wide" (above any GOMAXPROCS this runs under? no:
// above 16, the usual one; the run records GOMAXPROCS in the distribution)
const wideContracts = 40

func universeOf(name string) *Universe {
	initOnce()
	u := &Universe{}
	u.Addrs, u.Slots = universeTables(name)
	u.Addrs = append(u.Addrs, *lib.F(0x999)) // never deployed
	u.Classes = append(u.Classes, cairo0Fxs...)
	for _, fx := range sierraFxs {
		u.Classes = append(u.Classes, fx.hash)
	}
	u.Classes = append(u.Classes, *lib.F(0xDEAD)) // never declared
	return u
}

// newUniverse: the universe of a history. The default one must be the chain generator's (its GenDiff
// draws from it).
func newUniverse(g *lib.ChainGen, name string) *Universe {
	u := universeOf(name)
	if name == "" {
		for i := 0; i < g.NAddrs(); i++ {
			if a := g.Addr(i); !a.Equal(&u.Addrs[i]) {
				panic("harness/lib ChainGen.Addr and the universe table of cmd/c03 differ")
			}
		}
		for i := 0; i < g.Opt.NSlots; i++ {
			if k := g.Slot(i); !k.Equal(&u.Slots[i]) {
				panic("harness/lib ChainGen.Slot and the universe table of cmd/c03 differ")
			}
		}
	}
	return u
}

func isSystem(a *felt.Felt) bool { return a.Equal(lib.F(1)) || a.Equal(lib.F(2)) }

func (u *Universe) driverLines() []string {
	j := func(tag string, xs []felt.Felt) string {
		t := []string{"univ", tag}
		for i := range xs {
			t = append(t, hx(&xs[i]))
		}
		return strings.Join(t, " ")
	}
	return []string{j("a", u.Addrs), j("k", u.Slots), j("c", u.Classes)}
}

// query identifies one read of a view.
type query struct {
	Kind string // classhash | nonce | storage | class | casm
	Addr *felt.Felt
	Slot *felt.Felt
}

func (u *Universe) queries() []query {
	var qs []query
	for i := range u.Addrs {
		a := &u.Addrs[i]
		qs = append(qs, query{Kind: "classhash", Addr: a}, query{Kind: "nonce", Addr: a})
		for j := range u.Slots {
			qs = append(qs, query{Kind: "storage", Addr: a, Slot: &u.Slots[j]})
		}
	}
	for i := range u.Classes {
		c := &u.Classes[i]
		qs = append(qs, query{Kind: "class", Addr: c}, query{Kind: "casm", Addr: c})
	}
	return qs
}

// allQueries: the base queries plus the two further accessors of core.StateReader the model covers:
// "lu" = ContractStorageLastUpdatedBlock per (address, slot), "casm2" = CompiledClassHashV2 per class.
// The order is the token order of the driver's `dump`: per address class hash, nonce, the slots,
// the last-update blocks of the slots; per class declared-at, compiled class hash, compiled class hash v2.
func (u *Universe) allQueries() []query {
	var qs []query
	for i := range u.Addrs {
		a := &u.Addrs[i]
		qs = append(qs, query{Kind: "classhash", Addr: a}, query{Kind: "nonce", Addr: a})
		for j := range u.Slots {
			qs = append(qs, query{Kind: "storage", Addr: a, Slot: &u.Slots[j]})
		}
		for j := range u.Slots {
			qs = append(qs, query{Kind: "lu", Addr: a, Slot: &u.Slots[j]})
		}
	}
	for i := range u.Classes {
		c := &u.Classes[i]
		qs = append(qs, query{Kind: "class", Addr: c}, query{Kind: "casm", Addr: c}, query{Kind: "casm2", Addr: c})
	}
	return qs
}

func errToken(err error) string {
	if errors.Is(err, db.ErrKeyNotFound) {
		return "nf"
	}
	s := firstLine(err.Error())
	if len(s) > 60 {
		s = s[:60]
	}
	return "err:" + strings.ReplaceAll(s, " ", "_")
}

// readOne performs one read on a real state reader and canonicalises the answer:
// hex value | nf | at<block> (class) | err:<text> | panic.
func readOne(r core.StateReader, q query) string {
	var tok string
	err, pan, _ := lib.Try(func() error {
		switch q.Kind {
		case "classhash":
			v, err := r.ContractClassHash(q.Addr)
			if err != nil {
				return err
			}
			tok = hx(&v)
		case "nonce":
			v, err := r.ContractNonce(q.Addr)
			if err != nil {
				return err
			}
			tok = hx(&v)
		case "storage":
			v, err := r.ContractStorage(q.Addr, q.Slot)
			if err != nil {
				return err
			}
			tok = hx(&v)
		case "class":
			dc, err := r.Class(q.Addr)
			if err != nil {
				return err
			}
			if dc == nil || dc.Class == nil {
				tok = "err:nil-class"
				return nil
			}
			tok = fmt.Sprintf("at%x", dc.At)
			if !sameDefinition(q.Addr, dc.Class) {
				tok += ":other-definition"
			}
		case "casm":
			v, err := r.CompiledClassHash((*felt.SierraClassHash)(q.Addr))
			if err != nil {
				return err
			}
			f := felt.Felt(v)
			tok = hx(&f)
		case "casm2":
			v, err := r.CompiledClassHashV2((*felt.SierraClassHash)(q.Addr))
			if err != nil {
				return err
			}
			f := felt.Felt(v)
			tok = hx(&f)
		case "lu":
			b, err := r.ContractStorageLastUpdatedBlock((*felt.Address)(q.Addr), q.Slot)
			if err != nil {
				return err
			}
			tok = fmt.Sprintf("%x", b)
		}
		return nil
	})
	if pan {
		return "panic"
	}
	if err != nil {
		return errToken(err)
	}
	return tok
}

func sameDefinition(h *felt.Felt, got core.ClassDefinition) bool {
	switch c := got.(type) {
	case *core.SierraClass:
		gh, err := c.Hash()
		return err == nil && gh.Equal(h)
	case *core.DeprecatedCairoClass:
		return bytes.Equal(c.Abi, cairo0Class(h).Abi)
	}
	return false
}

// expected answers (the oracle): the abstract state after block n = fold of the diffs 0..n.
// A read may have more than one admissible answer where the property leaves the answer open:
//   - storage of a contract that does not exist, read on a HEAD view: juno's StateReader contract
//     says "missing slots read as zero" and the RPC layer asks ContractClassHash first; 0 and nf
//     are both accepted there. On a historical view it must be nf.
//   - the system contracts 0x1/0x2 are never in DeployedContracts, their existence is
//     implementation defined: a non-zero slot must be returned as it is; a zero slot, the nonce
//     and the class hash may be 0 or nf.
func expected(st *lib.AbsState, q query, head bool) []string {
	switch q.Kind {
	case "lu", "casm2":
		// need the chain, not only the state: Engine.expectedOn
		return nil
	case "class":
		if at, ok := st.Classes[*q.Addr]; ok {
			return []string{fmt.Sprintf("at%x", at)}
		}
		return []string{"nf"}
	case "casm":
		if v, ok := st.Casm[*q.Addr]; ok {
			return []string{hx(&v)}
		}
		return []string{"nf"}
	}
	c := st.Contracts[*q.Addr]
	if isSystem(q.Addr) {
		if q.Kind == "storage" && c != nil {
			if v, ok := c.Storage[*q.Slot]; ok && !v.IsZero() {
				return []string{hx(&v)}
			}
		}
		return []string{"0", "nf"}
	}
	if !st.Deployed[*q.Addr] {
		if q.Kind == "storage" && head {
			return []string{"nf", "0"}
		}
		return []string{"nf"}
	}
	switch q.Kind {
	case "classhash":
		return []string{hx(&c.Class)}
	case "nonce":
		return []string{hx(&c.Nonce)}
	default:
		v := c.Storage[*q.Slot]
		return []string{hx(&v)}
	}
}

// expectedOn: the oracle for one node. Where `expected` leaves the answer for the system contracts
// 0x1/0x2 open (class hash, nonce, zero slots: 0 or nf), histories in which no block has left a
// system contract with an entry in the diff and an empty storage are held to what the theorems say
// (Props.new_system_existence_nodrain, legacy_system_existence_nodrain, legacy_system_absent_noempty):
// on BOTH backends the contract exists exactly in the states in which it has a non-zero slot — class
// hash, nonce and zero slots read 0 there and nf elsewhere (head storage: always 0, the head readers
// do not probe). In particular a system contract whose only writes were reverted does not exist at
// any block of the chain that grows afterwards.
func (e *Engine) expectedOn(n *node, st *lib.AbsState, q query, head bool) []string {
	if q.Kind == "lu" || q.Kind == "casm2" {
		return e.expectedAux(st, q, head)
	}
	want := expected(st, q, head)
	if q.Kind == "class" || q.Kind == "casm" || !isSystem(q.Addr) || e.emptied || len(want) != 2 {
		return want
	}
	nonEmpty := false
	if c := st.Contracts[*q.Addr]; c != nil {
		for _, v := range c.Storage {
			if !v.IsZero() {
				nonEmpty = true
			}
		}
	}
	switch {
	case q.Kind == "storage" && head:
		return []string{"0"}
	case nonEmpty:
		return []string{"0"}
	case n.kind == "new" && !head && sysProbeFixed():
		// variant with proposed-fixes/C03-history-system-contract-no-deploy-probe.diff: the historical
		// reader of the new backend does not probe the system contracts, they exist at every block
		return []string{"0"}
	}
	return []string{"nf"}
}

func sysProbeFixed() bool {
	_, sp, _ := probeVariant()
	return sp
}

// blockOf: the number of the block whose abstract state st is (-1: not a state of the current chain).
func (e *Engine) blockOf(st *lib.AbsState) int {
	for i := len(e.g.States) - 1; i >= 0; i-- {
		if e.g.States[i] == st {
			return i
		}
	}
	return -1
}

// expectedAux: the oracle for the two accessors whose answer is a function of the chain.
//
// "lu" (ContractStorageLastUpdatedBlock, rpc v10 getStorageAt.last_update_block): the most recent
// block up to the view's block whose state diff lists the slot, 0 when there is none. Where the
// property leaves it open — a diff that lists the slot with the value zero while the slot holds zero
// (nothing is "updated") — both readings are admitted: with and without such blocks.
//
// "casm2" (CompiledClassHashV2): the blake2s compiled class hash that came with the declaration
// of the class in the chain up to the view's block, not-found for a class not declared there. On a
// historical view of a block BEFORE the declaration the hash itself is admitted too (it is a
// function of the class definition, not of the state; juno answers it on every view).
func (e *Engine) expectedAux(st *lib.AbsState, q query, head bool) []string {
	i := e.blockOf(st)
	if i < 0 || i >= len(e.descs) {
		return []string{"?"}
	}
	switch q.Kind {
	case "lu":
		strict, loose := 0, 0
		for j := 0; j <= i; j++ {
			inner, ok := e.descs[j].Diff.StorageDiffs[*q.Addr]
			if !ok {
				continue
			}
			v, ok := inner[*q.Slot]
			if !ok {
				continue
			}
			loose = j
			changed := !v.IsZero()
			if !changed && j > 0 {
				if c := e.g.States[j-1].Contracts[*q.Addr]; c != nil {
					if old, ok := c.Storage[*q.Slot]; ok && !old.IsZero() {
						changed = true
					}
				}
			}
			if changed {
				strict = j
			}
		}
		if strict == loose {
			return []string{fmt.Sprintf("%x", loose)}
		}
		return []string{fmt.Sprintf("%x", loose), fmt.Sprintf("%x", strict)}
	default: // casm2
		v2 := func(upTo int) string {
			for j := upTo; j >= 0; j-- {
				if ch, ok := e.descs[j].Diff.DeclaredV1Classes[*q.Addr]; ok {
					if isV2(e.descs[j].Version) {
						return hx(ch)
					}
					if fx := sierraByHash(q.Addr); fx != nil {
						return hx(&fx.casm2)
					}
					return "?"
				}
			}
			return "nf"
		}
		want := []string{v2(i)}
		if !head && want[0] == "nf" {
			if later := v2(len(e.descs) - 1); later != "nf" {
				want = append(want, later)
			}
		}
		if migValFix() && want[0] != "nf" {
			// variant with proposed-fixes/C03-casm-migration-stores-the-hash-of-the-diff.diff: a migration
			// in the chain replaces the blake2s hash of the record by the hash the diff carries
			for j := len(e.descs) - 1; j >= 0; j-- {
				if mh, ok := e.descs[j].Diff.MigratedClasses[felt.SierraClassHash(*q.Addr)]; ok {
					f := felt.Felt(mh)
					want = append(want, hx(&f))
					break
				}
			}
		}
		return want
	}
}

func contains(xs []string, x string) bool {
	for _, y := range xs {
		if x == y {
			return true
		}
	}
	return false
}

func classify(want []string, got string) string {
	switch {
	case got == "panic":
		return "panic"
	case strings.HasPrefix(got, "err:"):
		return "error"
	case got == "nf":
		return "notfound-but-exists"
	case len(want) == 1 && want[0] == "nf":
		return "found-but-absent"
	case strings.HasSuffix(got, ":other-definition"):
		return "other-definition"
	}
	return "wrong-value"
}

type view struct {
	label  string // head | num | hash
	n      int
	reader core.StateReader
}

func qjson(q query) map[string]any {
	m := map[string]any{"kind": q.Kind}
	if q.Kind == "class" || q.Kind == "casm" || q.Kind == "casm2" {
		m["class"] = "0x" + hx(q.Addr)
	} else {
		m["addr"] = "0x" + hx(q.Addr)
	}
	if q.Slot != nil {
		m["slot"] = "0x" + hx(q.Slot)
	}
	return m
}

// openViews opens every view of a node: head, and each block by number and by hash.
func (e *Engine) openViews(n *node) []view {
	var vs []view
	h := e.g.Height()
	open := func(label string, num int, f func() (core.StateReader, func() error, error)) {
		var r core.StateReader
		err, pan, _ := lib.Try(func() error {
			var err error
			r, _, err = f()
			return err
		})
		if pan || err != nil || r == nil {
			what := "panic"
			if err != nil {
				what = errToken(err)
			}
			e.fail(Failure{Violation: true, Sig: n.kind + "-" + label + "-view-of-retained-block-unavailable",
				What:  fmt.Sprintf("%s (%s): opening the %s view of block %d (head %d): %s", n.name, n.kind, label, num, h-1, what),
				Query: map[string]any{"node": n.name, "view": label, "n": num}})
			return
		}
		vs = append(vs, view{label: label, n: num, reader: r})
	}
	if h == 0 {
		return nil
	}
	open("head", h-1, func() (core.StateReader, func() error, error) { return n.bc.HeadState() })
	for i := 0; i < h; i++ {
		if n.seeded && i < n.floor {
			// below the floor of this process: the retention check refuses the view by number (what
			// the model says; that it is refused is C16's property, not a violation of this one)
			e.belowFloor(n, i)
		} else {
			open("num", i, func() (core.StateReader, func() error, error) { return n.bc.StateAtBlockNumber(uint64(i)) })
		}
		hash := e.g.Bundles[i].Block.Hash
		open("hash", i, func() (core.StateReader, func() error, error) { return n.bc.StateAtBlockHash(hash) })
	}
	return vs
}

// belowFloor: a block number below the seeded floor. The model says "no view"; the real node must
// agree (Mismatch otherwise).
func (e *Engine) belowFloor(n *node, i int) {
	var r core.StateReader
	err, pan, _ := lib.Try(func() error {
		var err error
		r, _, err = n.bc.StateAtBlockNumber(uint64(i))
		return err
	})
	impl := "noview"
	switch {
	case pan:
		impl = "panic"
	case err == nil && r != nil:
		impl = "view"
	case err != nil && !errors.Is(err, db.ErrKeyNotFound):
		impl = errToken(err)
	}
	e.hit("view:num:below-the-seeded-floor")
	mdl := "noview"
	if ans, ok := e.ask(e.dumpLine(n, "num", i)); ok && ans != "noview" {
		mdl = "view"
	}
	if e.res != nil && e.drv != nil {
		e.res.Compared(1)
	}
	if impl != mdl {
		e.fail(Failure{Sig: "model-" + n.kind + "-view-below-the-seeded-floor", What: fmt.Sprintf("%s (%s), floor %d: view of block %d by number: implementation %s, model %s", n.name, n.kind, n.floor, i, impl, mdl),
			Query: map[string]any{"node": n.name, "n": i, "floor": n.floor, "impl": impl, "model": mdl}})
	}
}

// dumpLine: the driver request for one view of a node (through the node's retention floor when its
// process has a seeded one).
func (e *Engine) dumpLine(n *node, label string, num int) string {
	fl := ""
	if n.seeded {
		fl = fmt.Sprintf("fl %x ", n.floor)
	}
	switch label {
	case "head":
		return "dump " + n.kind + " " + fl + "head"
	case "num":
		return fmt.Sprintf("dump %s %snum %x", n.kind, fl, num)
	}
	return "dump " + n.kind + " " + fl + "hash " + hx(e.g.Bundles[num].Block.Hash)
}

// negativeViews: block numbers above the head and hashes of reverted blocks must not resolve.
func (e *Engine) negativeViews(n *node) {
	h := e.g.Height()
	try := func(what string, f func() (core.StateReader, func() error, error)) {
		var r core.StateReader
		err, pan, _ := lib.Try(func() error {
			var err error
			r, _, err = f()
			return err
		})
		if pan {
			e.fail(Failure{Violation: true, Sig: n.kind + "-" + what + "-panics", What: n.name + ": panic", Query: map[string]any{"node": n.name}})
			return
		}
		if err == nil && r != nil {
			e.fail(Failure{Violation: true, Sig: n.kind + "-" + what + "-resolves",
				What:  fmt.Sprintf("%s (%s): %s gave a state view although the chain has %d blocks", n.name, n.kind, what, h),
				Query: map[string]any{"node": n.name, "what": what}})
		}
		if e.res != nil {
			e.res.Compared(1)
		}
		e.hit("neg:" + what)
	}
	try("number-above-head", func() (core.StateReader, func() error, error) { return n.bc.StateAtBlockNumber(uint64(h)) })
	inChain := map[felt.Felt]bool{}
	for _, b := range e.g.Bundles {
		inChain[*b.Block.Hash] = true
	}
	cnt := 0
	for i := len(e.reverted) - 1; i >= 0 && cnt < 3; i-- {
		hsh := e.reverted[i]
		if inChain[hsh] {
			continue
		}
		cnt++
		try("reverted-block-hash", func() (core.StateReader, func() error, error) { return n.bc.StateAtBlockHash(&hsh) })
	}
	try("unknown-block-hash", func() (core.StateReader, func() error, error) { return n.bc.StateAtBlockHash(lib.F(0xABCDEF)) })
}

// CheckAll reads every view of every node over the universe, evaluates the oracle and compares
// with the Lean model.
func (e *Engine) CheckAll() {
	if e.broken != "" {
		return
	}
	e.reopen()
	qs := e.u.allQueries()
	h := e.g.Height()
	modelCache := map[string][]string{}
	model := func(nd *node, label string, n int) []string {
		if e.drv == nil {
			return nil
		}
		var line string
		if nd == nil {
			line = fmt.Sprintf("dump abs num %x", n)
		} else {
			line = e.dumpLine(nd, label, n)
		}
		if v, ok := modelCache[line]; ok {
			return v
		}
		ans, ok := e.ask(line)
		if !ok {
			return nil
		}
		t := strings.Fields(ans)
		modelCache[line] = t
		return t
	}
	nowOK := map[uint64]bool{}
	defer func() { e.prevOK = nowOK }()
	for ni, n := range e.nodes {
		if e.only != nil && !e.only[n.name] {
			continue
		}
		e.negativeViews(n)
		views := e.openViews(n)
		e.recheckHeld(n, qs)
		e.hold(n, views)
		for _, v := range views {
			st := e.g.States[v.n]
			headSt := e.g.States[h-1]
			mt := model(n, v.label, v.n)
			if e.drv != nil && len(mt) != len(qs) {
				// the view exists on the real node: the driver must answer it, token for token
				e.fatal("driver dump of the %s view of block %d (%s): %d tokens, want %d: %.80s", v.label, v.n, n.kind, len(mt), len(qs), strings.Join(mt, " "))
				mt = nil
			}
			differs := false
			// by-hash views run the same reader code as by-number views once the hash is resolved:
			// read a rotating quarter of the universe there; same for the source node's
			// historical views (the Finalise path writes the same state as Store)
			sample := !e.full && (v.label == "hash" || (n.name == "src" && v.label == "num"))
			for qi, q := range qs {
				if sample && (qi+len(e.steps)+v.n)%4 != 0 {
					continue
				}
				if !e.full && q.Kind == "lu" && v.label != "head" && v.n < h-2 && (qi+len(e.steps)+v.n)%7 != 0 {
					continue // the last-update blocks: always on the head view and on the views of the two
					// newest blocks, a rotating seventh on the older views
				}
				got := readOne(v.reader, q)
				want := e.expectedOn(n, st, q, v.label == "head")
				rk := readKey(ni, v.label, v.n, qi)
				if contains(want, got) {
					nowOK[rk] = true
				}
				if v.label != "head" && !differs && q.Kind != "lu" && q.Kind != "casm2" {
					if w2 := expected(headSt, q, false); w2[0] != want[0] {
						differs = true
					}
				}
				if !contains(want, got) {
					attrib := ""
					// the cause is the discarded operation only if this very read was made, and was
					// right, at the check before it (the chain is the same before and after)
					if isDiscarded(e.lastOp) && e.prevOK[rk] {
						attrib = "-after-discarded-" + e.lastOp
					}
					e.reportFreshAttr(n, v.label, v.n, q, got, want, st, mt, qi, attrib)
				}
				if mt != nil && mt[qi] != got {
					qj := qjson(q)
					qj["node"], qj["backend"], qj["view"], qj["n"] = n.name, n.kind, v.label, v.n
					qj["impl"], qj["model"] = got, mt[qi]
					e.fail(Failure{Sig: "model-" + n.kind + "-" + v.label + "-" + q.Kind,
						What: fmt.Sprintf("%s backend, %s view of block %d: %s: implementation %s, model %s", n.kind, v.label, v.n, q.Kind, got, mt[qi]), Query: qj})
				}
				e.stats["read:"+q.Kind+":"+tokClass(got)]++
			}
			if e.res != nil {
				if mt != nil {
					if sample {
						e.res.Compared(len(qs) / 4)
					} else {
						e.res.Compared(len(qs))
					}
				}
				e.res.Case(fmt.Sprintf("%s/%d/%s/%s/%d", e.cfg.Name, len(e.steps), n.name, v.label, v.n), differs)
				e.stats["view:"+v.label+":"+n.kind]++
				if differs {
					e.stats["view:historical-answer-differs-from-head"]++
				}
			}
		}
		e.rpcCheck(n)
		e.storeCheck(n)
		// the Lean spec (Abs.at) must agree with the Go oracle state as well
		if n.name == "src" && e.drv != nil {
			for i := 0; i < h; i++ {
				mt := model(nil, "num", i)
				if len(mt) != len(qs) {
					e.fatal("driver dump of the abstract state of block %d: %d tokens, want %d", i, len(mt), len(qs))
					continue
				}
				for qi, q := range qs {
					want := expected(e.g.States[i], q, false)
					if want == nil {
						want = e.expectedAux(e.g.States[i], q, false)
					}
					// the Lean spec answers with the first admissible answer (value / nf)
					if !contains(want, mt[qi]) {
						qj := qjson(q)
						qj["n"], qj["model"], qj["oracle"] = i, mt[qi], strings.Join(want, "|")
						e.fail(Failure{Sig: "model-abs-" + q.Kind, What: fmt.Sprintf("Lean Abs.at and the Go abstract state differ at block %d: %v", i, qj), Query: qj})
					}
				}
				if e.res != nil {
					e.res.Compared(len(qs))
				}
			}
		}
	}
	if e.onCheck != nil {
		e.onCheck()
	}
}

// staleLeafShape recognises one specific defect of the new backend: trie2 leaves a deleted leaf on
// disk when the sibling leaf (k xor 1) exists at the moment of the deletion, and the head reader
// reads leaves by path. The engine keeps a shadow of which leaves are stale (stale.go); a wrong
// head answer has this shape iff it is exactly the stale leaf's value.
func (e *Engine) staleLeafShape(q query, got string) bool {
	if m, ok := e.stale[*q.Addr]; ok {
		if v, ok := m[*q.Slot]; ok {
			return hx(&v) == got
		}
	}
	return false
}

// deployedAndReplaced: the block that deployed the contract also lists it under ReplacedClasses
// (shape of one known defect of the new backend's history; not a well-formed Starknet diff).
func (e *Engine) deployedAndReplaced(st *lib.AbsState, a *felt.Felt) bool {
	c, ok := st.Contracts[*a]
	if !ok || !st.Deployed[*a] || int(c.DeployedAt) >= len(e.descs) {
		return false
	}
	_, both := e.descs[c.DeployedAt].Diff.ReplacedClasses[*a]
	return both
}

// reportFresh files a wrong answer of a view under the Sig of its cause.
func (e *Engine) reportFresh(n *node, label string, num int, q query, got string, want []string, st *lib.AbsState, mt []string, qi int) {
	e.reportFreshAttr(n, label, num, q, got, want, st, mt, qi, "")
}

func (e *Engine) reportFreshAttr(n *node, label string, num int, q query, got string, want []string, st *lib.AbsState, mt []string, qi int, attrib string) {
	h := e.g.Height()
	kind := q.Kind
	suffix := ""
	if q.Kind != "class" && q.Kind != "casm" && q.Kind != "casm2" && isSystem(q.Addr) {
		kind = "sys" + kind
		// the drain defect, and only it: the address was drained in this history AND the model
		// of the code as found gives the same answer for this very read
		if e.drained[*q.Addr] && e.modelAgrees(n, label, num, q, got, mt, qi) {
			suffix = "-after-drain"
		}
	}
	if q.Kind == "classhash" && e.deployedAndReplaced(st, q.Addr) {
		suffix = "-deployed-and-replaced-in-one-diff"
	}
	if q.Kind == "storage" && label == "head" && e.staleLeafShape(q, got) {
		suffix = "-stale-leaf-after-delete-next-to-sibling"
	}
	if q.Kind == "casm" && e.foreignMigration(st, q.Addr, got) {
		suffix = "-migrated-to-a-hash-other-than-junos-own"
	}
	qj := qjson(q)
	qj["node"], qj["backend"], qj["view"], qj["n"] = n.name, n.kind, label, num
	qj["got"], qj["want"] = got, strings.Join(want, "|")
	e.fail(Failure{Violation: true, Sig: n.kind + "-" + label + "-" + kind + "-" + classify(want, got) + suffix + attrib,
		What: fmt.Sprintf("%s backend, %s view of block %d (head %d): %s %v = %s, the state diffs up to block %d give %s",
			n.kind, label, num, h-1, q.Kind, qj, got, num, strings.Join(want, "|")),
		Query: qj})
}

// modelAgrees: does the Lean model of the code as it is give the same answer for this read?
func (e *Engine) modelAgrees(n *node, label string, num int, q query, got string, mt []string, qi int) bool {
	if mt != nil && qi >= 0 {
		return mt[qi] == got
	}
	if e.drv == nil {
		return false
	}
	line := e.dumpLine(n, "head", 0)
	if label != "head" {
		line = e.dumpLine(n, "num", num)
	}
	ans, ok := e.ask(line)
	if !ok {
		return false
	}
	t := strings.Fields(ans)
	for i, x := range e.u.allQueries() {
		if x.Kind == q.Kind && x.Addr.Equal(q.Addr) && (x.Slot == nil) == (q.Slot == nil) && (x.Slot == nil || x.Slot.Equal(q.Slot)) {
			return i < len(t) && t[i] == got
		}
	}
	return false
}

func readKey(node int, label string, n, q int) uint64 {
	l := uint64(0)
	switch label {
	case "num":
		l = 1
	case "hash":
		l = 2
	}
	return uint64(node)<<60 | l<<56 | uint64(n)<<24 | uint64(q)
}

func tokClass(t string) string {
	switch {
	case t == "nf":
		return "notfound"
	case t == "0":
		return "zero"
	case t == "panic" || strings.HasPrefix(t, "err:"):
		return "error"
	}
	return "value"
}

// foreignMigration recognises one known divergence: a CASM migration whose hash in the diff is not
// the blake2s hash juno computed itself at declaration; juno's reads answer its own hash.
func (e *Engine) foreignMigration(st *lib.AbsState, class *felt.Felt, got string) bool {
	fx := sierraByHash(class)
	if fx == nil {
		return false
	}
	want, ok := st.Casm[*class]
	return ok && !want.Equal(&fx.casm2) && !want.Equal(&fx.casm1) && got == hx(&fx.casm2)
}
