//go:build verif

package main

import (
	"fmt"
	"runtime"

	"github.com/NethermindEth/juno/core"
	"github.com/NethermindEth/juno/core/felt"
	"verif/harness/lib"
)

// genDesc draws the next block on top of the current chain: contract part from the shared chain
// generator (deploy, replace, nonce bumps, storage writes incl. zero writes, same-value rewrites,
// system contracts), class part (Cairo-0 / Sierra declarations, CASM migrations) from the
// fixtures of this harness.
func (e *Engine) genDesc() *Desc {
	r := e.g.R
	if r.Chance(1, 5) && e.verIdx+1 < len(versions) {
		e.verIdx += 1 + r.Intn(len(versions)-e.verIdx-1)
	}
	version := versions[e.verIdx]
	prev := e.g.HeadState()
	var diff *core.StateDiff
	if e.cfg.Univ == "" {
		diff, _ = e.g.GenDiff(prev, uint64(e.g.Height()), version)
	} else {
		diff = e.genDiffOn(prev)
	}
	classes := map[felt.Felt]core.ClassDefinition{}
	if e.cfg.AllowDrain {
		// make drains frequent: write zero to a slot of a system contract that is currently set
		for _, a := range []felt.Felt{*lib.F(1), *lib.F(2)} {
			if c, ok := prev.Contracts[a]; ok && len(c.Storage) > 0 && r.Chance(1, 3) {
				for k := range c.Storage {
					if diff.StorageDiffs[a] == nil {
						diff.StorageDiffs[a] = map[felt.Felt]*felt.Felt{}
					}
					diff.StorageDiffs[a][k] = lib.F(0)
				}
			}
		}
	} else {
		// The two backends disagree on the state ROOT of a block that leaves a system contract
		// with an entry in the diff and an empty storage (C01's business); such blocks cannot be
		// offered to both. Keep them out of cross-backend histories.
		emptied, _ := drains(prev, diff)
		for _, a := range emptied {
			delete(diff.StorageDiffs, a)
			e.hit("gen:system-contract-emptying-write-dropped")
		}
	}
	v2 := isV2(version)
	if r.Chance(1, 4) {
		h := cairo0Fxs[r.Intn(len(cairo0Fxs))]
		if _, ok := prev.Classes[h]; !ok {
			hh := h
			diff.DeclaredV0Classes = append(diff.DeclaredV0Classes, &hh)
			classes[h] = cairo0Class(&hh)
			if r.Chance(1, 30) {
				// DeclaredV0Classes is a slice: the same hash twice (the legacy backend cannot revert
				// such a block: known finding, ends the history at its revert)
				h2 := h
				diff.DeclaredV0Classes = append(diff.DeclaredV0Classes, &h2)
				e.hit("diff:class-listed-twice")
			}
		}
	}
	if r.Chance(1, 4) {
		// sync supplies the definition of a deployed contract's class when the state does not
		// know it, without the class being in the declared lists: the class is registered at this
		// block (and must go away with it)
		for a := range diff.DeployedContracts {
			var h felt.Felt
			if r.Bool() {
				h = cairo0Fxs[r.Intn(len(cairo0Fxs))]
			} else {
				h = sierraFxs[r.Intn(len(sierraFxs))].hash
			}
			if _, ok := prev.Classes[h]; ok {
				continue
			}
			hh := h
			diff.DeployedContracts[a] = &hh
			if def, ok := classDef(&hh); ok {
				classes[h] = def
				e.hit("diff:class-definition-for-deployed-contract-without-declaration")
			}
			break
		}
	}
	if r.Chance(1, 6) {
		// a Cairo-0 class that is already declared is listed again: juno keeps the first
		// declaration height, and reverting this block must not remove the class
		for i := range cairo0Fxs {
			h := cairo0Fxs[i]
			if _, ok := prev.Classes[h]; ok {
				if _, now := classes[h]; !now {
					diff.DeclaredV0Classes = append(diff.DeclaredV0Classes, &h)
					classes[h] = cairo0Class(&h)
					e.hit("diff:redeclare-cairo0")
				}
				break
			}
		}
	}
	if r.Chance(1, 3) {
		fx := sierraFxs[r.Intn(len(sierraFxs))]
		_, registered := prev.Classes[fx.hash]
		_, declared := prev.Casm[fx.hash]
		if registered && !declared && r.Chance(1, 8) {
			// registered earlier as the undeclared class of a deployed contract, declared now (its
			// revert fails on the commitment: known finding, ends the history there)
			registered = false
			e.hit("diff:declare-sierra-registered-earlier")
		}
		if !registered {
			casm := fx.casm1
			if v2 {
				casm = fx.casm2
			}
			diff.DeclaredV1Classes[fx.hash] = &casm
			classes[fx.hash] = lib.DeepCopy(fx.class).(*core.SierraClass)
		}
	}
	if v2 && r.Chance(1, 2) {
		for _, fx := range sierraFxs {
			if cur, ok := prev.Casm[fx.hash]; ok && cur.Equal(&fx.casm1) {
				if _, now := diff.DeclaredV1Classes[fx.hash]; !now {
					diff.MigratedClasses[felt.SierraClassHash(fx.hash)] = felt.CasmClassHash(fx.casm2)
					if r.Chance(1, 10) {
						// a migration to another hash than the one juno computed (known finding)
						diff.MigratedClasses[felt.SierraClassHash(fx.hash)] = felt.CasmClassHash(*lib.F(0xabc0 + uint64(r.Intn(8))))
						e.hit("diff:migration-foreign-hash")
					}
					break
				}
			}
		}
	}
	return &Desc{Version: version, Diff: diff, Classes: classes}
}

// genDiffOn draws the contract part of a well-formed state diff over the universe of THIS history
// (harness/lib's GenDiff is tied to its own address table): deploys of ordinary addresses, class
// replacements and nonce bumps of deployed contracts, storage writes (zero, same value, 1..5) to
// deployed contracts and now and then to the system contracts (non-zero only: see GenOptions.SystemDrain).
func (e *Engine) genDiffOn(s *lib.AbsState) *core.StateDiff {
	r := e.g.R
	d := emptyDiff()
	if r.Chance(e.g.Opt.EmptyDiffs, 100) {
		return d
	}
	sys, ord := e.u.Addrs[:2], e.u.Addrs[2:len(e.u.Addrs)-1]
	n := e.g.Opt.DiffSize
	deployedNow := map[felt.Felt]bool{}
	for i := r.Intn(n + 1); i > 0; i-- {
		a := ord[r.Intn(len(ord))]
		if s.Deployed[a] || deployedNow[a] {
			continue
		}
		ch := e.g.ClassHash(r.Intn(3))
		d.DeployedContracts[a] = &ch
		deployedNow[a] = true
	}
	var deployed []felt.Felt
	for _, a := range ord {
		if s.Deployed[a] || deployedNow[a] {
			deployed = append(deployed, a)
		}
	}
	if len(deployed) > 0 {
		for i := r.Intn(2); i > 0; i-- {
			a := lib.Pick(r, deployed)
			if deployedNow[a] {
				continue
			}
			ch := e.g.ClassHash(r.Intn(4))
			d.ReplacedClasses[a] = &ch
		}
		for i := r.Intn(n + 1); i > 0; i-- {
			a := lib.Pick(r, deployed)
			cur := felt.Zero
			if c, ok := s.Contracts[a]; ok {
				cur = c.Nonce
			}
			d.Nonces[a] = new(felt.Felt).Add(&cur, lib.F(uint64(1+r.Intn(2))))
		}
	}
	targets := append([]felt.Felt{}, deployed...)
	if r.Chance(1, 3) {
		targets = append(targets, sys[r.Intn(2)])
	}
	if len(targets) > 0 {
		for i := r.Intn(n + 2); i > 0; i-- {
			a := lib.Pick(r, targets)
			k := e.u.Slots[r.Intn(len(e.u.Slots))]
			choice := r.Intn(6)
			if isSystem(&a) {
				choice = 2 + r.Intn(4)
			}
			var v *felt.Felt
			switch choice {
			case 0:
				v = lib.F(0)
			case 1:
				cv := felt.Zero
				if c, ok := s.Contracts[a]; ok {
					cv = c.Storage[k]
				}
				v = &cv
			default:
				v = lib.F(uint64(1 + r.Intn(5)))
			}
			if d.StorageDiffs[a] == nil {
				d.StorageDiffs[a] = map[felt.Felt]*felt.Felt{}
			}
			d.StorageDiffs[a][k] = v
		}
	}
	return d
}

// describe counts the features of a diff in the distribution histogram.
func (e *Engine) describe(d *Desc) {
	prev := e.g.HeadState()
	df := d.Diff
	if df.Length() == 0 {
		e.hit("block:empty-diff")
	}
	e.res.HitN("diff:deploy", len(df.DeployedContracts))
	e.describeBoundary(prev, df)
	touched := map[felt.Felt]bool{}
	for a := range df.StorageDiffs {
		touched[a] = true
	}
	for a := range df.DeployedContracts {
		touched[a] = true
	}
	for a := range df.Nonces {
		touched[a] = true
	}
	for a := range df.ReplacedClasses {
		touched[a] = true
	}
	if len(touched) > runtime.GOMAXPROCS(0) {
		e.hit(fmt.Sprintf("block:touches-more-contracts-than-GOMAXPROCS(%d)", runtime.GOMAXPROCS(0)))
	}
	e.res.HitN("diff:replace-class", len(df.ReplacedClasses))
	e.res.HitN("diff:nonce", len(df.Nonces))
	e.res.HitN("diff:declare-cairo0", len(df.DeclaredV0Classes))
	e.res.HitN("diff:declare-sierra", len(df.DeclaredV1Classes))
	e.res.HitN("diff:casm-migration", len(df.MigratedClasses))
	for a, inner := range df.StorageDiffs {
		if isSystem(&a) {
			e.hit("diff:storage-of-system-contract")
		}
		if _, now := df.DeployedContracts[a]; now {
			e.hit("diff:storage-of-contract-deployed-in-same-block")
		}
		for k, v := range inner {
			cur := felt.Zero
			if c, ok := prev.Contracts[a]; ok {
				cur = c.Storage[k]
			}
			switch {
			case v.IsZero() && cur.IsZero():
				e.hit("diff:storage-zero-to-unset-slot(no-op)")
			case v.IsZero():
				e.hit("diff:storage-delete(write-zero)")
			case v.Equal(&cur):
				e.hit("diff:storage-same-value-rewrite")
			case cur.IsZero():
				e.hit("diff:storage-first-write")
			default:
				e.hit("diff:storage-overwrite")
			}
		}
	}
	for a := range df.Nonces {
		if _, now := df.DeployedContracts[a]; now {
			e.hit("diff:nonce-of-contract-deployed-in-same-block")
		}
	}
}

// RandomHistory runs `steps` operations: stores, single and multiple head reverts (down to the
// empty chain now and then), re-application of the block just reverted; after every operation all
// views are checked.
func (e *Engine) RandomHistory(steps, maxHeight int) {
	r := e.g.R
	justReverted := false
	for i := 0; i < steps && e.broken == ""; i++ {
		h := e.g.Height()
		x := r.Intn(100)
		if h > 0 && r.Chance(1, 6) {
			// an operation juno must discard, between the accepted ones
			op := discardedOps[r.Intn(len(discardedOps))]
			if r.Chance(1, 3) {
				op = "store-invalid"
			}
			var d *Desc
			switch op {
			case "revert-dropped":
			case "store-late-fail":
				d = e.lateFailDesc()
			case "store-invalid":
				d = e.invalidDesc()
			default:
				d = e.genDesc()
			}
			if op == "revert-dropped" || d != nil {
				e.Discard(op, d)
				e.CheckAll()
				continue
			}
		}
		switch {
		case h > 0 && (x < 14 || h >= maxHeight):
			k := 1
			if x < 5 || h >= maxHeight {
				k = 1 + r.Intn(4)
			}
			if h <= 3 && r.Chance(1, 4) {
				k = h // back to the empty chain
				e.hit("op:revert-to-empty-chain")
			}
			for ; k > 0 && e.g.Height() > 0 && e.broken == ""; k-- {
				e.Revert()
				e.hit("op:revert")
				e.CheckAll()
			}
			justReverted = true
			continue
		case justReverted && e.lastRev != nil && x < 45:
			d := e.lastRev.clone()
			e.hit("op:reapply-reverted-block")
			e.describe(d)
			e.Store(d)
		default:
			d := e.genDesc()
			e.hit("op:store")
			e.describe(d)
			e.Store(d)
		}
		justReverted = false
		e.CheckAll()
	}
}

// endsInFF: the big-endian bytes of the felt end in 0xff.
func endsInFF(f *felt.Felt) bool { b := f.Bytes(); return b[31] == 0xff }

// describeBoundary counts the shapes the byte-boundary universe is there for.
func (e *Engine) describeBoundary(prev *lib.AbsState, df *core.StateDiff) {
	one := lib.F(1)
	for a := range df.DeployedContracts {
		if !endsInFF(&a) {
			continue
		}
		e.hit("ff:deploy-of-an-address-ending-in-0xff")
		up := new(felt.Felt).Add(&a, one)
		if c, ok := prev.Contracts[*up]; ok && prev.Deployed[*up] && len(c.Storage) > 0 {
			e.hit("ff:deploy-of-an-address-ending-in-0xff-below-a-contract-with-storage")
		}
	}
	for a, inner := range df.StorageDiffs {
		for k := range inner {
			if endsInFF(&k) {
				e.hit("ff:write-to-a-slot-ending-in-0xff")
				up := new(felt.Felt).Add(&k, one)
				if _, both := inner[*up]; both {
					e.hit("ff:write-to-a-slot-ending-in-0xff-and-to-the-slot-above-it")
				}
			}
		}
		if endsInFF(&a) {
			e.hit("ff:storage-of-an-address-ending-in-0xff")
		}
	}
}
