//go:build verif

package main

import (
	"fmt"
	"sort"
	"strings"

	"github.com/NethermindEth/juno/core"
	"github.com/NethermindEth/juno/core/felt"
	"verif/harness/lib"
)

// A block of a history is described by its protocol version and its state diff, written in the
// token form the Lean driver reads (and the replay files hold):
//
//	sa <addr> { sk <slot> <value> }*   storage map of one address (an address may have no sk)
//	n  <addr> <nonce>
//	d  <addr> <classhash>               deployed contract
//	r  <addr> <classhash>               replaced class
//	c0 <hash>                           Cairo-0 class declared (definition = fixture)
//	c1 <hash> <casm> <casmV2>           Sierra class declared with compiled hash <casm>;
//	                                    <casmV2> = blake2s hash of the definition (what juno precomputes)
//	m  <hash> <casm>                    compiled-class-hash migration
//	x  <hash>                           class definition supplied without declaration (the class of
//	                                    a contract the diff deploys; sync does this)
//
// all numbers hex without prefix, every section sorted by key.

func hx(f *felt.Felt) string { return f.Text(16) }

func unhx(s string) (*felt.Felt, error) {
	f, err := new(felt.Felt).SetString("0x" + s)
	if err != nil {
		return nil, fmt.Errorf("bad felt %q: %w", s, err)
	}
	return f, nil
}

func sortedKeys[V any](m map[felt.Felt]V) []felt.Felt {
	ks := make([]felt.Felt, 0, len(m))
	for k := range m {
		ks = append(ks, k)
	}
	sort.Slice(ks, func(i, j int) bool { return ks[i].Cmp(&ks[j]) < 0 })
	return ks
}

// Desc is one block to be stored.
type Desc struct {
	Version string
	Diff    *core.StateDiff
	Classes map[felt.Felt]core.ClassDefinition
}

func isV2(version string) bool { return version >= "0.14.1" }

func emptyDiff() *core.StateDiff {
	return &core.StateDiff{
		StorageDiffs:      map[felt.Felt]map[felt.Felt]*felt.Felt{},
		Nonces:            map[felt.Felt]*felt.Felt{},
		DeployedContracts: map[felt.Felt]*felt.Felt{},
		DeclaredV0Classes: []*felt.Felt{},
		DeclaredV1Classes: map[felt.Felt]*felt.Felt{},
		ReplacedClasses:   map[felt.Felt]*felt.Felt{},
		MigratedClasses:   map[felt.SierraClassHash]felt.CasmClassHash{},
	}
}

// encodeDesc writes diff and extra class definitions in token form.
func encodeDesc(d *Desc) string {
	line := encodeDiff(d.Diff)
	declared := map[felt.Felt]bool{}
	for _, c := range d.Diff.DeclaredV0Classes {
		declared[*c] = true
	}
	for c := range d.Diff.DeclaredV1Classes {
		declared[c] = true
	}
	var t []string
	for _, c := range sortedKeys(d.Classes) {
		if !declared[c] {
			t = append(t, "x", hx(&c))
		}
	}
	if len(t) == 0 {
		return line
	}
	return strings.TrimSpace(line + " " + strings.Join(t, " "))
}

// encodeDiff writes the diff in token form.
func encodeDiff(d *core.StateDiff) string {
	var t []string
	for _, a := range sortedKeys(d.StorageDiffs) {
		t = append(t, "sa", hx(&a))
		inner := d.StorageDiffs[a]
		for _, k := range sortedKeys(inner) {
			t = append(t, "sk", hx(&k), hx(inner[k]))
		}
	}
	for _, a := range sortedKeys(d.Nonces) {
		t = append(t, "n", hx(&a), hx(d.Nonces[a]))
	}
	for _, a := range sortedKeys(d.DeployedContracts) {
		t = append(t, "d", hx(&a), hx(d.DeployedContracts[a]))
	}
	for _, a := range sortedKeys(d.ReplacedClasses) {
		t = append(t, "r", hx(&a), hx(d.ReplacedClasses[a]))
	}
	v0 := make([]felt.Felt, 0, len(d.DeclaredV0Classes))
	for _, c := range d.DeclaredV0Classes {
		v0 = append(v0, *c)
	}
	sort.Slice(v0, func(i, j int) bool { return v0[i].Cmp(&v0[j]) < 0 })
	for i := range v0 {
		t = append(t, "c0", hx(&v0[i]))
	}
	for _, c := range sortedKeys(d.DeclaredV1Classes) {
		v2 := "0"
		if fx := sierraByHash(&c); fx != nil {
			v2 = hx(&fx.casm2)
		}
		t = append(t, "c1", hx(&c), hx(d.DeclaredV1Classes[c]), v2)
	}
	mig := map[felt.Felt]felt.Felt{}
	for c, h := range d.MigratedClasses {
		mig[felt.Felt(c)] = felt.Felt(h)
	}
	for _, c := range sortedKeys(mig) {
		h := mig[c]
		t = append(t, "m", hx(&c), hx(&h))
	}
	return strings.Join(t, " ")
}

// decodeDiff parses the token form back (replay files).
func decodeDiff(version, line string) (*Desc, error) {
	d := emptyDiff()
	classes := map[felt.Felt]core.ClassDefinition{}
	t := strings.Fields(line)
	var cur *felt.Felt
	need := func(i, n int) error {
		if i+n >= len(t) {
			return fmt.Errorf("truncated diff at token %d (%s)", i, t[i])
		}
		return nil
	}
	for i := 0; i < len(t); {
		var fs []*felt.Felt
		argc := map[string]int{"sa": 1, "sk": 2, "n": 2, "d": 2, "r": 2, "c0": 1, "c1": 3, "m": 2, "x": 1}[t[i]]
		if argc == 0 {
			return nil, fmt.Errorf("unknown diff token %q", t[i])
		}
		if err := need(i, argc); err != nil {
			return nil, err
		}
		for j := 1; j <= argc; j++ {
			f, err := unhx(t[i+j])
			if err != nil {
				return nil, err
			}
			fs = append(fs, f)
		}
		switch t[i] {
		case "sa":
			cur = fs[0]
			if d.StorageDiffs[*cur] == nil {
				d.StorageDiffs[*cur] = map[felt.Felt]*felt.Felt{}
			}
		case "sk":
			if cur == nil {
				return nil, fmt.Errorf("sk before sa")
			}
			d.StorageDiffs[*cur][*fs[0]] = fs[1]
		case "n":
			d.Nonces[*fs[0]] = fs[1]
		case "d":
			d.DeployedContracts[*fs[0]] = fs[1]
		case "r":
			d.ReplacedClasses[*fs[0]] = fs[1]
		case "c0":
			d.DeclaredV0Classes = append(d.DeclaredV0Classes, fs[0])
			def, ok := classDef(fs[0])
			if !ok {
				return nil, fmt.Errorf("no fixture for class %s", fs[0])
			}
			classes[*fs[0]] = def
		case "c1":
			d.DeclaredV1Classes[*fs[0]] = fs[1]
			def, ok := classDef(fs[0])
			if !ok {
				return nil, fmt.Errorf("no fixture for class %s", fs[0])
			}
			classes[*fs[0]] = def
		case "x":
			def, ok := classDef(fs[0])
			if !ok {
				return nil, fmt.Errorf("no fixture for class %s", fs[0])
			}
			classes[*fs[0]] = def
		case "m":
			d.MigratedClasses[felt.SierraClassHash(*fs[0])] = felt.CasmClassHash(*fs[1])
		}
		i += argc + 1
	}
	return &Desc{Version: version, Diff: d, Classes: classes}, nil
}

func (d *Desc) clone() *Desc {
	return &Desc{Version: d.Version, Diff: lib.DeepCopy(d.Diff).(*core.StateDiff),
		Classes: lib.DeepCopy(d.Classes).(map[felt.Felt]core.ClassDefinition)}
}

// Step is one operation of a history, in the form stored in replay files.
type Step struct {
	Op      string `json:"op"` // "store" | "revert"
	Version string `json:"version,omitempty"`
	Diff    string `json:"diff,omitempty"`
}
