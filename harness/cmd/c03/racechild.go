//go:build verif

package main

import (
	"bytes"
	"context"
	"crypto/sha1"
	"encoding/hex"
	"encoding/json"
	"fmt"
	"os"
	"os/exec"
	"path/filepath"
	"strings"
	"sync"
	"sync/atomic"
	"time"

	"github.com/NethermindEth/juno/core"
	"github.com/NethermindEth/juno/db"
	"github.com/NethermindEth/juno/db/memory"
	"github.com/NethermindEth/juno/db/pebblev2"
	"verif/harness/lib"
)

// REAL CONCURRENCY for the torn-read family. race.go makes every interleaving point of ONE query
// deterministic with a database hook; here the same situation runs with goroutines, the way a node
// runs it: one writer stores blocks 1 and 2 and reverts them again, in a loop, while readers keep
// opening the view of block 0 (by number and by hash — block 0 is retained all the time) and read
// it over the probe's queries. Every answer must be block 0's. Head readers run along (they must
// not panic). In the thorough tier the whole harness is rebuilt with the Go race detector
// (`vh-c03-race`) and this stage runs under it; a data race report is a violation.
//
// Sigs: the known legacy defect (log scan and head read are two reads of a live database) gives an
// answer that is a LATER block's value for a storage / nonce / class-hash query:
// legacy-<kind>-read-torn-by-concurrent-store; anything else is
// <backend>-<kind>-read-of-block-0-wrong-under-concurrent-commits.

func concurrentProbe(res *lib.Result, newState, pebble bool, dur time.Duration, scratch string) {
	kind := kindName(newState)
	storeName := "memory"
	c0 := hx(&cairo0Fxs[0])
	blocks := []string{
		"sa 104 sk 2 1 sk 4 3 d 104 c000 sa 1 sk 2 5",
		"sa 104 sk 2 2 sk 3 5 sk 4 0 n 104 1 r 104 c001 d 105 c002 sa 105 sk 2 9 c0 " + c0,
		"sa 104 sk 2 7 sk 3 0 sk 4 9 n 104 2 r 104 c002 sa 105 sk 2 0 n 105 4 sa 1 sk 2 6",
	}
	g := lib.NewChainGen(lib.NewRNG(1), newState, lib.DefaultGenOptions())
	for _, line := range blocks {
		d, err := decodeDiff("0.13.2", line)
		if err != nil {
			res.Fatalf("concurrent probe (%s): %v", kind, err)
			return
		}
		if _, err := g.Next(&lib.BlockSpec{Version: d.Version, Diff: d.Diff, Classes: d.Classes, NoTxs: true}); err != nil {
			res.Fatalf("concurrent probe (%s): %v", kind, err)
			return
		}
	}
	var store db.KeyValueStore = memory.New()
	if pebble {
		storeName = "pebble"
		dir, err := os.MkdirTemp(scratch, "conc-pebble-*")
		if err != nil {
			res.Fatalf("concurrent probe (%s): %v", kind, err)
			return
		}
		defer os.RemoveAll(dir)
		st, err := pebblev2.New(dir)
		if err != nil {
			res.Fatalf("concurrent probe (%s): pebble: %v", kind, err)
			return
		}
		defer st.Close()
		store = st
	}
	bc := lib.NodeOn(store, g.Net, newState)
	if err := lib.StoreOn(bc, g.Bundles[0]); err != nil {
		res.Fatalf("concurrent probe (%s): store of block 0: %v", kind, err)
		return
	}
	a104, a105, a1 := lib.F(0x104), lib.F(0x105), lib.F(1)
	qs := []query{
		{Kind: "storage", Addr: a104, Slot: lib.F(2)}, {Kind: "storage", Addr: a104, Slot: lib.F(3)},
		{Kind: "storage", Addr: a104, Slot: lib.F(4)}, {Kind: "nonce", Addr: a104}, {Kind: "classhash", Addr: a104},
		{Kind: "storage", Addr: a105, Slot: lib.F(2)}, {Kind: "classhash", Addr: a105}, {Kind: "nonce", Addr: a105},
		{Kind: "storage", Addr: a1, Slot: lib.F(2)}, {Kind: "class", Addr: &cairo0Fxs[0]},
	}
	want := make([][]string, len(qs))
	later := make([]map[string]bool, len(qs))
	for i, q := range qs {
		want[i] = expected(g.States[0], q, false)
		later[i] = map[string]bool{}
		for k := 1; k <= 2; k++ {
			for _, w := range expected(g.States[k], q, false) {
				later[i][w] = true
			}
		}
	}
	var stop atomic.Bool
	var commits, views, reads, heads atomic.Int64
	var wg sync.WaitGroup
	var once sync.Once
	fatal := func(format string, a ...any) {
		once.Do(func() { res.Fatalf("concurrent probe (%s, %s): %s", kind, storeName, fmt.Sprintf(format, a...)) })
		stop.Store(true)
	}
	// the writer: 0 -> 1 -> 2 -> 1 -> 0 -> ...
	wg.Add(1)
	go func() {
		defer wg.Done()
		for !stop.Load() {
			for _, op := range []int{1, 2, -1, -1} {
				var err error
				_, pan, _ := lib.Try(func() error {
					if op > 0 {
						err = lib.StoreOn(bc, g.Bundles[op])
					} else {
						err = bc.RevertHead()
					}
					return nil
				})
				if pan || err != nil {
					fatal("writer: op %d failed: panic=%v err=%v", op, pan, err)
					return
				}
				commits.Add(1)
			}
		}
	}()
	report := func(label string, q query, got string, i int) {
		cause := fmt.Sprintf("%s-%s-read-of-block-0-wrong-under-concurrent-commits", kind, q.Kind)
		if !newState && later[i][got] && (q.Kind == "storage" || q.Kind == "nonce" || q.Kind == "classhash") {
			cause = fmt.Sprintf("legacy-%s-read-torn-by-concurrent-store", q.Kind)
		}
		qj := qjson(q)
		qj["backend"], qj["view"], qj["n"], qj["got"], qj["want"], qj["store"] = kind, label, 0, got, strings.Join(want[i], "|"), storeName
		res.Violate(lib.Violation{Sig: cause,
			What: fmt.Sprintf("%s backend (%s): a reader goroutine reads the %s view of block 0 while a writer goroutine stores and reverts blocks 1 and 2: %s = %s, block 0 gives %s",
				kind, storeName, label, q.Kind, got, strings.Join(want[i], "|")),
			Replay: map[string]any{"blocks": blocks, "query": qj,
				"how": "harness/cmd/c03/racechild.go concurrentProbe: store blocks[0]; one goroutine loops store 1, store 2, revert, revert; readers open the view of block 0 and query it (timing dependent; race.go has the deterministic form)"}})
	}
	for r := 0; r < 3; r++ {
		wg.Add(1)
		go func(r int) {
			defer wg.Done()
			for it := 0; !stop.Load(); it++ {
				label := []string{"num", "hash"}[(it+r)%2]
				var rd core.StateReader
				var err error
				_, pan, _ := lib.Try(func() error {
					if label == "num" {
						rd, _, err = bc.StateAtBlockNumber(0)
					} else {
						rd, _, err = bc.StateAtBlockHash(g.Bundles[0].Block.Hash)
					}
					return nil
				})
				if pan || err != nil || rd == nil {
					res.Violate(lib.Violation{Sig: kind + "-" + label + "-view-of-retained-block-unavailable-under-concurrent-commits",
						What:   fmt.Sprintf("%s backend (%s): opening the %s view of block 0 during concurrent commits: panic=%v err=%v", kind, storeName, label, pan, err),
						Replay: map[string]any{"blocks": blocks, "how": "harness/cmd/c03/racechild.go concurrentProbe"}})
					continue
				}
				views.Add(1)
				for i, q := range qs {
					got := readOne(rd, q)
					reads.Add(1)
					if !contains(want[i], got) {
						report(label, q, got, i)
					}
				}
			}
		}(r)
	}
	// a head reader: a live view, only required not to panic
	wg.Add(1)
	go func() {
		defer wg.Done()
		for !stop.Load() {
			var rd core.StateReader
			_, pan, _ := lib.Try(func() error { rd, _, _ = bc.HeadState(); return nil })
			if pan {
				res.Violate(lib.Violation{Sig: kind + "-headstate-panics-under-concurrent-commits", What: kind + ": HeadState panicked", Replay: map[string]any{"blocks": blocks}})
				continue
			}
			if rd == nil {
				continue
			}
			for _, q := range qs {
				if got := readOne(rd, q); got == "panic" {
					res.Violate(lib.Violation{Sig: kind + "-head-reader-panics-under-concurrent-commits", What: kind + ": head reader panicked on a " + q.Kind + " query", Replay: map[string]any{"blocks": blocks}})
				}
			}
			heads.Add(1)
		}
	}()
	time.Sleep(dur)
	stop.Store(true)
	wg.Wait()
	if commits.Load() < 8 || views.Load() < 8 {
		res.Fatalf("concurrent probe (%s, %s): only %d commits and %d views in %s: nothing was interleaved", kind, storeName, commits.Load(), views.Load(), dur)
		return
	}
	tag := fmt.Sprintf("concurrent:%s:%s", kind, storeName)
	res.HitN(tag+":commits", int(commits.Load()))
	res.HitN(tag+":views-of-block-0", int(views.Load()))
	res.HitN(tag+":reads", int(reads.Load()))
	res.HitN(tag+":head-reader-passes", int(heads.Load()))
	for v := int64(0); v < views.Load() && v < 2000; v++ {
		res.Case(fmt.Sprintf("concurrent/%s/%s/%d", kind, storeName, v), true)
	}
}

// concurrentStage runs the probe on both backends (thorough / race child: also on pebble).
func concurrentStage(res *lib.Result, dur time.Duration, withPebble bool, scratch string) {
	for _, ns := range []bool{false, true} {
		concurrentProbe(res, ns, false, dur, scratch)
		if withPebble {
			concurrentProbe(res, ns, true, dur, scratch)
		}
	}
}

// runRaceChild (thorough tier): rebuilds this harness with the Go race detector as vh-c03-race and
// runs the concurrent stage under it. A data race report is a violation; the child's own findings
// are merged; a child that does not build or run is fatal.
func runRaceChild(f lib.Flags, res *lib.Result) {
	wd, err := os.Getwd()
	if err != nil {
		res.Fatalf("race build: %v", err)
		return
	}
	hdir := filepath.Join(wd, "harness")
	if _, err := os.Stat(filepath.Join(hdir, "go.mod")); err != nil {
		res.Fatalf("race build: harness directory not found from %s", wd)
		return
	}
	tag := ""
	args := []string{"build", "-race"}
	if repo := os.Getenv("VERIF_REPO"); repo != "" && repo != "/repo" {
		h := sha1.Sum([]byte(repo))
		tag = "-" + hex.EncodeToString(h[:])[:8]
		args = append(args, "-modfile="+filepath.Join(wd, ".build", "go"+tag+".mod"))
	}
	bin := filepath.Join(wd, ".build", "vh-c03-race"+tag)
	args = append(args, "-tags", "verif", "-o", bin, "./cmd/c03")
	ctx, cancel := context.WithTimeout(context.Background(), 25*time.Minute)
	defer cancel()
	b := exec.CommandContext(ctx, "go", args...)
	b.Dir = hdir
	if out, err := b.CombinedOutput(); err != nil {
		res.Fatalf("race build failed: %v: %s", err, tailStr(string(out), 600))
		return
	}
	outPath := filepath.Join(wd, ".build", fmt.Sprintf("result-c03-race-%d.json", os.Getpid()))
	defer os.Remove(outPath)
	c := exec.CommandContext(ctx, bin, "--seed", fmt.Sprint(f.Seed), "--tier", "quick", "--driver", f.Driver, "--out", outPath)
	c.Env = append(os.Environ(), "C03_CHILD=concurrent", "GORACE=halt_on_error=0")
	var buf bytes.Buffer
	c.Stderr, c.Stdout = &buf, &buf
	runErr := c.Run()
	text := buf.String()
	if n := strings.Count(text, "WARNING: DATA RACE"); n > 0 {
		i := strings.Index(text, "WARNING: DATA RACE")
		rep := text[i:]
		if j := strings.Index(rep, "=================="); j > 0 {
			rep = rep[:j]
		}
		res.Violate(lib.Violation{Sig: "data-race-reported-by-the-race-detector",
			What:   fmt.Sprintf("%d data race report(s) while readers and a writer ran on one Blockchain under -race", n),
			Replay: map[string]any{"report": tailStr(rep, 6000), "how": "harness/cmd/c03/racechild.go: go build -race ./cmd/c03; C03_CHILD=concurrent"}})
	}
	res.Hit("race-build:runs")
	raw, err := os.ReadFile(outPath)
	if err != nil {
		res.Fatalf("race child produced no result (%v): %s", runErr, tailStr(text, 600))
		return
	}
	var child struct {
		Cases        int             `json:"cases"`
		Distribution map[string]int  `json:"distribution"`
		Violations   []lib.Violation `json:"violations"`
		Fatal        []string        `json:"fatal"`
	}
	if err := json.Unmarshal(raw, &child); err != nil {
		res.Fatalf("race child result unreadable: %v", err)
		return
	}
	for k, v := range child.Distribution {
		if strings.HasPrefix(k, "concurrent:") {
			res.HitN("race-build:"+k, v)
		}
	}
	for _, v := range child.Violations {
		res.Violate(v)
	}
	for _, ft := range child.Fatal {
		res.Fatalf("race child: %s", ft)
	}
	if child.Cases == 0 {
		res.Fatalf("race child evaluated no case")
	}
}

func tailStr(s string, n int) string {
	if len(s) > n {
		return s[len(s)-n:]
	}
	return s
}
