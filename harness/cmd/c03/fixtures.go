//go:build verif

package main

import (
	"fmt"
	"math/big"

	"github.com/NethermindEth/juno/core"
	"github.com/NethermindEth/juno/core/felt"
	"verif/harness/lib"
)

// Class fixtures owned by this harness (harness/lib keeps its own unexported): the replay of a
// history in a fresh process must be able to rebuild every class definition from its hash alone.

type sierraFx struct {
	hash  felt.Felt
	class *core.SierraClass
	casm1 felt.Felt // compiled class hash v1 (poseidon)
	casm2 felt.Felt // compiled class hash v2 (blake2s)
}

const (
	nCairo0 = 3
	nSierra = 3
)

var (
	sierraFxs []*sierraFx
	cairo0Fxs []felt.Felt
)

func initFixtures() {
	for i := uint64(0); i < nSierra; i++ {
		sierraFxs = append(sierraFxs, makeSierra(i))
	}
	for i := uint64(0); i < nCairo0; i++ {
		cairo0Fxs = append(cairo0Fxs, *lib.F(0xD100 + i))
	}
}

func makeSierra(i uint64) *sierraFx {
	casm := &core.CasmClass{
		Bytecode:        []felt.Felt{*lib.F(11 + i), *lib.F(2), *lib.F(13 + i), *lib.F(4)},
		CompilerVersion: "2.1.0",
		Prime:           new(big.Int).SetUint64(1),
		External:        []core.CasmEntryPoint{{Offset: i, Builtins: []string{"range_check"}, Selector: lib.F(177 + i)}},
		L1Handler:       []core.CasmEntryPoint{},
		Constructor:     []core.CasmEntryPoint{{Offset: 1, Builtins: []string{}, Selector: lib.F(188)}},
	}
	if i%2 == 1 {
		casm.BytecodeSegmentLengths = core.SegmentLengths{Children: []core.SegmentLengths{{Length: 1}, {Length: 3}}}
	}
	cls := &core.SierraClass{
		Abi:     fmt.Sprintf("[c03 abi %d]", i),
		AbiHash: lib.F(3000 + i),
		EntryPoints: core.SierraEntryPointsByType{
			Constructor: []core.SierraEntryPoint{{Index: 0, Selector: lib.F(188)}},
			External:    []core.SierraEntryPoint{{Index: 1, Selector: lib.F(177 + i)}},
			L1Handler:   []core.SierraEntryPoint{},
		},
		Program:         []felt.Felt{*lib.F(1), *lib.F(6), *lib.F(0), *lib.F(i), *lib.F(9)},
		ProgramHash:     lib.F(4000 + i),
		SemanticVersion: "0.1.0",
		Compiled:        casm,
	}
	h, err := cls.Hash()
	if err != nil {
		panic(err)
	}
	return &sierraFx{hash: h, class: cls, casm1: casm.Hash(core.HashVersionV1), casm2: casm.Hash(core.HashVersionV2)}
}

func cairo0Class(h *felt.Felt) *core.DeprecatedCairoClass {
	return &core.DeprecatedCairoClass{
		Abi:          []byte(fmt.Sprintf(`[{"c03":"%s"}]`, h.String())),
		Externals:    []core.DeprecatedEntryPoint{{Selector: lib.F(5), Offset: lib.F(1)}},
		L1Handlers:   []core.DeprecatedEntryPoint{},
		Constructors: []core.DeprecatedEntryPoint{},
		Program:      "H4sIAAAAAAAA/wEAAP//AAAAAAAAAAA=",
	}
}

func sierraByHash(h *felt.Felt) *sierraFx {
	for _, fx := range sierraFxs {
		if fx.hash.Equal(h) {
			return fx
		}
	}
	return nil
}

// classDef rebuilds the definition of a fixture class from its hash (deep copy: nodes must never
// share a definition object).
func classDef(h *felt.Felt) (core.ClassDefinition, bool) {
	if fx := sierraByHash(h); fx != nil {
		return lib.DeepCopy(fx.class).(*core.SierraClass), true
	}
	for i := range cairo0Fxs {
		if cairo0Fxs[i].Equal(h) {
			return cairo0Class(h), true
		}
	}
	return nil, false
}
