//go:build verif

package main

import (
	"errors"
	"fmt"
	"os"
	"strings"
	"sync"
	"time"

	"github.com/NethermindEth/juno/blockchain"
	"github.com/NethermindEth/juno/core"
	"github.com/NethermindEth/juno/core/felt"
	"github.com/NethermindEth/juno/db"
	"github.com/NethermindEth/juno/db/memory"
	"github.com/NethermindEth/juno/db/pebblev2"
	"github.com/NethermindEth/juno/pruner"
	"verif/harness/lib"
)

// Config says which nodes take part in a history.
type Config struct {
	Name       string `json:"name"`
	SrcNew     bool   `json:"src_new_state"` // backend of the source node (Finalise path); it is queried too
	Dst        []bool `json:"dst_new_state"` // backends of the destination nodes (Store path)
	Pebble     bool   `json:"pebble"`        // destinations on pebblev2 instead of the memory DB
	AllowDrain bool   `json:"allow_drain"`   // blocks may empty the storage of a system contract
	Reopen     bool   `json:"reopen"`        // re-open every destination Blockchain on its DB before each check
	// Seeded: the destinations are built the way node/node.go builds them: with a retention floor
	// seeded from the database (blockchain.WithRetentionFloor(pruner.NewRetentionFloor(db))), so that
	// StateAtBlockNumber takes the seeded branches of pruner/retention.go (false: blockchain.New's
	// default, an unseeded floor: header -> hash -> hash index)
	Seeded bool `json:"seeded_floor"`
	// Univ: the universe of addresses and slots the history is drawn from and read over: "" = the chain
	// generator's, "ff" = the byte-boundary universe (reads.go universeTables)
	Univ string `json:"universe,omitempty"`
}

func kindName(newState bool) string {
	if newState {
		return "new"
	}
	return "legacy"
}

type node struct {
	name  string // "src" | "dst0" ...
	kind  string // "legacy" | "new"
	newSt bool
	bc    *blockchain.Blockchain
	store db.KeyValueStore
	fault *faultDB // destinations only
	dir   string
	// retention floor of this node's process: seeded (destinations of a Seeded history) or not;
	// floor = what the Lean model says a process started on this database seeds
	seeded bool
	floor  int
}

// Failure is a property violation (oracle on the real code) or a model/implementation mismatch.
type Failure struct {
	Violation bool
	Sig       string
	What      string
	Query     map[string]any
}

// Engine executes one history on the real nodes (and feeds the same history to the Lean driver).
type Engine struct {
	cfg      Config
	g        *lib.ChainGen
	nodes    []*node
	drv      *lib.Driver
	res      *lib.Result // nil in shrink mode
	steps    []Step
	descs    []*Desc
	reverted []felt.Felt // hashes of reverted blocks (most recent last)
	drained  map[felt.Felt]bool
	stale    map[felt.Felt]map[felt.Felt]felt.Felt // shadow of stale trie2 leaves, see stale.go
	emptied  bool                                  // some block left a system contract with a diff entry and an empty storage
	fails    []Failure
	seen     map[string]bool
	u        *Universe
	verIdx   int
	lastRev  *Desc
	broken   string // set when the history cannot continue (a store or revert failed)
	scratch  string
	stats    map[string]int
	onCheck  func()
	full     bool // read every view completely (replay / shrinking)
	held     map[string][]*heldReader
	lastOp   string
	prevOK   map[uint64]bool // reads that were made and right at the previous check
	only     map[string]bool // when set, CheckAll reads these nodes only
	rpc      map[string]*rpcPair
	// prunedBelow: the block commitments below this block were deleted from the destinations'
	// databases (step "prune-probe": what the pruner leaves in the bucket the floor is seeded from)
	prunedBelow int
	// commits: the blocks whose commitments are in the destinations' databases (written by Store,
	// deleted by RevertHead and by the prune step)
	commits map[int]bool
}

// opDeadline bounds one Store / RevertHead (hang detection). Generous: up to 14 histories and as many
// driver processes share the machine, a slow box must not look like a hang.
const opDeadline = 20 * time.Minute

var versions = []string{"0.13.2", "0.13.4", "0.14.0", "0.14.1"}

func NewEngine(cfg Config, r *lib.RNG, driverPath, scratch string, res *lib.Result) (*Engine, error) {
	opt := lib.DefaultGenOptions()
	opt.NoClasses = true // declarations are generated here (own fixtures, rebuilt from the hash on replay)
	g := lib.NewChainGen(r, cfg.SrcNew, opt)
	e := &Engine{cfg: cfg, g: g, res: res, drained: map[felt.Felt]bool{}, stale: map[felt.Felt]map[felt.Felt]felt.Felt{}, seen: map[string]bool{},
		scratch: scratch, stats: map[string]int{}, held: map[string][]*heldReader{}, commits: map[int]bool{}}
	e.u = newUniverse(g, cfg.Univ)
	e.nodes = append(e.nodes, &node{name: "src", kind: kindName(cfg.SrcNew), newSt: cfg.SrcNew, bc: g.Src, store: g.SrcDB})
	for i, ns := range cfg.Dst {
		n := &node{name: fmt.Sprintf("dst%d", i), kind: kindName(ns), newSt: ns}
		if cfg.Pebble {
			dir, err := os.MkdirTemp(scratch, "pebble-*")
			if err != nil {
				return nil, err
			}
			st, err := pebblev2.New(dir)
			if err != nil {
				return nil, err
			}
			n.dir, n.fault = dir, newFaultDB(st)
		} else {
			n.fault = newFaultDB(memory.New())
		}
		n.store = n.fault
		n.seeded = cfg.Seeded
		if err := e.startProcess(n); err != nil {
			return nil, err
		}
		e.nodes = append(e.nodes, n)
	}
	if driverPath != "" {
		drv, err := lib.StartDriver(driverPath)
		if err != nil {
			return nil, err
		}
		e.drv = drv
		if err := e.sendUniverse(); err != nil {
			return nil, err
		}
		for _, n := range e.nodes[1:] {
			e.modelSeed(n)
		}
		lf, sp, ho := probeVariant()
		for _, c := range []struct {
			name string
			on   bool
		}{{"leaffix", lf}, {"sysprobefix", sp}, {"historderfix", ho}, {"migvalfix", migValFix()}, {"dupdeclfix", dupDeclFix()}} {
			flag := "0"
			if c.on {
				flag = "1"
			}
			if ans, err := drv.Ask("cfg " + c.name + " " + flag); err != nil || ans != "ok" {
				return nil, fmt.Errorf("driver cfg: %q %v", ans, err)
			}
		}
	}
	return e, nil
}

// startProcess builds the Blockchain of a destination node on its store, as a node process would:
// with a retention floor seeded from the database when the history says so.
func (e *Engine) startProcess(n *node) error {
	if !n.seeded {
		n.bc = lib.NodeOn(n.store, e.g.Net, n.newSt)
		return nil
	}
	fl, err := pruner.NewRetentionFloor(n.store)
	if err != nil {
		return fmt.Errorf("seeding the retention floor of %s: %w", n.name, err)
	}
	n.bc = lib.NodeOn(n.store, e.g.Net, n.newSt, blockchain.WithRetentionFloor(fl))
	n.floor = e.oracleFloor()
	return nil
}

// oracleFloor: the lowest block whose state a process started now must still serve — one below the
// oldest block the pruner left complete (pruner/retention.go: "state one block below the oldest
// retained block stays reconstructible"); 0 on a database that was never pruned.
func (e *Engine) oracleFloor() int {
	oldest := -1
	for b := range e.commits {
		if oldest < 0 || b < oldest {
			oldest = b
		}
	}
	if oldest < 1 {
		return 0 // never pruned, or nothing left to scan: "an empty database seeds a floor of zero"
	}
	return oldest - 1
}

// modelSeed asks the Lean model which floor a process started on the node's database seeds; it must be
// the oracle's.
func (e *Engine) modelSeed(n *node) {
	if !n.seeded || e.drv == nil {
		return
	}
	ans, ok := e.ask("seedfloor " + n.kind)
	if !ok {
		return
	}
	var f int
	if _, err := fmt.Sscanf(ans, "%x", &f); err != nil {
		e.fatal("driver answer to seedfloor: %q", ans)
		return
	}
	if e.res != nil {
		e.res.Compared(1)
	}
	e.hit(fmt.Sprintf("floor:seeded-at-process-start=%d", f))
	if f != n.floor {
		e.fail(Failure{Sig: "model-seed-floor-" + n.kind, What: fmt.Sprintf("floor a new process seeds: model %d, oracle %d", f, n.floor),
			Query: map[string]any{"node": n.name, "model": f, "impl": n.floor}})
	}
}

func (e *Engine) Close() {
	if e.drv != nil {
		e.drv.Close()
	}
	for _, n := range e.nodes {
		if n.dir != "" {
			_ = n.store.Close()
			_ = os.RemoveAll(n.dir)
		}
	}
}

func (e *Engine) hit(name string) {
	if e.res != nil {
		e.res.Hit(name)
	}
}

func (e *Engine) fail(f Failure) {
	key := fmt.Sprint(f.Violation, f.Sig)
	if e.seen[key] {
		return
	}
	e.seen[key] = true
	e.fails = append(e.fails, f)
}

func (e *Engine) Height() int { return e.g.Height() }

// fatal reports a failure of the harness machinery (never green, CONVENTIONS §8).
func (e *Engine) fatal(format string, a ...any) {
	msg := fmt.Sprintf(format, a...)
	if e.res != nil {
		e.res.Fatalf("scenario %s: %s", e.cfg.Name, msg)
		return
	}
	e.fail(Failure{Sig: "harness-fatal", What: msg})
}

func (e *Engine) ask(line string) (string, bool) {
	if e.drv == nil {
		return "", false
	}
	ans, err := e.drv.Ask(line)
	if err != nil {
		e.broken = "driver: " + err.Error()
		e.drv = nil
		e.fatal("Lean driver died: %v", err)
		return "", false
	}
	return ans, true
}

func (e *Engine) sendUniverse() error {
	for _, l := range e.u.driverLines() {
		ans, err := e.drv.Ask(l)
		if err != nil {
			return err
		}
		if ans != "ok" {
			return fmt.Errorf("driver answered %q to %q", ans, l)
		}
	}
	return nil
}

// drains reports the system contracts whose storage this diff leaves empty although the diff
// has an entry for them (drained = it was non-empty before; the two backends compute different
// state roots for such blocks, and the new backend deletes the contract record).
func drains(prev *lib.AbsState, d *core.StateDiff) (emptied, drained []felt.Felt) {
	for _, a := range []felt.Felt{*lib.F(1), *lib.F(2)} {
		inner, ok := d.StorageDiffs[a]
		if !ok {
			continue
		}
		after := map[felt.Felt]bool{}
		before := 0
		if c, ok := prev.Contracts[a]; ok {
			for k := range c.Storage {
				after[k] = true
				before++
			}
		}
		for k, v := range inner {
			if v.IsZero() {
				delete(after, k)
			} else {
				after[k] = true
			}
		}
		if len(after) == 0 {
			emptied = append(emptied, a)
			if before > 0 {
				drained = append(drained, a)
			}
		}
	}
	return emptied, drained
}

// Store appends a block with the given diff to the chain of every node.
func (e *Engine) Store(d *Desc) {
	if e.broken != "" {
		return
	}
	prev := e.g.HeadState()
	em, dr := drains(prev, d.Diff)
	e.steps = append(e.steps, Step{Op: "store", Version: d.Version, Diff: encodeDesc(d)})
	e.lastOp = "store"
	c := d.clone()
	b, err := e.g.Next(&lib.BlockSpec{Version: c.Version, Diff: c.Diff, Classes: c.Classes, NoTxs: true})
	if err != nil {
		// the source node is juno too: a block it cannot build ends the history
		e.broken = "source: " + err.Error()
		e.fail(Failure{Violation: true, Sig: "finalise-of-wellformed-block-failed-" + kindName(e.cfg.SrcNew),
			What: err.Error(), Query: map[string]any{"step": len(e.steps) - 1}})
		return
	}
	if len(em) > 0 {
		e.emptied = true
	}
	for _, a := range dr {
		e.drained[a] = true
		e.hit("block:drains-system-contract")
	}
	e.descs = append(e.descs, d)
	e.commits[int(b.Block.Number)] = true
	e.shadowStore(prev, d.Diff)
	for _, n := range e.nodes[1:] {
		var serr error
		done := lib.WithDeadline(opDeadline, func() {
			var pan bool
			var stack string
			serr, pan, stack = lib.Try(func() error { return lib.StoreOn(n.bc, b) })
			if pan {
				serr = fmt.Errorf("%v\n%s", serr, stack)
			}
		})
		if !done {
			// a harness deadline is a failure of the machinery, never a finding by itself
			e.fatal("Store on %s did not return within %s (harness deadline)", n.name, opDeadline)
			e.broken = n.name + " store: deadline"
			return
		}
		if serr != nil {
			e.broken = n.name + " store: " + serr.Error()
			e.fail(Failure{Violation: true, Sig: "store-of-valid-block-failed-" + n.kind,
				What:  fmt.Sprintf("%s (%s) rejected block %d built by the %s source: %v", n.name, n.kind, b.Block.Number, kindName(e.cfg.SrcNew), firstLine(serr.Error())),
				Query: map[string]any{"step": len(e.steps) - 1, "node": n.name}})
			return
		}
	}
	p := "p1"
	if isV2(d.Version) {
		p = "p2"
	}
	if ans, ok := e.ask("store " + hx(b.Block.Hash) + " " + p + " " + e.steps[len(e.steps)-1].Diff); ok {
		if strings.HasSuffix(ans, " not-wf") {
			// the diff is outside the hypothesis of the theorems (Diff.WF); still compared
			ans = strings.TrimSuffix(ans, " not-wf")
			e.hit("block:diff-outside-theorem-hypothesis(not-wf)")
		} else {
			e.hit("block:diff-meets-theorem-hypothesis(wf)")
		}
		if !e.modelOK(ans) {
			e.fail(Failure{Sig: "model-store-result", What: "model: " + ans + ", implementation: ok", Query: map[string]any{"step": len(e.steps) - 1, "model": ans, "impl": "ok"}})
		}
	}
}

func firstLine(s string) string {
	if i := strings.IndexByte(s, '\n'); i >= 0 {
		return s[:i]
	}
	return s
}

// modelOK: the model performed the operation on every backend this history has a node of (a
// single-backend history does not follow the other backend's model any further).
func (e *Engine) modelOK(ans string) bool {
	f := strings.Fields(ans)
	if len(f) != 2 {
		return false
	}
	for _, n := range e.nodes {
		if (n.kind == "new" && f[0] != "new=ok") || (n.kind == "legacy" && f[1] != "legacy=ok") {
			return false
		}
	}
	return true
}

// modelTry asks the Lean model for the outcome of an operation without performing it:
// line = "try-revert" | "try-store <hash> <p1|p2> <diff>". Answer per backend kind: "ok" | "err:<name>".
func (e *Engine) modelTry(line string) map[string]string {
	ans, ok := e.ask(line)
	if !ok {
		return nil
	}
	ans = strings.TrimSuffix(ans, " not-wf")
	f := strings.Fields(ans)
	if len(f) != 2 || !strings.HasPrefix(f[0], "new=") || !strings.HasPrefix(f[1], "legacy=") {
		e.fatal("driver answer to %q: %q", firstLine(line), ans)
		return nil
	}
	return map[string]string{"new": strings.TrimPrefix(f[0], "new="), "legacy": strings.TrimPrefix(f[1], "legacy=")}
}

// errClass maps an error of Store / RevertHead to the name the model gives the guard that fired;
// "root" = every guard passed and the commitment check failed (commitments are not modelled).
func errClass(err error) string {
	if err == nil {
		return "ok"
	}
	s := err.Error()
	switch {
	case strings.Contains(s, "already deployed"):
		return "err:already-deployed"
	case strings.Contains(s, "metadata not found"): // "cannot migrate class …: metadata not found"
		return "err:meta-missing"
	case strings.Contains(s, "cannot migrate"):
		return "err:cannot-migrate"
	case strings.Contains(s, "cannot unmigrate"):
		return "err:cannot-unmigrate"
	case strings.Contains(s, "remove declared classes: get class"):
		return "err:class-missing"
	case strings.Contains(s, "check head state"):
		return "err:check-head-state"
	case strings.Contains(s, "contract not deployed"):
		return "err:not-deployed"
	case strings.Contains(s, "key not found"):
		return "err:not-found"
	case strings.Contains(s, "does not match") || strings.Contains(s, "mismatch"):
		return "root"
	}
	return "other"
}

// listedTwice: a class hash occurs twice in the declared sections of the diff (DeclaredV0Classes is
// a slice).
func listedTwice(d *core.StateDiff) bool {
	seen := map[felt.Felt]bool{}
	for _, c := range d.DeclaredV0Classes {
		if seen[*c] {
			return true
		}
		seen[*c] = true
	}
	for c := range d.DeclaredV1Classes {
		if seen[c] {
			return true
		}
	}
	return false
}

// declaresRegisteredSierra: the diff declares (DeclaredV1Classes) a class hash the state already
// holds — registered by an earlier block as the undeclared class of a deployed contract.
func declaresRegisteredSierra(prev *lib.AbsState, d *core.StateDiff) bool {
	for c := range d.DeclaredV1Classes {
		if _, ok := prev.Classes[c]; ok {
			return true
		}
	}
	return false
}

// Revert removes the head block on every node. Destinations first: if one of them cannot revert,
// nothing else is reverted, the failed attempt is treated as what it is for THIS property — an
// operation without effect: all views of the nodes that refused are read once more against the
// unchanged chain — and the history ends. Whether RevertHead may fail at all is C04's property; the
// failure is classified, compared with the model's prediction, and filed under its own Sig.
func (e *Engine) Revert() {
	if e.broken != "" || e.g.Height() == 0 {
		return
	}
	e.steps = append(e.steps, Step{Op: "revert"})
	e.lastOp = "revert"
	head := e.g.Head()
	prev := lib.NewAbsState()
	if h := e.g.Height(); h >= 2 {
		prev = e.g.States[h-2]
	}
	mdl := e.modelTry("try-revert")
	try := func(i int, n *node) error {
		var rerr error
		done := lib.WithDeadline(opDeadline, func() {
			var pan bool
			var stack string
			rerr, pan, stack = lib.Try(func() error {
				if i == 0 {
					return e.g.Revert()
				}
				return n.bc.RevertHead()
			})
			if pan {
				rerr = fmt.Errorf("panic: %v\n%s", rerr, stack)
			}
		})
		if !done {
			e.fatal("RevertHead on %s did not return within %s (harness deadline)", n.name, opDeadline)
			return fmt.Errorf("RevertHead did not return within %s", opDeadline)
		}
		return rerr
	}
	outcome := map[string]string{}
	var failed []*node
	firstErr := map[string]error{}
	for i, n := range e.nodes[1:] {
		rerr := try(i+1, n)
		c := errClass(rerr)
		if old, ok := outcome[n.kind]; ok && old != c {
			e.fail(Failure{Violation: true, Sig: "revert-head-outcome-differs-between-nodes-of-one-backend-" + n.kind,
				What: fmt.Sprintf("%s: %s, an earlier %s node: %s", n.name, c, n.kind, old), Query: map[string]any{"step": len(e.steps) - 1}})
		}
		outcome[n.kind] = c
		if rerr != nil {
			failed = append(failed, n)
			if firstErr[n.kind] == nil {
				firstErr[n.kind] = rerr
			}
		}
	}
	if len(failed) == 0 {
		if rerr := try(0, e.nodes[0]); rerr != nil {
			n := e.nodes[0]
			outcome[n.kind] = errClass(rerr)
			firstErr[n.kind] = rerr
			failed = append(failed, n)
		}
	}
	if len(failed) > 0 {
		e.revertFailed(head, prev, failed, outcome, firstErr, mdl)
		return
	}
	for kind, c := range outcome {
		if mdl != nil && mdl[kind] != c {
			e.fail(Failure{Sig: "model-revert-result-" + kind, What: "model: " + mdl[kind] + ", implementation: " + c, Query: map[string]any{"step": len(e.steps) - 1, "model": mdl[kind], "impl": c}})
		}
	}
	e.shadowRevert(head.SU.StateDiff)
	for a := range head.SU.StateDiff.DeployedContracts {
		if endsInFF(&a) {
			e.hit("ff:revert-of-the-deployment-of-an-address-ending-in-0xff")
			up := new(felt.Felt).Add(&a, lib.F(1))
			if c, ok := prev.Contracts[*up]; ok && prev.Deployed[*up] && len(c.Storage) > 0 {
				e.hit("ff:revert-of-the-deployment-of-an-address-ending-in-0xff-below-a-contract-with-storage")
			}
		}
	}
	delete(e.commits, int(head.Block.Number))
	e.reverted = append(e.reverted, *head.Block.Hash)
	e.lastRev = e.descs[len(e.descs)-1]
	e.descs = e.descs[:len(e.descs)-1]
	if ans, ok := e.ask("revert"); ok {
		if !e.modelOK(ans) {
			e.fail(Failure{Sig: "model-revert-result", What: "model: " + ans + ", implementation: ok", Query: map[string]any{"step": len(e.steps) - 1, "model": ans, "impl": "ok"}})
		}
	}
}

// revertFailed: some node refused to revert its head. Classify, compare with the model, re-read the
// refusing nodes (a failed RevertHead is an operation without effect), end the history.
func (e *Engine) revertFailed(head *lib.Bundle, prev *lib.AbsState, failed []*node, outcome map[string]string, firstErr map[string]error, mdl map[string]string) {
	d := head.SU.StateDiff
	for kind, c := range outcome {
		if c == "ok" {
			if mdl != nil && mdl[kind] != "ok" {
				e.fail(Failure{Sig: "model-revert-result-" + kind, What: "model: " + mdl[kind] + ", implementation: ok", Query: map[string]any{"step": len(e.steps) - 1, "model": mdl[kind], "impl": "ok"}})
			}
			continue
		}
		text := firstLine(firstErr[kind].Error())
		cause, modelled := "", true
		switch {
		case kind == "legacy" && e.emptied && c == "root" && strings.Contains(text, "does not match the expected root: 0x"):
			// after a block that left a system contract with a diff entry and an empty storage the
			// legacy backend cannot revert any more (purgesystemContracts removes the contract, the
			// root check fails) -- C04's subject, commitments are not modelled
			e.hit("stop:legacy-revert-fails-after-system-contract-emptied(C04)")
			cause, modelled = "known-to-C04", false
		case kind == "legacy" && c == "err:class-missing" && listedTwice(d):
			// removeDeclaredClasses reads each listed class through the transaction it deletes from
			cause = "class-listed-twice-in-the-declared-section"
		case c == "root" && declaresRegisteredSierra(prev, d):
			// Update wrote the class-trie leaf of the declaration, Revert skips the class because it
			// was registered (At) by an earlier block, the leaf stays: commitments are not modelled
			cause, modelled = "declaration-of-a-sierra-class-registered-earlier-for-a-deployed-contract", false
		}
		if cause == "known-to-C04" {
			continue
		}
		if cause == "" {
			cause = "unclassified-" + strings.TrimPrefix(c, "err:")
		}
		if modelled && mdl != nil && mdl[kind] != c {
			e.fail(Failure{Sig: "model-revert-result-" + kind, What: "model: " + mdl[kind] + ", implementation: " + c + " (" + text + ")", Query: map[string]any{"step": len(e.steps) - 1, "model": mdl[kind], "impl": c + " (" + text + ")"}})
		}
		if modelled && mdl != nil && mdl[kind] == c {
			e.hit("revert:refused-as-the-model-predicts:" + kind + ":" + c)
		}
		e.fail(Failure{Violation: true, Sig: kind + "-revert-head-fails-" + cause,
			What:  fmt.Sprintf("%s backend: RevertHead of block %d: %s", kind, head.Block.Number, text),
			Query: map[string]any{"step": len(e.steps) - 1, "backend": kind}})
	}
	// nothing was reverted on the refusing nodes (and the source still holds the block): their
	// views must be those of the unchanged chain
	refusedOnly := true
	for _, n := range e.nodes[1:] {
		if outcome[n.kind] == "ok" {
			refusedOnly = false
		}
	}
	e.lastOp = "revert-refused"
	e.hit("op:discarded:revert-refused")
	e.only = map[string]bool{}
	for _, n := range failed {
		e.only[n.name] = true
	}
	if refusedOnly {
		e.only["src"] = true
	}
	if e.nodes[0].bc != nil && e.g.Height() == int(head.Block.Number)+1 {
		e.CheckAll()
	}
	e.only = nil
	e.broken = "revert refused: " + firstLine(fmt.Sprint(firstErr))
}

// Apply executes one recorded step.
func (e *Engine) Apply(s Step) error {
	switch s.Op {
	case "store":
		d, err := decodeDiff(s.Version, s.Diff)
		if err != nil {
			return err
		}
		e.Store(d)
	case "revert":
		if e.g.Height() == 0 {
			return errors.New("revert on an empty chain")
		}
		e.Revert()
	case "restart":
		e.steps = append(e.steps, s)
		e.lastOp = "restart"
		e.hit("op:restart")
		e.restart()
	case "prune-probe":
		var m int
		if _, err := fmt.Sscanf(s.Diff, "%x", &m); err != nil {
			return fmt.Errorf("prune-probe %q: %w", s.Diff, err)
		}
		e.PruneProbe(m)
	case "revert-dropped":
		e.Discard(s.Op, nil)
	case "simulate", "store-dropped", "store-late-fail", "store-wrong-root", "store-invalid":
		d, err := decodeDiff(s.Version, s.Diff)
		if err != nil {
			return err
		}
		e.Discard(s.Op, d)
	default:
		return fmt.Errorf("unknown op %q", s.Op)
	}
	return nil
}

func (e *Engine) reopen() {
	if !e.cfg.Reopen {
		return
	}
	e.restart()
}

// restart: every destination gets a new process (Blockchain, retention floor) on its database.
func (e *Engine) restart() {
	for _, n := range e.nodes[1:] {
		if err := e.startProcess(n); err != nil {
			e.fatal("%v", err)
			continue
		}
		e.modelSeed(n)
	}
	e.rpc = nil // the handlers hold the old Blockchain
}

// PruneProbe deletes the block commitments below block m from every destination database — the
// bucket pruner.OldestRetainedBlock scans — and restarts the destinations: a process started on such
// a database seeds its floor at m-1. Nothing else is deleted: the subject here is which views the
// retention check admits and what they answer (pruning itself is C16's).
func (e *Engine) PruneProbe(m int) {
	if e.broken != "" {
		return
	}
	e.steps = append(e.steps, Step{Op: "prune-probe", Diff: fmt.Sprintf("%x", m)})
	e.lastOp = "prune-probe"
	for _, n := range e.nodes[1:] {
		for b := 0; b < m; b++ {
			if err := n.store.Delete(db.BlockCommitmentsKey(uint64(b))); err != nil {
				e.fatal("deleting the commitments of block %d on %s: %v", b, n.name, err)
			}
		}
	}
	if m > e.prunedBelow {
		e.prunedBelow = m
	}
	for b := range e.commits {
		if b < m {
			delete(e.commits, b)
		}
	}
	if ans, ok := e.ask(fmt.Sprintf("prune-commitments %x", m)); ok && ans != "ok" {
		e.fatal("driver answer to prune-commitments: %q", ans)
	}
	e.hit("op:prune-probe")
	e.restart()
}

var (
	probeOnce   sync.Once
	leafFixVal  bool
	sysProbeVal bool
	histOrdVal  bool
	migValVal   bool
	probeErr    error // a probe that could not run: Fatal in main
)

// probeVariant probes the real code once: which variant of the new backend is in the tree (the Lean
// model has both, see Cfg in Model.lean). Witnesses: (leafFix) delete a slot whose sibling slot
// (k xor 1) is set and read it at the head; (sysProbeFix) empty the storage of a system contract
// and read the earlier block.
func probeVariant() (leafFix, sysProbeFix, histOrderFix bool) {
	probeOnce.Do(func() {
		run := func(lines []string) *lib.ChainGen {
			g := lib.NewChainGen(lib.NewRNG(1), true, lib.DefaultGenOptions())
			for _, line := range lines {
				d, err := decodeDiff("0.13.2", line)
				if err != nil {
					probeErr = fmt.Errorf("probe diff %q: %w", line, err)
					return nil
				}
				if _, err := g.Next(&lib.BlockSpec{Version: d.Version, Diff: d.Diff, Classes: d.Classes, NoTxs: true}); err != nil {
					probeErr = fmt.Errorf("probe block %q: %w", line, err)
					return nil
				}
			}
			return g
		}
		if g := run([]string{"sa 104 sk 2 1 d 104 c000", "sa 104 sk 3 4", "sa 104 sk 3 0"}); g != nil {
			r, _, err := g.Src.HeadState()
			if err != nil {
				probeErr = fmt.Errorf("leafFix probe: %w", err)
				return
			}
			v, err := r.ContractStorage(lib.F(0x104), lib.F(3))
			if err != nil {
				probeErr = fmt.Errorf("leafFix probe: %w", err)
				return
			}
			leafFixVal = v.IsZero()
		}
		if g := run([]string{"sa 1 sk 2 5", "sa 1 sk 2 0"}); g != nil {
			r, _, err := g.Src.StateAtBlockNumber(0)
			if err != nil {
				probeErr = fmt.Errorf("sysProbeFix probe: %w", err)
				return
			}
			// as found this read answers key-not-found (the defect), repaired it answers 5
			v, err := r.ContractStorage(lib.F(1), lib.F(2))
			sysProbeVal = err == nil && v.Equal(lib.F(5))
		}
		if g := run([]string{"d 104 c000", "d 106 c000 r 106 c003"}); g != nil {
			r, _, err := g.Src.StateAtBlockNumber(1)
			if err != nil {
				probeErr = fmt.Errorf("histOrderFix probe: %w", err)
				return
			}
			v, err := r.ContractClassHash(lib.F(0x106))
			if err != nil {
				probeErr = fmt.Errorf("histOrderFix probe: %w", err)
				return
			}
			histOrdVal = v.Equal(lib.F(0xc003))
		}
		// block store: does a CASM migration keep the hash of the diff? (a two-version chain)
		{
			initOnce()
			s0 := sierraFxs[0]
			g := lib.NewChainGen(lib.NewRNG(1), true, lib.DefaultGenOptions())
			for _, b := range [][2]string{
				{"0.13.4", "c1 " + hx(&s0.hash) + " " + hx(&s0.casm1) + " " + hx(&s0.casm2)},
				{"0.14.1", "m " + hx(&s0.hash) + " abc"},
			} {
				d, err := decodeDiff(b[0], b[1])
				if err != nil {
					probeErr = fmt.Errorf("migValFix probe diff %q: %w", b[1], err)
					return
				}
				if _, err := g.Next(&lib.BlockSpec{Version: d.Version, Diff: d.Diff, Classes: d.Classes, NoTxs: true}); err != nil {
					probeErr = fmt.Errorf("migValFix probe block %q: %w", b[1], err)
					return
				}
			}
			r, _, err := g.Src.HeadState()
			if err != nil {
				probeErr = fmt.Errorf("migValFix probe: %w", err)
				return
			}
			v, err := r.CompiledClassHash((*felt.SierraClassHash)(&s0.hash))
			if err != nil {
				probeErr = fmt.Errorf("migValFix probe: %w", err)
				return
			}
			vf := felt.Felt(v)
			migValVal = vf.Equal(lib.F(0xabc))
		}
	})
	return leafFixVal, sysProbeVal, histOrdVal
}

// dupDeclFix: the legacy backend reverts a block that lists a class hash twice (7460746).
func dupDeclFix() bool {
	probeVariant()
	dupDeclOnce.Do(func() {
		initOnce()
		g := lib.NewChainGen(lib.NewRNG(1), false, lib.DefaultGenOptions())
		c := hx(&cairo0Fxs[2])
		d, err := decodeDiff("0.13.2", "c0 "+c+" c0 "+c)
		if err != nil {
			probeErr = fmt.Errorf("dupDeclFix probe diff: %w", err)
			return
		}
		if _, err := g.Next(&lib.BlockSpec{Version: d.Version, Diff: d.Diff, Classes: d.Classes, NoTxs: true}); err != nil {
			probeErr = fmt.Errorf("dupDeclFix probe block: %w", err)
			return
		}
		err = g.Revert()
		if err != nil && !strings.Contains(err.Error(), "remove declared classes: get class") {
			probeErr = fmt.Errorf("dupDeclFix probe: unexpected revert error: %w", err)
			return
		}
		dupDeclVal = err == nil
	})
	return dupDeclVal
}

var (
	dupDeclOnce sync.Once
	dupDeclVal  bool
)

// migValFix: the tree stores the hash a CASM migration carries (probeVariant must have run).
func migValFix() bool { probeVariant(); return migValVal }
