//go:build verif

package main

import (
	"errors"
	"fmt"
	"os"
	"strings"
	"sync"
	"time"

	"github.com/NethermindEth/juno/blockchain"
	"github.com/NethermindEth/juno/core"
	"github.com/NethermindEth/juno/core/felt"
	"github.com/NethermindEth/juno/db"
	"github.com/NethermindEth/juno/db/memory"
	"github.com/NethermindEth/juno/db/pebblev2"
	"verif/harness/lib"
)

// Config says which nodes take part in a history.
type Config struct {
	Name       string `json:"name"`
	SrcNew     bool   `json:"src_new_state"` // backend of the source node (Finalise path); it is queried too
	Dst        []bool `json:"dst_new_state"` // backends of the destination nodes (Store path)
	Pebble     bool   `json:"pebble"`        // destinations on pebblev2 instead of the memory DB
	AllowDrain bool   `json:"allow_drain"`   // blocks may empty the storage of a system contract
	Reopen     bool   `json:"reopen"`        // re-open every destination Blockchain on its DB before each check
}

func kindName(newState bool) string {
	if newState {
		return "new"
	}
	return "legacy"
}

type node struct {
	name  string // "src" | "dst0" ...
	kind  string // "legacy" | "new"
	newSt bool
	bc    *blockchain.Blockchain
	store db.KeyValueStore
	fault *faultDB // destinations only
	dir   string
}

// Failure is a property violation (oracle on the real code) or a model/implementation mismatch.
type Failure struct {
	Violation bool
	Sig       string
	What      string
	Query     map[string]any
}

// Engine executes one history on the real nodes (and feeds the same history to the Lean driver).
type Engine struct {
	cfg      Config
	g        *lib.ChainGen
	nodes    []*node
	drv      *lib.Driver
	res      *lib.Result // nil in shrink mode
	steps    []Step
	descs    []*Desc
	reverted []felt.Felt // hashes of reverted blocks (most recent last)
	drained  map[felt.Felt]bool
	stale    map[felt.Felt]map[felt.Felt]felt.Felt // shadow of stale trie2 leaves, see stale.go
	emptied  bool                                  // some block left a system contract with a diff entry and an empty storage
	fails    []Failure
	seen     map[string]bool
	u        *Universe
	verIdx   int
	lastRev  *Desc
	broken   string // set when the history cannot continue (a store or revert failed)
	scratch  string
	stats    map[string]int
	onCheck  func()
	full     bool // read every view completely (replay / shrinking)
	held     map[string][]*heldReader
	lastOp   string
	prevOK   map[uint64]bool // reads that were made and right at the previous check
}

// opDeadline bounds one Store / RevertHead (hang detection). Generous: up to 14 histories and as many
// driver processes share the machine, a slow box must not look like a hang.
const opDeadline = 20 * time.Minute

var versions = []string{"0.13.2", "0.13.4", "0.14.0", "0.14.1"}

func NewEngine(cfg Config, r *lib.RNG, driverPath, scratch string, res *lib.Result) (*Engine, error) {
	opt := lib.DefaultGenOptions()
	opt.NoClasses = true // declarations are generated here (own fixtures, rebuilt from the hash on replay)
	g := lib.NewChainGen(r, cfg.SrcNew, opt)
	e := &Engine{cfg: cfg, g: g, res: res, drained: map[felt.Felt]bool{}, stale: map[felt.Felt]map[felt.Felt]felt.Felt{}, seen: map[string]bool{},
		scratch: scratch, stats: map[string]int{}, held: map[string][]*heldReader{}}
	e.u = newUniverse(g)
	e.nodes = append(e.nodes, &node{name: "src", kind: kindName(cfg.SrcNew), newSt: cfg.SrcNew, bc: g.Src, store: g.SrcDB})
	for i, ns := range cfg.Dst {
		n := &node{name: fmt.Sprintf("dst%d", i), kind: kindName(ns), newSt: ns}
		if cfg.Pebble {
			dir, err := os.MkdirTemp(scratch, "pebble-*")
			if err != nil {
				return nil, err
			}
			st, err := pebblev2.New(dir)
			if err != nil {
				return nil, err
			}
			n.dir, n.fault = dir, newFaultDB(st)
		} else {
			n.fault = newFaultDB(memory.New())
		}
		n.store = n.fault
		n.bc = lib.NodeOn(n.store, g.Net, ns)
		e.nodes = append(e.nodes, n)
	}
	if driverPath != "" {
		drv, err := lib.StartDriver(driverPath)
		if err != nil {
			return nil, err
		}
		e.drv = drv
		if err := e.sendUniverse(); err != nil {
			return nil, err
		}
		lf, sp, ho := probeVariant()
		for _, c := range []struct {
			name string
			on   bool
		}{{"leaffix", lf}, {"sysprobefix", sp}, {"historderfix", ho}} {
			flag := "0"
			if c.on {
				flag = "1"
			}
			if ans, err := drv.Ask("cfg " + c.name + " " + flag); err != nil || ans != "ok" {
				return nil, fmt.Errorf("driver cfg: %q %v", ans, err)
			}
		}
	}
	return e, nil
}

func (e *Engine) Close() {
	if e.drv != nil {
		e.drv.Close()
	}
	for _, n := range e.nodes {
		if n.dir != "" {
			_ = n.store.Close()
			_ = os.RemoveAll(n.dir)
		}
	}
}

func (e *Engine) hit(name string) {
	if e.res != nil {
		e.res.Hit(name)
	}
}

func (e *Engine) fail(f Failure) {
	key := fmt.Sprint(f.Violation, f.Sig)
	if e.seen[key] {
		return
	}
	e.seen[key] = true
	e.fails = append(e.fails, f)
}

func (e *Engine) Height() int { return e.g.Height() }

// fatal reports a failure of the harness machinery (never green, CONVENTIONS §8).
func (e *Engine) fatal(format string, a ...any) {
	msg := fmt.Sprintf(format, a...)
	if e.res != nil {
		e.res.Fatalf("scenario %s: %s", e.cfg.Name, msg)
		return
	}
	e.fail(Failure{Sig: "harness-fatal", What: msg})
}

func (e *Engine) ask(line string) (string, bool) {
	if e.drv == nil {
		return "", false
	}
	ans, err := e.drv.Ask(line)
	if err != nil {
		e.broken = "driver: " + err.Error()
		e.drv = nil
		e.fatal("Lean driver died: %v", err)
		return "", false
	}
	return ans, true
}

func (e *Engine) sendUniverse() error {
	for _, l := range e.u.driverLines() {
		ans, err := e.drv.Ask(l)
		if err != nil {
			return err
		}
		if ans != "ok" {
			return fmt.Errorf("driver answered %q to %q", ans, l)
		}
	}
	return nil
}

// drains reports the system contracts whose storage this diff leaves empty although the diff
// has an entry for them (drained = it was non-empty before; the two backends compute different
// state roots for such blocks, and the new backend deletes the contract record).
func drains(prev *lib.AbsState, d *core.StateDiff) (emptied, drained []felt.Felt) {
	for _, a := range []felt.Felt{*lib.F(1), *lib.F(2)} {
		inner, ok := d.StorageDiffs[a]
		if !ok {
			continue
		}
		after := map[felt.Felt]bool{}
		before := 0
		if c, ok := prev.Contracts[a]; ok {
			for k := range c.Storage {
				after[k] = true
				before++
			}
		}
		for k, v := range inner {
			if v.IsZero() {
				delete(after, k)
			} else {
				after[k] = true
			}
		}
		if len(after) == 0 {
			emptied = append(emptied, a)
			if before > 0 {
				drained = append(drained, a)
			}
		}
	}
	return emptied, drained
}

// Store appends a block with the given diff to the chain of every node.
func (e *Engine) Store(d *Desc) {
	if e.broken != "" {
		return
	}
	prev := e.g.HeadState()
	em, dr := drains(prev, d.Diff)
	e.steps = append(e.steps, Step{Op: "store", Version: d.Version, Diff: encodeDesc(d)})
	e.lastOp = "store"
	c := d.clone()
	b, err := e.g.Next(&lib.BlockSpec{Version: c.Version, Diff: c.Diff, Classes: c.Classes, NoTxs: true})
	if err != nil {
		// the source node is juno too: a block it cannot build ends the history
		e.broken = "source: " + err.Error()
		e.fail(Failure{Violation: true, Sig: "finalise-of-wellformed-block-failed-" + kindName(e.cfg.SrcNew),
			What: err.Error(), Query: map[string]any{"step": len(e.steps) - 1}})
		return
	}
	if len(em) > 0 {
		e.emptied = true
	}
	for _, a := range dr {
		e.drained[a] = true
		e.hit("block:drains-system-contract")
	}
	e.descs = append(e.descs, d)
	e.shadowStore(prev, d.Diff)
	for _, n := range e.nodes[1:] {
		var serr error
		done := lib.WithDeadline(opDeadline, func() {
			var pan bool
			var stack string
			serr, pan, stack = lib.Try(func() error { return lib.StoreOn(n.bc, b) })
			if pan {
				serr = fmt.Errorf("%v\n%s", serr, stack)
			}
		})
		if !done {
			serr = fmt.Errorf("Store did not return within %s", opDeadline)
		}
		if serr != nil {
			e.broken = n.name + " store: " + serr.Error()
			e.fail(Failure{Violation: true, Sig: "store-of-valid-block-failed-" + n.kind,
				What:  fmt.Sprintf("%s (%s) rejected block %d built by the %s source: %v", n.name, n.kind, b.Block.Number, kindName(e.cfg.SrcNew), firstLine(serr.Error())),
				Query: map[string]any{"step": len(e.steps) - 1, "node": n.name}})
			return
		}
	}
	p := "p1"
	if isV2(d.Version) {
		p = "p2"
	}
	if ans, ok := e.ask("store " + hx(b.Block.Hash) + " " + p + " " + e.steps[len(e.steps)-1].Diff); ok {
		if strings.HasSuffix(ans, " not-wf") {
			// the diff is outside the hypothesis of the theorems (Diff.WF); still compared
			ans = strings.TrimSuffix(ans, " not-wf")
			e.hit("block:diff-outside-theorem-hypothesis(not-wf)")
		} else {
			e.hit("block:diff-meets-theorem-hypothesis(wf)")
		}
		if ans != "new=ok legacy=ok" {
			e.fail(Failure{Sig: "model-store-result", What: "model: " + ans + ", implementation: ok", Query: map[string]any{"step": len(e.steps) - 1}})
		}
	}
}

func firstLine(s string) string {
	if i := strings.IndexByte(s, '\n'); i >= 0 {
		return s[:i]
	}
	return s
}

// Revert removes the head block on every node.
func (e *Engine) Revert() {
	if e.broken != "" || e.g.Height() == 0 {
		return
	}
	e.steps = append(e.steps, Step{Op: "revert"})
	e.lastOp = "revert"
	head := e.g.Head()
	for i, n := range e.nodes {
		var rerr error
		done := lib.WithDeadline(opDeadline, func() {
			var pan bool
			var stack string
			rerr, pan, stack = lib.Try(func() error {
				if i == 0 {
					return e.g.Revert()
				}
				return n.bc.RevertHead()
			})
			if pan {
				rerr = fmt.Errorf("%v\n%s", rerr, stack)
			}
		})
		if !done {
			rerr = fmt.Errorf("RevertHead did not return within %s", opDeadline)
		}
		if rerr != nil && e.emptied && n.kind == "legacy" && strings.Contains(rerr.Error(), "does not match the expected root: 0x") {
			// not a read problem and not reported here: after a block that left a system contract
			// with an empty storage, the legacy backend cannot revert any more (purgesystemContracts
			// removes the contract and the root check fails) -- C04's subject
			e.broken = n.name + " revert: " + rerr.Error()
			e.hit("stop:legacy-revert-fails-after-system-contract-emptied(C04)")
			return
		}
		if rerr != nil {
			e.broken = n.name + " revert: " + rerr.Error()
			e.fail(Failure{Violation: true, Sig: "revert-head-failed-" + n.kind,
				What:  fmt.Sprintf("%s (%s) RevertHead of block %d: %v", n.name, n.kind, head.Block.Number, firstLine(rerr.Error())),
				Query: map[string]any{"step": len(e.steps) - 1, "node": n.name}})
			return
		}
	}
	e.shadowRevert(head.SU.StateDiff)
	e.reverted = append(e.reverted, *head.Block.Hash)
	e.lastRev = e.descs[len(e.descs)-1]
	e.descs = e.descs[:len(e.descs)-1]
	if ans, ok := e.ask("revert"); ok {
		if ans != "new=ok legacy=ok" {
			e.fail(Failure{Sig: "model-revert-result", What: "model: " + ans + ", implementation: ok", Query: map[string]any{"step": len(e.steps) - 1}})
		}
	}
}

// Apply executes one recorded step.
func (e *Engine) Apply(s Step) error {
	switch s.Op {
	case "store":
		d, err := decodeDiff(s.Version, s.Diff)
		if err != nil {
			return err
		}
		e.Store(d)
	case "revert":
		if e.g.Height() == 0 {
			return errors.New("revert on an empty chain")
		}
		e.Revert()
	case "revert-dropped":
		e.Discard(s.Op, nil)
	case "simulate", "store-dropped", "store-late-fail", "store-wrong-root":
		d, err := decodeDiff(s.Version, s.Diff)
		if err != nil {
			return err
		}
		e.Discard(s.Op, d)
	default:
		return fmt.Errorf("unknown op %q", s.Op)
	}
	return nil
}

func (e *Engine) reopen() {
	if !e.cfg.Reopen {
		return
	}
	for _, n := range e.nodes[1:] {
		n.bc = lib.NodeOn(n.store, e.g.Net, n.newSt)
	}
}

var (
	probeOnce   sync.Once
	leafFixVal  bool
	sysProbeVal bool
	histOrdVal  bool
	probeErr    error // a probe that could not run: Fatal in main
)

// probeVariant probes the real code once: which variant of the new backend is in the tree (the Lean
// model has both, see Cfg in Model.lean). Witnesses: (leafFix) delete a slot whose sibling slot
// (k xor 1) is set and read it at the head; (sysProbeFix) empty the storage of a system contract
// and read the earlier block.
func probeVariant() (leafFix, sysProbeFix, histOrderFix bool) {
	probeOnce.Do(func() {
		run := func(lines []string) *lib.ChainGen {
			g := lib.NewChainGen(lib.NewRNG(1), true, lib.DefaultGenOptions())
			for _, line := range lines {
				d, err := decodeDiff("0.13.2", line)
				if err != nil {
					probeErr = fmt.Errorf("probe diff %q: %w", line, err)
					return nil
				}
				if _, err := g.Next(&lib.BlockSpec{Version: d.Version, Diff: d.Diff, Classes: d.Classes, NoTxs: true}); err != nil {
					probeErr = fmt.Errorf("probe block %q: %w", line, err)
					return nil
				}
			}
			return g
		}
		if g := run([]string{"sa 104 sk 2 1 d 104 c000", "sa 104 sk 3 4", "sa 104 sk 3 0"}); g != nil {
			r, _, err := g.Src.HeadState()
			if err != nil {
				probeErr = fmt.Errorf("leafFix probe: %w", err)
				return
			}
			v, err := r.ContractStorage(lib.F(0x104), lib.F(3))
			if err != nil {
				probeErr = fmt.Errorf("leafFix probe: %w", err)
				return
			}
			leafFixVal = v.IsZero()
		}
		if g := run([]string{"sa 1 sk 2 5", "sa 1 sk 2 0"}); g != nil {
			r, _, err := g.Src.StateAtBlockNumber(0)
			if err != nil {
				probeErr = fmt.Errorf("sysProbeFix probe: %w", err)
				return
			}
			// as found this read answers key-not-found (the defect), repaired it answers 5
			v, err := r.ContractStorage(lib.F(1), lib.F(2))
			sysProbeVal = err == nil && v.Equal(lib.F(5))
		}
		if g := run([]string{"d 104 c000", "d 106 c000 r 106 c003"}); g != nil {
			r, _, err := g.Src.StateAtBlockNumber(1)
			if err != nil {
				probeErr = fmt.Errorf("histOrderFix probe: %w", err)
				return
			}
			v, err := r.ContractClassHash(lib.F(0x106))
			if err != nil {
				probeErr = fmt.Errorf("histOrderFix probe: %w", err)
				return
			}
			histOrdVal = v.Equal(lib.F(0xc003))
		}
	})
	return leafFixVal, sysProbeVal, histOrdVal
}
