//go:build verif

package main

import (
	"errors"
	"fmt"
	"strings"

	"github.com/NethermindEth/juno/core"
	"github.com/NethermindEth/juno/core/felt"
	"verif/harness/lib"
)

// DISCARDED operations: operations whose effect juno throws away. After each of them every view of
// every node must still be the abstract state of the ACCEPTED chain.
//
//	simulate            Blockchain.Simulate of a valid next block on every node (batch never written)
//	store-dropped       Store of a valid next block whose commit is lost (faultDB drops the batch)
//	store-late-fail     Store of a block that passes State.Update (+ flush) and then fails in
//	                    writeBlockContent: a CASM migration of a class without metadata
//	store-wrong-root    Store of a valid next block with a wrong NewRoot (fails in / before Update)
//	revert-dropped      RevertHead whose commit is lost
//	store-invalid       Store of a block a guard of Update / of the CASM metadata rejects (contract
//	                    already deployed, class / nonce / storage of a contract that does not exist,
//	                    migration of a class that cannot be migrated); which guard fires is compared
//	                    with the model's error branch
//	(revert-refused     a RevertHead that failed on its own, see Engine.Revert)
//
// For every discarded operation the model is asked for the outcome (`try-store`, `try-revert`): ok
// where juno's guards pass, the same guard where one fires.
//
// The candidate block is built WITHOUT touching the source chain: header as ChainGen does, roots and
// hash from Simulate on the source node (itself a discarded operation there).

var discardedOps = []string{"simulate", "store-dropped", "store-late-fail", "store-wrong-root", "revert-dropped"}

func isDiscarded(op string) bool {
	if op == "store-invalid" || op == "revert-refused" {
		return true
	}
	for _, o := range discardedOps {
		if o == op {
			return true
		}
	}
	return false
}

// candidate builds the next block for diff d: hash, roots and commitments from Simulate on the source.
func (e *Engine) candidate(d *Desc) (*lib.Bundle, *core.BlockCommitments, error) {
	g := e.g
	num := uint64(g.Height())
	parent, oldRoot, ts := &felt.Zero, &felt.Zero, uint64(1_700_000_000)
	if h := g.Head(); h != nil {
		parent, oldRoot, ts = h.Block.Hash, h.Block.GlobalStateRoot, h.Block.Timestamp+7
	}
	c := d.clone()
	hdr := &core.Header{
		ParentHash: parent, Number: num, SequencerAddress: lib.F(0x5e9), Timestamp: ts, ProtocolVersion: c.Version,
		EventsBloom: core.EventsBloom(nil), L1GasPriceETH: lib.F(3), L1GasPriceSTRK: lib.F(4), L1DAMode: core.Blob,
		L1DataGasPrice: &core.GasPrice{PriceInWei: lib.F(5), PriceInFri: lib.F(6)},
		L2GasPrice:     &core.GasPrice{PriceInWei: lib.F(7), PriceInFri: lib.F(8)},
		Signatures:     [][]*felt.Felt{},
	}
	b := &lib.Bundle{
		Block:   &core.Block{Header: hdr, Transactions: []core.Transaction{}, Receipts: []*core.TransactionReceipt{}},
		SU:      &core.StateUpdate{OldRoot: oldRoot, StateDiff: c.Diff},
		Classes: c.Classes,
	}
	var commitments *core.BlockCommitments
	err, pan, _ := lib.Try(func() error {
		res, err := g.Src.Simulate(b.Block, b.SU, b.Classes, nil)
		commitments = res.BlockCommitments
		return err
	})
	if pan || err != nil {
		// not simulable: hand the block back with roots that cannot be right (a guard must fire
		// before they are looked at)
		b.SU.NewRoot, b.Block.GlobalStateRoot, b.Block.Hash = lib.F(0xBAD), lib.F(0xBAD), lib.F(0xB10C0000+num)
		return b, &core.BlockCommitments{TransactionCommitment: &felt.Zero, EventCommitment: &felt.Zero,
			ReceiptCommitment: &felt.Zero, StateDiffCommitment: &felt.Zero}, fmt.Errorf("source Simulate: %v", err)
	}
	return b, commitments, nil
}

// compareOutcome: the model's prediction for a discarded store / revert against what the nodes did.
// real: per backend kind "ok" | "err:<guard>" | "root" (all guards passed, commitment check failed).
func (e *Engine) compareOutcome(op string, mdl, real map[string]string) {
	if mdl == nil {
		return
	}
	for kind, r := range real {
		m := mdl[kind]
		same := m == r || (m == "ok" && r == "root")
		if e.res != nil {
			e.res.Compared(1)
		}
		if same {
			e.hit("outcome:" + op + ":" + kind + ":" + r)
			continue
		}
		e.fail(Failure{Sig: "model-outcome-" + op + "-" + kind, What: fmt.Sprintf("%s on the %s backend: model %s, implementation %s", op, kind, m, r),
			Query: map[string]any{"step": len(e.steps) - 1, "backend": kind, "model": m, "impl": r}})
	}
}

// Discard performs one discarded operation on every node that supports it. d is the diff of the
// block involved (nil for revert-dropped).
func (e *Engine) Discard(op string, d *Desc) {
	if e.broken != "" {
		return
	}
	st := Step{Op: op}
	if d != nil {
		st.Version, st.Diff = d.Version, encodeDesc(d)
	}
	e.steps = append(e.steps, st)
	e.lastOp = op
	e.hit("op:discarded:" + op)
	unexpected := func(n *node, what string) {
		// the operation did not end the way this harness arranged (not a statement about reads)
		e.fail(Failure{Sig: "discarded-op-" + op + "-ended-unexpectedly-" + n.kind, What: n.name + ": " + what})
	}
	real := map[string]string{}
	if op == "revert-dropped" {
		if e.g.Height() == 0 {
			return
		}
		mdl := e.modelTry("try-revert")
		for _, n := range e.nodes[1:] {
			n.fault.drop = 1
			err, pan, _ := lib.Try(func() error { return n.bc.RevertHead() })
			n.fault.drop = 0
			if pan {
				e.fail(Failure{Violation: true, Sig: n.kind + "-reverthead-panics-when-commit-fails", What: fmt.Sprint(err)})
			} else if !errors.Is(err, errDropped) {
				// RevertHead refused before reaching the commit: fine if that is what the real revert of
				// this head does too (a known cause, reported when the history really reverts it)
				c := errClass(err)
				head := e.g.Head()
				prev := lib.NewAbsState()
				if h := e.g.Height(); h >= 2 {
					prev = e.g.States[h-2]
				}
				switch {
				case c == "err:class-missing" && n.kind == "legacy" && listedTwice(head.SU.StateDiff):
					real[n.kind] = c
					e.hit("op:discarded:revert-dropped:refused-before-the-commit")
				case c == "root" && (declaresRegisteredSierra(prev, head.SU.StateDiff) || (e.emptied && n.kind == "legacy")):
					e.hit("op:discarded:revert-dropped:refused-before-the-commit")
				default:
					unexpected(n, fmt.Sprintf("RevertHead with a dropped commit returned %v", err))
					real[n.kind] = c
				}
			} else {
				real[n.kind] = "ok" // everything but the commit happened
			}
		}
		e.compareOutcome(op, mdl, real)
		return
	}
	b, commitments, err := e.candidate(d)
	p := "p1"
	if isV2(d.Version) {
		p = "p2"
	}
	mdl := e.modelTry("try-store " + hx(b.Block.Hash) + " " + p + " " + st.Diff)
	defer func() { e.compareOutcome(op, mdl, real) }()
	if err != nil && op == "store-invalid" {
		e.hit("op:discarded:store-invalid:rejected-by-the-source-simulate")
		err = nil
	}
	if err != nil {
		if op == "store-late-fail" {
			// the source may refuse to simulate it; nothing to offer then
			e.hit("op:discarded:store-late-fail:not-simulable")
			return
		}
		e.fail(Failure{Violation: true, Sig: "simulate-of-wellformed-block-failed-" + kindName(e.cfg.SrcNew), What: err.Error()})
		return
	}
	for _, n := range e.nodes[1:] {
		c := b.Clone()
		var err error
		var pan bool
		switch op {
		case "simulate":
			err, pan, _ = lib.Try(func() error { _, err := n.bc.Simulate(c.Block, c.SU, c.Classes, nil); return err })
			if err != nil && !pan {
				e.fail(Failure{Violation: true, Sig: "simulate-of-wellformed-block-failed-" + n.kind, What: n.name + ": " + firstLine(err.Error())})
			}
			if !pan {
				// Simulate runs State.Update only; the CASM metadata step is not part of it
				if r := errClass(err); r == "ok" || (mdl != nil && !strings.Contains(mdl[n.kind], "meta") && !strings.Contains(mdl[n.kind], "migrate")) {
					real[n.kind] = r
				}
			}
		case "store-dropped":
			n.fault.drop = 1
			err, pan, _ = lib.Try(func() error { return n.bc.Store(c.Block, commitments, c.SU, c.Classes) })
			n.fault.drop = 0
			if !pan && !errors.Is(err, errDropped) {
				unexpected(n, fmt.Sprintf("Store with a dropped commit returned %v", err))
				real[n.kind] = errClass(err)
			} else if !pan {
				real[n.kind] = "ok"
			}
		case "store-late-fail", "store-invalid":
			err, pan, _ = lib.Try(func() error { return n.bc.Store(c.Block, commitments, c.SU, c.Classes) })
			if !pan && err == nil {
				unexpected(n, "the block meant to be rejected was stored")
				e.broken = op + " block stored"
			} else if !pan && op == "store-late-fail" && !strings.Contains(err.Error(), "migrate") {
				e.hit("op:discarded:store-late-fail:failed-elsewhere")
			}
			if !pan {
				real[n.kind] = errClass(err)
				if real[n.kind] == "other" {
					real[n.kind] = "other: " + firstLine(err.Error())
				}
			}
		case "store-wrong-root":
			c.SU.NewRoot = lib.F(0xBAD)
			c.Block.GlobalStateRoot = lib.F(0xBAD)
			err, pan, _ = lib.Try(func() error { return n.bc.Store(c.Block, commitments, c.SU, c.Classes) })
			if !pan && err == nil {
				e.fail(Failure{Violation: true, Sig: "store-accepts-wrong-new-root-" + n.kind, What: n.name + " stored a block whose NewRoot is wrong"})
				e.broken = "wrong-root block stored"
			}
		}
		if pan {
			e.fail(Failure{Violation: true, Sig: n.kind + "-" + op + "-panics", What: fmt.Sprint(err)})
		}
	}
}

// invalidDesc: a diff one of juno's guards must reject on top of the current chain (nil if the
// chain offers nothing to violate).
func (e *Engine) invalidDesc() *Desc {
	r := e.g.R
	prev := e.g.HeadState()
	var deployed, absent []felt.Felt
	for _, a := range e.u.Addrs {
		if isSystem(&a) {
			continue
		}
		if prev.Deployed[a] {
			deployed = append(deployed, a)
		} else {
			absent = append(absent, a)
		}
	}
	d := emptyDiff()
	version := versions[e.verIdx]
	for try := 0; try < 8; try++ {
		switch r.Intn(6) {
		case 0:
			if len(deployed) > 0 {
				a := deployed[r.Intn(len(deployed))]
				d.DeployedContracts[a] = lib.F(0xc001)
				return &Desc{Version: version, Diff: d, Classes: map[felt.Felt]core.ClassDefinition{}}
			}
		case 1:
			if len(absent) > 0 {
				d.ReplacedClasses[absent[r.Intn(len(absent))]] = lib.F(0xc002)
				return &Desc{Version: version, Diff: d, Classes: map[felt.Felt]core.ClassDefinition{}}
			}
		case 2:
			if len(absent) > 0 {
				d.Nonces[absent[r.Intn(len(absent))]] = lib.F(3)
				return &Desc{Version: version, Diff: d, Classes: map[felt.Felt]core.ClassDefinition{}}
			}
		case 3:
			if len(absent) > 0 {
				d.StorageDiffs[absent[r.Intn(len(absent))]] = map[felt.Felt]*felt.Felt{*lib.F(2): lib.F(7)}
				return &Desc{Version: version, Diff: d, Classes: map[felt.Felt]core.ClassDefinition{}}
			}
		case 4:
			// migration of a class whose current compiled class hash is already the blake2s one
			// (declared under >= 0.14.1, or migrated before)
			for _, fx := range sierraFxs {
				if cur, ok := prev.Casm[fx.hash]; ok && cur.Equal(&fx.casm2) {
					d.MigratedClasses[felt.SierraClassHash(fx.hash)] = felt.CasmClassHash(fx.casm2)
					return &Desc{Version: "0.14.1", Diff: d, Classes: map[felt.Felt]core.ClassDefinition{}}
				}
			}
		case 5:
			if len(deployed) > 0 && len(absent) > 0 {
				// a valid part and an invalid one: nothing of it may stay
				d.StorageDiffs[deployed[0]] = map[felt.Felt]*felt.Felt{*lib.F(2): lib.F(0), *lib.F(3): lib.F(9)}
				d.Nonces[absent[0]] = lib.F(1)
				return &Desc{Version: version, Diff: d, Classes: map[felt.Felt]core.ClassDefinition{}}
			}
		}
	}
	return nil
}

// lateFailDesc: a diff that State.Update accepts and writeBlockContent rejects — a CASM migration
// (protocol >= 0.14.1) of a Sierra class that has no metadata on this chain.
func (e *Engine) lateFailDesc() *Desc {
	prev := e.g.HeadState()
	for _, fx := range sierraFxs {
		if _, ok := prev.Classes[fx.hash]; ok {
			continue
		}
		d := emptyDiff()
		d.MigratedClasses[felt.SierraClassHash(fx.hash)] = felt.CasmClassHash(fx.casm2)
		return &Desc{Version: "0.14.1", Diff: d, Classes: map[felt.Felt]core.ClassDefinition{}}
	}
	return nil
}

// ---------------------------------------------------------------------------------------------
// Held readers: a reader obtained for block n (by number or by hash) must keep answering for block
// n while that block is on the chain, whatever is stored or reverted above it afterwards. A
// HeadState reader is, on both backends, a LIVE view (no snapshot: the legacy one reads the
// database through a fresh IndexedBatch, the new one reads contract records and leaves from disk):
// a held head reader may answer for the head it was created at or for the current head.
// ---------------------------------------------------------------------------------------------

type heldReader struct {
	node    *node
	label   string // head | num | hash
	n       int
	hash    felt.Felt
	created int // number of steps when it was opened
	reader  core.StateReader
	long    bool // kept until its block is reverted
}

const (
	maxHeld     = 9
	maxLongHeld = 3
)

// hold keeps the readers of the newest block (the ones created "at the head": where a reader
// could wrongly take a head shortcut) and the head reader, FIFO per node.
func (e *Engine) hold(n *node, vs []view) {
	h := e.g.Height()
	for _, v := range vs {
		if v.label != "head" && v.n != h-1 && !(v.n == 0 && len(e.steps)%3 == 0) {
			continue
		}
		e.held[n.name] = append(e.held[n.name], &heldReader{node: n, label: v.label, n: v.n,
			hash: *e.g.Bundles[v.n].Block.Hash, created: len(e.steps), reader: v.reader})
	}
	// FIFO of maxHeld short-lived readers; now and then the one that falls out is kept for the rest
	// of its block's life (long-lived: re-queried after every later operation, maxLongHeld a node)
	var longs, shorts []*heldReader
	for _, hr := range e.held[n.name] {
		if hr.long {
			longs = append(longs, hr)
		} else {
			shorts = append(shorts, hr)
		}
	}
	if k := len(shorts); k > maxHeld {
		for _, hr := range shorts[:k-maxHeld] {
			if len(longs) < maxLongHeld && (len(e.steps)+hr.n)%3 == 0 {
				hr.long = true
				longs = append(longs, hr)
				e.hit("held:kept-long-lived")
			}
		}
		shorts = shorts[k-maxHeld:]
	}
	e.held[n.name] = append(longs, shorts...)
}

// recheckHeld re-queries the readers held from earlier steps.
func (e *Engine) recheckHeld(n *node, qs []query) {
	h := e.g.Height()
	keep := e.held[n.name][:0]
	for _, hr := range e.held[n.name] {
		if hr.created == len(e.steps) {
			keep = append(keep, hr)
			continue
		}
		// is its block still on the chain?
		if hr.n >= h || !e.g.Bundles[hr.n].Block.Hash.Equal(&hr.hash) {
			// its block is gone: what it answers is not specified, but it must not panic
			for _, q := range qs {
				if got := readOne(hr.reader, q); got == "panic" {
					e.fail(Failure{Violation: true, Sig: n.kind + "-held-" + hr.label + "-reader-panics-after-its-block-was-reverted",
						What: fmt.Sprintf("%s backend: a %s reader of block %d, used after the block was reverted, panics on a %s query", n.kind, hr.label, hr.n, q.Kind)})
				}
			}
			e.hit("held:queried-once-after-its-block-was-reverted")
			continue
		}
		keep = append(keep, hr)
		st := e.g.States[hr.n]
		cur := e.g.States[h-1]
		// the model of a reader is its block number: a held reader must answer what the model
		// answers NOW for that view (head readers: live)
		var mt []string
		if e.drv != nil {
			// (a reader, once handed out, is not subject to the retention check any more: no floor)
			line := "dump " + n.kind + " head"
			if hr.label != "head" {
				line = fmt.Sprintf("dump %s num %x", n.kind, hr.n)
			}
			if ans, ok := e.ask(line); ok {
				if t := strings.Fields(ans); len(t) == len(qs) {
					mt = t
				} else {
					e.fatal("driver answer to %q for a held reader: %d tokens, want %d", line, len(t), len(qs))
				}
			}
		}
		for qi, q := range qs {
			if (q.Kind == "lu" || q.Kind == "casm2") && (qi+len(e.steps))%6 != 0 {
				continue // held readers: the two further accessors on a rotating sixth
			}
			got := readOne(hr.reader, q)
			if mt != nil {
				if e.res != nil {
					e.res.Compared(1)
				}
				if mt[qi] != got {
					qj := qjson(q)
					qj["node"], qj["backend"], qj["view"], qj["n"], qj["impl"], qj["model"] = n.name, n.kind, "held-"+hr.label, hr.n, got, mt[qi]
					e.fail(Failure{Sig: "model-" + n.kind + "-held-" + hr.label + "-" + q.Kind,
						What: fmt.Sprintf("held %s reader of block %d: implementation %s, model %s", hr.label, hr.n, got, mt[qi]), Query: qj})
				}
			}
			want := e.expectedOn(n, st, q, hr.label == "head")
			if hr.label == "head" {
				// live view: the head it was created at, or the current head
				want = append(append([]string{}, want...), e.expectedOn(n, cur, q, true)...)
			}
			e.stats["held:read:"+hr.label]++
			if age := len(e.steps) - hr.created; age > 8 {
				e.stats["held:read:older-than-8-operations"]++
			}
			if contains(want, got) {
				continue
			}
			// a wrong answer that a FRESH reader of the same block gives too is not about holding
			// the reader: the fresh views report it under its own cause
			if fresh := e.freshReader(n, hr); fresh != nil && readOne(fresh, q) == got {
				// (fresh by-hash views and the source's by-number views are sampled: report it here,
				// under the Sig a fresh view would give it, so that it cannot get lost)
				e.hit("held:wrong-like-a-fresh-reader(reported-as-fresh)")
				if hr.label == "head" {
					// a live view: it is the CURRENT head that a fresh head reader answers for
					e.reportFresh(n, "head", h-1, q, got, e.expectedOn(n, cur, q, true), cur, nil, -1)
				} else {
					e.reportFresh(n, hr.label, hr.n, q, got, want, st, nil, -1)
				}
				continue
			}
			kind := q.Kind
			if q.Kind != "class" && q.Kind != "casm" && q.Kind != "casm2" && isSystem(q.Addr) {
				kind = "sys" + kind
			}
			qj := qjson(q)
			qj["node"], qj["backend"], qj["view"], qj["n"] = n.name, n.kind, hr.label, hr.n
			qj["got"], qj["want"], qj["opened_after_step"], qj["head_now"] = got, strings.Join(want, "|"), hr.created, h-1
			e.fail(Failure{Violation: true, Sig: n.kind + "-held-" + hr.label + "-reader-" + kind + "-" + classify(want, got),
				What: fmt.Sprintf("%s backend: a %s reader of block %d opened after step %d, re-queried at head %d: %s %v = %s, block %d gives %s",
					n.kind, hr.label, hr.n, hr.created, h-1, q.Kind, qj, got, hr.n, strings.Join(want, "|")),
				Query: qj})
		}
		if e.res != nil {
			e.res.Case(fmt.Sprintf("%s/%d/%s/held-%s/%d@%d", e.cfg.Name, len(e.steps), n.name, hr.label, hr.n, hr.created), hr.n != h-1)
		}
	}
	e.held[n.name] = keep
}

func (e *Engine) freshReader(n *node, hr *heldReader) core.StateReader {
	var r core.StateReader
	err, pan, _ := lib.Try(func() error {
		var err error
		switch hr.label {
		case "head":
			r, _, err = n.bc.HeadState()
		case "num":
			r, _, err = n.bc.StateAtBlockNumber(uint64(hr.n))
		default:
			r, _, err = n.bc.StateAtBlockHash(&hr.hash)
		}
		return err
	})
	if pan || err != nil {
		return nil
	}
	return r
}
