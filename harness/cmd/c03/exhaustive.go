//go:build verif

package main

import "fmt"

// Exhaustive small space (quick tier): block 0 deploys contract 0x104 with slot 2 = 1; then EVERY
// sequence of three operations over the alphabet below (head revert + 10 blocks) that is applicable
// (a revert needs a block, a re-deployment needs the deployment reverted) is run on both backends
// with all views checked after every operation: the boundary cases of both history encodings
// (write / overwrite / delete / rewrite / no-op zero write of a slot and its sibling, nonce, class
// replacement, system contract, declaration) in every order with reverts in every position.
var exhaustAlphabet = []string{
	"",                         // empty block
	"sa 104 sk 2 2",            // overwrite
	"sa 104 sk 2 0",            // delete (or no-op when unset)
	"sa 104 sk 2 1 sk 3 1",     // same-value rewrite + sibling slot
	"sa 104 sk 3 0",            // no-op zero write / delete of the sibling
	"n 104 1",                  // nonce
	"r 104 c001",               // replace class
	"sa 1 sk 2 1 sa 2 sk 0 4",  // system contracts
	"c0 " + "d100",             // declaration
	"d 104 c002 sa 104 sk 2 7", // re-deployment (only after block 0 was reverted)
}

func exhaustiveScenarios() (out []scenario, skipped int) {
	v := "0.13.2"
	first := st(v, "sa 104 sk 2 1 d 104 c000")
	n := len(exhaustAlphabet) + 1 // + revert
	for a := 0; a < n; a++ {
		for b := 0; b < n; b++ {
			for c := 0; c < n; c++ {
				steps := []Step{first}
				height, deployed, ok := 1, true, true
				for _, x := range []int{a, b, c} {
					if x == n-1 { // revert
						if height == 0 {
							ok = false
							break
						}
						height--
						if height == 0 {
							deployed = false
						}
						steps = append(steps, rv)
						continue
					}
					line := exhaustAlphabet[x]
					isDeploy := x == len(exhaustAlphabet)-1
					touches := x >= 1 && x <= 6
					if (isDeploy && deployed) || (touches && !deployed) {
						ok = false
						break
					}
					// a re-deployment after the first block was reverted; a deployment stays
					// when later blocks are reverted only down to height >= 1
					if isDeploy {
						deployed = true
					}
					height++
					steps = append(steps, st(v, line))
				}
				if !ok || (height > 0 && !deployedConsistent(steps)) {
					skipped++
					continue
				}
				i := len(out)
				out = append(out, scenario{cfg: Config{Name: fmt.Sprintf("exhaustive-%d%d%d", a, b, c), SrcNew: i%2 == 1,
					Dst: []bool{false, true}}, steps: steps, exhaustive: true})
			}
		}
	}
	return out, skipped
}

// deployedConsistent replays the steps on a stack to make sure every block that touches the
// contract sits above a block that deploys it (reverts may remove the deploying block).
func deployedConsistent(steps []Step) bool {
	var stack []string
	for _, s := range steps {
		if s.Op == "revert" {
			if len(stack) == 0 {
				return false
			}
			stack = stack[:len(stack)-1]
			continue
		}
		dep := false
		for _, d := range stack {
			if len(d) > 0 && (d[0] == 'd' || containsDeploy(d)) {
				dep = true
			}
		}
		needs := len(s.Diff) > 0 && !containsDeploy(s.Diff) && touches104(s.Diff)
		if needs && !dep {
			return false
		}
		if containsDeploy(s.Diff) && dep {
			return false
		}
		stack = append(stack, s.Diff)
	}
	return true
}

func containsDeploy(d string) bool {
	for i := 0; i+5 <= len(d); i++ {
		if d[i:i+5] == "d 104" && (i == 0 || d[i-1] == ' ') {
			return true
		}
	}
	return false
}

func touches104(d string) bool {
	for i := 0; i+3 <= len(d); i++ {
		if d[i:i+3] == "104" {
			return true
		}
	}
	return false
}
