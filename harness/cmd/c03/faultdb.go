//go:build verif

package main

import (
	"errors"
	"sync"

	"github.com/NethermindEth/juno/db"
)

// faultDB wraps the key/value store of a destination node. Transparent unless armed:
//   - drop: the next commit (Write / Update, i.e. Store, Finalise, RevertHead) runs its callback on
//     a real batch of the inner store and is then DROPPED with an error instead of written — a lost
//     commit. Whatever the code wrote around the batch (directly on the store) stays, which is
//     exactly what must not happen.
//   - hook: called once, just before the i-th read access (Get / Has / NewIterator, on the store
//     or on an IndexedBatch of it) — used to let a Store commit in the middle of ONE query of a held
//     reader, single-threaded and deterministic.
type faultDB struct {
	db.KeyValueStore
	mu      sync.Mutex
	drop    int
	hookAt  int // fire the hook before the hookAt-th access from now (0 = disarmed)
	hook    func()
	failAt  int // the failAt-th read access from now returns errInjected (0 = disarmed)
	failed  bool
	access  int
	counted bool
}

var errInjected = errors.New("verif: injected read error")

var errDropped = errors.New("verif: commit dropped")

func newFaultDB(inner db.KeyValueStore) *faultDB { return &faultDB{KeyValueStore: inner} }

func (f *faultDB) takeDrop() bool {
	f.mu.Lock()
	defer f.mu.Unlock()
	if f.drop > 0 {
		f.drop--
		return true
	}
	return false
}

// touch counts one read access, fires the hook when its turn has come, and says whether this access
// must fail.
func (f *faultDB) touch() bool {
	f.mu.Lock()
	f.access++
	var h func()
	if f.hookAt > 0 {
		f.hookAt--
		if f.hookAt == 0 {
			h, f.hook = f.hook, nil
		}
	}
	fail := false
	if f.failAt > 0 {
		f.failAt--
		if f.failAt == 0 {
			fail, f.failed = true, true
		}
	}
	f.mu.Unlock()
	if h != nil {
		h()
	}
	return fail
}

func (f *faultDB) Write(fn func(db.Batch) error) error {
	if !f.takeDrop() {
		return f.KeyValueStore.Write(fn)
	}
	b := f.KeyValueStore.NewBatch()
	defer b.Close()
	if err := fn(b); err != nil {
		return err
	}
	return errDropped
}

func (f *faultDB) Update(fn func(db.IndexedBatch) error) error {
	if !f.takeDrop() {
		return f.KeyValueStore.Update(fn)
	}
	b := f.KeyValueStore.NewIndexedBatch()
	defer b.Close()
	if err := fn(b); err != nil {
		return err
	}
	return errDropped
}

func (f *faultDB) Has(key []byte) (bool, error) {
	if f.touch() {
		return false, errInjected
	}
	return f.KeyValueStore.Has(key)
}

func (f *faultDB) Get(key []byte, cb func([]byte) error) error {
	if f.touch() {
		return errInjected
	}
	return f.KeyValueStore.Get(key, cb)
}

func (f *faultDB) NewIterator(prefix []byte, ub bool) (db.Iterator, error) {
	if f.touch() {
		return nil, errInjected
	}
	return f.KeyValueStore.NewIterator(prefix, ub)
}

func (f *faultDB) NewIndexedBatch() db.IndexedBatch {
	return &hookBatch{IndexedBatch: f.KeyValueStore.NewIndexedBatch(), f: f}
}

func (f *faultDB) NewIndexedBatchWithSize(n int) db.IndexedBatch {
	return &hookBatch{IndexedBatch: f.KeyValueStore.NewIndexedBatchWithSize(n), f: f}
}

func (f *faultDB) WithListener(l db.EventListener) db.KeyValueStore {
	f.KeyValueStore = f.KeyValueStore.WithListener(l)
	return f
}

type hookBatch struct {
	db.IndexedBatch
	f *faultDB
}

func (h *hookBatch) Has(key []byte) (bool, error) {
	if h.f.touch() {
		return false, errInjected
	}
	return h.IndexedBatch.Has(key)
}

func (h *hookBatch) Get(key []byte, cb func([]byte) error) error {
	if h.f.touch() {
		return errInjected
	}
	return h.IndexedBatch.Get(key, cb)
}

func (h *hookBatch) NewIterator(prefix []byte, ub bool) (db.Iterator, error) {
	if h.f.touch() {
		return nil, errInjected
	}
	return h.IndexedBatch.NewIterator(prefix, ub)
}
