//go:build verif

package main

import (
	"context"
	"fmt"
	"strings"

	"github.com/NethermindEth/juno/jsonrpc"
	"github.com/NethermindEth/juno/utils/log"
)

func main() {
	s := jsonrpc.NewServer(4, log.NewNopZapLogger())
	calls := 0
	err := s.RegisterMethods(
		jsonrpc.Method{Name: "nilres", Handler: func() (any, *jsonrpc.Error) { calls++; return nil, nil }},
		jsonrpc.Method{Name: "echo", Params: []jsonrpc.Parameter{{Name: "a"}, {Name: "b", Optional: true}},
			Handler: func(a any, b *int) (any, *jsonrpc.Error) { calls++; return []any{a, b}, nil }},
	)
	if err != nil {
		panic(err)
	}
	ws := strings.Repeat(" ", 128)
	for _, in := range []string{
		`{"jsonrpc":"2.0","method":"nilres","id":1}`,
		`{"jsonrpc":"2.0","method":"echo","params":[1],"id":null}`,
		`{"jsonrpc":"2.0","method":"nope"}`,
		`{"jsonrpc":"2.0","method":"echo"}`,
		`{"jsonrpc":"2.0","method":"nope","id":null}`,
		`42`, `"x"`, `null`, `{}`, ``, `   `,
		`{"jsonrpc":"2.0","method":"echo","params":[1],"id":1} trailing`,
		`{"jsonrpc":"2.0","method":"echo","params":[1],"id":1.5}`,
		`{"jsonrpc":"2.0","method":"echo","params":[1],"id":1e2}`,
		`{"JSONRPC":"2.0","Method":"echo","PARAMS":[1],"ID":7}`,
		`{"jſonrpc":"2.0","method":"echo","params":[1],"id":7}`,
		`{"jsonrpc":"2.0","method":"echo","method":null,"params":[1],"id":7,"id":null}`,
		`{"jsonrpc":"2.0","method":"echo","params":{"a":1,"a":2,"c":1,"d":2},"id":7}`,
		ws[:127] + `[{"jsonrpc":"2.0","method":"echo","params":[1],"id":1}]`,
		ws + `[{"jsonrpc":"2.0","method":"echo","params":[1],"id":1}]`,
		ws + `{"jsonrpc":"2.0","method":"echo","params":[1],"id":1}`,
		`[{"jsonrpc":"2.0","method":"echo","params":[1],"id":1},{"jsonrpc":2},3,{"jsonrpc":"2.0","method":"echo","params":[1]}]`,
		`[`, `[]`, `[1`, `[] x`,
		`{"jsonrpc":"2.0","method":"echo","params":[{"z":1,"a":[1.0,2e1,"é"]}, 12345678901234567890],"id":"abc\u0000"}`,
	} {
		before := calls
		out, _, err := s.HandleReader(context.Background(), strings.NewReader(in))
		fmt.Printf("IN  %.90q\nOUT %s err=%v calls=%d\n", in, out, err, calls-before)
	}
}
