//go:build verif

// Harness for C11: drives the real jsonrpc.Server (recording handlers of every signature shape,
// random method tables) and the Lean model on the same inputs, and judges the real output with an
// independent JSON-RPC 2.0 oracle.
package main

import (
	"context"
	"encoding/hex"
	"encoding/json"
	"fmt"
	"io"
	"os"
	"runtime/debug"
	"strings"
	"time"

	"verif/harness/lib"
)

type replayT struct {
	World    WorldSpec `json:"world"`
	InputHex string    `json:"input_hex"`
	Input    string    `json:"input_text"`
	Via      string    `json:"via,omitempty"` // "", "http", "ws"
}

// modelCfg: which of the two admissible behaviours (unchanged / repaired) the real server shows,
// found by three probes; the Lean model is switched accordingly (the model follows the code).
type modelCfg struct {
	peek        string // "128" or "-"
	nullNil     int
	silentNot   int
	internalErr int // a failing handler is answered -32603
	legalID     int // an Invalid Request answer echoes only string / number ids
	nullRule    int // null argument = "not given" (4d3f28e)
	nullID      int // a request with "id": null is answered (proposed-fixes/C11-null-id-is-a-request.diff); not part of String()
}

func (c modelCfg) String() string {
	return fmt.Sprintf("%s %d %d %d %d %d", c.peek, c.nullNil, c.silentNot, c.internalErr, c.legalID, c.nullRule)
}

// handleReal: like handle, for a server whose handlers are juno's own (nothing is recorded)
func (w *World) handleReal(input []byte) Obs { return w.handle(input) }

func (w *World) handle(input []byte) Obs {
	return w.handleWith(context.Background(), strings.NewReader(string(input)))
}

// handleWith: HandleReader on an arbitrary reader (segmented reads) under an arbitrary context (deadlines)
func (w *World) handleWith(ctx context.Context, rd io.Reader) Obs {
	w.reset()
	var o Obs
	done := lib.WithDeadline(20*time.Second, func() {
		err, panicked, stack := lib.Try(func() error {
			out, _, err := w.Server.HandleReader(ctx, rd)
			o.Out = out
			return err
		})
		if panicked {
			o.Panicked, o.PanicMsg = true, err.Error()+"\n"+firstLines(stack, 12)
		} else {
			o.Err = err
		}
	})
	if !done {
		return Obs{Hung: true}
	}
	o.Calls, o.RecErrs = w.taken()
	return o
}

// familyFloors: a family that silently lost (most of) its work is a failure of the harness
func (rn *runner) familyFloors() {
	floors := map[string]int{"transport:http": 300, "transport:ws": 300, "transport:ws-session": 80, "transport:http-faulty": 10,
		"transport:ws-faulty": 3, "segmented:HandleReader": 1500, "segmented:http-chunked": 15, "segmented:ws-fragments": 25,
		"deadline:HandleReader": 8, "deadline:http": 4, "deadline:ws": 4, "real-table:v0_8:inputs": 100, "real-table:v0_9:inputs": 100,
		"real-table:v0_10:inputs": 100, "validator:values": 1000, "f64:%f": 1000, "f64:%e": 1000, "pretty:caret": 3000,
		"oracle:entry:call": 20000, "oracle:entry:notification": 5000, "oracle:bind:ok": 10000, "shadow:requests": 3000,
		"concurrent:requests": 150, "output:has result": 2000,
		// round 4
		"ptext:context-rows-3": 1000, "ptext:context-row-cut": 300, "ptext:line-cut-both-sides": 400, "ptext:line-cut-left": 1000,
		"ptext:line-cut-right": 200, "ptext:no-caret": 10, "ptext:%q-of-non-ascii-rune": 400, "ptext:msg:unexpected trailing comma": 40,
		"ptext:err-other": 10, "gate:op:a:queued": 100, "gate:op:a:busy": 50, "gate:op:x:ctxErr": 40, "gate:op:r:admitted": 20,
		"gate:http:busy:post": 3, "gate:http:deadline:post": 2, "gate:http:client-gone": 2, "gate:http:admitted:post": 6,
		"conn:request": 10, "conn:notification": 10, "conn:request-response-cannot-be-written": 10, "conn:ws-push": 8,
		"ws-limit:c:0": 1, "ws-limit:c:1": 5, "ws-limit:u:1": 5, "register:ok": 100, "register:err:paramCount": 1000,
		"register:err:returnCount": 500, "register:err:secondNotError": 40, "register:err:thirdNotError": 100,
		"register:err:secondNotHeader": 50, "register:err:notFunc": 2, "register:list": 200,
		// round 5
		"concurrent-actors:HandleReader": 50, "concurrent-actors:http-gzip": 100, "concurrent-actors:http": 50, "concurrent-actors:ws": 100, "concurrent-actors:slow-reader": 100, "ws-params:frame-within-limit": 2, "ws-params:frame-over-limit": 2, "ws-params:shutdown": 1,
		"events:inputs": 500, "events:OnRequestFailed": 30, "events:OnRequestHandled": 300, "events:header-returned": 80,
		"events:header-merged-from-several-entries": 10, "events:http:POST": 150, "events:http:gzip-body": 40,
		"events:http:content-length-set": 40, "events:http:content-type-overridden-by-handler": 2,
		"log:trace-inputs": 500, "log:line:Received request": 400, "log:line:Failed handing RPC request": 20,
		// round 6
		"gate-seq:request": 20, "gate-seq:notification": 12, "gate-seq:notification-batch": 12, "gate-seq:notification-unknown-method": 12,
		"gate-seq:handler-panics": 12, "gate-seq:expired-deadline": 12,
		"ws-loop:request": 60, "ws-loop:notification": 60, "ws-loop:batch": 60, "ws-loop:syntax-error": 60, "ws-loop:mode-1": 80,
		"ws-loop:mode-2": 80, "ws-loop:trailer>=32K": 50,
		"tx-rules:invoke": 40, "tx-rules:declare": 40, "tx-rules:deployAccount": 40, "tx-rules:unknown": 40, "tx-rules:accepted": 20, "tx-rules:refused": 150,
		"nested:invalid-at-depth-2": 50, "nested:invalid-at-depth-3": 45, "nested:ok": 35, "nested:refused": 100,
		"gate-race:release-then-cancel": 1000, "gate-race:cancel-then-release": 1000, "gate-race:concurrently": 1000}
	counts := rn.res.Distribution
	for k, min := range floors {
		if counts[k] < min {
			rn.res.Fatalf("family %q ran %d times, fewer than its floor %d", k, counts[k], min)
		}
	}
}

func flushStats(res *lib.Result) {
	statMu.Lock()
	defer statMu.Unlock()
	for k, v := range stats {
		res.HitN(k, v)
	}
}

// directOK runs the input through HandleReader; if the server panics or hangs on it, that is recorded as a
// violation with the input as replay and the caller must not push the same input through a transport (a
// panic inside a hijacked WebSocket connection leaves the connection open and dead: the client would only
// find out by waiting for its own deadline).
func (rn *runner) directOK(w *World, in []byte, via string) (Obs, bool) {
	o := w.handle(in)
	if o.Panicked || o.Hung {
		for _, v := range judge(w, in, o) {
			rn.res.Violate(lib.Violation{Sig: v.Sig, What: "[before " + via + "] " + v.What, Replay: mkReplay(w, in, "")})
		}
		rn.res.Hit("transport:skipped-because-HandleReader-crashes")
		return o, false
	}
	return o, true
}

func firstLines(s string, n int) string {
	ls := strings.Split(s, "\n")
	if len(ls) > n {
		ls = ls[:n]
	}
	return strings.Join(ls, "\n")
}

func probe() (modelCfg, []string) {
	var notes []string
	w, err := NewWorld(fixedWorld(false, 2))
	if err != nil {
		return modelCfg{peek: "128"}, []string{"probe: " + err.Error()}
	}
	c := modelCfg{peek: "128"}
	o := w.handle([]byte(`{"jsonrpc":"2.0","method":"nilres","id":1}`))
	if strings.Contains(string(o.Out), `"result"`) {
		c.nullNil = 1
	}
	o = w.handle([]byte(`{"jsonrpc":"2.0","method":"no-such-method"}`))
	o2 := w.handle([]byte(`{"jsonrpc":"2.0","method":"echo"}`))
	if len(o.Out) == 0 && len(o2.Out) == 0 && !o.Hung && !o.Panicked {
		c.silentNot = 1
	}
	isArr := func(n int) bool {
		o := w.handle([]byte(strings.Repeat(" ", n) + `[{"jsonrpc":"2.0","method":"noargs","id":1}]`))
		return strings.HasPrefix(string(o.Out), "[")
	}
	if isArr(128) && isArr(129) && isArr(5000) {
		c.peek = "-"
	}
	// a handler failure is answered with -32603 instead of costing the response
	if fw, err := NewWorld(faultyWorld(2)); err == nil {
		o1 := fw.handle([]byte(`{"jsonrpc":"2.0","method":"nan","id":1}`))
		o2 := fw.handle([]byte(`{"jsonrpc":"2.0","method":"boom","id":1}`))
		if strings.Contains(string(o1.Out), "-32603") && strings.Contains(string(o2.Out), "-32603") && !o2.Panicked && o1.Err == nil {
			c.internalErr = 1
		}
	}
	o = w.handle([]byte(`{"jsonrpc":"1.0","id":[1]}`))
	if strings.Contains(string(o.Out), `"id":null`) {
		c.legalID = 1
	}
	o = w.handle([]byte(`{"jsonrpc":"2.0","method":"echo","params":[null],"id":1}`))
	o2 = w.handle([]byte(`{"jsonrpc":"2.0","method":"echo","params":{"a":1,"b":null},"id":1}`))
	if strings.Contains(string(o.Out), "-32602") && strings.Contains(string(o2.Out), `"result"`) {
		c.nullRule = 1
	}
	// "id": null is a request (answered with id null), a missing id member a notification
	o = w.handle([]byte(`{"jsonrpc":"2.0","method":"noargs","id":null}`))
	o2 = w.handle([]byte(`{"jsonrpc":"2.0","method":"noargs"}`))
	if strings.Contains(string(o.Out), `"result"`) && strings.Contains(string(o.Out), `"id":null`) && len(o2.Out) == 0 {
		c.nullID = 1
		notes = append(notes, "the server answers requests with \"id\": null (repair of request-with-null-id-not-answered applied): model switched with `nullfix 1`")
	}
	notes = append(notes, "model configuration from probes (peekLimit nullForNilResult silentNotificationErrors internalErrorOnHandlerFailure legalIdEchoOnly nullNotGiven): "+c.String())
	return c, notes
}

type runner struct {
	f   lib.Flags
	res *lib.Result
	drv *lib.Driver
	cfg modelCfg
}

func (rn *runner) setWorld(w *World) error {
	bd := 0
	if w.Spec.BatchDisabled {
		bd = 1
	}
	a, err := rn.drv.Ask(fmt.Sprintf("cfg %d %s", bd, rn.cfg.String()))
	if err != nil || a != "ok" {
		return fmt.Errorf("driver cfg: %q %v", a, err)
	}
	a, err = rn.drv.Ask(fmt.Sprintf("nullfix %d", rn.cfg.nullID))
	if err != nil || a != "ok" {
		return fmt.Errorf("driver nullfix: %q %v", a, err)
	}
	a, err = rn.drv.Ask(w.tblLine())
	if err != nil || a != "ok" {
		return fmt.Errorf("driver tbl: %q %v", a, err)
	}
	return nil
}

// inLine: the `in` request for the driver, plus what the input looks like (for the histogram)
func inLine(input []byte) (line string, tree *J, parses bool) {
	lead := 0
	for lead < len(input) && strings.IndexByte(" \t\r\n", input[lead]) >= 0 {
		lead++
	}
	fb := 0
	if lead < len(input) && input[lead] == '[' {
		fb = 1
	}
	raw, err := firstValue(input)
	if err != nil {
		return fmt.Sprintf("in %d %d x", lead, fb), nil, false
	}
	t, err := parseTree(raw)
	if err != nil {
		return fmt.Sprintf("in %d %d x", lead, fb), nil, false
	}
	var sb strings.Builder
	fmt.Fprintf(&sb, "in %d %d v ", lead, fb)
	t.tokens(&sb)
	return sb.String(), t, true
}

// matchMultiset: every model element matches a distinct implementation element
func matchMultiset(model, impl []*J) bool {
	a, b := multisetDiff(model, impl)
	return len(a) == 0 && len(b) == 0
}

// multisetDiff: model elements without partner, implementation elements without partner.
// Elements with an opaque part are matched last so that they do not steal exact partners.
func multisetDiff(model, impl []*J) (onlyModel, onlyImpl []*J) {
	used := make([]bool, len(impl))
	hasOpaque := func(j *J) bool { return strings.Contains(j.String(), `\u0001?`) }
	for pass := 0; pass < 2; pass++ {
	outer:
		for _, m := range model {
			if hasOpaque(m) != (pass == 1) {
				continue
			}
			for i, x := range impl {
				if !used[i] && sameModelImpl(m, x) {
					used[i] = true
					continue outer
				}
			}
			onlyModel = append(onlyModel, m)
		}
	}
	for i, x := range impl {
		if !used[i] {
			onlyImpl = append(onlyImpl, x)
		}
	}
	return
}

func listText(xs []*J) string {
	parts := make([]string, len(xs))
	for i, x := range xs {
		parts[i] = x.String()
	}
	return strings.Join(parts, " ; ")
}

// sameModelImpl: sameJSON, except that the key list of "unexpected params: …" has Go map order
func sameModelImpl(m, x *J) bool {
	if m != nil && x != nil && m.K == '{' && x.K == '{' {
		if me, xe := m.get("error"), x.get("error"); me != nil && xe != nil {
			md, xd := me.get("data"), xe.get("data")
			const pfx = "unexpected params: "
			if md != nil && xd != nil && md.K == 's' && xd.K == 's' && strings.HasPrefix(md.S, pfx) && strings.HasPrefix(xd.S, pfx) {
				if sortedBytes(md.S) != sortedBytes(xd.S) {
					return false
				}
				m2 := &J{K: '{', O: append([]KV(nil), m.O...)}
				for i := range m2.O {
					if m2.O[i].K == "error" {
						e2 := &J{K: '{', O: append([]KV(nil), me.O...)}
						for k := range e2.O {
							if e2.O[k].K == "data" {
								e2.O[k].V = xd
							}
						}
						m2.O[i].V = e2
					}
				}
				return sameJSON(m2, x)
			}
		}
	}
	return sameJSON(m, x)
}

// compare the model's answer with what the implementation did; returns "" when they agree
func compare(answer string, o Obs, batchShaped bool) string {
	if answer == "dk" {
		return ""
	}
	mt, rest, err := fromTokens(strings.Fields(answer))
	if err != nil || len(rest) != 0 || mt.K != '[' || len(mt.A) < 2 {
		return "driver answer unreadable: " + answer
	}
	if len(mt.A) == 3 && len(mt.A[2].A) == 2 { // [goError, panicked]
		if mGo, mPanic := mt.A[2].A[0].K == 't', mt.A[2].A[1].K == 't'; mGo != (o.Err != nil) || mPanic != o.Panicked {
			return fmt.Sprintf("failure flags differ: model goError=%v panicked=%v, implementation goError=%v panicked=%v", mGo, mPanic, o.Err != nil, o.Panicked)
		}
	}
	var mbody *J
	if len(mt.A[0].A) == 1 {
		mbody = mt.A[0].A[0]
	}
	var ibody *J
	if len(o.Out) > 0 {
		raw, err := firstValue(o.Out)
		if err == nil {
			ibody, err = parseTree(raw)
		}
		if err != nil {
			return "implementation output is not JSON"
		}
	}
	switch {
	case mbody == nil || ibody == nil:
		if mbody != ibody {
			return "one side is silent"
		}
	case mbody.K == '[' && ibody.K == '[' && batchShaped:
		if a, b := multisetDiff(mbody.A, ibody.A); len(a)+len(b) > 0 {
			return "batch responses differ (as multisets): only model: " + listText(a) + " | only implementation: " + listText(b)
		}
	default:
		if !sameModelImpl(mbody, ibody) {
			return "responses differ"
		}
	}
	want := map[string]int{}
	for _, c := range mt.A[1].A {
		if c.K != '[' || len(c.A) != 2 {
			return "driver log unreadable"
		}
		want[Call{Method: c.A[0].S, Args: c.A[1].A}.String()]++
	}
	got := map[string]int{}
	for _, c := range o.Calls {
		got[c.String()]++
	}
	if len(want) != len(got) {
		return "handler invocations differ"
	}
	for k, n := range want {
		if got[k] != n {
			return "handler invocations differ"
		}
	}
	return ""
}

func modelText(answer string) string {
	if answer == "dk" {
		return "dk"
	}
	mt, _, err := fromTokens(strings.Fields(answer))
	if err != nil {
		return answer
	}
	return mt.String()
}

func callsText(cs []Call) string {
	parts := make([]string, len(cs))
	for i, c := range cs {
		parts[i] = c.String()
	}
	return strings.Join(parts, " ; ")
}

func mkReplay(w *World, input []byte, via string) replayT {
	return replayT{World: w.Spec, InputHex: hex.EncodeToString(input), Input: string(input), Via: via}
}

// shrink: for a batch, try to exhibit the same violation with one entry only
func (rn *runner) shrink(w *World, input []byte, sig string) []byte {
	raw, err := firstValue(input)
	if err != nil {
		return input
	}
	t, err := parseTree(raw)
	if err != nil {
		return input
	}
	try := func(cand []byte) bool {
		for _, v := range judge(w, cand, w.handle(cand)) {
			if v.Sig == sig {
				return true
			}
		}
		return false
	}
	best := input
	if c := t.bytes(nil); len(c) < len(best) && try(c) {
		best = c
	}
	if t.K == '[' && len(t.A) > 1 {
		for _, e := range t.A {
			for _, cand := range [][]byte{e.bytes(nil), jArr(e).bytes(nil)} {
				if len(cand) < len(best) && try(cand) {
					best = cand
				}
			}
		}
	}
	return best
}

// one input on one world: correspondence + oracle
func (rn *runner) check(w *World, input []byte, answer string, tree *J, parses bool) []byte {
	res := rn.res
	o := w.handle(input)
	res.Case(string(input), parses && (tree.K == '{' || tree.K == '['))
	// histogram
	switch {
	case !parses:
		res.Hit("input:unparsable")
	case tree.K == '[':
		res.Hit("input:batch")
		if len(tree.A) == 0 {
			res.Hit("input:empty-batch")
		}
	case tree.K == '{':
		res.Hit("input:object")
	default:
		res.Hit("input:other-json")
	}
	if len(o.Out) == 0 {
		res.Hit("output:none")
	} else {
		for _, c := range []string{"-32700", "-32600", "-32601", "-32602", "-32603", `"code":44`, `"code":7`, `"result"`} {
			if strings.Contains(string(o.Out), c) {
				res.Hit("output:has " + strings.Trim(c, `"`))
			}
		}
	}
	for _, c := range []string{"missing required params", "expected between", "missing non-optional param", "unexpected params",
		"cannot unmarshal", "failed on the", "felt:", "empty batch", "batch requests are disabled", "unsupported RPC request version",
		"no method specified", "params should be an array", "id should be a string", "exceeded max depth", "unexpected end of input",
		"null is not a valid value for required param", "handler panicked", "unsupported value",
		"unexpected trailing comma", "expected a JSON object"} {
		if strings.Contains(string(o.Out), c) {
			res.Hit("branch:" + c)
		}
	}
	res.HitN("handler-invocations", len(o.Calls))
	if answer == "dk" {
		res.Hit("model:dont-know")
	}
	if strings.HasPrefix(answer, "bad-op") || answer == "" {
		res.Fatalf("driver answered %q to an input line: %s", answer, describe(input))
		return o.Out
	}
	res.Compared(1)
	if why := compare(answer, o, parses && tree.K == '['); why != "" && !o.Hung {
		if len(why) > 1500 {
			why = why[:1500]
		}
		res.Mismatch(lib.Mismatch{Sig: "dispatch: " + why, Input: map[string]any{"world": w.Spec, "input": describe(input)},
			Model: modelText(answer), Impl: map[string]string{"out": string(o.Out), "calls": callsText(o.Calls)}})
	}
	for _, v := range judge(w, input, o) {
		small := input
		if !o.Hung {
			small = rn.shrink(w, input, v.Sig)
		}
		what := v.What
		if len(small) != len(input) {
			for _, v2 := range judge(w, small, w.handle(small)) {
				if v2.Sig == v.Sig {
					what = v2.What
				}
			}
		}
		res.Violate(lib.Violation{Sig: v.Sig, What: what, Replay: mkReplay(w, small, "")})
	}
	if parses {
		res.Sample(8, map[string]string{"input": describe(input), "output": string(o.Out), "calls": callsText(o.Calls)})
	}
	return o.Out
}

func (rn *runner) runWorld(spec WorldSpec, inputs [][]byte) error {
	w, err := NewWorld(spec)
	if err != nil {
		rn.res.Fatalf("world: %v", err)
		return err
	}
	if err := rn.setWorld(w); err != nil {
		return err
	}
	lines := make([]string, len(inputs))
	trees := make([]*J, len(inputs))
	parses := make([]bool, len(inputs))
	for i, in := range inputs {
		lines[i], trees[i], parses[i] = inLine(in)
	}
	answers, err := rn.drv.AskAll(lines)
	if err != nil {
		return err
	}
	if len(answers) != len(lines) {
		return fmt.Errorf("driver answered %d of %d lines", len(answers), len(lines))
	}
	outs := make([][]byte, len(inputs))
	for i, in := range inputs {
		outs[i] = rn.check(w, in, answers[i], trees[i], parses[i])
	}
	rn.prettyTie(w, inputs, outs)
	return nil
}

func main() {
	f := lib.ParseFlags()
	res := lib.NewResult("inputs = byte strings sent to jsonrpc.Server.HandleReader (and, in the transport part, through " +
		"jsonrpc.HTTP / jsonrpc.Websocket); non-trivial = distinct input whose first JSON value parses and is an object or an array")
	// A panic of the server that escapes in the harness' own goroutine (a call site that is not wrapped in lib.Try)
	// must not cost the result: everything recorded so far is written, plus the panic itself as a violation.
	defer func() {
		if p := recover(); p != nil {
			res.Violate(lib.Violation{Sig: "server-panics", What: fmt.Sprintf("a panic escaped into the harness (stage not guarded): %v\n%s", p, firstLines(string(debug.Stack()), 30)),
				Replay: map[string]any{"kind": "panic-in-harness-goroutine", "seed": f.Seed}})
			res.Fatalf("a stage of the harness was aborted by a panic of the code under test: %v", p)
			flushStats(res)
			lib.Finish(f, res)
		}
	}()
	if os.Getenv("C11_MODE") == "conc" { // child of the thorough tier, built with -race
		concurrentStage(res, f.Seed, false)
		concSeqStage(res, f.Seed, false)
		lib.Finish(f, res)
	}
	// The harness never ends without a result: whatever the server under test does (panic, hang, dropped
	// connections), what has been found so far is written when the overall deadline expires.
	go func() {
		time.Sleep(time.Duration(f.Scale(420, 3300)) * time.Second)
		res.Fatalf("harness deadline expired: a stage did not finish (see the violations recorded so far)")
		flushStats(res)
		lib.Finish(f, res)
	}()
	drv, err := lib.StartDriver(f.Driver)
	if err != nil {
		res.Fatalf("driver: %v", err)
		lib.Finish(f, res)
	}
	defer drv.Close()
	cfg, notes := probe()
	for _, n := range notes {
		res.Note("%s", n)
	}
	rn := &runner{f: f, res: res, drv: drv, cfg: cfg}
	oracleNullRule = cfg.nullRule == 1

	if one := os.Getenv("C11_INPUT"); one != "" { // developer aid: one input on the fixed world, verbose
		spec := fixedWorld(os.Getenv("C11_NOBATCH") != "", 4)
		if os.Getenv("C11_WORLD") == "faulty" {
			spec = faultyWorld(3)
		}
		w, _ := NewWorld(spec)
		_ = rn.setWorld(w)
		line, _, _ := inLine([]byte(one))
		ans, _ := drv.Ask(line)
		o := w.handle([]byte(one))
		fmt.Printf("model: %s\nimpl : %s\ncalls: %s\ncompare: %q\n", modelText(ans), o.Out, callsText(o.Calls), compare(ans, o, true))
		for _, v := range judge(w, []byte(one), o) {
			fmt.Printf("verdict %s: %s\n", v.Sig, v.What)
		}
		os.Exit(0)
	}
	if f.Replay != "" {
		var file struct {
			Replay replayT `json:"replay"`
		}
		b, err := os.ReadFile(f.Replay)
		if err == nil {
			err = json.Unmarshal(b, &file)
		}
		if err != nil {
			res.Fatalf("replay: %v", err)
			lib.Finish(f, res)
		}
		in, _ := hex.DecodeString(file.Replay.InputHex)
		if err := rn.runWorld(file.Replay.World, [][]byte{in}); err != nil {
			res.Fatalf("replay: %v", err)
		}
		if file.Replay.Via != "" {
			if w, err := NewWorld(file.Replay.World); err == nil {
				rn.transports(w, [][]byte{in})
			}
		}
		lib.Finish(f, res)
	}

	r := lib.NewRNG(f.Seed)
	// Jobs are independent (own world, own PRNG stream forked from the seed, own driver process per
	// worker), so they run in parallel; what is generated does not depend on the schedule.
	type job struct {
		spec   WorldSpec
		inputs func(w *World) [][]byte
	}
	var jobs []job
	randomInputs := func(stream uint64, n int) func(w *World) [][]byte {
		return func(w *World) [][]byte {
			g := &Gen{r: r.Fork(stream), w: w}
			out := make([][]byte, 0, n)
			for k := 0; k < n; k++ {
				out = append(out, g.input())
			}
			return out
		}
	}
	// 1. fixed worlds: corpus + exhaustive member combinations + random
	nRandom := f.Scale(6000, 150000)
	const chunk = 3000
	for i, spec := range []WorldSpec{fixedWorld(false, 4), fixedWorld(false, 1), fixedWorld(true, 3)} {
		i := i
		jobs = append(jobs, job{spec, func(w *World) [][]byte {
			in := corpus(w)
			if i == 0 {
				in = append(in, exhaustive()...)
				in = append(in, bindingExhaustive(spec)...)
			}
			return in
		}})
		n := nRandom
		if i > 0 {
			n = nRandom / 6
		}
		for c := 0; c*chunk < n; c++ {
			jobs = append(jobs, job{spec, randomInputs(uint64(i*100000+c), min(chunk, n-c*chunk))})
		}
	}
	// 1a. parse errors: leading blanks x truncation points x syntax errors at every offset
	for part := 0; part < 4; part++ {
		part := part
		jobs = append(jobs, job{fixedWorld(part == 3, 2), func(w *World) [][]byte { return parseErrorInputs(part, 4, f.Thorough()) }})
	}
	// 1a'. the text of parse-error answers: line widths, context rows, offending symbols (round 4)
	jobs = append(jobs, job{fixedWorld(false, 2), func(w *World) [][]byte { return prettyTextInputs() }})
	// 1b. handlers that return unmarshallable values or panic
	for i, pool := range []int{1, 3} {
		spec := faultyWorld(pool)
		stream := uint64(900000 + i)
		jobs = append(jobs, job{spec, func(w *World) [][]byte {
			return append(append(corpus(w), faultyInputs()...), randomInputs(stream, f.Scale(600, 6000))(w)...)
		}})
	}
	// 2. random tables
	nWorlds := f.Scale(40, 600)
	per := f.Scale(250, 600)
	for i := 0; i < nWorlds; i++ {
		spec := randomWorld(r.Fork(uint64(1000 + i)))
		stream := uint64(5000000 + i)
		jobs = append(jobs, job{spec, func(w *World) [][]byte {
			return append(corpus(w), randomInputs(stream, per)(w)...)
		}})
	}
	workers := 8
	jobc := make(chan job)
	errc := make(chan error, workers)
	for k := 0; k < workers; k++ {
		go func() {
			d, err := lib.StartDriver(f.Driver)
			if err != nil {
				for range jobc {
				}
				errc <- err
				return
			}
			defer d.Close()
			wr := &runner{f: f, res: res, drv: d, cfg: cfg}
			var first error
			for j := range jobc {
				if first != nil {
					continue
				}
				w, err := NewWorld(j.spec)
				if err != nil {
					res.Fatalf("world rejected: %v", err)
					continue
				}
				first = wr.runWorld(j.spec, j.inputs(w))
			}
			errc <- first
		}()
	}
	for _, j := range jobs {
		jobc <- j
	}
	close(jobc)
	for k := 0; k < workers; k++ {
		if err := <-errc; err != nil {
			res.Fatalf("run aborted: %v", err)
			res.Mismatch(lib.Mismatch{Sig: "harness-run-aborted", Model: err.Error()})
		}
	}
	// 3. the method tables juno serves; the validator; the model's default configuration
	rn.realTables()
	rn.shadowTables(r.Fork(2718))
	rn.validatorTie()
	if w, err := NewWorld(fixedWorld(false, 2)); err == nil {
		rn.readerFailures(w)
	} else {
		res.Fatalf("reader failure family: %v", err)
	}
	rn.floatTie(r.Fork(31337))
	// 4. transports
	{
		spec := fixedWorld(false, 4)
		w, _ := NewWorld(spec)
		inputs := corpus(w)
		g := &Gen{r: r.Fork(77), w: w}
		for k := 0; k < f.Scale(150, 4000); k++ {
			inputs = append(inputs, g.input())
		}
		rn.transports(w, inputs)
		rn.segmented(w, r.Fork(555), inputs)
	}
	// 4a. the admission gate of the HTTP transport (round 4)
	waitLimit := rn.wsLimit() // runs beside the next stages (one refused connection costs 5 s inside the server)
	rn.gateTie(r.Fork(4242))
	rn.gateSequential(r.Fork(4343)) // round 6: one POST at the gate from arrival to return, every kind of POST
	// 4b. handlers that keep writing to their connection; the websocket connection limit (round 4)
	rn.connTie()
	// 4c. RegisterMethods on every handler signature shape (round 4)
	rn.registerTie(r.Fork(8086))
	// 4d. listener calls, headers, logging at trace level (round 5)
	rn.eventsTie(r.Fork(5150))
	rn.wsParamsTie()
	// 4e. the WebSocket read loop on the level of the byte stream: unread frame remainders of every size (round 6)
	rn.wsLoopTie(r.Fork(6060))
	// 4f. the conditional parameter rules of the broadcasted transaction through the real rpcv10 validator (round 6)
	rn.txRulesTie(r.Fork(7070))
	// 4g. validateParam below the first level of nested containers; Gate.Acquire when Release and cancel race (follow-up)
	rn.nestedValidation()
	rn.gateRace(r.Fork(8080))
	// 5. request deadlines while batch entries queue for a pool slot
	rn.deadlines(r.Fork(777))
	// 6. handlers that fail, over the transports
	rn.faultyTransports()
	// 7. concurrent clients on one server (thorough: again under the race detector)
	concurrentStage(res, f.Seed, f.Thorough())
	concSeqStage(res, f.Seed, f.Thorough())
	waitLimit()
	if f.Thorough() {
		raceChild(res, f)
	}
	flushStats(res)
	rn.familyFloors()
	lib.Finish(f, res)
}
