//go:build verif

package main

import (
	"bytes"
	"context"
	"fmt"
	"io"
	stdlog "log"
	"net/http"
	"net/http/httptest"
	"strconv"
	"strings"
	"time"
	"unicode/utf8"

	"github.com/NethermindEth/juno/db"
	"github.com/NethermindEth/juno/jsonrpc"
	"github.com/NethermindEth/juno/utils/log"
	"github.com/coder/websocket"
	"verif/harness/lib"
)

const httpBodyLimit = 10 * db.Megabyte // http.go: MaxRequestBodySize
const modelInputLimit = 64 << 10       // larger inputs are compared with HandleReader only, not sent to the driver

func parseBody(b []byte) *J {
	if len(b) == 0 {
		return nil
	}
	raw, err := firstValue(b)
	if err != nil || len(strings.TrimSpace(string(b[len(raw):]))) != 0 {
		return jStr("\x00not-json:" + string(b))
	}
	t, err := parseTree(raw)
	if err != nil {
		return jStr("\x00not-json:" + string(b))
	}
	return t
}

// sameOutputs: the transport must deliver what HandleReader produces (batch order is free)
func sameOutputs(direct, via []byte, batch bool) bool {
	dt, vt := parseBody(direct), parseBody(via)
	if dt == nil || vt == nil {
		return dt == vt
	}
	if batch && dt.K == '[' && vt.K == '[' {
		return matchMultiset(dt.A, vt.A)
	}
	return sameModelImpl(dt, vt)
}

func sameBody(model *J, via []byte, batch bool) bool {
	vt := parseBody(via)
	if model == nil || vt == nil {
		return model == vt
	}
	if batch && model.K == '[' && vt.K == '[' {
		return matchMultiset(model.A, vt.A)
	}
	return sameModelImpl(model, vt)
}

func sortedCalls(cs []Call) []Call {
	out := append([]Call(nil), cs...)
	for i := 1; i < len(out); i++ {
		for j := i; j > 0 && out[j].String() < out[j-1].String(); j-- {
			out[j], out[j-1] = out[j-1], out[j]
		}
	}
	return out
}

func sameLog(model *J, calls []Call) bool {
	want := map[string]int{}
	for _, c := range model.A {
		if c.K != '[' || len(c.A) != 2 {
			return false
		}
		want[Call{Method: c.A[0].S, Args: c.A[1].A}.String()]++
	}
	got := map[string]int{}
	for _, c := range calls {
		got[c.String()]++
	}
	if len(want) != len(got) {
		return false
	}
	for k, n := range want {
		if got[k] != n {
			return false
		}
	}
	return true
}

func isBatchShaped(input []byte) bool {
	_, tree, parses := inLine(input)
	return parses && tree.K == '['
}

func (rn *runner) transportVerdicts(w *World, input []byte, direct, o Obs, via string) {
	res := rn.res
	res.Case(via+":"+string(input), true)
	res.Hit("transport:" + via)
	res.Compared(1)
	if !o.Hung && !o.Panicked && o.Dropped == "" && o.Err == nil {
		if !sameOutputs(direct.Out, o.Out, isBatchShaped(input)) || callsText(sortedCalls(direct.Calls)) != callsText(sortedCalls(o.Calls)) {
			res.Mismatch(lib.Mismatch{Sig: "transport-" + via + "-differs-from-HandleReader", Input: describe(input),
				Model: map[string]string{"out": string(direct.Out), "calls": callsText(direct.Calls)},
				Impl:  map[string]string{"out": string(o.Out), "calls": callsText(o.Calls)}})
		}
	}
	for _, v := range judge(w, input, o) {
		res.Violate(lib.Violation{Sig: v.Sig, What: "[" + via + "] " + v.What, Replay: mkReplay(w, input, via)})
	}
}

// inArgs: the part of an `in` line after the keyword, for the first JSON value of at most limit bytes
func inArgs(input []byte, limit int) string {
	if len(input) > limit {
		input = input[:limit]
	}
	line, _, _ := inLine(input)
	return strings.TrimPrefix(line, "in ")
}

// ---- HTTP -----------------------------------------------------------------------------------

func (rn *runner) httpTransport(w *World, inputs [][]byte) {
	res := rn.res
	hs := httptest.NewServer(jsonrpc.NewHTTP(w.Server, log.NewNopZapLogger()))
	defer hs.Close()
	clients := []*http.Client{
		{Timeout: 30 * time.Second}, // default transport asks for gzip and decodes it
		{Timeout: 30 * time.Second, Transport: &http.Transport{DisableCompression: true}},
	}
	type shot struct {
		method, path string
		body         []byte
	}
	var shots []shot
	for _, in := range inputs {
		shots = append(shots, shot{"POST", lib.Pick(lib.NewRNG(uint64(len(in))), []string{"/", "/", "/v0_8", "/x/y"}), in})
	}
	// every method on two paths: only POST reaches the dispatcher
	probeBodies := [][]byte{[]byte(`{"jsonrpc":"2.0","method":"noargs","id":1}`), []byte(`{"jsonrpc":"2.0","method":"noargs"}`), []byte(`garbage`), nil}
	for _, m := range []string{"GET", "HEAD", "POST", "PUT", "DELETE", "PATCH", "OPTIONS", "TRACE", "CONNECT?"} {
		for _, p := range []string{"/", "/health", "/v0_9"} {
			for _, b := range probeBodies {
				shots = append(shots, shot{strings.TrimSuffix(m, "?"), p, b})
			}
		}
	}
	var lines []string
	for _, s := range shots {
		mm := "other"
		switch s.method {
		case "GET":
			mm = "get"
		case "POST":
			mm = "post"
		}
		root := 0
		if s.path == "/" {
			root = 1
		}
		if len(s.body) > modelInputLimit {
			lines = append(lines, "defaults") // placeholder: not sent to the model
		} else {
			lines = append(lines, fmt.Sprintf("http %s %d %s", mm, root, inArgs(s.body, httpBodyLimit)))
		}
	}
	answers, err := rn.drv.AskAll(lines)
	if err != nil {
		res.Fatalf("http: %v", err)
		res.Mismatch(lib.Mismatch{Sig: "harness-run-aborted", Model: err.Error()})
		return
	}
	for i, s := range shots {
		if s.method == "CONNECT" {
			continue // not routable through the test client
		}
		var direct Obs
		if s.method == "POST" {
			var ok bool
			if direct, ok = rn.directOK(w, s.body, "http"); !ok {
				continue
			}
		}
		w.reset()
		var o Obs
		status, ctype, clen := 0, "", ""
		req, _ := http.NewRequest(s.method, hs.URL+s.path, bytes.NewReader(s.body))
		req.Header.Set("Content-Type", "application/json")
		resp, err := clients[i%2].Do(req)
		if err != nil {
			o.Hung = strings.Contains(err.Error(), "Timeout") || strings.Contains(err.Error(), "deadline")
			if !o.Hung {
				o.Dropped = "http request failed (connection dropped by the server): " + err.Error()
			}
		} else {
			body, rerr := io.ReadAll(resp.Body)
			resp.Body.Close()
			o.Out, o.Err = body, rerr
			status, ctype, clen = resp.StatusCode, resp.Header.Get("Content-Type"), resp.Header.Get("Content-Length")
		}
		o.Calls, o.RecErrs = w.taken()
		res.Hit(fmt.Sprintf("http:%s:status-%d", s.method, status))
		if s.method == "POST" {
			rn.transportVerdicts(w, s.body, direct, o, "http")
			if err == nil && status != http.StatusOK {
				res.Violate(lib.Violation{Sig: "http-status-not-200", What: fmt.Sprintf("[http] status %d for input %s", status, describe(s.body)),
					Replay: mkReplay(w, s.body, "http")})
			}
			if err == nil && ctype != "application/json" {
				res.Violate(lib.Violation{Sig: "http-content-type-not-json", What: fmt.Sprintf("[http] Content-Type %q for input %s", ctype, describe(s.body)),
					Replay: mkReplay(w, s.body, "http")})
			}
			if err == nil && i%2 == 1 && clen != "" && clen != strconv.Itoa(len(o.Out)) {
				res.Violate(lib.Violation{Sig: "http-content-length-wrong", What: fmt.Sprintf("[http] Content-Length %s, body has %d bytes, input %s", clen, len(o.Out), describe(s.body)),
					Replay: mkReplay(w, s.body, "http")})
			}
		} else {
			res.Case("http:"+s.method+s.path+string(s.body), true)
			if len(o.Calls) > 0 {
				res.Violate(lib.Violation{Sig: "http-non-post-invokes-handler", What: fmt.Sprintf("[http] %s %s ran %s", s.method, s.path, callsText(o.Calls)),
					Replay: map[string]string{"method": s.method, "path": s.path, "body": string(s.body)}})
			}
		}
		// model of ServeHTTP
		if err != nil || len(s.body) > modelInputLimit || answers[i] == "dk" {
			continue
		}
		res.Compared(1)
		f := strings.Fields(answers[i])
		bad := func(why string) {
			res.Mismatch(lib.Mismatch{Sig: "http: " + why, Input: map[string]string{"method": s.method, "path": s.path, "body": describe(s.body)},
				Model: answers[i], Impl: map[string]any{"status": status, "content-type": ctype, "body": string(o.Out), "calls": callsText(o.Calls)}})
		}
		if len(f) < 4 {
			bad("driver answer unreadable")
			continue
		}
		mt, rest, perr := fromTokens(f[3:])
		if perr != nil || len(rest) != 0 || mt.K != '[' || len(mt.A) != 2 {
			bad("driver answer unreadable")
			continue
		}
		var mbody *J
		if len(mt.A[0].A) == 1 {
			mbody = mt.A[0].A[0]
		}
		switch {
		case f[0] != strconv.Itoa(status):
			bad("status differs")
		case (f[1] == "1") != (ctype == "application/json"):
			bad("Content-Type differs")
		case s.method != "HEAD" && !sameBody(mbody, o.Out, isBatchShaped(s.body)):
			bad("body differs")
		case !sameLog(mt.A[1], o.Calls):
			bad("handler invocations differ")
		}
	}
}

// ---- WebSocket ------------------------------------------------------------------------------

type wsClient struct {
	url     string
	conn    *websocket.Conn
	n       int
	timeout time.Duration // per exchange; 0 = 10 s
}

func (c *wsClient) dial() error {
	ctx, cancel := context.WithTimeout(context.Background(), 10*time.Second)
	defer cancel()
	conn, _, err := websocket.Dial(ctx, c.url, nil)
	if err != nil {
		return err
	}
	conn.SetReadLimit(256 << 20)
	c.conn = conn
	return nil
}

// exchange sends the messages back to back on the connection, then a sentinel request, and returns
// every message the server sent before the sentinel's response.
func (c *wsClient) exchange(msgs [][]byte) (got [][]byte, hung bool, err error) {
	c.n++
	sentinelID := fmt.Sprintf("__sentinel__%d", c.n)
	sentinel := fmt.Sprintf(`{"jsonrpc":"2.0","method":"noargs","id":%q}`, sentinelID)
	to := c.timeout
	if to == 0 {
		to = 10 * time.Second
	}
	ctx, cancel := context.WithTimeout(context.Background(), to)
	defer cancel()
	for _, m := range msgs {
		mt := websocket.MessageText
		if !utf8.Valid(m) {
			mt = websocket.MessageBinary
		}
		if err = c.conn.Write(ctx, mt, m); err != nil {
			break
		}
	}
	if err == nil {
		err = c.conn.Write(ctx, websocket.MessageText, []byte(sentinel))
	}
	for err == nil {
		var data []byte
		_, data, err = c.conn.Read(ctx)
		if err != nil {
			break
		}
		if strings.Contains(string(data), sentinelID) {
			return got, false, nil
		}
		got = append(got, data)
	}
	return got, ctx.Err() != nil, err
}

func dropSentinelCall(calls []Call) []Call {
	for k := len(calls) - 1; k >= 0; k-- {
		if calls[k].Method == "noargs" && len(calls[k].Args) == 0 {
			return append(calls[:k:k], calls[k+1:]...)
		}
	}
	return calls
}

func (rn *runner) wsTransport(w *World, inputs [][]byte, sessions [][][]byte) {
	res := rn.res
	shutdown := make(chan struct{})
	ws := httptest.NewServer(jsonrpc.NewWebsocket(w.Server, shutdown, log.NewNopZapLogger()))
	defer ws.Close()
	defer close(shutdown)
	c := &wsClient{url: ws.URL}
	if err := c.dial(); err != nil {
		res.Fatalf("websocket dial failed: %v", err)
		res.Mismatch(lib.Mismatch{Sig: "websocket-dial-failed", Model: err.Error()})
		return
	}
	redial := func() bool {
		c.conn.CloseNow()
		if err := c.dial(); err != nil {
			res.Fatalf("websocket re-dial failed: %v", err)
			return false
		}
		return true
	}
	// 1. one message at a time: full oracle
	hangs := 0
	for _, in := range inputs {
		direct, ok := rn.directOK(w, in, "ws")
		if !ok {
			continue
		}
		if hangs >= 3 {
			res.Note("websocket stage stopped after %d unanswered messages (each recorded as server-hangs)", hangs)
			break
		}
		w.reset()
		msgs, hung, err := c.exchange([][]byte{in})
		if hung {
			hangs++
		}
		var o Obs
		switch {
		case hung:
			o.Hung = true
		case err != nil:
			o.Dropped = "websocket connection closed by the server: " + err.Error()
		case len(msgs) > 1:
			o.Out = bytes.Join(msgs, []byte(" "))
			res.Violate(lib.Violation{Sig: "websocket-several-messages-for-one-request", What: fmt.Sprintf("[ws] %d messages for input %s", len(msgs), describe(in)),
				Replay: mkReplay(w, in, "ws")})
		case len(msgs) == 1:
			o.Out = msgs[0]
			if len(msgs[0]) == 0 {
				res.Violate(lib.Violation{Sig: "websocket-empty-message", What: fmt.Sprintf("[ws] an empty message is sent for input %s", describe(in)),
					Replay: mkReplay(w, in, "ws")})
			}
		}
		calls, recErrs := w.taken()
		o.Calls, o.RecErrs = dropSentinelCall(calls), recErrs
		rn.transportVerdicts(w, in, direct, o, "ws")
		if err != nil && !redial() {
			return
		}
	}
	// 2. several messages on one connection: sequencing, frames with trailing bytes, model of the session
	var lines []string
	for _, s := range sessions {
		var sb strings.Builder
		fmt.Fprintf(&sb, "ws %d", len(s))
		small := true
		for _, m := range s {
			if len(m) > modelInputLimit {
				small = false
			}
			sb.WriteByte(' ')
			sb.WriteString(inArgs(m, len(m)))
		}
		if small {
			lines = append(lines, sb.String())
		} else {
			lines = append(lines, "defaults")
		}
	}
	answers, err := rn.drv.AskAll(lines)
	if err != nil {
		res.Fatalf("ws: %v", err)
		res.Mismatch(lib.Mismatch{Sig: "harness-run-aborted", Model: err.Error()})
		return
	}
	for si, s := range sessions {
		// what HandleReader says for each message alone
		var wantWire [][]byte
		var wantBatch []bool
		var wantCalls []Call
		answered := make([]bool, len(s))
		crashes := false
		for mi, m := range s {
			d, ok := rn.directOK(w, m, "ws-session")
			if !ok {
				crashes = true
				break
			}
			if len(d.Out) > 0 {
				wantWire = append(wantWire, d.Out)
				wantBatch = append(wantBatch, isBatchShaped(m))
				answered[mi] = true
			}
			wantCalls = append(wantCalls, d.Calls...)
		}
		if crashes || hangs >= 3 {
			continue
		}
		w.reset()
		got, hung, err := c.exchange(s)
		if hung {
			hangs++
		}
		calls, _ := w.taken()
		calls = dropSentinelCall(calls)
		key := fmt.Sprintf("ws-session:%d:%x", len(s), bytes.Join(s, []byte{0}))
		res.Case(key, true)
		res.Hit("transport:ws-session")
		res.HitN("transport:ws-session-messages", len(s))
		replay := map[string]any{"world": w.Spec, "via": "ws-session", "messages": sessionText(s)}
		if hung {
			res.Violate(lib.Violation{Sig: "server-hangs", What: "[ws session] no answer within the deadline; messages " + strings.Join(sessionText(s), " | "), Replay: replay})
		} else if err != nil {
			res.Violate(lib.Violation{Sig: "websocket-connection-closed", What: "[ws session] the server closed the connection: " + err.Error() + "; messages " + strings.Join(sessionText(s), " | "), Replay: replay})
		}
		if err != nil {
			if !redial() {
				return
			}
			continue
		}
		res.Compared(1)
		ok := len(got) == len(wantWire)
		for i := 0; ok && i < len(got); i++ {
			ok = sameOutputs(wantWire[i], got[i], wantBatch[i])
		}
		if !ok {
			// the property itself: one response per answered message, in message order
			res.Violate(lib.Violation{Sig: "websocket-session-responses-lost-duplicated-or-reordered",
				What: fmt.Sprintf("[ws session] messages %s: expected the responses %s in this order, got %s", strings.Join(sessionText(s), " | "),
					strings.Join(sessionText(wantWire), " | "), strings.Join(sessionText(got), " | ")), Replay: replay})
		}
		if callsText(sortedCalls(wantCalls)) != callsText(sortedCalls(calls)) {
			res.Violate(lib.Violation{Sig: "websocket-session-invocations-differ",
				What: fmt.Sprintf("[ws session] messages %s: expected invocations %s, got %s", strings.Join(sessionText(s), " | "), callsText(wantCalls), callsText(calls)), Replay: replay})
		}
		if lines[si] == "defaults" || answers[si] == "dk" {
			continue
		}
		res.Compared(1)
		mt, rest, perr := fromTokens(strings.Fields(answers[si]))
		why := ""
		if perr != nil || len(rest) != 0 || mt.K != '[' || len(mt.A) != 3 {
			why = "driver answer unreadable"
		} else if len(mt.A[0].A) != len(got) {
			why = "number of messages on the wire differs"
		} else {
			k := 0
			for mi, m := range s {
				if k < len(got) && answered[mi] {
					if !sameBody(mt.A[0].A[k], got[k], isBatchShaped(m)) {
						why = fmt.Sprintf("message %d on the wire differs", k)
					}
					k++
				}
			}
			if why == "" && !sameLog(mt.A[1], calls) {
				why = "handler invocations differ"
			}
		}
		if why != "" {
			res.Mismatch(lib.Mismatch{Sig: "ws-session: " + why, Input: sessionText(s), Model: modelText(answers[si]),
				Impl: map[string]any{"wire": sessionText(got), "calls": callsText(calls)}})
		}
	}
	c.conn.Close(websocket.StatusNormalClosure, "")
}

func sessionText(ms [][]byte) []string {
	out := make([]string, len(ms))
	for i, m := range ms {
		out[i] = describe(m)
	}
	return out
}

// sessions: 2..6 messages per connection turn, including frames that carry more than one JSON value,
// blank and empty frames, notifications and batches
func genSessions(g *Gen, n int) [][][]byte {
	r := g.r
	special := func() []byte {
		name := string(jStr(g.methodSpec().Name).bytes(nil))
		g.nextID++
		id := g.nextID
		return []byte(lib.Pick(r, []string{
			fmt.Sprintf(`{"jsonrpc":"2.0","method":%s,"id":%d} {"jsonrpc":"2.0","method":%s,"id":%d}`, name, id, name, id+100000),
			fmt.Sprintf(`{"jsonrpc":"2.0","method":%s,"id":%d}[{"jsonrpc":"2.0","method":%s,"id":%d}]`, name, id, name, id+100000),
			fmt.Sprintf(`{"jsonrpc":"2.0","method":%s}{"jsonrpc":"2.0","method":"nope","id":%d}`, name, id),
			fmt.Sprintf(`[{"jsonrpc":"2.0","method":%s,"id":%d}] trailing garbage {`, name, id),
			fmt.Sprintf(`{"jsonrpc":"2.0","method":%s,"id":%d`, name, id), // cut off: the next frame must not complete it
			fmt.Sprintf(`,"id":%d}`, id),
			``, ` `, "\n\n", `[]`, `null`,
			fmt.Sprintf(`{"jsonrpc":"2.0","method":%s}`, name),
			fmt.Sprintf(`[{"jsonrpc":"2.0","method":%s},{"jsonrpc":"2.0","method":%s}]`, name, name),
			fmt.Sprintf(`{"jsonrpc":"2.0","method":"nope","id":%d}`, id),
		}))
	}
	var out [][][]byte
	for i := 0; i < n; i++ {
		k := r.Range(2, 6)
		var s [][]byte
		for j := 0; j < k; j++ {
			if r.Chance(2, 5) {
				s = append(s, special())
			} else {
				m := g.input()
				if len(m) > 16<<10 {
					m = special()
				}
				s = append(s, m)
			}
		}
		out = append(out, s)
	}
	return out
}

// large frames / bodies: compared with HandleReader only
func bigInputs(thorough bool) [][]byte {
	mk := func(n int) []byte {
		return []byte(`{"jsonrpc":"2.0","method":"hdr","params":["` + strings.Repeat("a", n) + `"],"id":"big"}`)
	}
	out := [][]byte{mk(200 << 10), mk(1 << 20), []byte(strings.Repeat(" ", 1<<20) + `{"jsonrpc":"2.0","method":"noargs","id":1}`)}
	// round 5: MaxRequestBodySize straddled in the quick tier too — a body of exactly 10 MB is a request like any
	// other, one byte more cuts its last byte off (blank padding: the handler sees no large argument)
	const small = `{"jsonrpc":"2.0","method":"noargs","id":"edge"}`
	out = append(out, []byte(strings.Repeat(" ", httpBodyLimit-len(small))+small), []byte(strings.Repeat("\n", httpBodyLimit+1-len(small))+small))
	if thorough {
		out = append(out, mk(9<<20), mk(11<<20), mk(20<<20))
	}
	return out
}

func (rn *runner) transports(w *World, inputs [][]byte) {
	if err := rn.setWorld(w); err != nil {
		rn.res.Fatalf("transports: %v", err)
		rn.res.Mismatch(lib.Mismatch{Sig: "harness-run-aborted", Model: err.Error()})
		return
	}
	g := &Gen{r: lib.NewRNG(rn.f.Seed).Fork(4242), w: w}
	var sessions [][][]byte
	if rn.f.Replay == "" {
		sessions = genSessions(g, rn.f.Scale(120, 3000))
	}
	rn.httpTransport(w, inputs)
	rn.wsTransport(w, inputs, sessions)
	if rn.f.Replay != "" {
		return
	}
	// big payloads: HTTP cuts the body at 10 MB, WebSocket reads up to 32 MB
	for _, in := range bigInputs(rn.f.Thorough()) {
		rn.bigPayload(w, in)
	}
}

func (rn *runner) bigPayload(w *World, in []byte) {
	res := rn.res
	// HTTP: what HandleReader says about the first 10 MB followed by a read error
	hs := httptest.NewServer(jsonrpc.NewHTTP(w.Server, log.NewNopZapLogger()))
	defer hs.Close()
	w.reset()
	resp, err := (&http.Client{Timeout: 60 * time.Second}).Post(hs.URL, "application/json", bytes.NewReader(in))
	res.Case(fmt.Sprintf("big-http:%d", len(in)), true)
	res.Hit("transport:http-big")
	if err != nil {
		res.Violate(lib.Violation{Sig: "server-hangs", What: fmt.Sprintf("[http] %d-byte body: %v", len(in), err), Replay: map[string]any{"via": "http", "bytes": len(in)}})
	} else {
		body, _ := io.ReadAll(resp.Body)
		resp.Body.Close()
		calls, recErrs := w.taken()
		o := Obs{Out: body, Calls: calls, RecErrs: recErrs}
		if len(in) <= httpBodyLimit {
			for _, v := range judge(w, in, o) {
				res.Violate(lib.Violation{Sig: v.Sig, What: fmt.Sprintf("[http, %d-byte body] ", len(in)) + v.What[:min(len(v.What), 400)], Replay: map[string]any{"via": "http", "bytes": len(in)}})
			}
		} else if t := parseBody(body); resp.StatusCode != 200 || t == nil || t.get("error").get("code") == nil || t.get("error").get("code").S != "-32700" || len(calls) > 0 {
			res.Violate(lib.Violation{Sig: "http-oversized-body-not-answered-with-32700",
				What:   fmt.Sprintf("[http] %d-byte body (limit %d): status %d, body %s, calls %d", len(in), httpBodyLimit, resp.StatusCode, short(body), len(calls)),
				Replay: map[string]any{"via": "http", "bytes": len(in)}})
		}
	}
	// WebSocket
	shutdown := make(chan struct{})
	ws := httptest.NewServer(jsonrpc.NewWebsocket(w.Server, shutdown, log.NewNopZapLogger()))
	defer ws.Close()
	defer close(shutdown)
	c := &wsClient{url: ws.URL}
	if err := c.dial(); err != nil {
		return
	}
	defer c.conn.CloseNow()
	direct := w.handle(in)
	w.reset()
	msgs, hung, err := c.exchange([][]byte{in})
	res.Case(fmt.Sprintf("big-ws:%d", len(in)), true)
	res.Hit("transport:ws-big")
	calls, _ := w.taken()
	calls = dropSentinelCall(calls)
	switch {
	case hung:
		res.Violate(lib.Violation{Sig: "server-hangs", What: fmt.Sprintf("[ws] %d-byte frame: no answer", len(in)), Replay: map[string]any{"via": "ws", "bytes": len(in)}})
	case err != nil:
		res.Violate(lib.Violation{Sig: "websocket-connection-closed", What: fmt.Sprintf("[ws] %d-byte frame: %v", len(in), err), Replay: map[string]any{"via": "ws", "bytes": len(in)}})
	case len(msgs) != 1 || !sameOutputs(direct.Out, msgs[0], false) || callsText(sortedCalls(direct.Calls)) != callsText(sortedCalls(calls)):
		res.Violate(lib.Violation{Sig: "websocket-large-frame-answered-differently", What: fmt.Sprintf("[ws] %d-byte frame: %d messages, first %s; HandleReader: %s", len(in), len(msgs), short(bytes.Join(msgs, nil)), short(direct.Out)),
			Replay: map[string]any{"via": "ws", "bytes": len(in)}})
	}
}

// faultyInputs: the shapes that matter for failing handlers, deterministically
func faultyInputs() [][]byte {
	var out [][]byte
	for _, s := range []string{
		`{"jsonrpc":"2.0","method":"nan","id":1}`, `{"jsonrpc":"2.0","method":"nan"}`, `{"jsonrpc":"2.0","method":"nan","id":null}`,
		`{"jsonrpc":"2.0","method":"nanhdr","id":"h"}`, `{"jsonrpc":"2.0","method":"boom","id":2}`, `{"jsonrpc":"2.0","method":"boom"}`,
		`{"jsonrpc":"2.0","method":"boomctx","params":[],"id":3}`, `[{"jsonrpc":"2.0","method":"nan","id":1}]`,
		`[{"jsonrpc":"2.0","method":"nan","id":1},{"jsonrpc":"2.0","method":"noargs","id":2}]`,
		`[{"jsonrpc":"2.0","method":"boom","id":1},{"jsonrpc":"2.0","method":"noargs","id":2},{"jsonrpc":"2.0","method":"nan","id":3},7]`,
		`[{"jsonrpc":"2.0","method":"boom"},{"jsonrpc":"2.0","method":"nan"}]`, `[{"jsonrpc":"2.0","method":"boom","id":1},{"jsonrpc":"2.0","method":"boomctx","id":2}]`,
		`[{"jsonrpc":"2.0","method":"nan","params":["x"],"id":1},{"jsonrpc":"2.0","method":"boom","params":[1,2],"id":2}]`,
	} {
		out = append(out, []byte(s))
	}
	return out
}

// faultyTransports: what HTTP and WebSocket do when HandleReader fails or a handler panics
func (rn *runner) faultyTransports() {
	res := rn.res
	w, err := NewWorld(faultyWorld(2))
	if err != nil {
		res.Fatalf("faulty world: %v", err)
		return
	}
	if err := rn.setWorld(w); err != nil {
		res.Fatalf("faulty world: %v", err)
		return
	}
	quiet := func(h http.Handler) *httptest.Server { // net/http logs recovered handler panics to stderr
		s := httptest.NewUnstartedServer(h)
		s.Config.ErrorLog = stdlog.New(io.Discard, "", 0)
		s.Start()
		return s
	}
	hs := quiet(jsonrpc.NewHTTP(w.Server, log.NewNopZapLogger()))
	defer hs.Close()
	for _, in := range faultyInputs() {
		ans, err := rn.drv.Ask("http post 1 " + inArgs(in, httpBodyLimit))
		if err != nil {
			res.Fatalf("faulty transports: driver: %v", err)
			return
		}
		f := strings.Fields(ans)
		if len(f) < 4 {
			res.Fatalf("faulty transports: driver answer %q", ans)
			return
		}
		w.reset()
		resp, herr := (&http.Client{Timeout: 20 * time.Second}).Post(hs.URL, "application/json", bytes.NewReader(in))
		status, body := 0, []byte(nil)
		if herr == nil {
			body, _ = io.ReadAll(resp.Body)
			resp.Body.Close()
			status = resp.StatusCode
		}
		calls, _ := w.taken()
		res.Case("faulty-http:"+string(in), true)
		res.Hit("transport:http-faulty")
		res.Compared(1)
		mt, _, perr := fromTokens(f[3:])
		switch {
		case perr != nil || mt.K != '[' || len(mt.A) != 2:
			res.Fatalf("faulty transports: driver answer %q", ans)
		case (f[2] == "1") != (herr != nil):
			res.Mismatch(lib.Mismatch{Sig: "http: connection dropped differs", Input: describe(in), Model: ans, Impl: fmt.Sprint(herr)})
		case herr == nil && f[0] != strconv.Itoa(status):
			res.Mismatch(lib.Mismatch{Sig: "http: status differs", Input: describe(in), Model: ans, Impl: fmt.Sprintf("%d %s", status, body)})
		case herr == nil && !sameBody(bodyOf(mt), body, isBatchShaped(in)):
			res.Mismatch(lib.Mismatch{Sig: "http: body differs", Input: describe(in), Model: ans, Impl: string(body)})
		case !sameLog(mt.A[1], calls):
			res.Mismatch(lib.Mismatch{Sig: "http: handler invocations differ", Input: describe(in), Model: ans, Impl: callsText(calls)})
		}
		// the property: the request must be answered
		if e, cerr := soleEntry(w, in); cerr == nil && e.kind == ekCall {
			switch {
			case herr != nil && e.callsBeh(w, "panic"):
				res.Violate(lib.Violation{Sig: "handler-panic-escapes-to-transport", What: "[http] " + describe(in) + ": the connection is dropped without a response: " + herr.Error(), Replay: mkReplay(w, in, "http")})
			case herr != nil:
				res.Violate(lib.Violation{Sig: "connection-dropped-instead-of-answer", What: "[http] " + describe(in) + ": " + herr.Error(), Replay: mkReplay(w, in, "http")})
			case status == 500 && len(body) == 0 && e.callsBeh(w, "unmarshalable"):
				res.Violate(lib.Violation{Sig: "unmarshallable-result-go-error-no-response", What: "[http] " + describe(in) + ": status 500 with an empty body", Replay: mkReplay(w, in, "http")})
			case status != 200 || len(body) == 0:
				res.Violate(lib.Violation{Sig: "http-status-not-200", What: fmt.Sprintf("[http] status %d, body %q for %s", status, body, describe(in)), Replay: mkReplay(w, in, "http")})
			}
		}
	}
	// WebSocket: after a failing message the connection is closed; the following message is never handled
	shutdown := make(chan struct{})
	ws := quiet(jsonrpc.NewWebsocket(w.Server, shutdown, log.NewNopZapLogger()))
	defer ws.Close()
	defer close(shutdown)
	for _, first := range []string{`{"jsonrpc":"2.0","method":"nan","id":1}`, `{"jsonrpc":"2.0","method":"boom","id":1}`, `{"jsonrpc":"2.0","method":"noargs","id":1}`} {
		session := [][]byte{[]byte(first), []byte(`{"jsonrpc":"2.0","method":"echo","params":[5],"id":2}`)}
		ans, err := rn.drv.Ask(fmt.Sprintf("ws 2 %s %s", inArgs(session[0], 1<<20), inArgs(session[1], 1<<20)))
		if err != nil {
			res.Fatalf("faulty transports: driver: %v", err)
			return
		}
		mt, _, perr := fromTokens(strings.Fields(ans))
		if perr != nil || mt.K != '[' || len(mt.A) != 3 {
			res.Fatalf("faulty transports: driver answer %q", ans)
			return
		}
		c := &wsClient{url: ws.URL, timeout: 3 * time.Second}
		if err := c.dial(); err != nil {
			res.Fatalf("faulty transports: websocket dial: %v", err)
			return
		}
		w.reset()
		got, hung, xerr := c.exchange(session)
		c.conn.CloseNow()
		calls, _ := w.taken()
		calls = dropSentinelCall(calls)
		res.Case("faulty-ws:"+first, true)
		res.Hit("transport:ws-faulty")
		res.Compared(1)
		// a handler panic inside the (hijacked) WebSocket connection is recovered by net/http, which then
		// leaves the connection open and unserved: for the client that is a dead connection, not a close
		closed := xerr != nil
		if (mt.A[2].K == 't') != closed || len(mt.A[0].A) != len(got) || !sameLog(mt.A[1], calls) {
			res.Mismatch(lib.Mismatch{Sig: "ws-session with a failing handler: model and implementation differ", Input: sessionText(session), Model: modelText(ans),
				Impl: map[string]any{"wire": sessionText(got), "calls": callsText(calls), "closed": closed, "err": fmt.Sprint(xerr)}})
		}
		if hung && !strings.Contains(first, "boom") {
			res.Violate(lib.Violation{Sig: "server-hangs", What: "[ws] no answer after " + first, Replay: map[string]any{"via": "ws", "messages": sessionText(session)}})
		} else if closed {
			sig := "unmarshallable-result-go-error-no-response"
			if strings.Contains(first, "boom") {
				sig = "handler-panic-escapes-to-transport"
			}
			res.Violate(lib.Violation{Sig: sig, What: "[ws] after " + first + " the server closes the connection without a response; the next request is never handled: " + xerr.Error(),
				Replay: map[string]any{"via": "ws", "messages": sessionText(session)}})
		}
	}
}

func bodyOf(mt *J) *J {
	if len(mt.A[0].A) == 1 {
		return mt.A[0].A[0]
	}
	return nil
}
