//go:build verif

package main

import (
	"bytes"
	"context"
	"fmt"
	"io"
	"net/http"
	"net/http/httptest"
	"strings"
	"time"
	"unicode/utf8"

	"github.com/NethermindEth/juno/jsonrpc"
	"github.com/NethermindEth/juno/utils/log"
	"github.com/coder/websocket"
	"verif/harness/lib"
)

// sameOutputs: the transport must deliver what HandleReader produces (batch order is free)
func sameOutputs(direct, via []byte, batch bool) bool {
	if len(direct) == 0 || len(via) == 0 {
		return len(direct) == len(via)
	}
	dr, err1 := firstValue(direct)
	vr, err2 := firstValue(via)
	if err1 != nil || err2 != nil {
		return false
	}
	dt, err1 := parseTree(dr)
	vt, err2 := parseTree(vr)
	if err1 != nil || err2 != nil {
		return false
	}
	if batch && dt.K == '[' && vt.K == '[' {
		return matchMultiset(dt.A, vt.A)
	}
	return sameModelImpl(dt, vt)
}

func (rn *runner) transportVerdicts(w *World, input []byte, direct, o Obs, via string) {
	res := rn.res
	res.Case(via+":"+string(input), true)
	res.Hit("transport:" + via)
	_, tree, parses := inLine(input)
	res.Compared(1)
	if !o.Hung && !o.Panicked && o.Err == nil {
		if !sameOutputs(direct.Out, o.Out, parses && tree.K == '[') || callsText(sortedCalls(direct.Calls)) != callsText(sortedCalls(o.Calls)) {
			res.Mismatch(lib.Mismatch{Sig: "transport-" + via + "-differs-from-HandleReader", Input: describe(input),
				Model: map[string]string{"out": string(direct.Out), "calls": callsText(direct.Calls)},
				Impl:  map[string]string{"out": string(o.Out), "calls": callsText(o.Calls)}})
		}
	}
	for _, v := range judge(w, input, o) {
		res.Violate(lib.Violation{Sig: v.Sig, What: "[" + via + "] " + v.What, Replay: mkReplay(w, input, via)})
	}
}

func sortedCalls(cs []Call) []Call {
	out := append([]Call(nil), cs...)
	for i := 1; i < len(out); i++ {
		for j := i; j > 0 && out[j].String() < out[j-1].String(); j-- {
			out[j], out[j-1] = out[j-1], out[j]
		}
	}
	return out
}

func (rn *runner) transports(w *World, inputs [][]byte) {
	res := rn.res
	logger := log.NewNopZapLogger()

	// ---- HTTP -----------------------------------------------------------------------------
	hs := httptest.NewServer(jsonrpc.NewHTTP(w.Server, logger))
	clients := []*http.Client{
		{Timeout: 20 * time.Second}, // default transport asks for gzip and decodes it
		{Timeout: 20 * time.Second, Transport: &http.Transport{DisableCompression: true}},
	}
	for i, in := range inputs {
		direct := w.handle(in)
		w.reset()
		var o Obs
		resp, err := clients[i%2].Post(hs.URL, "application/json", bytes.NewReader(in))
		if err != nil {
			o.Hung = strings.Contains(err.Error(), "Timeout") || strings.Contains(err.Error(), "deadline")
			if !o.Hung {
				o.Panicked, o.PanicMsg = true, "http request failed (connection dropped by the server): "+err.Error()
			}
		} else {
			body, rerr := io.ReadAll(resp.Body)
			resp.Body.Close()
			o.Out = body
			if rerr != nil {
				o.Err = rerr
			}
			if resp.StatusCode != http.StatusOK {
				res.Violate(lib.Violation{Sig: "http-status-not-200", What: fmt.Sprintf("[http] status %d for input %s", resp.StatusCode, describe(in)),
					Replay: mkReplay(w, in, "http")})
			}
			if ct := resp.Header.Get("Content-Type"); ct != "application/json" {
				res.Violate(lib.Violation{Sig: "http-content-type-not-json", What: fmt.Sprintf("[http] Content-Type %q for input %s", ct, describe(in)),
					Replay: mkReplay(w, in, "http")})
			}
		}
		o.Calls, o.RecErrs = w.taken()
		rn.transportVerdicts(w, in, direct, o, "http")
	}
	hs.Close()

	// ---- WebSocket ------------------------------------------------------------------------
	shutdown := make(chan struct{})
	ws := httptest.NewServer(jsonrpc.NewWebsocket(w.Server, shutdown, logger))
	defer ws.Close()
	defer close(shutdown)
	var conn *websocket.Conn
	dial := func() error {
		ctx, cancel := context.WithTimeout(context.Background(), 10*time.Second)
		defer cancel()
		c, _, err := websocket.Dial(ctx, ws.URL, nil)
		if err != nil {
			return err
		}
		c.SetReadLimit(64 << 20)
		conn = c
		return nil
	}
	if err := dial(); err != nil {
		res.Note("websocket dial failed: %v", err)
		res.Mismatch(lib.Mismatch{Sig: "websocket-dial-failed", Model: err.Error()})
		return
	}
	for i, in := range inputs {
		direct := w.handle(in)
		w.reset()
		sentinelID := fmt.Sprintf("__sentinel__%d", i)
		sentinel := fmt.Sprintf(`{"jsonrpc":"2.0","method":"noargs","id":%q}`, sentinelID)
		var o Obs
		ctx, cancel := context.WithTimeout(context.Background(), 20*time.Second)
		mt := websocket.MessageText
		if !utf8.Valid(in) {
			mt = websocket.MessageBinary
		}
		err := conn.Write(ctx, mt, in)
		if err == nil {
			err = conn.Write(ctx, websocket.MessageText, []byte(sentinel))
		}
		var msgs [][]byte
		for err == nil {
			var data []byte
			_, data, err = conn.Read(ctx)
			if err != nil {
				break
			}
			if strings.Contains(string(data), sentinelID) {
				break
			}
			msgs = append(msgs, data)
		}
		cancel()
		switch {
		case err != nil && ctx.Err() != nil:
			o.Hung = true
		case err != nil:
			o.Panicked, o.PanicMsg = true, "websocket connection closed by the server: "+err.Error()
		case len(msgs) > 1:
			o.Out = bytes.Join(msgs, []byte(" "))
			res.Violate(lib.Violation{Sig: "websocket-several-messages-for-one-request", What: fmt.Sprintf("[ws] %d messages for input %s", len(msgs), describe(in)),
				Replay: mkReplay(w, in, "ws")})
		case len(msgs) == 1:
			o.Out = msgs[0]
			if len(msgs[0]) == 0 {
				res.Violate(lib.Violation{Sig: "websocket-empty-message", What: fmt.Sprintf("[ws] an empty message is sent for input %s", describe(in)),
					Replay: mkReplay(w, in, "ws")})
			}
		}
		calls, recErrs := w.taken()
		// drop the sentinel's own invocation
		for k, c := range calls {
			if c.Method == "noargs" && len(c.Args) == 0 {
				calls = append(calls[:k:k], calls[k+1:]...)
				break
			}
		}
		o.Calls, o.RecErrs = calls, recErrs
		rn.transportVerdicts(w, in, direct, o, "ws")
		if err != nil {
			conn.CloseNow()
			if derr := dial(); derr != nil {
				res.Note("websocket re-dial failed: %v", derr)
				return
			}
		}
	}
	conn.Close(websocket.StatusNormalClosure, "")
}
