//go:build verif

package main

// Round 6 follow-up — (1) Server.validateParam below the first level of a nested container, (2) Gate.Acquire when
// the waiter's context ends at the moment the slot is handed to it.
//
// (1) Handler parameters typed [][]T, [][2]T, map[string][]T, []map[string]T, [][]*T, [][][]T, [2][]T,
// map[string]map[string]T … (T a struct with a `validate:` rule), a Validator installed; requests whose ONLY invalid
// element sits at depth 2 or 3, at every leaf position, positional, named and inside a batch. Oracle (no model):
// an argument that violates a validation rule is answered -32602 and the handler is not invoked; the all-valid
// argument is handed to the handler exactly once. Model (`vwalk`): which chains of kinds validateParam descends.
//
// (2) Many rounds on the real jsonrpc.Gate with GOMAXPROCS > 1: all slots busy, one waiter queued, Release() and
// the cancel() of the waiter's context racing in three orders. A waiter that returned nil owns a slot and releases
// it; one that returned an error owns nothing. Conservation on the quiescent gate: Running() == 0, Queued() == 0,
// and a fresh POST through HTTP.WithGate on the same gate is admitted and answered.

import (
	"context"
	"encoding/json"
	"fmt"
	"net/http/httptest"
	"reflect"
	"runtime"
	"strings"
	"sync/atomic"
	"time"

	"github.com/NethermindEth/juno/jsonrpc"
	rpcv10 "github.com/NethermindEth/juno/rpc/v10"
	"github.com/NethermindEth/juno/utils/log"
	"verif/harness/lib"
)

// shape: container kinds outermost first — S slice, A array of 2, M map[string], P pointer; the leaf is vstruct
func nestedType(shape string) reflect.Type {
	t := reflect.TypeOf(vstruct{})
	for i := len(shape) - 1; i >= 0; i-- {
		switch shape[i] {
		case 'S':
			t = reflect.SliceOf(t)
		case 'A':
			t = reflect.ArrayOf(2, t)
		case 'M':
			t = reflect.MapOf(reflect.TypeOf(""), t)
		case 'P':
			t = reflect.PointerTo(t)
		}
	}
	return t
}

// nestedValue: the JSON of a value of that shape whose leaves are numbered left to right; leaf `bad` gets A = 0
func nestedValue(shape string, next *int, bad int) string {
	if shape == "" {
		k := *next
		*next++
		if k == bad {
			return `{"A":0}`
		}
		return fmt.Sprintf(`{"A":%d}`, k+1)
	}
	switch shape[0] {
	case 'P':
		return nestedValue(shape[1:], next, bad)
	case 'M':
		return `{"a":` + nestedValue(shape[1:], next, bad) + `,"b":` + nestedValue(shape[1:], next, bad) + `}`
	default: // S, A: two elements
		return `[` + nestedValue(shape[1:], next, bad) + `,` + nestedValue(shape[1:], next, bad) + `]`
	}
}

func (rn *runner) nestedValidation() {
	res := rn.res
	// judged by the oracle: every pointer points directly at the struct
	judged := []string{"S", "SS", "SA", "AS", "MS", "SM", "MM", "SSP", "SMP", "SSS", "SAS", "MSA", "SSM", "AA"}
	// tie only: a pointer to a container is not descended by validateParam as it is (kind Pointer, Elem not Struct)
	tieOnly := []string{"PS", "SPS", "PM"}
	var calls atomic.Int64
	s := jsonrpc.NewServer(2, log.NewNopZapLogger()).WithValidator(rpcv10.Validator())
	errT := reflect.TypeOf((*jsonrpc.Error)(nil))
	anyT := reflect.TypeOf((*any)(nil)).Elem()
	for _, sh := range append(append([]string{}, judged...), tieOnly...) {
		ft := reflect.FuncOf([]reflect.Type{nestedType(sh)}, []reflect.Type{anyT, errT}, false)
		fn := reflect.MakeFunc(ft, func(args []reflect.Value) []reflect.Value {
			calls.Add(1)
			return []reflect.Value{reflect.ValueOf("ok").Convert(anyT), reflect.Zero(errT)}
		})
		if err := s.RegisterMethods(jsonrpc.Method{Name: "n" + sh, Params: []jsonrpc.Parameter{{Name: "v"}}, Handler: fn.Interface()}); err != nil {
			res.Fatalf("nested validation: register %s: %v", sh, err)
			return
		}
	}
	n := 0
	for si, sh := range append(append([]string{}, judged...), tieOnly...) {
		isJudged := si < len(judged)
		leaves := 0
		nestedValue(sh, &leaves, -1)
		for bad := -1; bad < leaves; bad++ {
			k := 0
			val := nestedValue(sh, &k, bad)
			bits := make([]byte, leaves)
			for i := range bits {
				bits[i] = '1'
				if i == bad {
					bits[i] = '0'
				}
			}
			want, err := rn.drv.Ask("vwalk " + sh + " " + string(bits))
			if err != nil || (want != "ok" && want != "refused") {
				res.Fatalf("nested validation: driver answered %q (%v)", want, err)
				return
			}
			for form := 0; form < 3; form++ {
				n++
				var in string
				switch form {
				case 0:
					in = fmt.Sprintf(`{"jsonrpc":"2.0","method":"n%s","params":[%s],"id":%d}`, sh, val, n)
				case 1:
					in = fmt.Sprintf(`{"jsonrpc":"2.0","method":"n%s","params":{"v":%s},"id":%d}`, sh, val, n)
				default:
					in = fmt.Sprintf(`[{"jsonrpc":"2.0","method":"nS","params":[[{"A":1}]]},{"jsonrpc":"2.0","method":"n%s","params":[%s],"id":%d}]`, sh, val, n)
				}
				before := calls.Load()
				var out []byte
				var herr error
				var panicMsg string
				done := lib.WithDeadline(30*time.Second, func() {
					err, panicked, stack := lib.Try(func() error {
						o, _, e := s.HandleReader(context.Background(), strings.NewReader(in))
						out = o
						return e
					})
					if panicked {
						panicMsg = err.Error() + "\n" + firstLines(stack, 12)
					} else {
						herr = err
					}
				})
				ran := calls.Load() - before
				if form == 2 {
					ran-- // the valid notification beside it
				}
				res.Case("nested:"+in, true)
				res.Hit("nested:shape:" + sh)
				replay := map[string]string{"handler_parameter_type": nestedType(sh).String() + " (vstruct{A int `validate:\"min=1\"`})", "validator": "rpcv10.Validator()", "input": in}
				if !done || panicMsg != "" || herr != nil {
					res.Violate(lib.Violation{Sig: "server-panics", What: fmt.Sprintf("[nested parameter %s] %s: done=%v %s %v", nestedType(sh), in, done, panicMsg, herr), Replay: replay})
					continue
				}
				var resp struct {
					Result json.RawMessage `json:"result"`
					Error  *struct {
						Code int `json:"code"`
					} `json:"error"`
				}
				body := out
				if form == 2 {
					var arr []json.RawMessage
					if json.Unmarshal(out, &arr) != nil || len(arr) != 1 {
						res.Violate(lib.Violation{Sig: "batch-not-answered-with-array", What: "[nested parameter] " + in + " -> " + string(out), Replay: replay})
						continue
					}
					body = arr[0]
				}
				if err := json.Unmarshal(body, &resp); err != nil {
					res.Violate(lib.Violation{Sig: "output-not-json", What: "[nested parameter] " + in + " -> " + string(out), Replay: replay})
					continue
				}
				got := "?"
				switch {
				case resp.Error != nil && resp.Error.Code == -32602 && ran == 0:
					got = "refused"
				case resp.Error == nil && resp.Result != nil && ran == 1:
					got = "ok"
				}
				res.Hit("nested:" + got)
				if isJudged {
					exp := "ok"
					if bad >= 0 {
						exp = "refused"
						res.Hit(fmt.Sprintf("nested:invalid-at-depth-%d", len(strings.ReplaceAll(sh, "P", ""))))
					}
					if got != exp {
						res.Violate(lib.Violation{Sig: "nested-argument-violating-validation-rule-reaches-handler",
							What: fmt.Sprintf("handler parameter of type %s, validator installed: leaf %d of %d is %s; expected %s (an argument that violates a validation rule is answered -32602 and the handler is not invoked, a valid one is handed over once); got %s with %d invocation(s) for %s",
								nestedType(sh), bad, leaves, map[bool]string{true: "{\"A\":0} (min=1 violated)", false: "— none, all valid"}[bad >= 0], exp, out, ran, in),
							Replay: replay})
					}
				}
				res.Compared(1)
				if got != want {
					res.Mismatch(lib.Mismatch{Sig: "nested: validateParam descends other kinds than the model", Input: in, Model: want, Impl: got + " " + string(out)})
				}
			}
		}
	}
}

// gateRace: see the file comment (2)
func (rn *runner) gateRace(r *lib.RNG) {
	res := rn.res
	if runtime.GOMAXPROCS(0) < 2 {
		runtime.GOMAXPROCS(4)
	}
	w, err := NewWorld(WorldSpec{Pool: 2, Methods: []MethodSpec{{Name: "noargs", Beh: "echo"}}})
	if err != nil {
		res.Fatalf("gate race: %v", err)
		return
	}
	rounds := rn.f.Scale(3000, 60000)
	for _, c := range []uint{1, 2} {
		g := jsonrpc.NewGate(c, 2)
		hs := httptest.NewServer(jsonrpc.NewHTTP(w.Server, log.NewNopZapLogger()).WithGate(g))
		replay := func(round int, order string) map[string]any {
			return map[string]any{"gate": fmt.Sprintf("NewGate(%d, 2)", c), "round": round,
				"each_round": "Acquire all slots; one more Acquire(ctx) queues; then Release() of one holder and cancel() of the waiter's ctx race (" + order + "); a waiter that got nil releases; all holders release",
				"GOMAXPROCS": runtime.GOMAXPROCS(0)}
		}
		broken := false
		for round := 0; round < rounds && !broken; round++ {
			for i := uint(0); i < c; i++ {
				if err := g.Acquire(context.Background()); err != nil {
					res.Violate(lib.Violation{Sig: "gate-refuses-request-on-idle-server",
						What: fmt.Sprintf("jsonrpc.Gate(%d,2), round %d of the release/cancel race: Acquire on the idle gate = %v (Running=%d Queued=%d)", c, round, err, g.Running(), g.Queued()), Replay: replay(round, "-")})
					broken = true
					break
				}
			}
			if broken {
				break
			}
			ctx, cancel := context.WithCancel(context.Background())
			got := make(chan error, 1)
			go func() { got <- g.Acquire(ctx) }()
			if !settle(func() bool { return g.Queued() == 1 }) {
				res.Fatalf("gate race: the waiter never queued (Running=%d Queued=%d)", g.Running(), g.Queued())
				cancel()
				broken = true
				break
			}
			order := []string{"release-then-cancel", "cancel-then-release", "concurrently"}[round%3]
			spin := r.Intn(200)
			switch order {
			case "release-then-cancel":
				g.Release()
				for i := 0; i < spin; i++ {
				}
				cancel()
			case "cancel-then-release":
				cancel()
				for i := 0; i < spin; i++ {
				}
				g.Release()
			default:
				rel := make(chan struct{})
				go func() { g.Release(); close(rel) }()
				cancel()
				<-rel
			}
			var werr error
			select {
			case werr = <-got:
			case <-time.After(60 * time.Second):
				res.Violate(lib.Violation{Sig: "gate-acquire-hangs", What: fmt.Sprintf("jsonrpc.Gate(%d,2) round %d (%s): the queued Acquire neither gets the released slot nor returns its context error", c, round, order), Replay: replay(round, order)})
				broken = true
			}
			if broken {
				break
			}
			res.Hit("gate-race:" + order)
			owners := int(c) - 1
			if werr == nil {
				owners++
				res.Hit("gate-race:waiter-got-the-slot")
			} else {
				res.Hit("gate-race:waiter-gave-up")
			}
			for i := 0; i < owners; i++ {
				if !lib.WithDeadline(30*time.Second, g.Release) {
					res.Violate(lib.Violation{Sig: "gate-release-blocks", What: fmt.Sprintf("jsonrpc.Gate(%d,2) round %d (%s): Release of an owned slot blocks", c, round, order), Replay: replay(round, order)})
					broken = true
					break
				}
			}
			res.Case(fmt.Sprintf("gate-race:%d:%d", c, round), true)
			// conservation: nothing in flight
			if !broken && (g.Running() != 0 || g.Queued() != 0) && !settle(func() bool { return g.Running() == 0 && g.Queued() == 0 }) {
				res.Violate(lib.Violation{Sig: "gate-keeps-counting-requests-that-have-left",
					What: fmt.Sprintf("jsonrpc.Gate(%d,2), round %d: all slots were busy and one Acquire was queued; a holder's Release() and the cancel() of the waiter's context raced (%s); the waiter returned %v; every owner released. Nothing is in flight but Running=%d Queued=%d (both must be 0): the slot is lost for ever",
						c, round, order, werr, g.Running(), g.Queued()),
					Replay: replay(round, order)})
				broken = true
			}
		}
		// a fresh POST through HTTP.WithGate on the same gate
		if !broken {
			a := post(context.Background(), hs.URL, `{"jsonrpc":"2.0","method":"noargs","id":1}`)
			res.Compared(1)
			if a.err != nil || a.status != 200 || !strings.Contains(a.body, `"result"`) {
				res.Violate(lib.Violation{Sig: "http-gate-refuses-request-on-idle-server",
					What: fmt.Sprintf("jsonrpc.HTTP with Gate(%d,2) after %d rounds of the release/cancel race, nothing in flight: a POST is answered status=%d body=%q err=%v", c, rounds, a.status, a.body, a.err), Replay: replay(rounds, "all")})
			}
		}
		hs.Close()
		if broken {
			return
		}
	}
}
